/-
C02 (round 5) — the interpolation stack as it is written (`Model/TimeMapScipy.lean`: the wrapper
`partitura.utils.generic.interp1d`, scipy's constructor with its stable sort, `np.interp` resp.
`_call_linear`, `_call_previousnext`, the bounds fill) against the recursive `interp` / `qdMap` all other
C02 theorems speak about.

* on the knots of every well-formed part the sort does nothing, and BOTH of scipy's linear code paths
  (numpy's `[x_j, x_j+1)` segment with ordinates copied at knots, scipy's own `(x_j, x_j+1]` segment with
  clipping) return the value of `interp`: the maps do not depend on the segment chosen at a knot
  (`sort_identity_on_part_knots`, `fwdS_eq_fwd`, `invS_eq_inv`, `linear_path_irrelevant`);
* at a key point `np.interp` copies the stored ordinate — no arithmetic — which is why `inv(fwd(t))` is
  exact at the ends of the image although the knot is a rounded number (`np_copies_at_key_points`);
* the inverse maps at the ends of the image and outside it (`inv_at_ends`), the round trip as the code
  computes it (`roundTripS_on_timeline`);
* `quarter_duration_map` as written is `qdMap` for every reachable part (`qdMapS_eq_qdMap`, `built_qdMapS`);
* `Part.quarter_durations(start, end)` (`qdRange_mem`, `qdRange_values_in_force`, `qdRange_all`).
-/
import PartituraModel.Props.C02History
import PartituraModel.Props.C02Args
import PartituraModel.Props.C02Calls
import PartituraModel.Proofs.C02Scipy

namespace C02
open Model.TimeMap C02Proofs

/-! ### linear interpolation: sort, segment choice, both code paths -/

/-- **`np.argsort` in scipy's constructor leaves the knots of a well-formed part alone**, in both directions
(`interp1d(x, y)` sorts by time, `interp1d(y, x)` by map value — the map is strictly increasing) -/
theorem sort_identity_on_part_knots (p : Part) (m : Mode) (h : WF p m) :
    sortKnots (finalKnots p m) = finalKnots p m ∧
    sortKnots (swap (finalKnots p m)) = swap (finalKnots p m) :=
  ⟨sortKnots_knotsOK _ (finalKnots_ok p m h), sortKnots_knotsOK _ (knotsOK_swap _ (finalKnots_ok p m h))⟩

example : sortKnots [(3, 1), (0, 2), (2, 4), (0, 7)] = [(0, 2), (0, 7), (2, 4), (3, 1)] := by decide +kernel

/-- **Both linear code paths of scipy equal `interp` on every strictly increasing knot list**: numpy's
`np.interp` (segment `[x_j, x_j+1)`, ordinates copied at knots and at the last knot) and scipy's
`_call_linear` (`searchsorted` left, clip to `1..n-1`, segment `(x_j, x_j+1]`), each followed by the NaN fill
outside `[x_0, x_n]` — the value at a knot does not depend on which adjacent segment is used. -/
theorem linear_path_irrelevant (ks : List Knot) (hk : KnotsOK ks) (x : Rat) :
    genericInterp1d { npPath := true } ks x = interp ks x ∧
    genericInterp1d { npPath := false } ks x = interp ks x :=
  ⟨genericInterp1d_linear ks hk true x, genericInterp1d_linear ks hk false x⟩

/-- with fewer than two knots the wrapper is the constant function of the only ordinate -/
theorem generic_single_knot (o : Opts) (k : Knot) (x : Rat) : genericInterp1d o [k] x = some k.2 := rfl

example : genericInterp1d {} [(0, 0), (4, 2), (10, 3)] 4 = some 2 ∧
    genericInterp1d { npPath := false } [(0, 0), (4, 2), (10, 3)] 4 = some 2 ∧
    npBranch [(0, 0), (4, 2), (10, 3)] 4 = some (.knot 1) ∧ npBranch [(0, 0), (4, 2), (10, 3)] 10 = some (.lastKnot 2) ∧
    npBranch [(0, 0), (4, 2), (10, 3)] 7 = some (.slope 1) ∧
    genericInterp1d {} [(10, 3), (0, 0), (4, 2)] 7 = some (5/2) ∧ genericInterp1d {} [(0, 0), (4, 2), (10, 3)] 11 = none := by
  decide +kernel

/-- where the two paths DO differ: a repeated abscissa (never produced by a well-formed part) -/
example : genericInterp1d { npPath := true } [(0, 0), (1, 1), (1, 5), (2, 6)] 1 = some 5 ∧
    genericInterp1d { npPath := false } [(0, 0), (1, 1), (1, 5), (2, 6)] 1 = some 1 := by decide +kernel

/-! ### the pickup test as written: `actual_dur < normal_dur and not np.isclose(actual_dur, normal_dur)` -/

/-- the tolerance of the repaired pickup test (fix C02-3) does not bite: the first measure is not shorter than
a bar of its signature by less than `atol + rtol * bar` (decidable; true for every part whose first bar has
fewer than 10^5 divisions, see `notNearBar_iff`) -/
def tolInactiveB (p : Part) (m : Mode) : Bool :=
  match p.m1 with
  | none => true
  | some m1 =>
    match actualDur (knots (keypoints p m) 0) m1 with
    | none => true
    | some a =>
      match p.ts.find? (fun s => s.t = m1.1) with
      | none => true
      | some s => !(decide (a < normalDur m s)) || notNearBar a (normalDur m s)

/-- **what the guard means**: with the tolerances read from the source / numpy (rtol 1e-5, atol 1e-8) a first
measure of length `a` shorter than the bar `n` is still a pickup iff it is shorter by more than `1e-8 + 1e-5 * n` -/
theorem notNearBar_iff (a n : Rat) (han : a < n) (hn : 0 ≤ n) :
    notNearBar a n = true ↔ 1 / 100000000 + 1 / 100000 * n < n - a := by
  unfold notNearBar Gen.C02.pickupTol isclose absQ
  have h1 : a - n < 0 := by linarith
  have h2 : ¬ n < 0 := not_lt.mpr hn
  simp only [h1, h2, if_true, if_false, Bool.not_eq_true', decide_eq_false_iff_not, not_le]
  constructor <;> intro h <;> linarith

theorem actualDurS_eq (ks : List Knot) (hk : KnotsOK ks) (m1 : Int × Int) : actualDurS ks m1 = actualDur ks m1 := by
  unfold actualDurS actualDur
  simp only [linearS_eq_interp _ hk]
  rfl

theorem pickupShiftS_eq (p : Part) (m : Mode) (h : WF p m) (ht : tolInactiveB p m = true) :
    pickupShiftS p m (knots (keypoints p m) 0) = pickupShift p m (knots (keypoints p m) 0) := by
  have hk := knots0_ok p m h
  unfold tolInactiveB at ht
  unfold pickupShiftS pickupShift
  cases hm : p.m1 with
  | none => rfl
  | some m1 =>
    rw [hm] at ht
    simp only at ht ⊢
    rw [actualDurS_eq _ hk]
    cases ha : actualDur (knots (keypoints p m) 0) m1 with
    | none => rfl
    | some a =>
      rw [ha] at ht
      simp only at ht ⊢
      cases hs : p.ts.find? (fun s => s.t = m1.1) with
      | none => rfl
      | some s =>
        rw [hs] at ht
        simp only at ht ⊢
        by_cases hlt : a < normalDur m s
        · have : notNearBar a (normalDur m s) = true := by simpa [hlt] using ht
          simp [hlt, this]
        · simp [hlt]

theorem finalKnotsS_eq (p : Part) (m : Mode) (h : WF p m) (ht : tolInactiveB p m = true) :
    finalKnotsS p m = finalKnots p m := by
  unfold finalKnotsS finalKnots
  simp only [pickupShiftS_eq p m h ht]

/-- **`_time_interpolator` on top of the real interpolation stack is the forward map of the theorems**
(the wrapper, the sort, `np.interp`, the interpolator `f` of the pickup test, the tolerance guard, the NaN fill) -/
theorem fwdS_eq_fwd (p : Part) (m : Mode) (h : WF p m) (ht : tolInactiveB p m = true) (x : Rat) :
    fwdS p m x = fwd p m x := by
  unfold fwdS fwd
  rw [finalKnotsS_eq p m h ht, linearS_eq_interp _ (finalKnots_ok p m h)]

/-- and so is the inverse map `interp1d(y, x)`, whose constructor sorts by `y` -/
theorem invS_eq_inv (p : Part) (m : Mode) (h : WF p m) (ht : tolInactiveB p m = true) (y : Rat) :
    invS p m y = inv p m y := by
  unfold invS inv
  rw [finalKnotsS_eq p m h ht, linearS_eq_interp _ (knotsOK_swap _ (finalKnots_ok p m h))]

/-- fewer than two time points: the two lambdas of the code, no interpolator at all -/
theorem fwdS_invS_degenerate (p : Part) (m : Mode) (h : p.npoints < 2) (x : Rat) :
    fwdS p m x = fwd p m x ∧ invS p m x = inv p m x := by
  unfold fwdS fwd invS inv
  simp [h]

/-- every part reachable through the API: the maps as written are the maps of the theorems -/
theorem built_maps_as_written (q0 : Nat) (hq : 0 < q0) (hs : List HOp) (hv : ∀ op ∈ hs, ValidOp op) (m : Mode)
    (ht : tolInactiveB (buildPart q0 hs) m = true) (x : Rat) :
    fwdS (buildPart q0 hs) m x = fwd (buildPart q0 hs) m x ∧
      invS (buildPart q0 hs) m x = inv (buildPart q0 hs) m x := by
  by_cases h2 : (buildPart q0 hs).npoints < 2
  · exact fwdS_invS_degenerate _ m h2 x
  · have hw := built_part_wf q0 hq hs hv m (by omega)
    exact ⟨fwdS_eq_fwd _ m hw ht x, invS_eq_inv _ m hw ht x⟩

example : tolInactiveB exPart .notated = true ∧ tolInactiveB exPart .quarter = true := by decide +kernel

/-- where the guard DOES bite: a first measure one division short of a 4/4 bar of 4 000 000 divisions is taken for a
full bar by the code (zero at the first time point), while the exact reading makes it a pickup (zero at its end) -/
def nearBar : Part :=
  { npoints := 3, first := 0, last := 8000000, qd := [(0, 1000000)], ts := [⟨0, 4, 4, 4⟩],
    m1 := some (0, 3999999), musical := false }

theorem tolerance_bites_at_huge_divisions :
    WF nearBar .quarter ∧ tolInactiveB nearBar .quarter = false ∧
    fwdS nearBar .quarter 0 = some 0 ∧ fwd nearBar .quarter 0 = some (-3999999 / 1000000) ∧
    fwd nearBar .quarter 3999999 = some 0 := by decide +kernel

example : fwdS exPart .notated 23 = some (22/3) ∧ invS exPart .notated (15/2) = some 24 ∧
    fwdS exPart .quarter 121 = none ∧ roundTripS exPart .notated 120 = some 120 ∧
    roundTripS exPart .notated 0 = some 0 := by decide +kernel

/-! ### key points: copied, not computed -/

/-- **At a key point `np.interp` copies the stored ordinate** (branch `dx[j] == x_val`, or `j == lenxp-1` at
the last key point): the forward map there IS the knot, also in binary64.  In the other direction the same
holds at every knot ordinate, so `inv(fwd(t))` is the stored time itself at every key point — in particular at
both ends of the image, where a value computed in any other way may fall outside by one ulp. -/
theorem np_copies_at_key_points (p : Part) (m : Mode) (h : WF p m) (pre post : List Knot) (k : Knot)
    (he : finalKnots p m = pre ++ k :: post) :
    npBranch (finalKnots p m) k.1 = some (if post = [] then .lastKnot pre.length else .knot pre.length) ∧
    (finalKnots p m)[pre.length]? = some k ∧
    npBranch (swap (finalKnots p m)) k.2 =
      some (if swap post = [] then .lastKnot (swap pre).length else .knot (swap pre).length) ∧
    (swap (finalKnots p m))[(swap pre).length]? = some (k.2, k.1) := by
  have hk := finalKnots_ok p m h
  have hs := knotsOK_swap _ hk
  have he' : swap (finalKnots p m) = swap pre ++ (k.2, k.1) :: swap post := by
    rw [he]; simp [swap]
  rw [he] at hk
  rw [he'] at hs
  have h1 := npBranch_at_knot pre post k hk
  have h2 := npBranch_at_knot (swap pre) (swap post) (k.2, k.1) hs
  rw [he', he]
  exact ⟨h1.1, h1.2, h2.1, h2.2⟩

/-! ### the inverse maps at the ends of the image and outside -/

/-- **The inverse map at the two ends of the image returns the first and the last key point, and is NaN
(`none`) outside the image** -/
theorem inv_at_ends (p : Part) (m : Mode) (h : WF p m) (t0 : Int) (hk : (keyTimes p m).head? = some t0) :
    ∃ y0 y1, fwd p m (t0 : Rat) = some y0 ∧ fwd p m ((lastOf (keyTimes p m) : Int) : Rat) = some y1 ∧
      inv p m y0 = some (t0 : Rat) ∧ inv p m y1 = some ((lastOf (keyTimes p m) : Int) : Rat) ∧
      ∀ y, (y < y0 ∨ y1 < y) → inv p m y = none := by
  obtain ⟨y0, y1, h0, h1, hiff⟩ := inv_defined_iff p m h t0 hk 0
  refine ⟨y0, y1, h0, h1, inv_fwd p m h _ _ h0, inv_fwd p m h _ _ h1, ?_⟩
  intro y hy
  obtain ⟨y0', y1', h0', h1', hiff'⟩ := inv_defined_iff p m h t0 hk y
  rw [h0] at h0'
  rw [h1] at h1'
  cases h0'
  cases h1'
  cases hv : inv p m y with
  | none => rfl
  | some x =>
    have := hiff'.mp ⟨x, hv⟩
    rcases hy with hy | hy
    · linarith [this.1]
    · linarith [this.2]

/-- **`inv(fwd(x))` as the code computes it is `x`** at every position between the first and the last
time point (ends included) -/
theorem roundTripS_on_timeline (p : Part) (m : Mode) (h : WF p m) (ht : tolInactiveB p m = true) (x : Rat)
    (h0 : (p.first : Rat) ≤ x) (h1 : x ≤ (p.last : Rat)) : roundTripS p m x = some x := by
  obtain ⟨y, hy, hi⟩ := inv_fwd_on_timeline p m h x h0 h1
  unfold roundTripS
  rw [fwdS_eq_fwd p m h ht, hy]
  simp only
  rw [invS_eq_inv p m h ht, hi]

example : inv exPart .notated (-2) = some 0 ∧ fwd exPart .notated 120 = some (2203/120) ∧
    inv exPart .notated (2203/120) = some 120 ∧ inv exPart .notated (2203/120 + 1/1000) = none := by decide +kernel

/-! ### quarter_duration_map as written -/

/-- **`Part.quarter_duration_map` as written** — a single entry duplicated (`x + x`, `y + y`), the wrapper,
scipy's sort, `_call_previousnext` on the shifted knots, the fill values `(y[0], y[-1])` — **is `qdMap`** for
every strictly increasing list of change times -/
theorem qdMapS_eq_qdMap (qd : List (Int × Nat)) (hs : (qd.map (·.1)).Pairwise (· < ·)) (t : Rat) :
    qdMapS qd t = Option.map (fun (n : Nat) => (n : Rat)) (qdMap qd t) := qdMapS_eq qd hs t

/-- in particular for every part reachable through the API -/
theorem built_qdMapS (q0 : Nat) (hq : 0 < q0) (hs : List HOp) (hv : ∀ op ∈ hs, ValidOp op) (t : Rat) :
    qdMapS (buildPart q0 hs).qd t = Option.map (fun (n : Nat) => (n : Rat)) (qdMap (buildPart q0 hs).qd t) :=
  qdMapS_eq _ (built_qd q0 hq hs hv).2.1 t

example : qdMapS exPart.qd 30 = some 6 ∧ qdMapS exPart.qd 31 = some 5 ∧ qdMapS exPart.qd (-3) = some 4 ∧
    qdMapS [(0, 7)] 5 = some 7 ∧ qdMapS [(0, 7)] (-5) = some 7 ∧ qdMapS [(0, 7)] 0 = some 7 := by decide +kernel

/-! ### Part.quarter_durations(start, end) -/

/-- **the rows returned are exactly the stored changes with `start <= time < end`** (an omitted bound does
not restrict), in the stored order -/
theorem qdRange_mem (qd : List (Int × Nat)) (start stop : Option Rat) (e : Int × Nat) :
    e ∈ qdRange qd start stop ↔
      e ∈ qd ∧ (∀ s, start = some s → s ≤ (e.1 : Rat)) ∧ (∀ s, stop = some s → (e.1 : Rat) < s) := by
  unfold qdRange
  cases start <;> cases stop <;> (simp [List.mem_filter]; try tauto)

theorem qdRange_sublist (qd : List (Int × Nat)) (start stop : Option Rat) : (qdRange qd start stop).Sublist qd := by
  unfold qdRange
  cases start <;> cases stop <;> simp only
  · exact List.Sublist.refl _
  · exact List.filter_sublist
  · exact List.filter_sublist
  · exact List.Sublist.trans List.filter_sublist List.filter_sublist

theorem qdRange_all (qd : List (Int × Nat)) : qdRange qd none none = qd := rfl

/-- **every row carries the quarter duration in force at its time**: `quarter_duration_map(time) = duration` -/
theorem qdRange_values_in_force (qd : List (Int × Nat)) (hs : (qd.map (·.1)).Pairwise (· < ·))
    (start stop : Option Rat) (e : Int × Nat) (he : e ∈ qdRange qd start stop) :
    qdMap qd (e.1 : Rat) = some e.2 :=
  qdMap_at_change qd hs e ((qdRange_mem qd start stop e).mp he).1

/-- the times of the rows are strictly increasing -/
theorem qdRange_sorted (qd : List (Int × Nat)) (hs : (qd.map (·.1)).Pairwise (· < ·)) (start stop : Option Rat) :
    ((qdRange qd start stop).map (·.1)).Pairwise (· < ·) :=
  hs.sublist ((qdRange_sublist qd start stop).map _)

example : qdRange exPart.qd (some 10) (some 77) = [(10, 6), (31, 5)] ∧ qdRange exPart.qd none (some 10) = [(0, 4)] ∧
    qdRange exPart.qd (some (21/2)) none = [(31, 5), (77, 12)] := by decide +kernel

/-! ### NaN and infinite arguments -/

/-- **finite arguments**: the argument-typed functions are the maps above -/
theorem arg_num (p : Part) (m : Mode) (qd : List (Int × Nat)) (x : Rat) :
    fwdSArg p m (.num x) = fwdS p m x ∧ invSArg p m (.num x) = invS p m x ∧ qdMapSArg qd (.num x) = qdMapS qd x :=
  ⟨rfl, rfl, rfl⟩

/-- **NaN and ±inf are mapped to NaN by the four maps** of every part with two or more time points (a part with
fewer returns its constant); `quarter_duration_map` returns the LAST duration for NaN and +inf and the first one
for -inf -/
theorem arg_nonfinite (p : Part) (m : Mode) (h : WF p m) (ht : tolInactiveB p m = true) :
    fwdSArg p m .nan = none ∧ fwdSArg p m .posInf = none ∧ fwdSArg p m .negInf = none ∧
    invSArg p m .nan = none ∧ invSArg p m .posInf = none ∧ invSArg p m .negInf = none := by
  have hk := finalKnots_ok p m h
  have hn : ¬ p.npoints < 2 := by have := h.1; omega
  have h1 := knotsOK_length _ hk
  have h2 := knotsOK_length _ (knotsOK_swap _ hk)
  unfold fwdSArg invSArg linearSArg genericInterp1dArg
  rw [finalKnotsS_eq p m h ht]
  simp only [hn, if_false, h1, h2, if_true]
  exact ⟨rfl, rfl, rfl, rfl, rfl, rfl⟩

theorem qdMapSArg_nonfinite (t0 : Int) (q0 : Nat) (rest : List (Int × Nat))
    (hs : (((t0, q0) :: rest).map (·.1)).Pairwise (· < ·)) :
    qdMapSArg ((t0, q0) :: rest) .negInf = some (q0 : Rat) ∧
    qdMapSArg ((t0, q0) :: rest) .posInf = (lastKnot (qdKnots ((t0, q0) :: rest))).map (·.2) ∧
    qdMapSArg ((t0, q0) :: rest) .nan = (lastKnot (qdKnots ((t0, q0) :: rest))).map (·.2) := by
  cases rest with
  | nil =>
    have hsrt : sortKnots [((t0 : Rat), (q0 : Rat)), ((t0 : Rat), (q0 : Rat))] = [((t0 : Rat), (q0 : Rat)), ((t0 : Rat), (q0 : Rat))] :=
      sortKnots_of_pairwise_le _ (by simp)
    refine ⟨rfl, rfl, ?_⟩
    show genericInterp1dArg _ [((t0 : Rat), (q0 : Rat)), ((t0 : Rat), (q0 : Rat))] .nan = _
    unfold genericInterp1dArg
    rw [if_pos (by simp), hsrt]
    rfl
  | cons e r =>
    have hlen : ¬ (qdKnots ((t0, q0) :: e :: r)).length = 1 := by simp [qdKnots]
    have hlen2 : 1 < (qdKnots ((t0, q0) :: e :: r)).length := by simp [qdKnots]
    have hp : ((qdKnots ((t0, q0) :: e :: r)).map (·.1)).Pairwise (· ≤ ·) := by
      unfold qdKnots
      rw [List.map_map]
      have := List.Pairwise.map (fun (a : Int) => (a : Rat)) (fun a b (h : a < b) => le_of_lt ((Int.cast_lt (R := Rat)).mpr h)) hs
      rwa [List.map_map] at this
    obtain ⟨kl, hkl⟩ : ∃ kl, lastKnot (qdKnots ((t0, q0) :: e :: r)) = some kl := by
      obtain ⟨kl, h1, _⟩ := lastKnot_fst (qdKnots (e :: r)) (t0 : Rat) (q0 : Rat)
      exact ⟨kl, h1⟩
    have hhead : (qdKnots ((t0, q0) :: e :: r)).head? = some ((t0 : Rat), (q0 : Rat)) := rfl
    unfold qdMapSArg
    simp only [hlen, if_false, hhead, hkl]
    unfold genericInterp1dArg
    rw [if_pos hlen2, sortKnots_of_pairwise_le _ hp]
    refine ⟨rfl, rfl, ?_⟩
    simp only [scipyEvaluateArg, Option.map_some]
    have hc : clip (qdKnots ((t0, q0) :: e :: r)).length 1 (qdKnots ((t0, q0) :: e :: r)).length - 1
        = (qdKnots ((t0, q0) :: e :: r)).length - 1 := by unfold clip; omega
    rw [hc]
    have : ∀ (l : List Knot) (k : Knot), lastKnot l = some k → l[l.length - 1]? = some k := by
      intro l
      induction l with
      | nil => intro k h; simp [lastKnot] at h
      | cons a as ih =>
        intro k h
        cases as with
        | nil => simpa [lastKnot] using h
        | cons b bs =>
          have := ih k (by simpa [lastKnot] using h)
          simpa using this
    rw [this _ kl hkl]
    rfl

example : qdMapSArg exPart.qd .nan = some 12 ∧ qdMapSArg exPart.qd .posInf = some 12 ∧ qdMapSArg exPart.qd .negInf = some 4 ∧
    fwdSArg exPart .notated .nan = none ∧ invSArg exPart .quarter .posInf = none ∧
    genericInterp1dArg {} [(2, 7)] .nan = some 7 := by decide +kernel

/-! ### the statement, for the maps as they are written, of every part reachable through the API -/

/-- **C02 for the code as written.**  Take any part built through the API (`Part(quarter_duration=q0)`, then any
valid history of `set_quarter_duration` / `add` / musical-beat switches / queries) with two or more time points
whose first measure is not within rounding tolerance of a full bar.  Then for the maps as the code computes them
(wrapper, scipy's sort, `np.interp`, pickup guard, NaN fill):
1. between any two positions the map advances by exactly the sum over the stretches between key points of
   length × factor / quarter duration in force (`elapsed`), it is non-decreasing and strictly increasing;
2. `inv(fwd(x)) = x` at every position from the first to the last time point (ends included);
3. the map is a number exactly from time 0 to the last key point;
4. `quarter_duration_map` returns, at every time ≥ 0, the value of the last recorded call among those with the
   greatest time at or before it. -/
theorem property_as_written (q0 : Nat) (hq : 0 < q0) (hs : List HOp) (hv : ∀ op ∈ hs, ValidOp op) (m : Mode)
    (h2 : 2 ≤ (buildPart q0 hs).npoints) (ht : tolInactiveB (buildPart q0 hs) m = true) :
    (∀ a b ya yb, a ≤ b → fwdS (buildPart q0 hs) m a = some ya → fwdS (buildPart q0 hs) m b = some yb →
        yb - ya = elapsed (keypoints (buildPart q0 hs) m) a b ∧ ya ≤ yb ∧ (a < b → ya < yb)) ∧
    (∀ x, ((buildPart q0 hs).first : Rat) ≤ x → x ≤ ((buildPart q0 hs).last : Rat) →
        roundTripS (buildPart q0 hs) m x = some x) ∧
    (∀ x, (∃ y, fwdS (buildPart q0 hs) m x = some y) ↔
        (0 : Rat) ≤ x ∧ x ≤ ((lastOf (keyTimes (buildPart q0 hs) m) : Int) : Rat)) ∧
    (∀ x, 0 ≤ x → qdMapS (buildPart q0 hs).qd x =
        Option.map (fun (n : Nat) => (n : Rat)) (inForce (recorded q0 (qdCalls hs)) x)) := by
  have hw := built_part_wf q0 hq hs hv m h2
  refine ⟨?_, ?_, ?_, ?_⟩
  · intro a b ya yb hab ha hb
    rw [fwdS_eq_fwd _ m hw ht] at ha hb
    exact ⟨fwd_exact _ m hw a b ya yb hab ha hb, fwd_mono _ m hw a b ya yb hab ha hb,
      fun hlt => fwd_strictMono _ m hw a b ya yb hlt ha hb⟩
  · intro x h0 h1
    exact roundTripS_on_timeline _ m hw ht x h0 h1
  · intro x
    rw [fwdS_eq_fwd _ m hw ht]
    have := fwd_defined_iff _ m hw 0 (built_first_key_zero q0 hq hs hv m) x
    simpa using this
  · intro x hx
    rw [built_qdMapS q0 hq hs hv, built_qd_represents q0 hs hv x hx]

/-- non-vacuity: the hypotheses hold for the history of `C02History` (pickup of 4 divisions in 6/8 with 7 user
beats, three quarter durations, queries interleaved), and the maps as written give numbers there -/
example : 2 ≤ (buildPart 4 exHist).npoints ∧ tolInactiveB (buildPart 4 exHist) .musical = true ∧
    tolInactiveB (buildPart 4 exHist) .quarter = true ∧
    fwdS (buildPart 4 exHist) .musical 0 = some (-7/3) ∧ fwdS (buildPart 4 exHist) .musical 4 = some 0 ∧
    roundTripS (buildPart 4 exHist) .musical 60 = some 60 ∧ qdMapS (buildPart 4 exHist).qd 65 = some 6 := by
  decide +kernel

end C02
