/-
C13, round 6 — encoder ∘ decoder as ONE statement about the array `pianoroll_to_notearray` returns.

`decode_encode(_shift)` (Props/C13.lean, Props/C13Shift.lean) speak about the exact rational times of the decoder;
`stored_grid` (Props/C13Float.lean) about their storage in the float32 columns.  Composed: at a power-of-two
resolution (1, 2, 4, 8 — the default —, 16, ...) the STORED note array of the roll of grid-aligned, non-touching notes
holds every pitch, onset, duration and velocity exactly (no `inf`, no rounding) — with `remove_silence`, a time margin
or an `end_time` every onset moved by the one shift the decoder cannot know.
-/
import PartituraModel.Props.C13Shift
import PartituraModel.Props.C13Float

namespace C13
open Model Model.PianoRoll
open List

private theorem stored_of_decode (r : Roll) (td : Int) (j : Nat) (htd : td = 2 ^ j) (hj : j ≤ 149) (hcols : r.cols < 2 ^ 24)
    (out : List OutNote) (h : decode r.rows.toNat r.toCols (td : ℚ) = some out) :
    decodeStored r.rows.toNat r.toCols (some (td : ℚ)) = some (out.map fun (p, on, du, v) => (p, some on, some du, v)) := by
  have hq : (td : ℚ) = (2 : ℚ) ^ (j : Int) := by
    rw [htd, zpow_natCast]
    push_cast
    rfl
  have hlen : r.toCols.length < 2 ^ 24 := by
    rw [length_toCols]
    omega
  rw [hq] at h ⊢
  rw [stored_grid r.rows.toNat r.toCols (j : Int) (by omega) (by omega) hlen, h]
  rfl

/-- **round trip through the returned array** (`time_div = 2^j`, fewer than `2^24` frames): the stored note array of the
    roll of grid-aligned, non-touching notes holds every pitch, onset, duration and velocity exactly -/
theorem roundtrip_stored (o : Opts) (notes : List Note) (r : Roll) (ho : RoundTripOpts o)
    (h : makePianoroll o notes = some r) (hg : ∀ n ∈ notes, GridAligned o n) (hv : ∀ n ∈ notes, 0 < n.vel)
    (hnt : NonTouching notes)
    (hpr : o.pianoRange = true → ∀ n ∈ notes, 21 ≤ n.pitch ∧ n.pitch ≤ 108)
    (j : Nat) (htd : o.timeDiv = 2 ^ j) (hj : j ≤ 149) (hcols : r.cols < 2 ^ 24) :
    ∃ out, decodeStored r.rows.toNat r.toCols (some (o.timeDiv : ℚ)) = some out ∧
      out ~ notes.map (fun n => (n.pitch, some n.onset, some n.dur, n.vel)) := by
  obtain ⟨out, h1, h2⟩ := decode_encode o notes r ho h hg hv hnt hpr
  refine ⟨_, stored_of_decode r o.timeDiv j htd hj hcols out h1, ?_⟩
  have := h2.map (fun (x : OutNote) => ((x.1, some x.2.1, some x.2.2.1, x.2.2.2) : Int × Option ℚ × Option ℚ × Int))
  rw [map_map] at this
  exact this

/-- **the same with `remove_silence` / a time margin / `end_time` / `piano_range`**: every stored onset is the note's
    onset moved by the one shift `int(time_margin * time_div) / time_div - min_time`, exactly -/
theorem roundtrip_stored_shift (o : Opts) (notes : List Note) (r : Roll) (ho : ShiftOpts o)
    (h : makePianoroll o notes = some r) (hg : ∀ n ∈ notes, GridAlignedAt o (t0Of o notes) n)
    (hv : ∀ n ∈ notes, 0 < n.vel) (hnt : NonTouching notes)
    (hpr : o.pianoRange = true → ∀ n ∈ notes, 21 ≤ n.pitch ∧ n.pitch ≤ 108)
    (j : Nat) (htd : o.timeDiv = 2 ^ j) (hj : j ≤ 149) (hcols : r.cols < 2 ^ 24) :
    ∃ out, decodeStored r.rows.toNat r.toCols (some (o.timeDiv : ℚ)) = some out ∧
      out ~ notes.map (fun n =>
        (n.pitch, some (n.onset + (((marginFrames o : Int) : ℚ) / (o.timeDiv : ℚ) - t0Of o notes)), some n.dur, n.vel)) := by
  obtain ⟨out, h1, h2⟩ := decode_encode_shift o notes r ho h hg hv hnt hpr
  refine ⟨_, stored_of_decode r o.timeDiv j htd hj hcols out h1, ?_⟩
  have := h2.map (fun (x : OutNote) => ((x.1, some x.2.1, some x.2.2.1, x.2.2.2) : Int × Option ℚ × Option ℚ × Int))
  rw [map_map] at this
  exact this

/-- non-vacuity: the round-trip example of Props/C13.lean (`time_div = 2 = 2^1`), as stored -/
example : (makePianoroll rtOpts rtNotes).bind (fun r => decodeStored r.rows.toNat r.toCols (some 2))
    = some [(60, some (1/2), some 1, 50), (62, some (1/2), some 3, 90), (60, some 2, some 1, 10)] := by decide +kernel

end C13
