import PartituraModel.Model.Codec
import Mathlib.Tactic.Linarith

namespace C18
open Model Model.Codec

theorem clip_placeholder_partial : clipInt 1 127 5 = 5 := by decide

end C18
