/-
C18 — decoding an encoded performance reproduces the performance.

Property theorems about the executable model `Model/Codec.lean` (exact rationals).  The
logarithm/exponential identities live in `Props/C18Real.lean`.  What the theorems say:

* `timing_roundtrip`      onsets: decode (encode x) = performed onsets − earliest performed onset, for
                          ANY positive beat-period sequence (any tempo-curve method) and every normalisation
* `encode_average`        the built-in "average" tempo curve is one such sequence
* `duration_roundtrip_partial`  durations of the matched score come back, except for notes without score
                          duration (open finding F-C18-2); `matched_row_duration_partial`: the matched score
                          holds the performed duration only if it is at least 0.075 s (open finding F-C18-4)
* `velocity_roundtrip`    velocities, with room for the float32 storage
* `normalisation_inverse` rescale ∘ scale = id for the five normalisations (over ℚ; `2^column` for the
                          logarithmic ones, see C18Real for log/exp)
* `matched_table`, `matched_notes`   the matched-note tables
* `time_maps_knots`, `time_maps_interp`  the time maps
-/
import PartituraModel.Proofs.C18Roundtrip
import PartituraModel.Proofs.C18Norm
import PartituraModel.Proofs.C18Match
import PartituraModel.Proofs.C18Interp

namespace C18
open Model Model.Codec C18P

/-- `sd` is a square root of the variance of the beat periods (`np.std`); only read by `standardized` -/
def StdOk (n : Norm) (sd : Rat) (bp : List Rat) : Prop := n = .std → sd * sd = variance bp

-- ------------------------------------------------------------------ normalisations

/-- every row of normalisation columns rescales to the beat period it was computed from -/
theorem normalisation_inverse (n : Norm) (sd : Rat) (bps : List Rat) (hpos : ∀ b ∈ bps, 0 < b)
    (hstd : StdOk n sd bps) :
    List.Forall₂ (fun c b => rescale n c = some b) (scale n sd bps) bps :=
  scale_rescale n sd bps hpos hstd

example : StdOk .std 1 [1, 3] := by intro _; unfold variance mean sumR; simp [sumR]; norm_num
example : scale .std 1 [1, 3] = [[-1, 2, 1], [1, 2, 1]] := by decide +kernel
/-- a constant tempo curve: zero deviation, standardised value 0 (repair C18-7) -/
example : scale .std 0 [3/4, 3/4] = [[0, 3/4, 0], [0, 3/4, 0]] ∧ rescale .std [0, 3/4, 0] = some (3/4) := by
  decide +kernel

-- ------------------------------------------------------------------ timing, durations

/-- decoding the encoded parameters gives every note its performed onset minus the earliest
    performed onset: for every normalisation, for ANY positive beat-period sequence `bp` (one per
    onset group — whatever tempo-curve method produced it), any grouping into chords, any performed
    onsets and durations. -/
theorem timing_roundtrip (n : Norm) (sd : Rat) (ns : List MNote) (bp : List Rat)
    (hne : ns ≠ []) (hlen : bp.length = (encGroups ns).length)
    (hpos : ∀ b ∈ bp, 0 < b) (hsd : ∀ x ∈ ns, 0 ≤ x.sd) (hstd : StdOk n sd bp) :
    ∃ ps, encode (.given bp) n sd ns = some ps ∧ ps.length = ns.length ∧
      (decodeTime n (List.zipWith toDRow ns ps)).map (fun l => l.map Prod.fst)
        = some (ns.map fun x => x.po - minPo ns) := by
  obtain ⟨ps, h1, h2, h3⟩ := codec_roundtrip n sd ns bp hne hlen hpos hsd (scale_rescale n sd bp hpos hstd)
  refine ⟨ps, h1, h2, ?_⟩
  rw [h3]
  simp [List.map_map, Function.comp]

/-- the decoded durations are the durations of the matched score, EXCEPT that a note without score
    duration (grace note) decodes to duration 0 whatever it was played like (open finding F-C18-2).
    Together with `matched_row_duration_partial` (clip at 0.075 s, F-C18-4) this is what holds of the
    property's duration clause. -/
theorem duration_roundtrip_partial (n : Norm) (sd : Rat) (ns : List MNote) (bp : List Rat)
    (hne : ns ≠ []) (hlen : bp.length = (encGroups ns).length)
    (hpos : ∀ b ∈ bp, 0 < b) (hsd : ∀ x ∈ ns, 0 ≤ x.sd) (hstd : StdOk n sd bp) :
    ∃ ps, encode (.given bp) n sd ns = some ps ∧
      (decodeTime n (List.zipWith toDRow ns ps)).map (fun l => l.map Prod.snd)
        = some (ns.map fun x => if x.sd = 0 then 0 else x.pd) := by
  obtain ⟨ps, h1, _, h3⟩ := codec_roundtrip n sd ns bp hne hlen hpos hsd (scale_rescale n sd bp hpos hstd)
  refine ⟨ps, h1, ?_⟩
  rw [h3]
  simp [List.map_map, Function.comp]

/-- the built-in `average` tempo curve is one admissible `bp` (its positivity is checked on every
    generated case by the harness) -/
theorem encode_average (n : Norm) (sd : Rat) (ns : List MNote) (bp : List Rat)
    (h : tempoAverage ns (encGroups ns) = some bp) (hlen : bp.length = (encGroups ns).length) :
    encode .average n sd ns = encode (.given bp) n sd ns := by
  unfold encode
  simp only [h, hlen, if_true]

/-- a chord (two notes on one onset), a second onset and a grace note; beat periods 1/2, 3/4, 1 -/
def demoNotes : List MNote := [⟨0, 1, 1, 1/2⟩, ⟨0, 2, 17/16, 1⟩, ⟨1, 1, 3/2, 1/4⟩, ⟨2, 0, 9/4, 1/8⟩]

example : demoNotes ≠ [] ∧ [(1 : Rat)/2, 3/4, 1].length = (encGroups demoNotes).length
    ∧ (∀ b ∈ [(1 : Rat)/2, 3/4, 1], 0 < b) ∧ (∀ x ∈ demoNotes, 0 ≤ x.sd) := by decide +kernel
example : StdOk .ratio 0 [1/2, 3/4, 1] := by intro h; cases h
example : (encode (.given [1/2, 3/4, 1]) .ratio 0 demoNotes).map (fun ps => ps.map (·.timing))
    = some [1/32, -1/32, 1/32, 1/32] := by decide +kernel
/-- F-C18-2 at the witness: the grace note played for 1/8 s decodes to 0 s -/
example : ∃ ps, encode (.given [1/2, 3/4, 1]) .bp 0 demoNotes = some ps ∧
    (decodeTime .bp (List.zipWith toDRow demoNotes ps)).map (fun l => l.map Prod.snd) = some [1/2, 1, 1/4, 0]
    ∧ ¬ (decodeTime .bp (List.zipWith toDRow demoNotes ps)).map (fun l => l.map Prod.snd)
          = some (demoNotes.map (·.pd)) := by
  decide +kernel

-- ------------------------------------------------------------------ velocity

/-- a MIDI velocity survives `v/127` → (anything within 1/254 of it, e.g. its float32 rounding)
    → `clip(round(·127), 1, 127)` -/
theorem velocity_roundtrip (v : Int) (h1 : 1 ≤ v) (h2 : v ≤ 127) (x : Rat) (hx : |x - encodeVel v| < 1 / 254) :
    decodeVel x = v := by
  unfold decodeVel encodeVel at *
  have h : |x * 127 - (v : Rat)| < 1 / 2 := by
    have e : x * 127 - (v : Rat) = (x - (v : Rat) / 127) * 127 := by ring
    rw [e, abs_mul]
    have : |(127 : Rat)| = 127 := abs_of_pos (by norm_num)
    rw [this]
    have := mul_lt_mul_of_pos_right hx (show (0 : Rat) < 127 by norm_num)
    linarith
  rw [roundHalfEven_near v _ h]
  unfold clipInt
  rw [if_neg (by omega), if_neg (by omega)]

theorem velocity_roundtrip_exact (v : Int) (h1 : 1 ≤ v) (h2 : v ≤ 127) : decodeVel (encodeVel v) = v :=
  velocity_roundtrip v h1 h2 _ (by simp)

example : decodeVel (encodeVel 64) = 64 := velocity_roundtrip_exact 64 (by decide) (by decide)
/-- the float32 nearest to 1/127 -/
example : decodeVel (8454661 / 1073741824) = 1 :=
  velocity_roundtrip 1 (by decide) (by decide) _ (by unfold encodeVel; norm_num [abs_lt])

-- ------------------------------------------------------------------ matched tables

/-- `get_matched_notes`: exactly the alignment's matches whose ids exist on both sides -/
theorem matched_notes (ss : List SRow) (ps : List PRow) (al : List ARow) (i j : Nat) :
    (i, j) ∈ matchedNotes ss ps al ↔
      ∃ a ∈ al, a.label = "match" ∧ ∃ s p, a.sid = some s ∧ a.pid = some p ∧
        sIndex ss s = some i ∧ pIndex ps p = some j :=
  mem_matchedNotes ss ps al i j

/-- `to_matched_score`, when it returns: its rows are built (`mkRow`) from a rearrangement of exactly
    the matches with both ids present, ordered by (onset_div, pitch) -/
theorem matched_table (ss : List SRow) (ps : List PRow) (al : List ARow) (rows : List MRow)
    (h : toMatchedScore ss ps al = some rows) :
    ∃ pairs : List (Nat × Nat), pairs.Perm (matchedNotes ss ps al) ∧
      pairs.Pairwise (fun a b => lexLe (sKey ss a.1) (sKey ss b.1) = true) ∧
      List.Forall₂ (fun ij r => mkRow ss ps ij = some r) pairs rows := by
  unfold toMatchedScore at h
  cases hp : matchedPairs ss ps al with
  | none => rw [hp] at h; simp at h
  | some pairs =>
    rw [hp] at h
    obtain ⟨h1, h2⟩ := matchedPairs_spec ss ps al pairs hp
    refine ⟨pairs, h1, h2, ?_⟩
    simp only at h
    rw [allSome_eq_some] at h
    rw [← List.forall₂_map_left_iff (f := mkRow ss ps) (R := fun o r => o = some r), h,
      List.forall₂_map_left_iff]
    exact List.forall₂_same.mpr (fun _ _ => rfl)

/-- it returns whenever no match with a known score id points to an unknown performance id -/
theorem matched_table_defined (ss : List SRow) (ps : List PRow) (al : List ARow)
    (h : ∀ a ∈ al, a.label = "match" → ∃ s, a.sid = some s ∧
      (sIndex ss s = none ∨ ∃ p, a.pid = some p ∧ (pIndex ps p).isSome)) :
    (notePairs ss ps al).isSome := by
  induction al with
  | nil => simp [notePairs]
  | cons a rest ih =>
    rw [notePairs]
    have ih' := ih (fun b hb => h b (by simp [hb]))
    cases hr : notePairs ss ps rest with
    | none => rw [hr] at ih'; simp at ih'
    | some tl =>
      simp only
      by_cases hm : a.label = "match"
      · obtain ⟨s, hs, hcase⟩ := h a (by simp) hm
        simp only [hm, if_true, hs]
        rcases hcase with h0 | ⟨p, hp, hj⟩
        · simp [h0]
        · cases hi : sIndex ss s with
          | none => simp
          | some i =>
            obtain ⟨j, hj'⟩ := Option.isSome_iff_exists.mp hj
            simp [hp, hj']
      · simp [hm]

/-- content of a row; the performed duration is kept only if it is at least 0.075 s
    (open finding F-C18-4) -/
theorem matched_row_duration_partial (ss : List SRow) (ps : List PRow) (ij : Nat × Nat) (r : MRow)
    (h : mkRow ss ps ij = some r) :
    ∃ s p, ss[ij.1]? = some s ∧ ps[ij.2]? = some p ∧ r.sidx = ij.1 ∧ r.so = s.so ∧ r.sd = s.sd ∧
      r.pitch = s.pitch ∧ r.po = p.po ∧ r.vel = p.vel ∧ (3 / 40 ≤ p.pd → r.pd = p.pd) := by
  unfold mkRow at h
  cases hs : ss[ij.1]? with
  | none => rw [hs] at h; simp at h
  | some s =>
    cases hp : ps[ij.2]? with
    | none => rw [hs, hp] at h; simp at h
    | some p =>
      rw [hs, hp] at h
      simp only [Option.some.injEq] at h
      refine ⟨s, p, rfl, rfl, ?_⟩
      rw [← h]
      refine ⟨rfl, rfl, rfl, rfl, rfl, rfl, ?_⟩
      intro hge
      have hn : ¬ (clipDur > p.pd) := by unfold clipDur; exact not_lt.mpr hge
      show (if clipDur > p.pd then clipDur else p.pd) = p.pd
      rw [if_neg hn]

def demoScore : List SRow := [⟨"n0", 0, 60, 0, 1⟩, ⟨"n1", 0, 55, 0, 2⟩, ⟨"n2", 4, 62, 1, 1⟩]
def demoPerf : List PRow := [⟨"p0", 1, 3/64, 70⟩, ⟨"p1", 17/16, 1, 60⟩, ⟨"p9", 5, 1, 50⟩]
def demoAl : List ARow := [⟨"match", some "n2", some "p1"⟩, ⟨"insertion", none, some "p9"⟩,
  ⟨"match", some "n0", some "p0"⟩, ⟨"match", some "zz", some "p9"⟩, ⟨"deletion", some "n1", none⟩]

example : toMatchedScore demoScore demoPerf demoAl
    = some [⟨0, 0, 1, 60, 1, 3/40, 70⟩, ⟨2, 1, 1, 62, 17/16, 1, 60⟩] := by decide +kernel
/-- F-C18-4 at the witness: the note played for 3/64 s (46.9 ms) is tabled with 3/40 s -/
example : ∃ r, mkRow demoScore demoPerf (0, 0) = some r ∧ r.pd ≠ 3/64 := ⟨_, rfl, by decide +kernel⟩
example : (notePairs demoScore demoPerf [⟨"match", some "n0", some "p7"⟩]) = none := by decide +kernel

-- ------------------------------------------------------------------ time maps

/-- the knots: one per score onset at which a (non-ornament) note is matched, carrying the mean
    performed onset of those notes; score onsets strictly increasing -/
theorem time_maps_knots (ro : Bool) (rows : List TRow) :
    IncX (timeKnots ro rows) ∧
    ∀ u m, (u, m) ∈ timeKnots ro rows ↔
      (∃ r ∈ rows, r.1 = u ∧ (ro = true → r.2.1 > 0)) ∧
        m = mean ((rows.filter fun r => decide (r.1 = u) && (!ro || decide (r.2.1 > 0))).map (·.2.2)) := by
  refine ⟨timeKnots_incX ro rows, ?_⟩
  intro u m
  unfold timeKnots
  rw [List.mem_filterMap]
  constructor
  · rintro ⟨a, ha, h⟩
    simp only at h
    split at h
    · simp at h
    · rename_i x xs hsel
      simp only [Option.some.injEq, Prod.mk.injEq] at h
      obtain ⟨rfl, rfl⟩ := h
      refine ⟨?_, by rw [hsel]⟩
      have hx : x ∈ rows.filter fun r => decide (r.1 = a) && (!ro || decide (r.2.1 > 0)) := by
        rw [hsel]; simp
      rw [List.mem_filter] at hx
      refine ⟨x, hx.1, ?_, ?_⟩
      · have := hx.2
        simp only [Bool.and_eq_true, decide_eq_true_eq] at this
        exact this.1
      · intro hro
        have := hx.2
        simp only [Bool.and_eq_true, decide_eq_true_eq, Bool.or_eq_true, Bool.not_eq_true'] at this
        rcases this.2 with h' | h'
        · rw [hro] at h'; cases h'
        · exact h'
  · rintro ⟨⟨r, hr, hru, hro⟩, hm⟩
    refine ⟨u, ?_, ?_⟩
    · rw [mem_uniqueSorted]
      exact List.mem_map.mpr ⟨r, hr, hru⟩
    · simp only
      have hx : r ∈ rows.filter fun r => decide (r.1 = u) && (!ro || decide (r.2.1 > 0)) := by
        rw [List.mem_filter]
        refine ⟨hr, ?_⟩
        simp only [Bool.and_eq_true, decide_eq_true_eq, Bool.or_eq_true, Bool.not_eq_true']
        refine ⟨hru, ?_⟩
        cases ro with
        | false => left; rfl
        | true => right; exact hro rfl
      split
      · rename_i hnil; rw [hnil] at hx; simp at hx
      · rename_i x xs hsel
        rw [hm, hsel]

/-- the score→performance map passes through every knot; when the mean performed onsets are
    strictly increasing the performance→score map passes through every knot as well and, with at
    least two knots, the two maps are inverse to each other everywhere (extrapolation included) -/
theorem time_maps_interp (ro : Bool) (rows : List TRow) :
    (∀ u m, (u, m) ∈ timeKnots ro rows → stimeToPtime (timeKnots ro rows) u = some m) ∧
    (IncY (timeKnots ro rows) →
      (∀ u m, (u, m) ∈ timeKnots ro rows → ptimeToStime (timeKnots ro rows) m = some u) ∧
      (2 ≤ (timeKnots ro rows).length →
        (∀ s, ∃ p, stimeToPtime (timeKnots ro rows) s = some p ∧ ptimeToStime (timeKnots ro rows) p = some s) ∧
        (∀ p, ∃ s, ptimeToStime (timeKnots ro rows) p = some s ∧ stimeToPtime (timeKnots ro rows) s = some p))) := by
  have hx := timeKnots_incX ro rows
  generalize timeKnots ro rows = ks at hx ⊢
  refine ⟨fun u m h => interpExt_knot ks hx u m h, ?_⟩
  intro hy
  have hsw : swapKnots ks = swapK ks := swapKnots_eq ks hy
  have hxs : IncX (swapK ks) := by
    show List.Pairwise _ (List.map _ ks)
    rw [List.pairwise_map]; exact hy
  have hys : IncY (swapK ks) := by
    show List.Pairwise _ (List.map _ ks)
    rw [List.pairwise_map]; exact hx
  have hss : swapK (swapK ks) = ks := by
    unfold swapK
    rw [List.map_map]
    conv_rhs => rw [← List.map_id ks]
    apply List.map_congr_left
    intro k _
    rfl
  refine ⟨?_, ?_⟩
  · intro u m h
    unfold ptimeToStime
    rw [hsw]
    exact interpExt_knot (swapK ks) hxs m u (List.mem_map.mpr ⟨(u, m), h, rfl⟩)
  · intro hlen
    unfold stimeToPtime ptimeToStime
    rw [hsw]
    cases ks with
    | nil => simp at hlen
    | cons k0 t =>
      cases t with
      | nil => simp at hlen
      | cons k1 rest =>
        refine ⟨fun s => interpExt_inverse rest k0 k1 hx hy s, ?_⟩
        intro p
        have := interpExt_inverse (swapK rest) (k0.2, k0.1) (k1.2, k1.1)
          (by simpa [swapK] using hxs) (by simpa [swapK] using hys) p
        rw [show ((k0.2, k0.1) :: (k1.2, k1.1) :: swapK rest) = swapK (k0 :: k1 :: rest) by simp [swapK], hss] at this
        exact this

def demoRows : List TRow := [(0, 1, 1), (0, 2, 5/4), (1, 0, 11/8), (1, 1, 3/2), (2, 0, 2), (3, 1, 5/2)]
example : timeKnots true demoRows = [(0, 9/8), (1, 3/2), (3, 5/2)] := by decide +kernel
example : IncY (timeKnots true demoRows) ∧ 2 ≤ (timeKnots true demoRows).length := by decide +kernel
example : stimeToPtime (timeKnots true demoRows) 2 = some 2 ∧ ptimeToStime (timeKnots true demoRows) 4 = some 6 := by
  decide +kernel

end C18
