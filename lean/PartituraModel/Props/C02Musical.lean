/-
C02 (round 2) — user-supplied musical beats.

`set_musical_beat_per_ts({...})` / `use_musical_beat({...})` store ANY value the user gives for
`"beats/beat_type"` (a divisor of the numerator or not, smaller or larger than the numerator); the
beat factor of the musical beat map on every stretch is then exactly
`beat_type/4 · musical_beats/beats`, with the signature in force spelled out.
-/
import PartituraModel.Props.C02
import PartituraModel.Proofs.C02Musical

namespace C02
open Model.TimeMap C02Proofs

/-! ### what the table does to a signature -/

/-- **a user value is stored as given** — whatever its relation to the numerator — and the musical beat
factor of that signature is exactly `beat_type/4 · v/beats`; a signature whose key is missing from the
table gets the default -/
theorem user_value_factor (tbl : List ((Nat × Nat) × Nat)) (s : TSig) :
    (∀ v, userMB tbl s.beats s.beatType = some v →
      (assignMB tbl s).mb = v ∧
      factorOf .musical (assignMB tbl s) = (s.beatType : Rat) / 4 * ((v : Rat) / (s.beats : Rat))) ∧
    (userMB tbl s.beats s.beatType = none →
      (assignMB tbl s).mb = defaultMB s.beats ∧
      factorOf .musical (assignMB tbl s) = (s.beatType : Rat) / 4 * ((defaultMB s.beats : Rat) / (s.beats : Rat))) := by
  constructor
  · intro v hv
    simp [assignMB, hv, factorOf]
  · intro hv
    simp [assignMB, hv, factorOf]

/-- the key looked up is exactly `"{beats}/{beat_type}"`: the FIRST entry of the table with that pair
(a dict has one), entries for other signatures do not matter -/
theorem userMB_spec (tbl : List ((Nat × Nat) × Nat)) (b bt : Nat) :
    (∀ v, userMB tbl b bt = some v → ((b, bt), v) ∈ tbl) ∧
    (userMB tbl b bt = none ↔ ∀ e ∈ tbl, e.1 ≠ (b, bt)) := by
  unfold userMB
  constructor
  · intro v hv
    cases hf : tbl.find? (fun e => e.1 = (b, bt)) with
    | none => rw [hf] at hv; cases hv
    | some e =>
      rw [hf] at hv
      simp only [Option.map_some, Option.some.injEq] at hv
      have h1 := List.mem_of_find?_eq_some hf
      have h2 := List.find?_some hf
      simp only [decide_eq_true_eq] at h2
      obtain ⟨e1, e2⟩ := e
      simp only at h2 hv
      subst h2; subst hv
      exact h1
  · simp only [Option.map_eq_none_iff, List.find?_eq_none, decide_eq_true_eq]

example : userMB [((6, 8), 5), ((5, 4), 11)] 5 4 = some 11 ∧ userMB [((6, 8), 5)] 5 4 = none := by decide

/-- after `set_musical_beat_per_ts(tbl)` every signature of the part (in the order `iter_all` yields them)
is one of the old signatures with its musical beats replaced by the table's value, or the default -/
theorem setMB_signatures (s : BeatState) (tbl : List ((Nat × Nat) × Nat)) (x : TSig)
    (hx : x ∈ sortTS (step s (.setMB tbl)).ts) :
    ∃ s0 ∈ s.ts, x = assignMB tbl s0 ∧ x.t = s0.t ∧ x.beats = s0.beats ∧ x.beatType = s0.beatType ∧
      x.mb = (userMB tbl s0.beats s0.beatType).getD (defaultMB s0.beats) := by
  rw [mem_sortTS] at hx
  simp only [step] at hx
  obtain ⟨s0, h0, rfl⟩ := List.mem_map.mp hx
  have := assignMB_spec tbl s0
  exact ⟨s0, h0, rfl, this.1, this.2.1, this.2.2.1, this.2.2.2⟩

/-- the same through `use_musical_beat(tbl)` with a non-empty table on a part in notated mode; the part is
then in musical mode, so `beat_map` uses these values -/
theorem useMusical_signatures (s : BeatState) (tbl : List ((Nat × Nat) × Nat)) (hn : s.musical = false)
    (hne : tbl ≠ []) :
    (step s (.useMusical tbl)).musical = true ∧
    ∀ x ∈ sortTS (step s (.useMusical tbl)).ts,
      ∃ s0 ∈ s.ts, x = assignMB tbl s0 ∧
        x.mb = (userMB tbl s0.beats s0.beatType).getD (defaultMB s0.beats) ∧
        factorOf .musical x = (s0.beatType : Rat) / 4 *
          ((((userMB tbl s0.beats s0.beatType).getD (defaultMB s0.beats) : Nat) : Rat) / (s0.beats : Rat)) := by
  have he : tbl.isEmpty = false := by
    cases tbl with
    | nil => exact absurd rfl hne
    | cons a t => rfl
  rw [useMusical_spec s tbl hn]
  simp only [he]
  refine ⟨by simp, ?_⟩
  intro x hx
  rw [mem_sortTS] at hx
  simp only [Bool.false_eq_true, if_false] at hx
  obtain ⟨s0, h0, rfl⟩ := List.mem_map.mp hx
  have := assignMB_spec tbl s0
  refine ⟨s0, h0, rfl, this.2.2.2, ?_⟩
  simp only [factorOf]
  rw [this.2.2.2, this.2.1, this.2.2.1]

example : (sortTS (step ⟨false, [⟨0, 6, 8, 2⟩, ⟨23, 5, 4, 5⟩]⟩ (.useMusical [((6, 8), 7), ((5, 4), 3)])).ts).map
    (fun x => (x.mb, factorOf .musical x)) = [(7, 7/3), (3, 3/5)] := by decide +kernel

/-- a table passed while the part is ALREADY in musical mode is ignored (the code only warns) -/
theorem useMusical_ignored (s : BeatState) (tbl : List ((Nat × Nat) × Nat)) (h : s.musical = true) :
    step s (.useMusical tbl) = s := by
  simp [step, h]

/-! ### the signature (and quarter duration) in force on a stretch -/

/-- the beat factor of a key point is that of the signature in force there: the latest signature starting at
or before it (of several starting together, the last one `iter_all` yields), or 1 before every signature -/
theorem keypoint_fac_signature (p : Part) (m : Mode) (hm : m ≠ .quarter) (k : KP) (hk : k ∈ keypoints p m) :
    (∃ s ∈ p.ts, s.t ≤ k.t ∧ (∀ s' ∈ p.ts, s'.t ≤ k.t → s'.t ≤ s.t) ∧ k.fac = factorOf m s) ∨
    ((∀ s' ∈ p.ts, k.t < s'.t) ∧ k.fac = 1) := by
  have hfa := facAssign_eq m hm p.ts
  rcases keypoint_fac_inforce p m k hk with ⟨t0, h0, hv, hnone⟩ | ⟨hv, hnone⟩
  · obtain ⟨s, hs, hst, hf⟩ := fac_assigned_by_signature m p.ts t0 k.fac hv
    refine Or.inl ⟨s, hs, by omega, ?_, hf⟩
    intro s' hs' hle
    by_contra hlt
    have := (lastAssoc_none_iff _ _).mp (hnone s'.t (by omega) hle) (s'.t, factorOf m s')
      (by rw [hfa]; exact List.mem_map.mpr ⟨s', hs', rfl⟩)
    exact this rfl
  · refine Or.inr ⟨?_, hv⟩
    intro s' hs'
    by_contra hlt
    have := (lastAssoc_none_iff _ _).mp (hnone s'.t (by omega)) (s'.t, factorOf m s')
      (by rw [hfa]; exact List.mem_map.mpr ⟨s', hs', rfl⟩)
    exact this rfl

/-- the divisions of a key point are the quarter duration in force there: the latest entry of
`_quarter_times` at or before it (1 before every entry — never the case for a real part, whose first entry
is at time 0) -/
theorem keypoint_divs_entry (p : Part) (m : Mode) (k : KP) (hk : k ∈ keypoints p m) :
    (∃ e ∈ p.qd, e.1 ≤ k.t ∧ (∀ e' ∈ p.qd, e'.1 ≤ k.t → e'.1 ≤ e.1) ∧ k.divs = (e.2 : Rat)) ∨
    ((∀ e' ∈ p.qd, k.t < e'.1) ∧ k.divs = 1) := by
  have hmem : ∀ e' ∈ p.qd, (e'.1, (e'.2 : Rat)) ∈ qdAssign p.qd := fun e' he' =>
    List.mem_map.mpr ⟨e', he', rfl⟩
  rcases keypoint_divs_inforce p m k hk with ⟨t0, h0, hv, hnone⟩ | ⟨hv, hnone⟩
  · have hm := lastAssoc_mem _ t0 k.divs hv
    obtain ⟨e, he, heq⟩ := List.mem_map.mp hm
    simp only [Prod.mk.injEq] at heq
    refine Or.inl ⟨e, he, by omega, ?_, heq.2.symm⟩
    intro e' he' hle
    by_contra hlt
    exact (lastAssoc_none_iff _ _).mp (hnone e'.1 (by omega) hle) _ (hmem e' he') rfl
  · refine Or.inr ⟨?_, hv⟩
    intro e' he'
    by_contra hlt
    exact (lastAssoc_none_iff _ _).mp (hnone e'.1 (by omega)) _ (hmem e' he') rfl

/-- **Musical beat map, exact on every stretch, for every table.**  Between two consecutive key points the
musical beat map advances by `d / q · beat_type/4 · musical_beats/beats`, `q` the divisions in force and
`beats/beat_type` the signature in force with whatever number of musical beats is stored on it (default or
user-supplied, dividing the numerator or not, larger than it or not); by `d / q` before every signature. -/
theorem musical_stretch_exact (p : Part) (h : WF p .musical) (pre post : List KP) (k k' : KP)
    (hk : keypoints p .musical = pre ++ k :: k' :: post) (a b : Rat)
    (ha : (k.t : Rat) ≤ a) (hab : a ≤ b) (hb : b ≤ (k'.t : Rat)) :
    ∃ ya yb, fwd p .musical a = some ya ∧ fwd p .musical b = some yb ∧
      ((∃ s ∈ p.ts, s.t ≤ k.t ∧ (∀ s' ∈ p.ts, s'.t ≤ k.t → s'.t ≤ s.t) ∧
          yb - ya = (b - a) / k.divs * ((s.beatType : Rat) / 4 * ((s.mb : Rat) / (s.beats : Rat)))) ∨
       ((∀ s' ∈ p.ts, k.t < s'.t) ∧ yb - ya = (b - a) / k.divs)) := by
  obtain ⟨ya, yb, h1, h2, h3⟩ := stretch_exact p .musical h pre post k k' hk a b ha hab hb
  refine ⟨ya, yb, h1, h2, ?_⟩
  have hkm : k ∈ keypoints p .musical := by rw [hk]; simp
  rcases keypoint_fac_signature p .musical (by decide) k hkm with ⟨s, hs, h4, h5, h6⟩ | ⟨h4, h5⟩
  · refine Or.inl ⟨s, hs, h4, h5, ?_⟩
    rw [h3, h6]
    simp only [factorOf]
    ring
  · refine Or.inr ⟨h4, ?_⟩
    rw [h3, h5]
    ring

/-- the notated beat map: the same with factor `beat_type/4`, whatever musical beats are stored -/
theorem notated_stretch_exact (p : Part) (h : WF p .notated) (pre post : List KP) (k k' : KP)
    (hk : keypoints p .notated = pre ++ k :: k' :: post) (a b : Rat)
    (ha : (k.t : Rat) ≤ a) (hab : a ≤ b) (hb : b ≤ (k'.t : Rat)) :
    ∃ ya yb, fwd p .notated a = some ya ∧ fwd p .notated b = some yb ∧
      ((∃ s ∈ p.ts, s.t ≤ k.t ∧ (∀ s' ∈ p.ts, s'.t ≤ k.t → s'.t ≤ s.t) ∧
          yb - ya = (b - a) / k.divs * ((s.beatType : Rat) / 4)) ∨
       ((∀ s' ∈ p.ts, k.t < s'.t) ∧ yb - ya = (b - a) / k.divs)) := by
  obtain ⟨ya, yb, h1, h2, h3⟩ := stretch_exact p .notated h pre post k k' hk a b ha hab hb
  refine ⟨ya, yb, h1, h2, ?_⟩
  have hkm : k ∈ keypoints p .notated := by rw [hk]; simp
  rcases keypoint_fac_signature p .notated (by decide) k hkm with ⟨s, hs, h4, h5, h6⟩ | ⟨h4, h5⟩
  · refine Or.inl ⟨s, hs, h4, h5, ?_⟩
    rw [h3, h6]
    simp only [factorOf]
    ring
  · refine Or.inr ⟨h4, ?_⟩
    rw [h3, h5]
    ring

/-- non-vacuity: 6/8 with 7 musical beats (more than the numerator, not a divisor), 5/4 with 3 -/
def exUser : Part :=
  { exPart with ts := [⟨0, 6, 8, 7⟩, ⟨23, 5, 4, 3⟩, ⟨64, 2, 2, 2⟩], musical := true }

example : WF exUser .musical ∧
    fwd exUser .musical 31 = some (421/45) ∧ fwd exUser .musical 41 = some (95/9) ∧
    (95/9 - 421/45 : Rat) = (41 - 31) / 5 * ((4 : Rat) / 4 * (3 / 5)) := by decide +kernel

end C02
