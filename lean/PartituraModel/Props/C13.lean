/-
C13 — a piano roll shows exactly the given notes, in their cells, with their velocity.
Property theorems over Model/PianoRoll.lean (the model mirrors the code with fixes/C13-1 applied).

Vocabulary.  For options `o` and the note list `notes` (the rows handed to `_make_pianoroll`, in
input order), `t0Of o notes` is the time of frame 0 (`t0_spec`), `onFrame`, `offFull`, `offIdx`,
`offCell` are a note's onset frame, its end before separation, the end reported in its index row and
the exclusive end of the frames it fills; `rowOf` is its row in the un-sliced roll.  `Roll.cell r p j`
is `pianoroll.toarray()[p, j]` of the returned matrix (after the optional piano-range slice).
-/
import PartituraModel.Proofs.C13
import PartituraModel.Proofs.C13Pc
import PartituraModel.Proofs.C13Cells
import PartituraModel.Proofs.C13RoundTrip

namespace C13
open Model Model.PianoRoll
open List

def exOpts : Opts :=
  { timeDiv := 2, onsetOnly := false, noteSep := false, pitchMargin := -1, timeMargin := 0,
    pianoRange := false, removeSilence := false, endTime := none, binary := false }

/-- rows deliberately not sorted by onset; two notes collide on pitch 60 -/
def exNotes : List Note := [⟨60, 2, 1, 10⟩, ⟨62, 0, 3/2, 90⟩, ⟨60, 5/2, 1, 50⟩, ⟨64, 1, 0, 70⟩]

/-! ### what the frames are -/

/-- frame 0 is the first onset when silence is removed, else `min(0, first onset)` -/
theorem t0_spec (o : Opts) (notes : List Note) (h : notes ≠ []) :
    ∃ m, (∃ n ∈ notes, n.onset = m) ∧ (∀ n ∈ notes, m ≤ n.onset) ∧
      t0Of o notes = if o.removeSilence then m else if 0 ≤ m then 0 else m :=
  t0_spec_aux o notes h

example : exNotes ≠ [] ∧ t0Of exOpts exNotes = 0 ∧ t0Of { exOpts with removeSilence := true } [⟨60, 2, 1, 10⟩] = 2 := by
  decide +kernel

/-- the onset frame is the nearest frame (ties to the even one) to `time_div * (onset - t0)`, shifted by the
    leading margin (`margin_spec`); a note lasts `max(1, round(time_div * duration))` frames -/
theorem frames_spec (o : Opts) (t0 : Rat) (n : Note) :
    |((onFrame o t0 n - marginFrames o : Int) : Rat) - (o.timeDiv : Rat) * (n.onset - t0)| ≤ 1 / 2 ∧
    offFull o t0 n - onFrame o t0 n = max 1 (roundHalfEven ((o.timeDiv : Rat) * n.dur)) := by
  constructor
  · have := Round.roundHalfEven_close ((o.timeDiv : Rat) * (n.onset - t0))
    unfold onFrame
    simpa using this
  · unfold offFull durFrames
    simp only
    split <;> omega

/-- **the margins, for every number `time_margin`** (the code never converts it): the leading margin is
    `int(time_margin * time_div)` — the product truncated toward zero — and the trailing margin is
    `time_div * time_margin` itself, the column count being rounded up afterwards (`shape_cols`); for an
    integer margin both are `time_margin * time_div` frames -/
theorem margin_spec (o : Opts) :
    (0 ≤ o.timeMargin * (o.timeDiv : Rat) →
      0 ≤ marginFrames o ∧ (marginFrames o : Rat) ≤ o.timeMargin * (o.timeDiv : Rat) ∧
      o.timeMargin * (o.timeDiv : Rat) < (marginFrames o : Rat) + 1) ∧
    (o.timeMargin * (o.timeDiv : Rat) < 0 →
      marginFrames o ≤ 0 ∧ o.timeMargin * (o.timeDiv : Rat) ≤ (marginFrames o : Rat) ∧
      (marginFrames o : Rat) - 1 < o.timeMargin * (o.timeDiv : Rat)) ∧
    (∀ k : Int, o.timeMargin = (k : Rat) →
      marginFrames o = k * o.timeDiv ∧ Rat.ceil (trailMargin o) = o.timeDiv * k) := by
  refine ⟨?_, ?_, ?_⟩
  · intro h
    unfold marginFrames truncRat
    rw [if_pos h]
    refine ⟨Rat.le_floor_iff.mpr (by simpa using h), Rat.floor_le _, ?_⟩
    have := Rat.lt_floor_add_one (o.timeMargin * (o.timeDiv : Rat))
    push_cast at this
    exact this
  · intro h
    unfold marginFrames truncRat
    rw [if_neg (not_le.mpr h)]
    refine ⟨Rat.ceil_le_iff.mpr (by simpa using le_of_lt h), Rat.le_ceil, ?_⟩
    have := (Rat.lt_ceil_iff (x := o.timeMargin * (o.timeDiv : Rat))
      (y := (o.timeMargin * (o.timeDiv : Rat)).ceil - 1)).mp (by omega)
    push_cast at this
    exact this
  · intro k hk
    unfold marginFrames trailMargin truncRat
    rw [hk]
    have e1 : (k : Rat) * (o.timeDiv : Rat) = ((k * o.timeDiv : Int) : Rat) := by push_cast; ring
    have e2 : (o.timeDiv : Rat) * (k : Rat) = ((o.timeDiv * k : Int) : Rat) := by push_cast; ring
    rw [e1, e2, Rat.floor_intCast, Rat.ceil_intCast]
    exact ⟨by split <;> rfl, rfl⟩

example : marginFrames { exOpts with timeDiv := 3, timeMargin := 1/2 } = 1 ∧
    Rat.ceil (trailMargin { exOpts with timeDiv := 3, timeMargin := 1/2 }) = 2 ∧
    marginFrames { exOpts with timeDiv := 3, timeMargin := -1/2 } = -1 := by decide +kernel

/-- **negative onsets, margins**: with a non-negative `time_div` no note starts before the leading margin, and
    the earliest note starts exactly at it whenever silence is removed or some onset is not positive (a
    negative first onset becomes frame 0 of the roll, shifted by the margin) -/
theorem first_frame (o : Opts) (notes : List Note) (h : notes ≠ []) (htd : 0 ≤ o.timeDiv) :
    (∀ n ∈ notes, marginFrames o ≤ onFrame o (t0Of o notes) n) ∧
    ((o.removeSilence = true ∨ ∃ n ∈ notes, n.onset ≤ 0) →
      ∃ n ∈ notes, onFrame o (t0Of o notes) n = marginFrames o) := by
  obtain ⟨m, ⟨n0, hn0, hm0⟩, hmin, ht0⟩ := t0_spec o notes h
  have htdq : (0 : Rat) ≤ (o.timeDiv : Rat) := by exact_mod_cast htd
  have hle : ∀ n ∈ notes, t0Of o notes ≤ n.onset := by
    intro n hn
    have := hmin n hn
    rw [ht0]
    split
    · exact this
    · split
      · rename_i h0; linarith
      · exact this
  have hr0 : roundHalfEven (0 : Rat) = 0 := by
    have := Round.roundHalfEven_int 0
    simpa using this
  constructor
  · intro n hn
    unfold onFrame
    have h1 : (0 : Rat) ≤ (o.timeDiv : Rat) * (n.onset - t0Of o notes) :=
      mul_nonneg htdq (by linarith [hle n hn])
    have := Round.roundHalfEven_mono h1
    rw [hr0] at this
    omega
  · intro hc
    have hzero : t0Of o notes = m := by
      rw [ht0]
      rcases hc with hc | ⟨n, hn, hneg⟩
      · rw [if_pos hc]
      · split
        · rfl
        · have := hmin n hn
          split
          · rename_i h0; linarith
          · rfl
    refine ⟨n0, hn0, ?_⟩
    unfold onFrame
    rw [hzero, hm0, sub_self, mul_zero, hr0, zero_add]

example : onFrame { exOpts with timeMargin := 1 } (t0Of { exOpts with timeMargin := 1 } [⟨60, -3/2, 1, 10⟩, ⟨62, 1/2, 1, 20⟩])
    ⟨60, -3/2, 1, 10⟩ = 2 ∧
    (makePianoroll { exOpts with timeMargin := 1 } [⟨60, -3/2, 1, 10⟩, ⟨62, 1/2, 1, 20⟩]).map (fun r => (r.cols, r.cell 60 2, r.cell 62 6))
      = some (10, 10, 20) := by decide +kernel

/-- every note occupies at least one frame, in every mode; note separation removes exactly the last frame of a
    note that has more than one; onset mode keeps exactly the onset frame -/
theorem min_one_frame (o : Opts) (t0 : Rat) (n : Note) :
    onFrame o t0 n < offCell o t0 n ∧ offCell o t0 n ≤ offFull o t0 n ∧
    (o.onsetOnly = true → offCell o t0 n = onFrame o t0 n + 1) ∧
    (o.onsetOnly = false → o.noteSep = false → offCell o t0 n = offFull o t0 n) ∧
    (o.onsetOnly = false → o.noteSep = true →
      offCell o t0 n = max (onFrame o t0 n + 1) (offFull o t0 n - 1)) := by
  refine ⟨onFrame_lt_offCell o t0 n, offCell_le_offFull o t0 n, ?_, ?_, ?_⟩
  · intro h; simp [offCell, h]
  · intro h1 h2
    have := onFrame_lt_offFull o t0 n
    simp only [offCell, offIdx, h1, h2, Bool.false_eq_true, if_false]
    split <;> omega
  · intro h1 h2
    simp only [offCell, offIdx, h1, h2, Bool.false_eq_true, if_false, if_true]
    split <;> omega

/-! ### shape -/

/-- 128 rows; 88 in piano range; pitch span plus twice the margin when a pitch margin is given
    (`piano_range` being the slice `[21:109]` of whatever roll results) -/
theorem shape_rows (o : Opts) (notes : List Note) (r : Roll) (h : makePianoroll o notes = some r) :
    (o.pitchMargin = -1 → o.pianoRange = false → r.rows = 128) ∧
    (o.pitchMargin = -1 → o.pianoRange = true → r.rows = 88) ∧
    (o.pitchMargin > -1 → ∃ lo hi, (∃ n ∈ notes, n.pitch = lo) ∧ (∀ n ∈ notes, lo ≤ n.pitch) ∧
        (∃ n ∈ notes, n.pitch = hi) ∧ (∀ n ∈ notes, n.pitch ≤ hi) ∧
        (o.pianoRange = false → r.rows = (hi - lo + 1) + 2 * o.pitchMargin) ∧
        (o.pianoRange = true → r.rows = min 109 ((hi - lo + 1) + 2 * o.pitchMargin) - min 21 ((hi - lo + 1) + 2 * o.pitchMargin))) :=
  shape_rows_aux o notes r h

/-- as many columns as the time span requires: the trailing margin after the last note end (taken before note
    separation / onset mode shorten the notes; the leading margin is inside the frames; a fractional number of
    margin frames is rounded up), or, with `end_time`, the frames up to `end_time` (rounded up), which must not
    precede the last note end -/
theorem shape_cols (o : Opts) (notes : List Note) (r : Roll) (h : makePianoroll o notes = some r) :
    ∃ last, (∃ n ∈ notes, offFull o (t0Of o notes) n = last) ∧ (∀ n ∈ notes, offFull o (t0Of o notes) n ≤ last) ∧
      (o.endTime = none → r.cols = Rat.ceil (trailMargin o) + last) ∧
      (∀ e, o.endTime = some e →
        (last : Rat) ≤ (e - t0Of o notes) * (o.timeDiv : Rat) ∧
        r.cols = Rat.ceil (trailMargin o + (o.timeDiv : Rat) * (e - t0Of o notes))) := by
  obtain ⟨hne, _, N, hN, _, rfl⟩ := (makePianoroll_eq_some o notes r).mp h
  obtain ⟨last, hl⟩ := best?_isSome_of_ne_nil (fun a b : Int => decide (b ≤ a))
    (l := notes.map (offFull o (t0Of o notes))) (by simpa using hne)
  have hl' : maxInt? (notes.map (offFull o (t0Of o notes))) = some last := hl
  obtain ⟨h1, h2⟩ := (maxInt?_some_iff _ _).mp hl'
  obtain ⟨n1, hn1, he1⟩ := mem_map.mp h1
  have hmax : maxOffOf o notes = last := by rw [maxOffOf_eq, hl']; rfl
  refine ⟨last, ⟨n1, hn1, he1⟩, fun n hn => h2 _ (mem_map.mpr ⟨n, hn, rfl⟩), ?_, ?_⟩
  · intro he
    unfold colsOf at hN
    rw [he, hmax] at hN
    simp only [Option.some.injEq] at hN
    rw [Rat.ceil_add_intCast] at hN
    simp [rollOf, hN]
  · intro e he
    unfold colsOf at hN
    rw [he, hmax] at hN
    simp only at hN
    split at hN
    · simp at hN
    · rename_i hlt
      simp only [Option.some.injEq] at hN
      exact ⟨not_lt.mp hlt, by simp only [rollOf]; exact hN.symm⟩

example : (makePianoroll exOpts exNotes).map (fun r => (r.rows, r.cols)) = some (128, 7) := by decide +kernel
example : (makePianoroll { exOpts with pianoRange := true, timeMargin := 1 } exNotes).map (fun r => (r.rows, r.cols))
    = some (88, 11) := by decide +kernel
example : (makePianoroll { exOpts with pitchMargin := 2, endTime := some 4 } exNotes).map (fun r => (r.rows, r.cols))
    = some (9, 8) := by decide +kernel
/-- an `end_time` before the last note end is rejected -/
example : makePianoroll { exOpts with endTime := some 3 } exNotes = none := by decide +kernel

/-! ### cells -/

/-- **cell value**: a cell no note covers is 0; a covered cell holds the velocity of a covering note that is
    the maximum over all covering notes (1 instead in binary mode) — whatever the order of the rows -/
theorem cell_value (o : Opts) (notes : List Note) (r : Roll) (h : makePianoroll o notes = some r)
    (p j : Int) (hp0 : 0 ≤ p) (hp1 : p < r.rows) :
    ((¬ ∃ n ∈ notes, Covers o notes n (p + r.rowStart) j) → r.cell p j = 0) ∧
    ((∃ n ∈ notes, Covers o notes n (p + r.rowStart) j) →
      ∃ n ∈ notes, Covers o notes n (p + r.rowStart) j ∧
        (∀ n' ∈ notes, Covers o notes n' (p + r.rowStart) j → n'.vel ≤ n.vel) ∧
        r.cell p j = if o.binary = true ∧ n.vel ≠ 0 then 1 else n.vel) :=
  cell_value_aux o notes r h p j hp0 hp1

/-- **cell (p, j) is non-zero exactly when a note of that row sounds during frame j** (at its onset frame only
    in onset mode, without its last frame under note separation, never less than one frame: `min_one_frame`),
    for MIDI velocities (> 0; a note array without velocity column has velocity 1 everywhere) -/
theorem cell_iff (o : Opts) (notes : List Note) (r : Roll) (h : makePianoroll o notes = some r)
    (hv : ∀ n ∈ notes, 0 < n.vel) (p j : Int) (hp0 : 0 ≤ p) (hp1 : p < r.rows) :
    r.cell p j ≠ 0 ↔ ∃ n ∈ notes, Covers o notes n (p + r.rowStart) j := by
  obtain ⟨h1, h2⟩ := cell_value o notes r h p j hp0 hp1
  constructor
  · intro hne
    by_contra hc
    exact hne (h1 hc)
  · intro hc
    obtain ⟨n, hn, _, _, he⟩ := h2 hc
    have := hv n hn
    rw [he]
    split <;> omega

/-- in binary mode, and without velocities, the covered cells hold 1 -/
theorem cell_binary (o : Opts) (notes : List Note) (r : Roll) (h : makePianoroll o notes = some r)
    (hv : ∀ n ∈ notes, 0 < n.vel) (hb : o.binary = true ∨ ∀ n ∈ notes, n.vel = 1)
    (p j : Int) (hp0 : 0 ≤ p) (hp1 : p < r.rows)
    (hc : ∃ n ∈ notes, Covers o notes n (p + r.rowStart) j) : r.cell p j = 1 := by
  obtain ⟨n, hn, _, _, he⟩ := (cell_value o notes r h p j hp0 hp1).2 hc
  have := hv n hn
  rw [he]
  rcases hb with hb | hb
  · rw [if_pos ⟨hb, by omega⟩]
  · split
    · rfl
    · exact hb n hn

/-- nothing is drawn outside the matrix: every sounding frame of every note is a cell of the (un-sliced) roll -/
theorem cells_in_range (o : Opts) (notes : List Note) (r : Roll) (h : makePianoroll o notes = some r)
    (n : Note) (hn : n ∈ notes) (q j : Int) (hc : Covers o notes n q j) :
    0 ≤ q ∧ q < rowsFull o notes ∧ 0 ≤ j ∧ j < r.cols :=
  cells_in_range_aux o notes r h n hn q j hc

example : (makePianoroll exOpts exNotes).map
    (fun r => [r.cell 60 4, r.cell 60 5, r.cell 60 6, r.cell 62 0, r.cell 62 3, r.cell 64 2, r.cell 64 3, r.cell 61 4])
    = some [10, 50, 50, 90, 0, 70, 0, 0] := by decide +kernel
example : ∃ n ∈ exNotes, Covers exOpts exNotes n 60 5 := ⟨⟨60, 5/2, 1, 50⟩, by decide +kernel, by
  unfold Covers; decide +kernel⟩

/-! ### order independence -/

/-- **whatever the order of the input rows**: a permutation of the rows is accepted or rejected alike and
    gives the same shape and the same matrix; the index rows are permuted along -/
theorem order_indep (o : Opts) {notes notes' : List Note} (hp : notes ~ notes') :
    (makePianoroll o notes = none ↔ makePianoroll o notes' = none) ∧
    ∀ r r', makePianoroll o notes = some r → makePianoroll o notes' = some r' →
      r.rows = r'.rows ∧ r.cols = r'.cols ∧ (∀ p j, r.cell p j = r'.cell p j) ∧ r.idx ~ r'.idx := by
  have key : ∀ {a b : List Note}, a ~ b → ∀ r, makePianoroll o a = some r →
      ∃ r', makePianoroll o b = some r' ∧ r.rows = r'.rows ∧ r.cols = r'.cols ∧
        (∀ p j, r.cell p j = r'.cell p j) ∧ r.idx ~ r'.idx := by
    intro a b hab r hr
    obtain ⟨hne, hd, N, hN, hb, rfl⟩ := (makePianoroll_eq_some o a r).mp hr
    refine ⟨rollOf o b N, ?_, ?_, rfl, ?_, ?_⟩
    · rw [makePianoroll_eq_some]
      refine ⟨fun hnil => hne (by subst hnil; exact hab.eq_nil), fun n hn => hd n (hab.mem_iff.mpr hn), N,
        by rw [← colsOf_perm o hab]; exact hN, ?_, rfl⟩
      intro e he
      rw [← rowsFull_perm o hab]
      exact hb e ((fillOf_perm o hab).mem_iff.mpr he)
    · simp only [rollOf, rowsFull_perm o hab]
    · apply cell_congr
      · simp only [rollOf, rowsFull_perm o hab]
      · rfl
      · rfl
      · rfl
      · intro p j
        exact keyMax_perm (fillOf_perm o hab) p j
    · simp only [rollOf, idxOf_eq]
      rw [lowestOf_perm o hab, t0Of_perm o hab]
      exact hab.map _
  constructor
  · constructor
    · intro hn
      cases hr : makePianoroll o notes' with
      | none => rfl
      | some r' =>
        obtain ⟨r, hr2, _⟩ := key hp.symm r' hr
        rw [hn] at hr2; cases hr2
    · intro hn
      cases hr : makePianoroll o notes with
      | none => rfl
      | some r =>
        obtain ⟨r', hr2, _⟩ := key hp r hr
        rw [hn] at hr2; cases hr2
  · intro r r' hr hr'
    obtain ⟨r'', hr2, h1, h2, h3, h4⟩ := key hp r hr
    rw [hr'] at hr2
    cases hr2
    exact ⟨h1, h2, h3, h4⟩

example : exNotes ~ exNotes.reverse ∧ exNotes ≠ exNotes.reverse := ⟨(reverse_perm _).symm, by decide⟩

/-! ### index rows -/

/-- **the index rows are in input order**: row `i` is `(row, onset frame, offset frame, midi pitch)` of the
    `i`-th input note -/
theorem idx_rows (o : Opts) (notes : List Note) (r : Roll) (h : makePianoroll o notes = some r) :
    r.idx = notes.map fun n =>
      (rowOf o (lowestOf o notes) n - r.rowStart, onFrame o (t0Of o notes) n, offIdx o (t0Of o notes) n, n.pitch) := by
  obtain ⟨_, _, N, _, _, rfl⟩ := (makePianoroll_eq_some o notes r).mp h
  simp only [rollOf, idxOf_eq, idxStartOf_eq]
  rfl

/-- **the index rows designate exactly the non-zero cells**: cell `(p, j)` is non-zero iff some index row has
    vertical position `p` and `onset ≤ j < offset` (in onset mode: `j = onset`) -/
theorem idx_designate (o : Opts) (notes : List Note) (r : Roll) (h : makePianoroll o notes = some r)
    (hv : ∀ n ∈ notes, 0 < n.vel) (p j : Int) (hp0 : 0 ≤ p) (hp1 : p < r.rows) :
    r.cell p j ≠ 0 ↔
      ∃ row ∈ r.idx, row.1 = p ∧ row.2.1 ≤ j ∧ j < (if o.onsetOnly then row.2.1 + 1 else row.2.2.1) := by
  rw [cell_iff o notes r h hv p j hp0 hp1, idx_rows o notes r h]
  simp only [mem_map, Covers]
  constructor
  · rintro ⟨n, hn, h1, h2, h3⟩
    refine ⟨_, ⟨n, hn, rfl⟩, by simp only; omega, h2, ?_⟩
    unfold offCell at h3
    simpa using h3
  · rintro ⟨row, ⟨n, hn, rfl⟩, h1, h2, h3⟩
    refine ⟨n, hn, by simp only at h1; omega, h2, ?_⟩
    unfold offCell
    simpa using h3

example : (makePianoroll exOpts exNotes).map (·.idx) = some [(60, 4, 6, 60), (62, 0, 3, 62), (60, 5, 7, 60), (64, 2, 3, 64)] := by
  decide +kernel

/-! ### piano range -/

/-- **the piano-range roll is rows 21..108 of the roll without that option** (and exists exactly when it does) -/
theorem piano_range (o : Opts) (notes : List Note) (r : Roll)
    (h : makePianoroll { o with pianoRange := false } notes = some r) :
    ∃ r', makePianoroll { o with pianoRange := true } notes = some r' ∧
      r'.rows = min 109 r.rows - min 21 r.rows ∧ r'.cols = r.cols ∧
      (∀ p j, 0 ≤ p → p < r'.rows → r'.cell p j = r.cell (p + 21) j) ∧
      r'.idx = r.idx.map fun (a, b, c, d) => (a - 21, b, c, d) := by
  obtain ⟨hne, hd, N, hN, hb, rfl⟩ := (makePianoroll_eq_some _ notes r).mp h
  refine ⟨rollOf { o with pianoRange := true } notes N, ?_, ?_, rfl, ?_, ?_⟩
  · rw [makePianoroll_eq_some]
    exact ⟨hne, hd, N, hN, hb, rfl⟩
  · simp only [rollOf, Bool.false_eq_true, if_false, if_true, slicedRows_eq]
    have : rowsFull { o with pianoRange := true } notes = rowsFull { o with pianoRange := false } notes := rfl
    rw [this]
    omega
  · intro p j hp0 hp1
    have hf : fillOf { o with pianoRange := true } notes = fillOf { o with pianoRange := false } notes := rfl
    have hR : rowsFull { o with pianoRange := true } notes = rowsFull { o with pianoRange := false } notes := rfl
    simp only [rollOf, if_true, hR, slicedRows_eq] at hp1
    simp only [Roll.cell, rollOf, rowStartOf, if_true, Bool.false_eq_true, if_false, hf, hR, add_zero, slicedRows_eq,
      tbl_piano_lo]
    have hg : (0 ≤ p + 21 ∧ p + 21 < rowsFull { o with pianoRange := false } notes) := by
      constructor
      · omega
      · split at hp1 <;> split at hp1 <;> omega
    by_cases hj : 0 ≤ j ∧ j < N
    · rw [if_pos ⟨hp0, hp1, hj.1, hj.2⟩, if_pos ⟨hg.1, hg.2, hj.1, hj.2⟩]
    · rw [if_neg (fun hc => hj ⟨hc.2.2.1, hc.2.2.2⟩), if_neg (fun hc => hj ⟨hc.2.2.1, hc.2.2.2⟩)]
  · simp only [rollOf, idxOf_eq, map_map]
    apply map_congr_left
    intro n _
    show idxRow { o with pianoRange := true } _ _ (idxStartOf { o with pianoRange := true }) n = _
    simp only [Function.comp, idxRow, idxStartOf, Bool.false_eq_true, if_false, if_true, tbl_idx_start,
      tbl_idx_start_piano, sub_zero]
    rfl

example : (makePianoroll { exOpts with pianoRange := true } exNotes).map (fun r => (r.rows, r.cell 39 4, r.cell 41 0))
    = some (88, 10, 90) := by decide +kernel

/-! ### pitch-class roll -/

/-- cells are never negative when velocities are not -/
theorem cell_nonneg (o : Opts) (notes : List Note) (r : Roll) (h : makePianoroll o notes = some r)
    (hv : ∀ n ∈ notes, 0 ≤ n.vel) (p j : Int) : 0 ≤ r.cell p j := by
  by_cases hp : 0 ≤ p ∧ p < r.rows
  · obtain ⟨h1, h2⟩ := cell_value o notes r h p j hp.1 hp.2
    by_cases hc : ∃ n ∈ notes, Covers o notes n (p + r.rowStart) j
    · obtain ⟨n, hn, _, _, he⟩ := h2 hc
      have := hv n hn
      rw [he]
      split <;> omega
    · rw [h1 hc]
  · unfold Roll.cell
    rw [if_neg (fun hc => hp ⟨hc.1, hc.2.1⟩)]

/-- **the pitch-class roll is the octave fold of the full roll**: entry `(c, j)` is the sum of the cells
    `(p, j)` of the 128-row roll over all pitches `p ≡ c (mod 12)` -/
theorem pc_fold (r : Roll) (hr : r.rows ≤ 128) (c : Nat) (hc : c < 12) (j : Int) :
    pcCell r c j = sumOver (fun p => r.cell p j) ((range 128).filter (fun p => p % 12 = c)) := by
  have h0 : pcCell r c j = sumOver (fun i => (fun p : Nat => r.cell p j) (12 * i + c)) (range 11) := by
    unfold pcCell sumOver
    simp only [Nat.cast_add, Nat.cast_mul, Nat.cast_ofNat, tbl_pc_slices, tbl_pc_step]
  rw [h0, ← sumOver_fold (fun p : Nat => r.cell p j) c hc 11]
  have h132 : range (12 * 11) = range 128 ++ [128, 129, 130, 131] := by decide
  rw [h132, filter_append, sumOver_append]
  have hz : sumOver (fun p : Nat => r.cell p j) (filter (fun p => decide (p % 12 = c)) [128, 129, 130, 131]) = 0 := by
    apply sumOver_zero
    intro p hp
    have hp' : p ∈ [128, 129, 130, 131] := (mem_filter.mp hp).1
    have : 128 ≤ p := by
      simp only [mem_cons, not_mem_nil, or_false] at hp'
      omega
    unfold Roll.cell
    rw [if_neg]
    intro hcon
    have := hcon.2.1
    omega
  rw [hz]
  omega

/-- **normalised per frame**: every column of the normalised pitch-class roll sums to 1 or is entirely 0 -/
theorem pc_normalised (r : Roll) (b : Bool) (j : Int) (hnn : ∀ p j, 0 ≤ r.cell p j) :
    (range 12).foldr (fun c s => pcOut r b true (c : Nat) j + s) 0 = 1 ∨
    ∀ c : Nat, c < 12 → pcOut r b true c j = 0 := by
  have hval : ∀ c : Nat, 0 ≤ pcValue r b c j := by
    intro c
    unfold pcValue
    simp only
    split
    · omega
    · unfold pcCell
      exact sumOver_nonneg (fun i => r.cell (12 * (i : Int) + c) j) (range 11) (fun p _ => hnn _ _)
  have hsum : pcColSum r b j = sumOver (fun c => pcValue r b c j) (range 12) := rfl
  by_cases hs : pcColSum r b j = 0
  · right
    intro c hc
    have hz := (sumOver_eq_zero_iff (fun c => pcValue r b c j) (range 12) (fun p _ => hval p)).mp (hsum ▸ hs)
      c (mem_range.mpr hc)
    simp [pcOut, hs, hz]
  · left
    have : (fun (c : Nat) (s : Rat) => pcOut r b true c j + s) =
        fun (c : Nat) (s : Rat) => ((pcValue r b c j : Int) : Rat) / ((pcColSum r b j : Int) : Rat) + s := by
      funext c s
      simp [pcOut, hs]
    rw [this, foldr_div (fun c => pcValue r b c j) _ (range 12), ← hsum]
    have hne : ((pcColSum r b j : Int) : Rat) ≠ 0 := by exact_mod_cast hs
    exact div_self hne

/-- the column the driver prints (values, one sum and one division per entry, as in the code) is `pcOut` entry by entry -/
theorem pc_column (r : Roll) (b nz : Bool) (j : Int) :
    pcColumn r b nz j = (range 12).map fun (c : Nat) => pcOut r b nz (c : Int) j := by
  have hs : ((range 12).map fun (c : Nat) => pcValue r b (c : Int) j).foldr (fun v acc => v + acc) 0 = pcColSum r b j := by
    unfold pcColSum
    rw [foldr_map, tbl_pc_rows]
  unfold pcColumn
  simp only [tbl_pc_rows, hs, map_map]
  cases nz <;> simp [pcOut, Function.comp_def]

/-- without normalisation the entries are the folded integers (1 for every sounding class when binary) -/
theorem pc_plain (r : Roll) (b : Bool) (c j : Int) :
    pcOut r b false c j = ((if b = true ∧ pcCell r c j > 0 then 1 else pcCell r c j : Int) : Rat) := by
  unfold pcOut pcValue
  by_cases hb : b = true <;> by_cases hc : pcCell r c j > 0 <;> simp [hb, hc]

example : (makePianoroll exOpts exNotes).map (fun r => (pcCell r 0 4, pcCell r 0 5, pcCell r 2 0, pcCell r 2 2, pcCell r 4 2))
    = some (10, 50, 90, 90, 70) := by decide +kernel
example : (makePianoroll exOpts exNotes).map (fun r => (pcOut r false true 2 2 * 16, pcOut r false true 4 2 * 16, pcOut r true true 4 2 * 2))
    = some (9, 7, 1) := by decide +kernel

/-! ### unit selection (`get_time_units_from_note_array`, `time_div="auto"`) -/

/-- score units win over performance units; beat over quarter over div; sec over tick -/
theorem auto_units (units : List String) :
    timeUnitsAuto units =
      match ["beat", "quarter", "div"].find? (units.contains ·) with
      | some u => some u
      | none => ["sec", "tick"].find? (units.contains ·) := by
  unfold timeUnitsAuto
  cases h1 : units.contains "beat" <;> cases h2 : units.contains "quarter" <;> cases h3 : units.contains "div" <;>
    cases h4 : units.contains "sec" <;> cases h5 : units.contains "tick" <;>
    simp only [TIME_UNITS, Gen.C13_TIME_UNITS, List.filter, List.find?, h1, h2, h3, h4, h5] <;> decide

/-- **field selection, unit inference, drum filtering**: a successful `compute_pianoroll` hands
    `_make_pianoroll` the rows in input order — without the rows of channel 9 when a channel column exists and
    drums are removed — with the onset/duration pair of the chosen unit (the requested one, which must be a
    known unit, or the inferred one), velocity 1 when there is no velocity column, and `time_div` as given or,
    on "auto", the default of the unit; every other option is passed through -/
theorem prepare_spec (a : NoteArray) (g : Args) (o : Opts) (notes : List Note) (h : prepare a g = some (o, notes)) :
    ∃ unit k,
      (g.timeUnit = "auto" ∨ g.timeUnit ∈ TIME_UNITS) ∧
      (if g.timeUnit = "auto" then timeUnitsAuto a.units = some unit else unit = g.timeUnit) ∧
      indexOf unit a.units = some k ∧
      (match g.timeDiv with
       | none => autoTimeDiv unit = some o.timeDiv
       | some d => o.timeDiv = d) ∧
      o = { g.opts with timeDiv := o.timeDiv } ∧
      Forall₂ (fun r n => ∃ on du, r.times[k]? = some (on, du) ∧
          n = { pitch := r.pitch, onset := on, dur := du, vel := if a.hasVel then r.vel.getD 1 else 1 })
        (if a.hasChan && g.removeDrums then a.rows.filter (fun r => r.chan != some 9) else a.rows) notes := by
  unfold prepare at h
  split at h
  · simp at h
  · rename_i hunit
    simp only at h
    split at h
    · simp at h
    · rename_i unit hu
      split at h
      · simp at h
      · rename_i td htd
        split at h
        · simp at h
        · rename_i k hk
          split at h
          · simp at h
          · rename_i ns hns
            simp only [Option.some.injEq, Prod.mk.injEq] at h
            obtain ⟨ho, hn⟩ := h
            subst ho hn
            refine ⟨unit, k, ?_, ?_, hk, ?_, rfl, ?_⟩
            · simp only [Bool.not_eq_true, Bool.not_eq_false', Bool.or_eq_true, decide_eq_true_eq] at hunit
              rcases hunit with hc | hc
              · right; simpa using hc
              · left; exact hc
            · split
              · rename_i hauto; simpa [hauto] using hu
              · rename_i hauto
                simp only [hauto, if_false, Option.some.injEq] at hu
                exact hu.symm
            · cases hd : g.timeDiv with
              | none => simpa [hd] using htd
              | some d => simp only [hd, Option.some.injEq] at htd; simp [htd]
            · refine (toNotes_forall₂ a k _ _ hns).imp ?_
              intro r n hrn
              unfold toNote at hrn
              split at hrn
              · simp at hrn
              · rename_i on du ht
                exact ⟨on, du, ht, (Option.some.inj hrn).symm⟩

/-- score and performance units present (quarter listed first), a drum row on channel 9 -/
def exArray : NoteArray :=
  { units := ["quarter", "beat", "sec"], hasVel := true, hasChan := true,
    rows := [⟨60, [(0, 1), (0, 2), (0, 1/2)], some 80, some 0⟩, ⟨36, [(1, 1), (2, 2), (1/2, 1/2)], some 100, some 9⟩] }
def exArgs : Args := { timeUnit := "auto", timeDiv := none, removeDrums := true, opts := exOpts }

example : (prepare exArray exArgs).map (fun x => (x.1.timeDiv, x.2)) = some (8, [⟨60, 0, 2, 80⟩]) := by decide +kernel
example : (prepare exArray { exArgs with timeUnit := "sec", timeDiv := some 2, removeDrums := false }).map
    (fun x => (x.1.timeDiv, x.2)) = some (2, [⟨60, 0, 1/2, 80⟩, ⟨36, 1/2, 1/2, 100⟩]) := by decide +kernel
example : prepare exArray { exArgs with timeUnit := "seconds" } = none ∧
    prepare exArray { exArgs with timeUnit := "tick" } = none := by decide +kernel

/-- eight frames per beat / quarter / second, one per div / tick -/
theorem auto_time_div : TIME_UNITS.map autoTimeDiv = [some 8, some 8, some 8, some 1, some 1] := by decide

/-! ### the inverse: `pianoroll_to_notearray` -/

/-- **decoder, every integer matrix** (negative values, empty, a single column, ... — and every number
    `time_div`): only 128- and 88-row rolls are accepted (pitch offset 0 / 21); `time_div = 0` is a division by
    zero as soon as there is a note; otherwise the notes returned are, without repetition and sorted by (onset,
    pitch, offset, velocity), exactly the maximal horizontal runs of one non-zero value: `pitch = row + offset`,
    `onset = start / time_div`, `duration = length / time_div`, `velocity = value` -/
theorem decode_spec (rows : Nat) (cols : List (List Int)) (td : Rat) :
    ((rows ≠ 128 ∧ rows ≠ 88) → decode rows cols td = none) ∧
    ∀ init, (rows = 128 ∧ init = 0) ∨ (rows = 88 ∧ init = 21) →
      (td = 0 → decodeRuns cols ≠ [] → decode rows cols td = none) ∧
      (td ≠ 0 ∨ decodeRuns cols = [] → decode rows cols td = some ((decodeRuns cols).map (outOf init td))) ∧
      (decodeRuns cols).Nodup ∧ (decodeRuns cols).Pairwise (fun a b => runLe a b = true) ∧
      ∀ x : Run, x ∈ decodeRuns cols ↔
        (x.vel ≠ 0 ∧ x.on < x.off ∧ x.off ≤ cols.length ∧
          (∀ s, x.on ≤ s → s < x.off → cellAt cols x.pitch s = x.vel) ∧
          (x.on = 0 ∨ cellAt cols x.pitch (x.on - 1) ≠ x.vel) ∧
          (x.off = cols.length ∨ cellAt cols x.pitch x.off ≠ x.vel)) := by
  constructor
  · rintro ⟨h1, h2⟩
    simp [decode, tbl_dec_shapes, Model.lookup, Ne.symm h1, Ne.symm h2]
  · intro init hinit
    obtain ⟨h1, h2, h3⟩ := decodeRuns_spec cols
    exact ⟨fun h0 hne => h0 ▸ decode_div_zero rows cols hne, decode_eq rows cols td init hinit, h1, h2, h3⟩

/-- an empty roll and a single column: no notes / one note per non-zero cell of the column -/
example : decode 128 [] 8 = some [] := by decide +kernel
example : decode 88 [] 0 = some [] := by decide +kernel
example : decode 88 [[0, -3, 0, 7] ++ List.replicate 84 0] 2 = some [(22, 0, 1/2, -3), (24, 0, 1/2, 7)] := by decide +kernel
example : decode 88 [[0, -3, 0, 7] ++ List.replicate 84 0] 0 = none := by decide +kernel
example : decode 87 [] 8 = none := by decide +kernel
/-- negative values are velocities like any other: runs of -1, -1 then 2, 2 then -1 in one row -/
example : decode 128 ((List.replicate 2 (List.replicate 60 0 ++ [-1] ++ List.replicate 67 0)) ++
      (List.replicate 2 (List.replicate 60 0 ++ [2] ++ List.replicate 67 0)) ++ [List.replicate 60 0 ++ [-1] ++ List.replicate 67 0]) (1/2)
    = some [(60, 0, 4, -1), (60, 4, 4, 2), (60, 8, 2, -1)] := by decide +kernel

/-- the sort key is the lexicographic order on (onset, pitch, offset, velocity) -/
theorem decode_order (a b : Run) : runLe a b = true ↔
    (a.on < b.on ∨ (a.on = b.on ∧ (a.pitch < b.pitch ∨ (a.pitch = b.pitch ∧
      (a.off < b.off ∨ (a.off = b.off ∧ a.vel ≤ b.vel)))))) := runLe_iff a b

/-- **round trip**: turning the roll of grid-aligned, non-touching notes back into a note array recovers every
    pitch, onset, duration and velocity (as a multiset; the decoder's own order is `decode_order`).
    `RoundTripOpts`: positive `time_div`, full notes (no onset mode / separation), fixed pitch axis, no time
    margin, `remove_silence = False`, no `end_time`, not binary; in piano range the pitches lie in 21..108. -/
theorem decode_encode (o : Opts) (notes : List Note) (r : Roll) (ho : RoundTripOpts o)
    (h : makePianoroll o notes = some r) (hg : ∀ n ∈ notes, GridAligned o n) (hv : ∀ n ∈ notes, 0 < n.vel)
    (hnt : NonTouching notes)
    (hpr : o.pianoRange = true → ∀ n ∈ notes, 21 ≤ n.pitch ∧ n.pitch ≤ 108) :
    ∃ out, decode r.rows.toNat r.toCols (o.timeDiv : Rat) = some out ∧
      out ~ notes.map (fun n => (n.pitch, n.onset, n.dur, n.vel)) :=
  decode_encode_aux o notes r ho h hg hv hnt hpr

def rtOpts : Opts := { exOpts with removeSilence := false }
/-- two notes of pitch 60 separated by one empty frame, one of pitch 62 overlapping them in time -/
def rtNotes : List Note := [⟨60, 2, 1, 10⟩, ⟨62, 1/2, 3, 90⟩, ⟨60, 1/2, 1, 50⟩]

example : RoundTripOpts rtOpts := ⟨by decide, rfl, rfl, rfl, rfl, rfl, rfl, rfl⟩
example : ∀ n ∈ rtNotes, GridAligned rtOpts n := by
  intro n hn
  simp only [rtNotes, mem_cons, not_mem_nil, or_false] at hn
  rcases hn with rfl | rfl | rfl
  · exact ⟨4, 2, by decide, by decide +kernel, by decide +kernel⟩
  · exact ⟨1, 6, by decide, by decide +kernel, by decide +kernel⟩
  · exact ⟨1, 2, by decide, by decide +kernel, by decide +kernel⟩
example : NonTouching rtNotes := by
  unfold NonTouching rtNotes
  simp only [pairwise_cons, mem_cons, not_mem_nil, or_false, forall_eq_or_imp, forall_eq, Pairwise.nil,
    IsEmpty.forall_iff, implies_true, and_true]
  decide +kernel
example : (makePianoroll rtOpts rtNotes).bind (fun r => decode r.rows.toNat r.toCols 2)
    = some [(60, 1/2, 1, 50), (62, 1/2, 3, 90), (60, 2, 1, 10)] := by decide +kernel
/-- touching notes of equal velocity merge, so the hypothesis is needed -/
example : (makePianoroll rtOpts [⟨60, 0, 1, 10⟩, ⟨60, 1, 1, 10⟩]).bind (fun r => decode r.rows.toNat r.toCols 2)
    = some [(60, 0, 2, 10)] := by decide +kernel

end C13
