/-
C13 — a piano roll shows exactly the given notes, in their cells, with their velocity.
(property theorems; under construction)
-/
import PartituraModel.Model.PianoRoll

namespace C13
open Model Model.PianoRoll

end C13
