/-
C07 — key signatures with FURTHER COMPONENTS in the list spelling of 0.3.0–0.5.0 (`[Bb Maj,G min/D Maj,F# min]`):
a list of any length of keys - each one of the 30 keys or one of the 900 double keys - is written and read
back as the same list.  The per-key facts are checked for all 930 keys by kernel evaluation; the list level
(splitting at commas, stripping, the 0.1.0 two-element special case not being taken) is proved for all lists.
-/
import PartituraModel.Model.MatchCodec
import PartituraModel.Proofs.C07Codec
import PartituraModel.Props.C07Codecs

namespace C07
open Model Model.Template Model.MatchCodec

/-- the 930 keys a component can be: 30 single keys and 900 double keys -/
def allKey1 : List Key1 :=
  allKeys.map (fun a => { fifths := a.1, mode := a.2, alt := none }) ++
    allKeys.flatMap fun a => allKeys.map fun b => { fifths := a.1, mode := a.2, alt := some b }

def isModeText (t : Str) : Bool :=
  lowerS t == "minor".toList || lowerS t == "major".toList || lowerS t == "min".toList || lowerS t == "maj".toList

/-- what the list level needs of one written key name -/
def keyTextOK (k : Key1) : Bool :=
  match encKey1 .v030 k with
  | none => false
  | some t => parseKey1 t == some k && MatchCodec.strip t == t && t.all (· != ',') && t.any (fun c => !isWs c) && !isModeText t

/-- **every one of the 930 keys**: its 0.3.0 name is read back as the same key, is a stripped comma-free text
    and is not a mode word (kernel evaluation of the whole table) -/
theorem key_texts_ok : ∀ k ∈ allKey1, keyTextOK k = true := by decide +kernel

example : allKey1.length = 930 := by decide +kernel

theorem dropWhile_ne_nil (p : Char → Bool) (c : Char) : ∀ (s : List Char), c ∈ s → p c = false → s.dropWhile p ≠ [] := by
  intro s
  induction s with
  | nil => intro h; simp at h
  | cons d s ih =>
    intro h hp
    simp only [List.dropWhile_cons]
    by_cases hd : p d = true
    · simp only [hd, if_true]
      rcases List.mem_cons.mp h with e | h'
      · subst e; rw [hp] at hd; simp at hd
      · exact ih h' hp
    · simp [hd]

theorem strip_ne_nil (s : List Char) (c : Char) (hc : c ∈ s) (hw : isWs c = false) : MatchCodec.strip s ≠ [] := by
  unfold MatchCodec.strip
  intro h
  have h1 : (s.dropWhile isWs) ≠ [] := dropWhile_ne_nil isWs c s hc hw
  -- the first kept character is not a blank, and it survives the second trimming
  cases hd : s.dropWhile isWs with
  | nil => exact h1 hd
  | cons d r =>
    have hdw : isWs d = false := by
      have := List.head_dropWhile_not (p := isWs) (l := s) (by rw [hd]; simp)
      simpa [hd] using this
    have hmem : d ∈ (d :: r).reverse := by simp
    have h2 := dropWhile_ne_nil isWs d (d :: r).reverse hmem hdw
    rw [hd] at h
    have : ((d :: r).reverse.dropWhile isWs) = [] := by
      have := congrArg List.reverse h
      simpa using this
    exact h2 this

theorem map_strip_self : ∀ (l : List Str), (∀ z ∈ l, MatchCodec.strip z = z) → l.map MatchCodec.strip = l := by
  intro l
  induction l with
  | nil => intro _; rfl
  | cons z zs ih =>
    intro hl
    simp only [List.map_cons, hl z (by simp)]
    congr 1
    exact ih (fun w hw => hl w (by simp [hw]))

/-- `interpret_as_list(format_list(items))` for PHRASES: stripped comma-free texts that may hold inner blanks -/
theorem decList_encList_phrases (items : List Str) (hne : items ≠ [])
    (hs : ∀ x ∈ items, MatchCodec.strip x = x) (hc : ∀ x ∈ items, ∀ c ∈ x, c ≠ ',')
    (hw : ∀ x ∈ items, ∃ c ∈ x, isWs c = false) : decList (encList items) = items := by
  unfold decList encList encListBody
  simp only [listBodyOf, C07Codec.lastIndexOf_snoc, List.take_left']
  have hbody : MatchCodec.strip (joinWith [','] items) ≠ [] := by
    cases items with
    | nil => exact absurd rfl hne
    | cons x xs =>
      obtain ⟨c, hcx, hcw⟩ := hw x (by simp)
      apply strip_ne_nil _ c _ hcw
      cases xs with
      | nil => simpa [joinWith] using hcx
      | cons y ys => simp [joinWith, hcx]
  have he : (MatchCodec.strip (joinWith [','] items)).isEmpty = false := by
    cases h : MatchCodec.strip (joinWith [','] items) with
    | nil => exact absurd h hbody
    | cons a l => rfl
  simp only [he, Bool.false_eq_true, if_false]
  rw [C07Codec.splitOn_joinWith ',' items hne hc]
  exact map_strip_self items hs

theorem keyText_facts (k : Key1) (hk : k ∈ allKey1) : ∃ t, encKey1 .v030 k = some t ∧ parseKey1 t = some k ∧
    MatchCodec.strip t = t ∧ (∀ c ∈ t, c ≠ ',') ∧ (∃ c ∈ t, isWs c = false) ∧ isModeText t = false := by
  have h := key_texts_ok k hk
  unfold keyTextOK at h
  cases he : encKey1 .v030 k with
  | none => simp [he] at h
  | some t =>
    simp only [he, Bool.and_eq_true, beq_iff_eq, Bool.not_eq_true', List.all_eq_true, bne_iff_ne, ne_eq,
      List.any_eq_true] at h
    obtain ⟨⟨⟨⟨h1, h2⟩, h3⟩, h4⟩, h5⟩ := h
    refine ⟨t, rfl, h1, h2, h3, ?_, h5⟩
    obtain ⟨c, hc, hw⟩ := h4
    exact ⟨c, hc, by simpa using hw⟩

theorem mapM_keys : ∀ (ks : List Key1), (∀ k ∈ ks, k ∈ allKey1) →
    ∃ texts, ks.mapM (encKey1 .v030) = some texts ∧ texts.mapM parseKey1 = some ks ∧ texts.length = ks.length ∧
      (∀ t ∈ texts, MatchCodec.strip t = t ∧ (∀ c ∈ t, c ≠ ',') ∧ (∃ c ∈ t, isWs c = false) ∧ isModeText t = false) := by
  intro ks
  induction ks with
  | nil => intro _; exact ⟨[], rfl, rfl, rfl, by simp⟩
  | cons k ks ih =>
    intro h
    obtain ⟨t, h1, h2, h3⟩ := keyText_facts k (h k (by simp))
    obtain ⟨ts, g1, g2, g3, g4⟩ := ih (fun x hx => h x (by simp [hx]))
    refine ⟨t :: ts, ?_, ?_, by simp [g3], ?_⟩
    · simp [List.mapM_cons, h1, g1]
    · simp [List.mapM_cons, h2, g2]
    · intro x hx
      rcases List.mem_cons.mp hx with e | hx
      · subst e; exact h3
      · exact g4 x hx

/-- **key lists with further components**: a key signature whose main key and further components are any of
    the 930 keys is written in the list spelling `[K1,K2,…]` and read back as the same signature -/
theorem key_list_roundtrip (k : KeySig) (hm : k.main ∈ allKey1) (ho : ∀ o ∈ k.others, o ∈ allKey1) :
    ∃ text, encKey .v030list k = some text ∧ decKey text = some (some k) ∧
      decode .key text = .ok (.key k) := by
  obtain ⟨texts, g1, g2, g3, g4⟩ := mapM_keys (k.main :: k.others) (by
    intro x hx
    rcases List.mem_cons.mp hx with e | hx
    · subst e; exact hm
    · exact ho x hx)
  have henc : encKey .v030list k = some (encList texts) := by
    simp only [encKey, g1, Option.map_some]
  have hlist : decList (encList texts) = texts := by
    apply decList_encList_phrases texts
    · intro e; subst e; simp at g3
    · exact fun x hx => (g4 x hx).1
    · exact fun x hx => (g4 x hx).2.1
    · exact fun x hx => (g4 x hx).2.2.1
  have hdec : decKey (encList texts) = some (some k) := by
    unfold decKey
    simp only [hlist]
    obtain ⟨m, o⟩ := k
    cases texts with
    | nil => simp at g3
    | cons t0 tr =>
      cases tr with
      | nil => simp only [g2]
      | cons b tr2 =>
        cases tr2 with
        | nil =>
          have hb := (g4 b (by simp)).2.2.2
          unfold isModeText at hb
          simp only [hb, Bool.false_eq_true, if_false, g2]
        | cons c tr3 => simp only [g2]
  exact ⟨encList texts, henc, hdec, by simp only [decode, hdec, liftO, Except.map]⟩

-- non-vacuity: three components, one of them a double key
example : encKey .v030list ⟨⟨-2, .major, none⟩, [⟨-2, .minor, some (2, .major)⟩, ⟨3, .minor, none⟩]⟩
      = some "[Bb Maj,G min/D Maj,F# min]".toList ∧
    decKey "[Bb Maj,G min/D Maj,F# min]".toList
      = some (some ⟨⟨-2, .major, none⟩, [⟨-2, .minor, some (2, .major)⟩, ⟨3, .minor, none⟩]⟩) := by decide +kernel

end C07
