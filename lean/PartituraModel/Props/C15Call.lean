/-
C15, round 5 - the call `merge_parts(parts, reassign="voice")` as a whole (model: Model/MergeCall.lean, tables
Gen/C15Call.lean regenerated from the live sources of `merge_parts`, `iter_parts` and `load_score_as_part`).

  * the parts of the argument are told apart by the IDENTITY of the Part objects (`pid`) - not by their `id`
    attribute, not by their contents: a part that is reachable twice is one input (fixes/C15-11), different parts that
    carry the same id or the same contents are different inputs
  * `reassign` is validated before anything else; left out it is "voice"; `load_score_as_part` leaves it out
  * an object in the argument that is neither a Part nor has `.children` makes the call raise, wherever it stands
  * the order of the checks: validation of `reassign`, flattening, de-duplication, single part returned as is
    (whatever its divisions), the divisions checks, everything else
`mergeCall r a` refines `mergeArg` / `merge` of Model/Merge.lean (`call_agrees`): every statement of Props/C15.lean,
C15Ext.lean and C15Hist.lean about `mergeParts m ps` applies to a successful call with `ps = distinctParts` of the
flattened argument.
-/
import PartituraModel.Proofs.C15Call
import PartituraModel.Props.C15
import PartituraModel.Props.C15Hist

namespace C15
open Model.Merge

-- ================================================================ the tables of the sources

/-- The literal facts the model copies from the sources are those of the live sources: the second parameter is called
`reassign` and defaults to "voice"; a Score argument is read through `.parts`; `load_score_as_part` calls
`merge_parts(<score>.parts)` with one positional argument and nothing for `reassign`; `iter_parts` iterates over lists,
tuples and sets, yields `Part` instances and asks anything else for `.children` (nothing else). -/
theorem call_source :
    Gen.C15.callOk = true ∧ Gen.C15.reassignParam = "reassign" ∧ Gen.C15.reassignDefault = "voice"
      ∧ Gen.C15.scoreArgAttr = "parts"
      ∧ Gen.C15.loadPositional = 1 ∧ Gen.C15.loadReassign = none ∧ Gen.C15.loadArgAttr = "parts"
      ∧ Gen.C15.iterLeaf = ["Part"] ∧ Gen.C15.iterChildAttrs = ["children"]
      ∧ (∀ s, s ∈ Gen.C15.iterContainers ↔ s ∈ ["list", "tuple", "set"]) := by
  refine ⟨by decide, by decide, by decide, by decide, by decide, by decide, by decide, by decide, by decide, ?_⟩
  intro s
  constructor <;> intro h <;> simp only [Gen.C15.iterContainers, List.mem_cons, List.not_mem_nil, or_false] at h ⊢ <;>
    tauto

/-- the accepted values of `reassign` (the list of the `not in` test of the source) are exactly the values one of
the branches of the code handles -/
theorem values_are_modes (r : String) : r ∈ Gen.C15.reassignValues ↔ (modeOf r).isSome = true := by
  rw [← List.contains_iff_mem, values_contains_iff]
  rcases modeOf_cases r with ⟨h, hm⟩ | ⟨h, hm⟩ | ⟨h, hm⟩ | ⟨h, hm⟩
  · rw [hm]; simp [h]
  · rw [hm]; simp [h]
  · rw [hm]; simp [h]
  · simp [hm, h]

-- ================================================================ validation of `reassign`

/-- Any other value of `reassign` is rejected (ValueError) - whatever the argument is: several parts, a single part
(which is NOT returned), nothing, or something that could not be flattened. -/
theorem reassign_checked_first (r : String) (hr : r ∉ Gen.C15.reassignValues) (a : XArg) :
    mergeCall (some r) a = .error .reassign := by
  have : Gen.C15.reassignValues.contains r = false := by
    rw [← Bool.not_eq_true, List.contains_iff_mem]; exact hr
  simp only [mergeCall, Option.getD_some, this, Bool.not_false, if_true]

/-- `reassign` left out is `reassign="voice"` -/
theorem default_reassign (a : XArg) : mergeCall none a = mergeCall (some "voice") a := rfl

example : mergeCall (some "both") (.plain (.one (.part exA))) = .error .reassign
    ∧ mergeCall (some "Voice") (.plain (.many [])) = .error .reassign
    ∧ mergeCall (some "") (.plain (.one .other)) = .error .reassign := by decide

-- ================================================================ the call refines the model of Model/Merge.lean

/-- A call with an accepted `reassign` on an argument made of parts and groups (or a Score with its history)
succeeds exactly when `mergeArg` of Model/Merge.lean does, with the same result. -/
theorem call_agrees (r : String) (m : Mode) (hm : modeOf r = some m) (a : Arg) :
    (mergeCall (some r) a.toX).toOption = mergeArg m a := by
  rw [mergeCall_of_mode hm, mergeArg, ← xargParts_toX]
  cases xargParts a.toX with
  | error e => rfl
  | ok parts => exact mergeChecked_toOption m parts

theorem call_agrees_plain (r : String) (m : Mode) (hm : modeOf r = some m) (s : Shape) :
    (mergeCall (some r) (.plain s.toX)).toOption = merge m s := by
  have := call_agrees r m hm (.plain s)
  simpa [Arg.toX, mergeArg, argParts, merge] using this

/-- `load_score_as_part(file)` is the call `merge_parts(score.parts)` with `reassign` left out: the voice-mode merge
of the parts of the loaded score -/
theorem load_is_default_call (s : Shape) : (loadCall s).toOption = loadScoreAsPart s := by
  have hm : modeOf "voice" = some .voice := by decide
  show (mergeCall none _).toOption = _
  rw [default_reassign, mergeCall_of_mode hm]
  simp only [xargParts, xiterParts, xflattenList_parts, mkScore_parts]
  exact mergeChecked_toOption .voice (iterParts s)

-- ================================================================ objects that are neither parts nor groups

/-- An object that is neither a Part nor has `.children` - `None`, a nested list or tuple, a Score inside a list, a
string - makes the call raise (AttributeError), wherever it stands in the list and however many parts are listed
besides it; so does a group that holds one, at any depth (`hbad` may be the same statement about a group). -/
theorem bad_object_rejected (r : String) (hr : r ∈ Gen.C15.reassignValues) (ts : List XTree) (t : XTree)
    (ht : t ∈ ts) (hbad : xflattenTree t = none) :
    mergeCall (some r) (.plain (.many ts)) = .error .argument
      ∧ mergeCall (some r) (.plain (.one (.group ts))) = .error .argument := by
  obtain ⟨m, hm⟩ := Option.isSome_iff_exists.mp ((values_are_modes r).mp hr)
  rw [mergeCall_of_mode hm, mergeCall_of_mode hm]
  simp [xargParts, xiterParts, xflattenTree, xflattenList_none_of_mem ht hbad, Except.bind]

theorem other_not_flattened : xflattenTree .other = none
    ∧ ∀ ts t, t ∈ ts → xflattenTree t = none → xflattenTree (.group ts) = none :=
  ⟨rfl, fun ts t ht hbad => by simp [xflattenTree, xflattenList_none_of_mem ht hbad]⟩

example : mergeCall (some "voice") (.plain (.many [.part exA, .group [.group [.other]], .part exB])) = .error .argument
    ∧ mergeCall (some "auto") (.plain (.one .other)) = .error .argument := by decide

-- ================================================================ the order of the checks

/-- A single Part object - reachable once or several times - is returned as is before its divisions are looked at:
also a part with several divisions values (which reaches the model with `divs = 0`). -/
theorem single_before_divisions (r : String) (m : Mode) (hm : modeOf r = some m) (a : XArg) (parts : List APart)
    (ha : xargParts a = .ok parts) (p : APart) (h1 : distinctParts parts = [p]) :
    mergeCall (some r) a = .ok (.same p) := by
  rw [mergeCall_of_mode hm, ha]
  simp [Except.bind, mergeChecked, h1]

/-- Two or more different parts one of which has not exactly one integer divisions value are rejected with the
divisions error - before voices, staves or anything else of the parts is looked at. -/
theorem divisions_before_rest (r : String) (m : Mode) (hm : modeOf r = some m) (a : XArg) (parts : List APart)
    (ha : xargParts a = .ok parts) (h2 : 2 ≤ (distinctParts parts).length) (q : APart)
    (hq : q ∈ distinctParts parts) (h0 : q.divs = 0) :
    mergeCall (some r) a = .error .divisions := by
  rw [mergeCall_of_mode hm, ha]
  simp only [Except.bind, mergeChecked]
  have hall : ((distinctParts parts).all fun p => 0 < p.divs) = false := by
    rw [← Bool.not_eq_true, List.all_eq_true]
    intro h
    have := h q hq
    simp [h0] at this
  match h : distinctParts parts, h2 with
  | a :: b :: rest, _ =>
    simp only
    rw [h] at hall
    simp [hall]

/-- Two or more different parts with one positive divisions value each, whose notes carry a voice: the call succeeds
in every mode, for every form of the argument, with the least common multiple as divisions. -/
theorem call_total (r : String) (m : Mode) (hm : modeOf r = some m) (a : XArg) (parts : List APart)
    (ha : xargParts a = .ok parts) (h2 : 2 ≤ (distinctParts parts).length)
    (hpos : ∀ p ∈ distinctParts parts, 0 < p.divs) (hv : voicesGiven (distinctParts parts) = true) :
    ∃ es, mergeCall (some r) a = .ok (.merged (lcmList ((distinctParts parts).map (·.divs))) es)
      ∧ mergeParts m (distinctParts parts) = some (.merged (lcmList ((distinctParts parts).map (·.divs))) es) := by
  obtain ⟨es, hes⟩ := merge_total m (distinctParts parts) h2 hpos hv
  refine ⟨es, ?_, hes⟩
  rw [mergeCall_of_mode hm, ha]
  simp only [Except.bind, mergeChecked]
  have hall : ((distinctParts parts).all fun p => 0 < p.divs) = true := by
    rw [List.all_eq_true]; intro p hp; simpa using hpos p hp
  match h : distinctParts parts, h2 with
  | a :: b :: rest, _ =>
    simp only
    rw [h] at hall hes
    simp [hall, hes]

-- ================================================================ identity, not equality, of the parts

/-- What `merge_parts` merges: the different Part objects of the flattened argument - each once, at its first
position, nothing invented, nothing that is listed left out - and exactly the flattened argument itself when no
part is listed twice (the usual case), whatever `id` attributes and contents the parts have. -/
theorem distinct_parts_spec (ps : List APart) :
    (distinctParts ps).Sublist ps ∧ ((distinctParts ps).map (·.pid)).Nodup
      ∧ (∀ k, k ∈ (distinctParts ps).map (·.pid) ↔ k ∈ ps.map (·.pid))
      ∧ ((ps.map (·.pid)).Nodup → distinctParts ps = ps)
      ∧ distinctParts (distinctParts ps) = distinctParts ps
      ∧ (SameObject ps → ∀ p ∈ ps, p ∈ distinctParts ps) :=
  ⟨distinctParts_sublist ps, distinctParts_nodup ps, pid_mem_distinctParts ps, distinctParts_of_nodup,
    distinctParts_idem ps, fun hc _ hp => mem_distinctParts hc hp⟩

/-- Different Part objects are never merged away - however equal they are: with every part listed once, the call
merges the flattened argument as it is (`merge` is `mergeParts` of `iterParts`), so the statements of Props/C15.lean
hold for every listed part, also for parts that carry the same `id` or the same contents. -/
theorem equal_parts_stay_apart (m : Mode) (s : Shape) (h : ((iterParts s).map (·.pid)).Nodup) :
    merge m s = mergeParts m (iterParts s) := by
  rw [merge, distinctParts_of_nodup h]

/-- Listing a Part object again - anywhere after its first occurrence, on its own or inside a group - changes
nothing: it is one input. -/
theorem listed_twice_once (m : Mode) (l r : List Tree) (t : Tree) (p : APart) (hp : p ∈ flattenList l)
    (ht : flattenTree t = [p]) :
    merge m (.many (l ++ [t] ++ r)) = merge m (.many (l ++ r)) := by
  simp only [merge, iterParts, flattenList_append]
  have : flattenList [t] = [p] := by simp [flattenList, ht]
  rw [this, distinctParts_relisted _ _ p ⟨p, hp, rfl⟩]

/-- the structural elements come from the first LISTED part: de-duplication keeps the head of the list -/
theorem first_part_is_first_listed (p : APart) (ps : List APart) : (distinctParts (p :: ps))[0]? = some p :=
  distinctParts_head p ps

/-- two copies of part D - equal id, equal contents, another object - are two inputs: both notes are in the merged
part, in different voices; D listed twice (on its own and inside nested groups) is D -/
def exD' : APart := { exD with pid := 9, elems := exD.elems.map fun e => { e with oid := e.oid + 100 } }

example : exD'.name = exD.name ∧ exD'.divs = exD.divs ∧ exD'.elems.map (·.pitch) = exD.elems.map (·.pitch)
    ∧ distinctParts [exD, exD'] = [exD, exD']
    ∧ outcome (merge .voice (.many [.part exD, .part exD']))
        = some (2, [(30, some 1, some 1), (130, some 2, some 1)]) := by decide

example : distinctParts (iterParts (.many [.part exD, .group [.group [.part exD]], .part exD])) = [exD]
    ∧ outcome (merge .voice (.many [.part exA, .part exD, .group [.part exA]]))
        = outcome (merge .voice (.many [.part exA, .part exD])) := by decide

/-- hypotheses of `listed_twice_once`, `single_before_divisions`, `divisions_before_rest`, `call_total` at
non-trivial values -/
example : exA ∈ flattenList [.group [.part exB, .part exA]] ∧ flattenTree (.group [.group [.part exA]]) = [exA] := by
  decide
example : xargParts (.plain (.many [.part { exB with divs := divsOf [4, 8] }])) = .ok [{ exB with divs := 0 }] :=
  rfl
example : mergeCall (some "staff") (.plain (.many [.part { exB with divs := divsOf [4, 8] }]))
    = .ok (.same { exB with divs := 0 }) := by decide
example : mergeCall (some "staff") (.plain (.many [.part exA, .part { exB with divs := divsOf [4, 8] }]))
    = .error .divisions := by decide
example : outcome (mergeCall none (.plain (.many [.part exA, .part exB]))).toOption
    = outcome (mergeParts .voice [exA, exB]) := by decide

end C15
