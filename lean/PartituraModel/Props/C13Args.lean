/-
C13, round 2 — the entry points as they are called: input dispatch, keyword handling, the generated constants.
-/
import PartituraModel.Proofs.C13
import PartituraModel.Model.PianoRollArgs

namespace C13
open Model Model.PianoRoll
open List

/-- the translator could read every constant from the source -/
theorem tables_extracted : Gen.C13_EXTRACTION_OK = true := by decide

end C13
