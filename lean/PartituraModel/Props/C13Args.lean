/-
C13, round 2 — the entry points as they are called.

* `tables_extracted`, `tables_spec`, `kw_forwarding`: the constants the model is stated over are regenerated from
  the source (harness/translate_c13.py → Gen/C13Tables.lean) and have the documented values;
* `ensure_dispatch`: which kinds of `note_info` are accepted and which columns the note array then has;
* `trunc_spec`, `resolve_spec`: keyword defaults, `int(time_div)`, `end_time.item()`;
* `call_spec`, `score_input_spec`, `perf_input_spec`: the composition down to `_make_pianoroll`, velocities 1 for
  score-like inputs, drums dropped for performance-like inputs;
* `pc_inner`, `pc_spec`: `compute_pitch_class_pianoroll` as one function of its own keywords.
-/
import PartituraModel.Props.C13
import PartituraModel.Proofs.C13Args

namespace C13
open Model Model.PianoRoll
open List

/-! ### the generated constants -/

/-- the translator could read every constant from the source -/
theorem tables_extracted : Gen.C13_EXTRACTION_OK = true := by decide

/-- **every constant of the source has its documented value**: the time units, the defaults of the three public
    functions, eight frames per beat / quarter / second and one per div / tick, drum channel 9, pitches 0..127,
    piano range rows 21..108, the decoder's 128 / 88 rows with pitch offsets 0 / 21, twelve pitch classes folded
    from 128 pitches, and the literals of the pitch-class function's inner call -/
theorem tables_spec :
    TIME_UNITS = ["beat", "quarter", "sec", "div", "tick"] ∧
    Gen.C13_AUTO_DIV = [("beat", some 8), ("quarter", some 8), ("sec", some 8), ("div", some 1), ("tick", some 1)] ∧
    (Gen.C13_PR_DEFAULT_time_unit = "auto" ∧ Gen.C13_PR_DEFAULT_time_div = none ∧
      Gen.C13_PR_DEFAULT_onset_only = false ∧ Gen.C13_PR_DEFAULT_note_separation = false ∧
      Gen.C13_PR_DEFAULT_pitch_margin = -1 ∧ Gen.C13_PR_DEFAULT_time_margin = 0 ∧
      Gen.C13_PR_DEFAULT_return_idxs = false ∧ Gen.C13_PR_DEFAULT_piano_range = false ∧
      Gen.C13_PR_DEFAULT_remove_drums = true ∧ Gen.C13_PR_DEFAULT_remove_silence = true ∧
      Gen.C13_PR_DEFAULT_end_time = none ∧ Gen.C13_PR_DEFAULT_binary = false) ∧
    (Gen.C13_PC_DEFAULT_normalize = true ∧ Gen.C13_PC_DEFAULT_time_unit = "auto" ∧ Gen.C13_PC_DEFAULT_time_div = none ∧
      Gen.C13_PC_DEFAULT_onset_only = false ∧ Gen.C13_PC_DEFAULT_note_separation = false ∧
      Gen.C13_PC_DEFAULT_time_margin = 0 ∧ Gen.C13_PC_DEFAULT_return_idxs = false ∧
      Gen.C13_PC_DEFAULT_remove_silence = true ∧ Gen.C13_PC_DEFAULT_end_time = none ∧
      Gen.C13_PC_DEFAULT_binary = false) ∧
    (Gen.C13_DEC_DEFAULT_time_div = 8 ∧ Gen.C13_DEC_DEFAULT_time_unit = "sec") ∧
    Gen.C13_PC_FORCED = [("binary", (some false, none)), ("piano_range", (some false, none)),
      ("pitch_margin", (none, some (-1))), ("remove_drums", (some true, none))] ∧
    (Gen.C13_DRUM_CHANNEL = 9 ∧ Gen.C13_LOWEST_PITCH = 0 ∧ Gen.C13_HIGHEST_PITCH = 127 ∧
      Gen.C13_PIANO_LO = 21 ∧ Gen.C13_PIANO_HI = 109 ∧ Gen.C13_IDX_START = 0 ∧ Gen.C13_IDX_START_PIANO = 21) ∧
    Gen.C13_DEC_SHAPES = [(88, 21), (128, 0)] ∧
    (Gen.C13_PC_ROWS = 12 ∧ Gen.C13_PC_SPAN = 128 ∧ Gen.C13_PC_STEP = 12 ∧ Gen.C13_PC_MOD = 12 ∧ pcSlices = 11) := by
  refine ⟨by decide, by decide, by decide, by decide, by decide, by decide, by decide, by decide, by decide⟩

/-- **keywords are passed on under their own names**: `compute_pianoroll` hands every parameter of
    `_make_pianoroll` except `min_time` (the stacked columns as `note_info`), none as a literal;
    `compute_pitch_class_pianoroll` hands its own `note_info`, `time_unit`, `time_div`, `onset_only`,
    `note_separation`, `time_margin`, `return_idxs`, `remove_silence`, `end_time` to `compute_pianoroll`
    (`normalize` and `binary` stay with the fold) -/
theorem kw_forwarding :
    ((Gen.C13_MK_FORWARD.filter (fun kv => kv.1 != kv.2)).map (·.1) = ["note_info"] ∧
      Gen.C13_MK_FORCED = [] ∧
      Gen.C13_MK_PARAMS.filter (fun p => !(Gen.C13_MK_FORWARD.map (·.1)).contains p) = ["min_time"]) ∧
    (Gen.C13_PC_FORWARD.filter (fun kv => kv.1 != kv.2) = [] ∧
      Gen.C13_PC_FORWARD.map (·.1) = ["end_time", "note_info", "note_separation", "onset_only", "remove_silence",
        "return_idxs", "time_div", "time_margin", "time_unit"]) := by
  refine ⟨⟨by decide, by decide, by decide⟩, by decide, by decide⟩

/-! ### `ensure_notearray` -/

def SCORE_KINDS : List String := ["part", "partgroup", "score", "partlist"]
def PERF_KINDS : List String := ["performedpart", "performance"]

/-- **input dispatch**: a structured array is used as it is; a Part, PartGroup, Score or list of Parts stands
    for a score note array (beat, quarter and div columns, neither velocity nor channel); a PerformedPart or
    Performance for a performance note array (sec and tick columns, velocity and channel); every other kind
    of input — an unstructured array, an empty list, a string, `None`, ... — is rejected.  (A list of
    PerformedParts, documented as performance-like, is rejected by the current code; the statement leaves
    room for reading it as a performance.) -/
theorem ensure_dispatch (kind : String) (a : NoteArray) :
    (kind = "array" → ensureNotearray kind a = some a) ∧
    (kind ∈ SCORE_KINDS → ensureNotearray kind a =
      some { units := ["beat", "quarter", "div"], hasVel := false, hasChan := false, rows := a.rows }) ∧
    (kind ∈ PERF_KINDS → ensureNotearray kind a =
      some { units := ["sec", "tick"], hasVel := true, hasChan := true, rows := a.rows }) ∧
    (kind ≠ "array" → kind ∉ SCORE_KINDS → kind ∉ PERF_KINDS → kind ≠ "performedpartlist" →
      ensureNotearray kind a = none) ∧
    (ensureNotearray "performedpartlist" a = none ∨ ensureNotearray "performedpartlist" a =
      some { units := ["sec", "tick"], hasVel := true, hasChan := true, rows := a.rows }) := by
  refine ⟨?_, ?_, ?_, ?_, by first | exact Or.inl rfl | exact Or.inr rfl⟩
  · intro h; subst h; rfl
  · intro h
    simp only [SCORE_KINDS, mem_cons, not_mem_nil, or_false] at h
    rcases h with rfl | rfl | rfl | rfl <;> rfl
  · intro h
    simp only [PERF_KINDS, mem_cons, not_mem_nil, or_false] at h
    rcases h with rfl | rfl <;> rfl
  · intro h0 h1 h2 b3
    simp only [SCORE_KINDS, PERF_KINDS, mem_cons, not_mem_nil, or_false, not_or] at h1 h2
    obtain ⟨a1, a2, a3, a4⟩ := h1
    obtain ⟨b1, b2⟩ := h2
    unfold ensureNotearray
    rw [if_neg h0]
    have hl : ∀ v, Model.lookup kind Gen.C13_LAYOUTS = some v → v = none := by
      intro v hv
      have hm := lookup_mem _ _ _ hv
      simp only [Gen.C13_LAYOUTS, mem_cons, Prod.mk.injEq, not_mem_nil, or_false] at hm
      rcases hm with ⟨hk, hv'⟩ | ⟨hk, hv'⟩ | ⟨hk, hv'⟩ | ⟨hk, hv'⟩ | ⟨hk, hv'⟩ | ⟨hk, hv'⟩ | ⟨hk, hv'⟩ | ⟨hk, hv'⟩ |
        ⟨hk, hv'⟩ | ⟨hk, hv'⟩ | ⟨hk, hv'⟩
      all_goals first
        | exact absurd hk a1 | exact absurd hk a2 | exact absurd hk a3 | exact absurd hk a4
        | exact absurd hk b1 | exact absurd hk b2 | exact absurd hk b3 | exact hv'
    cases hk : Model.lookup kind Gen.C13_LAYOUTS with
    | none => rfl
    | some v => rw [hl v hk]

example : ensureNotearray "emptylist" exArray = none ∧ ensureNotearray "plainarray" exArray = none ∧
    ensureNotearray "none" exArray = none ∧ ensureNotearray "whatever" exArray = none := by decide

/-! ### keyword handling -/

/-- Python's `int()` of a number truncates toward zero (and is the identity on integers) -/
theorem trunc_spec (q : Rat) :
    (0 ≤ q → 0 ≤ truncRat q ∧ (truncRat q : Rat) ≤ q ∧ q < (truncRat q : Rat) + 1) ∧
    (q < 0 → truncRat q ≤ 0 ∧ q ≤ (truncRat q : Rat) ∧ (truncRat q : Rat) - 1 < q) ∧
    (∀ k : Int, q = (k : Rat) → truncRat q = k) := by
  refine ⟨?_, ?_, ?_⟩
  · intro h
    unfold truncRat
    rw [if_pos h]
    refine ⟨Rat.le_floor_iff.mpr (by simpa using h), Rat.floor_le _, ?_⟩
    have := Rat.lt_floor_add_one q
    push_cast at this
    exact this
  · intro h
    unfold truncRat
    rw [if_neg (not_le.mpr h)]
    refine ⟨Rat.ceil_le_iff.mpr (by simpa using le_of_lt h), Rat.le_ceil, ?_⟩
    have := (Rat.lt_ceil_iff (x := q) (y := q.ceil - 1)).mp (by omega)
    push_cast at this
    exact this
  · intro k hk
    subst hk
    unfold truncRat
    rw [Rat.floor_intCast, Rat.ceil_intCast]
    split <;> rfl

example : truncRat (27/10) = 2 ∧ truncRat (-3/2) = -1 ∧ truncRat (1/2) = 0 := by decide +kernel

/-- what `end_time` stands for: `None`, the number, or the single element of a sequence -/
def endTimeValue : Option EndTimeArg → Option Rat
  | none => none
  | some (.scalar q) => some q
  | some (.array xs) => xs.head?

/-- **keyword handling**: the call fails when `time_div` is an array with a dimension or `end_time` a sequence
    that does not have exactly one element; otherwise every omitted keyword has its documented default,
    `time_div` is `"auto"` (resolved per unit by `prepare_spec` / `auto_time_div`) or `int(time_div)`
    (`trunc_spec`), `end_time` is `None`, the number given or the single element of the sequence, and every
    other keyword is passed through -/
theorem resolve_spec (kw : KwArgs) :
    ((kw.timeDiv = some .array ∨ ∃ xs, kw.endTime = some (.array xs) ∧ xs.length ≠ 1) → resolveArgs kw = none) ∧
    (kw.timeDiv ≠ some .array → (∀ xs, kw.endTime = some (.array xs) → xs.length = 1) →
      ∃ g ri, resolveArgs kw = some (g, ri) ∧
        g.timeUnit = kw.timeUnit.getD "auto" ∧
        g.timeDiv = (match kw.timeDiv with | some (.num q) => some (truncRat q) | _ => none) ∧
        g.removeDrums = kw.removeDrums.getD true ∧
        g.opts.onsetOnly = kw.onsetOnly.getD false ∧ g.opts.noteSep = kw.noteSep.getD false ∧
        g.opts.pitchMargin = kw.pitchMargin.getD (-1) ∧ g.opts.timeMargin = kw.timeMargin.getD 0 ∧
        g.opts.pianoRange = kw.pianoRange.getD false ∧ g.opts.removeSilence = kw.removeSilence.getD true ∧
        g.opts.endTime = endTimeValue kw.endTime ∧ g.opts.binary = kw.binary.getD false ∧
        ri = kw.returnIdxs.getD false) := by
  obtain ⟨_, _, hd, _⟩ := tables_spec
  obtain ⟨d1, d2, d3, d4, d5, d6, d7, d8, d9, d10, d11, d12⟩ := hd
  constructor
  · rintro (h | ⟨xs, h, hl⟩)
    · unfold resolveArgs resolveTimeDiv
      rw [h]
    · unfold resolveArgs resolveEndTime
      rw [h]
      have : (EndTimeArg.array xs).item = none := by
        match xs, hl with
        | [], _ => rfl
        | [_], hl => simp at hl
        | _ :: _ :: _, _ => rfl
      simp only [this]
      split <;> simp_all
  · intro h1 h2
    have ht : ∃ td, resolveTimeDiv kw.timeDiv = some td ∧
        td = (match kw.timeDiv with | some (.num q) => some (truncRat q) | _ => none) := by
      unfold resolveTimeDiv
      rw [d2]
      match hk : kw.timeDiv with
      | none => exact ⟨_, rfl, rfl⟩
      | some .auto => exact ⟨_, rfl, rfl⟩
      | some (.num q) => exact ⟨_, rfl, rfl⟩
      | some .array => exact absurd hk h1
    have he : resolveEndTime kw.endTime = some (endTimeValue kw.endTime) := by
      unfold resolveEndTime
      rw [d11]
      match hk : kw.endTime with
      | none => rfl
      | some (.scalar q) => rfl
      | some (.array xs) =>
        have := h2 xs hk
        match xs, this with
        | [x], _ => rfl
    obtain ⟨td, htd, htd2⟩ := ht
    unfold resolveArgs
    rw [htd, he]
    refine ⟨_, _, rfl, ?_⟩
    simp only [d1, d3, d4, d5, d6, d7, d8, d9, d10, d12, htd2, and_self]

def exKw : KwArgs := { KwArgs.empty with timeDiv := some (.num (27/10)), endTime := some (.array [4]), timeMargin := some (1/2) }

example : (resolveArgs exKw).map (fun x => (x.1.timeDiv, x.1.opts.endTime, x.1.opts.timeMargin, x.1.removeDrums, x.2))
    = some (some 2, some 4, 1/2, true, false) := by decide +kernel
example : resolveArgs { exKw with endTime := some (.array [4, 5]) } = none ∧
    resolveArgs { exKw with endTime := some (.array []) } = none ∧
    resolveArgs { exKw with timeDiv := some .array } = none := by decide +kernel

/-! ### the whole call -/

/-- **`compute_pianoroll(note_info, **keywords)`** succeeds exactly when the dispatch, the keyword handling, the
    unit / field selection and `_make_pianoroll` all do, and returns that roll (`t0_spec` … `idx_designate`
    describe it) together with `return_idxs` -/
theorem call_spec (kind : String) (a : NoteArray) (kw : KwArgs) (r : Roll) (ri : Bool) :
    computePianorollKw kind a kw = some (r, ri) ↔
      ∃ arr g o notes, ensureNotearray kind a = some arr ∧ resolveArgs kw = some (g, ri) ∧
        prepare arr g = some (o, notes) ∧ makePianoroll o notes = some r := by
  unfold computePianorollKw computePianoroll
  constructor
  · intro h
    split at h
    · rename_i arr g ri' h1 h2
      split at h
      · simp at h
      · rename_i r' hr
        split at hr
        · simp at hr
        · rename_i o notes hp
          simp only [Option.some.injEq, Prod.mk.injEq] at h
          obtain ⟨rfl, rfl⟩ := h
          exact ⟨arr, g, o, notes, h1, h2, hp, hr⟩
    · simp at h
  · rintro ⟨arr, g, o, notes, h1, h2, h3, h4⟩
    simp only [h1, h2, h3, h4]

/-- **score-like inputs**: the roll of a Part / PartGroup / Score / list of Parts is made from *all* rows of its
    note array (there is no channel column: nothing is dropped, whatever `remove_drums` says), every note
    counting as velocity 1 (so covered cells hold 1: `cell_binary`); the time unit is one of beat, quarter,
    div — beat when inferred -/
theorem score_input_spec (kind : String) (hk : kind ∈ SCORE_KINDS) (a : NoteArray) (kw : KwArgs) (r : Roll) (ri : Bool)
    (h : computePianorollKw kind a kw = some (r, ri)) :
    ∃ g o notes k, resolveArgs kw = some (g, ri) ∧ makePianoroll o notes = some r ∧
      indexOf (if g.timeUnit = "auto" then "beat" else g.timeUnit) ["beat", "quarter", "div"] = some k ∧
      (∀ n ∈ notes, n.vel = 1) ∧
      Forall₂ (fun row n => ∃ on du, row.times[k]? = some (on, du) ∧ n.pitch = row.pitch ∧ n.onset = on ∧ n.dur = du)
        a.rows notes := by
  obtain ⟨arr, g, o, notes, h1, h2, h3, h4⟩ := (call_spec kind a kw r ri).mp h
  rw [(ensure_dispatch kind a).2.1 hk] at h1
  simp only [Option.some.injEq] at h1
  subst h1
  obtain ⟨unit, k, _, hu, hidx, _, _, hrows⟩ := prepare_spec _ g o notes h3
  simp only [Bool.false_and, Bool.false_eq_true, if_false] at hrows
  have hunit : unit = if g.timeUnit = "auto" then "beat" else g.timeUnit := by
    by_cases ha : g.timeUnit = "auto"
    · rw [if_pos ha] at hu ⊢
      have : timeUnitsAuto ["beat", "quarter", "div"] = some "beat" := by decide
      rw [this] at hu
      exact (Option.some.inj hu).symm
    · rw [if_neg ha] at hu ⊢
      exact hu
  refine ⟨g, o, notes, k, h2, h4, hunit ▸ hidx, ?_, ?_⟩
  · exact forall₂_right hrows (fun row n ⟨_, _, _, hrn⟩ => by rw [hrn])
  · refine hrows.imp ?_
    rintro row n ⟨on, du, ht, rfl⟩
    exact ⟨on, du, ht, rfl, rfl, rfl⟩

/-- **performance-like inputs**: the roll of a PerformedPart / Performance is made from the rows of its note
    array without those of channel 9 when `remove_drums` holds (the default), and from all of them otherwise,
    with their own velocities; the time unit is sec or tick — sec when inferred -/
theorem perf_input_spec (kind : String) (hk : kind ∈ PERF_KINDS) (a : NoteArray) (kw : KwArgs) (r : Roll) (ri : Bool)
    (h : computePianorollKw kind a kw = some (r, ri)) :
    ∃ g o notes k, resolveArgs kw = some (g, ri) ∧ makePianoroll o notes = some r ∧
      g.removeDrums = kw.removeDrums.getD true ∧
      indexOf (if g.timeUnit = "auto" then "sec" else g.timeUnit) ["sec", "tick"] = some k ∧
      Forall₂ (fun row n => ∃ on du, row.times[k]? = some (on, du) ∧ n.pitch = row.pitch ∧ n.onset = on ∧ n.dur = du ∧
          n.vel = row.vel.getD 1)
        (if g.removeDrums then a.rows.filter (fun row => row.chan != some 9) else a.rows) notes := by
  obtain ⟨arr, g, o, notes, h1, h2, h3, h4⟩ := (call_spec kind a kw r ri).mp h
  rw [(ensure_dispatch kind a).2.2.1 hk] at h1
  simp only [Option.some.injEq] at h1
  subst h1
  obtain ⟨unit, k, _, hu, hidx, _, _, hrows⟩ := prepare_spec _ g o notes h3
  simp only [Bool.true_and] at hrows
  have hunit : unit = if g.timeUnit = "auto" then "sec" else g.timeUnit := by
    by_cases ha : g.timeUnit = "auto"
    · rw [if_pos ha] at hu ⊢
      have : timeUnitsAuto ["sec", "tick"] = some "sec" := by decide
      rw [this] at hu
      exact (Option.some.inj hu).symm
    · rw [if_neg ha] at hu ⊢
      exact hu
  have hrd : g.removeDrums = kw.removeDrums.getD true := by
    have hne : kw.timeDiv ≠ some .array := by
      intro hc
      rw [(resolve_spec kw).1 (Or.inl hc)] at h2
      simp at h2
    have hne2 : ∀ xs, kw.endTime = some (.array xs) → xs.length = 1 := by
      intro xs hx
      by_contra hc
      rw [(resolve_spec kw).1 (Or.inr ⟨xs, hx, hc⟩)] at h2
      simp at h2
    obtain ⟨g', ri', hg, _, _, hd, _⟩ := (resolve_spec kw).2 hne hne2
    rw [h2] at hg
    simp only [Option.some.injEq, Prod.mk.injEq] at hg
    rw [hg.1]
    exact hd
  refine ⟨g, o, notes, k, h2, h4, hrd, hunit ▸ hidx, ?_⟩
  refine hrows.imp ?_
  rintro row n ⟨on, du, ht, rfl⟩
  exact ⟨on, du, ht, rfl, rfl, rfl, rfl⟩

/-- a performance with a drum note (channel 9) and one on channel 0 -/
def exPerf : NoteArray :=
  { units := [], hasVel := false, hasChan := false,
    rows := [⟨60, [(0, 1), (0, 8)], some 80, some 0⟩, ⟨36, [(1/2, 1/2), (4, 4)], some 100, some 9⟩] }

example : (computePianorollKw "performedpart" exPerf KwArgs.empty).map (fun x => (x.1.rows, x.1.cols, x.1.cell 60 0, x.1.cell 36 4))
    = some (128, 8, 80, 0) := by decide +kernel
example : (computePianorollKw "performance" exPerf { KwArgs.empty with removeDrums := some false }).map
    (fun x => (x.1.rows, x.1.cols, x.1.cell 60 0, x.1.cell 36 4)) = some (128, 8, 80, 100) := by decide +kernel
/-- the same rows read as a score note array: beat columns, velocity 1, nothing dropped -/
example : (computePianorollKw "part" { exPerf with rows := exPerf.rows.map fun r => { r with times := r.times ++ [(0, 1)] } }
    KwArgs.empty).map (fun x => (x.1.cols, x.1.cell 60 0, x.1.cell 36 4)) = some (8, 1, 1) := by decide +kernel
example : computePianorollKw "plainarray" exPerf KwArgs.empty = none := by decide +kernel

/-! ### `compute_pitch_class_pianoroll` -/

/-- **the inner call**: `pitch_margin = -1`, `piano_range = False`, `remove_drums = True`, `binary = False`
    whatever the caller says; the other keywords are the pitch-class function's own arguments (its own
    defaults where omitted — they coincide with those of `compute_pianoroll`) -/
theorem pc_inner (kw : PcKw) :
    (pcInnerKw kw).pitchMargin = some (-1) ∧ (pcInnerKw kw).pianoRange = some false ∧
    (pcInnerKw kw).removeDrums = some true ∧ (pcInnerKw kw).binary = some false ∧
    (pcInnerKw kw).timeUnit = some (kw.timeUnit.getD "auto") ∧
    (pcInnerKw kw).timeDiv = some (kw.timeDiv.getD .auto) ∧
    (pcInnerKw kw).onsetOnly = some (kw.onsetOnly.getD false) ∧ (pcInnerKw kw).noteSep = some (kw.noteSep.getD false) ∧
    (pcInnerKw kw).timeMargin = some (kw.timeMargin.getD 0) ∧
    (pcInnerKw kw).returnIdxs = some (kw.returnIdxs.getD false) ∧
    (pcInnerKw kw).removeSilence = some (kw.removeSilence.getD true) ∧ (pcInnerKw kw).endTime = kw.endTime := by
  have f1 : pcForcedInt "pitch_margin" = some (-1) := by decide
  have f2 : pcForcedBool "piano_range" = some false := by decide
  have f3 : pcForcedBool "remove_drums" = some true := by decide
  have f4 : pcForcedBool "binary" = some false := by decide
  refine ⟨f1, f2, f3, f4, rfl, rfl, rfl, rfl, rfl, rfl, rfl, ?_⟩
  unfold pcInnerKw
  simp only
  cases kw.endTime <;> rfl

/-- **the pitch-class roll**: `compute_pitch_class_pianoroll` succeeds exactly when the inner call does; the
    roll folded has 128 rows; the result has 12 rows and the same number of columns, entry `(c, j)` being
    `pcOut` — the octave fold `pc_fold`, set to 1 where positive when `binary`, divided by the column sum when
    `normalize` (`pc_normalised`, default on) —, and the index rows (only when requested) are those of the full
    roll with the vertical position taken mod 12 -/
theorem pc_spec (kind : String) (a : NoteArray) (kw : PcKw) :
    (computePcKw kind a kw = none ↔ computePianorollKw kind a (pcInnerKw kw) = none) ∧
    ∀ out, computePcKw kind a kw = some out →
      ∃ r ri, computePianorollKw kind a (pcInnerKw kw) = some (r, ri) ∧ ri = kw.returnIdxs.getD false ∧
        r.rows = 128 ∧ out.cols = r.cols ∧ out.columns.length = r.cols.toNat ∧
        (∀ j : Nat, j < r.cols.toNat → ∀ c : Nat, c < 12 →
          (out.columns[j]?.bind (·[c]?)) = some (pcOut r (kw.binary.getD false) (kw.normalize.getD true) c j)) ∧
        (∀ col ∈ out.columns, col.length = 12) ∧
        out.idx = if ri then some (r.idx.map fun (p, on, off, mp) => (p % 12, on, off, mp)) else none := by
  constructor
  · unfold computePcKw
    cases computePianorollKw kind a (pcInnerKw kw) with
    | none => simp
    | some x => simp
  · intro out h
    unfold computePcKw at h
    split at h
    · simp at h
    · rename_i r ri hr
      simp only [Option.some.injEq] at h
      subst h
      obtain ⟨arr, g, o, notes, h1, h2, h3, h4⟩ := (call_spec kind a _ r ri).mp hr
      obtain ⟨p1, p2, _, _, _, _, _, _, _, p10, _, _⟩ := pc_inner kw
      have hne : (pcInnerKw kw).timeDiv ≠ some .array := by
        intro hc
        rw [(resolve_spec _).1 (Or.inl hc)] at h2
        simp at h2
      have hne2 : ∀ xs, (pcInnerKw kw).endTime = some (.array xs) → xs.length = 1 := by
        intro xs hx
        by_contra hc
        rw [(resolve_spec _).1 (Or.inr ⟨xs, hx, hc⟩)] at h2
        simp at h2
      obtain ⟨g', ri', hg, _, _, _, _, _, hpm, _, hpr, _, _, _, hri⟩ := (resolve_spec _).2 hne hne2
      rw [h2] at hg
      simp only [Option.some.injEq, Prod.mk.injEq] at hg
      obtain ⟨rfl, rfl⟩ := hg
      rw [p1] at hpm
      rw [p2] at hpr
      rw [p10] at hri
      obtain ⟨_, _, _, _, _, _, ho, _⟩ := prepare_spec arr g o notes h3
      have hopm : o.pitchMargin = -1 := by rw [ho]; exact hpm
      have hopr : o.pianoRange = false := by rw [ho]; exact hpr
      have hrows : r.rows = 128 := (shape_rows o notes r h4).1 hopm hopr
      obtain ⟨_, _, _, hpcd, _, _, _, _, hpcc⟩ := tables_spec
      obtain ⟨n1, _, _, _, _, _, _, _, _, n10⟩ := hpcd
      refine ⟨r, ri, hr, hri, hrows, rfl, by simp, ?_, ?_, ?_⟩
      · intro j hj c hc
        simp only [n1, n10]
        rw [getElem?_map, getElem?_range hj]
        simp only [Option.map_some, Option.bind_some, pc_column]
        rw [getElem?_map, getElem?_range hc]
        rfl
      · intro col hcol
        simp only [mem_map] at hcol
        obtain ⟨j, _, rfl⟩ := hcol
        rw [pc_column]
        simp
      · simp only [hpcc.2.2.2.1]

def exPcKw : PcKw :=
  { normalize := none, timeUnit := none, timeDiv := some (.num 2), onsetOnly := none, noteSep := none, timeMargin := none,
    returnIdxs := some true, removeSilence := none, endTime := none, binary := none }

/-- the drum note is dropped, the remaining note fills pitch class 0 (normalised to 1) -/
example : (computePcKw "performedpart" exPerf exPcKw).map (fun x => (x.cols, x.columns))
    = some (2, [[1, 0, 0, 0, 0, 0, 0, 0, 0, 0, 0, 0], [1, 0, 0, 0, 0, 0, 0, 0, 0, 0, 0, 0]]) := by decide +kernel
example : (computePcKw "performedpart" exPerf exPcKw).map (fun x => x.idx) = some (some [(0, 0, 2, 60)]) := by
  decide +kernel

end C13
