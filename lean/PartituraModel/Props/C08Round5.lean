/-
C08 (round 5) — the two families of the fifth round of seeded changes, as theorems over the models:

* the durations of the loaded notes in BINARY64 (`Model/MatchFloat.lean`): the reader's `int(divs * 4 * num / (den * tup))`
  is exact — one correctly rounded division of exact integers — for every duration the reader's own divisions hold
  (`durDivsF_exact`, `loaded_durations_exact` on top of `divs_sufficient`); rounding the quotient first loses a whole
  division (`two_roundings_lose_a_division`: 7/20 of a whole note at 180 divisions, the seeded change C08-j);
* the measure numbers of the written file count the measures BY POSITION, whatever `Measure.number` says
  (`measure_numbers_by_position`, `measure_numbers_increasing`); the reader makes one bar per distinct number
  (`bars_are_the_distinct_numbers`), so numbering the file by `Measure.number` merges the two halves of a split bar
  (`repeated_numbers_merge_bars`: the seeded change C08-i).
-/
import PartituraModel.Model.MatchTime
import PartituraModel.Model.MatchFloat
import PartituraModel.Proofs.C08
import PartituraModel.Proofs.C08Sort
import PartituraModel.Proofs.C08Float
import PartituraModel.Proofs.C08Round5
import PartituraModel.Props.C08
import PartituraModel.Props.C08Format

namespace C08
open Model Model.MatchTime Model.MatchFloat

/-! ### durations in binary64 -/

/-- **durDivsF_exact.**  `D` times the duration in quarters is the integer `z` (what `divs_sufficient` gives for the
    reader's divisions) and the integer product `D·4·num` is below 2^53.  Then the reader's binary64 computation
    `int(D * 4 * num / (den * tup))` gives exactly `z`, and so does the exact model `durDivs`. -/
theorem durDivsF_exact (D : Nat) (f : Frac) (hden : 0 < f.den) (htup : 0 < f.tup) (z : Int)
    (hz : (D : Rat) * (4 * f.val) = z) (hsmall : D * 4 * f.num < 2 ^ 53) :
    durDivsF D f = z ∧ durDivs D f = z := by
  have hdt : 0 < f.den * f.tup := Nat.mul_pos hden htup
  have hdtR : ((f.den * f.tup : Nat) : Rat) ≠ 0 := by exact_mod_cast (Nat.pos_iff_ne_zero.mp hdt)
  have hq : ((D * 4 * f.num : Nat) : Rat) / ((f.den * f.tup : Nat) : Rat) = (z : Rat) := by
    rw [← hz]; unfold Frac.val; push_cast; field_simp
  have hznn : 0 ≤ z := by
    have : (0 : Rat) ≤ (z : Rat) := by
      rw [← hq]; exact div_nonneg (by positivity) (by positivity)
    exact_mod_cast this
  obtain ⟨k, rfl⟩ := Int.eq_ofNat_of_zero_le hznn
  have hmul : D * 4 * f.num = k * (f.den * f.tup) := by
    have h1 : ((D * 4 * f.num : Nat) : Rat) = (k : Rat) * ((f.den * f.tup : Nat) : Rat) := by
      have := hq
      rw [div_eq_iff hdtR] at this
      exact_mod_cast this
    exact_mod_cast h1
  have hk : k < 2 ^ 53 := by
    have : k ≤ k * (f.den * f.tup) := Nat.le_mul_of_pos_right k hdt
    omega
  constructor
  · unfold durDivsF
    rw [hq]
    have : ((k : Int) : Rat) = (k : Rat) := by push_cast; rfl
    rw [this, C08F.fl_nat k hk]
    exact_mod_cast C08P.truncRat_int (k : Int) (by positivity)
  · unfold durDivs
    have : (D : Rat) * 4 * f.val = ((k : Int) : Rat) := by rw [← hz]; ring
    rw [this]
    exact C08P.truncRat_int (k : Int) (by positivity)

/-- **loaded_durations_exact.**  For EVERY list of snotes (positive denominators and tuple divisors) and the divisions
    the reader derives from them: the binary64 duration of every note is the exact one — no duration loses a division
    to floating point, as long as `divisions·4·numerator` stays below 2^53. -/
theorem loaded_durations_exact (ts : List TSLine) (maxTime : Rat) (ns : List SNote)
    (hpos : ∀ n ∈ ns, 0 < n.offset.den ∧ 0 < n.offset.tup ∧ 0 < n.dur.den ∧ 0 < n.dur.tup)
    (n : SNote) (hn : n ∈ ns) (hsmall : importDivs ts maxTime ns * 4 * n.dur.num < 2 ^ 53) :
    durDivsF (importDivs ts maxTime ns) n.dur = durDivs (importDivs ts maxTime ns) n.dur := by
  obtain ⟨_, ⟨z, hz⟩, _⟩ := divs_sufficient ts maxTime ns hpos n hn
  obtain ⟨_, _, h3, h4⟩ := hpos n hn
  obtain ⟨h1, h2⟩ := durDivsF_exact _ n.dur h3 h4 z hz hsmall
  rw [h1, h2]

/-- **two_roundings_lose_a_division** (the seeded change C08-j).  7/20 of a whole note (a quarter tied to two
    quintuplet sixteenths) read with 180 divisions per quarter is 252 divisions; multiplying `180·4` by the already
    rounded quotient `7/20` falls below 252 and truncation gives 251.  Likewise 17/7 at 21, 41/20 at 60, 49/24 at 120. -/
theorem two_roundings_lose_a_division :
    durDivsF 180 ⟨7, 20, 1⟩ = 252 ∧ durDivsViaQuotient 180 ⟨7, 20, 1⟩ = 251
    ∧ durDivsF 21 ⟨17, 7, 1⟩ = 204 ∧ durDivsViaQuotient 21 ⟨17, 7, 1⟩ = 203
    ∧ durDivsF 60 ⟨41, 20, 1⟩ = 492 ∧ durDivsViaQuotient 60 ⟨41, 20, 1⟩ = 491
    ∧ durDivsF 120 ⟨49, 24, 1⟩ = 980 ∧ durDivsViaQuotient 120 ⟨49, 24, 1⟩ = 979 := by
  decide +kernel

/-- non-vacuity of `durDivsF_exact`: a tuple divisor (a triplet eighth written 1/8/3... here 1/4/3 of a whole note)
    with 12 divisions per quarter: 4 divisions -/
example : durDivsF 12 ⟨1, 4, 3⟩ = 4 ∧ durDivs 12 ⟨1, 4, 3⟩ = 4 :=
  durDivsF_exact 12 ⟨1, 4, 3⟩ (by decide) (by decide) 4 (by norm_num [Frac.val]) (by norm_num)

/-- **components_sum.**  A duration written as a sum of components (`1/4+1/8`, components possibly with tuple
    divisors) becomes one tied note per component; when every component lies on the reader's division grid (which the
    reader's divisions guarantee: the denominator of the sum is the lcm of the components' denominators) the tied
    duration is exactly `D·4·(sum of the components)` divisions — nothing is lost to the truncation of each part. -/
theorem components_sum (D : Nat) (cs : List Frac)
    (h : ∀ c ∈ cs, ∃ z : Int, (D : Rat) * 4 * c.val = z) :
    (((cs.map (durDivs D)).sum : Int) : Rat) = (D : Rat) * 4 * (cs.map Frac.val).sum := by
  induction cs with
  | nil => simp
  | cons c rest ih =>
    obtain ⟨z, hz⟩ := h c (by simp)
    have hval : (0 : Rat) ≤ c.val := by unfold Frac.val; positivity
    have hznn : 0 ≤ z := by
      have : (0 : Rat) ≤ (z : Rat) := by rw [← hz]; positivity
      exact_mod_cast this
    have hd : durDivs D c = z := by
      unfold durDivs; rw [hz]; exact C08P.truncRat_int z hznn
    simp only [List.map_cons, List.sum_cons]
    push_cast
    rw [ih (fun c' hc' => h c' (by simp [hc'])), hd, ← hz]
    ring

/-- non-vacuity: a dotted quarter written 1/4+1/8 and a half note written 1/4/3+1/3 (a triplet quarter and two more),
    24 divisions per quarter -/
example : (([⟨1, 4, 1⟩, ⟨1, 8, 1⟩] : List Frac).map (durDivs 24)).sum = 36
    ∧ (([⟨1, 4, 3⟩, ⟨1, 3, 1⟩, ⟨1, 12, 1⟩] : List Frac).map (durDivs 24)).sum = 48 := by decide +kernel

/-! ### measure numbers -/

/-- **measure_numbers_by_position.**  The measure number on the line of a note is the number of the FIRST written
    measure (0 with a pickup, else 1) plus the position of the note's measure among the measures — the score's own
    `Measure.number` is not part of the model because the exporter does not look at it. -/
theorem measure_numbers_by_position (sc : Score) (mi : Nat) (o d : Int) (st : STime)
    (h : sc.encode mi o d = some st) : st.measure = sc.firstMeasureNumber + mi := by
  unfold Score.encode at h
  cases hm : sc.ms[mi]? with
  | none => simp [hm] at h
  | some m =>
    cases hs : tsAt sc.ts o with
    | none => simp [hm, hs] at h
    | some s =>
      simp [hm, hs] at h
      rw [← h]

/-- **measure_numbers_increasing.**  Notes of different measures are written with different measure numbers, in the
    order of the measures: a later measure never shares the number of an earlier one. -/
theorem measure_numbers_increasing (sc : Score) (mi mj : Nat) (hlt : mi < mj) (o d o' d' : Int) (a b : STime)
    (ha : sc.encode mi o d = some a) (hb : sc.encode mj o' d' = some b) : a.measure < b.measure := by
  rw [measure_numbers_by_position sc mi o d a ha, measure_numbers_by_position sc mj o' d' b hb]
  omega

/-- **bars_are_the_distinct_numbers.**  Whenever the reconstruction succeeds — for every list of snotes — the loaded
    score gets one bar per DISTINCT measure number that occurs on an snote line, in increasing order of the numbers:
    two snotes with the same measure number are in the same bar whatever measures of the score they came from. -/
theorem bars_are_the_distinct_numbers (raw : List SNote) (ts : List TSLine) (ks : List (Rat × Int)) (r : Recon)
    (h : reconstruct raw ts ks = some r) :
    (r.barlines.map (·.1)).Pairwise (· < ·)
    ∧ ∀ x, x ∈ r.barlines.map (·.1) ↔ ∃ n ∈ raw, n.measure = x := by
  obtain ⟨_, _, _, hb⟩ := reconstruct_keeps_every_note raw ts ks r h
  obtain ⟨hpw, hmem⟩ := C08R.barNames_spec (sortSNotes ((List.range raw.length).zip raw))
  rw [hb]
  refine ⟨hpw, ?_⟩
  intro x
  rw [hmem]
  have hsnd : ((List.range raw.length).zip raw).map Prod.snd = raw := List.map_snd_zip (by simp)
  constructor
  · rintro ⟨p, hp, hpx⟩
    have hp' : p ∈ (List.range raw.length).zip raw := C08S.mem_sortBy.mp hp
    exact ⟨p.2, by rw [← hsnd]; exact List.mem_map_of_mem hp', hpx⟩
  · rintro ⟨n, hn, hnx⟩
    rw [← hsnd, List.mem_map] at hn
    obtain ⟨p, hp, rfl⟩ := hn
    exact ⟨p, C08S.mem_sortBy.mpr hp, hnx⟩

/-- the emptyBarsB score of C08Format (4/4; bars [0,4) [4,7) [7,8) [8,12): the second bar split 3 + 1 by a double
    bar) with a stored quarter note at the start of every measure -/
def splitBar : Score := { divs := 1, ts := [⟨0, 4, 4⟩], ms := [⟨0, 4⟩, ⟨4, 7⟩, ⟨7, 8⟩, ⟨8, 12⟩] }

/-- the snotes of `splitBar` with the measure numbers replaced by `nums` (what a writer that copies `Measure.number`
    produces) -/
def renumbered (nums : List Int) : Option (List SNote) :=
  (splitBar.storedLines [(0, 1), (4, 1), (7, 1), (8, 1)]).map fun sts =>
    (sts.zip nums).map fun (st, k) => { STime.toSNote st with measure := k }

/-- **repeated_numbers_merge_bars** (the seeded change C08-i).  Written by position (1 2 3 4) the four measures of
    `splitBar` are read back as four bars starting 0, 4, 7, 8 quarters after the origin.  Written with the numbers an
    engraved score carries (1 2 2 3: both halves of the split bar under one number) only three bars come back — the
    bar line at 7 is gone. -/
theorem repeated_numbers_merge_bars :
    ((splitBar.roundTrip [(0, 1), (4, 1), (7, 1), (8, 1)] []).map fun r => r.barlines)
        = some [(1, 0), (2, 16), (3, 28), (4, 32)]
    ∧ (((renumbered [1, 2, 2, 3]).bind fun ns => reconstruct ns splitBar.readTS []).map fun r => r.barlines)
        = some [(1, 0), (2, 16), (3, 32)] := by
  decide +kernel

end C08
