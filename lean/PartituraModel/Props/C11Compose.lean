/-
C11 (round 6) — the stages composed: `add_measures`, then `tie_notes`, `find_tuplets`, `sanitize_part`.

`tie_notes_within_measures` (Props/C11Sound.lean) assumes that the measures come in time order and concludes that no
measure STARTS inside a note.  Here the hypothesis is discharged from `add_measures` (its output tiles the timeline,
`C11Meas.TN`), and the conclusion becomes the property's own words: every note lies within ONE measure.

* `add_measures_sorted`          the measures after `add_measures` are in time order
* `measures_then_tie_within`     after `add_measures` (any integral bar-end map) and `tie_notes` every note of positive
                                 length inside the timeline lies within one measure
* `add_measures_then_tie_within` the same for `add_measures` itself (C02's beat maps, `BarsIntegral`)
* `add_measures_then_fill_rests` `fill_rests_decomposes` + `rests_fill_gaps_all` on the measures `add_measures` returned:
                                 "pairwise disjoint, non-empty" is proved from `add_measures`, not assumed
* `chains_end_from_local`        `Walkable` (the chains END, a condition on whole chains) follows from conditions on single
                                 notes and links: distinct keys, back links, adjacent ties, tied notes of positive length
* `pipeline_normalises_local`    `pipeline_normalises` with those local conditions only
* `pipeline_normalises`          `add_measures`, `tie_notes`, `find_tuplets`, `sanitize_part`: the note array is the one
                                 entered, every note lies within one measure, every tie link joins adjacent notes
-/
import PartituraModel.Props.C11Sound
import PartituraModel.Props.C11Bar
import PartituraModel.Props.C11Rests
import PartituraModel.Proofs.C11Compose
import PartituraModel.Proofs.C11Forward

namespace C11
open Model Model.Dur Model.Meas Model.San Model.Tup Model.Rests Gen C11Meas C11Bar C11Rows C11Sound C11Contig C11San C11Within C11Compose C11Forward

/-- **add_measures_sorted**: the measures after `add_measures` are in time order — the hypothesis of
    `tie_notes_within_measures`, proved from the function that produces them -/
theorem add_measures_sorted (f : Rat → Nat → Option Rat) (hf : C11Meas.Integral f) (p : PartM) (fuel : Nat)
    (l : List (Nat × Nat × Nat)) (ms' : List Measure) (hok : C11Meas.TsOK p) (hl : stretches p = some l)
    (hex : C11Meas.ExistingOK p l) (h : addMeasuresWith f p fuel = .ok ms') :
    (ms'.map (·.start)).Pairwise (· ≤ ·) :=
  tn_starts_sorted _ _ _ _ _ (C11Meas.add_measures_sound' f hf p fuel l ms' hok hl hex h).1

/-- **measures_then_tie_within**: `add_measures` (over any integral bar-end map), then `tie_notes` on the part with the
    measures it returned: every note of positive length inside the timeline lies within ONE measure — "afterwards every
    pitched note lies within one measure", with no condition on the measures left -/
theorem measures_then_tie_within (f : Rat → Nat → Option Rat) (hf : C11Meas.Integral f) (p : PartM) (fuel : Nat)
    (l : List (Nat × Nat × Nat)) (ms' : List Measure) (hok : C11Meas.TsOK p) (hl : stretches p = some l)
    (hex : C11Meas.ExistingOK p l) (h : addMeasuresWith f p fuel = .ok ms')
    (ns : List Note) (hkeys : KeysOK ns) (hlinks : LinksOK ns) :
    ∀ n ∈ tieNotes { p with measures := ms' } ns, p.first ≤ n.start → n.start < n.stop → n.stop ≤ p.last →
      ∃ m ∈ ms', m.start ≤ n.start ∧ n.stop ≤ m.stop := by
  intro n hn h1 h2 h3
  have htn := (C11Meas.add_measures_sound' f hf p fuel l ms' hok hl hex h).1
  have hs := add_measures_sorted f hf p fuel l ms' hok hl hex h
  have hno := tie_notes_within_measures { p with measures := ms' } ns hkeys hlinks hs n hn
  exact tn_within ms' _ _ _ _ htn n.start n.stop h1 h2 h3 hno

/-- **add_measures_then_tie_within**: the same for `add_measures` itself, over C02's beat maps -/
theorem add_measures_then_tie_within (p : PartM) (fuel : Nat) (l : List (Nat × Nat × Nat)) (ms' : List Measure)
    (hok : TsOK p) (hl : stretches p = some l) (hex : ExistingOK p l) (hb : BarsIntegral p l)
    (h : addMeasures p fuel = .ok ms') (ns : List Note) (hkeys : KeysOK ns) (hlinks : LinksOK ns) :
    ∀ n ∈ tieNotes { p with measures := ms' } ns, p.first ≤ n.start → n.start < n.stop → n.stop ≤ p.last →
      ∃ m ∈ ms', m.start ≤ n.start ∧ n.stop ≤ m.stop := by
  rw [addMeasures_integ p fuel l hok hl hex hb] at h
  exact measures_then_tie_within _ (integ_integral _) p fuel l ms' hok hl hex h ns hkeys hlinks

/-- **pipeline_normalises**: `add_measures`, then `tie_notes`, `find_tuplets` and `sanitize_part` (any tolerance) on a
    well-formed note list (distinct keys, ties with back links that join adjacent notes and end): the note array is the
    one entered, every note of positive length inside the timeline lies within one measure, and every tie link still
    joins a note to one that starts where it ends -/
theorem pipeline_normalises (p : PartM) (fuel : Nat) (l : List (Nat × Nat × Nat)) (ms' : List Measure)
    (hok : TsOK p) (hl : stretches p = some l) (hex : ExistingOK p l) (hb : BarsIntegral p l)
    (h : addMeasures p fuel = .ok ms') (ns : List Note) (tol : Nat) (hkeys : KeysOK ns) (hlinks : LinksOK ns)
    (hw : Walkable ns) (hc : C11Walk.ContigAll ns) :
    soundingMidi (sanitizeTies (findTuplets p.qd (tieNotes { p with measures := ms' } ns)).notes tol) = soundingMidi ns ∧
    (∀ n ∈ sanitizeTies (findTuplets p.qd (tieNotes { p with measures := ms' } ns)).notes tol,
      p.first ≤ n.start → n.start < n.stop → n.stop ≤ p.last → ∃ m ∈ ms', m.start ≤ n.start ∧ n.stop ≤ m.stop) ∧
    C11Walk.ContigAll (sanitizeTies (findTuplets p.qd (tieNotes { p with measures := ms' } ns)).notes tol) := by
  have hn := normalise_note_array_same { p with measures := ms' } ns tol hkeys hlinks hw hc
  refine ⟨hn.1, ?_, ?_⟩
  · rw [(tuplets_dead p.qd (tieNotes { p with measures := ms' } ns)).2.1,
      tie_then_sanitize { p with measures := ms' } ns tol hkeys hlinks hc]
    exact add_measures_then_tie_within p fuel l ms' hok hl hex hb h ns hkeys hlinks
  · rw [(tuplets_dead p.qd (tieNotes { p with measures := ms' } ns)).2.1,
      tie_then_sanitize { p with measures := ms' } ns tol hkeys hlinks hc]
    exact (tie_notes_links_kept { p with measures := ms' } ns hkeys hlinks).1 hc

/-! ### `add_measures`, then `fill_rests` -/

/-- **add_measures_then_fill_rests**: `fill_rests` (measure-wise) over the measures `add_measures` returned — the
    conditions "pairwise disjoint and non-empty" of `fill_rests_decomposes` / `rests_fill_gaps_all` are proved from
    `add_measures`.  For every part within the Reading's preconditions, integer times and divisions up to 2⁴⁰: the part
    afterwards holds the old objects and, for every measure, exactly the rests `_fill_rests_within_measure` computes from
    the ORIGINAL objects; and in every measure and every voice that has something starting in it the added rests cover a
    time of the measure iff no object of the voice that starts in the measure covers it -/
theorem add_measures_then_fill_rests (p : PartM) (fuel : Nat) (l : List (Nat × Nat × Nat)) (ms' : List Measure)
    (hok : TsOK p) (hl : stretches p = some l) (hex : ExistingOK p l) (hb : BarsIntegral p l)
    (h : addMeasures p fuel = .ok ms')
    (hbig : ∀ e ∈ p.qd, e.2 ≤ 1099511627776) (nstaves : Nat) (ns out : List GNote)
    (hwin : C11RestsX.WindowsOK (ms'.map C11Meas.ext) ns) (hold : ∀ n ∈ ns, n.added = none)
    (hfill : fillRests p.qd nstaves (C11RestsX.castM (ms'.map C11Meas.ext)) ns = some out) :
    (∀ x, x ∈ out ↔ x ∈ ns ∨ ∃ m ∈ ms', ∃ rests,
        measureRests p.qd nstaves ns (m.start : Rat) (m.stop : Rat) = some rests ∧ x ∈ rests) ∧
    ∀ m ∈ ms', ∀ v : Int, (∃ n ∈ window (m.start : Rat) (m.stop : Rat) ns, n.voice = v) →
      ∀ t : Rat, (m.start : Rat) ≤ t → t < (m.stop : Rat) →
        ((∃ r ∈ out, r.added.isSome = true ∧ r.voice = v ∧ r.start ≤ t ∧ t < r.stop) ↔
          ∀ n ∈ window (m.start : Rat) (m.stop : Rat) ns, n.voice = v → ¬ (n.start ≤ t ∧ t < n.stop)) := by
  rw [addMeasures_integ p fuel l hok hl hex hb] at h
  have htn := (C11Meas.add_measures_sound' _ (integ_integral _) p fuel l ms' hok hl hex h).1
  obtain ⟨hsep, hne⟩ := tn_sep ms' _ _ _ _ htn
  constructor
  · intro x
    rw [(fill_rests_decomposes p.qd hbig nstaves ns out _ hsep hne hwin hfill).2 x]
    constructor
    · rintro (hx | ⟨m, hm, rests, hr, hxr⟩)
      · exact Or.inl hx
      · obtain ⟨m0, hm0, rfl⟩ := List.mem_map.mp hm
        exact Or.inr ⟨m0, hm0, rests, hr, hxr⟩
    · rintro (hx | ⟨m, hm, rests, hr, hxr⟩)
      · exact Or.inl hx
      · exact Or.inr ⟨C11Meas.ext m, List.mem_map.mpr ⟨m, hm, rfl⟩, rests, hr, hxr⟩
  · intro m hm v hv t hS hE
    exact rests_fill_gaps_all p.qd hbig nstaves ns out _ hsep hne hwin hold hfill (C11Meas.ext m)
      (List.mem_map.mpr ⟨m, hm, rfl⟩) v hv t hS hE

/-- **chains_end_from_local**: `duration_tied` terminates on every chain (`Walkable`, a hypothesis of the note-array
    theorems) whenever the keys are distinct and every tie points at a note of the list that starts later; in particular
    when every tie joins a note of positive length to one that starts where it ends -/
theorem chains_end_from_local (ns : List Note) (hkeys : KeysOK ns) (hlinks : LinksOK ns) (hc : C11Walk.ContigAll ns)
    (hpos : ∀ n ∈ ns, n.tieNext.isSome = true → n.start < n.stop) : Walkable ns :=
  walkable_of_forward ns hkeys (forward_of_contig ns hlinks hc hpos)

theorem chains_end_forward (ns : List Note) (hkeys : KeysOK ns) (hf : Forward ns) : Walkable ns :=
  walkable_of_forward ns hkeys hf

/-- **pipeline_normalises_local**: `pipeline_normalises` under conditions on single notes and single links only -/
theorem pipeline_normalises_local (p : PartM) (fuel : Nat) (l : List (Nat × Nat × Nat)) (ms' : List Measure)
    (hok : TsOK p) (hl : stretches p = some l) (hex : ExistingOK p l) (hb : BarsIntegral p l)
    (h : addMeasures p fuel = .ok ms') (ns : List Note) (tol : Nat) (hkeys : KeysOK ns) (hlinks : LinksOK ns)
    (hc : C11Walk.ContigAll ns) (hpos : ∀ n ∈ ns, n.tieNext.isSome = true → n.start < n.stop) :
    soundingMidi (sanitizeTies (findTuplets p.qd (tieNotes { p with measures := ms' } ns)).notes tol) = soundingMidi ns ∧
    (∀ n ∈ sanitizeTies (findTuplets p.qd (tieNotes { p with measures := ms' } ns)).notes tol,
      p.first ≤ n.start → n.start < n.stop → n.stop ≤ p.last → ∃ m ∈ ms', m.start ≤ n.start ∧ n.stop ≤ m.stop) ∧
    C11Walk.ContigAll (sanitizeTies (findTuplets p.qd (tieNotes { p with measures := ms' } ns)).notes tol) :=
  pipeline_normalises p fuel l ms' hok hl hex hb h ns tol hkeys hlinks (chains_end_from_local ns hkeys hlinks hc hpos) hc

-- non-vacuity: the local conditions on the witness [0, 6) tied to [6, 8)
example : KeysOK [exA, exB] ∧ (∀ n ∈ [exA, exB], n.tieNext.isSome = true → n.start < n.stop) :=
  ⟨by unfold KeysOK; decide, by decide⟩
example : Forward [exA, exB] := by
  intro n hn t ht
  simp only [List.mem_cons, List.not_mem_nil, or_false] at hn
  rcases hn with rfl | rfl
  · have : t = 1 := by simp [exA] at ht; omega
    subst this
    exact ⟨exB, rfl, by decide⟩
  · simp [exB] at ht
-- a cyclic chain (0 → 1 → 0) is not walkable: the hypothesis is not idle
example : ¬ Forward [{ exA with tiePrev := some 1 }, { exB with tieNext := some 0, start := 0 }] := by
  intro h
  obtain ⟨m, hm, hlt⟩ := h _ List.mem_cons_self 1 rfl
  have : m = { exB with tieNext := some 0, start := 0 } := by
    have : C11Walk.lk [{ exA with tiePrev := some 1 }, { exB with tieNext := some 0, start := 0 }] 1 =
        some { exB with tieNext := some 0, start := 0 } := by decide +kernel
    rw [this] at hm; exact (Option.some.inj hm).symm
  subst this
  simp [exA] at hlt

-- non-vacuity: the witness of C11-3 — `add_measures` on the part without measures gives the two bars [0, 4), [4, 8),
-- and the note [0, 6) tied to [6, 8) ends as [0, 4) [4, 6) [6, 8), each within one bar
example : addMeasuresWith exF { exTiePart with measures := [] } 10 = .ok exTiePart.measures := by decide +kernel
example : (tieNotes exTiePart [exA, exB]).map (fun n => (n.start, n.stop)) = [(0, 4), (4, 6), (6, 8)] := by
  decide +kernel

end C11
