/-
C04 — the round trip does not depend on how the file travels (path or in-memory `mido.MidiFile` object) nor on how
often, in which order and by which reader the same object is read.

`Model.MidiObject` threads a `MidiObj` through a history of uses (`ReadOp`: score importer in any part/voice mode,
performance reader, save-and-parse, direct iteration).  The theorems:
* `history_pure`, `history_object_unchanged`, `history_reads_independent`: a reader that does not write to the object
  (the code: the running sum of delta times is a local variable) returns, at every step of every history, what a
  single read of the fresh file returns, and leaves the object as it was;
* `export_file_rows`, `score_roundtrip_any_import_mode`, `import_total_any_mode`: the notes of the written file are
  the score's sounding notes whatever mode the importer is then called with (the existing `score_roundtrip` is the
  case import mode = export mode);
* `history_roundtrip`, `history_perf`, `history_messages`, `history_saved`: composed — every read in every history
  on the exported object returns the score's notes / the routed notes / the written ticks / the written file.
The `example`s at the end show that the reader which writes the absolute time back into the messages
(`readOpWriteBack`) violates each of them on the second read: the theorems separate the two.
Tied to the code by the `hist` cases of harness/props/c04.py (real `save_score_midi(score, None)`, then the real
readers on that one object, compared step by step with `runHistory` and judged by the Fraction oracle).
-/
import PartituraModel.Props.C04Export
import PartituraModel.Props.C04Cells
import PartituraModel.Model.MidiObject

namespace C04
open Model Model.Ticks Model.MidiPair Model.MidiModes Model.ScoreMidi Model.MidiObject

-- ====================================================================== histories of reads

/-- Any step function that hands the object back unchanged: after every history the object is what it was, and
    the i-th result is the result of that use on the ORIGINAL object. -/
theorem history_pure (step : MidiObj → ReadOp → MidiObj × ReadOut) (hstep : ∀ f op, (step f op).1 = f)
    (f : MidiObj) (ops : List ReadOp) :
    runWith step f ops = (f, ops.map fun op => (step f op).2) := by
  induction ops with
  | nil => rfl
  | cons op ops ih =>
    simp only [runWith, hstep, ih, List.map_cons]

/-- the code's readers hand the object back unchanged -/
theorem readOp_pure (f : MidiObj) (op : ReadOp) : (readOp f op).1 = f := rfl

/-- **The object is not changed by being read**, whatever the history of reads. -/
theorem history_object_unchanged (f : MidiObj) (ops : List ReadOp) : (runHistory f ops).1 = f := by
  unfold runHistory
  rw [history_pure readOp readOp_pure]

/-- **Every read sees the same file**: in any history, the i-th use returns what that use returns on the fresh
    object — i.e. what the path-based call (which parses a fresh `MidiFile`) returns. -/
theorem history_reads_independent (f : MidiObj) (ops : List ReadOp) (i : Nat) (op : ReadOp)
    (hop : ops[i]? = some op) :
    (runHistory f ops).2[i]? = some (outOf f op) := by
  unfold runHistory
  rw [history_pure readOp readOp_pure]
  simp only [List.getElem?_map, hop, Option.map_some]
  rfl

/-- in particular two reads of the same kind at different places of a history agree -/
theorem history_reads_agree (f : MidiObj) (ops : List ReadOp) (i j : Nat) (op : ReadOp)
    (hi : ops[i]? = some op) (hj : ops[j]? = some op) :
    (runHistory f ops).2[i]? = (runHistory f ops).2[j]? := by
  rw [history_reads_independent f ops i op hi, history_reads_independent f ops j op hj]

-- ====================================================================== the written file, any import mode

/-- **The notes in the written file** (independent of any importer): pairing the note ons and offs of all written
    tracks gives exactly the score's sounding notes at their written ticks. -/
theorem export_file_rows (mode : Nat) (a : Anacrusis) (minPpq vel : Nat) (parts : List PartIn) (ex : Exported)
    (h : saveScoreMidi mode a minPpq vel parts = some ex)
    (hvel : 0 < vel) (hw : ∀ x ∈ parts, C04T.WellFormed x.base)
    (hno : ∀ o tcs, origin a (parts.map (·.base)) = some o → mapToTrackChannel mode (noteKeys parts) = some tcs →
      ∀ tr, C04P.NoOverlap (routedTo ex.ppq o vel ((noteKeys parts).zip tcs) parts tr)) :
    ∃ o, origin a (parts.map (·.base)) = some o ∧
      (ex.tracks.flatMap fun tr => (pairTrack (deltasFrom 0 tr)).map C04I.noteRow).Perm (writtenRows ex.ppq o parts) := by
  obtain ⟨o, tcs, ho, htc, hppq, hkeys, _, hpair⟩ := export_pairing_sound mode a minPpq vel parts ex h hvel hw
  refine ⟨o, ho, ?_⟩
  have hrec := C04E.exportRecs_rows ex.ppq o parts
  have hall : ∀ r ∈ exportRecs (C04E.tkOf ex.ppq o) parts, ∃ tc, lookup r.key ((noteKeys parts).zip tcs) = some tc := by
    intro r hr
    obtain ⟨tc, htc', _⟩ := hkeys r.key (C04E.mem_exportRecs_key _ parts r hr)
    exact ⟨tc, htc'⟩
  have hbound : ∀ e ∈ (exportRecs (C04E.tkOf ex.ppq o) parts).filterMap (C04E.routeAny ((noteKeys parts).zip tcs) vel),
      e.1 < ex.tracks.length := by
    intro e he
    simp only [List.mem_filterMap, C04E.routeAny, Option.map_eq_some_iff] at he
    obtain ⟨r, hr, tc, htc', rfl⟩ := he
    obtain ⟨tc', htc'', hlt⟩ := hkeys r.key (C04E.mem_exportRecs_key _ parts r hr)
    rw [htc'] at htc''
    cases htc''
    exact hlt
  have hsplit := C04E.routes_all ((noteKeys parts).zip tcs) vel ex.tracks.length _ hbound
  rw [← hrec, ← C04E.routeAny_all ((noteKeys parts).zip tcs) vel _ hall]
  have : (ex.tracks.flatMap fun tr => (pairTrack (deltasFrom 0 tr)).map C04I.noteRow).Perm
      (((List.range ex.tracks.length).flatMap fun tr =>
        (exportRecs (C04E.tkOf ex.ppq o) parts).filterMap (C04E.route ((noteKeys parts).zip tcs) vel tr)).map C04I.noteRow) := by
    rw [List.map_flatMap]
    have hr : ex.tracks = (List.range ex.tracks.length).map (fun i => ex.tracks[i]?.getD []) := by
      apply List.ext_getElem
      · simp
      · intro i h1 h2
        simp [List.getElem?_eq_getElem h1]
    conv_lhs => rw [hr, List.flatMap_map]
    apply List.Perm.flatMap_left
    intro tr htr
    have htr' : tr < ex.tracks.length := List.mem_range.mp htr
    simp only [List.getElem?_eq_getElem htr', Option.getD_some]
    have := hpair tr htr' (hno o tcs ho htc tr)
    rw [C04E.routedTo_eq] at this
    exact this.map _
  refine this.trans ?_
  refine (hsplit.map C04I.noteRow).trans (List.Perm.of_eq ?_)
  rw [List.map_map]
  rfl

/-- **Round trip, any import mode** (`shift`, `time_sig_change`).  Export with mode `mode`, import the written file
    with ANY mode `imode` for which the importer returns: the imported parts together hold exactly the score's
    sounding notes in musical time, and every created part has `ppq` divisions per quarter.  (`score_roundtrip` is
    `imode = mode`; which (part, voice) a note lands in is `roundtrip_cells_any_import_mode`.) -/
theorem score_roundtrip_any_import_mode (mode imode : Nat) (a : Anacrusis) (minPpq vel : Nat) (parts : List PartIn)
    (ex : Exported) (imp : Imported)
    (h : saveScoreMidi mode a minPpq vel parts = some ex)
    (hi : loadScoreMidi imode ex.ppq (ex.tracks.map (deltasFrom 0)) = some imp)
    (ha : a ≠ .padBar) (hvel : 0 < vel) (hw : ∀ x ∈ parts, C04T.WellFormed x.base)
    (hno : ∀ o tcs, origin a (parts.map (·.base)) = some o → mapToTrackChannel mode (noteKeys parts) = some tcs →
      ∀ tr, C04P.NoOverlap (routedTo ex.ppq o vel ((noteKeys parts).zip tcs) parts tr)) :
    ∃ o, origin a (parts.map (·.base)) = some o ∧ (importedRows o imp).Perm (scoreRows parts) ∧
      ∀ e ∈ imp.parts, e.2.divs = ex.ppq := by
  obtain ⟨o, ho, hfile⟩ := export_file_rows mode a minPpq vel parts ex h hvel hw hno
  obtain ⟨hnotes, hdivs⟩ := C04I.import_notes imode ex.ppq _ imp hi
  rw [List.flatMap_map] at hnotes
  obtain ⟨o', ho', hP, hex⟩ := export_ticks_exact mode a minPpq vel parts ex h ha hw
  rw [ho] at ho'
  cases ho'
  refine ⟨o, ho, ?_, hdivs⟩
  rw [C04I.importedRows_eq o imp ex.ppq hdivs, ← C04I.writtenRows_musical ex.ppq o parts hP hex]
  exact (hnotes.trans hfile).map _

/-- the same for `pad_bar`.  PARTIAL as `score_roundtrip_pad_partial`: needs the bar of the first time signature to
    be a whole number of ticks (`hbar`). -/
theorem score_roundtrip_any_import_mode_pad_partial (mode imode : Nat) (minPpq vel : Nat) (parts : List PartIn)
    (ex : Exported) (imp : Imported)
    (h : saveScoreMidi mode .padBar minPpq vel parts = some ex)
    (hi : loadScoreMidi imode ex.ppq (ex.tracks.map (deltasFrom 0)) = some imp)
    (hvel : 0 < vel) (hw : ∀ x ∈ parts, C04T.WellFormed x.base)
    (hbar : ∀ x ∈ parts, ∀ beats bt, tsAt x.base 0 = some (beats, bt) → bt ∣ 4 * beats * ex.ppq)
    (hno : ∀ o tcs, origin .padBar (parts.map (·.base)) = some o → mapToTrackChannel mode (noteKeys parts) = some tcs →
      ∀ tr, C04P.NoOverlap (routedTo ex.ppq o vel ((noteKeys parts).zip tcs) parts tr)) :
    ∃ o, origin .padBar (parts.map (·.base)) = some o ∧ (importedRows o imp).Perm (scoreRows parts) ∧
      ∀ e ∈ imp.parts, e.2.divs = ex.ppq := by
  obtain ⟨o, ho, hfile⟩ := export_file_rows mode .padBar minPpq vel parts ex h hvel hw hno
  obtain ⟨hnotes, hdivs⟩ := C04I.import_notes imode ex.ppq _ imp hi
  rw [List.flatMap_map] at hnotes
  obtain ⟨o', ho', hP, hex⟩ := export_ticks_exact_pad_partial mode minPpq vel parts ex h hw hbar
  rw [ho] at ho'
  cases ho'
  refine ⟨o, ho, ?_, hdivs⟩
  rw [C04I.importedRows_eq o imp ex.ppq hdivs, ← C04I.writtenRows_musical ex.ppq o parts hP hex]
  exact (hnotes.trans hfile).map _

/-- **The import of an export returns in every import mode** 0..5 (not only the export's own mode,
    `roundtrip_total`), when the score has a sounding note. -/
theorem import_total_any_mode (mode imode : Nat) (him : imode ≤ 5) (a : Anacrusis) (minPpq vel : Nat)
    (parts : List PartIn) (ex : Exported)
    (h : saveScoreMidi mode a minPpq vel parts = some ex)
    (hvel : 0 < vel) (hw : ∀ x ∈ parts, C04T.WellFormed x.base)
    (hnote : ∃ x ∈ parts, x.notes ≠ [])
    (hno : ∀ o tcs, origin a (parts.map (·.base)) = some o → mapToTrackChannel mode (noteKeys parts) = some tcs →
      ∀ tr, C04P.NoOverlap (routedTo ex.ppq o vel ((noteKeys parts).zip tcs) parts tr)) :
    ∃ imp, loadScoreMidi imode ex.ppq (ex.tracks.map (deltasFrom 0)) = some imp := by
  obtain ⟨o, ho, hfile⟩ := export_file_rows mode a minPpq vel parts ex h hvel hw hno
  obtain ⟨x, hx, hxn⟩ := hnote
  obtain ⟨n, hn⟩ := List.exists_mem_of_ne_nil _ hxn
  -- the written file holds a note: some track pairs to a non-empty list
  have hmem : (tick ex.ppq x.base o n.1, n.2.2.1, tick ex.ppq x.base o (n.1 + n.2.1) - tick ex.ppq x.base o n.1) ∈
      writtenRows ex.ppq o parts := by
    simp only [writtenRows, List.mem_flatMap, List.mem_map]
    exact ⟨x, hx, n, hn, rfl⟩
  rw [← hfile.mem_iff] at hmem
  obtain ⟨tr, htr, hrow⟩ := List.mem_flatMap.mp hmem
  obtain ⟨i, hi, rfl⟩ := List.mem_iff_getElem.mp htr
  apply C04C.import_total imode him
  refine ⟨i, deltasFrom 0 ex.tracks[i], by simp [List.getElem?_eq_getElem hi], ?_⟩
  intro hnil
  rw [hnil] at hrow
  simp at hrow

-- ====================================================================== histories on an exported object

/-- **Round trip through a shared object** (`shift`, `time_sig_change`).  Export once (mode `mode`) to an object and
    use it any number of times in any order (`ops`): every `load_score_midi` read in the history, whatever its
    import mode and whatever was done with the object before, returns exactly the score's sounding notes in musical
    time — and the object is still the exported file at the end. -/
theorem history_roundtrip (mode : Nat) (a : Anacrusis) (minPpq vel : Nat) (parts : List PartIn) (ex : Exported)
    (h : saveScoreMidi mode a minPpq vel parts = some ex)
    (ha : a ≠ .padBar) (hvel : 0 < vel) (hw : ∀ x ∈ parts, C04T.WellFormed x.base)
    (hno : ∀ o tcs, origin a (parts.map (·.base)) = some o → mapToTrackChannel mode (noteKeys parts) = some tcs →
      ∀ tr, C04P.NoOverlap (routedTo ex.ppq o vel ((noteKeys parts).zip tcs) parts tr))
    (ops : List ReadOp) :
    (runHistory (ofExport ex) ops).1 = ofExport ex ∧
    ∀ (i imode : Nat), ops[i]? = some (.imp imode) →
      ∃ r, (runHistory (ofExport ex) ops).2[i]? = some (.imported r) ∧
        r = loadScoreMidi imode ex.ppq (ex.tracks.map (deltasFrom 0)) ∧
        ∀ imp, r = some imp →
          ∃ o, origin a (parts.map (·.base)) = some o ∧ (importedRows o imp).Perm (scoreRows parts) ∧
            ∀ e ∈ imp.parts, e.2.divs = ex.ppq := by
  refine ⟨history_object_unchanged _ ops, ?_⟩
  intro i imode hop
  refine ⟨_, history_reads_independent _ ops i _ hop, rfl, ?_⟩
  intro imp himp
  exact score_roundtrip_any_import_mode mode imode a minPpq vel parts ex imp h himp ha hvel hw hno

/-- the same for `pad_bar`; PARTIAL as `score_roundtrip_pad_partial` (`hbar`) -/
theorem history_roundtrip_pad_partial (mode : Nat) (minPpq vel : Nat) (parts : List PartIn) (ex : Exported)
    (h : saveScoreMidi mode .padBar minPpq vel parts = some ex)
    (hvel : 0 < vel) (hw : ∀ x ∈ parts, C04T.WellFormed x.base)
    (hbar : ∀ x ∈ parts, ∀ beats bt, tsAt x.base 0 = some (beats, bt) → bt ∣ 4 * beats * ex.ppq)
    (hno : ∀ o tcs, origin .padBar (parts.map (·.base)) = some o → mapToTrackChannel mode (noteKeys parts) = some tcs →
      ∀ tr, C04P.NoOverlap (routedTo ex.ppq o vel ((noteKeys parts).zip tcs) parts tr))
    (ops : List ReadOp) :
    (runHistory (ofExport ex) ops).1 = ofExport ex ∧
    ∀ (i imode : Nat), ops[i]? = some (.imp imode) →
      ∃ r, (runHistory (ofExport ex) ops).2[i]? = some (.imported r) ∧
        r = loadScoreMidi imode ex.ppq (ex.tracks.map (deltasFrom 0)) ∧
        ∀ imp, r = some imp →
          ∃ o, origin .padBar (parts.map (·.base)) = some o ∧ (importedRows o imp).Perm (scoreRows parts) ∧
            ∀ e ∈ imp.parts, e.2.divs = ex.ppq := by
  refine ⟨history_object_unchanged _ ops, ?_⟩
  intro i imode hop
  refine ⟨_, history_reads_independent _ ops i _ hop, rfl, ?_⟩
  intro imp himp
  exact score_roundtrip_any_import_mode_pad_partial mode imode minPpq vel parts ex imp h himp hvel hw hbar hno

/-- every `load_score_midi` read of the history returns (import modes 0..5), when the score has a sounding note -/
theorem history_import_total (mode : Nat) (a : Anacrusis) (minPpq vel : Nat) (parts : List PartIn) (ex : Exported)
    (h : saveScoreMidi mode a minPpq vel parts = some ex)
    (hvel : 0 < vel) (hw : ∀ x ∈ parts, C04T.WellFormed x.base) (hnote : ∃ x ∈ parts, x.notes ≠ [])
    (hno : ∀ o tcs, origin a (parts.map (·.base)) = some o → mapToTrackChannel mode (noteKeys parts) = some tcs →
      ∀ tr, C04P.NoOverlap (routedTo ex.ppq o vel ((noteKeys parts).zip tcs) parts tr))
    (ops : List ReadOp) (i imode : Nat) (him : imode ≤ 5) (hop : ops[i]? = some (.imp imode)) :
    ∃ imp, (runHistory (ofExport ex) ops).2[i]? = some (.imported (some imp)) := by
  obtain ⟨imp, himp⟩ := import_total_any_mode mode imode him a minPpq vel parts ex h hvel hw hnote hno
  refine ⟨imp, ?_⟩
  rw [history_reads_independent _ ops i _ hop]
  simp only [outOf, ofExport, himp]

/-- **Every performance read of the history** (`load_performance_midi(mf)`, anywhere in the history) pairs, in every
    track whose routed notes do not overlap in equal channel and pitch, exactly the notes routed to the track. -/
theorem history_perf (mode : Nat) (a : Anacrusis) (minPpq vel : Nat) (parts : List PartIn) (ex : Exported)
    (h : saveScoreMidi mode a minPpq vel parts = some ex)
    (hvel : 0 < vel) (hw : ∀ x ∈ parts, C04T.WellFormed x.base)
    (ops : List ReadOp) (i : Nat) (hop : ops[i]? = some .perf) :
    ∃ o tcs r, origin a (parts.map (·.base)) = some o ∧ mapToTrackChannel mode (noteKeys parts) = some tcs ∧
      (runHistory (ofExport ex) ops).2[i]? = some (.performed r) ∧ r.length = ex.tracks.length ∧
      ∀ tr (_ : tr < ex.tracks.length),
        C04P.NoOverlap (routedTo ex.ppq o vel ((noteKeys parts).zip tcs) parts tr) →
        ∃ ns, r[tr]? = some ns ∧ ns.Perm (routedTo ex.ppq o vel ((noteKeys parts).zip tcs) parts tr) := by
  obtain ⟨o, tcs, ho, htc, _, _, _, hpair⟩ := export_pairing_sound mode a minPpq vel parts ex h hvel hw
  refine ⟨o, tcs, _, ho, htc, history_reads_independent _ ops i _ hop, by simp [ofExport], ?_⟩
  intro tr htr hno
  refine ⟨pairTrack (deltasFrom 0 ex.tracks[tr]), ?_, hpair tr htr hno⟩
  simp [ofExport, List.getElem?_eq_getElem htr]

/-- **Reading the messages directly**, anywhere in a history, gives the absolute ticks that were written. -/
theorem history_messages (ex : Exported) (ops : List ReadOp) (i : Nat) (hop : ops[i]? = some .iter) :
    (runHistory (ofExport ex) ops).2[i]? = some (.messages ex.tracks) := by
  rw [history_reads_independent _ ops i _ hop]
  simp only [outOf, ofExport, List.map_map]
  congr 2
  conv_rhs => rw [← List.map_id ex.tracks]
  apply List.map_congr_left
  intro tr _
  exact (delta_roundtrip 0 tr).1

/-- **Saving the object**, anywhere in a history, writes the exported file (mido's serialisation trusted). -/
theorem history_saved (ex : Exported) (ops : List ReadOp) (i : Nat) (hop : ops[i]? = some .save) :
    (runHistory (ofExport ex) ops).2[i]? = some (.saved (ofExport ex)) :=
  history_reads_independent _ ops i _ hop

-- ====================================================================== non-vacuity, and what the theorems exclude

/-- the object of the demo export (`demoScore`, mode 1, `shift`): 6 ticks per quarter, one track -/
def demoObj : MidiObj :=
  ⟨6, [[(0, .tempo 500000), (0, .timeSig 4 4), (0, .keySig "C"), (0, .timeSig 4 4), (0, .keySig "C"),
        (0, .noteOn 1 60 64), (0, .noteOn 2 48 64), (6, .noteOff 1 60 64), (0, .noteOff 2 48 64),
        (0, .noteOn 1 60 64), (0, .noteOff 1 60 64), (0, .noteOn 1 64 64), (0, .noteOn 1 60 64), (0, .noteOn 2 48 64),
        (8, .noteOff 1 60 64), (16, .noteOff 1 64 64), (0, .noteOff 2 48 64)]]⟩

example : (saveScoreMidi 1 .shift 0 64 demoScore).map ofExport = some demoObj := by decide +kernel

/-- the notes of an import in ticks, for the examples -/
def outRows : ReadOut → List (Int × Nat × Int)
  | .imported (some imp) => imp.parts.flatMap fun e => e.2.notes.map C04I.strip
  | .performed r => r.flatMap fun ns => ns.map C04I.noteRow
  | _ => []

/-- a history on the demo object as the code runs it: import mode 1, import mode 4, performance reader, import
    mode 0 — the four reads give the same six notes (up to order) and the object is unchanged -/
example : (runHistory demoObj [.imp 1, .imp 4, .perf, .imp 0]).1 = demoObj ∧
    (runHistory demoObj [.imp 1, .imp 4, .perf, .imp 0]).2.map outRows =
      [[(0, 60, 6), (6, 60, 0), (6, 60, 8), (6, 64, 24), (0, 48, 6), (6, 48, 24)],
       [(0, 60, 6), (6, 60, 0), (6, 60, 8), (6, 64, 24), (0, 48, 6), (6, 48, 24)],
       [(0, 60, 6), (0, 48, 6), (6, 60, 0), (6, 60, 8), (6, 64, 24), (6, 48, 24)],
       [(0, 60, 6), (6, 60, 0), (6, 60, 8), (6, 64, 24), (0, 48, 6), (6, 48, 24)]] := by
  refine ⟨by decide +kernel, by decide +kernel⟩

/-- **What the theorems exclude.**  With the reader that stores the absolute time in `msg.time`
    (`readOpWriteBack`, not the code) the first read is right, the object is changed, and the second read of the
    same object gives other notes: `history_object_unchanged` and `history_reads_agree` fail for it. -/
example : (runWith readOpWriteBack demoObj [.imp 1, .imp 1]).1 ≠ demoObj ∧
    (runWith readOpWriteBack demoObj [.imp 1, .imp 1]).2.map outRows =
      [[(0, 60, 6), (6, 60, 0), (6, 60, 8), (6, 64, 24), (0, 48, 6), (6, 48, 24)],
       [(0, 60, 6), (18, 60, 6), (36, 60, 20), (30, 64, 56), (0, 48, 12), (42, 48, 74)]] := by
  refine ⟨by decide +kernel, by decide +kernel⟩

end C04
