/-
C10 (round 3) — the integer tables of the measure maps are EXACT at every resolution.

The pickup rule computes the bar length as `beats_per_bar * divs_per_beat`, a binary64 number that comes out of two
linear interpolations (`inv_beat_map(1 + beat_map(0))`): at realistic divisions (480, 120, 960, 7, 15, ...) and
pickups that are not binary fractions of the beat it is e.g. 1919.9999999999998.  The model computes with exact
rationals; these theorems say what the exact rule gives for EVERY quarter duration `q0` (no list of "good"
divisions), and why the model's exact arithmetic is the right reference for the float code:

* `pickup_start_exact` / `pickup_maps_exact`: when the bar is a whole number `N` of divisions, the first measure of a
  part that starts simply starts exactly at `end − N` — no rounding left — and every position of the pickup gets
  `measure_map = (end − N, end)`, `metrical_position_map = (x − end + N, N)`.
* `round_absorbs_noise` / `pickup_start_noise_free`: any error below half a division in the bar length (float noise
  is of the order 1e-12) is absorbed by `np.round`; `pickup_start_nearest` for bars that are no whole number of divs.
* `trunc_exposes_noise` / `pickup_trunc_off_by_one`: without the rounding (storing the float into the integer table
  truncates toward zero) ANY positive noise on a negative start moves it by a whole division — the seeded change
  C10-f / defect C10-8; the harness observes exactly this difference.
-/
import PartituraModel.Props.C10Part
import PartituraModel.Proofs.C10Exact

namespace C10
open Model Model.StepMap Gen

/-! ### rounding absorbs noise, truncation exposes it -/

/-- `round_absorbs_noise`: an integer plus an error of less than one half rounds back to the integer -/
theorem round_absorbs_noise (v : Int) (δ : Rat) (h : |δ| < 1 / 2) : roundHalfEven ((v : Rat) + δ) = v := by
  have hc := Round.roundHalfEven_close ((v : Rat) + δ)
  rw [abs_le] at hc
  rw [abs_lt] at h
  have h1 : ((roundHalfEven ((v : Rat) + δ) - v : Int) : Rat) < 1 := by push_cast; linarith [hc.1, hc.2, h.1, h.2]
  have h2 : (-1 : Rat) < ((roundHalfEven ((v : Rat) + δ) - v : Int) : Rat) := by
    push_cast; linarith [hc.1, hc.2, h.1, h.2]
  have h1' : roundHalfEven ((v : Rat) + δ) - v < 1 := by exact_mod_cast h1
  have h2' : -1 < roundHalfEven ((v : Rat) + δ) - v := by exact_mod_cast h2
  omega

/-- `trunc_exposes_noise`: truncation toward zero moves a negative integer carrying ANY positive error (below one)
    up by one, and a positive integer carrying any negative error down by one -/
theorem trunc_exposes_noise (v : Int) (δ : Rat) :
    (v < 0 → 0 < δ → δ < 1 → truncToZero ((v : Rat) + δ) = v + 1) ∧
    (0 < v → δ < 0 → -1 < δ → truncToZero ((v : Rat) + δ) = v - 1) := by
  constructor
  · intro hv h0 h1
    have hvq : (v : Rat) ≤ -1 := by exact_mod_cast (show v ≤ -1 by omega)
    have hneg : ¬ (0 ≤ (v : Rat) + δ) := by intro h; linarith
    unfold truncToZero
    rw [if_neg hneg]
    have hf : (-((v : Rat) + δ)).floor = -v - 1 :=
      floor_eq_of_bounds _ _ (by push_cast; linarith) (by push_cast; linarith)
    rw [hf]; omega
  · intro hv h0 h1
    have hvq : (1 : Rat) ≤ (v : Rat) := by exact_mod_cast (show 1 ≤ v by omega)
    have hpos : 0 ≤ (v : Rat) + δ := by linarith
    unfold truncToZero
    rw [if_pos hpos]
    exact floor_eq_of_bounds _ _ (by push_cast; linarith) (by push_cast; linarith)

example : truncToZero ((-1760 : Int) + (1 : Rat) / 5000000000000) = -1759
    ∧ roundHalfEven ((-1760 : Int) + (1 : Rat) / 5000000000000) = -1760 := by decide +kernel

/-! ### the pickup rule at every resolution -/

/-- `pickup_start_exact` — for EVERY quarter duration `q0` and signature: when a full bar is a whole number `N` of
    divisions (`beats · q0 · 4 / beat_type = N`), the first measure `(s, e)` of a part that starts simply starts
    exactly at `e − N` if it is shorter than a bar, and at `s` otherwise: the rounding of the rule has nothing to do -/
theorem pickup_start_exact (p : PartD) (l : Int) (s0 : TimeMap.TSig) (rest : List TimeMap.TSig) (q0 : Nat)
    (k k' : TimeMap.KP) (post : List TimeMap.KP) (H : SimpleStart p l s0 rest q0 k k' post)
    (N : Int) (hN : fullBar s0 q0 = (N : Rat)) (s e : Int) :
    pickupStart s e (beatsPerBar p) (divsPerBeat p) = if e - s < N then e - N else s := by
  rw [(pickup_spec_composed p l s0 rest q0 k k' post H).2 s e, hN]
  have hc : (((e - s : Int) : Rat) < (N : Rat)) ↔ e - s < N := by exact_mod_cast Iff.rfl
  by_cases h : e - s < N
  · rw [if_pos (hc.mpr h), if_pos h]
    have : (e : Rat) - (N : Rat) = ((e - N : Int) : Rat) := by push_cast; ring
    rw [this, Round.roundHalfEven_int]
  · rw [if_neg (fun h' => h (hc.mp h')), if_neg h]

/-- `pickup_maps_exact` — what the three maps return INSIDE a pickup, in whole divisions, at every resolution: for a
    part that starts simply, whose bar is `N` divisions, whose measures tile and whose first measure `(s, e)` is
    shorter than `N`, every position `s ≤ x < e` has `measure_map = (e − N, e)` and
    `metrical_position_map = (x − e + N, N)` — "a pickup first measure is treated as ending a full bar" -/
theorem pickup_maps_exact (p : PartD) (l : Int) (s0 : TimeMap.TSig) (rest : List TimeMap.TSig) (q0 : Nat)
    (k k' : TimeMap.KP) (post : List TimeMap.KP) (H : SimpleStart p l s0 rest q0 k k' post)
    (N : Int) (hN : fullBar s0 q0 = (N : Rat)) (hr : raisesP p = false) (ht : Tiles (bars p))
    (s e : Int) (hi : (bars p)[0]? = some (s, e)) (hshort : e - s < N) (x : Int) (hs : s ≤ x) (he : x < e) :
    measureMapP p x = some (some (e - N, e)) ∧ metricalMapP p x = some (x - e + N, some N) := by
  have hst := pickup_start_exact p l s0 rest q0 k k' post H N hN s e
  rw [if_pos hshort] at hst
  refine ⟨?_, ?_⟩
  · rw [measure_spec_composed p x hr ht.ordered 0 s e hi hs he]
    simp only [if_true, hst]
  · rw [metrical_spec_composed p x hr ht 0 s e hi hs he]
    simp only [if_true, hst]
    congr 2
    · omega
    · congr 1; omega

/-- `pickup_start_nearest`: when a bar is NOT a whole number of divisions (5 divisions per quarter in 3/8: 7.5) the
    corrected start is a nearest integer of `end − bar` -/
theorem pickup_start_nearest (p : PartD) (l : Int) (s0 : TimeMap.TSig) (rest : List TimeMap.TSig) (q0 : Nat)
    (k k' : TimeMap.KP) (post : List TimeMap.KP) (H : SimpleStart p l s0 rest q0 k k' post)
    (s e : Int) (hshort : ((e - s : Int) : Rat) < fullBar s0 q0) :
    |((pickupStart s e (beatsPerBar p) (divsPerBeat p) : Int) : Rat) - ((e : Rat) - fullBar s0 q0)| ≤ 1 / 2 := by
  rw [(pickup_spec_composed p l s0 rest q0 k k' post H).2 s e, if_pos hshort]
  exact Round.roundHalfEven_close _

/-- non-vacuity at a MIDI-like resolution: divisions 480, 4/4, a triplet-eighth pickup (160 divisions) and two full
    bars — the witness of the seeded change C10-f; the corrected start is −1760 -/
def exPart480 : PartD :=
  { npoints := 4, span := some (0, 4000), qd := [(0, 480)], ts := [⟨0, 4, 4, 4⟩], musical := false,
    ms := [(0, 160, some 0), (160, 2080, some 1), (2080, 4000, some 2)] }

example : SimpleStart exPart480 4000 ⟨0, 4, 4, 4⟩ [] 480 ⟨0, 480, 1⟩ ⟨4000, 480, 1⟩ [] :=
  ⟨rfl, by decide, rfl, rfl, by decide, by decide +kernel, by decide +kernel, rfl, by decide +kernel⟩

example : fullBar ⟨0, 4, 4, 4⟩ 480 = ((1920 : Int) : Rat) ∧ raisesP exPart480 = false ∧ Tiles (bars exPart480)
    ∧ (bars exPart480)[0]? = some (0, 160)
    ∧ measureMapP exPart480 159 = some (some (-1760, 160)) ∧ metricalMapP exPart480 0 = some (1760, some 1920) := by
  refine ⟨by decide +kernel, by decide, by simp [Tiles, bars, exPart480], by decide, by decide +kernel, by decide +kernel⟩

/-- `pickup_start_noise_free`: the same start is obtained from ANY bar length within half a division of the exact
    one — the float noise of `beats_per_bar * divs_per_beat` (order 1e-12 divisions) cannot move it -/
theorem pickup_start_noise_free (s0 : TimeMap.TSig) (q0 : Nat) (N : Int) (hN : fullBar s0 q0 = (N : Rat))
    (e : Int) (δ : Rat) (hδ : |δ| < 1 / 2) :
    roundHalfEven ((e : Rat) - (fullBar s0 q0 + δ)) = e - N := by
  have : (e : Rat) - (fullBar s0 q0 + δ) = ((e - N : Int) : Rat) + (-δ) := by rw [hN]; push_cast; ring
  rw [this]
  exact round_absorbs_noise (e - N) (-δ) (by rwa [abs_neg])

/-- `pickup_trunc_off_by_one`: the rule WITHOUT its rounding (`pickupStartTrunc`: the float is stored into the integer
    table) is off by one division as soon as the computed bar length `b · d` is short of the whole number `N` by any
    noise `0 < δ < 1/2` and the corrected start is negative (a pickup at the start of the timeline) — at every
    resolution; the rule with its rounding is exact on the same numbers -/
theorem pickup_trunc_off_by_one (N : Int) (b d δ : Rat) (hbd : b * d = (N : Rat) - δ) (h0 : 0 < δ) (h1 : δ < 1 / 2)
    (s e : Int) (hshort : e - s < N) (hneg : e < N) :
    pickupStartTrunc s e (some b) (some d) = e - N + 1 ∧ pickupStart s e (some b) (some d) = e - N := by
  have hle : ((e - s : Int) : Rat) ≤ ((N - 1 : Int) : Rat) := by exact_mod_cast (show e - s ≤ N - 1 by omega)
  have hlt : ((e - s : Int) : Rat) < (N : Rat) - δ := by push_cast at hle ⊢; linarith
  unfold pickupStartTrunc pickupStart
  simp only [hbd, if_pos hlt]
  have hv : (e : Rat) - ((N : Rat) - δ) = ((e - N : Int) : Rat) + δ := by push_cast; ring
  rw [hv]
  exact ⟨(trunc_exposes_noise (e - N) δ).1 (by omega) h0 (by linarith),
    round_absorbs_noise (e - N) δ (by rw [abs_lt]; constructor <;> linarith)⟩

/-- the seeded change C10-f on its witness: divisions 480, 4/4, a pickup of 160 divisions; the float bar length is
    1919.9999999999998 = 1920 − 2⁻⁴² · … (any `0 < δ < 1/2` will do) -/
example : pickupStartTrunc 0 160 (some 4) (some (480 - 1 / 20000000000000)) = -1759
    ∧ pickupStart 0 160 (some 4) (some (480 - 1 / 20000000000000)) = -1760 := by decide +kernel
