/-
C15, round 5 - the timeline of the merged part, the least common multiple, and what merging leaves alone.

  * the time points of the new part, as the calls `new_part.add(e, start, end)` of the loop create them one by one
    (`Model.Merge.newTimeline`: `get_or_add_point` with `np.searchsorted` / `np.insert`, in the order of the loop -
    part by part, elements then end-only objects), are exactly the rescaled starts and ends of the transferred objects:
    the union of the inputs' timelines (as far as objects are transferred from them), each time multiplied by
    `L / d_p`, in strictly increasing order, whatever the order of insertion; every point carries quarter `L`
  * `L` is the LEAST common multiple: it divides every common multiple of the divisions
  * every other attribute of a transferred object is untouched; the objects are moved, none is copied or duplicated
-/
import PartituraModel.Proofs.C15Timeline
import PartituraModel.Props.C15

namespace C15
open Model.Merge

-- ================================================================ the time points of the merged part

/-- The timeline `Part.add` builds during the loop is the sorted set of the starts and ends of what was added, each
point with quarter duration `L` - whatever the order of the insertions. -/
theorem timeline_built (m : Mode) (ps : List APart) :
    let L := lcmList (ps.map (·.divs))
    newTimeline m ps
      = (pointsWith (mergeFrom m L true 0 0 0 ps) (mergedTails m ps)).map fun t => { t := t, quarter := L } := by
  intro L
  have hg := newTimeline_good m ps
  have ht : (newTimeline m ps).map (·.t) = pointsWith (mergeFrom m L true 0 0 0 ps) (mergedTails m ps) :=
    hg.1.eq_of_mem_iff (uniq_sorted _) (mem_newTimeline m ps)
  rw [← ht]
  exact eq_map_of_quarter hg.2

/-- The time points of the merged part: strictly increasing, each with quarter duration `L` (so that a point at
`t` stands at `t / L` quarters - the musical time `time_preserved` speaks of), and - as a list - the time points
of its elements `es` and of its end-only objects. -/
theorem merged_timeline (m : Mode) (ps : List APart) (L : Nat) (es : List Elem)
    (h : mergeParts m ps = some (.merged L es)) :
    (newTimeline m ps).map (·.t) = pointsWith es (mergedTails m ps)
      ∧ ((newTimeline m ps).map (·.t)).Pairwise (· < ·)
      ∧ ∀ tp ∈ newTimeline m ps, tp.quarter = L := by
  obtain ⟨_, _, _, hL, _⟩ := mergeParts_merged_iff.mp h
  have hg := newTimeline_good m ps
  rw [← hL] at hg
  refine ⟨?_, hg.1, hg.2⟩
  rw [pointsWith_perm (merged_perm h), hL]
  exact hg.1.eq_of_mem_iff (uniq_sorted _) (mem_newTimeline m ps)

/-- Merged timeline = union of the rescaled timelines: `y` is a time point of the merged part iff some transferred
object `e` of some input `p` (every object of the first part, the non-discarded classes of the others) starts or ends
at a time `t` of `p` with `y = t * (L / d_p)`; objects that only have an end contribute their end. -/
theorem timeline_union (m : Mode) (ps : List APart) (L : Nat) (es : List Elem)
    (h : mergeParts m ps = some (.merged L es)) (y : Nat) :
    y ∈ (newTimeline m ps).map (·.t) ↔
      ∃ i p e, ps[i]? = some p ∧ keep m (i == 0) e = true ∧
        ((e ∈ p.elems ∧ (y = e.start * (L / p.divs) ∨ ∃ s, e.stop = some s ∧ y = s * (L / p.divs)))
          ∨ (e ∈ p.tails ∧ ∃ s, e.stop = some s ∧ y = s * (L / p.divs))) := by
  obtain ⟨_, _, _, hL, _⟩ := mergeParts_merged_iff.mp h
  rw [(merged_timeline m ps L es h).1, mem_pointsWith]
  have himg : ∀ i p (e : Elem), (image m L ps i p e).start = e.start * (L / p.divs)
      ∧ (image m L ps i p e).stop = e.stop.map (· * (L / p.divs)) := fun i p e =>
    ⟨by simp only [image, xform_start, ctxAt_mult], by simp only [image, xform_stop, ctxAt_mult]⟩
  constructor
  · rintro (⟨e', he', hy⟩ | ⟨e', he', hy⟩)
    · obtain ⟨i, p, e, hp, he, hk, rfl⟩ := (mem_es h e').mp he'
      refine ⟨i, p, e, hp, hk, Or.inl ⟨he, ?_⟩⟩
      rcases hy with hy | hy
      · exact Or.inl (by rw [hy, (himg i p e).1])
      · rw [(himg i p e).2] at hy
        cases hs : e.stop with
        | none => rw [hs] at hy; cases hy
        | some s =>
          rw [hs] at hy
          simp only [Option.map_some, Option.some.injEq] at hy
          exact Or.inr ⟨s, rfl, hy.symm⟩
    · rw [mergedTails, ← hL, mem_tails] at he'
      obtain ⟨i, p, e, hp, he, hk, rfl⟩ := he'
      refine ⟨i, p, e, hp, hk, Or.inr ⟨he, ?_⟩⟩
      rw [(himg i p e).2] at hy
      cases hs : e.stop with
      | none => rw [hs] at hy; cases hy
      | some s =>
        rw [hs] at hy
        simp only [Option.map_some, Option.some.injEq] at hy
        exact ⟨s, rfl, hy.symm⟩
  · rintro ⟨i, p, e, hp, hk, ⟨he, hy⟩ | ⟨he, s, hs, hy⟩⟩
    · refine Or.inl ⟨image m L ps i p e, (mem_es h _).mpr ⟨i, p, e, hp, he, hk, rfl⟩, ?_⟩
      rcases hy with hy | ⟨s, hs, hy⟩
      · exact Or.inl (by rw [hy, (himg i p e).1])
      · exact Or.inr (by rw [(himg i p e).2, hs, hy]; rfl)
    · refine Or.inr ⟨image m L ps i p e, ?_, by rw [(himg i p e).2, hs, hy]; rfl⟩
      rw [mergedTails, ← hL, mem_tails]
      exact ⟨i, p, e, hp, he, hk, rfl⟩

/-- every time point of the first part that holds an object is a time point of the merged part (rescaled) -/
theorem first_part_points (m : Mode) (ps : List APart) (L : Nat) (es : List Elem)
    (h : mergeParts m ps = some (.merged L es)) (p : APart) (hp : ps[0]? = some p) (t : Nat)
    (ht : t ∈ pointsWith p.elems p.tails) : t * (L / p.divs) ∈ (newTimeline m ps).map (·.t) := by
  rw [timeline_union m ps L es h]
  rcases mem_pointsWith.mp ht with ⟨e, he, hy⟩ | ⟨e, he, hy⟩
  · refine ⟨0, p, e, hp, by simp [keep], Or.inl ⟨he, ?_⟩⟩
    rcases hy with rfl | hy
    · exact Or.inl rfl
    · exact Or.inr ⟨t, hy, rfl⟩
  · exact ⟨0, p, e, hp, by simp [keep], Or.inr ⟨he, t, hy, rfl⟩⟩

/-- [exA, exB], voice mode: the points of A (0, 3, 9, 12 in divisions 3) and of B (0, 6, 16 in divisions 4; 16 is also
the end of B's end-only slur) become 0, 12, 18, 36, 48 in divisions 12; built in the order of the loop -/
example : (newTimeline .voice [exA, exB]).map (fun tp => (tp.t, tp.quarter))
    = [(0, 12), (12, 12), (18, 12), (36, 12), (48, 12)] := by decide

/-- `get_or_add_point` with `np.searchsorted` / `np.insert`: in front, in the middle, at the end, already there -/
example : ((getOrAddPoint 6 [⟨2, 6⟩, ⟨5, 6⟩] 0).map (·.t), (getOrAddPoint 6 [⟨2, 6⟩, ⟨5, 6⟩] 3).map (·.t),
      (getOrAddPoint 6 [⟨2, 6⟩, ⟨5, 6⟩] 9).map (·.t), (getOrAddPoint 6 [⟨2, 6⟩, ⟨5, 6⟩] 5).map (·.t))
    = ([0, 2, 5], [2, 3, 5], [2, 5, 9], [2, 5]) := by decide

-- ================================================================ the least common multiple

/-- The divisions of the merged part are the LEAST common multiple of the inputs' divisions: a multiple of each, and
a divisor of every common multiple (hence the smallest positive one); with equal divisions it is that value, and it
may exceed every input (3 and 4 give 12). -/
theorem lcm_least (ps : List APart) :
    (∀ p ∈ ps, p.divs ∣ lcmList (ps.map (·.divs)))
      ∧ (∀ M, (∀ p ∈ ps, p.divs ∣ M) → lcmList (ps.map (·.divs)) ∣ M)
      ∧ (∀ M, 0 < M → (∀ p ∈ ps, p.divs ∣ M) → lcmList (ps.map (·.divs)) ≤ M)
      ∧ (∀ d, 0 < d → ps ≠ [] → (∀ p ∈ ps, p.divs = d) → lcmList (ps.map (·.divs)) = d) := by
  have hdvd : ∀ M, (∀ p ∈ ps, p.divs ∣ M) → lcmList (ps.map (·.divs)) ∣ M := fun M hM =>
    lcmList_dvd (by
      intro d hd
      obtain ⟨p, hp, rfl⟩ := List.mem_map.mp hd
      exact hM p hp)
  refine ⟨fun p hp => dvd_lcmList (List.mem_map.mpr ⟨p, hp, rfl⟩), hdvd, fun M hM h => Nat.le_of_dvd hM (hdvd M h), ?_⟩
  intro d hd hne hall
  apply Nat.dvd_antisymm
  · exact hdvd d fun p hp => by rw [hall p hp]
  · obtain ⟨p, hp⟩ := List.exists_mem_of_ne_nil ps hne
    rw [← hall p hp]
    exact dvd_lcmList (List.mem_map.mpr ⟨p, hp, rfl⟩)

example : lcmList ([exA, exB].map (·.divs)) = 12 ∧ lcmList [480, 960] = 960 ∧ lcmList [24, 16, 10] = 240 := by decide

-- ================================================================ what merging leaves alone

/-- Every object of the merged part - element or end-only object - is an object of an input with everything but
its times, voice and staff as it was: identity, class, pitch, tie links, references to other objects, and every other
attribute (`extra`: id, step, alter, octave, symbolic duration, articulations, text ... as one value). -/
theorem attrs_untouched (m : Mode) (ps : List APart) (L : Nat) (es : List Elem)
    (h : mergeParts m ps = some (.merged L es)) (e' : Elem) (he' : e' ∈ es ++ mergedTails m ps) :
    ∃ (i : Nat) (p : APart) (e : Elem), ps[i]? = some p ∧ e ∈ allElems p ∧ e'.oid = e.oid ∧ e'.cls = e.cls ∧ e'.pitch = e.pitch
      ∧ e'.tiePrev = e.tiePrev ∧ e'.chain = e.chain ∧ e'.refs = e.refs ∧ e'.extra = e.extra := by
  obtain ⟨i, p, e, hp, he, _, rfl⟩ := (mem_registered h e').mp he'
  exact ⟨i, p, e, hp, he, xform_oid _ _ _, xform_cls _ _ _, xform_pitch _ _ _, xform_tiePrev _ _ _,
    xform_chain _ _ _, xform_refs _ _ _, xform_extra _ _ _⟩

/-- Merging moves objects, it never copies or duplicates them: no object is registered twice on the merged part
(neither twice by its start, nor by its start and again as an end-only object), and every registered object is an
object of an input (`attrs_untouched`). -/
theorem no_copies (m : Mode) (ps : List APart) (L : Nat) (es : List Elem)
    (h : mergeParts m ps = some (.merged L es)) (hid : ObjectsDistinct ps) :
    ((es ++ mergedTails m ps).map (·.oid)).Nodup := by
  obtain ⟨_, _, _, hL, _⟩ := mergeParts_merged_iff.mp h
  have hperm : ((es ++ mergedTails m ps).map (·.oid)).Perm
      ((mergeFrom m L true 0 0 0 ps).map (·.oid) ++ (mergedTails m ps).map (·.oid)) := by
    rw [List.map_append]
    exact ((merged_perm h).map _).append_right _
  rw [hperm.nodup_iff]
  refine hid.sublist (List.Sublist.append (oids_sublist m L true 0 0 0 ps) ?_)
  rw [mergedTails, ← hL]
  exact tail_oids_sublist m L true 0 0 0 ps

example : ObjectsDistinct [exA, exB] := by unfold ObjectsDistinct; decide

end C15
