/-
C02 (round 2) — where zero lies, for EVERY part, and why all parts of a score share it.

The code starts its cumulative sum at the first KEY point `t0` (time 0 for every part built through the
API: the initial quarter duration is stored there), not at the first time point (open finding F-C02-1).
This file characterises the origin exactly, with no hypothesis on where the part starts:

* `origin_value_plain` / `origin_value_pickup`: at the statement's origin `O` (the first time point, or
  the end of the pickup measure) the map has the value `elapsed [t0, first)` — the length, in the unit of
  the map, of the stretch between the first key point and the first time point;
* `origin_zero_iff_*`: so zero lies at `O` if and only if `t0 = first` (the `_partial` theorems of
  Props/C02.lean are the "if" direction);
* `zero_characterisation`, `zero_unique`: zero lies at the unique `z` with `elapsed [t0, z] = shift`
  (`shift = 0`, or the pickup's length `elapsed [first, e]`): at `t0` itself without a pickup;
* `origin_common_across_parts`: two parts with the same quarter durations and signatures (the parts of
  one score) and the same first key point have THE SAME map wherever both are defined, up to the
  difference of their pickup shifts — whatever their first and last time points are.  This is what
  `Score.note_array()` / `save_score_midi` rely on and why the origin is kept at `t0`.
-/
import PartituraModel.Props.C02
import PartituraModel.Props.C02Args
import PartituraModel.Proofs.C02Origin
import PartituraModel.Proofs.C02Musical

namespace C02
open Model.TimeMap C02Proofs

/-- the un-shifted interpolation is the elapsed sum from the first key point -/
theorem unshifted_value (p : Part) (m : Mode) (h : WF p m) (t0 : Int)
    (hk : (keyTimes p m).head? = some t0) (x v : Rat)
    (hv : interp (knots (keypoints p m) 0) x = some v) :
    (t0 : Rat) ≤ x ∧ v = elapsed (keypoints p m) (t0 : Rat) x := by
  obtain ⟨hok, hlen⟩ := keypoints_ok p m h
  obtain ⟨k, rest, hkp, hkx, hve⟩ := interp_elapsed _ 0 x v hok hlen hv
  have ht : k.t = t0 := by
    have := keypoints_times p m
    rw [hkp, List.map_cons] at this
    rw [← this] at hk
    simpa using hk
  rw [ht] at hkx hve
  exact ⟨hkx, by rw [hve]; ring⟩

/-- every map value is the elapsed sum from the first key point minus the pickup shift -/
theorem fwd_value (p : Part) (m : Mode) (h : WF p m) (t0 : Int)
    (hk : (keyTimes p m).head? = some t0) (x y : Rat) (hy : fwd p m x = some y) :
    y = elapsed (keypoints p m) (t0 : Rat) x - pickupShift p m (knots (keypoints p m) 0) := by
  rw [fwd_eq p m h] at hy
  unfold finalKnots at hy
  simp only at hy
  rw [interp_shift _ _ (knots0_ok p m h)] at hy
  cases hv : interp (knots (keypoints p m) 0) x with
  | none => rw [hv] at hy; cases hy
  | some v =>
    rw [hv] at hy
    simp only [Option.map_some, Option.some.injEq] at hy
    rw [← hy, (unshifted_value p m h t0 hk x v hv).2]

/-! ### the value at the statement's origin -/

/-- **Without a pickup, for every part**: at the first time point the map has the value
`elapsed [t0, first)` (0 exactly when nothing is stored before the first time point). -/
theorem origin_value_plain (p : Part) (m : Mode) (h : WF p m) (t0 : Int)
    (hk : (keyTimes p m).head? = some t0)
    (hno : pickupShift p m (knots (keypoints p m) 0) = 0) :
    fwd p m (p.first : Rat) = some (elapsed (keypoints p m) (t0 : Rat) (p.first : Rat)) := by
  obtain ⟨y, hy⟩ := fwd_defined p m h (p.first : Rat) (le_refl _) (by exact_mod_cast h.2.1.le)
  rw [hy, fwd_value p m h t0 hk _ y hy, hno]
  simp

/-- **With a pickup, for every part**: at the end of the pickup measure (start of the first full
measure) the map has the same value `elapsed [t0, first)`. -/
theorem origin_value_pickup (p : Part) (m : Mode) (h : WF p m) (t0 : Int)
    (hk : (keyTimes p m).head? = some t0) (e : Int) (a : Rat) (hp : Pickup p m e a) :
    fwd p m (e : Rat) = some (elapsed (keypoints p m) (t0 : Rat) (p.first : Rat)) := by
  obtain ⟨v0, h1, h2⟩ := pickup_end_value p m h e a hp
  rw [h2, (unshifted_value p m h t0 hk _ v0 h1).2]

/-- the stretch between the first key point and a later position has positive length -/
theorem elapsed_pos (p : Part) (m : Mode) (h : WF p m) (t0 : Int)
    (hk : (keyTimes p m).head? = some t0) (x : Rat) (hx : (t0 : Rat) < x)
    (hx' : x ≤ ((lastOf (keyTimes p m) : Int) : Rat)) : 0 < elapsed (keypoints p m) (t0 : Rat) x := by
  have hok := knots0_ok p m h
  obtain ⟨hfx, hfy⟩ := firstX_knots0 p m t0 hk
  have h0 := interp_first _ hok
  rw [hfx, hfy] at h0
  have hend : endX (knots (keypoints p m) 0) = ((lastOf (keyTimes p m) : Int) : Rat) := by
    rw [endX_eq, knots_xs, ← lastQ_cast, ← keypoints_times, List.map_map]
    rfl
  obtain ⟨v, hv⟩ := interp_defined _ hok x (by rw [hfx]; exact hx.le) (by rw [hend]; exact hx')
  have := interp_strictMono _ hok _ _ _ _ hx h0 hv
  rw [(unshifted_value p m h t0 hk x v hv).2] at this
  exact this

/-- **Zero lies at the first time point (no pickup) if and only if the first key point is the first time
point** — the exact scope of `origin_plain_partial`. -/
theorem origin_zero_iff_plain (p : Part) (m : Mode) (h : WF p m) (t0 : Int)
    (hk : (keyTimes p m).head? = some t0)
    (hno : pickupShift p m (knots (keypoints p m) 0) = 0) :
    fwd p m (p.first : Rat) = some 0 ↔ t0 = p.first := by
  rw [origin_value_plain p m h t0 hk hno]
  constructor
  · intro h0
    by_contra hne
    have hle : t0 ≤ p.first := head_le_of_pairwise _ t0 (keyTimes_pairwise p m) hk _ (first_mem_keyTimes p m)
    have hlt : (t0 : Rat) < (p.first : Rat) := by exact_mod_cast (lt_of_le_of_ne hle hne)
    have hl : (p.first : Rat) ≤ ((lastOf (keyTimes p m) : Int) : Rat) := by
      exact_mod_cast (last_key_spec p m).2.1 _ (first_mem_keyTimes p m)
    have := elapsed_pos p m h t0 hk _ hlt hl
    simp only [Option.some.injEq] at h0
    linarith
  · intro he
    subst he
    have hok := (keypoints_ok p m h).1
    rw [elapsed_zero (keypoints p m) _ _ hok]
    intro k hkm
    have : k.t ∈ keyTimes p m := by rw [← keypoints_times]; exact List.mem_map.mpr ⟨k, hkm, rfl⟩
    exact_mod_cast head_le_of_pairwise _ p.first (keyTimes_pairwise p m) hk _ this

/-- **Zero lies at the start of the first full measure (pickup) if and only if the first key point is the
first time point** — the exact scope of `origin_pickup_partial`. -/
theorem origin_zero_iff_pickup (p : Part) (m : Mode) (h : WF p m) (t0 : Int)
    (hk : (keyTimes p m).head? = some t0) (e : Int) (a : Rat) (hp : Pickup p m e a) :
    fwd p m (e : Rat) = some 0 ↔ t0 = p.first := by
  rw [origin_value_pickup p m h t0 hk e a hp]
  constructor
  · intro h0
    by_contra hne
    have hle : t0 ≤ p.first := head_le_of_pairwise _ t0 (keyTimes_pairwise p m) hk _ (first_mem_keyTimes p m)
    have hlt : (t0 : Rat) < (p.first : Rat) := by exact_mod_cast (lt_of_le_of_ne hle hne)
    have hl : (p.first : Rat) ≤ ((lastOf (keyTimes p m) : Int) : Rat) := by
      exact_mod_cast (last_key_spec p m).2.1 _ (first_mem_keyTimes p m)
    have := elapsed_pos p m h t0 hk _ hlt hl
    simp only [Option.some.injEq] at h0
    linarith
  · intro he
    subst he
    have hok := (keypoints_ok p m h).1
    rw [elapsed_zero (keypoints p m) _ _ hok]
    intro k hkm
    have : k.t ∈ keyTimes p m := by rw [← keypoints_times]; exact List.mem_map.mpr ⟨k, hkm, rfl⟩
    exact_mod_cast head_le_of_pairwise _ p.first (keyTimes_pairwise p m) hk _ this

/-! ### where zero lies, exactly -/

/-- **Zero of the map, for every part**: `z` is mapped to 0 exactly when it lies in the key-point range and
the stretch from the first key point to `z` is as long as the pickup shift (0 without a pickup). -/
theorem zero_characterisation (p : Part) (m : Mode) (h : WF p m) (t0 : Int)
    (hk : (keyTimes p m).head? = some t0) (z : Rat) :
    fwd p m z = some 0 ↔
      ((t0 : Rat) ≤ z ∧ z ≤ ((lastOf (keyTimes p m) : Int) : Rat) ∧
        elapsed (keypoints p m) (t0 : Rat) z = pickupShift p m (knots (keypoints p m) 0)) := by
  constructor
  · intro hz
    have hd := (fwd_defined_iff p m h t0 hk z).mp ⟨0, hz⟩
    have := fwd_value p m h t0 hk z 0 hz
    exact ⟨hd.1, hd.2, by linarith⟩
  · rintro ⟨h0, h1, h2⟩
    obtain ⟨y, hy⟩ := (fwd_defined_iff p m h t0 hk z).mpr ⟨h0, h1⟩
    have := fwd_value p m h t0 hk z y hy
    rw [hy, this, h2]
    simp

/-- there is at most one zero -/
theorem zero_unique (p : Part) (m : Mode) (h : WF p m) (z z' : Rat)
    (hz : fwd p m z = some 0) (hz' : fwd p m z' = some 0) : z = z' := by
  rcases lt_trichotomy z z' with hlt | heq | hgt
  · exact absurd (fwd_strictMono p m h z z' 0 0 hlt hz hz') (lt_irrefl _)
  · exact heq
  · exact absurd (fwd_strictMono p m h z' z 0 0 hgt hz' hz) (lt_irrefl _)

/-- without a pickup the zero is the first key point and nothing else -/
theorem zero_plain (p : Part) (m : Mode) (h : WF p m) (t0 : Int)
    (hk : (keyTimes p m).head? = some t0)
    (hno : pickupShift p m (knots (keypoints p m) 0) = 0) (z : Rat) :
    fwd p m z = some 0 ↔ z = (t0 : Rat) := by
  have h0 := origin_first_key p m h t0 hno hk
  constructor
  · intro hz; exact zero_unique p m h z _ hz h0
  · intro hz; rw [hz]; exact h0

/-- the pickup shift is the length of the pickup measure in the unit of the map -/
theorem pickup_shift_value (p : Part) (m : Mode) (h : WF p m) (t0 : Int)
    (hk : (keyTimes p m).head? = some t0) (e : Int) (a : Rat) (hp : Pickup p m e a) (hfe : p.first ≤ e) :
    pickupShift p m (knots (keypoints p m) 0) = a ∧
    a = elapsed (keypoints p m) (p.first : Rat) (e : Rat) := by
  refine ⟨pickupShift_of_pickup p m e a hp, ?_⟩
  obtain ⟨_, h2, _⟩ := hp
  obtain ⟨v0, v1, h3, h4, h5⟩ := actualDur_some _ _ _ _ h2
  obtain ⟨hok, _⟩ := keypoints_ok p m h
  have hfrom : AllFrom (t0 : Rat) (keypoints p m) := by
    intro k hkm
    have : k.t ∈ keyTimes p m := by rw [← keypoints_times]; exact List.mem_map.mpr ⟨k, hkm, rfl⟩
    exact_mod_cast head_le_of_pairwise _ t0 (keyTimes_pairwise p m) hk _ this
  have hd := elapsed_diff (keypoints p m) (t0 : Rat) (p.first : Rat) (e : Rat) hok hfrom (by exact_mod_cast hfe)
  rw [h5, (unshifted_value p m h t0 hk _ v1 h4).2, (unshifted_value p m h t0 hk _ v0 h3).2, hd]

/-- so with a pickup zero lies where the stretch from the first key point is as long as the pickup measure -/
theorem zero_pickup (p : Part) (m : Mode) (h : WF p m) (t0 : Int)
    (hk : (keyTimes p m).head? = some t0) (e : Int) (a : Rat) (hp : Pickup p m e a) (hfe : p.first ≤ e)
    (z : Rat) :
    fwd p m z = some 0 ↔
      ((t0 : Rat) ≤ z ∧ z ≤ ((lastOf (keyTimes p m) : Int) : Rat) ∧
        elapsed (keypoints p m) (t0 : Rat) z = elapsed (keypoints p m) (p.first : Rat) (e : Rat)) := by
  rw [zero_characterisation p m h t0 hk z]
  obtain ⟨h1, h2⟩ := pickup_shift_value p m h t0 hk e a hp hfe
  rw [h1, h2]

example : fwd lateStart .notated 0 = some 0 ∧ (keyTimes lateStart .notated).head? = some 0 ∧
    elapsed (keypoints lateStart .notated) 0 8 = 2 := by decide +kernel

/-- late start with a pickup: zero lies at 4 = one beat (the pickup's length) after time 0, not at 12 -/
example : fwd { lateStart with m1 := some (8, 12) } .notated 4 = some 0 ∧
    elapsed (keypoints { lateStart with m1 := some (8, 12) } .notated) 8 12 = 1 := by decide +kernel

/-! ### the first key point -/

/-- the first key point is the first time point exactly when nothing is stored before it -/
theorem first_key_iff (p : Part) (m : Mode) (hl : p.first ≤ p.last) :
    (keyTimes p m).head? = some p.first ↔
      ((∀ e ∈ p.qd, p.first ≤ e.1) ∧ (m ≠ .quarter → ∀ s ∈ p.ts, p.first ≤ s.t)) := by
  constructor
  · intro hk
    have hmin := head_le_of_pairwise _ p.first (keyTimes_pairwise p m) hk
    constructor
    · intro e he
      apply hmin
      unfold keyTimes
      rw [mem_sortedKeys]
      simp only [List.mem_cons, List.mem_append, List.mem_map]
      exact Or.inr (Or.inr (Or.inl ⟨(e.1, (e.2 : Rat)), List.mem_map.mpr ⟨e, he, rfl⟩, rfl⟩))
    · intro hm s hs
      apply hmin
      unfold keyTimes
      rw [mem_sortedKeys]
      simp only [List.mem_cons, List.mem_append, List.mem_map]
      refine Or.inr (Or.inr (Or.inr ⟨(s.t, factorOf m s), ?_, rfl⟩))
      rw [facAssign_eq m hm]
      exact List.mem_map.mpr ⟨s, hs, rfl⟩
  · rintro ⟨hq, ht⟩
    cases m with
    | quarter =>
      -- signatures play no role in the quarter map
      have hmem := first_mem_keyTimes p .quarter
      have hp := keyTimes_pairwise p .quarter
      have hall : ∀ x ∈ keyTimes p .quarter, p.first ≤ x := by
        intro x hx
        unfold keyTimes at hx
        rw [mem_sortedKeys] at hx
        simp only [facAssign, List.map_nil, List.append_nil, List.mem_cons, List.mem_map] at hx
        rcases hx with hx | hx | ⟨e, he, hx⟩
        · omega
        · omega
        · unfold qdAssign at he
          obtain ⟨e', he', rfl⟩ := List.mem_map.mp he
          have := hq e' he'
          simp only at hx
          omega
      cases hk : keyTimes p .quarter with
      | nil => rw [hk] at hmem; simp at hmem
      | cons a as =>
        rw [hk] at hmem hp hall
        have h1 := hall a List.mem_cons_self
        have h2 : a ≤ p.first := head_le_of_pairwise (a :: as) a hp rfl p.first hmem
        simp only [List.head?_cons, Option.some.injEq]
        omega
    | notated => exact first_key_is_first_point p .notated hl hq (ht (by decide))
    | musical => exact first_key_is_first_point p .musical hl hq (ht (by decide))

/-- **for a part built through the API the first key point is time 0**: the initial quarter duration is
stored at time 0 and no time is negative -/
theorem first_key_zero (p : Part) (m : Mode) (q0 : Nat) (h0 : (0, q0) ∈ p.qd)
    (hf : 0 ≤ p.first) (hl : p.first ≤ p.last) (hq : ∀ e ∈ p.qd, 0 ≤ e.1) (ht : ∀ s ∈ p.ts, 0 ≤ s.t) :
    (keyTimes p m).head? = some 0 := by
  have hmem : (0 : Int) ∈ keyTimes p m := by
    unfold keyTimes
    rw [mem_sortedKeys]
    simp only [List.mem_cons, List.mem_append, List.mem_map]
    exact Or.inr (Or.inr (Or.inl ⟨(0, (q0 : Rat)), List.mem_map.mpr ⟨(0, q0), h0, rfl⟩, rfl⟩))
  have hall : ∀ x ∈ keyTimes p m, 0 ≤ x := by
    intro x hx
    unfold keyTimes at hx
    rw [mem_sortedKeys] at hx
    simp only [List.mem_cons, List.mem_append, List.mem_map] at hx
    rcases hx with hx | hx | ⟨e, he, hx⟩ | ⟨e, he, hx⟩
    · omega
    · omega
    · unfold qdAssign at he
      obtain ⟨e', he', rfl⟩ := List.mem_map.mp he
      have := hq e' he'
      simp only at hx
      omega
    · cases m with
      | quarter => simp [facAssign] at he
      | notated =>
        simp only [facAssign] at he
        obtain ⟨s, hs, rfl⟩ := List.mem_map.mp he
        have := ht s hs
        simp only at hx
        omega
      | musical =>
        simp only [facAssign] at he
        obtain ⟨s, hs, rfl⟩ := List.mem_map.mp he
        have := ht s hs
        simp only at hx
        omega
  have hp := keyTimes_pairwise p m
  cases hk : keyTimes p m with
  | nil => rw [hk] at hmem; simp at hmem
  | cons a as =>
    rw [hk] at hmem hp hall
    have h1 := hall a List.mem_cons_self
    have h2 : a ≤ 0 := head_le_of_pairwise (a :: as) a hp rfl 0 hmem
    simp only [List.head?_cons, Option.some.injEq]
    omega

/-! ### all parts of a score share the origin -/

/-- **Common origin.**  Two parts with the same quarter durations and the same signatures (as the parts of
one score have), whose first key point is the same (time 0 for parts built through the API,
`first_key_zero`), have the same map at every position where both are defined, up to the difference of
their pickup shifts — whatever their first and last time points are.  In particular a part that enters
late gets, for a note sounding together with a note of another part, the same beat / quarter position;
this is why the origin is NOT moved to the part's own first time point (F-C02-1). -/
theorem origin_common_across_parts (p1 p2 : Part) (m : Mode) (h1 : WF p1 m) (h2 : WF p2 m)
    (hqd : p1.qd = p2.qd) (hts : p1.ts = p2.ts) (t0 : Int)
    (hk1 : (keyTimes p1 m).head? = some t0) (hk2 : (keyTimes p2 m).head? = some t0)
    (x y1 y2 : Rat) (hy1 : fwd p1 m x = some y1) (hy2 : fwd p2 m x = some y2) :
    y1 + pickupShift p1 m (knots (keypoints p1 m) 0) = y2 + pickupShift p2 m (knots (keypoints p2 m) 0) := by
  have v1 := fwd_value p1 m h1 t0 hk1 x y1 hy1
  have v2 := fwd_value p2 m h2 t0 hk2 x y2 hy2
  have d1 := (fwd_defined_iff p1 m h1 t0 hk1 x).mp ⟨y1, hy1⟩
  have d2 := (fwd_defined_iff p2 m h2 t0 hk2 x).mp ⟨y2, hy2⟩
  suffices hs : elapsed (keypoints p1 m) (t0 : Rat) x = elapsed (keypoints p2 m) (t0 : Rat) x by
    rw [v1, v2, hs]; ring
  -- the common refinement of the two key lists
  let qd := qdAssign p1.qd
  let fs := facAssign m p1.ts
  have hkp1 : keypoints p1 m = carry qd fs (keyTimes p1 m) 1 1 := rfl
  have hkp2 : keypoints p2 m = carry qd fs (keyTimes p2 m) 1 1 := by
    show carry (qdAssign p2.qd) (facAssign m p2.ts) _ 1 1 = _
    rw [← hqd, ← hts]
  have mem1 : ∀ t, t ∈ keyTimes p1 m ↔ t = p1.first ∨ t = p1.last ∨ t ∈ qd.map (·.1) ++ fs.map (·.1) := by
    intro t; unfold keyTimes; rw [mem_sortedKeys]; simp only [List.mem_cons]; rfl
  have mem2 : ∀ t, t ∈ keyTimes p2 m ↔ t = p2.first ∨ t = p2.last ∨ t ∈ qd.map (·.1) ++ fs.map (·.1) := by
    intro t; unfold keyTimes; rw [mem_sortedKeys, ← hqd, ← hts]; simp only [List.mem_cons]; rfl
  have un1 : ∀ t, t ∉ keyTimes p1 m → lastAssoc qd t = none ∧ lastAssoc fs t = none := by
    intro t ht
    constructor
    · by_contra hne; exact ht (keyTimes_contains_qd p1 m t hne)
    · by_contra hne; exact ht (keyTimes_contains_ts p1 m t hne)
  have un2 : ∀ t, t ∉ keyTimes p2 m → lastAssoc qd t = none ∧ lastAssoc fs t = none := by
    intro t ht
    constructor
    · by_contra hne; exact ht (keyTimes_contains_qd p2 m t (by rw [← hqd]; exact hne))
    · by_contra hne; exact ht (keyTimes_contains_ts p2 m t (by rw [← hts]; exact hne))
  have pw1 := keyTimes_pairwise p1 m
  have pw2 := keyTimes_pairwise p2 m
  have min1 := head_le_of_pairwise _ t0 pw1 hk1
  have min2 := head_le_of_pairwise _ t0 pw2 hk2
  -- insert last2 then first2 into the keys of part 1
  obtain ⟨e1, hh1, pwa⟩ := elapsed_insertKey qd fs (keyTimes p1 m) t0 p2.last pw1 hk1
    (min2 _ (last_mem_keyTimes p2 m)) (un1 _) (t0 : Rat) x (Or.inl d1.2)
  have hl2 : p2.last ∈ insertKey p2.last (keyTimes p1 m) := (mem_insertKey _ _ _).mpr (Or.inl rfl)
  obtain ⟨e1', _, pwa'⟩ := elapsed_insertKey qd fs (insertKey p2.last (keyTimes p1 m)) t0 p2.first pwa hh1
    (min2 _ (first_mem_keyTimes p2 m))
    (fun hn => un1 _ (fun hin => hn ((mem_insertKey _ _ _).mpr (Or.inr hin)))) (t0 : Rat) x
    (Or.inr (le_trans h2.2.1.le (le_lastOf _ pwa _ hl2)))
  -- insert last1 then first1 into the keys of part 2
  obtain ⟨e2, hh2, pwb⟩ := elapsed_insertKey qd fs (keyTimes p2 m) t0 p1.last pw2 hk2
    (min1 _ (last_mem_keyTimes p1 m)) (un2 _) (t0 : Rat) x (Or.inl d2.2)
  have hl1 : p1.last ∈ insertKey p1.last (keyTimes p2 m) := (mem_insertKey _ _ _).mpr (Or.inl rfl)
  obtain ⟨e2', _, pwb'⟩ := elapsed_insertKey qd fs (insertKey p1.last (keyTimes p2 m)) t0 p1.first pwb hh2
    (min1 _ (first_mem_keyTimes p1 m))
    (fun hn => un2 _ (fun hin => hn ((mem_insertKey _ _ _).mpr (Or.inr hin)))) (t0 : Rat) x
    (Or.inr (le_trans h1.2.1.le (le_lastOf _ pwb _ hl1)))
  -- both refinements are the same list
  have hU : insertKey p2.first (insertKey p2.last (keyTimes p1 m)) =
      insertKey p1.first (insertKey p1.last (keyTimes p2 m)) := by
    apply sorted_ext _ _ pwa' pwb'
    intro t
    simp only [mem_insertKey, mem1, mem2]
    tauto
  rw [hkp1, hkp2, ← e1, ← e1', ← e2, ← e2', hU]

/-- without pickups (or with equal pickups) the two maps are EQUAL on the common range -/
theorem common_origin_equal_shift (p1 p2 : Part) (m : Mode) (h1 : WF p1 m) (h2 : WF p2 m)
    (hqd : p1.qd = p2.qd) (hts : p1.ts = p2.ts) (t0 : Int)
    (hk1 : (keyTimes p1 m).head? = some t0) (hk2 : (keyTimes p2 m).head? = some t0)
    (hs : pickupShift p1 m (knots (keypoints p1 m) 0) = pickupShift p2 m (knots (keypoints p2 m) 0))
    (x y1 y2 : Rat) (hy1 : fwd p1 m x = some y1) (hy2 : fwd p2 m x = some y2) : y1 = y2 := by
  have := origin_common_across_parts p1 p2 m h1 h2 hqd hts t0 hk1 hk2 x y1 y2 hy1 hy2
  rw [hs] at this
  linarith

/-- the model's `mapDiff` (what the correspondence check compares with `map_1(x) - map_2(x)` of the
implementation) is the constant `shift_2 - shift_1` -/
theorem mapDiff_const (p1 p2 : Part) (m : Mode) (h1 : WF p1 m) (h2 : WF p2 m)
    (hqd : p1.qd = p2.qd) (hts : p1.ts = p2.ts) (t0 : Int)
    (hk1 : (keyTimes p1 m).head? = some t0) (hk2 : (keyTimes p2 m).head? = some t0)
    (x d : Rat) (hd : mapDiff p1 p2 m x = some d) :
    d = pickupShift p2 m (knots (keypoints p2 m) 0) - pickupShift p1 m (knots (keypoints p1 m) 0) := by
  unfold mapDiff at hd
  cases hy1 : fwd p1 m x with
  | none => rw [hy1] at hd; cases hd
  | some y1 =>
    cases hy2 : fwd p2 m x with
    | none => rw [hy1, hy2] at hd; cases hd
    | some y2 =>
      rw [hy1, hy2] at hd
      simp only [Option.some.injEq] at hd
      have := origin_common_across_parts p1 p2 m h1 h2 hqd hts t0 hk1 hk2 x y1 y2 hy1 hy2
      linarith

/-- non-vacuity: the late-starting part of F-C02-1 and a part of the same score that starts at 0 -/
def earlyStart : Part :=
  { npoints := 5, first := 0, last := 36, qd := [(0, 4)], ts := [⟨8, 3, 4, 3⟩], m1 := none, musical := false }

example : WF earlyStart .notated ∧ WF lateStart .notated ∧ earlyStart.qd = lateStart.qd ∧
    earlyStart.ts = lateStart.ts ∧ (keyTimes earlyStart .notated).head? = some 0 ∧
    (keyTimes lateStart .notated).head? = some 0 ∧
    fwd earlyStart .notated 20 = some 5 ∧ fwd lateStart .notated 20 = some 5 ∧
    mapDiff earlyStart { lateStart with m1 := some (8, 12) } .notated 20 = some 1 := by decide +kernel

end C02
