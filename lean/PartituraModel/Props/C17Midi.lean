/-
C17 (round 6): the MIDI score importer around the three estimators - "a score imported from MIDI therefore contains
exactly the file's pitches", from the MESSAGES of the file to the notes of the parts of the score
(Model/C17Midi.lean mirrors `load_score_midi`, `assign_group_part_voice`, the zip that feeds `create_part`; the tie to
the code is the stream `midix` of drv_c17 and Gen/C17MidiTables.lean, regenerated from importmidi.py on every run).
-/
import PartituraModel.Proofs.C17Midi
import PartituraModel.Proofs.Round
import PartituraModel.Props.C17Float
import PartituraModel.Props.C17Search
import PartituraModel.Props.C17Options

namespace C17
open Model Model.C17Midi Gen C17M

/-- every literal of importmidi.py the model uses was read from the live source (none is pinned) -/
theorem midi_tables_extracted : C17MIDI_PINNED = [] := by decide

/-- WHOLE table of the regenerated `note_hash` (16 channels × 128 notes): two different keys of a track never share an
    entry of `sounding_notes` -/
theorem note_hash_injective (c n c' n' : Nat) (hc : c < 16) (hn : n < 128) (hc' : c' < 16) (hn' : n' < 128)
    (h : noteHash c n = noteHash c' n') : c = c' ∧ n = n' := hash_inj hc hn hc' hn' h

/-- whole tables: each of the six documented modes has a branch in `assign_group_part_voice`, the default mode is one of
    them, note-on and note-off messages are not skipped by the loop, and a tempo message is -/
theorem midi_dispatch_tables :
    (∀ m ∈ [0, 1, 2, 3, 4, 5], m ∈ MIDI_MODES) ∧ MIDI_DEFAULT_MODE ≤ 5 ∧
    "note_on" ∈ MIDI_RELEVANT ∧ "note_off" ∈ MIDI_RELEVANT ∧ "set_tempo" ∈ MIDI_RELEVANT := by decide

/-- `quantize`: the answer is a multiple of the unit and a nearest one (no further than half a unit from the time) -/
theorem quantize_nearest (u t : Nat) (hu : 0 < u) :
    (u : Int) ∣ quantT (some u) t ∧ |((quantT (some u) t : Int) : Rat) - t| ≤ (u : Rat) / 2 := by
  obtain ⟨k, rfl⟩ : ∃ k, u = k + 1 := ⟨u - 1, by omega⟩
  simp only [quantT]
  refine ⟨Dvd.intro _ rfl, ?_⟩
  have h := Round.roundHalfEven_close (((t : Nat) : Rat) / ((k + 1 : Nat) : Rat))
  have hpos : (0 : Rat) < ((k + 1 : Nat) : Rat) := by exact_mod_cast Nat.succ_pos k
  have e : (((((k + 1 : Nat) : Int) * roundHalfEven ((t : Rat) / ((k + 1 : Nat) : Rat)) : Int) : Rat) - (t : Rat)) =
      ((k + 1 : Nat) : Rat) * (((roundHalfEven ((t : Rat) / ((k + 1 : Nat) : Rat)) : Int) : Rat) - (t : Rat) / ((k + 1 : Nat) : Rat)) := by
    push_cast
    field_simp
  rw [e, abs_mul, abs_of_pos hpos]
  calc ((k + 1 : Nat) : Rat) * |((roundHalfEven ((t : Rat) / ((k + 1 : Nat) : Rat)) : Int) : Rat) - (t : Rat) / ((k + 1 : Nat) : Rat)|
      ≤ ((k + 1 : Nat) : Rat) * (1 / 2) := mul_le_mul_of_nonneg_left h hpos.le
    _ = ((k + 1 : Nat) : Rat) / 2 := by ring

/-- `quantize` never reorders two times: a note-off is never quantized before its note-on (no negative duration) -/
theorem quantize_monotone (qu : Option Nat) (t t' : Nat) (h : t ≤ t') : quantT qu t ≤ quantT qu t' := by
  unfold quantT
  split
  · exact_mod_cast h
  · exact_mod_cast h
  · rename_i u hu
    have hpos : (0 : Rat) < (u : Rat) := by
      have : u ≠ 0 := fun e => hu (by rw [e])
      exact_mod_cast Nat.pos_of_ne_zero this
    apply Int.mul_le_mul_of_nonneg_left
    · apply Round.roundHalfEven_mono
      apply div_le_div_of_nonneg_right _ hpos.le
      exact_mod_cast h
    · exact_mod_cast Nat.zero_le u

/-- the message loop of a track: when the messages form complete notes (`WellPaired`: every note-on finds its key
    (channel, note) silent, every note-off - written either way - finds it sounding, nothing is left sounding; any other
    message anywhere), the track yields exactly one note per note-on, with that note-on's pitch - for every
    quantization unit -/
theorem track_one_note_per_note_on (qu : Option Nat) (ms : List Msg) (hw : WellPaired [] ms) :
    (pitches (flatNotes (runTrack qu ms))).Perm (onPitches ms) := track_pitches qu ms hw

def mOn (dt ch n : Nat) : Msg := { type := "note_on", dt := dt, ch := ch, note := n, vel := 64 }
def mOff (dt ch n : Nat) : Msg := { type := "note_off", dt := dt, ch := ch, note := n, vel := 0 }

/-- the hypothesis is satisfiable: a chord C-E on two channels, a control change between the note-offs, the second
    note-off written as a note-on with velocity 0 -/
example : WellPaired [] [mOn 0 0 60, mOn 0 1 64, mOff 4 0 60,
    { type := "control_change", dt := 0, ch := 0, note := 0, vel := 0 }, { mOn 0 1 64 with vel := 0 }] := by
  refine .on _ _ _ (by decide) (by decide) (by decide) (by decide) ?_
  refine .on _ _ _ (by decide) (by decide) (by decide) (by decide) ?_
  refine .off _ _ _ (by decide) (by decide) ?_
  refine .skip _ _ _ (by decide) (by decide) ?_
  refine .off _ _ _ (by decide) (by decide) ?_
  exact .nil

example : (runTrack none [mOn 0 0 60, mOn 0 1 64, mOff 4 0 60, { mOn 0 1 64 with vel := 0 }]).notes =
    [(0, [(0, 60, 4)]), (1, [(0, 64, 4)])] := by decide

/-- without it the claim fails, in the model as in the code: a second note-on of a sounding key overwrites the first
    onset, and two note-ons yield one note -/
example : flatNotes (runTrack none [mOn 0 0 60, mOn 2 0 60, mOff 2 0 60, mOff 2 0 60]) = [(2, 60, 2)] := by decide

/-- the array handed to the three estimators (`note_list`, the notes of the sorted (track, channel) keys one after the
    other) holds exactly the notes the tracks completed: nothing lost, nothing twice -/
theorem note_list_complete (qu : Option Nat) (tracks : List (List Msg)) :
    ∃ perKey, perKeyNotes (notesByTrackCh qu tracks) = some perKey ∧
      (noteList perKey).Perm (tracks.flatMap fun tr => flatNotes (runTrack qu tr)) := by
  obtain ⟨perKey, h⟩ := perKey_total (notesByTrackCh qu tracks)
  exact ⟨perKey, h, noteList_perm qu tracks perKey h⟩

/-- `assign_group_part_voice`: in each of the six documented modes every (track, channel) key is given a part, and there
    is one answer per key -/
theorem assign_total (mode : Nat) (hm : mode ≤ 5) (keys : List Key) :
    (assign mode keys).length = keys.length ∧ ∀ g ∈ assign mode keys, g.2.1.isSome :=
  ⟨assign_length mode keys, assign_part_some mode hm keys⟩

/-- an undocumented mode gives no key a part (and `load_score_midi` then raises) -/
example : assign 6 [(0, 0), (0, 3)] = [(none, none, none), (none, none, none)] := by decide

example : assign 0 [(0, 0), (0, 3), (1, 3)] = [(none, some 0, some 1), (none, some 0, some 2), (none, some 1, some 1)] := by
  decide

example : assign 1 [(0, 0), (0, 3), (1, 3)] = [(some 0, some 0, none), (some 0, some 1, none), (some 1, some 2, none)] := by
  decide

/-- the routing into parts (`notes_by_part`, part groups, `Score.parts`): every note handed over ends up in exactly one
    part of the score -/
theorem routing_keeps_notes (gpv : List (Option Nat × Option Nat × Option Nat)) (key : Option String) (items : List Item)
    (parts : List PartOut) (h : routeParts gpv key items = some parts) :
    (parts.flatMap (·.notes)).Perm (items.map (·.note)) := routeParts_perm gpv key items parts h

/-- the notes of all parts of the imported score: their pitches are the pitches of the file's note-ons, and every note
    is spelled so that it sounds its pitch -/
theorem midi_import_exact_pitches (mode : Nat) (qu : Option Nat) (estV estK ids : Bool) (tracks : List (List Msg)) (parts : List PartOut)
    (hw : ∀ tr ∈ tracks, WellPaired [] tr)
    (h : loadScoreMidi mode qu estV estK ids tracks = some parts) :
    ((parts.flatMap (·.notes)).map (·.pitch)).Perm (tracks.flatMap onPitches) ∧
    ∀ n ∈ parts.flatMap (·.notes), sounding (n.step, n.alter, n.octave) = some n.pitch := by
  unfold loadScoreMidi at h
  simp only [Option.bind_eq_some_iff] at h
  obtain ⟨perKey, hperKey, sp, hsp, voices, hvoices, key, hkey, partsL, hparts, hroute⟩ := h
  have hnl := noteList_perm qu tracks perKey hperKey
  have hpit : ((noteList perKey).map (·.2.1)).Perm (tracks.flatMap onPitches) := by
    refine (hnl.map _).trans ?_
    rw [List.map_flatMap]
    exact List.Perm.flatMap_left _ (fun tr htr => track_pitches qu tr (hw tr htr))
  have hrange : ∀ r ∈ (noteList perKey).map (fun n => (((n.1 : Int) : Rat), n.2.1)), 0 ≤ r.2 ∧ r.2 ≤ 127 := by
    intro r hr
    obtain ⟨n, hn, rfl⟩ := List.mem_map.mp hr
    have : n.2.1 ∈ tracks.flatMap onPitches := hpit.subset (List.mem_map.mpr ⟨n, hn, rfl⟩)
    obtain ⟨tr, htr, hp⟩ := List.mem_flatMap.mp this
    exact wellPaired_range [] tr (hw tr htr) _ hp
  obtain ⟨hsplen, hsound⟩ := spelling_sounds_binary64 _ _ _ sp hrange hsp
  simp only [List.length_map] at hsplen
  have hperlen : perKey.length = (sortedKeys (notesByTrackCh qu tracks)).length := mapM_length _ _ _ hperKey
  have hpvl := pvl_length (assign mode (sortedKeys (notesByTrackCh qu tracks))) perKey (by rw [assign_length, hperlen])
  have hvl := voicesOf_length _ _ _ _ hvoices
  have hpl := mapM_length _ _ _ hparts
  have hcore := mkItems_core ids partsL (noteList perKey) voices sp (by omega) (by omega) hsplen
  have hperm := routeParts_perm _ _ _ _ hroute
  constructor
  · refine (hperm.map _).trans ?_
    have : ((mkItems ids partsL (noteList perKey) voices sp).map (·.note)).map (·.pitch) =
        (noteList perKey).map (·.2.1) := by
      have := congrArg (List.map (·.1)) hcore
      simp only [List.map_map] at this ⊢
      refine this.trans ?_
      have hz : ((noteList perKey).zip sp).map (·.1) = noteList perKey :=
        List.map_fst_zip (by omega)
      conv_rhs => rw [← hz]
      simp [List.map_map, Function.comp_def]
    rw [this]
    exact hpit
  · intro n hn
    have hn' : n ∈ (mkItems ids partsL (noteList perKey) voices sp).map (·.note) := hperm.subset hn
    have : (n.pitch, n.step, n.alter, n.octave) ∈
        ((noteList perKey).zip sp).map fun x => (x.1.2.1, x.2.1, x.2.2.1, x.2.2.2) := by
      rw [← hcore]
      obtain ⟨it, hit, rfl⟩ := List.mem_map.mp hn'
      exact List.mem_map.mpr ⟨it, hit, rfl⟩
    obtain ⟨x, hx, hxe⟩ := List.mem_map.mp this
    obtain ⟨i, hi, hxi⟩ := List.mem_iff_getElem.mp hx
    have hi' : i < (noteList perKey).length := by simp at hi; omega
    obtain ⟨s, hs, hss⟩ := hsound i (by simpa using hi')
    have hx1 : x.1 = (noteList perKey)[i] := by rw [← hxi]; simp
    have hx2 : x.2 = s := by
      rw [← hxi]
      simp only [List.getElem_zip]
      rw [List.getElem?_eq_getElem (by omega)] at hs
      exact Option.some.inj hs
    simp only [Prod.mk.injEq] at hxe
    obtain ⟨e1, e2, e3, e4⟩ := hxe
    rw [← e1, ← e2, ← e3, ← e4, hx1, hx2]
    simpa using hss

/-- totality: a file whose tracks form complete notes and that has at least one note is imported in each of the six
    documented modes, whatever the quantization unit and the three switches - nothing raises (ps13 and the modelled
    VoSA are total on a non-empty array, the key estimate always exists, every key has a part, every part a group entry) -/
theorem midi_import_total (mode : Nat) (hm : mode ≤ 5) (qu : Option Nat) (estV estK ids : Bool) (tracks : List (List Msg))
    (hw : ∀ tr ∈ tracks, WellPaired [] tr) (hne : tracks.flatMap onPitches ≠ []) :
    ∃ parts, loadScoreMidi mode qu estV estK ids tracks = some parts := by
  obtain ⟨perKey, hperKey, hnl⟩ := note_list_complete qu tracks
  have hpit : ((noteList perKey).map (·.2.1)).Perm (tracks.flatMap onPitches) := by
    refine (hnl.map _).trans ?_
    rw [List.map_flatMap]
    exact List.Perm.flatMap_left _ (fun tr htr => track_pitches qu tr (hw tr htr))
  have hnlne : noteList perKey ≠ [] := by
    intro e
    rw [e] at hpit
    exact hne (List.Perm.eq_nil (hpit.symm))
  have hperlen : perKey.length = (sortedKeys (notesByTrackCh qu tracks)).length := mapM_length _ _ _ hperKey
  have hpvl := pvl_length (assign mode (sortedKeys (notesByTrackCh qu tracks))) perKey (by rw [assign_length, hperlen])
  -- spelling
  obtain ⟨sp, hsp⟩ : ∃ sp, C17Float.ps13F PS13_K_PRE PS13_K_POST ((noteList perKey).map fun n => (((n.1 : Int) : Rat), n.2.1)) = some sp := by
    unfold C17Float.ps13F
    rw [if_neg (by simpa using hnlne)]
    exact ⟨_, rfl⟩
  -- voices
  obtain ⟨voices, hvoices⟩ : ∃ v, voicesOf estV (partVoiceList (assign mode (sortedKeys (notesByTrackCh qu tracks))) perKey)
      (noteList perKey) = some v := by
    unfold voicesOf
    cases estV with
    | false => exact ⟨_, rfl⟩
    | true =>
      obtain ⟨out, ho, hlen, _⟩ := voices_total_exact MIDI_ESTIMATE_VOICES_MONO
        ((noteList perKey).map fun n => (n.2.1, ((n.1 : Int) : Rat), ((n.2.2 : Int) : Rat))) (by simpa using hnlne)
      simp only [if_true, ho, Option.bind_some]
      rw [if_neg (by simp only [List.length_map] at hlen; simp; omega)]
      exact ⟨_, rfl⟩
  -- key
  obtain ⟨key, hkey⟩ : ∃ k, keyOf estK (noteList perKey) = some k := by
    unfold keyOf
    cases estK with
    | false => exact ⟨_, rfl⟩
    | true =>
      obtain ⟨ps, hps⟩ : ∃ ps, C17Wrap.estimateKeySet none = some ps := ⟨.kk, by decide⟩
      obtain ⟨nm, hnm, _⟩ := key_estimate_valid ps ((noteList perKey).map fun n => (n.2.1, ((n.2.2 : Int) : Rat)))
      exact ⟨some nm, by simp [hps, key_fast_path, hnm]⟩
  -- parts
  obtain ⟨partsL, hparts⟩ := mapM_total (fun x : Option Nat × Option Nat => x.1)
    (partVoiceList (assign mode (sortedKeys (notesByTrackCh qu tracks))) perKey) (by
      intro x hx
      obtain ⟨g, hg, hgx⟩ := List.mem_map.mp (pvl_parts _ _ x hx)
      rw [← hgx]
      exact assign_part_some mode hm _ g hg)
  obtain ⟨parts, hroute⟩ := routeParts_total (assign mode (sortedKeys (notesByTrackCh qu tracks))) key
    (mkItems ids partsL (noteList perKey) voices sp) (by
      intro it hit
      have hp : it.part ∈ partsL := mkItems_parts _ _ _ _ _ _ (List.mem_map.mpr ⟨it, hit, rfl⟩)
      obtain ⟨x, hx, hxe⟩ := mapM_mem _ _ _ hparts _ hp
      rw [← hxe]
      exact pvl_parts _ _ x hx)
  exact ⟨parts, by simp [loadScoreMidi, hperKey, hsp, hvoices, hkey, hparts, hroute]⟩

/-- the property's sentence end to end: a MIDI file whose tracks form complete notes (valid data bytes), any of the six
    modes, any quantization unit, voices / key estimated or not, ids or not: the import succeeds, the pitches of the
    notes of the parts of the score are EXACTLY the pitches of the file's note-ons (as multisets), and every note's
    spelling sounds its pitch -/
theorem midi_score_has_exactly_the_files_pitches (mode : Nat) (hm : mode ≤ 5) (qu : Option Nat) (estV estK ids : Bool)
    (tracks : List (List Msg)) (hw : ∀ tr ∈ tracks, WellPaired [] tr) (hne : tracks.flatMap onPitches ≠ []) :
    ∃ parts, loadScoreMidi mode qu estV estK ids tracks = some parts ∧
      ((parts.flatMap (·.notes)).map (·.pitch)).Perm (tracks.flatMap onPitches) ∧
      ∀ n ∈ parts.flatMap (·.notes), sounding (n.step, n.alter, n.octave) = some n.pitch := by
  obtain ⟨parts, h⟩ := midi_import_total mode hm qu estV estK ids tracks hw hne
  exact ⟨parts, h, midi_import_exact_pitches mode qu estV estK ids tracks parts hw h⟩

/-- a file without a single completed note is rejected: its tracks complete nothing, and the estimators raise on the empty
    array (`spelling_total`, `voices_modelled_empty`) -/
example : (runTrack none [{ type := "text", dt := 3, ch := 0, note := 0, vel := 0 }, mOff 1 0 60]).notes = [] ∧
    C17Float.ps13F PS13_K_PRE PS13_K_POST [] = none := by decide


-- ------------------------------------------------------------------ durations, undocumented modes


theorem mem_appendAt_flat {κ α : Type} [DecidableEq κ] (d : List (κ × List α)) (k : κ) (x y : α)
    (h : y ∈ (appendAt d k x).flatMap (·.2)) : y ∈ d.flatMap (·.2) ∨ y = x := by
  have := (appendAt_flat d k x).subset h
  rcases List.mem_append.mp this with a | a
  · exact Or.inl a
  · exact Or.inr (by simpa using a)

/-- invariant of the message loop: no remembered onset lies after the (quantized) current time, and no completed note
    has a negative duration -/
def TimeInv (qu : Option Nat) (st : TrackSt) : Prop :=
  (∀ k t0, lookup k st.sounding = some t0 → t0 ≤ quantT qu st.t) ∧ ∀ n ∈ flatNotes st, 0 ≤ n.2.2

theorem step_cases (qu : Option Nat) (st : TrackSt) (m : Msg) :
    step qu st m = { st with t := st.t + m.dt } ∨
    (∃ h, step qu st m = { t := st.t + m.dt, sounding := dictSet st.sounding h (quantT qu (st.t + m.dt)), notes := st.notes }) ∨
    (∃ h t0, lookup h st.sounding = some t0 ∧
      step qu st m = { t := st.t + m.dt, sounding := dictDel st.sounding h,
                       notes := appendAt st.notes m.ch (t0, (m.note : Int), quantT qu (st.t + m.dt) - t0) }) := by
  unfold step
  dsimp only
  repeat' split
  all_goals first
    | exact Or.inl rfl
    | exact Or.inr (Or.inl ⟨_, rfl⟩)
    | exact Or.inr (Or.inr ⟨_, _, ‹_›, rfl⟩)

theorem step_timeInv (qu : Option Nat) (st : TrackSt) (m : Msg) (h : TimeInv qu st) : TimeInv qu (step qu st m) := by
  obtain ⟨h1, h2⟩ := h
  have hmono : quantT qu st.t ≤ quantT qu (st.t + m.dt) := quantize_monotone qu _ _ (Nat.le_add_right _ _)
  rcases step_cases qu st m with e | ⟨hh, e⟩ | ⟨hh, t0', ht0', e⟩
  · rw [e]; exact ⟨fun k t0 hk => le_trans (h1 k t0 hk) hmono, h2⟩
  · rw [e]
    refine ⟨?_, h2⟩
    intro k t0 hk
    simp only [lookup_dictSet] at hk
    split at hk
    · simp only [Option.some.injEq] at hk; rw [← hk]
    · exact le_trans (h1 k t0 hk) hmono
  · rw [e]
    refine ⟨?_, ?_⟩
    · intro k t0 hk
      simp only [lookup_dictDel] at hk
      split at hk
      · simp at hk
      · exact le_trans (h1 k t0 hk) hmono
    · intro n hn
      rcases mem_appendAt_flat _ _ _ _ hn with a | a
      · exact h2 n a
      · rw [a]
        have := le_trans (h1 _ t0' ht0') hmono
        simp only
        omega

/-- no note of a track has a negative duration, whatever the messages and the quantization unit (a note whose ends are
    quantized to the same tick has duration 0 and becomes a grace note) -/
theorem track_durations_nonneg (qu : Option Nat) (ms : List Msg) : ∀ n ∈ flatNotes (runTrack qu ms), 0 ≤ n.2.2 := by
  unfold runTrack
  suffices h : ∀ st, TimeInv qu st → TimeInv qu (ms.foldl (step qu) st) from
    (h {} ⟨by intro k t0 hk; simp [lookup] at hk, by intro n hn; simp [flatNotes] at hn⟩).2
  induction ms with
  | nil => intro st h; exact h
  | cons m ms ih => intro st h; exact ih _ (step_timeInv qu st m h)

theorem assign_invalid (mode : Nat) (hm : 5 < mode) (keys : List Key) : ∀ g ∈ assign mode keys, g.2.1 = none := by
  have hstep : ∀ st k, assignStep mode st k = st := by
    intro st k
    unfold assignStep
    simp only [show mode ≠ 0 by omega, show mode ≠ 1 by omega, show mode ≠ 2 by omega, show mode ≠ 3 by omega,
      show mode ≠ 4 by omega, show mode ≠ 5 by omega, if_false]
  have hfold : ∀ (ks : List Key) (st : AssignSt), ks.foldl (assignStep mode) st = st := by
    intro ks
    induction ks with
    | nil => intro st; rfl
    | cons k ks ih => intro st; simp only [List.foldl_cons, hstep, ih]
  intro g hg
  unfold assign at hg
  obtain ⟨k, _, rfl⟩ := List.mem_map.mp hg
  simp [hfold, lookup]

/-- a mode outside the six documented ones is rejected (no key is given a part, and `part_nr + 1` raises) - whatever
    the file -/
theorem midi_import_invalid_mode (mode : Nat) (hm : 5 < mode) (qu : Option Nat) (estV estK ids : Bool)
    (tracks : List (List Msg)) : loadScoreMidi mode qu estV estK ids tracks = none := by
  cases hres : loadScoreMidi mode qu estV estK ids tracks with
  | none => rfl
  | some parts =>
    exfalso
    unfold loadScoreMidi at hres
    simp only [Option.bind_eq_some_iff] at hres
    obtain ⟨perKey, hperKey, sp, hsp, voices, hvoices, key, hkey, partsL, hparts, hroute⟩ := hres
    have hnl : noteList perKey ≠ [] := by
      intro e
      rw [e] at hsp
      simp [C17Float.ps13F] at hsp
    have hperlen : perKey.length = (sortedKeys (notesByTrackCh qu tracks)).length := mapM_length _ _ _ hperKey
    have hpvl := pvl_length (assign mode (sortedKeys (notesByTrackCh qu tracks))) perKey (by rw [assign_length, hperlen])
    have hpl := mapM_length _ _ _ hparts
    have hlen : 0 < partsL.length := by
      have : 0 < (noteList perKey).length := List.length_pos_of_ne_nil hnl
      omega
    obtain ⟨b, hb⟩ : ∃ b, b ∈ partsL := ⟨partsL[0], List.getElem_mem _⟩
    obtain ⟨x, hx, hxe⟩ := mapM_mem _ _ _ hparts b hb
    obtain ⟨g, hg, hgx⟩ := List.mem_map.mp (pvl_parts _ _ x hx)
    have := assign_invalid mode hm _ g hg
    rw [this] at hgx
    rw [← hgx] at hxe
    simp at hxe


-- ------------------------------------------------------------------ the voice clause on the MIDI path


theorem zip4v {α β γ δ : Type} : ∀ (nl : List β) (ps : List α) (vs : List γ) (sp : List δ),
    ps.length = nl.length → vs.length = nl.length → sp.length = nl.length →
    ((ps.zip nl).zip (vs.zip sp)).map (fun x => x.2.1) = vs := by
  intro nl
  induction nl with
  | nil => intro ps vs sp h1 h2 h3; cases vs <;> simp_all
  | cons n nl ih =>
    intro ps vs sp h1 h2 h3
    cases ps with
    | nil => simp at h1
    | cons p ps =>
      cases vs with
      | nil => simp at h2
      | cons v vs =>
        cases sp with
        | nil => simp at h3
        | cons s sp =>
          simp only [List.zip_cons_cons, List.map_cons, List.cons.injEq, true_and]
          exact ih ps vs sp (by simpa using h1) (by simpa using h2) (by simpa using h3)

theorem mkItems_voices (ids : Bool) (parts : List Nat) (nl : List Note3) (voices : List (Option Int))
    (sp : List (String × Int × Int)) (h1 : parts.length = nl.length) (h2 : voices.length = nl.length)
    (h3 : sp.length = nl.length) :
    (mkItems ids parts nl voices sp).map (fun it => it.note.voice) = voices.map (·.getD 0) := by
  conv_rhs => rw [← zip4v nl parts voices sp h1 h2 h3]
  unfold mkItems
  simp only [List.map_map]
  generalize (parts.zip nl).zip (voices.zip sp) = Z
  suffices h : ∀ k, (Z.zipIdx k).map ((fun it : Item => it.note.voice) ∘
      fun x : ((Nat × Note3) × (Option Int × (String × Int × Int))) × Nat =>
        ({ part := x.1.1.1,
           note := { onset := x.1.1.2.1, pitch := x.1.1.2.2.1, dur := x.1.1.2.2.2, voice := x.1.2.1.getD 0, step := x.1.2.2.1,
                     alter := x.1.2.2.2.1, octave := x.1.2.2.2.2, idx := x.2,
                     id := if ids then some (fmt1 MIDI_NOTE_ID_FORMAT x.2) else none } } : Item)) =
      Z.map ((fun v : Option Int => v.getD 0) ∘ fun x : (Nat × Note3) × (Option Int × (String × Int × Int)) => x.2.1) from h 0
  induction Z with
  | nil => intro k; rfl
  | cons z Z ih => intro k; simp [List.zipIdx_cons, ih (k + 1)]

/-- modes 1, 3, 4 and 5 assign no voice -/
theorem assign_no_voice (mode : Nat) (hm : mode = 1 ∨ mode = 3 ∨ mode = 4 ∨ mode = 5) (keys : List Key) :
    ∀ g ∈ assign mode keys, g.2.2 = none := by
  have hstep : ∀ st k, (assignStep mode st k).voice = st.voice := by
    intro st k
    rcases hm with h | h | h | h <;> subst h <;> simp [assignStep]
  have hfold : ∀ (ks : List Key) (st : AssignSt), (ks.foldl (assignStep mode) st).voice = st.voice := by
    intro ks
    induction ks with
    | nil => intro st; rfl
    | cons k ks ih => intro st; simp only [List.foldl_cons, ih, hstep]
  intro g hg
  unfold assign at hg
  obtain ⟨k, _, rfl⟩ := List.mem_map.mp hg
  simp [hfold, lookup]

theorem pvl_voices (gpv : List (Option Nat × Option Nat × Option Nat)) (perKey : List (List Note3)) :
    ∀ x ∈ partVoiceList gpv perKey, x.2 ∈ gpv.map (·.2.2) := by
  intro x hx
  unfold partVoiceList at hx
  obtain ⟨y, hy, hx⟩ := List.mem_flatMap.mp hx
  obtain ⟨_, _, rfl⟩ := List.mem_map.mp hx
  exact List.mem_map.mpr ⟨y.1, (List.of_mem_zip hy).1, rfl⟩

theorem voicesOf_est (pvl : List (Option Nat × Option Nat)) (nl : List Note3) (v : List (Option Int))
    (hnone : ∀ x ∈ pvl, x.2 = none) (h : voicesOf true pvl nl = some v) :
    ∃ est, Vosa.estimateVoicesExact MIDI_ESTIMATE_VOICES_MONO (nl.map fun n => (n.2.1, ((n.1 : Int) : Rat), ((n.2.2 : Int) : Rat))) = some est ∧
      v = est.map some := by
  unfold voicesOf at h
  simp only [if_true, Option.bind_eq_some_iff] at h
  obtain ⟨est, hest, h⟩ := h
  refine ⟨est, hest, ?_⟩
  split at h
  · simp at h
  · rename_i hl
    simp only [ne_eq, Decidable.not_not] at hl
    simp only [Option.some.injEq] at h
    subst h
    have : ∀ (pvl : List (Option Nat × Option Nat)) (est : List Int), (∀ x ∈ pvl, x.2 = none) → est.length = pvl.length →
        (pvl.zip est).map (fun x => match x.1.2 with | none => some x.2 | some v => some (v : Int)) = est.map some := by
      intro pvl
      induction pvl with
      | nil => intro est _ hl; cases est <;> simp_all
      | cons p ps ih =>
        intro est hn hl
        cases est with
        | nil => simp at hl
        | cons e es =>
          have hp := hn p List.mem_cons_self
          simp only [List.zip_cons_cons, List.map_cons, hp, List.cons.injEq, true_and]
          exact ih es (fun x hx => hn x (List.mem_cons_of_mem _ hx)) (by simpa using hl)
    exact this pvl est hnone hl

/-- the voice clause of the property on the MIDI path: with `estimate_voice_info=True` in the modes that leave the voice
    open (1, 3, 4, 5), every note of the score carries the voice the modelled VoSA estimated - positive, and the voice
    numbers used in the score are exactly 1..k -/
theorem midi_voices_from_one (mode : Nat) (hm : mode = 1 ∨ mode = 3 ∨ mode = 4 ∨ mode = 5) (qu : Option Nat) (estK ids : Bool)
    (tracks : List (List Msg)) (parts : List PartOut) (hw : ∀ tr ∈ tracks, WellPaired [] tr)
    (h : loadScoreMidi mode qu true estK ids tracks = some parts) :
    (∀ n ∈ parts.flatMap (·.notes), 1 ≤ n.voice) ∧
    ∃ k : Int, ∀ x, (∃ n ∈ parts.flatMap (·.notes), n.voice = x) ↔ 1 ≤ x ∧ x ≤ k := by
  have hh := h
  unfold loadScoreMidi at h
  simp only [Option.bind_eq_some_iff] at h
  obtain ⟨perKey, hperKey, sp, hsp, voices, hvoices, key, hkey, partsL, hparts, hroute⟩ := h
  have hnl := noteList_perm qu tracks perKey hperKey
  have hpit : ((noteList perKey).map (·.2.1)).Perm (tracks.flatMap onPitches) := by
    refine (hnl.map _).trans ?_
    rw [List.map_flatMap]
    exact List.Perm.flatMap_left _ (fun tr htr => track_pitches qu tr (hw tr htr))
  have hrange : ∀ r ∈ (noteList perKey).map (fun n => (((n.1 : Int) : Rat), n.2.1)), 0 ≤ r.2 ∧ r.2 ≤ 127 := by
    intro r hr
    obtain ⟨n, hn, rfl⟩ := List.mem_map.mp hr
    have : n.2.1 ∈ tracks.flatMap onPitches := hpit.subset (List.mem_map.mpr ⟨n, hn, rfl⟩)
    obtain ⟨tr, htr, hp⟩ := List.mem_flatMap.mp this
    exact wellPaired_range [] tr (hw tr htr) _ hp
  obtain ⟨hsplen, _⟩ := spelling_sounds_binary64 _ _ _ sp hrange hsp
  simp only [List.length_map] at hsplen
  have hnlne : noteList perKey ≠ [] := by
    intro e; rw [e] at hsp; simp [C17Float.ps13F] at hsp
  have hperlen : perKey.length = (sortedKeys (notesByTrackCh qu tracks)).length := mapM_length _ _ _ hperKey
  have hpvl := pvl_length (assign mode (sortedKeys (notesByTrackCh qu tracks))) perKey (by rw [assign_length, hperlen])
  have hvl := voicesOf_length _ _ _ _ hvoices
  have hpl := mapM_length _ _ _ hparts
  obtain ⟨est, hest, hv⟩ := voicesOf_est _ _ _ (by
    intro x hx
    obtain ⟨g, hg, hgx⟩ := List.mem_map.mp (pvl_voices _ _ x hx)
    rw [← hgx]; exact assign_no_voice mode hm _ g hg) hvoices
  obtain ⟨out, ho, _, hpos, k, hk⟩ := voices_total_exact MIDI_ESTIMATE_VOICES_MONO
    ((noteList perKey).map fun n => (n.2.1, ((n.1 : Int) : Rat), ((n.2.2 : Int) : Rat))) (by simpa using hnlne)
  rw [hest] at ho
  simp only [Option.some.injEq] at ho
  subst ho
  have hvoice := mkItems_voices ids partsL (noteList perKey) voices sp (by omega) (by omega) hsplen
  have hperm := (routeParts_perm _ _ _ _ hroute).map (·.voice)
  have hvs : ((parts.flatMap (·.notes)).map (·.voice)).Perm est := by
    refine hperm.trans ?_
    rw [List.map_map] 
    have : (mkItems ids partsL (noteList perKey) voices sp).map ((fun n : NoteOut => n.voice) ∘ fun it => it.note) = est := by
      have h2 : voices.map (·.getD 0) = est := by rw [hv]; simp [List.map_map, Function.comp_def]
      rw [← h2, ← hvoice]
      rfl
    rw [this]
  constructor
  · intro n hn
    exact hpos _ (hvs.subset (List.mem_map.mpr ⟨n, hn, rfl⟩))
  · refine ⟨k, fun x => ?_⟩
    rw [← hk x, ← hvs.mem_iff]
    simp [List.mem_map]


-- ------------------------------------------------------------------ the key written by estimate_key


theorem routeParts_key (gpv : List (Option Nat × Option Nat × Option Nat)) (key : Option String) (items : List Item)
    (parts : List PartOut) (h : routeParts gpv key items = some parts) : ∀ p ∈ parts, p.key = key := by
  unfold routeParts at h
  simp only [Option.bind_eq_bind, Option.pure_def, Option.bind_eq_some_iff, Option.some.injEq] at h
  obtain ⟨pl, hpl, rfl⟩ := h
  generalize notesByPart items = es at hpl
  suffices hs : ∀ (es : List (Nat × List NoteOut)) (pl0 pl : List (Option Nat × List PartOut)),
      (∀ p ∈ pl0.flatMap (·.2), p.key = key) →
      es.foldlM (fun (pl : List (Option Nat × List PartOut)) e =>
        (lookup (some e.1) (gpv.map fun g => (g.2.1, g.1)).reverse).bind fun pg =>
          some (addPart pl pg { id := fmt1 MIDI_PART_ID_FORMAT (e.1 + MIDI_PART_ID_OFFSET), key := key, notes := e.2 })) pl0 = some pl →
      ∀ p ∈ pl.flatMap (·.2), p.key = key from hs es [] pl (by simp) hpl
  intro es
  induction es with
  | nil => intro pl0 pl h0 h; simp at h; subst h; exact h0
  | cons e rest ih =>
    intro pl0 pl h0 h
    simp only [List.foldlM_cons, Option.bind_eq_bind, Option.bind_eq_some_iff] at h
    obtain ⟨pl1, ⟨pg, _, hpl1⟩, hrest⟩ := h
    simp only [Option.some.injEq] at hpl1
    subst hpl1
    refine ih _ pl ?_ hrest
    intro p hp
    have := (addPart_flat pl0 pg _).subset hp
    rcases List.mem_append.mp this with a | a
    · exact h0 p a
    · simp only [List.mem_singleton] at a; rw [a]

/-- `estimate_key=True`: every part of the score carries the same key, and it is a valid key name -/
theorem midi_key_valid (mode : Nat) (qu : Option Nat) (estV ids : Bool) (tracks : List (List Msg)) (parts : List PartOut)
    (h : loadScoreMidi mode qu estV true ids tracks = some parts) :
    ∃ nm, (∀ p ∈ parts, p.key = some nm) ∧ (nm ∈ MAJOR_KEYS ∨ ∃ r ∈ MINOR_KEYS, nm = r ++ "m") := by
  unfold loadScoreMidi at h
  simp only [Option.bind_eq_some_iff] at h
  obtain ⟨perKey, _, sp, _, voices, _, key, hkey, partsL, _, hroute⟩ := h
  unfold keyOf at hkey
  simp only [if_true, Option.bind_eq_some_iff, Option.map_eq_some_iff] at hkey
  obtain ⟨ps, _, nm, hnm, rfl⟩ := hkey
  rw [key_fast_path] at hnm
  obtain ⟨nm', h1, h2⟩ := key_estimate_valid ps ((noteList perKey).map fun n => (n.2.1, ((n.2.2 : Int) : Rat)))
  rw [h1] at hnm
  simp only [Option.some.injEq] at hnm
  subst hnm
  exact ⟨nm', routeParts_key _ _ _ _ hroute, h2⟩

/-- without `estimate_key` the model writes no key (the file's own key signatures are outside the model) -/
theorem midi_no_key (mode : Nat) (qu : Option Nat) (estV ids : Bool) (tracks : List (List Msg)) (parts : List PartOut)
    (h : loadScoreMidi mode qu estV false ids tracks = some parts) : ∀ p ∈ parts, p.key = none := by
  unfold loadScoreMidi at h
  simp only [Option.bind_eq_some_iff] at h
  obtain ⟨perKey, _, sp, _, voices, _, key, hkey, partsL, _, hroute⟩ := h
  simp [keyOf] at hkey
  subst hkey
  exact routeParts_key _ _ _ _ hroute


end C17
