/-
C04 (round 6) — key and time signatures through the importer.

`load_score_midi` hands to `create_part`, for every part it creates, `sorted(set(...))` of the key / time signature
events of the tracks that contribute a (track, channel) cell to the part (`make_track_to_part_mapping`), plus the
"global" ones (tracks without notes; the sanitize step).  For a file written by `save_score_midi` the tracks hold the
signatures of the score parts routed to them, at the written ticks of their positions (`key_signature_positions`,
`time_signature_positions`): composed here, for every export mode, import mode and anacrusis policy.
Helper lemmas: Proofs/C04ImportSigs.lean.
-/
import PartituraModel.Props.C04Domain
import PartituraModel.Proofs.C04ImportSigs
import PartituraModel.Model.ScoreMidiImportSpec

namespace C04
open Model Model.Ticks Model.MidiPair Model.MidiModes Model.ScoreMidi

-- ====================================================================== any file

/-- **What `create_part` receives as signatures, any file, any mode**: the key signatures of an imported part are a
    strictly ascending list (tick, then name) without repeats whose members are exactly the key signature events of the
    tracks with notes that contribute a (track, channel) cell to the part, and those of the tracks without notes; the
    time signatures likewise over the tables of the sanitize step (`sigTables`), or the single assumed 4/4 at tick 0
    when there is none. -/
theorem import_signature_sets (mode ticks : Nat) (tracks : List (List (Int × Msg))) (imp : Imported)
    (h : loadScoreMidi mode ticks tracks = some imp) :
    let byTrCh := notesByTrCh ((readTracks tracks).filter fun e => !e.2.1.isEmpty)
    let trch := sortedTC (byTrCh.map (·.1))
    let gpv := assignGroupPartVoice mode trch
    let sig := sigTables (readTracks tracks)
    ∀ e ∈ imp.parts,
      e.2.keySigs.Pairwise (fun a b => ltKS a b = true) ∧
      (∀ k, k ∈ e.2.keySigs ↔ (k ∈ sig.globalKS ∨ ∃ t ∈ sig.trackKS, k ∈ t.2 ∧
        ∃ c ∈ trch.zip gpv, c.1.1 = t.1 ∧ c.2.2.1 = some e.1)) ∧
      e.2.timeSigs.Pairwise (fun a b => ltTS a b = true) ∧
      ((∀ k, k ∈ e.2.timeSigs ↔ (k ∈ sig.globalTS ∨ ∃ t ∈ sig.trackTS, k ∈ t.2 ∧
        ∃ c ∈ trch.zip gpv, c.1.1 = t.1 ∧ c.2.2.1 = some e.1)) ∨
       (e.2.timeSigs = [(0, 4, 4)] ∧ sig.globalTS = [] ∧ ∀ t ∈ sig.trackTS, ∀ k ∈ t.2,
        ¬ ∃ c ∈ trch.zip gpv, c.1.1 = t.1 ∧ c.2.2.1 = some e.1)) := by
  intro byTrCh trch gpv sig e he
  obtain ⟨hk, ht⟩ := C04IS.import_part_tables mode ticks tracks imp h e he
  have memFrom : ∀ {β : Type} (tbl : List (Nat × List β)) (k : β),
      k ∈ (tbl.flatMap fun t => if (trackToParts trch gpv t.1).contains (some e.1) then t.2 else []) ↔
        ∃ t ∈ tbl, k ∈ t.2 ∧ ∃ c ∈ trch.zip gpv, c.1.1 = t.1 ∧ c.2.2.1 = some e.1 := by
    intro β tbl k
    rw [List.mem_flatMap]
    constructor
    · rintro ⟨t, ht, hk⟩
      split at hk
      · rename_i hc
        exact ⟨t, ht, hk, (C04IS.mem_trackToParts trch gpv t.1 (some e.1)).mp hc⟩
      · simp at hk
    · rintro ⟨t, ht, hk, hc⟩
      refine ⟨t, ht, ?_⟩
      rw [if_pos ((C04IS.mem_trackToParts trch gpv t.1 (some e.1)).mpr hc)]
      exact hk
  refine ⟨?_, ?_, ?_, ?_⟩
  · rw [hk]; exact C04IS.sortedSet_sorted ltKS C04IS.ltKS_trans _
  · intro k
    rw [hk, C04IS.mem_sortedSet ltKS C04IS.ltKS_tri, List.mem_append, memFrom]
    exact Or.comm
  · rw [ht]
    dsimp only
    split
    · simp
    · exact C04IS.sortedSet_sorted ltTS C04IS.ltTS_trans _
  · rw [ht]
    dsimp only
    split
    · rename_i hempty
      right
      have hnil := List.isEmpty_iff.mp hempty
      have hall : ∀ k, k ∉ (sig.trackTS.flatMap fun t => if (trackToParts trch gpv t.1).contains (some e.1) then t.2 else []) ++ sig.globalTS := by
        intro k hk'
        have := (C04IS.mem_sortedSet ltTS C04IS.ltTS_tri k _).mpr hk'
        rw [hnil] at this
        simp at this
      refine ⟨rfl, ?_, ?_⟩
      · apply List.eq_nil_iff_forall_not_mem.mpr
        intro k hk'
        exact hall k (List.mem_append_right _ hk')
      · intro t ht' k hk' hc
        exact hall k (List.mem_append_left _ ((memFrom sig.trackTS k).mpr ⟨t, ht', hk', hc⟩))
    · left
      intro k
      rw [C04IS.mem_sortedSet ltTS C04IS.ltTS_tri, List.mem_append, memFrom]
      exact Or.comm

-- ====================================================================== the file of an export

/-- **The (track, channel) pairs the importer finds** in the file of an export are exactly the pairs
    `map_to_track_channel` gave to the note keys: the sorted list `assign_group_part_voice` receives is `sorted(set(tcs))`. -/
theorem import_track_channels (mode : Nat) (a : Anacrusis) (minPpq vel : Nat) (parts : List PartIn) (ex : Exported)
    (h : saveScoreMidi mode a minPpq vel parts = some ex)
    (hvel : 0 < vel) (hw : ∀ x ∈ parts, C04T.WellFormed x.base)
    (hno : ∀ o tcs, origin a (parts.map (·.base)) = some o → mapToTrackChannel mode (noteKeys parts) = some tcs →
      ∀ tr, C04P.NoOverlap (routedTo ex.ppq o vel ((noteKeys parts).zip tcs) parts tr)) :
    ∃ tcs, mapToTrackChannel mode (noteKeys parts) = some tcs ∧
      (∀ i ch, (i, ch) ∈ tcs ↔ ∃ (hi : i < ex.tracks.length), ∃ n ∈ pairTrack (deltasFrom 0 ex.tracks[i]), n.ch = ch) ∧
      sortedTC ((notesByTrCh ((readTracks (ex.tracks.map (deltasFrom 0))).filter fun e => !e.2.1.isEmpty)).map (·.1)) =
        sortedTC tcs ∧
      (∀ i ch, (i, ch) ∈ tcs → ∃ xi ∈ parts.zipIdx, xi.1.notes ≠ [] ∧
        (tracksOfPart ((noteKeys parts).zip tcs) xi.2).contains i = true) ∧
      (noteKeys parts).length = tcs.length := by
  obtain ⟨o, tcs, ho, htc, hppq, hkeys, _, hpair⟩ := export_pairing_sound mode a minPpq vel parts ex h hvel hw
  refine ⟨tcs, htc, ?_⟩
  have hlen : (noteKeys parts).length = tcs.length := by
    cases hmode : decide (mode ≤ 5) with
    | true => exact ((mode_export mode (by simpa using hmode) _ _ htc).1).symm
    | false =>
      have h5 : 5 < mode := by simpa using hmode
      cases hk : noteKeys parts with
      | nil =>
        rw [hk] at htc
        have : tcs = [] := by
          match mode, h5 with
          | n + 6, _ => simpa [mapToTrackChannel] using htc.symm
        simp [this]
      | cons k' ks => rw [hk, mode_export_rejects mode h5] at htc; cases htc
  have hpair' : ∀ tr (htr : tr < ex.tracks.length),
      (pairTrack (deltasFrom 0 ex.tracks[tr])).Perm
        ((exportRecs (C04E.tkOf ex.ppq o) parts).filterMap (C04E.route ((noteKeys parts).zip tcs) vel tr)) := by
    intro tr htr
    have := hpair tr htr (hno o tcs ho htc tr)
    rwa [C04E.routedTo_eq] at this
  have hmem : ∀ i ch, (i, ch) ∈ tcs ↔ ∃ (hi : i < ex.tracks.length), ∃ n ∈ pairTrack (deltasFrom 0 ex.tracks[i]), n.ch = ch := by
    intro i ch
    constructor
    · intro htc'
      obtain ⟨j, hj, hjx⟩ := List.mem_iff_getElem.mp htc'
      have hjk : j < (noteKeys parts).length := by omega
      have hmem : ((noteKeys parts)[j], (i, ch)) ∈ (noteKeys parts).zip tcs := by
        rw [List.mem_iff_getElem]
        exact ⟨j, by simp [hlen, hj], by simp [hjx]⟩
      have hnd : (noteKeys parts).Nodup := C04G.firstSeen_nodup _
      have hl := C04C.lookup_zip_nodup (noteKeys parts) tcs hnd _ _ hmem
      have hkm : (noteKeys parts)[j] ∈ noteKeys parts := List.getElem_mem _
      obtain ⟨tc', hl', hlt⟩ := hkeys _ hkm
      rw [hl] at hl'
      cases hl'
      simp only at hlt
      obtain ⟨xi, hxi, n, hn, hkey⟩ := (C04C.mem_noteKeys parts _).mp hkm
      have hr : (⟨(xi.1.group, xi.2, n.2.2.2), C04E.tkOf ex.ppq o xi.1 n.1, C04E.tkOf ex.ppq o xi.1 (n.1 + n.2.1), n.2.2.1⟩ : NoteOut) ∈
          exportRecs (C04E.tkOf ex.ppq o) parts := by
        simp only [exportRecs, List.mem_flatMap, List.mem_map]
        exact ⟨xi, hxi, n, hn, rfl⟩
      refine ⟨hlt, ⟨C04E.tkOf ex.ppq o xi.1 n.1, C04E.tkOf ex.ppq o xi.1 (n.1 + n.2.1), ch, n.2.2.1, vel⟩, ?_, rfl⟩
      apply (hpair' i hlt).mem_iff.mpr
      simp only [List.mem_filterMap]
      refine ⟨_, hr, ?_⟩
      simp only [C04E.route, hkey, hl, ↓reduceIte]
    · rintro ⟨hi', n, hn, rfl⟩
      have hn' := (hpair' i hi').mem_iff.mp hn
      simp only [List.mem_filterMap, C04E.route] at hn'
      obtain ⟨r, _, hr⟩ := hn'
      split at hr
      · rename_i t c hl
        split at hr
        · rename_i ht
          cases hr
          subst ht
          exact (List.of_mem_zip (C04E.lookup_mem _ _ _ hl)).2
        · cases hr
      · cases hr
  refine ⟨hmem, ?_, ?_, hlen⟩
  rotate_left
  · intro i ch htc'
    obtain ⟨j, hj, hjx⟩ := List.mem_iff_getElem.mp htc'
    have hjk : j < (noteKeys parts).length := by omega
    have hmemz : ((noteKeys parts)[j], (i, ch)) ∈ (noteKeys parts).zip tcs := by
      rw [List.mem_iff_getElem]
      exact ⟨j, by simp [hlen, hj], by simp [hjx]⟩
    obtain ⟨xi, hxi, n, hn, hkey⟩ := (C04C.mem_noteKeys parts _).mp (List.getElem_mem hjk)
    refine ⟨xi, hxi, List.ne_nil_of_mem hn, ?_⟩
    rw [C04E.mem_tracksOfPart]
    exact ⟨_, _, hmemz, by rw [← hkey], rfl⟩
  apply C04C.sortedTC_congr
  rintro ⟨i, ch⟩
  rw [C04C.mem_byTrCh, hmem]
  constructor
  · rintro ⟨tr, htr, n, hn, rfl⟩
    simp only [List.getElem?_map, Option.map_eq_some_iff] at htr
    obtain ⟨tr0, htr0, rfl⟩ := htr
    obtain ⟨hi', htr0'⟩ := List.getElem?_eq_some_iff.mp htr0
    subst htr0'
    exact ⟨hi', n, hn, rfl⟩
  · rintro ⟨hi', n, hn, rfl⟩
    exact ⟨deltasFrom 0 ex.tracks[i], by simp [List.getElem?_eq_getElem hi'], n, hn, rfl⟩

/-- a cell of the importer's table that belongs to part `pid` and lies in track `tr` -/
def PartHasTrack (imode : Nat) (tcs : List (Nat × Nat)) (pid tr : Nat) : Prop :=
  ∃ c ∈ cellTable imode tcs, c.1.1 = tr ∧ c.2.2.1 = some pid

/-- the import of an export, track by track: every track `tr` that gives a cell to some part is a track of the file,
    has notes, and is read as (index, notes, time signatures, key signatures, tempi) of the written events -/
theorem import_reads_tracks (mode : Nat) (a : Anacrusis) (minPpq vel : Nat) (parts : List PartIn) (ex : Exported)
    (h : saveScoreMidi mode a minPpq vel parts = some ex)
    (hvel : 0 < vel) (hw : ∀ x ∈ parts, C04T.WellFormed x.base)
    (hno : ∀ o tcs, origin a (parts.map (·.base)) = some o → mapToTrackChannel mode (noteKeys parts) = some tcs →
      ∀ tr, C04P.NoOverlap (routedTo ex.ppq o vel ((noteKeys parts).zip tcs) parts tr)) :
    ∃ tcs, mapToTrackChannel mode (noteKeys parts) = some tcs ∧
      (∀ rd, rd ∈ readTracks (ex.tracks.map (deltasFrom 0)) ↔
        ∃ (hi : rd.1 < ex.tracks.length),
          rd = (rd.1, pairTrack (deltasFrom 0 ex.tracks[rd.1]), timeSigsOf ex.tracks[rd.1], keySigsOf ex.tracks[rd.1],
                temposOf ex.tracks[rd.1])) ∧
      (∀ i (hi : i < ex.tracks.length),
        (pairTrack (deltasFrom 0 ex.tracks[i])).isEmpty = false ↔ ∃ ch, (i, ch) ∈ tcs) := by
  obtain ⟨tcs, htc, hmem, _, _, _⟩ := import_track_channels mode a minPpq vel parts ex h hvel hw hno
  have hne : ∀ i (hi : i < ex.tracks.length),
      ((pairTrack (deltasFrom 0 ex.tracks[i])).isEmpty = false ↔ ∃ ch, (i, ch) ∈ tcs) := by
    intro i hi
    constructor
    · intro hne
      cases hp : pairTrack (deltasFrom 0 ex.tracks[i]) with
      | nil => rw [hp] at hne; simp at hne
      | cons n ns =>
        exact ⟨n.ch, (hmem i n.ch).mpr ⟨hi, n, by rw [hp]; exact List.mem_cons_self .., rfl⟩⟩
    · rintro ⟨ch, hch⟩
      obtain ⟨_, n, hn, _⟩ := (hmem i ch).mp hch
      cases hp : pairTrack (deltasFrom 0 ex.tracks[i]) with
      | nil => rw [hp] at hn; simp at hn
      | cons n ns => rfl
  refine ⟨tcs, htc, ?_, hne⟩
  intro rd
  rw [C04IS.readTracks_deltas, List.mem_map]
  constructor
  · rintro ⟨⟨T, i⟩, hx, rfl⟩
    have hTi := (C04C.mem_zipIdx_iff ex.tracks T i).mp hx
    obtain ⟨hi, hT⟩ := List.getElem?_eq_some_iff.mp hTi
    subst hT
    exact ⟨hi, rfl⟩
  · rintro ⟨hi, hrd⟩
    refine ⟨(ex.tracks[rd.1], rd.1), (C04C.mem_zipIdx_iff ex.tracks _ _).mpr (List.getElem?_eq_getElem hi), ?_⟩
    exact hrd.symm

/-- **Key signatures through the round trip**, every export mode, every import mode, every anacrusis policy: the key
    signatures `create_part` receives for an imported part are strictly ascending (tick, then name), and `(t, name)` is
    among them exactly when some track `tr` that gives the part a (track, channel) cell (`PartHasTrack`: a cell of
    `assign_group_part_voice` over the pairs the exporter used) must hold that key signature — i.e. some score part with a
    note in track `tr` has the key signature `name` at a position whose written tick is `t` (`trackKS`, `ksImages`). -/
theorem import_key_signature_positions (mode imode : Nat) (a : Anacrusis) (minPpq vel : Nat) (parts : List PartIn)
    (ex : Exported) (imp : Imported)
    (h : saveScoreMidi mode a minPpq vel parts = some ex)
    (hi : loadScoreMidi imode ex.ppq (ex.tracks.map (deltasFrom 0)) = some imp)
    (hvel : 0 < vel) (hw : ∀ x ∈ parts, C04T.WellFormed x.base)
    (hno : ∀ o tcs, origin a (parts.map (·.base)) = some o → mapToTrackChannel mode (noteKeys parts) = some tcs →
      ∀ tr, C04P.NoOverlap (routedTo ex.ppq o vel ((noteKeys parts).zip tcs) parts tr)) :
    ∃ o tcs, origin a (parts.map (·.base)) = some o ∧ mapToTrackChannel mode (noteKeys parts) = some tcs ∧
      ∀ e ∈ imp.parts,
        e.2.keySigs.Pairwise (fun x y => ltKS x y = true) ∧
        ∀ t name, (t, name) ∈ e.2.keySigs ↔
          ∃ tr, PartHasTrack imode tcs e.1 tr ∧
            (t, Msg.keySig name) ∈ trackKS ex.ppq o ((noteKeys parts).zip tcs) parts tr := by
  obtain ⟨o, tcs, ho, htc, hks⟩ := key_signature_positions mode a minPpq vel parts ex h
  obtain ⟨tcs', htc', hmemTC, htrch, _, _⟩ := import_track_channels mode a minPpq vel parts ex h hvel hw hno
  obtain ⟨tcs'', htc'', hrd, hne⟩ := import_reads_tracks mode a minPpq vel parts ex h hvel hw hno
  rw [htc] at htc' htc''
  cases htc'
  cases htc''
  refine ⟨o, tcs, ho, htc, ?_⟩
  intro e he
  have hsets := import_signature_sets imode ex.ppq _ imp hi e he
  rw [htrch] at hsets
  obtain ⟨hsorted, hmemk, _, _⟩ := hsets
  refine ⟨hsorted, ?_⟩
  -- the key signature events of a written track
  have hev : ∀ tr (htr : tr < ex.tracks.length) t name,
      (t, name) ∈ keySigsOf ex.tracks[tr] ↔ (t, Msg.keySig name) ∈ trackKS ex.ppq o ((noteKeys parts).zip tcs) parts tr := by
    intro tr htr t name
    rw [C04IS.mem_keySigsOf, ← (hks tr htr).mem_iff, List.mem_filter]
    simp [C04D.isKS]
  -- a track that must hold a key signature holds a note
  have hhas : ∀ tr x, x ∈ trackKS ex.ppq o ((noteKeys parts).zip tcs) parts tr → ∃ ch, (tr, ch) ∈ tcs := by
    intro tr x hx
    simp only [trackKS, List.mem_flatMap] at hx
    obtain ⟨xi, _, hx⟩ := hx
    split at hx
    · rename_i hc
      obtain ⟨k, tc, hktc, _, rfl⟩ := (C04E.mem_tracksOfPart _ _ _).mp hc
      exact ⟨tc.2, (List.of_mem_zip hktc).2⟩
    · simp at hx
  intro t name
  rw [hmemk]
  simp only [sigTables, List.mem_flatMap, List.mem_map, List.mem_filter]
  constructor
  · rintro (⟨rd, ⟨hrdm, hempty⟩, hk⟩ | ⟨tb, ⟨rd, ⟨hrdm, _⟩, rfl⟩, hk, hc⟩)
    · -- a track without notes holds no key signature
      exfalso
      obtain ⟨hlt, hrdeq⟩ := (hrd rd).mp hrdm
      rw [hrdeq] at hk hempty
      simp only at hk hempty
      obtain ⟨ch, hch⟩ := hhas rd.1 _ ((hev rd.1 hlt t name).mp hk)
      have := (hne rd.1 hlt).mpr ⟨ch, hch⟩
      rw [this] at hempty
      simp at hempty
    · obtain ⟨hlt, hrdeq⟩ := (hrd rd).mp hrdm
      rw [hrdeq] at hk
      simp only at hk
      exact ⟨rd.1, hc, (hev rd.1 hlt t name).mp hk⟩
  · rintro ⟨tr, hc, hx⟩
    right
    obtain ⟨ch, hch⟩ := hhas tr _ hx
    obtain ⟨c, hcm, hctr, hcp⟩ := hc
    -- the track is a track of the file, with notes
    have hlt : tr < ex.tracks.length := ((hmemTC tr ch).mp hch).1
    let rd : TrackRead := (tr, pairTrack (deltasFrom 0 ex.tracks[tr]), timeSigsOf ex.tracks[tr], keySigsOf ex.tracks[tr],
      temposOf ex.tracks[tr])
    have hrdm : rd ∈ readTracks (ex.tracks.map (deltasFrom 0)) := (hrd rd).mpr ⟨hlt, rfl⟩
    have hne' : rd.2.1.isEmpty = false := (hne tr hlt).mpr ⟨ch, hch⟩
    refine ⟨(tr, keySigsOf ex.tracks[tr]), ⟨rd, ⟨hrdm, by simp [hne']⟩, rfl⟩, (hev tr hlt t name).mpr hx, ?_⟩
    exact ⟨c, hcm, hctr, hcp⟩

/-- every event `trackTS` lists is a time signature -/
theorem trackTS_shape (a : Anacrusis) (p : Nat) (o : Rat) (ktc : List (Key × (Nat × Nat))) (parts : List PartIn) (tr : Nat)
    (x : Int × Msg) (hx : x ∈ trackTS a p o ktc parts tr) : ∃ t n d, x = (t, Msg.timeSig n d) := by
  simp only [trackTS, List.mem_flatMap] at hx
  obtain ⟨xi, _, hx⟩ := hx
  split at hx
  · simp only [tsImages, List.mem_map] at hx
    obtain ⟨e, _, rfl⟩ := hx
    exact ⟨_, _, _, rfl⟩
  · simp at hx

/-- Time signatures through the round trip, `shift` and `pad_bar`, when every track with notes must hold a time
    signature (no track for the sanitize step to act on): the time signatures `create_part` receives for an imported part are
    strictly ascending (tick, numerator, denominator) and `(t, n, d)` is among them exactly when some track that gives the
    part a (track, channel) cell must hold that time signature — some score part with a note in the track has the
    signature `n/d` at a position whose written tick is `t` (the first signature of a part at tick 0 for `pad_bar`:
    `trackTS`, `tsImages`).  The sanitize step and the assumed 4/4 do not fire. -/
theorem import_time_signature_positions_of_nonempty (mode imode : Nat) (a : Anacrusis) (minPpq vel : Nat) (parts : List PartIn)
    (ex : Exported) (imp : Imported)
    (h : saveScoreMidi mode a minPpq vel parts = some ex)
    (hi : loadScoreMidi imode ex.ppq (ex.tracks.map (deltasFrom 0)) = some imp)
    (ha : a ≠ .timeSigChange)
    (hvel : 0 < vel) (hw : ∀ x ∈ parts, C04T.WellFormed x.base)
    (hall : ∀ o tcs, origin a (parts.map (·.base)) = some o → mapToTrackChannel mode (noteKeys parts) = some tcs →
      ∀ i ch, (i, ch) ∈ tcs → trackTS a ex.ppq o ((noteKeys parts).zip tcs) parts i ≠ [])
    (hno : ∀ o tcs, origin a (parts.map (·.base)) = some o → mapToTrackChannel mode (noteKeys parts) = some tcs →
      ∀ tr, C04P.NoOverlap (routedTo ex.ppq o vel ((noteKeys parts).zip tcs) parts tr)) :
    ∃ o tcs, origin a (parts.map (·.base)) = some o ∧ mapToTrackChannel mode (noteKeys parts) = some tcs ∧
      ∀ e ∈ imp.parts,
        e.2.timeSigs.Pairwise (fun x y => ltTS x y = true) ∧
        ∀ t n d, (t, n, d) ∈ e.2.timeSigs ↔
          ∃ tr, PartHasTrack imode tcs e.1 tr ∧
            (t, Msg.timeSig n d) ∈ trackTS a ex.ppq o ((noteKeys parts).zip tcs) parts tr := by
  obtain ⟨o, tcs, ho, htc, hTS⟩ := time_signature_positions mode a minPpq vel parts ex h ha
  obtain ⟨tcs', htc', hmemTC, htrch, _, _⟩ := import_track_channels mode a minPpq vel parts ex h hvel hw hno
  obtain ⟨tcs'', htc'', hrd, hne⟩ := import_reads_tracks mode a minPpq vel parts ex h hvel hw hno
  rw [htc] at htc' htc''
  cases htc'
  cases htc''
  refine ⟨o, tcs, ho, htc, ?_⟩
  intro e he
  have hsets := import_signature_sets imode ex.ppq _ imp hi e he
  have hcell := C04IS.import_part_has_cell imode ex.ppq _ imp hi e he
  rw [htrch] at hsets hcell
  obtain ⟨_, _, hsorted, hmemk⟩ := hsets
  refine ⟨hsorted, ?_⟩
  -- the time signature events of a written track
  have hev : ∀ tr (htr : tr < ex.tracks.length) t n d,
      (t, n, d) ∈ timeSigsOf ex.tracks[tr] ↔ (t, Msg.timeSig n d) ∈ trackTS a ex.ppq o ((noteKeys parts).zip tcs) parts tr := by
    intro tr htr t n d
    rw [C04IS.mem_timeSigsOf, ← (hTS tr htr).mem_iff, List.mem_filter]
    simp [C04D.isTS]
  -- a track that must hold a time signature holds a note
  have hhas : ∀ tr x, x ∈ trackTS a ex.ppq o ((noteKeys parts).zip tcs) parts tr → ∃ ch, (tr, ch) ∈ tcs := by
    intro tr x hx
    simp only [trackTS, List.mem_flatMap] at hx
    obtain ⟨xi, _, hx⟩ := hx
    split at hx
    · rename_i hc
      obtain ⟨k, tc, hktc, _, rfl⟩ := (C04E.mem_tracksOfPart _ _ _).mp hc
      exact ⟨tc.2, (List.of_mem_zip hktc).2⟩
    · simp at hx
  -- a track with a note holds a time signature
  have hsome : ∀ tr ch, (tr, ch) ∈ tcs → ∃ (htr : tr < ex.tracks.length), timeSigsOf ex.tracks[tr] ≠ [] := by
    intro tr ch hch
    have htr : tr < ex.tracks.length := ((hmemTC tr ch).mp hch).1
    refine ⟨htr, ?_⟩
    obtain ⟨x, hx⟩ := List.exists_mem_of_ne_nil _ (hall o tcs ho htc tr ch hch)
    obtain ⟨t, n, d, rfl⟩ := trackTS_shape _ _ _ _ _ _ x hx
    exact List.ne_nil_of_mem ((hev tr htr t n d).mpr hx)
  -- hence the sanitize step does nothing
  have hun := C04IS.sigTables_unsanitized (readTracks (ex.tracks.map (deltasFrom 0))) (by
    intro rd hrdm hnotes
    obtain ⟨hlt, hrdeq⟩ := (hrd rd).mp hrdm
    rw [hrdeq] at hnotes ⊢
    simp only at hnotes ⊢
    obtain ⟨ch, hch⟩ := (hne rd.1 hlt).mp hnotes
    exact (hsome rd.1 ch hch).2)
  obtain ⟨hTT, hGT⟩ := hun
  rw [hTT, hGT] at hmemk
  -- the part owns a cell, whose track has a time signature: the assumed 4/4 is not used
  have hmemk' : ∀ k, k ∈ e.2.timeSigs ↔
      (k ∈ ((readTracks (ex.tracks.map (deltasFrom 0))).filter fun e => e.2.1.isEmpty).flatMap (fun e => e.2.2.1) ∨
       ∃ t ∈ ((readTracks (ex.tracks.map (deltasFrom 0))).filter fun e => !e.2.1.isEmpty).map (fun e => (e.1, e.2.2.1)),
        k ∈ t.2 ∧ ∃ c ∈ (sortedTC tcs).zip (assignGroupPartVoice imode (sortedTC tcs)), c.1.1 = t.1 ∧ c.2.2.1 = some e.1) := by
    rcases hmemk with hm | ⟨_, _, hnone⟩
    · exact hm
    · exfalso
      obtain ⟨c, hcm, hcp⟩ := hcell
      have hc1 : c.1 ∈ tcs := (C04M.mem_sortedTC _ _).mp (List.of_mem_zip hcm).1
      obtain ⟨htr, hnonempty⟩ := hsome c.1.1 c.1.2 hc1
      obtain ⟨k, hk⟩ := List.exists_mem_of_ne_nil _ hnonempty
      let rd : TrackRead := (c.1.1, pairTrack (deltasFrom 0 ex.tracks[c.1.1]), timeSigsOf ex.tracks[c.1.1],
        keySigsOf ex.tracks[c.1.1], temposOf ex.tracks[c.1.1])
      have hrdm : rd ∈ readTracks (ex.tracks.map (deltasFrom 0)) := (hrd rd).mpr ⟨htr, rfl⟩
      have hne' : rd.2.1.isEmpty = false := (hne c.1.1 htr).mpr ⟨c.1.2, hc1⟩
      refine hnone (c.1.1, timeSigsOf ex.tracks[c.1.1]) ?_ k hk ⟨c, hcm, rfl, hcp⟩
      rw [List.mem_map]
      exact ⟨rd, List.mem_filter.mpr ⟨hrdm, by simp [hne']⟩, rfl⟩
  intro t n d
  rw [hmemk']
  simp only [List.mem_flatMap, List.mem_map, List.mem_filter]
  constructor
  · rintro (⟨rd, ⟨hrdm, hempty⟩, hk⟩ | ⟨tb, ⟨rd, ⟨hrdm, _⟩, rfl⟩, hk, hc⟩)
    · exfalso
      obtain ⟨hlt, hrdeq⟩ := (hrd rd).mp hrdm
      rw [hrdeq] at hk hempty
      simp only at hk hempty
      obtain ⟨ch, hch⟩ := hhas rd.1 _ ((hev rd.1 hlt t n d).mp hk)
      have := (hne rd.1 hlt).mpr ⟨ch, hch⟩
      rw [this] at hempty
      simp at hempty
    · obtain ⟨hlt, hrdeq⟩ := (hrd rd).mp hrdm
      rw [hrdeq] at hk
      simp only at hk
      exact ⟨rd.1, hc, (hev rd.1 hlt t n d).mp hk⟩
  · rintro ⟨tr, hc, hx⟩
    right
    obtain ⟨ch, hch⟩ := hhas tr _ hx
    obtain ⟨c, hcm, hctr, hcp⟩ := hc
    have hlt : tr < ex.tracks.length := ((hmemTC tr ch).mp hch).1
    let rd : TrackRead := (tr, pairTrack (deltasFrom 0 ex.tracks[tr]), timeSigsOf ex.tracks[tr], keySigsOf ex.tracks[tr],
      temposOf ex.tracks[tr])
    have hrdm : rd ∈ readTracks (ex.tracks.map (deltasFrom 0)) := (hrd rd).mpr ⟨hlt, rfl⟩
    have hne' : rd.2.1.isEmpty = false := (hne tr hlt).mpr ⟨ch, hch⟩
    refine ⟨(tr, timeSigsOf ex.tracks[tr]), ⟨rd, ⟨hrdm, by simp [hne']⟩, rfl⟩, (hev tr hlt t n d).mpr hx, ?_⟩
    exact ⟨c, hcm, hctr, hcp⟩

/-- **Time signatures through the round trip**, `shift` and `pad_bar`, every export and import mode, when every
    sounding part of the score has a time signature: the time signatures `create_part` receives for an imported part are
    strictly ascending (tick, numerator, denominator) and `(t, n, d)` is among them exactly when some track that gives the
    part a (track, channel) cell must hold that time signature — some score part with a note in the track has the
    signature `n/d` at a position whose written tick is `t` (the first signature of a part at tick 0 for `pad_bar`:
    `trackTS`, `tsImages`).  The sanitize step and the assumed 4/4 do not fire. -/
theorem import_time_signature_positions (mode imode : Nat) (a : Anacrusis) (minPpq vel : Nat) (parts : List PartIn)
    (ex : Exported) (imp : Imported)
    (h : saveScoreMidi mode a minPpq vel parts = some ex)
    (hi : loadScoreMidi imode ex.ppq (ex.tracks.map (deltasFrom 0)) = some imp)
    (ha : a ≠ .timeSigChange)
    (hvel : 0 < vel) (hw : ∀ x ∈ parts, C04T.WellFormed x.base)
    (hts : ∀ x ∈ parts, x.notes ≠ [] → x.base.ts ≠ [])
    (hno : ∀ o tcs, origin a (parts.map (·.base)) = some o → mapToTrackChannel mode (noteKeys parts) = some tcs →
      ∀ tr, C04P.NoOverlap (routedTo ex.ppq o vel ((noteKeys parts).zip tcs) parts tr)) :
    ∃ o tcs, origin a (parts.map (·.base)) = some o ∧ mapToTrackChannel mode (noteKeys parts) = some tcs ∧
      ∀ e ∈ imp.parts,
        e.2.timeSigs.Pairwise (fun x y => ltTS x y = true) ∧
        ∀ t n d, (t, n, d) ∈ e.2.timeSigs ↔
          ∃ tr, PartHasTrack imode tcs e.1 tr ∧
            (t, Msg.timeSig n d) ∈ trackTS a ex.ppq o ((noteKeys parts).zip tcs) parts tr := by
  apply import_time_signature_positions_of_nonempty mode imode a minPpq vel parts ex imp h hi ha hvel hw ?_ hno
  intro o tcs ho htc tr ch hch
  obtain ⟨tcs', htc', _, _, hsrc, _⟩ := import_track_channels mode a minPpq vel parts ex h hvel hw hno
  rw [htc] at htc'
  cases htc'
  obtain ⟨xi, hxi, hnotes, hc⟩ := hsrc tr ch hch
  have hne' := hts xi.1 (C04Tot.mem_of_mem_zipIdx hxi) hnotes
  obtain ⟨ts0, hts0⟩ := List.exists_mem_of_ne_nil _ hne'
  obtain ⟨j, hj, hjx⟩ := List.mem_iff_getElem.mp hts0
  have hz : (ts0, j) ∈ xi.1.base.ts.zipIdx := (C04C.mem_zipIdx_iff _ _ _).mpr (by rw [List.getElem?_eq_getElem hj, hjx])
  have hx : ((if a = .padBar ∧ j = 0 then (0 : Int) else tick ex.ppq xi.1.base o ts0.1), Msg.timeSig ts0.2.1 ts0.2.2) ∈
      trackTS a ex.ppq o ((noteKeys parts).zip tcs) parts tr := by
    simp only [trackTS, List.mem_flatMap]
    refine ⟨xi, hxi, ?_⟩
    rw [if_pos hc]
    simp only [tsImages, List.mem_map]
    exact ⟨(ts0, j), hz, rfl⟩
  exact List.ne_nil_of_mem hx

/-- **Time signatures through the round trip, `shift` and `pad_bar`, all cases** (no hypothesis about the score's time
    signatures): with `S tr` the time signature events track `tr` must hold (`trackTS`), over the tracks with notes
    * when no track must hold a time signature, every imported part gets the single assumed 4/4 at tick 0;
    * when some track must hold one and some track none (a sounding part without any time signature next to one with),
      the sanitize step shares them: every imported part gets the time signatures of ALL tracks;
    * when every track must hold one, every imported part gets those of the tracks that give it a (track, channel) cell. -/
theorem import_time_signature_cases (mode imode : Nat) (a : Anacrusis) (minPpq vel : Nat) (parts : List PartIn)
    (ex : Exported) (imp : Imported)
    (h : saveScoreMidi mode a minPpq vel parts = some ex)
    (hi : loadScoreMidi imode ex.ppq (ex.tracks.map (deltasFrom 0)) = some imp)
    (ha : a ≠ .timeSigChange)
    (hvel : 0 < vel) (hw : ∀ x ∈ parts, C04T.WellFormed x.base)
    (hno : ∀ o tcs, origin a (parts.map (·.base)) = some o → mapToTrackChannel mode (noteKeys parts) = some tcs →
      ∀ tr, C04P.NoOverlap (routedTo ex.ppq o vel ((noteKeys parts).zip tcs) parts tr)) :
    ∃ o tcs, origin a (parts.map (·.base)) = some o ∧ mapToTrackChannel mode (noteKeys parts) = some tcs ∧
      ∀ e ∈ imp.parts,
        e.2.timeSigs.Pairwise (fun x y => ltTS x y = true) ∧
        ((∀ i ch, (i, ch) ∈ tcs → trackTS a ex.ppq o ((noteKeys parts).zip tcs) parts i = []) →
          e.2.timeSigs = [(0, 4, 4)]) ∧
        ((∃ i ch, (i, ch) ∈ tcs ∧ trackTS a ex.ppq o ((noteKeys parts).zip tcs) parts i = []) →
         (∃ i ch, (i, ch) ∈ tcs ∧ trackTS a ex.ppq o ((noteKeys parts).zip tcs) parts i ≠ []) →
          ∀ t n d, (t, n, d) ∈ e.2.timeSigs ↔
            ∃ i ch, (i, ch) ∈ tcs ∧ (t, Msg.timeSig n d) ∈ trackTS a ex.ppq o ((noteKeys parts).zip tcs) parts i) ∧
        ((∀ i ch, (i, ch) ∈ tcs → trackTS a ex.ppq o ((noteKeys parts).zip tcs) parts i ≠ []) →
          ∀ t n d, (t, n, d) ∈ e.2.timeSigs ↔
            ∃ tr, PartHasTrack imode tcs e.1 tr ∧
              (t, Msg.timeSig n d) ∈ trackTS a ex.ppq o ((noteKeys parts).zip tcs) parts tr) := by
  obtain ⟨o, tcs, ho, htc, hTS⟩ := time_signature_positions mode a minPpq vel parts ex h ha
  obtain ⟨tcs', htc', hmemTC, htrch, _, _⟩ := import_track_channels mode a minPpq vel parts ex h hvel hw hno
  obtain ⟨tcs'', htc'', hrd, hne⟩ := import_reads_tracks mode a minPpq vel parts ex h hvel hw hno
  rw [htc] at htc' htc''
  cases htc'
  cases htc''
  refine ⟨o, tcs, ho, htc, ?_⟩
  intro e he
  have hsets := import_signature_sets imode ex.ppq _ imp hi e he
  rw [htrch] at hsets
  obtain ⟨_, _, hsorted, hmemk⟩ := hsets
  have hnonnil := C04IS.import_timeSigs_ne_nil imode ex.ppq _ imp hi e he
  have hev : ∀ tr (htr : tr < ex.tracks.length) t n d,
      (t, n, d) ∈ timeSigsOf ex.tracks[tr] ↔ (t, Msg.timeSig n d) ∈ trackTS a ex.ppq o ((noteKeys parts).zip tcs) parts tr := by
    intro tr htr t n d
    rw [C04IS.mem_timeSigsOf, ← (hTS tr htr).mem_iff, List.mem_filter]
    simp [C04D.isTS]
  have hhas : ∀ tr x, x ∈ trackTS a ex.ppq o ((noteKeys parts).zip tcs) parts tr → ∃ ch, (tr, ch) ∈ tcs := by
    intro tr x hx
    simp only [trackTS, List.mem_flatMap] at hx
    obtain ⟨xi, _, hx⟩ := hx
    split at hx
    · rename_i hc
      obtain ⟨k, tc, hktc, _, rfl⟩ := (C04E.mem_tracksOfPart _ _ _).mp hc
      exact ⟨tc.2, (List.of_mem_zip hktc).2⟩
    · simp at hx
  -- a time signature read from a track is one the track must hold, in a track with notes
  have hread : ∀ rd ∈ readTracks (ex.tracks.map (deltasFrom 0)), ∀ k ∈ rd.2.2.1,
      (k.1, Msg.timeSig k.2.1 k.2.2) ∈ trackTS a ex.ppq o ((noteKeys parts).zip tcs) parts rd.1 ∧
      rd.2.1.isEmpty = false := by
    intro rd hrdm k hk
    obtain ⟨hlt, hrdeq⟩ := (hrd rd).mp hrdm
    rw [hrdeq] at hk ⊢
    simp only at hk ⊢
    obtain ⟨t, n, d⟩ := k
    have hx := (hev rd.1 hlt t n d).mp hk
    obtain ⟨ch, hch⟩ := hhas rd.1 _ hx
    exact ⟨hx, (hne rd.1 hlt).mpr ⟨ch, hch⟩⟩
  -- the record of a track with notes
  have hrec : ∀ i ch, (i, ch) ∈ tcs → ∃ (hlt : i < ex.tracks.length),
      ((i, pairTrack (deltasFrom 0 ex.tracks[i]), timeSigsOf ex.tracks[i], keySigsOf ex.tracks[i], temposOf ex.tracks[i]) : TrackRead) ∈
        (readTracks (ex.tracks.map (deltasFrom 0))).filter fun e => !e.2.1.isEmpty := by
    intro i ch hch
    have hlt : i < ex.tracks.length := ((hmemTC i ch).mp hch).1
    refine ⟨hlt, List.mem_filter.mpr ⟨(hrd _).mpr ⟨hlt, rfl⟩, ?_⟩⟩
    have := (hne i hlt).mpr ⟨ch, hch⟩
    simp [this]
  refine ⟨hsorted, ?_, ?_, ?_⟩
  · -- no time signature anywhere
    intro hzero
    have hnone : ∀ rd ∈ readTracks (ex.tracks.map (deltasFrom 0)), ∀ k, k ∉ rd.2.2.1 := by
      intro rd hrdm k hk
      obtain ⟨hx, hnotes⟩ := hread rd hrdm k hk
      obtain ⟨ch, hch⟩ := hhas rd.1 _ hx
      rw [hzero rd.1 ch hch] at hx
      simp at hx
    rcases hmemk with hm | ⟨heq, _, _⟩
    · exfalso
      obtain ⟨k, hk⟩ := List.exists_mem_of_ne_nil _ hnonnil
      rcases (hm k).mp hk with hg | ⟨t, ht, hkt, _⟩
      · rcases C04IS.sigTables_ts_cases (readTracks (ex.tracks.map (deltasFrom 0))) with ⟨hG, _⟩ | ⟨hG, _⟩ <;>
        · rw [hG, List.mem_flatMap] at hg
          obtain ⟨rd, hrdm, hk'⟩ := hg
          exact hnone rd (List.mem_filter.mp hrdm).1 k hk'
      · rcases C04IS.sigTables_ts_cases (readTracks (ex.tracks.map (deltasFrom 0))) with ⟨_, hT⟩ | ⟨_, hT⟩
        · rw [hT] at ht; simp at ht
        · rw [hT, List.mem_map] at ht
          obtain ⟨rd, hrdm, rfl⟩ := ht
          exact hnone rd (List.mem_filter.mp hrdm).1 k hkt
    · exact heq
  · -- the sanitize step fires
    rintro ⟨iz, chz, hchz, hz⟩ ⟨im, chm, hchm, hm⟩ t n d
    obtain ⟨hltz, hrecz⟩ := hrec iz chz hchz
    obtain ⟨hltm, hrecm⟩ := hrec im chm hchm
    obtain ⟨x, hx⟩ := List.exists_mem_of_ne_nil _ hm
    obtain ⟨t0, n0, d0, rfl⟩ := trackTS_shape _ _ _ _ _ _ x hx
    have hk0 : (t0, n0, d0) ∈ timeSigsOf ex.tracks[im] := (hev im hltm t0 n0 d0).mpr hx
    have hzn : timeSigsOf ex.tracks[iz] = [] := by
      apply List.eq_nil_iff_forall_not_mem.mpr
      rintro ⟨t', n', d'⟩ hk'
      have := (hev iz hltz t' n' d').mp hk'
      rw [hz] at this
      simp at this
    have hsan : C04IS.sanitizes (readTracks (ex.tracks.map (deltasFrom 0))) = true := by
      unfold C04IS.sanitizes
      simp only [Bool.and_eq_true, List.isEmpty_iff, List.any_eq_true, List.mem_map, decide_eq_true_eq]
      refine ⟨⟨?_, ?_⟩, ?_⟩
      · apply List.eq_nil_iff_forall_not_mem.mpr
        intro k hk
        rw [List.mem_flatMap] at hk
        obtain ⟨rd, hrdm, hk'⟩ := hk
        rw [List.mem_filter] at hrdm
        have := (hread rd hrdm.1 k hk').2
        rw [this] at hrdm
        simp at hrdm
      · exact ⟨0, ⟨_, hrecz, by simp [hzn]⟩, rfl⟩
      · refine ⟨(timeSigsOf ex.tracks[im]).length, ⟨_, hrecm, rfl⟩, ?_⟩
        intro h0
        have := List.eq_nil_of_length_eq_zero h0
        rw [this] at hk0
        simp at hk0
    obtain ⟨hG, hT⟩ := C04IS.sigTables_ts_eq (readTracks (ex.tracks.map (deltasFrom 0)))
    rw [hsan] at hG hT
    simp only [↓reduceIte] at hG hT
    have hmem' : ∀ k, k ∈ e.2.timeSigs ↔
        k ∈ ((readTracks (ex.tracks.map (deltasFrom 0))).filter fun e => !e.2.1.isEmpty).flatMap (fun e => e.2.2.1) := by
      rcases hmemk with hm' | ⟨_, hGnil, _⟩
      · intro k
        rw [hm' k, hG, hT]
        simp
      · exfalso
        rw [hG] at hGnil
        have : (t0, n0, d0) ∈ ((readTracks (ex.tracks.map (deltasFrom 0))).filter fun e => !e.2.1.isEmpty).flatMap (fun e => e.2.2.1) :=
          List.mem_flatMap.mpr ⟨_, hrecm, hk0⟩
        rw [hGnil] at this
        simp at this
    rw [hmem', List.mem_flatMap]
    constructor
    · rintro ⟨rd, hrdm, hk⟩
      have hx' := (hread rd (List.mem_filter.mp hrdm).1 _ hk).1
      obtain ⟨ch, hch⟩ := hhas rd.1 _ hx'
      exact ⟨rd.1, ch, hch, hx'⟩
    · rintro ⟨i, ch, hch, hx'⟩
      obtain ⟨hlt, hreci⟩ := hrec i ch hch
      exact ⟨_, hreci, (hev i hlt t n d).mpr hx'⟩
  · intro hall
    obtain ⟨o₁, tcs₁, ho₁, htc₁, hk⟩ := import_time_signature_positions_of_nonempty mode imode a minPpq vel parts ex imp h hi ha
      hvel hw (by
        intro o' tcs' ho' htc'
        rw [ho] at ho'
        rw [htc] at htc'
        cases ho'
        cases htc'
        exact hall) hno
    rw [ho] at ho₁
    rw [htc] at htc₁
    cases ho₁
    cases htc₁
    exact (hk e he).2

-- ====================================================================== time signatures, any policy

/-- **Imported time signatures come from the file and nothing of the part's own tracks is lost**, any file, any mode
    (the sanitize step included): every time signature `create_part` receives for a part is a time signature event of
    some track of the file — or the single assumed 4/4 at tick 0 — and every time signature event of a track with notes
    that gives the part a (track, channel) cell is among them. -/
theorem import_time_signatures_of_file (mode ticks : Nat) (tracks : List (List (Int × Msg))) (imp : Imported)
    (h : loadScoreMidi mode ticks tracks = some imp) :
    let byTrCh := notesByTrCh ((readTracks tracks).filter fun e => !e.2.1.isEmpty)
    let trch := sortedTC (byTrCh.map (·.1))
    let gpv := assignGroupPartVoice mode trch
    ∀ e ∈ imp.parts,
      (∀ k ∈ e.2.timeSigs, k = (0, 4, 4) ∨ ∃ rd ∈ readTracks tracks, k ∈ rd.2.2.1) ∧
      (∀ rd ∈ readTracks tracks, rd.2.1.isEmpty = false →
        (∃ c ∈ trch.zip gpv, c.1.1 = rd.1 ∧ c.2.2.1 = some e.1) → ∀ k ∈ rd.2.2.1, k ∈ e.2.timeSigs) := by
  intro byTrCh trch gpv e he
  obtain ⟨_, _, _, hmem⟩ := import_signature_sets mode ticks tracks imp h e he
  have hcases := C04IS.sigTables_ts_cases (readTracks tracks)
  constructor
  · intro k hk
    rcases hmem with hm | ⟨heq, _, _⟩
    · right
      rcases (hm k).mp hk with hg | ⟨t, ht, hkt, _⟩
      · rcases hcases with ⟨hG, _⟩ | ⟨hG, _⟩
        · rw [hG, List.mem_flatMap] at hg
          obtain ⟨rd, hrd, hk'⟩ := hg
          exact ⟨rd, (List.mem_filter.mp hrd).1, hk'⟩
        · rw [hG, List.mem_flatMap] at hg
          obtain ⟨rd, hrd, hk'⟩ := hg
          exact ⟨rd, (List.mem_filter.mp hrd).1, hk'⟩
      · rcases hcases with ⟨_, hT⟩ | ⟨_, hT⟩
        · rw [hT] at ht; simp at ht
        · rw [hT, List.mem_map] at ht
          obtain ⟨rd, hrd, rfl⟩ := ht
          exact ⟨rd, (List.mem_filter.mp hrd).1, hkt⟩
    · left
      rw [heq] at hk
      simpa using hk
  · intro rd hrd hne hc k hk
    have hwith : rd ∈ (readTracks tracks).filter fun e => !e.2.1.isEmpty :=
      List.mem_filter.mpr ⟨hrd, by simp [hne]⟩
    have hin : k ∈ (sigTables (readTracks tracks)).globalTS ∨ ∃ t ∈ (sigTables (readTracks tracks)).trackTS, k ∈ t.2 ∧
        ∃ c ∈ trch.zip gpv, c.1.1 = t.1 ∧ c.2.2.1 = some e.1 := by
      rcases hcases with ⟨hG, _⟩ | ⟨_, hT⟩
      · left
        rw [hG, List.mem_flatMap]
        exact ⟨rd, hwith, hk⟩
      · right
        refine ⟨(rd.1, rd.2.2.1), ?_, hk, hc⟩
        rw [hT, List.mem_map]
        exact ⟨rd, hwith, rfl⟩
    rcases hmem with hm | ⟨_, hG, hnone⟩
    · exact (hm k).mpr hin
    · exfalso
      rcases hin with hg | ⟨t, ht, hkt, hc'⟩
      · rw [hG] at hg; simp at hg
      · exact hnone t ht k hkt hc'

/-- **Time signatures through the round trip, `time_sig_change`** (the policy rewrites the signatures of irregular
    measures by design), every export and import mode: every time signature of a score part that does not start an
    irregular measure comes back — at the written tick of its position, with its numerator and denominator — in every
    imported part that owns a (track, channel) cell of a track in which the score part has a note; and every imported
    time signature (other than the assumed 4/4 of a file without any) stands at the written tick of a time signature,
    a measure start or a measure end of some score part. -/
theorem import_time_sig_change_positions (mode imode : Nat) (minPpq vel : Nat) (parts : List PartIn)
    (ex : Exported) (imp : Imported)
    (h : saveScoreMidi mode .timeSigChange minPpq vel parts = some ex)
    (hi : loadScoreMidi imode ex.ppq (ex.tracks.map (deltasFrom 0)) = some imp)
    (hvel : 0 < vel) (hw : ∀ x ∈ parts, C04T.WellFormed x.base)
    (hno : ∀ o tcs, origin .timeSigChange (parts.map (·.base)) = some o → mapToTrackChannel mode (noteKeys parts) = some tcs →
      ∀ tr, C04P.NoOverlap (routedTo ex.ppq o vel ((noteKeys parts).zip tcs) parts tr)) :
    ∃ o tcs, origin .timeSigChange (parts.map (·.base)) = some o ∧ mapToTrackChannel mode (noteKeys parts) = some tcs ∧
      ∀ e ∈ imp.parts,
        (∀ tr, PartHasTrack imode tcs e.1 tr → ∀ xi ∈ parts.zipIdx,
          (tracksOfPart ((noteKeys parts).zip tcs) xi.2).contains tr = true →
          ∀ ts ∈ xi.1.base.ts, ts.1 ∉ (xi.1.measures.filter (C04D.irregular xi.1.base)).map (·.1) →
            (tick ex.ppq xi.1.base o ts.1, (ts.2.1 : Int), (ts.2.2 : Int)) ∈ e.2.timeSigs) ∧
        (∀ k ∈ e.2.timeSigs, k = (0, 4, 4) ∨ ∃ xi ∈ parts.zipIdx,
          (∃ ts ∈ xi.1.base.ts, k.1 = tick ex.ppq xi.1.base o ts.1) ∨
           ∃ m ∈ xi.1.measures, k.1 = tick ex.ppq xi.1.base o m.1 ∨ k.1 = tick ex.ppq xi.1.base o m.2) := by
  obtain ⟨o, tcs, ho, htc, hTS⟩ := time_sig_change_positions mode minPpq vel parts ex h
  obtain ⟨tcs', htc', hmemTC, htrch, _, _⟩ := import_track_channels mode .timeSigChange minPpq vel parts ex h hvel hw hno
  obtain ⟨tcs'', htc'', hrd, hne⟩ := import_reads_tracks mode .timeSigChange minPpq vel parts ex h hvel hw hno
  rw [htc] at htc' htc''
  cases htc'
  cases htc''
  refine ⟨o, tcs, ho, htc, ?_⟩
  intro e he
  have hfile := import_time_signatures_of_file imode ex.ppq _ imp hi e he
  rw [htrch] at hfile
  obtain ⟨hfrom, hkeep⟩ := hfile
  constructor
  · intro tr hc xi hxi hct ts hts hirr
    obtain ⟨c, hcm, hctr, hcp⟩ := hc
    have hc1 : c.1 ∈ tcs := (C04M.mem_sortedTC _ _).mp (List.of_mem_zip hcm).1
    have hch : (tr, c.1.2) ∈ tcs := by rw [← hctr]; exact hc1
    have hlt : tr < ex.tracks.length := ((hmemTC tr c.1.2).mp hch).1
    let rd : TrackRead := (tr, pairTrack (deltasFrom 0 ex.tracks[tr]), timeSigsOf ex.tracks[tr], keySigsOf ex.tracks[tr],
      temposOf ex.tracks[tr])
    have hrdm : rd ∈ readTracks (ex.tracks.map (deltasFrom 0)) := (hrd rd).mpr ⟨hlt, rfl⟩
    have hne' : rd.2.1.isEmpty = false := (hne tr hlt).mpr ⟨c.1.2, hch⟩
    refine hkeep rd hrdm hne' ⟨c, hcm, hctr, hcp⟩ _ ?_
    exact (C04IS.mem_timeSigsOf _ _ _ _).mpr ((hTS tr hlt).1 xi hxi hct ts hts hirr)
  · intro k hk
    rcases hfrom k hk with h0 | ⟨rd, hrdm, hkr⟩
    · exact Or.inl h0
    · right
      obtain ⟨hlt, hrdeq⟩ := (hrd rd).mp hrdm
      rw [hrdeq] at hkr
      simp only at hkr
      obtain ⟨t, n, d⟩ := k
      have hev := (C04IS.mem_timeSigsOf _ _ _ _).mp hkr
      obtain ⟨xi, hxi, _, hpos⟩ := (hTS rd.1 hlt).2 _ hev rfl
      exact ⟨xi, hxi, hpos⟩

-- ====================================================================== the same as executable functions of the score

theorem mem_tracksOfImported (imode : Nat) (tcs : List (Nat × Nat)) (pid tr : Nat) :
    tr ∈ tracksOfImported imode tcs pid ↔ PartHasTrack imode tcs pid tr := by
  unfold tracksOfImported PartHasTrack
  rw [C04G.mem_firstSeen, List.mem_map]
  constructor
  · rintro ⟨c, hc, rfl⟩
    rw [List.mem_filter] at hc
    exact ⟨c, hc.1, rfl, by simpa using hc.2⟩
  · rintro ⟨c, hc, rfl, hp⟩
    exact ⟨c, List.mem_filter.mpr ⟨hc, by simpa using hp⟩, rfl⟩

/-- **The imported signatures as functions of the score** (what the `impspec` stream of the harness compares with the
    real importer): for the import of an export, every export mode, import mode and policy,
    * the part numbers of the imported parts are, in order, those `assign_group_part_voice` hands out for the
      (track, channel) pairs of the note keys (`importedPartIds`);
    * the key signatures of every imported part are the list `specImportedKS` — equal as lists, not only as sets;
    * for `shift` / `pad_bar` the time signatures are `specImportedTS` (the assumed 4/4, the sanitize step and the
      ordinary case: `import_time_signature_cases`). -/
theorem import_signatures_spec (mode imode : Nat) (a : Anacrusis) (minPpq vel : Nat) (parts : List PartIn)
    (ex : Exported) (imp : Imported)
    (h : saveScoreMidi mode a minPpq vel parts = some ex)
    (hi : loadScoreMidi imode ex.ppq (ex.tracks.map (deltasFrom 0)) = some imp)
    (hvel : 0 < vel) (hw : ∀ x ∈ parts, C04T.WellFormed x.base)
    (hno : ∀ o tcs, origin a (parts.map (·.base)) = some o → mapToTrackChannel mode (noteKeys parts) = some tcs →
      ∀ tr, C04P.NoOverlap (routedTo ex.ppq o vel ((noteKeys parts).zip tcs) parts tr)) :
    ∃ o tcs, origin a (parts.map (·.base)) = some o ∧ mapToTrackChannel mode (noteKeys parts) = some tcs ∧
      imp.parts.map (fun e => some e.1) = importedPartIds imode tcs ∧
      (∀ e ∈ imp.parts, e.2.keySigs = specImportedKS imode ex.ppq o ((noteKeys parts).zip tcs) parts e.1) ∧
      (a ≠ .timeSigChange →
        ∀ e ∈ imp.parts, e.2.timeSigs = specImportedTS a imode ex.ppq o ((noteKeys parts).zip tcs) parts e.1) := by
  obtain ⟨o, tcs, ho, htc, hk⟩ := import_key_signature_positions mode imode a minPpq vel parts ex imp h hi hvel hw hno
  obtain ⟨tcs', htc', _, htrch, _, hlen⟩ := import_track_channels mode a minPpq vel parts ex h hvel hw hno
  rw [htc] at htc'
  cases htc'
  have hsnd : ((noteKeys parts).zip tcs).map (·.2) = tcs := C04I.zip_map_snd _ _ hlen
  refine ⟨o, tcs, ho, htc, ?_, ?_, ?_⟩
  · have hids := C04IS.import_part_ids imode ex.ppq _ imp hi
    dsimp only at hids
    rw [htrch] at hids
    rw [hids]
    unfold importedPartIds cellTable
    congr 1
    have hl : (sortedTC tcs).length = (assignGroupPartVoice imode (sortedTC tcs)).length :=
      (C04M.assign_length imode (sortedTC tcs)).symm
    conv_lhs => rw [← C04I.zip_map_snd (sortedTC tcs) (assignGroupPartVoice imode (sortedTC tcs)) hl]
    rw [List.map_map]
    rfl
  · intro e he
    obtain ⟨hsorted, hmem⟩ := hk e he
    apply C04IS.sorted_ext ltKS C04IS.ltKS_irrefl C04IS.ltKS_trans _ _ hsorted
      (C04IS.sortedSet_sorted ltKS C04IS.ltKS_trans _)
    rintro ⟨t, name⟩
    rw [hmem]
    rw [C04IS.mem_sortedSet ltKS C04IS.ltKS_tri, List.mem_flatMap, hsnd]
    constructor
    · rintro ⟨tr, hc, hx⟩
      exact ⟨tr, (mem_tracksOfImported imode tcs e.1 tr).mpr hc, (C04IS.mem_keySigsOf _ _ _).mpr hx⟩
    · rintro ⟨tr, hc, hx⟩
      exact ⟨tr, (mem_tracksOfImported imode tcs e.1 tr).mp hc, (C04IS.mem_keySigsOf _ _ _).mp hx⟩
  · intro ha e he
    obtain ⟨o₁, tcs₁, ho₁, htc₁, ht⟩ := import_time_signature_cases mode imode a minPpq vel parts ex imp h hi ha hvel hw hno
    rw [ho] at ho₁
    rw [htc] at htc₁
    cases ho₁
    cases htc₁
    obtain ⟨hsorted, hzero, hmixed, hall⟩ := ht e he
    have hmt : ∀ tr, tr ∈ specTracks ((noteKeys parts).zip tcs) ↔ ∃ ch, (tr, ch) ∈ tcs := by
      intro tr
      unfold specTracks
      rw [C04G.mem_firstSeen, hsnd, List.mem_map]
      constructor
      · rintro ⟨tc, htcm, rfl⟩; exact ⟨tc.2, htcm⟩
      · rintro ⟨ch, hch⟩; exact ⟨(tr, ch), hch, rfl⟩
    have hemp : ∀ tr, (specTrackTS a ex.ppq o ((noteKeys parts).zip tcs) parts tr).isEmpty = true ↔
        trackTS a ex.ppq o ((noteKeys parts).zip tcs) parts tr = [] := by
      intro tr
      rw [List.isEmpty_iff]
      unfold specTrackTS
      constructor
      · intro hnil
        apply List.eq_nil_iff_forall_not_mem.mpr
        intro x hx
        obtain ⟨t, n, d, rfl⟩ := trackTS_shape _ _ _ _ _ _ x hx
        have := (C04IS.mem_timeSigsOf _ t n d).mpr hx
        rw [hnil] at this
        simp at this
      · intro hnil
        rw [hnil]
        rfl
    have hmS : ∀ tr t n d, (t, n, d) ∈ specTrackTS a ex.ppq o ((noteKeys parts).zip tcs) parts tr ↔
        (t, Msg.timeSig n d) ∈ trackTS a ex.ppq o ((noteKeys parts).zip tcs) parts tr :=
      fun tr t n d => C04IS.mem_timeSigsOf _ t n d
    unfold specImportedTS
    by_cases hN : ∃ i ch, (i, ch) ∈ tcs ∧ trackTS a ex.ppq o ((noteKeys parts).zip tcs) parts i ≠ []
    · have hAll : (specTracks ((noteKeys parts).zip tcs)).all
          (fun tr => (specTrackTS a ex.ppq o ((noteKeys parts).zip tcs) parts tr).isEmpty) = false := by
        rw [List.all_eq_false]
        obtain ⟨i, ch, hch, hne⟩ := hN
        exact ⟨i, (hmt i).mpr ⟨ch, hch⟩, fun hc => hne ((hemp i).mp hc)⟩
      rw [hAll]
      simp only [Bool.false_eq_true, ↓reduceIte]
      by_cases hZ : ∃ i ch, (i, ch) ∈ tcs ∧ trackTS a ex.ppq o ((noteKeys parts).zip tcs) parts i = []
      · have hAny : (specTracks ((noteKeys parts).zip tcs)).any
            (fun tr => (specTrackTS a ex.ppq o ((noteKeys parts).zip tcs) parts tr).isEmpty) = true := by
          rw [List.any_eq_true]
          obtain ⟨i, ch, hch, hnil⟩ := hZ
          exact ⟨i, (hmt i).mpr ⟨ch, hch⟩, (hemp i).mpr hnil⟩
        rw [hAny]
        simp only [↓reduceIte]
        apply C04IS.sorted_ext ltTS C04IS.ltTS_irrefl C04IS.ltTS_trans _ _ hsorted
          (C04IS.sortedSet_sorted ltTS C04IS.ltTS_trans _)
        rintro ⟨t, n, d⟩
        rw [hmixed hZ hN t n d, C04IS.mem_sortedSet ltTS C04IS.ltTS_tri, List.mem_flatMap]
        constructor
        · rintro ⟨i, ch, hch, hx⟩
          exact ⟨i, (hmt i).mpr ⟨ch, hch⟩, (hmS i t n d).mpr hx⟩
        · rintro ⟨i, hi', hx⟩
          obtain ⟨ch, hch⟩ := (hmt i).mp hi'
          exact ⟨i, ch, hch, (hmS i t n d).mp hx⟩
      · have hAny : (specTracks ((noteKeys parts).zip tcs)).any
            (fun tr => (specTrackTS a ex.ppq o ((noteKeys parts).zip tcs) parts tr).isEmpty) = false := by
          rw [List.any_eq_false]
          intro i hi' hc
          obtain ⟨ch, hch⟩ := (hmt i).mp hi'
          exact hZ ⟨i, ch, hch, (hemp i).mp hc⟩
        rw [hAny]
        simp only [Bool.false_eq_true, ↓reduceIte]
        have hall' : ∀ i ch, (i, ch) ∈ tcs → trackTS a ex.ppq o ((noteKeys parts).zip tcs) parts i ≠ [] :=
          fun i ch hch hnil => hZ ⟨i, ch, hch, hnil⟩
        apply C04IS.sorted_ext ltTS C04IS.ltTS_irrefl C04IS.ltTS_trans _ _ hsorted
          (C04IS.sortedSet_sorted ltTS C04IS.ltTS_trans _)
        rintro ⟨t, n, d⟩
        rw [hall hall' t n d, C04IS.mem_sortedSet ltTS C04IS.ltTS_tri, List.mem_flatMap, hsnd]
        constructor
        · rintro ⟨tr, hc, hx⟩
          exact ⟨tr, (mem_tracksOfImported imode tcs e.1 tr).mpr hc, (hmS tr t n d).mpr hx⟩
        · rintro ⟨tr, hc, hx⟩
          exact ⟨tr, (mem_tracksOfImported imode tcs e.1 tr).mp hc, (hmS tr t n d).mp hx⟩
    · have hAll : (specTracks ((noteKeys parts).zip tcs)).all
          (fun tr => (specTrackTS a ex.ppq o ((noteKeys parts).zip tcs) parts tr).isEmpty) = true := by
        rw [List.all_eq_true]
        intro i hi'
        obtain ⟨ch, hch⟩ := (hmt i).mp hi'
        apply (hemp i).mpr
        by_contra hne
        exact hN ⟨i, ch, hch, hne⟩
      rw [hAll]
      simp only [↓reduceIte]
      apply hzero
      intro i ch hch
      by_contra hne
      exact hN ⟨i, ch, hch, hne⟩

/-- non-vacuity: the spec functions on `demoScore`, export mode 1 (one track), import mode 0 -/
example : importedPartIds 0 [(0, 1), (0, 1), (0, 2)] = [some 0] ∧
    specImportedKS 0 6 (-1) ((noteKeys demoScore).zip [(0, 1), (0, 1), (0, 2)]) demoScore 0 = [(0, "C")] ∧
    specImportedTS .shift 0 6 (-1) ((noteKeys demoScore).zip [(0, 1), (0, 1), (0, 2)]) demoScore 0 = [(0, 4, 4)] := by
  refine ⟨by decide +kernel, by decide +kernel, by decide +kernel⟩

-- ====================================================================== non-vacuity

/-- non-vacuity of the sanitize case of `import_time_signature_cases`, through the whole pipeline: two parts in two
    tracks (mode 0), the second without any time signature — both imported parts get the 3/4 of the first; and the spec
    function says so from the score alone -/
def sanitizeDemo : List PartIn :=
  [⟨0, ⟨2, [], 0, 12, none, [(0, 3, 4)]⟩, [], [], [(0, 6), (6, 12)], [(0, 6, 60, some 1)]⟩,
   ⟨1, ⟨2, [], 0, 12, none, []⟩, [], [], [(0, 6), (6, 12)], [(0, 6, 62, some 1)]⟩]

example : ((saveScoreMidi 0 .shift 0 64 sanitizeDemo).bind fun ex =>
    (loadScoreMidi 0 ex.ppq (ex.tracks.map (deltasFrom 0))).map fun imp => imp.parts.map fun e => (e.1, e.2.timeSigs)) =
    some [(0, [(0, 3, 4)]), (1, [(0, 3, 4)])] := by decide +kernel

example : mapToTrackChannel 0 (noteKeys sanitizeDemo) = some [(0, 1), (1, 1)] ∧
    specImportedTS .shift 0 2 0 ((noteKeys sanitizeDemo).zip [(0, 1), (1, 1)]) sanitizeDemo 1 = [(0, 3, 4)] ∧
    specImportedTS .shift 0 2 0 ((noteKeys (sanitizeDemo.drop 1)).zip [(0, 1)]) (sanitizeDemo.drop 1) 0 = [(0, 4, 4)] := by
  refine ⟨by decide +kernel, by decide +kernel, by decide +kernel⟩


/-- non-vacuity on `demoScore`, mode 0 (one track per part): each imported part has the key signature and the time
    signature of its score part at tick 0 -/
example : ((saveScoreMidi 0 .shift 0 64 demoScore).bind fun ex =>
    (loadScoreMidi 0 ex.ppq (ex.tracks.map (deltasFrom 0))).map fun imp => imp.parts.map fun e => (e.1, e.2.keySigs)) =
    some [(0, [(0, "C")]), (1, [(0, "C")])] := by decide +kernel

example : ((saveScoreMidi 0 .shift 0 64 demoScore).bind fun ex =>
    (loadScoreMidi 0 ex.ppq (ex.tracks.map (deltasFrom 0))).map fun imp => imp.parts.map fun e => (e.1, e.2.timeSigs)) =
    some [(0, [(0, 4, 4)]), (1, [(0, 4, 4)])] := by decide +kernel

/-- mode 1 puts both parts into one track: the two equal key signatures of the track are one entry of the set -/
example : ((saveScoreMidi 1 .timeSigChange 0 64 demoScore).bind fun ex =>
    (loadScoreMidi 1 ex.ppq (ex.tracks.map (deltasFrom 0))).map fun imp => imp.parts.map fun e => (e.1, e.2.keySigs)) =
    some [(0, [(0, "C")]), (1, [(0, "C")])] := by decide +kernel

/-- `PartHasTrack` on `demoScore`: exported with mode 0 (pairs (0,1), (0,2), (1,1)) and imported with mode 0, part 1 owns
    a cell of track 1 and none of track 0 -/
example : PartHasTrack 0 [(0, 1), (0, 2), (1, 1)] 1 1 ∧ ¬ PartHasTrack 0 [(0, 1), (0, 2), (1, 1)] 1 0 := by
  unfold PartHasTrack
  constructor <;> decide +kernel

/-- the sanitize step and the assumed 4/4 (any file): a track with notes and no time signature next to one with a
    3/4 gives both parts the 3/4; a file without any time signature gives 4/4 -/
example : (loadScoreMidi 0 480 [[(0, .timeSig 3 4), (0, .noteOn 0 60 64), (10, .noteOff 0 60 0)],
      [(0, .noteOn 0 62 64), (10, .noteOff 0 62 0)]]).map (fun imp => imp.parts.map fun e => (e.1, e.2.timeSigs)) =
    some [(0, [(0, 3, 4)]), (1, [(0, 3, 4)])] := by decide +kernel

example : (loadScoreMidi 0 480 [[(0, .noteOn 0 60 64), (10, .noteOff 0 60 0)]]).map
    (fun imp => imp.parts.map fun e => (e.1, e.2.timeSigs)) = some [(0, [(0, 4, 4)])] := by decide +kernel

-- ====================================================================== the property's sentence on signatures

/-- **"Time signatures, key signatures … appear at the same musical positions", end to end** (`shift`,
    `time_sig_change`), from hypotheses about the user's input only (those of `property_C04`): both stages return and
    * the key signatures of every imported part are exactly the key signatures of the score parts that have a note in a
      track from which the import mode builds the part, at the written ticks of their positions;
    * under `shift`, when every sounding part has a time signature, the same for the time signatures;
    * under `time_sig_change`, every time signature that does not start an irregular measure comes back at the written
      tick of its position, and every imported time signature stands at the tick of a time signature or a measure
      boundary of the score.
    The written tick of a position is its exact image `ppq * (quarter - origin)` (`export_ticks_exact`). -/
theorem property_C04_signatures (mode imode : Nat) (a : Anacrusis) (minPpq vel : Nat) (parts : List PartIn)
    (hm : mode ≤ 5) (him : imode ≤ 5) (ha : a ≠ .padBar) (hvel : 0 < vel)
    (hw : ∀ x ∈ parts, C04T.WellFormed x.base) (hnote : ∃ x ∈ parts, x.notes ≠ [])
    (hts : a = .timeSigChange → ∀ x ∈ parts, ∀ m ∈ x.measures, (tsAt x.base m.1).isSome)
    (hdom : ScoreNoOverlap mode parts) :
    ∃ ex imp o tcs, saveScoreMidi mode a minPpq vel parts = some ex ∧
      loadScoreMidi imode ex.ppq (ex.tracks.map (deltasFrom 0)) = some imp ∧
      origin a (parts.map (·.base)) = some o ∧ mapToTrackChannel mode (noteKeys parts) = some tcs ∧
      (∀ x ∈ parts, ∀ t, ((tick ex.ppq x.base o t : Int) : Rat) = (ex.ppq : Rat) * (quarter x.base t - o)) ∧
      (∀ e ∈ imp.parts, ∀ t name, (t, name) ∈ e.2.keySigs ↔
        ∃ tr, PartHasTrack imode tcs e.1 tr ∧
          (t, Msg.keySig name) ∈ trackKS ex.ppq o ((noteKeys parts).zip tcs) parts tr) ∧
      (a = .shift → (∀ x ∈ parts, x.notes ≠ [] → x.base.ts ≠ []) →
        ∀ e ∈ imp.parts, ∀ t n d, (t, n, d) ∈ e.2.timeSigs ↔
          ∃ tr, PartHasTrack imode tcs e.1 tr ∧
            (t, Msg.timeSig n d) ∈ trackTS a ex.ppq o ((noteKeys parts).zip tcs) parts tr) ∧
      (a = .timeSigChange → ∀ e ∈ imp.parts,
        (∀ tr, PartHasTrack imode tcs e.1 tr → ∀ xi ∈ parts.zipIdx,
          (tracksOfPart ((noteKeys parts).zip tcs) xi.2).contains tr = true →
          ∀ ts ∈ xi.1.base.ts, ts.1 ∉ (xi.1.measures.filter (C04D.irregular xi.1.base)).map (·.1) →
            (tick ex.ppq xi.1.base o ts.1, (ts.2.1 : Int), (ts.2.2 : Int)) ∈ e.2.timeSigs) ∧
        (∀ k ∈ e.2.timeSigs, k = (0, 4, 4) ∨ ∃ xi ∈ parts.zipIdx,
          (∃ ts ∈ xi.1.base.ts, k.1 = tick ex.ppq xi.1.base o ts.1) ∨
           ∃ m ∈ xi.1.measures, k.1 = tick ex.ppq xi.1.base o m.1 ∨ k.1 = tick ex.ppq xi.1.base o m.2)) := by
  obtain ⟨ex, imp, o, tcs, h, hi, ho, htc, _, _, _, _, _⟩ :=
    property_C04 mode imode a minPpq vel parts hm him ha hvel hw hnote hts hdom
  have hno := score_domain_gives_tick_domain mode a minPpq vel parts ex h ha hw hdom
  obtain ⟨o₀, ho₀, _, hexact⟩ := export_ticks_exact mode a minPpq vel parts ex h ha hw
  rw [ho] at ho₀
  cases ho₀
  refine ⟨ex, imp, o, tcs, h, hi, ho, htc, hexact, ?_, ?_, ?_⟩
  · obtain ⟨o₁, tcs₁, ho₁, htc₁, hk⟩ := import_key_signature_positions mode imode a minPpq vel parts ex imp h hi hvel hw hno
    rw [ho] at ho₁
    rw [htc] at htc₁
    cases ho₁
    cases htc₁
    exact fun e he => (hk e he).2
  · intro hsh hts' 
    obtain ⟨o₁, tcs₁, ho₁, htc₁, hk⟩ := import_time_signature_positions mode imode a minPpq vel parts ex imp h hi
      (by rw [hsh]; decide) hvel hw hts' hno
    rw [ho] at ho₁
    rw [htc] at htc₁
    cases ho₁
    cases htc₁
    exact fun e he => (hk e he).2
  · intro htsc
    subst htsc
    obtain ⟨o₁, tcs₁, ho₁, htc₁, hk⟩ := import_time_sig_change_positions mode imode minPpq vel parts ex imp h hi hvel hw hno
    rw [ho] at ho₁
    rw [htc] at htc₁
    cases ho₁
    cases htc₁
    exact hk

/-- **The importer's options are at the defaults the model assumes** (Gen/C04Sig.lean is regenerated from the live
    signature of `load_score_midi` on every run): the default call does not quantize the ticks, does not estimate
    voices and does not replace the key signatures of the file by an estimated key — the three steps `loadScoreMidi`
    leaves out, so that the theorems about the imported key signatures speak of what a default import returns. -/
theorem import_options_default_off :
    Gen.C04Sig.extractionOk = true ∧ Gen.C04Sig.importQuantizes = false ∧
    Gen.C04Sig.importEstimatesVoices = false ∧ Gen.C04Sig.importEstimatesKey = false :=
  ⟨rfl, rfl, rfl, rfl⟩

/-- **The signatures of the re-imported score as functions of the score**, end to end (`shift`, `time_sig_change`;
    hypotheses of `property_C04`, about the user's input only): both stages return, the imported parts are numbered
    `importedPartIds`, the key signatures of every imported part are the list `specImportedKS` and, under `shift`, its
    time signatures are the list `specImportedTS` — whatever time signatures the score parts have or lack. -/
theorem property_C04_signatures_spec (mode imode : Nat) (a : Anacrusis) (minPpq vel : Nat) (parts : List PartIn)
    (hm : mode ≤ 5) (him : imode ≤ 5) (ha : a ≠ .padBar) (hvel : 0 < vel)
    (hw : ∀ x ∈ parts, C04T.WellFormed x.base) (hnote : ∃ x ∈ parts, x.notes ≠ [])
    (hts : a = .timeSigChange → ∀ x ∈ parts, ∀ m ∈ x.measures, (tsAt x.base m.1).isSome)
    (hdom : ScoreNoOverlap mode parts) :
    ∃ ex imp o tcs, saveScoreMidi mode a minPpq vel parts = some ex ∧
      loadScoreMidi imode ex.ppq (ex.tracks.map (deltasFrom 0)) = some imp ∧
      origin a (parts.map (·.base)) = some o ∧ mapToTrackChannel mode (noteKeys parts) = some tcs ∧
      imp.parts.map (fun e => some e.1) = importedPartIds imode tcs ∧
      (∀ e ∈ imp.parts, e.2.keySigs = specImportedKS imode ex.ppq o ((noteKeys parts).zip tcs) parts e.1) ∧
      (a = .shift → ∀ e ∈ imp.parts,
        e.2.timeSigs = specImportedTS a imode ex.ppq o ((noteKeys parts).zip tcs) parts e.1) := by
  obtain ⟨ex, imp, o, tcs, h, hi, ho, htc, _, _, _, _, _⟩ :=
    property_C04 mode imode a minPpq vel parts hm him ha hvel hw hnote hts hdom
  have hno := score_domain_gives_tick_domain mode a minPpq vel parts ex h ha hw hdom
  obtain ⟨o₁, tcs₁, ho₁, htc₁, hids, hks, htss⟩ := import_signatures_spec mode imode a minPpq vel parts ex imp h hi hvel hw hno
  rw [ho] at ho₁
  rw [htc] at htc₁
  cases ho₁
  cases htc₁
  exact ⟨ex, imp, o, tcs, h, hi, ho, htc, hids, hks, fun hsh => htss (by rw [hsh]; decide)⟩

end C04
