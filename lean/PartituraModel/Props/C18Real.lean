/-
C18 — the logarithmic parts of the performance codec, over the real numbers.

`articulation_log = log2(pd / (bp·sd))`, decoded as `2^articulation_log · sd · bp`;
`beat_period_log = log2(bp)`, `beat_period_ratio_log = log2(bp / mean)`, decoded by `2^·`.
The binary32/64 implementation is compared with these on every generated case
(harness/props/c18.py, tolerance 2^-20 relative).
-/
import Mathlib.Analysis.SpecialFunctions.Log.Base

namespace C18

/-- `encode_articulation` for a note with positive score duration -/
noncomputable def encodeArt (bp sd pd : ℝ) : ℝ := Real.logb 2 (pd / (bp * sd))
/-- `decode_articulation` -/
noncomputable def decodeArt (sd art bp : ℝ) : ℝ := (2 : ℝ) ^ art * sd * bp

/-- the performed duration of a note with positive score duration is reproduced, for every positive
    beat period (whatever the tempo-curve method) -/
theorem articulation_roundtrip (bp sd pd : ℝ) (hb : 0 < bp) (hs : 0 < sd) (hp : 0 < pd) :
    decodeArt sd (encodeArt bp sd pd) bp = pd := by
  unfold decodeArt encodeArt
  have h : 0 < pd / (bp * sd) := div_pos hp (mul_pos hb hs)
  rw [Real.rpow_logb (by norm_num) (by norm_num) h]
  field_simp

example : decodeArt (1/2) (encodeArt (3/4) (1/2) (1/8)) (3/4) = 1/8 :=
  articulation_roundtrip _ _ _ (by norm_num) (by norm_num) (by norm_num)

end C18
