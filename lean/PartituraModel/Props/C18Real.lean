/-
C18 — the logarithmic parts of the performance codec, over the real numbers.

`articulation_log = log2(pd / (bp·sd))`, decoded as `2^articulation_log · sd · bp`;
`beat_period_log = log2(bp)`, `beat_period_ratio_log = log2(bp / mean)`, decoded by `2^·`.
The binary32/64 implementation is compared with these on every generated case
(harness/props/c18.py, tolerance 2^-20 relative).
-/
import Mathlib.Analysis.SpecialFunctions.Log.Base

namespace C18

/-- `encode_articulation` for a note with positive score duration -/
noncomputable def encodeArt (bp sd pd : ℝ) : ℝ := Real.logb 2 (pd / (bp * sd))
/-- `decode_articulation` -/
noncomputable def decodeArt (sd art bp : ℝ) : ℝ := (2 : ℝ) ^ art * sd * bp

/-- the performed duration of a note with positive score duration is reproduced, for every positive
    beat period (whatever the tempo-curve method) -/
theorem articulation_roundtrip (bp sd pd : ℝ) (hb : 0 < bp) (hs : 0 < sd) (hp : 0 < pd) :
    decodeArt sd (encodeArt bp sd pd) bp = pd := by
  unfold decodeArt encodeArt
  have h : 0 < pd / (bp * sd) := div_pos hp (mul_pos hb hs)
  rw [Real.rpow_logb (by norm_num) (by norm_num) h]
  field_simp

example : decodeArt (1/2) (encodeArt (3/4) (1/2) (1/8)) (3/4) = 1/8 :=
  articulation_roundtrip _ _ _ (by norm_num) (by norm_num) (by norm_num)

/-- grace notes: `encode_articulation` stores `log2(bp / (bp·1)) = 0` whatever the performed duration … -/
theorem articulation_grace_encoded (bp : ℝ) (hb : bp ≠ 0) : Real.logb 2 (bp / (bp * 1)) = 0 := by
  rw [mul_one, div_self hb, Real.logb_one]

/-- … and `decode_articulation` multiplies by the score duration 0: the performed duration of a grace
    note is NOT reproduced (open finding F-C18-2); this is all that holds for notes without score duration -/
theorem articulation_grace_partial (art bp : ℝ) : decodeArt 0 art bp = 0 := by
  unfold decodeArt; ring

/-- the negation of the round trip at the witness: a grace note played for 1/8 s -/
example : decodeArt 0 (Real.logb 2 ((3/4 : ℝ) / (3/4 * 1))) (3/4) ≠ 1/8 := by
  rw [articulation_grace_partial]; norm_num

/-- the one fact about logarithms the exact round trip needs: `C18.performance_roundtrip`
    (Props/C18Pipeline, over ℚ) passes the articulation ratio and the two logarithmic tempo columns
    through abstract `L`, `E` with `E (L r) = r` for positive `r`; for the functions the code uses
    (`np.log2`, `2 ** ·`) this is that hypothesis, over the reals -/
theorem exp2_log2 (r : ℝ) (hr : 0 < r) : (2 : ℝ) ^ Real.logb 2 r = r :=
  Real.rpow_logb (by norm_num) (by norm_num) hr

example : (2 : ℝ) ^ Real.logb 2 (6 / 5) = 6 / 5 := exp2_log2 _ (by norm_num)

-- ------------------------------------------------------------------ tempo normalisations

-- (`beat_period`: scale and rescale are the identity on the column — `C18.normalisation_inverse` with `.bp`)

/-- `beat_period_log`: `2 ** log2(b) = b` -/
theorem normalisation_inverse_log (b : ℝ) (hb : 0 < b) : (2 : ℝ) ^ Real.logb 2 b = b :=
  Real.rpow_logb (by norm_num) (by norm_num) hb

/-- `beat_period_ratio`: `(b / mean) * mean = b` -/
theorem normalisation_inverse_ratio (b m : ℝ) (hm : m ≠ 0) : b / m * m = b := by
  field_simp

/-- `beat_period_ratio_log`: `2 ** log2(b / mean) * mean = b` -/
theorem normalisation_inverse_ratio_log (b m : ℝ) (hb : 0 < b) (hm : 0 < m) :
    (2 : ℝ) ^ Real.logb 2 (b / m) * m = b := by
  rw [Real.rpow_logb (by norm_num) (by norm_num) (div_pos hb hm)]
  field_simp

noncomputable def meanR (l : List ℝ) : ℝ := l.sum / l.length
/-- `np.std` -/
noncomputable def stdR (l : List ℝ) : ℝ := Real.sqrt (meanR (l.map fun b => (b - meanR l) ^ 2))

private theorem sum_nonneg' (l : List ℝ) (h : ∀ x ∈ l, 0 ≤ x) : 0 ≤ l.sum := by
  induction l with
  | nil => simp
  | cons a as ih =>
    rw [List.sum_cons]
    have := h a (by simp)
    have := ih (fun x hx => h x (by simp [hx]))
    linarith

private theorem sum_eq_zero' (l : List ℝ) (h : ∀ x ∈ l, 0 ≤ x) (h0 : l.sum = 0) : ∀ x ∈ l, x = 0 := by
  induction l with
  | nil => simp
  | cons a as ih =>
    rw [List.sum_cons] at h0
    have h1 := h a (by simp)
    have h2 := sum_nonneg' as (fun x hx => h x (by simp [hx]))
    intro x hx
    rcases List.mem_cons.mp hx with rfl | hx
    · linarith
    · exact ih (fun y hy => h y (by simp [hy])) (by linarith) x hx

/-- `beat_period_standardized` (with the repair C18-7: zero deviation scales to 0):
    `z * std + mean = b` for every beat period of the curve, constant curves included -/
theorem normalisation_inverse_standardized (l : List ℝ) (b : ℝ) (hb : b ∈ l) :
    (if stdR l = 0 then 0 else (b - meanR l) / stdR l) * stdR l + meanR l = b := by
  by_cases h0 : stdR l = 0
  · rw [if_pos h0, h0]
    have hne : l ≠ [] := by intro h; simp [h] at hb
    have hlen : (0 : ℝ) < l.length := by
      have : 0 < l.length := List.length_pos_iff.mpr hne
      exact_mod_cast this
    have hnn : ∀ x ∈ l.map (fun b => (b - meanR l) ^ 2), 0 ≤ x := by
      intro x hx
      obtain ⟨c, _, rfl⟩ := List.mem_map.mp hx
      exact sq_nonneg _
    have hm0 : meanR (l.map fun b => (b - meanR l) ^ 2) = 0 := by
      have hge : 0 ≤ meanR (l.map fun b => (b - meanR l) ^ 2) := by
        unfold meanR
        exact div_nonneg (sum_nonneg' _ hnn) (by simp)
      unfold stdR at h0
      exact (Real.sqrt_eq_zero hge).mp h0
    have hs0 : (l.map fun b => (b - meanR l) ^ 2).sum = 0 := by
      unfold meanR at hm0
      rw [List.length_map] at hm0
      rcases div_eq_zero_iff.mp hm0 with h | h
      · exact h
      · linarith
    have := sum_eq_zero' _ hnn hs0 ((b - meanR l) ^ 2) (List.mem_map.mpr ⟨b, hb, rfl⟩)
    have : b - meanR l = 0 := pow_eq_zero_iff (by norm_num) |>.mp this
    linarith
  · rw [if_neg h0]
    field_simp
    ring

example : (1 : ℝ) ∈ [(1 : ℝ), 3] := by simp

end C18
