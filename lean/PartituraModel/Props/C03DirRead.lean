/-
C03 — the element-by-element model of `_handle_direction` refines the pairing by number.

  Model/XmlDir.lean   `readDirections` (every `<direction>` of a part through `handleDirection`: the `ongoing` dict with its
                      wedge, dashes and pedal keys, `starting_directions` / `ending_directions`, the ends set at the
                      position of the stopping element), `slotAll` (ongoing[(kind, number)] as a finite map)
tied to the code by harness/props/c03.py streams dirs / slots.
-/
import PartituraModel.Proofs.C03DirRead
import PartituraModel.Props.C03Codec

namespace C03
open Model Model.XmlNote Model.XmlDir C03.DirRead

/-- **wedges_read.**  For every sequence of `<direction>` elements the exporter can write — dynamics marks, wedge starts and
    stops, words with and without dashes, dashes stops, pedal starts and stops, in any order and number, with any numbers
    other than 0 — the objects `readDirections` builds (the importer's `_handle_direction` element by element, wedges, dashes
    and pedals sharing one list of objects and one `ongoing` dict) contain as ended wedges exactly the pairs (start element,
    stop element) that `slotAll` closes on the wedge elements alone, and `ongoing[("wedge", n)]` holds exactly the start
    element `slotAll` has under `n`: dashes stops, pedals and new objects never touch a wedge. -/
theorem wedges_read (ws : List DirW) (hn : ∀ w ∈ ws, NumOK w) :
    (∀ a b, WPair (readDirections (ws.map canonDir)).objs a b ↔ (a, b) ∈ (slotAll (wedgeMarks ws)).2) ∧
    ∀ m : Nat, (Model.lookup (m : Int) (readDirections (ws.map canonDir)).wedge).bind
        (fun i => ((readDirections (ws.map canonDir)).objs[i]?).map (·.start)) =
      Model.lookup m (slotAll (wedgeMarks ws)).1 :=
  ⟨(readDirections_inv ws hn).closed, (readDirections_inv ws hn).wslots⟩

/-- **wedges_roundtrip.**  `wedges_read` composed with `wedges_paired`: when the wedge elements of the document are the ones
    the exporter's counter numbers (`marksOf`) for ranges that are met once as a start and once as a stop, start first,
    the wedge objects the importer builds are exactly the closed ranges, each from its own start element to its own stop
    element. -/
theorem wedges_roundtrip (ws : List DirW) (hn : ∀ w ∈ ws, NumOK w) (label : Nat) (tbl : Nat → C03.Ranges.Rng)
    (evs : List C03.Ranges.REv) (hwf : C03.Ranges.WFEvs [] [] evs) (hsf : C03.Slots.StartFirst [] evs)
    (hmarks : wedgeMarks ws = C03.Ranges.marksOf label tbl [] evs) (a b : Nat) :
    WPair (readDirections (ws.map canonDir)).objs a b ↔
      (a, b) ∈ (C03.Ranges.closedBy [] evs).map (fun r => ((tbl r).sN, (tbl r).eN)) := by
  rw [(wedges_read ws hn).1 a b, hmarks, (wedges_paired label tbl evs hwf hsf).1]

/-- two overlapping wedges (numbers 1 and 2), a pedal and words with dashes in between: elements 0 … 7 -/
example :
    let ws : List DirW := [.wedgeStart true 1 none, .pedalStart true none, .wedgeStart false 2 (some 2),
      .words ['c', 'r', 'e', 's', 'c', '.'] (some 1) none, .rangeStop true 1, .rangeStop false 1, .pedalStop true none,
      .rangeStop true 2]
    (∀ w ∈ ws, NumOK w) ∧ (slotAll (wedgeMarks ws)).2 = [(0, 4), (2, 7)] ∧
      (readDirections (ws.map canonDir)).objs.map (fun o => (o.start, o.kind, o.stop)) =
        [(0, 1, some 4), (1, 4, some 6), (2, 2, some 7), (3, 3, some 5)] := by
  refine ⟨?_, by decide, by decide⟩
  intro w hw
  simp only [List.mem_cons, List.not_mem_nil, or_false] at hw
  rcases hw with rfl | rfl | rfl | rfl | rfl | rfl | rfl | rfl <;> simp [NumOK]

/-- **pedals_read.**  The same for pedals, which share one slot (`ongoing[("pedal", 1)]`): for every sequence of elements the
    exporter can write, the pedal objects `readDirections` ends are exactly the pairs of the one-slot machine `pedStep` on the
    pedal elements alone — a stop ends the open pedal, a start ends the open pedal at its own position and opens the next;
    wedges, dashes and other objects never touch a pedal. -/
theorem pedals_read (ws : List DirW) (a b : Nat) :
    PPair (readDirections (ws.map canonDir)).objs a b ↔ (a, b) ∈ (pedalAll ws).2 :=
  (readDirections_pinv ws).pclosed a b

/-- **pedals_paired.**  When the pedal elements of the document come start / stop in turn — what `do_directions` writes for
    pedals that do not overlap — every pedal comes back from its own start element to its own stop element, and nothing
    else is a pedal. -/
theorem pedals_paired (ws : List DirW) (ps : List (Nat × Nat))
    (hmarks : ((ws.zipIdx).filterMap fun wi => pedalMark wi.2 wi.1) = ps.flatMap fun p => [(p.1, true), (p.2, false)])
    (a b : Nat) : PPair (readDirections (ws.map canonDir)).objs a b ↔ (a, b) ∈ ps := by
  rw [pedals_read, pedalAll, hmarks, pedal_alternating]
  simp

/-- two pedals, a wedge in between: elements 0 … 5 -/
example :
    let ws : List DirW := [.pedalStart true none, .wedgeStart true 1 none, .pedalStop true none, .pedalStart false (some 2),
      .rangeStop true 1, .pedalStop false (some 2)]
    ((ws.zipIdx).filterMap fun wi => pedalMark wi.2 wi.1) = [(0, 2), (3, 5)].flatMap fun p => [(p.1, true), (p.2, false)] := by
  decide

/-- a pedal start while a pedal is down ends that pedal where the new one starts -/
example : (pedalAll [.pedalStart true none, .pedalStart true none, .pedalStop true none]).2 = [(0, 1), (1, 2)] := by decide

/-- **dashes_read.**  And for dashes (`ongoing[("dashes", n)]` holds the objects of the element that opened them, which a
    dashes stop ends): the words objects `readDirections` ends are exactly the pairs `slotAll` closes on the dashes elements
    alone, and what is kept under each number is the start element `slotAll` has there. -/
theorem dashes_read (ws : List DirW) (hn : ∀ w ∈ ws, NumOK w) :
    (∀ a b, DPair (readDirections (ws.map canonDir)).objs a b ↔ (a, b) ∈ (slotAll (dashesMarks ws)).2) ∧
    ∀ m : Nat, (Model.lookup (m : Int) (readDirections (ws.map canonDir)).dashes).bind
        (fun l => l.head?.bind fun i => ((readDirections (ws.map canonDir)).objs[i]?).map (·.start)) =
      Model.lookup m (slotAll (dashesMarks ws)).1 :=
  ⟨(readDirections_dinv ws hn).dclosed, (readDirections_dinv ws hn).dslots⟩

/-- **dashes_roundtrip.**  `dashes_read` composed with `wedges_paired` (which holds for any label of the counter). -/
theorem dashes_roundtrip (ws : List DirW) (hn : ∀ w ∈ ws, NumOK w) (label : Nat) (tbl : Nat → C03.Ranges.Rng)
    (evs : List C03.Ranges.REv) (hwf : C03.Ranges.WFEvs [] [] evs) (hsf : C03.Slots.StartFirst [] evs)
    (hmarks : dashesMarks ws = C03.Ranges.marksOf label tbl [] evs) (a b : Nat) :
    DPair (readDirections (ws.map canonDir)).objs a b ↔
      (a, b) ∈ (C03.Ranges.closedBy [] evs).map (fun r => ((tbl r).sN, (tbl r).eN)) := by
  rw [(dashes_read ws hn).1 a b, hmarks, (wedges_paired label tbl evs hwf hsf).1]

end C03
