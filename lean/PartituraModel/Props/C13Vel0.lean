/-
C13, round 6 — the cell clauses for ALL MIDI velocities 0..127 (until round 5: `0 < vel` assumed).

A note of velocity 0 is drawn like any other (`_idx_fill` gets its rows) but writes the value 0: scipy keeps an explicit
zero, `toarray()` shows 0.  "Non-zero exactly when a note of pitch p sounds during frame j" therefore reads, for
velocities `≥ 0`: non-zero exactly when a note of NON-ZERO velocity covers the cell — a velocity-0 note never hides a
sounding one (the maximum wins) and never lights a cell.  With `0 < vel` everywhere these are `cell_iff`,
`cell_binary`, `idx_designate` again.

Stated for `makeWith fl` (every rounding function: `f64` = the code, `id` = the exact reading) and for `makePianoroll`.
-/
import PartituraModel.Props.C13Raster

namespace C13
open Model Model.PianoRoll
open List

/-- **cell (p, j) is non-zero exactly when a note of non-zero velocity sounds there** — all velocities `≥ 0` -/
theorem raster_cell_iff_sounding (fl : Rat → Rat) (o : Opts) (notes : List Note) (r : Roll)
    (h : makeWith fl o notes = some r) (hv : ∀ n ∈ notes, 0 ≤ n.vel) (p j : Int) (hp0 : 0 ≤ p) (hp1 : p < r.rows) :
    r.cell p j ≠ 0 ↔ ∃ n ∈ notes, CoversG fl o notes n (p + r.rowStart) j ∧ n.vel ≠ 0 := by
  obtain ⟨h1, h2⟩ := raster_cell_value fl o notes r h p j hp0 hp1
  constructor
  · intro hne
    have hc : ∃ n ∈ notes, CoversG fl o notes n (p + r.rowStart) j := by
      by_contra hc
      exact hne (h1 hc)
    obtain ⟨n, hn, hcov, _, he⟩ := h2 hc
    refine ⟨n, hn, hcov, ?_⟩
    intro h0
    apply hne
    rw [he, h0]
    simp
  · rintro ⟨n', hn', hc', hv'⟩
    obtain ⟨n, hn, _, hmax, he⟩ := h2 ⟨n', hn', hc'⟩
    have h1' := hmax n' hn' hc'
    have h2' := hv n' hn'
    rw [he]
    split <;> omega

/-- the value of a sounding cell is positive, the value of any cell non-negative — all velocities `≥ 0` -/
theorem raster_cell_nonneg (fl : Rat → Rat) (o : Opts) (notes : List Note) (r : Roll)
    (h : makeWith fl o notes = some r) (hv : ∀ n ∈ notes, 0 ≤ n.vel) (p j : Int) (hp0 : 0 ≤ p) (hp1 : p < r.rows) :
    0 ≤ r.cell p j := by
  obtain ⟨h1, h2⟩ := raster_cell_value fl o notes r h p j hp0 hp1
  by_cases hc : ∃ n ∈ notes, CoversG fl o notes n (p + r.rowStart) j
  · obtain ⟨n, hn, _, _, he⟩ := h2 hc
    have := hv n hn
    rw [he]
    split <;> omega
  · rw [h1 hc]

/-- **binary mode**: every cell is 0 or 1, and it is 1 exactly when a note of non-zero velocity sounds there -/
theorem raster_cell_binary_sounding (fl : Rat → Rat) (o : Opts) (notes : List Note) (r : Roll)
    (h : makeWith fl o notes = some r) (hv : ∀ n ∈ notes, 0 ≤ n.vel) (hb : o.binary = true)
    (p j : Int) (hp0 : 0 ≤ p) (hp1 : p < r.rows) :
    (r.cell p j = 0 ∨ r.cell p j = 1) ∧
    (r.cell p j = 1 ↔ ∃ n ∈ notes, CoversG fl o notes n (p + r.rowStart) j ∧ n.vel ≠ 0) := by
  have hiff := raster_cell_iff_sounding fl o notes r h hv p j hp0 hp1
  obtain ⟨h1, h2⟩ := raster_cell_value fl o notes r h p j hp0 hp1
  have h01 : r.cell p j = 0 ∨ r.cell p j = 1 := by
    by_cases hc : ∃ n ∈ notes, CoversG fl o notes n (p + r.rowStart) j
    · obtain ⟨n, hn, _, _, he⟩ := h2 hc
      rw [he]
      by_cases h0 : n.vel = 0
      · left; simp [h0]
      · right; rw [if_pos ⟨hb, h0⟩]
    · left; exact h1 hc
  refine ⟨h01, ?_⟩
  rw [← hiff]
  rcases h01 with h0 | h0 <;> simp [h0]

/-- **the index rows of the sounding notes designate exactly the non-zero cells** (all velocities `≥ 0`): cell
    `(p, j)` is non-zero iff the index row of some note of non-zero velocity has vertical position `p` and
    `onset ≤ j < offset` (in onset mode: `j = onset`); the rows themselves are `raster_idx_rows`, in input order -/
theorem raster_idx_designate_sounding (fl : Rat → Rat) (o : Opts) (notes : List Note) (r : Roll)
    (h : makeWith fl o notes = some r) (hv : ∀ n ∈ notes, 0 ≤ n.vel) (p j : Int) (hp0 : 0 ≤ p) (hp1 : p < r.rows) :
    r.cell p j ≠ 0 ↔
      ∃ n ∈ notes, n.vel ≠ 0 ∧
        rowOf o (lowestOf o notes) n - r.rowStart = p ∧ onFrameG fl o (t0Of o notes) n ≤ j ∧
        j < (if o.onsetOnly then onFrameG fl o (t0Of o notes) n + 1 else offIdxG fl o (t0Of o notes) n) := by
  rw [raster_cell_iff_sounding fl o notes r h hv p j hp0 hp1]
  simp only [CoversG]
  constructor
  · rintro ⟨n, hn, ⟨h1, h2, h3⟩, h0⟩
    refine ⟨n, hn, h0, by omega, h2, ?_⟩
    unfold offCellG at h3
    simpa using h3
  · rintro ⟨n, hn, h0, h1, h2, h3⟩
    refine ⟨n, hn, ⟨by omega, h2, ?_⟩, h0⟩
    unfold offCellG
    simpa using h3

/-- the exact reading (`makePianoroll`): non-zero exactly when a note of non-zero velocity sounds there -/
theorem cell_iff_sounding (o : Opts) (notes : List Note) (r : Roll) (h : makePianoroll o notes = some r)
    (hv : ∀ n ∈ notes, 0 ≤ n.vel) (p j : Int) (hp0 : 0 ≤ p) (hp1 : p < r.rows) :
    r.cell p j ≠ 0 ↔ ∃ n ∈ notes, Covers o notes n (p + r.rowStart) j ∧ n.vel ≠ 0 := by
  obtain ⟨h1, h2⟩ := cell_value o notes r h p j hp0 hp1
  constructor
  · intro hne
    have hc : ∃ n ∈ notes, Covers o notes n (p + r.rowStart) j := by
      by_contra hc
      exact hne (h1 hc)
    obtain ⟨n, hn, hcov, _, he⟩ := h2 hc
    refine ⟨n, hn, hcov, ?_⟩
    intro h0
    apply hne
    rw [he, h0]
    simp
  · rintro ⟨n', hn', hc', hv'⟩
    obtain ⟨n, hn, _, hmax, he⟩ := h2 ⟨n', hn', hc'⟩
    have h1' := hmax n' hn' hc'
    have h2' := hv n' hn'
    rw [he]
    split <;> omega

/-- with MIDI velocities `> 0` the sounding clause is `raster_cell_iff` again (the new theorem extends it) -/
theorem raster_cell_iff_of_sounding (fl : Rat → Rat) (o : Opts) (notes : List Note) (r : Roll)
    (h : makeWith fl o notes = some r) (hv : ∀ n ∈ notes, 0 < n.vel) (p j : Int) (hp0 : 0 ≤ p) (hp1 : p < r.rows) :
    r.cell p j ≠ 0 ↔ ∃ n ∈ notes, CoversG fl o notes n (p + r.rowStart) j := by
  rw [raster_cell_iff_sounding fl o notes r h (fun n hn => le_of_lt (hv n hn)) p j hp0 hp1]
  constructor
  · rintro ⟨n, hn, hc, _⟩; exact ⟨n, hn, hc⟩
  · rintro ⟨n, hn, hc⟩; exact ⟨n, hn, hc, ne_of_gt (hv n hn)⟩

/-- non-vacuity: a velocity-0 note over the frames 0..3 of pitch 60, a velocity-70 note over 1..2: the cells the silent
    note covers alone are 0, the shared ones 70 (1 in binary mode); decoding finds the sounding note only -/
example : (makePianoroll { exOpts with removeSilence := false } [⟨60, 0, 2, 0⟩, ⟨60, 1/2, 1, 70⟩]).map
    (fun r => ((List.range 4).map fun (j : Nat) => r.cell 60 j, r.idx)) =
    some ([0, 70, 70, 0], [(60, 0, 4, 60), (60, 1, 3, 60)]) := by decide +kernel
example : (makePianoroll { exOpts with removeSilence := false, binary := true } [⟨60, 0, 2, 0⟩, ⟨60, 1/2, 1, 70⟩]).map
    (fun r => (List.range 4).map fun (j : Nat) => r.cell 60 j) = some [0, 1, 1, 0] := by decide +kernel
example : (makePianoroll { exOpts with removeSilence := false } [⟨60, 0, 2, 0⟩, ⟨60, 1/2, 1, 70⟩]).bind
    (fun r => decode r.rows.toNat r.toCols 2) = some [(60, 1/2, 1, 70)] := by decide +kernel

end C13
