/-
C16 — transposition moves every note by the interval and leaves the input alone.
Theorems over Model/Transpose.lean (the repaired `_transpose_note_inplace` arithmetic).
-/
import PartituraModel.Model.Transpose
import Mathlib.Tactic.IntervalCases

namespace C16
open Model Gen

/-- the two regenerated tables the arithmetic rests on: seven steps, C major base classes -/
def upOK (i k : Nat) : Bool :=
  match basePcIdx i, basePcIdx ((i + k) % 7) with
  | some bi, some bj => decide ((bj - bi) % 12 = bj - bi + (if (i + k) % 7 < i then 12 else 0))
  | _, _ => false

def downOK (i k : Nat) : Bool :=
  match basePcIdx i, basePcIdx ((((i : Int) - (k : Int)) % 7).toNat) with
  | some bi, some bj =>
    decide ((bi - bj) % 12 = bi - bj + (if (((i : Int) - (k : Int)) % 7).toNat > i then 12 else 0))
  | _, _ => false

/-- whole-table obligation (re-checked whenever STEPS / MIDI_BASE_CLASS change in the source):
    going up k steps from step i, the distance between the natural steps modulo 12 is the plain
    difference plus an octave exactly when the step index wraps; same downwards -/
theorem table_wrap : ∀ i ∈ List.range 7, ∀ k ∈ List.range 7, upOK i k = true ∧ downOK i k = true := by
  decide

theorem steps_bijection :
    (∀ e ∈ STEPS_TO_INT, lookup e.2 INT_TO_STEPS = some e.1) ∧
    (∀ e ∈ INT_TO_STEPS, lookup e.2 STEPS_TO_INT = some e.1) ∧
    (INT_TO_STEPS.map (·.1) = List.range 7) := by decide

private theorem up_facts (i n : Nat) (hi : i < 7) (hn : 1 ≤ n) :
    ∃ bi bj, basePcIdx i = some bi ∧ basePcIdx ((i + (n - 1)) % 7) = some bj ∧
      (bj - bi) % 12 = bj - bi + (if (i + (n - 1)) % 7 < i then 12 else 0) := by
  have hk : (n - 1) % 7 < 7 := Nat.mod_lt _ (by decide)
  have h := (table_wrap i (List.mem_range.mpr hi) ((n - 1) % 7) (List.mem_range.mpr hk)).1
  have hj : (i + (n - 1) % 7) % 7 = (i + (n - 1)) % 7 := by omega
  unfold upOK at h
  rw [hj] at h
  split at h
  · rename_i bi bj h1 h2
    exact ⟨bi, bj, h1, h2, by simpa using h⟩
  · simp at h

private theorem down_facts (i n : Nat) (hi : i < 7) (hn : 1 ≤ n) :
    ∃ bi bj, basePcIdx i = some bi ∧ basePcIdx ((((i : Int) - ((n : Int) - 1)) % 7).toNat) = some bj ∧
      (bi - bj) % 12 = bi - bj + (if (((i : Int) - ((n : Int) - 1)) % 7).toNat > i then 12 else 0) := by
  have hk : (n - 1) % 7 < 7 := Nat.mod_lt _ (by decide)
  have h := (table_wrap i (List.mem_range.mpr hi) ((n - 1) % 7) (List.mem_range.mpr hk)).2
  have hj : ((i : Int) - (((n - 1) % 7 : Nat) : Int)) % 7 = ((i : Int) - ((n : Int) - 1)) % 7 := by omega
  unfold downOK at h
  rw [hj] at h
  split at h
  · rename_i bi bj h1 h2
    exact ⟨bi, bj, h1, h2, by simpa using h⟩
  · simp at h

/-- transposition is total on the seven steps (never raises), for every alteration, octave, interval -/
theorem transpose_total (i : Nat) (hi : i < 7) (a o : Int) (n : Nat) (hn : 1 ≤ n) (s : Int) (up : Bool) :
    (transposeIdx i a o n s up).isSome ∧ (midiIdx i a o).isSome := by
  cases up
  · obtain ⟨bi, bj, h1, h2, _⟩ := down_facts i n hi hn
    simp [transposeIdx, transposeStepIdx, midiIdx, h1, h2]
  · obtain ⟨bi, bj, h1, h2, _⟩ := up_facts i n hi hn
    simp [transposeIdx, transposeStepIdx, midiIdx, h1, h2]

/-- **semitones moved**: for every step, every integer alteration and octave and every interval
    (any number ≥ 1, any size `s`), the MIDI pitch of the transposed note is the old one plus `s`
    upwards and minus `s` downwards -/
theorem semitones_moved (i : Nat) (hi : i < 7) (a o : Int) (n : Nat) (hn : 1 ≤ n) (s : Int) (up : Bool)
    (j : Nat) (a' o' : Int) (h : transposeIdx i a o n s up = some (j, a', o')) :
    midiIdx j a' o' = (midiIdx i a o).map (fun m => if up then m + s else m - s) := by
  unfold transposeIdx transposeStepIdx at h
  cases up
  · obtain ⟨bi, bj, h1, h2, h3⟩ := down_facts i n hi hn
    simp only [h1, h2, Bool.false_eq_true, if_false, Option.some.injEq, Prod.mk.injEq] at h
    obtain ⟨rfl, rfl, rfl⟩ := h
    simp only [midiIdx, h1, h2, Option.map_some, Bool.false_eq_true, if_false, Option.some.injEq]
    split <;> simp_all <;> omega
  · obtain ⟨bi, bj, h1, h2, h3⟩ := up_facts i n hi hn
    simp only [h1, h2, if_true, Option.some.injEq, Prod.mk.injEq] at h
    obtain ⟨rfl, rfl, rfl⟩ := h
    simp only [midiIdx, h1, h2, Option.map_some, if_true, Option.some.injEq]
    split <;> simp_all <;> omega

/-- **staff steps moved**: for intervals within the octave (number 1..7, the only ones with a
    defined size) the diatonic position changes by exactly number − 1 steps in the direction -/
theorem steps_moved (i : Nat) (hi : i < 7) (a o : Int) (n : Nat) (hn : 1 ≤ n) (hn7 : n ≤ 7) (s : Int) (up : Bool)
    (j : Nat) (a' o' : Int) (h : transposeIdx i a o n s up = some (j, a', o')) :
    diatonicIdx j o' = (if up then diatonicIdx i o + ((n : Int) - 1) else diatonicIdx i o - ((n : Int) - 1)) := by
  unfold transposeIdx transposeStepIdx at h
  cases up
  · obtain ⟨bi, bj, h1, h2, _⟩ := down_facts i n hi hn
    simp only [h1, h2, Bool.false_eq_true, if_false, Option.some.injEq, Prod.mk.injEq] at h
    obtain ⟨rfl, -, rfl⟩ := h
    simp only [diatonicIdx, Bool.false_eq_true, if_false]
    split <;> omega
  · obtain ⟨bi, bj, h1, h2, _⟩ := up_facts i n hi hn
    simp only [h1, h2, if_true, Option.some.injEq, Prod.mk.injEq] at h
    obtain ⟨rfl, -, rfl⟩ := h
    simp only [diatonicIdx, if_true]
    split <;> omega

/-- **up then down is the identity** on (step, alteration, octave), for every interval -/
theorem up_down_id (i : Nat) (hi : i < 7) (a o : Int) (n : Nat) (hn : 1 ≤ n) (s : Int)
    (j : Nat) (a' o' : Int) (h : transposeIdx i a o n s true = some (j, a', o')) :
    transposeIdx j a' o' n s false = some (i, a, o) := by
  obtain ⟨bi, bj, h1, h2, h3⟩ := up_facts i n hi hn
  unfold transposeIdx transposeStepIdx at h
  simp only [h1, h2, if_true, Option.some.injEq, Prod.mk.injEq] at h
  obtain ⟨rfl, rfl, rfl⟩ := h
  have hback : ((((i + (n - 1)) % 7 : Nat) : Int) - ((n : Int) - 1)) % 7 = (i : Int) := by omega
  unfold transposeIdx transposeStepIdx
  simp only [Bool.false_eq_true, if_false, hback, Int.toNat_natCast, h1, h2]
  congr 1
  refine Prod.ext rfl (Prod.ext ?_ ?_)
  · simp only; omega
  · simp only
    split <;> omega

/-- and down then up -/
theorem down_up_id (i : Nat) (hi : i < 7) (a o : Int) (n : Nat) (hn : 1 ≤ n) (s : Int)
    (j : Nat) (a' o' : Int) (h : transposeIdx i a o n s false = some (j, a', o')) :
    transposeIdx j a' o' n s true = some (i, a, o) := by
  obtain ⟨bi, bj, h1, h2, h3⟩ := down_facts i n hi hn
  unfold transposeIdx transposeStepIdx at h
  simp only [h1, h2, Bool.false_eq_true, if_false, Option.some.injEq, Prod.mk.injEq] at h
  obtain ⟨rfl, rfl, rfl⟩ := h
  have hback : ((((i : Int) - ((n : Int) - 1)) % 7).toNat + (n - 1)) % 7 = i := by omega
  unfold transposeIdx transposeStepIdx
  simp only [if_true, hback, h1, h2]
  congr 1
  refine Prod.ext rfl (Prod.ext ?_ ?_)
  · simp only; omega
  · simp only
    split <;> omega

/-- the 39 interval classes of the regenerated table all have a size, and numbers are 1..7 -/
theorem interval_classes_sized :
    ∀ c ∈ INTERVALCLASSES, (lookup c INTERVAL_TO_SEMITONES).isSome := by decide +kernel

/-- `P1` leaves any note unchanged (the code's early return) and agrees with the arithmetic -/
theorem unison_identity (i : Nat) (hi : i < 7) (a o : Int) (up : Bool) :
    transposeIdx i a o 1 0 up = some (i, a, o) := by
  interval_cases i <;> cases up <;> simp [transposeIdx, transposeStepIdx, basePcIdx, lookup, INT_TO_STEPS,
    MIDI_BASE_CLASS, lower]

/-- the octave-free variant used for chord roots and local keys (`transpose_note`) -/
def agreeOK (s : String) (a : Int) (q : String) (n : Nat) : Bool :=
  match transposeNoteNoOctave s a q n with
  | some (s', a') =>
    decide ((transposeSpelling s (some a) 4 q n true).map (fun x => (x.1, x.2.1)) = some (s', some a'))
  | none => true

/-- **octave-free variant agrees**: wherever `transpose_note` returns a value (its assertions hold)
    it is the step and alteration of the full note transposition — decided over the whole finite
    domain steps × alterations −2..2 × qualities × numbers 1..7 -/
theorem octave_free_agrees :
    ∀ s ∈ ["C", "D", "E", "F", "G", "A", "B"], ∀ a ∈ [(-2 : Int), -1, 0, 1, 2],
    ∀ q ∈ ["dd", "d", "m", "M", "P", "A", "AA"], ∀ n ∈ [1, 2, 3, 4, 5, 6, 7], agreeOK s a q n = true := by
  decide +kernel

/-- non-vacuity: C4 down a major second is B♭3; E## up a minor second is F## -/
example : transposeSpelling "C" (some 0) 4 "M" 2 false = some ("B", some (-1), 3) := by decide
example : transposeSpelling "E" (some 2) 4 "m" 2 true = some ("F", some 2, 4) := by decide
example : transposeIdx 0 0 4 2 2 false = some (6, -1, 3) := by decide

end C16
