/-
C16 — transposition moves every note by the interval and leaves the input alone.
Theorems over Model/Transpose.lean (the repaired `_transpose_note_inplace` arithmetic).
-/
import PartituraModel.Model.Transpose
import Mathlib.Tactic.IntervalCases

namespace C16
open Model Gen

/-- the two regenerated tables the arithmetic rests on: seven steps, C major base classes -/
def upOK (i k : Nat) : Bool :=
  match basePcIdx i, basePcIdx ((i + k) % 7) with
  | some bi, some bj => decide ((bj - bi) % 12 = bj - bi + (if (i + k) % 7 < i then 12 else 0))
  | _, _ => false

def downOK (i k : Nat) : Bool :=
  match basePcIdx i, basePcIdx ((((i : Int) - (k : Int)) % 7).toNat) with
  | some bi, some bj =>
    decide ((bi - bj) % 12 = bi - bj + (if (((i : Int) - (k : Int)) % 7).toNat > i then 12 else 0))
  | _, _ => false

/-- whole-table obligation (re-checked whenever STEPS / MIDI_BASE_CLASS change in the source):
    going up k steps from step i, the distance between the natural steps modulo 12 is the plain
    difference plus an octave exactly when the step index wraps; same downwards -/
theorem table_wrap : ∀ i ∈ List.range 7, ∀ k ∈ List.range 7, upOK i k = true ∧ downOK i k = true := by
  decide

theorem steps_bijection :
    (∀ e ∈ STEPS_TO_INT, lookup e.2 INT_TO_STEPS = some e.1) ∧
    (∀ e ∈ INT_TO_STEPS, lookup e.2 STEPS_TO_INT = some e.1) ∧
    (INT_TO_STEPS.map (·.1) = List.range 7) := by decide

private theorem up_facts (i n : Nat) (hi : i < 7) (hn : 1 ≤ n) :
    ∃ bi bj, basePcIdx i = some bi ∧ basePcIdx ((i + (n - 1)) % 7) = some bj ∧
      (bj - bi) % 12 = bj - bi + (if (i + (n - 1)) % 7 < i then 12 else 0) := by
  have hk : (n - 1) % 7 < 7 := Nat.mod_lt _ (by decide)
  have h := (table_wrap i (List.mem_range.mpr hi) ((n - 1) % 7) (List.mem_range.mpr hk)).1
  have hj : (i + (n - 1) % 7) % 7 = (i + (n - 1)) % 7 := by omega
  unfold upOK at h
  rw [hj] at h
  split at h
  · rename_i bi bj h1 h2
    exact ⟨bi, bj, h1, h2, by simpa using h⟩
  · simp at h

private theorem down_facts (i n : Nat) (hi : i < 7) (hn : 1 ≤ n) :
    ∃ bi bj, basePcIdx i = some bi ∧ basePcIdx ((((i : Int) - ((n : Int) - 1)) % 7).toNat) = some bj ∧
      (bi - bj) % 12 = bi - bj + (if (((i : Int) - ((n : Int) - 1)) % 7).toNat > i then 12 else 0) := by
  have hk : (n - 1) % 7 < 7 := Nat.mod_lt _ (by decide)
  have h := (table_wrap i (List.mem_range.mpr hi) ((n - 1) % 7) (List.mem_range.mpr hk)).2
  have hj : ((i : Int) - (((n - 1) % 7 : Nat) : Int)) % 7 = ((i : Int) - ((n : Int) - 1)) % 7 := by omega
  unfold downOK at h
  rw [hj] at h
  split at h
  · rename_i bi bj h1 h2
    exact ⟨bi, bj, h1, h2, by simpa using h⟩
  · simp at h

/-- transposition is total on the seven steps (never raises), for every alteration, octave, interval -/
theorem transpose_total (i : Nat) (hi : i < 7) (a o : Int) (n : Nat) (hn : 1 ≤ n) (s : Int) (up : Bool) :
    (transposeIdx i a o n s up).isSome ∧ (midiIdx i a o).isSome := by
  cases up
  · obtain ⟨bi, bj, h1, h2, _⟩ := down_facts i n hi hn
    simp [transposeIdx, transposeStepIdx, midiIdx, h1, h2]
  · obtain ⟨bi, bj, h1, h2, _⟩ := up_facts i n hi hn
    simp [transposeIdx, transposeStepIdx, midiIdx, h1, h2]

/-- **semitones moved**: for every step, every integer alteration and octave and every interval
    (any number ≥ 1, any size `s`), the MIDI pitch of the transposed note is the old one plus `s`
    upwards and minus `s` downwards -/
theorem semitones_moved (i : Nat) (hi : i < 7) (a o : Int) (n : Nat) (hn : 1 ≤ n) (s : Int) (up : Bool)
    (j : Nat) (a' o' : Int) (h : transposeIdx i a o n s up = some (j, a', o')) :
    midiIdx j a' o' = (midiIdx i a o).map (fun m => if up then m + s else m - s) := by
  unfold transposeIdx transposeStepIdx at h
  cases up
  · obtain ⟨bi, bj, h1, h2, h3⟩ := down_facts i n hi hn
    simp only [h1, h2, Bool.false_eq_true, if_false, Option.some.injEq, Prod.mk.injEq] at h
    obtain ⟨rfl, rfl, rfl⟩ := h
    simp only [midiIdx, h1, h2, Option.map_some, Bool.false_eq_true, if_false, Option.some.injEq]
    split <;> simp_all <;> omega
  · obtain ⟨bi, bj, h1, h2, h3⟩ := up_facts i n hi hn
    simp only [h1, h2, if_true, Option.some.injEq, Prod.mk.injEq] at h
    obtain ⟨rfl, rfl, rfl⟩ := h
    simp only [midiIdx, h1, h2, Option.map_some, if_true, Option.some.injEq]
    split <;> simp_all <;> omega

/-- **staff steps moved**: for intervals within the octave (number 1..7, the only ones with a
    defined size) the diatonic position changes by exactly number − 1 steps in the direction -/
theorem steps_moved (i : Nat) (hi : i < 7) (a o : Int) (n : Nat) (hn : 1 ≤ n) (hn7 : n ≤ 7) (s : Int) (up : Bool)
    (j : Nat) (a' o' : Int) (h : transposeIdx i a o n s up = some (j, a', o')) :
    diatonicIdx j o' = (if up then diatonicIdx i o + ((n : Int) - 1) else diatonicIdx i o - ((n : Int) - 1)) := by
  unfold transposeIdx transposeStepIdx at h
  cases up
  · obtain ⟨bi, bj, h1, h2, _⟩ := down_facts i n hi hn
    simp only [h1, h2, Bool.false_eq_true, if_false, Option.some.injEq, Prod.mk.injEq] at h
    obtain ⟨rfl, -, rfl⟩ := h
    simp only [diatonicIdx, Bool.false_eq_true, if_false]
    split <;> omega
  · obtain ⟨bi, bj, h1, h2, _⟩ := up_facts i n hi hn
    simp only [h1, h2, if_true, Option.some.injEq, Prod.mk.injEq] at h
    obtain ⟨rfl, -, rfl⟩ := h
    simp only [diatonicIdx, if_true]
    split <;> omega

/-- **up then down is the identity** on (step, alteration, octave), for every interval -/
theorem up_down_id (i : Nat) (hi : i < 7) (a o : Int) (n : Nat) (hn : 1 ≤ n) (s : Int)
    (j : Nat) (a' o' : Int) (h : transposeIdx i a o n s true = some (j, a', o')) :
    transposeIdx j a' o' n s false = some (i, a, o) := by
  obtain ⟨bi, bj, h1, h2, h3⟩ := up_facts i n hi hn
  unfold transposeIdx transposeStepIdx at h
  simp only [h1, h2, if_true, Option.some.injEq, Prod.mk.injEq] at h
  obtain ⟨rfl, rfl, rfl⟩ := h
  have hback : ((((i + (n - 1)) % 7 : Nat) : Int) - ((n : Int) - 1)) % 7 = (i : Int) := by omega
  unfold transposeIdx transposeStepIdx
  simp only [Bool.false_eq_true, if_false, hback, Int.toNat_natCast, h1, h2]
  congr 1
  refine Prod.ext rfl (Prod.ext ?_ ?_)
  · simp only; omega
  · simp only
    split <;> omega

/-- and down then up -/
theorem down_up_id (i : Nat) (hi : i < 7) (a o : Int) (n : Nat) (hn : 1 ≤ n) (s : Int)
    (j : Nat) (a' o' : Int) (h : transposeIdx i a o n s false = some (j, a', o')) :
    transposeIdx j a' o' n s true = some (i, a, o) := by
  obtain ⟨bi, bj, h1, h2, h3⟩ := down_facts i n hi hn
  unfold transposeIdx transposeStepIdx at h
  simp only [h1, h2, Bool.false_eq_true, if_false, Option.some.injEq, Prod.mk.injEq] at h
  obtain ⟨rfl, rfl, rfl⟩ := h
  have hback : ((((i : Int) - ((n : Int) - 1)) % 7).toNat + (n - 1)) % 7 = i := by omega
  unfold transposeIdx transposeStepIdx
  simp only [if_true, hback, h1, h2]
  congr 1
  refine Prod.ext rfl (Prod.ext ?_ ?_)
  · simp only; omega
  · simp only
    split <;> omega

/-- the 39 interval classes of the regenerated table all have a size, and numbers are 1..7 -/
theorem interval_classes_sized :
    ∀ c ∈ INTERVALCLASSES, (lookup c INTERVAL_TO_SEMITONES).isSome := by decide +kernel

/-- `P1` leaves any note unchanged (the code's early return) and agrees with the arithmetic -/
theorem unison_identity (i : Nat) (hi : i < 7) (a o : Int) (up : Bool) :
    transposeIdx i a o 1 0 up = some (i, a, o) := by
  interval_cases i <;> cases up <;> simp [transposeIdx, transposeStepIdx, basePcIdx, lookup, INT_TO_STEPS,
    MIDI_BASE_CLASS, lower]

/-- the octave-free variant used for chord roots and local keys (`transpose_note`) -/
def agreeOK (s : String) (a : Int) (q : String) (n : Nat) : Bool :=
  match transposeNoteNoOctave s a q n with
  | some (s', a') =>
    decide ((transposeSpelling s (some a) 4 q n true).map (fun x => (x.1, x.2.1)) = some (s', some a'))
  | none => true

/-- **octave-free variant agrees**: wherever `transpose_note` returns a value (its assertions hold)
    it is the step and alteration of the full note transposition — decided over the whole finite
    domain steps × alterations −2..2 × qualities × numbers 1..7 -/
theorem octave_free_agrees :
    ∀ s ∈ ["C", "D", "E", "F", "G", "A", "B"], ∀ a ∈ [(-2 : Int), -1, 0, 1, 2],
    ∀ q ∈ ["dd", "d", "m", "M", "P", "A", "AA"], ∀ n ∈ [1, 2, 3, 4, 5, 6, 7], agreeOK s a q n = true := by
  decide +kernel

/-- non-vacuity: C4 down a major second is B♭3; E## up a minor second is F## -/
example : transposeSpelling "C" (some 0) 4 "M" 2 false = some ("B", some (-1), 3) := by decide
example : transposeSpelling "E" (some 2) 4 "m" 2 true = some ("F", some 2, 4) := by decide
example : transposeIdx 0 0 4 2 2 false = some (6, -1, 3) := by decide

end C16

/-! ## String level (round 5): the function the driver runs, hypotheses discharged from the tables -/

namespace C16
open Model Gen

def steps7 : List String := ["C", "D", "E", "F", "G", "A", "B"]

/-- the interval classes as (quality, number) pairs, written the way globals.py builds INTERVALCLASSES -/
def classPairs : List (String × Nat) :=
  ([2, 3, 6, 7].flatMap fun n => ["dd", "d", "m", "M", "A", "AA"].map fun q => (q, n)) ++
  ([1, 4, 5].flatMap fun n => ["dd", "d", "P", "A", "AA"].map fun q => (q, n))

/-- … and they are exactly the regenerated table: a valid simple `Interval` is one of these pairs -/
theorem class_pairs_are_the_classes :
    classPairs.map (fun e => e.1 ++ showNat e.2) = INTERVALCLASSES := by decide +kernel

/-- position on the staff of a spelled note -/
def staffPos (step : String) (octave : Int) : Option Int :=
  (lookup (upper step) STEPS_TO_INT).map fun i => 7 * octave + (i : Int)

def stepOK (s : String) : Bool :=
  match lookup (upper s) STEPS_TO_INT with
  | some i => decide (i < 7) && decide (lookup i INT_TO_STEPS = some s)
  | none => false

theorem step_facts : ∀ s ∈ steps7, stepOK s = true := by decide +kernel

def idxOK (j : Nat) : Bool :=
  match lookup j INT_TO_STEPS with
  | some s => decide (s ∈ steps7) && decide (lookup (upper s) STEPS_TO_INT = some j)
  | none => false

theorem idx_facts : ∀ j ∈ List.range 7, idxOK j = true := by decide +kernel

def classOK (e : String × Nat) : Bool :=
  match lookup (e.1 ++ showNat e.2) INTERVAL_TO_SEMITONES with
  | some sz => decide (1 ≤ e.2) && decide (e.2 ≤ 7) &&
      decide (e.1 ++ showNat e.2 = "P1" → sz = 0 ∧ e.2 = 1)
  | none => false

theorem class_facts : ∀ e ∈ classPairs, classOK e = true := by decide +kernel

end C16

namespace C16
open Model Gen

private theorem step_unpack {s : String} (hs : s ∈ steps7) :
    ∃ i, i < 7 ∧ lookup (upper s) STEPS_TO_INT = some i ∧ lookup i INT_TO_STEPS = some s := by
  have h := step_facts s hs
  unfold stepOK at h
  split at h
  · rename_i i hi
    simp only [Bool.and_eq_true, decide_eq_true_eq] at h
    exact ⟨i, h.1, hi, h.2⟩
  · cases h

private theorem idx_unpack {j : Nat} (hj : j < 7) :
    ∃ s, s ∈ steps7 ∧ lookup j INT_TO_STEPS = some s ∧ lookup (upper s) STEPS_TO_INT = some j := by
  have h := idx_facts j (List.mem_range.mpr hj)
  unfold idxOK at h
  split at h
  · rename_i s hs
    simp only [Bool.and_eq_true, decide_eq_true_eq] at h
    exact ⟨s, h.1, hs, h.2⟩
  · cases h

private theorem class_unpack {e : String × Nat} (he : e ∈ classPairs) :
    ∃ sz, lookup (e.1 ++ showNat e.2) INTERVAL_TO_SEMITONES = some sz ∧ 1 ≤ e.2 ∧ e.2 ≤ 7 ∧
      (e.1 ++ showNat e.2 = "P1" → sz = 0 ∧ e.2 = 1) := by
  have h := class_facts e he
  unfold classOK at h
  split at h
  · rename_i sz hz
    simp only [Bool.and_eq_true, decide_eq_true_eq] at h
    exact ⟨sz, hz, h.1.1, h.1.2, h.2⟩
  · cases h

private theorem midi_bridge {i : Nat} {s : String} (hl : lookup i INT_TO_STEPS = some s) (al : Option Int) (o : Int) :
    spellingToMidi s al o = midiIdx i (al.getD 0) o := by
  simp [spellingToMidi, midiIdx, basePcIdx, hl]

private theorem staff_bridge {i : Nat} {s : String} (hl : lookup (upper s) STEPS_TO_INT = some i) (o : Int) :
    staffPos s o = some (diatonicIdx i o) := by
  simp [staffPos, diatonicIdx, hl]

private theorem stepIdx_lt (i n : Nat) (up : Bool) : transposeStepIdx i n up < 7 := by
  unfold transposeStepIdx
  split <;> omega

end C16

namespace C16
open Model Gen

private theorem transposeIdx_lt {i : Nat} {a o : Int} {n : Nat} {s : Int} {up : Bool} {j : Nat} {a' o' : Int}
    (h : transposeIdx i a o n s up = some (j, a', o')) : j < 7 := by
  unfold transposeIdx at h
  simp only at h
  cases hb : basePcIdx i <;> cases hc : basePcIdx (transposeStepIdx i n up) <;> simp only [hb, hc] at h <;>
    try cases h
  split at h <;>
    (simp only [Option.some.injEq, Prod.mk.injEq] at h; rw [← h.1]; exact stepIdx_lt _ _ _)

/-- **one note, end to end** (string level, the function the driver runs): for every step name, every alteration
    (also `None`), every octave, every one of the 39 interval classes and both directions
    `_transpose_note_inplace` does not raise, the new step is a step name, the MIDI pitch moves by the interval's
    semitones and the staff position by number − 1 steps in the direction.  No side condition is left: the
    hypotheses of `semitones_moved` / `steps_moved` (index < 7, 1 ≤ number ≤ 7) are discharged from the tables. -/
theorem note_moved (s : String) (hs : s ∈ steps7) (e : String × Nat) (he : e ∈ classPairs)
    (al : Option Int) (o : Int) (up : Bool) :
    ∃ s' al' o' sz, transposeSpelling s al o e.1 e.2 up = some (s', al', o') ∧ s' ∈ steps7 ∧
      intervalSemitones e.1 e.2 = some sz ∧
      (∃ m, spellingToMidi s al o = some m ∧
        spellingToMidi s' al' o' = some (if up then m + sz else m - sz)) ∧
      (∃ d, staffPos s o = some d ∧
        staffPos s' o' = some (if up then d + ((e.2 : Int) - 1) else d - ((e.2 : Int) - 1))) := by
  obtain ⟨i, hi, h1, h2⟩ := step_unpack hs
  obtain ⟨sz, hz, hn1, hn7, hp⟩ := class_unpack he
  have hm := midi_bridge h2 al o
  have hd := staff_bridge h1 o
  obtain ⟨hT, hM⟩ := transpose_total i hi (al.getD 0) o e.2 hn1 sz up
  obtain ⟨m, hm0⟩ := Option.isSome_iff_exists.mp hM
  by_cases hP : e.1 ++ showNat e.2 = "P1"
  · obtain ⟨hz0, hn⟩ := hp hP
    refine ⟨s, al, o, sz, ?_, hs, hz, ⟨m, by rw [hm, hm0], ?_⟩, ⟨_, hd, ?_⟩⟩
    · simp [transposeSpelling, hP]
    · rw [hm, hm0, hz0]; cases up <;> simp
    · rw [hd, hn]; cases up <;> simp
  · obtain ⟨⟨j, a', o'⟩, ht⟩ := Option.isSome_iff_exists.mp hT
    have hj : j < 7 := transposeIdx_lt ht
    obtain ⟨s', hs', hl', hu'⟩ := idx_unpack hj
    refine ⟨s', some a', o', sz, ?_, hs', hz, ⟨m, by rw [hm, hm0], ?_⟩, ⟨_, hd, ?_⟩⟩
    · simp [transposeSpelling, hP, h1, hz, ht, hl']
    · rw [midi_bridge hl' (some a') o', Option.getD_some, semitones_moved i hi _ o e.2 hn1 sz up j a' o' ht, hm0]
      cases up <;> simp
    · rw [staff_bridge hu' o', steps_moved i hi _ o e.2 hn1 hn7 sz up j a' o' ht]

/-- **up and then down restores the spelling** (string level): step and octave come back exactly, the alteration
    as a number (`None` counts as 0: after a transposition other than P1 the alteration is always an int) -/
theorem note_up_down (s : String) (hs : s ∈ steps7) (e : String × Nat) (he : e ∈ classPairs)
    (al : Option Int) (o : Int) (up : Bool) :
    ∃ s' al' o' al'', transposeSpelling s al o e.1 e.2 up = some (s', al', o') ∧
      transposeSpelling s' al' o' e.1 e.2 (!up) = some (s, al'', o) ∧ al''.getD 0 = al.getD 0 := by
  obtain ⟨i, hi, h1, h2⟩ := step_unpack hs
  obtain ⟨sz, hz, hn1, hn7, hp⟩ := class_unpack he
  by_cases hP : e.1 ++ showNat e.2 = "P1"
  · exact ⟨s, al, o, al, by simp [transposeSpelling, hP], by simp [transposeSpelling, hP], rfl⟩
  · obtain ⟨hT, -⟩ := transpose_total i hi (al.getD 0) o e.2 hn1 sz up
    obtain ⟨⟨j, a', o'⟩, ht⟩ := Option.isSome_iff_exists.mp hT
    have hj : j < 7 := transposeIdx_lt ht
    obtain ⟨s', hs', hl', hu'⟩ := idx_unpack hj
    have hback : transposeIdx j a' o' e.2 sz (!up) = some (i, al.getD 0, o) := by
      cases up
      · exact down_up_id i hi _ o e.2 hn1 sz j a' o' ht
      · exact up_down_id i hi _ o e.2 hn1 sz j a' o' ht
    refine ⟨s', some a', o', some (al.getD 0), ?_, ?_, rfl⟩
    · simp [transposeSpelling, hP, h1, hz, ht, hl']
    · simp [transposeSpelling, hP, hu', hz, hback, h2]

example : transposeSpelling "G" (some 1) 4 "M" 2 true = some ("A", some 1, 4) ∧
    transposeSpelling "A" (some (-1)) 4 "M" 2 true = some ("B", some (-1), 4) ∧
    transposeSpelling "B" none 3 "m" 3 false = some ("G", some 1, 3) := by decide

end C16

namespace C16
open Model Gen

/-- **staff steps for ANY number ≥ 1** (compound intervals included): the step arithmetic of `_transpose_step` /
    the octave bookkeeping of `_transpose_note_inplace` moves the staff position by (number − 1) mod 7 — the whole
    octaves of a compound interval are not applied ("TODO work for arbitrary octave" in the source), which is
    consistent with `Interval.semitones` having no size for numbers above 7 (the call then raises, see
    `transposeSpelling`); for numbers 1..7 this is `steps_moved` -/
theorem steps_moved_any (i : Nat) (hi : i < 7) (a o : Int) (n : Nat) (hn : 1 ≤ n) (s : Int) (up : Bool)
    (j : Nat) (a' o' : Int) (h : transposeIdx i a o n s up = some (j, a', o')) :
    diatonicIdx j o' =
      (if up then diatonicIdx i o + ((n : Int) - 1) % 7 else diatonicIdx i o - ((n : Int) - 1) % 7) := by
  unfold transposeIdx transposeStepIdx at h
  cases up
  · obtain ⟨bi, bj, h1, h2, _⟩ := down_facts i n hi hn
    simp only [h1, h2, Bool.false_eq_true, if_false, Option.some.injEq, Prod.mk.injEq] at h
    obtain ⟨rfl, -, rfl⟩ := h
    simp only [diatonicIdx, Bool.false_eq_true, if_false]
    split <;> omega
  · obtain ⟨bi, bj, h1, h2, _⟩ := up_facts i n hi hn
    simp only [h1, h2, if_true, Option.some.injEq, Prod.mk.injEq] at h
    obtain ⟨rfl, -, rfl⟩ := h
    simp only [diatonicIdx, if_true]
    split <;> omega

/-- **"the octave follows the step"**, spelled out: the new octave and step are quotient and remainder of the moved
    staff position by 7 — the octave changes exactly when the step letter wraps past B / below C -/
theorem octave_follows_step (i : Nat) (hi : i < 7) (a o : Int) (n : Nat) (hn : 1 ≤ n) (hn7 : n ≤ 7) (s : Int)
    (up : Bool) (j : Nat) (a' o' : Int) (h : transposeIdx i a o n s up = some (j, a', o')) :
    o' = (if up then diatonicIdx i o + ((n : Int) - 1) else diatonicIdx i o - ((n : Int) - 1)) / 7 ∧
    (j : Int) = (if up then diatonicIdx i o + ((n : Int) - 1) else diatonicIdx i o - ((n : Int) - 1)) % 7 := by
  have hj : j < 7 := transposeIdx_lt h
  have hd := steps_moved i hi a o n hn hn7 s up j a' o' h
  unfold diatonicIdx at hd ⊢
  cases up <;> simp only [Bool.false_eq_true, if_false, if_true] at hd ⊢ <;> omega

end C16
