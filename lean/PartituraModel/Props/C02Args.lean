/-
C02 (round 2) — the maps on arguments of every shape, exactly at change points and outside the knots.

* a scalar gives a scalar (0-d), a sequence of any rank a result of the same shape, element by element
  the scalar map (`callMap_*`, `callQD_*`);
* the forward maps are defined (not NaN) EXACTLY on `[first key point, last key point]`, the inverse maps
  exactly on the image of that interval (`fwd_defined_iff`, `inv_defined_iff`, `fwd_nan_outside`);
* `quarter_duration_map` is total, right-continuous at every change point, constant before the first
  and after the last change (`qdMap_at_change`, `qdMap_after_last`, `qdMap_total`).
-/
import PartituraModel.Props.C02
import PartituraModel.Proofs.C02Args

namespace C02
open Model.TimeMap C02Proofs

/-! ### arguments of any shape -/

/-- **shape**: the result has the shape of the argument (0-d for a scalar, empty for an empty sequence) -/
theorem callMap_shape (f : Rat → Option Rat) (a : Nested Rat) : (callMap f a).skel = a.skel := by
  unfold callMap Nested.skel
  rw [nested_map_map]

/-- **values**: in C order the elements are the scalar map of the elements of the argument -/
theorem callMap_flat (f : Rat → Option Rat) (a : Nested Rat) : (callMap f a).flat = a.flat.map f :=
  nested_map_flat f a

/-- a scalar call is the map itself; a sequence is mapped item by item (recursively) -/
theorem callMap_cases (f : Rat → Option Rat) :
    (∀ x, callMap f (.leaf x) = .leaf (f x)) ∧
    (∀ xs, callMap f (.node xs) = .node (xs.map (callMap f))) := by
  refine ⟨fun x => by simp [callMap, Nested.map], fun xs => ?_⟩
  unfold callMap
  simp only [Nested.map]
  rw [nested_mapList_eq]

/-- the same for `quarter_duration_map` -/
theorem callQD_shape_flat (qd : List (Int × Nat)) (a : Nested Rat) :
    (callQD qd a).skel = a.skel ∧ (callQD qd a).flat = a.flat.map (qdMap qd) := by
  refine ⟨?_, nested_map_flat _ a⟩
  unfold callQD Nested.skel
  rw [nested_map_map]

example : (callMap (fwd exPart .notated) (.node [.node [.leaf 22, .leaf 23], .node [.leaf 24, .leaf 121]])).flat =
    [some 7, some (22/3), some (15/2), none] := by
  decide +kernel

example : (callMap (fwd exPart .notated) (.node [])).flat = [] ∧ (callMap (fwd exPart .notated) (.leaf 22)).flat = [some 7] := by
  decide +kernel

/-! ### the exact domain: NaN outside the key points, a number inside -/

/-- **The forward map is a number exactly on `[first key point, last key point]`** and NaN (`none`)
everywhere else.  (The first key point is time 0 for a part built through the API, the last one the later
of the last time point and the last quarter-duration change.) -/
theorem fwd_defined_iff (p : Part) (m : Mode) (h : WF p m) (t0 : Int)
    (hk : (keyTimes p m).head? = some t0) (x : Rat) :
    (∃ y, fwd p m x = some y) ↔ (t0 : Rat) ≤ x ∧ x ≤ ((lastOf (keyTimes p m) : Int) : Rat) := by
  rw [fwd_eq p m h]
  have hok := finalKnots_ok p m h
  constructor
  · rintro ⟨y, hy⟩
    have := interp_range _ hok x y hy
    rwa [firstX_finalKnots p m t0 hk, endX_finalKnots] at this
  · rintro ⟨h0, h1⟩
    exact interp_defined _ hok x (by rw [firstX_finalKnots p m t0 hk]; exact h0)
      (by rw [endX_finalKnots]; exact h1)

theorem fwd_nan_outside (p : Part) (m : Mode) (h : WF p m) (t0 : Int)
    (hk : (keyTimes p m).head? = some t0) (x : Rat)
    (hx : x < (t0 : Rat) ∨ ((lastOf (keyTimes p m) : Int) : Rat) < x) : fwd p m x = none := by
  cases hv : fwd p m x with
  | none => rfl
  | some y =>
    have := (fwd_defined_iff p m h t0 hk x).mp ⟨y, hv⟩
    rcases hx with hx | hx
    · linarith [this.1]
    · linarith [this.2]

/-- the last key point is the last time point unless a quarter duration (or signature) is stored later -/
theorem last_key_spec (p : Part) (m : Mode) :
    lastOf (keyTimes p m) ∈ keyTimes p m ∧ (∀ t ∈ keyTimes p m, t ≤ lastOf (keyTimes p m)) ∧
    p.last ≤ lastOf (keyTimes p m) := by
  have hne : keyTimes p m ≠ [] := by
    intro h0
    have := first_mem_keyTimes p m
    rw [h0] at this
    simp at this
  have hle := le_lastOf _ (keyTimes_pairwise p m)
  exact ⟨lastOf_mem _ hne, hle, hle _ (last_mem_keyTimes p m)⟩

/-- **The inverse map is a number exactly on the image of the key-point range** `[fwd t0, fwd t_last]` -/
theorem inv_defined_iff (p : Part) (m : Mode) (h : WF p m) (t0 : Int)
    (hk : (keyTimes p m).head? = some t0) (y : Rat) :
    ∃ y0 y1, fwd p m (t0 : Rat) = some y0 ∧ fwd p m ((lastOf (keyTimes p m) : Int) : Rat) = some y1 ∧
      ((∃ x, inv p m y = some x) ↔ y0 ≤ y ∧ y ≤ y1) := by
  have hok := finalKnots_ok p m h
  have hs := knotsOK_swap _ hok
  have hf := interp_first _ hok
  have hl := interp_last _ hok
  rw [firstX_finalKnots p m t0 hk] at hf
  rw [endX_finalKnots] at hl
  refine ⟨firstY (finalKnots p m), endX (swap (finalKnots p m)), by rw [fwd_eq p m h]; exact hf,
    by rw [fwd_eq p m h]; exact hl, ?_⟩
  rw [inv_eq p m h]
  constructor
  · rintro ⟨x, hx⟩
    have := interp_range _ hs y x hx
    rwa [firstX_swap] at this
  · rintro ⟨h0, h1⟩
    exact interp_defined _ hs y (by rw [firstX_swap]; exact h0) h1

example : (keyTimes exPart .notated).head? = some 0 ∧ lastOf (keyTimes exPart .notated) = 120 ∧
    fwd exPart .notated 0 = some (-2) ∧ fwd exPart .notated (-1/2) = none ∧
    fwd exPart .notated (241/2) = none ∧ inv exPart .notated (-2) = some 0 ∧ inv exPart .notated (-3) = none := by
  decide +kernel

/-! ### quarter_duration_map at, before and after the change points -/

/-- **right-continuous at every change point**: exactly at a change time the NEW value is returned -/
theorem qdMap_at_change (qd : List (Int × Nat)) (hs : (qd.map (·.1)).Pairwise (· < ·)) (e : Int × Nat)
    (he : e ∈ qd) : qdMap qd (e.1 : Rat) = some e.2 := by
  obtain ⟨pre, post, hq⟩ := List.append_of_mem he
  refine qdMap_inforce qd pre post e _ hs hq (le_refl _) ?_
  intro x hx
  rw [hq, List.map_append, List.pairwise_append] at hs
  have h2 := List.pairwise_cons.mp hs.2.1
  have : e.1 < x.1 := h2.1 x.1 (List.mem_map.mpr ⟨x, hx, rfl⟩)
  exact_mod_cast this

/-- and between two consecutive changes (and after the last one) the value stays that of the earlier -/
theorem qdMap_between (qd pre post : List (Int × Nat)) (e : Int × Nat) (t : Rat)
    (hs : (qd.map (·.1)).Pairwise (· < ·)) (hq : qd = pre ++ e :: post)
    (h1 : (e.1 : Rat) ≤ t) (h2 : ∀ e' ∈ post.head?, t < (e'.1 : Rat)) : qdMap qd t = some e.2 := by
  refine qdMap_inforce qd pre post e t hs hq h1 ?_
  intro x hx
  cases post with
  | nil => simp at hx
  | cons e' rest =>
    have h3 : t < (e'.1 : Rat) := h2 e' (by simp)
    rcases List.mem_cons.mp hx with hx | hx
    · subst hx; exact h3
    · rw [hq, List.map_append, List.pairwise_append] at hs
      have h4 := List.pairwise_cons.mp (List.pairwise_cons.mp hs.2.1).2
      have : e'.1 < x.1 := h4.1 x.1 (List.mem_map.mpr ⟨x, hx, rfl⟩)
      have : (e'.1 : Rat) < (x.1 : Rat) := by exact_mod_cast this
      linarith

/-- `quarter_duration_map` never returns NaN: before the first change the first value, after the last the last -/
theorem qdMap_total (qd : List (Int × Nat)) (hne : qd ≠ []) (t : Rat) : ∃ q, qdMap qd t = some q ∧ q ∈ qd.map (·.2) := by
  cases qd with
  | nil => exact absurd rfl hne
  | cons e rest =>
    obtain ⟨t0, q0⟩ := e
    simp only [qdMap]
    have aux : ∀ (l : List (Int × Nat)) (cur : Nat), prevValue cur l t = cur ∨ prevValue cur l t ∈ l.map (·.2) := by
      intro l
      induction l with
      | nil => intro cur; exact Or.inl rfl
      | cons a l ih =>
        intro cur
        obtain ⟨a1, a2⟩ := a
        simp only [prevValue]
        by_cases hle : (a1 : Rat) ≤ t
        · rw [if_pos hle]
          rcases ih a2 with h | h
          · rw [h]; exact Or.inr (by simp)
          · exact Or.inr (by simp only [List.map_cons, List.mem_cons]; exact Or.inr h)
        · rw [if_neg hle]; exact Or.inl rfl
    refine ⟨_, rfl, ?_⟩
    rcases aux rest q0 with h | h
    · rw [h]; simp
    · simp only [List.map_cons, List.mem_cons]; exact Or.inr h

example : qdMap exPart.qd 10 = some 6 ∧ qdMap exPart.qd (19/2) = some 4 ∧ qdMap exPart.qd 77 = some 12 ∧
    (callQD exPart.qd (.node [.leaf 31, .node [.leaf 30]])).flat = [some 5, some 6] := by
  decide +kernel

end C02
