/-
C12 — frequency ↔ MIDI pitch in equal temperament, over the real numbers.

`midi_pitch_to_frequency(p, a4) = (a4/32)·2^((p−9)/12)` and
`frequency_to_midi_pitch(f, a4) = round(12·log₂(32·f/a4) + 9)` are transcendental, so this part of C12 is a theorem
about ℝ.  The two definitions below are written over the constants REGENERATED from the two source lines
(Gen/C12Tables.lean: `m2fDiv m2fBase m2fRef m2fOctave`, `f2mOctave f2mMul f2mRef`); what the proofs use about them is
`C12.freq_consts` (decided in Props/C12Ext.lean), so they hold for any way of writing the formulas that keeps base 2,
one octave size and scale factors that differ by the octaves between the two reference pitches (e.g. the textbook
`a4 · 2^((p−69)/12)`).

`freq_pitch_stable` is the margin for the binary64 implementation: a frequency within 1 % of the exact value and a
logarithm off by 0.01 still round to the pitch; numpy's pow / log2 are accurate to ~1e-15 (trusted), and
harness/props/c12.py compares the implementation on MIDI −36..179 × seven tunings and on every number type.
-/
import Mathlib.Analysis.SpecialFunctions.Log.Base
import PartituraModel.Proofs.C12Freq
import PartituraModel.Props.C12Ext

namespace C12
open Gen.C12

noncomputable def midiToFreq (p : ℝ) (a4 : ℝ) : ℝ :=
  (a4 / ((m2fDiv : ℚ) : ℝ)) * (((m2fBase : ℚ) : ℝ) ^ ((p - ((m2fRef : ℚ) : ℝ)) / ((m2fOctave : ℚ) : ℝ)))

noncomputable def freqToMidi (f : ℝ) (a4 : ℝ) : ℤ :=
  round (((f2mOctave : ℚ) : ℝ) * Real.logb 2 (((f2mMul : ℚ) : ℝ) * f / a4) + ((f2mRef : ℚ) : ℝ))

/-- the regenerated constants, cast to ℝ -/
theorem freq_consts_real :
    ((m2fBase : ℚ) : ℝ) = 2 ∧ ((f2mOctave : ℚ) : ℝ) = ((m2fOctave : ℚ) : ℝ) ∧ ((m2fOctave : ℚ) : ℝ) ≠ 0 ∧
    ((m2fDiv : ℚ) : ℝ) ≠ 0 ∧ ((f2mMul : ℚ) : ℝ) = ((m2fDiv : ℚ) : ℝ) * 2 ^ freqShift ∧
    (freqShift : ℝ) * ((m2fOctave : ℚ) : ℝ) = ((m2fRef : ℚ) : ℝ) - ((f2mRef : ℚ) : ℝ) := by
  obtain ⟨h1, h2, h3, h4, h5, h6⟩ := freq_consts
  refine ⟨by rw [h1]; norm_num, by rw [h2], by exact_mod_cast h3, by exact_mod_cast h4, ?_, ?_⟩
  · rw [h5]; push_cast; ring
  · have : (((freqShift : ℚ) * m2fOctave : ℚ) : ℝ) = ((m2fRef - f2mRef : ℚ) : ℝ) := by rw [h6]
    push_cast at this
    exact this

/-- frequency and MIDI pitch invert each other for every integer pitch and every positive tuning -/
theorem freq_pitch (p : ℤ) (a4 : ℝ) (h : 0 < a4) : freqToMidi (midiToFreq p a4) a4 = p := by
  obtain ⟨h1, h2, h3, h4, h5, h6⟩ := freq_consts_real
  unfold freqToMidi midiToFreq
  rw [h1, h2]
  exact C12Freq.inverse _ _ _ _ _ freqShift h4 h3 h5 h6 p a4 h

/-- … also with the tuning left out in both calls (the two keyword defaults are the same frequency) -/
theorem freq_pitch_default (p : ℤ) :
    freqToMidi (midiToFreq p ((m2fDefaultA4 : ℚ) : ℝ)) ((f2mDefaultA4 : ℚ) : ℝ) = p := by
  rw [← freq_defaults_agree.1]
  exact freq_pitch p _ (by exact_mod_cast freq_defaults_agree.2)

theorem octave_twelve : m2fOctave = 12 ∧ 0 < m2fDiv := by decide +kernel

/-- … and still do when the frequency is off by up to 1 % and the logarithm by up to 0.01 (the binary64 library
    functions are ~13 orders of magnitude inside this margin) -/
theorem freq_pitch_stable (p : ℤ) (a4 f d : ℝ) (h : 0 < a4)
    (hf1 : 99 / 100 * midiToFreq p a4 ≤ f) (hf2 : f ≤ 101 / 100 * midiToFreq p a4) (hd : |d| ≤ 1 / 100) :
    round (((f2mOctave : ℚ) : ℝ) * (Real.logb 2 (((f2mMul : ℚ) : ℝ) * f / a4) + d) + ((f2mRef : ℚ) : ℝ)) = p := by
  obtain ⟨h1, h2, h3, h4, h5, h6⟩ := freq_consts_real
  have ho : ((m2fOctave : ℚ) : ℝ) = 12 := by rw [octave_twelve.1]; norm_num
  have hD : (0 : ℝ) < ((m2fDiv : ℚ) : ℝ) := by exact_mod_cast octave_twelve.2
  unfold midiToFreq at hf1 hf2
  rw [h1, ho] at hf1 hf2
  rw [h2, ho]
  rw [ho] at h6
  exact C12Freq.stable _ _ _ _ freqShift h4 h5 h6 p a4 f d h hD hf1 hf2 hd

/-- octaves from the reference pitch of `midi_pitch_to_frequency` up to A4 = 69 -/
def a4Shift : Nat := ((69 - m2fRef) / m2fOctave).num.toNat

theorem a4_consts : m2fDiv = 2 ^ a4Shift ∧ (a4Shift : Rat) * m2fOctave = 69 - m2fRef := by decide +kernel

/-- A4 = MIDI 69 sounds at the tuning frequency; an octave doubles the frequency -/
theorem freq_a4 (a4 : ℝ) : midiToFreq 69 a4 = a4 := by
  obtain ⟨h1, _, h3, h4, _, _⟩ := freq_consts_real
  obtain ⟨c1, c2⟩ := a4_consts
  have c1' : ((m2fDiv : ℚ) : ℝ) = 2 ^ a4Shift := by rw [c1]; push_cast; ring
  have c2' : (a4Shift : ℝ) * ((m2fOctave : ℚ) : ℝ) = 69 - ((m2fRef : ℚ) : ℝ) := by
    have : (((a4Shift : ℚ) * m2fOctave : ℚ) : ℝ) = ((69 - m2fRef : ℚ) : ℝ) := by rw [c2]
    push_cast at this
    exact this
  unfold midiToFreq
  rw [h1]
  have : ((69 : ℝ) - ((m2fRef : ℚ) : ℝ)) / ((m2fOctave : ℚ) : ℝ) = (a4Shift : ℕ) := by
    rw [← c2']; field_simp
  rw [this, Real.rpow_natCast, c1']
  have hp : (2 : ℝ) ^ a4Shift ≠ 0 := by positivity
  field_simp

theorem freq_octave (p a4 : ℝ) : midiToFreq (p + 12) a4 = 2 * midiToFreq p a4 := by
  obtain ⟨h1, _, _, _, _, _⟩ := freq_consts_real
  have ho : ((m2fOctave : ℚ) : ℝ) = 12 := by rw [octave_twelve.1]; norm_num
  unfold midiToFreq
  rw [h1, ho]
  have : (p + 12 - ((m2fRef : ℚ) : ℝ)) / 12 = (p - ((m2fRef : ℚ) : ℝ)) / 12 + 1 := by ring
  rw [this, Real.rpow_add (by norm_num), Real.rpow_one]
  ring

end C12
