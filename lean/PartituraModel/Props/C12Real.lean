/-
C12 — frequency ↔ MIDI pitch in equal temperament, over the real numbers.

`midi_pitch_to_frequency(p, a4) = (a4/32)·2^((p−9)/12)` and
`frequency_to_midi_pitch(f, a4) = round(12·log₂(32·f/a4) + 9)` are transcendental, so this
part of C12 is a theorem about ℝ (noncomputable definitions written from the two source
lines); the binary64 implementation is compared exhaustively on MIDI 0..127 × a4 ∈ {415, 440, 442}
by harness/props/c12.py.
-/
import Mathlib.Analysis.SpecialFunctions.Log.Base

namespace C12

noncomputable def midiToFreq (p : ℝ) (a4 : ℝ) : ℝ := (a4 / 32) * (2 : ℝ) ^ ((p - 9) / 12)
noncomputable def freqToMidi (f : ℝ) (a4 : ℝ) : ℤ := round (12 * Real.logb 2 (32 * f / a4) + 9)

/-- frequency and MIDI pitch invert each other for every integer pitch and every positive tuning -/
theorem freq_pitch (p : ℤ) (a4 : ℝ) (h : 0 < a4) : freqToMidi (midiToFreq p a4) a4 = p := by
  unfold freqToMidi midiToFreq
  have h1 : 32 * (a4 / 32 * (2 : ℝ) ^ (((p : ℝ) - 9) / 12)) / a4 = (2 : ℝ) ^ (((p : ℝ) - 9) / 12) := by
    field_simp
  rw [h1, Real.logb_rpow (by norm_num) (by norm_num)]
  have h2 : 12 * (((p : ℝ) - 9) / 12) + 9 = (p : ℝ) := by ring
  rw [h2, round_intCast]

/-- A4 = MIDI 69 sounds at the tuning frequency; an octave doubles the frequency -/
theorem freq_a4 (a4 : ℝ) : midiToFreq 69 a4 = a4 := by
  unfold midiToFreq
  have : ((69 : ℝ) - 9) / 12 = (5 : ℕ) := by norm_num
  rw [this, Real.rpow_natCast]
  ring

theorem freq_octave (p a4 : ℝ) : midiToFreq (p + 12) a4 = 2 * midiToFreq p a4 := by
  unfold midiToFreq
  have : (p + 12 - 9) / 12 = (p - 9) / 12 + 1 := by ring
  rw [this, Real.rpow_add (by norm_num), Real.rpow_one]
  ring

end C12
