/-
C03 — the element-level part of "loading a file written by partitura and saving it again reproduces that file": writing
what was read from a written element gives the element again (`<barline>`, `<harmony>`, `<print>`, `<direction>`,
`<sound>`; `<note>` is `note_fixpoint` in Props/C03Codec.lean).  The serialisation of the tree (lxml) and the order of the
elements in the measure (`linearize`, stream lin) are outside these statements.
-/
import PartituraModel.Props.C03Bar
import PartituraModel.Props.C03Codec
import PartituraModel.Proofs.C03Fix2

namespace C03
open Model Model.XmlNote Model.XmlDir Model.XmlBar C03.Fix2

/-! ### `<barline>` -/

/-- **barline_fixpoint.**  A barline that holds what MusicXML allows (`BarSimple`) with its children in the order of
    `do_barlines`' five loops: the children the importer's reading stands for, written again at the same location, give
    the same `<barline>` element. -/
theorem barline_fixpoint (loc : Loc) (items : List BarItem) (h : BarSimple items)
    (hs : items.Pairwise (fun x y => barRank x < barRank y)) :
    writeBarline loc (itemsOfRead (readBarline (writeBarline loc items))) = writeBarline loc items := by
  have : itemsOfRead (readBarline (writeBarline loc items)) = items :=
    List.Perm.eq_of_pairwise (fun a b _ _ h1 h2 => absurd h1 (by omega)) (itemsOfRead_sorted _) hs
      (barline_items_recovered loc items h)
  rw [this]

example : BarSimple [.fermata, .endingStart ['2']] ∧
    [BarItem.fermata, .endingStart ['2']].Pairwise (fun x y => barRank x < barRank y) := by decide

/-! ### `<harmony>` -/

/-- the exporter's view of an object `_handle_harmony` made (a cadence of no known type cannot be written) -/
def reexportHarm : HarmObj → Option HarmW
  | .cadence (some t) => some (.cadence t)
  | .cadence none => none
  | .roman t => some (.roman t)
  | .chord r k b => some (.chord r k b)

/-- the representative of its meaning the importer picks: a bass, when there is one, is not the empty string; a cadence
    text is the cadence type itself (what `score.Cadence` stores) -/
def CanonicalHarm : HarmW → Prop
  | .roman _ => True
  | .chord _ _ bass => bass ≠ some []
  | .cadence t => cadenceType t = some (some t)

/-- **harmony_fixpoint.**  Writing the objects read from a written `<harmony>` gives that element again. -/
theorem harmony_fixpoint (w : HarmW) (hwf : WellFormedHarm w) (hc : CanonicalHarm w) :
    (readHarmony (writeHarmony w)).map (fun l => (l.filterMap reexportHarm).map writeHarmony) = some [writeHarmony w] := by
  rw [harmony_roundtrip w hwf]
  cases w with
  | roman t => rfl
  | chord root kind bass =>
    cases kind <;> cases bass with
    | none => rfl
    | some b =>
      have hb : b ≠ [] := fun e => hc (by rw [e])
      simp [canonHarmony, reexportHarm, writeHarmony, hb]
  | cadence t =>
    have : cadenceType t = some (some t) := hc
    simp [canonHarmony, this, reexportHarm]

example : CanonicalHarm (.cadence ['P', 'A', 'C']) := by unfold CanonicalHarm; decide

/-! ### `<print>`, `<sound>` -/

theorem print_fixpoint (p s : Bool) :
    writePrint (readPrint (writePrint p s)).1 (readPrint (writePrint p s)).2 = writePrint p s := by
  rw [print_roundtrip]

/-- **tempo_fixpoint.**  The tempo read from a written `<sound>` is written as the same element. -/
theorem tempo_fixpoint (t : TempoVal) (h : WellFormedTempo t) :
    (readSound (writeSound t)).map (Option.map writeSound) = some (some (writeSound t)) := by
  rw [tempo_roundtrip t h]
  rfl

/-! ### `<direction>` -/

/-- the exporter's view of what `_handle_direction` made of one element: the kind of object (and whether a range starts or
    stops) with the number under which it is kept -/
def reexportDir (d : DirRead) : Option DirW :=
  match d.items with
  | [.dynamics [name]] => some (.dyn name d.staff)
  | [.wedgeStart c n] => some (.wedgeStart c n.toNat d.staff)
  | [.words [t]] => some (.words t none d.staff)
  | [.words [t], .dashes .start n] => some (.words t (some n.toNat) d.staff)
  | [.wedgeStop n] => some (.rangeStop true n.toNat)
  | [.dashes .stop n] => some (.rangeStop false n.toNat)
  | [.pedal .start line _] => some (.pedalStart line d.staff)
  | [.pedal .stop line _] => some (.pedalStop line d.staff)
  | _ => none

/-- numbers are not 0 and the staff, when given, is not 0 -/
def CanonicalDir : DirW → Prop
  | .dyn _ staff => staff ≠ some 0
  | .wedgeStart _ k staff => k ≠ 0 ∧ staff ≠ some 0
  | .words _ none staff => staff ≠ some 0
  | .words _ (some k) staff => k ≠ 0 ∧ staff ≠ some 0
  | .rangeStop _ k => k ≠ 0
  | .pedalStart _ staff => staff ≠ some 0
  | .pedalStop _ staff => staff ≠ some 0

/-- **direction_fixpoint.**  For every element `do_directions` writes, with numbers and staves that are not 0: writing what
    the importer read from it gives the element again. -/
theorem direction_fixpoint (d : DirW) (hwf : WellFormedDir d) (hc : CanonicalDir d) :
    (readDir (writeDir d)).bind (fun r => (reexportDir r).map writeDir) = some (writeDir d) := by
  rw [direction_roundtrip d hwf]
  cases d with
  | dyn name staff =>
    simp only [Option.bind_some, canonDir, reexportDir, Option.map_some, writeDir, dirStaffEl_canon staff hc]
  | wedgeStart c k staff =>
    simp only [Option.bind_some, canonDir, reexportDir, Option.map_some, writeDir, dirStaffEl_canon staff hc.2,
      intOr_toNat k hc.1]
  | words t dashes staff =>
    cases dashes with
    | none =>
      simp only [Option.bind_some, canonDir, List.append_nil, reexportDir, Option.map_some, writeDir,
        dirStaffEl_canon staff hc, filterString_idem]
    | some k =>
      simp only [Option.bind_some, canonDir, List.cons_append, List.nil_append, reexportDir, Option.map_some, writeDir,
        dirStaffEl_canon staff hc.2, filterString_idem, intOr_toNat k hc.1]
  | rangeStop isWedge k =>
    cases isWedge <;>
      simp only [Option.bind_some, canonDir, reexportDir, Option.map_some, writeDir, intOr_toNat k hc, if_true,
        Bool.false_eq_true, if_false]
  | pedalStart line staff =>
    simp only [Option.bind_some, canonDir, reexportDir, Option.map_some, writeDir, dirStaffEl_canon staff hc]
  | pedalStop line staff =>
    simp only [Option.bind_some, canonDir, reexportDir, Option.map_some, writeDir, dirStaffEl_canon staff hc]

example : WellFormedDir (.words ['c', 'r', 'e', 's', 'c', '.'] (some 2) (some 2)) ∧
    CanonicalDir (.words ['c', 'r', 'e', 's', 'c', '.'] (some 2) (some 2)) :=
  ⟨by decide, by unfold CanonicalDir; decide⟩

end C03
