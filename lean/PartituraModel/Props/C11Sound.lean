/-
C11 (round 5) — "the note array before and after is identical", for the executable note array of the model.

* `sounding_is_walk`            the fuel-bounded `sounding` the driver prints IS the recursion of `duration_tied` / `end_tied`
* `tie_notes_note_array_same`   the LIST of rows (onset, tied duration, pitch, voice, id — and in numbers, with the MIDI pitch)
                                is the same before and after `tie_notes`
* `tie_notes_links_kept`        contiguity and "same pitch, voice, staff" of every tie link survive `tie_notes`
                                (proved from the function, so `sanitize_part`'s tie check is discharged, not assumed)
* `normalise_note_array_same`   `tie_notes`, then `find_tuplets`, then `sanitize_part`: the note array is the one entered
* `sanitize_*`                  the whole of `sanitize_part`: identity on complete structures, never touches a plain note
                                but for clearing ties, and its tie check cannot see spellings, voices, staves or ids
-/
import PartituraModel.Props.C11Rows
import PartituraModel.Props.C11Tuplets
import PartituraModel.Proofs.C11San
import PartituraModel.Proofs.C11Within

namespace C11
open Model Model.Dur Model.Meas Model.San Model.Tup Gen C11Rows C11Sound C11Contig C11San C11Within

/-- **sounding_is_walk**: for every list and every key whose chain `duration_tied` / `end_tied` can walk, the
    fuel-bounded recursion of the model (fuel = length of the list) returns exactly the walked end and duration — a
    walk never visits a key twice, so it is never longer than the list -/
theorem sounding_is_walk (ns : List Note) (x d e : Nat) (n : Note) (hn : C11Walk.lk ns x = some n)
    (h : C11Walk.Walk ns x d e) : chainEndDur ns ns.length n = (e, d) :=
  chainEndDur_walk ns x d e n hn h

/-- **tie_notes_note_array_same**: for every part and every note list with distinct keys, ties that point at notes with
    a back link, and chains that end (`Walkable`: `duration_tied` terminates on every row) — the note array of the
    model is, as a list in iteration order, identical before and after `tie_notes`: onset, tied duration, pitch,
    voice, id; hence also in numbers (MIDI pitch from the regenerated `MIDI_BASE_CLASS`) -/
theorem tie_notes_note_array_same (p : PartM) (ns : List Note) (hkeys : KeysOK ns) (hlinks : LinksOK ns)
    (hw : Walkable ns) :
    sounding (tieNotes p ns) = sounding ns ∧ soundingMidi (tieNotes p ns) = soundingMidi ns ∧ Walkable (tieNotes p ns) := by
  unfold tieNotes
  rw [stage2_dead]
  have h := sounding_tieStage1 p.qd (p.measures.map (·.start)) ns hkeys hlinks hw
  exact ⟨h, by unfold soundingMidi; rw [h], walkable_tieStage1 p.qd _ ns hkeys hlinks hw⟩

/-- **tie_notes_links_kept**: "afterwards every tie chain is contiguous, of one pitch, voice and staff" at the level of
    the list — if every tie link entered joins a note to one that starts where it ends (`ContigAll`), so does every link
    after `tie_notes`; and if every link entered joins notes of the same pitch, voice and staff, so does every link
    afterwards (the links the library creates always do: `tie_sound_same`) -/
theorem tie_notes_links_kept (p : PartM) (ns : List Note) (hkeys : KeysOK ns) (hlinks : LinksOK ns) :
    (C11Walk.ContigAll ns → C11Walk.ContigAll (tieNotes p ns)) ∧
    (NonNeg ns → LinkRel sameP ns → LinkRel sameP (tieNotes p ns)) := by
  unfold tieNotes
  rw [stage2_dead]
  obtain ⟨_, hk', _⟩ := tieStage1_rows p.qd (p.measures.map (·.start)) ns hkeys hlinks
  constructor
  · intro hc
    obtain ⟨h1, h2⟩ := (contigAll_iff ns hkeys).mp hc
    exact (contigAll_iff _ hk').mpr
      (tieStage1_links adjP (fun _ => rfl) p.qd _ ns hkeys hlinks h1 h2)
  · intro h1 h2
    exact (tieStage1_links sameP (fun _ => rfl) p.qd _ ns hkeys hlinks h1 h2).2

/-- **tie_notes_within_measures**: "afterwards every pitched note lies within one measure" for the whole list — with
    the measures in time order (as `iter_all(Measure)` yields them) no measure starts strictly inside any note after
    `tie_notes`, for every part and every note list with distinct keys -/
theorem tie_notes_within_measures (p : PartM) (ns : List Note) (hkeys : KeysOK ns) (hlinks : LinksOK ns)
    (hs : (p.measures.map (·.start)).Pairwise (· ≤ ·)) :
    ∀ n ∈ tieNotes p ns, ∀ m ∈ p.measures, ¬ (n.start < m.start ∧ m.start < n.stop) := by
  unfold tieNotes
  rw [stage2_dead]
  obtain ⟨_, hk', _⟩ := tieStage1_rows p.qd (p.measures.map (·.start)) ns hkeys hlinks
  intro n hn m hm
  have hl := lk_self _ hk' n hn
  exact tieStage1_within p.qd _ hs ns n.key n hl m.start (List.mem_map.mpr ⟨m, hm, rfl⟩)

/-- **tie_notes_symdur**: "every symbolic duration the library assigns evaluates to the note's numeric duration under the
    divisions in force" for the whole list — after `tie_notes` the note found under a key is the entered note with its
    extent and stored value untouched, or a piece whose stored value is the estimate for its own length under the
    divisions at its start; and such a value, when it is one notated value, lasts exactly the piece -/
theorem tie_notes_symdur (p : PartM) (ns : List Note) (x : Nat) (n' : Note) (h : C11Walk.lk (tieNotes p ns) x = some n') :
    (∃ n, C11Walk.lk ns x = some n ∧ n'.sym = n.sym ∧ n'.start = n.start ∧ n'.stop = n.stop) ∨
    (n'.sym = some (estimateI (n'.stop - n'.start) (quarterAt p.qd n'.start)) ∧
      ∀ sd, n'.sym = some (.single sd) →
        symbolicToNumeric sd (quarterAt p.qd n'.start) = some ((n'.stop - n'.start : Nat) : Rat)) := by
  unfold tieNotes at h
  rw [stage2_dead] at h
  rcases tieStage1_sym p.qd (p.measures.map (·.start)) ns x n' h with h1 | h2
  · exact Or.inl h1
  · refine Or.inr ⟨h2, ?_⟩
    intro sd hsd
    rw [h2] at hsd
    exact symdur_assigned _ _ sd (Option.some.inj hsd)

/-- **tie_then_sanitize**: the tie check of `sanitize_part` finds nothing to remove in the OUTPUT of `tie_notes`,
    whatever the tolerance — the adjacency it needs is proved from `tie_notes` (`tie_notes_links_kept`) -/
theorem tie_then_sanitize (p : PartM) (ns : List Note) (tol : Nat) (hkeys : KeysOK ns) (hlinks : LinksOK ns)
    (hc : C11Walk.ContigAll ns) : sanitizeTies (tieNotes p ns) tol = tieNotes p ns :=
  sanitize_sound_same _ tol ((tie_notes_links_kept p ns hkeys hlinks).1 hc)

/-- **normalise_note_array_same**: `tie_notes`, then `find_tuplets`, then `sanitize_part` (any tolerance) on any part and
    any well-formed note list (distinct keys, ties with back links that join adjacent notes and end): the note array of
    the model afterwards is the note array entered -/
theorem normalise_note_array_same (p : PartM) (ns : List Note) (tol : Nat) (hkeys : KeysOK ns) (hlinks : LinksOK ns)
    (hw : Walkable ns) (hc : C11Walk.ContigAll ns) :
    soundingMidi (sanitizeTies (findTuplets p.qd (tieNotes p ns)).notes tol) = soundingMidi ns ∧
    sounding (sanitizeTies (findTuplets p.qd (tieNotes p ns)).notes tol) = sounding ns := by
  rw [(tuplets_dead p.qd (tieNotes p ns)).2.1, tie_then_sanitize p ns tol hkeys hlinks hc]
  obtain ⟨h1, h2, _⟩ := tie_notes_note_array_same p ns hkeys hlinks hw
  exact ⟨h2, h1⟩

/-! ### the whole of `sanitize_part` -/

/-- **sanitize_complete_noop**: a part in which every grace note has a main note, every tuplet and slur has both its
    notes and every tie joins adjacent notes is left exactly as it is — nothing removed, no link changed -/
theorem sanitize_complete_noop (s : SanState) (tol : Nat) (hg : GracesComplete s.graces)
    (ht : ∀ t ∈ s.tuplets, spanComplete t = true) (hs : ∀ t ∈ s.slurs, spanComplete t = true)
    (hc : C11Walk.ContigAll s.notes) : sanitizePart s tol = s :=
  sanitizePart_noop s tol hg ht hs hc

/-- **sanitize_keeps_notes**: for EVERY part and tolerance, `sanitize_part` removes, moves and alters no plain note:
    the notes afterwards are the notes before but for tie links, which are only ever cleared; grace notes, tuplets and
    slurs are handled without touching them -/
theorem sanitize_keeps_notes (s : SanState) (tol : Nat) :
    (sanitizePart s tol).notes = sanitizeTies s.notes tol ∧
    (sanitizePart s tol).notes.map untie = s.notes.map untie :=
  ⟨rfl, sanitizeTies_untie s.notes tol⟩

/-- **sanitize_reads_sound_not_spelling**: the tie check decides on keys, times and links only — rewrite pitches
    (`alter` `None` for `0`, A♭ for G♯), voices, staves and ids in any way and exactly the same links are cleared -/
theorem sanitize_reads_sound_not_spelling (π : Nat → String) (ν σ : Nat → Option Int) (ι : Nat → Option String)
    (ns : List Note) (tol : Nat) :
    sanitizeTies (ns.map (repaint π ν σ ι)) tol = (sanitizeTies ns tol).map (repaint π ν σ ι) :=
  sanitizeTies_repaint π ν σ ι ns tol

/-- `alter=None` and `alter=0` sound the same, for every step and octave (over the regenerated `MIDI_BASE_CLASS`) -/
theorem alter_none_is_zero (step : String) (octave : Int) :
    spellingToMidi step none octave = spellingToMidi step (some 0) octave := by
  unfold spellingToMidi
  simp

/-! ### the literal constants of the source (Gen/C11Consts.lean, regenerated on every run) -/

/-- **consts_extracted**: every constant was read from the live source, and the values are ones under which the model
    means what its theorems say: the estimator's tolerance is positive and below half a division, tuplets are guessed up
    to a whole bar of four quarters starting from two normal notes, `tie_notes` allows the number of splits
    `find_tie_split` allows by default, the default tie tolerance is 0, and a bar end is snapped to an integer only from
    closer than half a division (so `snap` is the identity on integers and never crosses a half) -/
theorem consts_extracted :
    Gen.C11.extractionOk = true ∧ Gen.C11.notes = [] ∧
    eps = Gen.C11.estimateEps ∧ 0 < eps ∧ eps < 1 / 2 ∧
    Gen.C11.tupletMaxQuarters = 4 ∧ Gen.C11.tupletFirstNormal = 2 ∧
    Gen.C11.tieNotesMaxSplits = Gen.C11.findTieSplitMaxSplits ∧ Gen.C11.sanitizeTieTolerance = 0 ∧
    Gen.C11.addMeasuresDefaultBeats = 4 ∧ 0 < Gen.C11.addMeasuresSnap ∧ Gen.C11.addMeasuresSnap < 1 / 2 := by
  decide +kernel

-- enharmonic spellings: G♯4 = A♭4 = 68, B♯3 = C4 = 60, C♭4 = B3 = 59
example : spellingToMidi "G" (some 1) 4 = some 68 ∧ spellingToMidi "A" (some (-1)) 4 = some 68 ∧
    spellingToMidi "B" (some 1) 3 = some 60 ∧ spellingToMidi "C" none 4 = some 60 ∧
    spellingToMidi "C" (some (-1)) 4 = some 59 ∧ spellingToMidi "B" (some 0) 3 = some 59 := by decide +kernel

-- non-vacuity: the witness of C11-3 ([0, 6) tied to [6, 8), bars of 4) satisfies every hypothesis above
example : Walkable [exA, exB] := by
  intro n hn hnone
  simp only [List.mem_cons, List.not_mem_nil, or_false] at hn
  rcases hn with rfl | rfl
  · exact ⟨8, 8, C11Walk.Walk.step 0 exA 1 2 8 rfl rfl (C11Walk.Walk.last 1 exB rfl rfl)⟩
  · simp [exB] at hnone

def exSound : Nat × Nat × String × Option Int × Option String := (0, 8, "C_0_4", some 1, some "n0")
example : sounding [exA, exB] = [exSound] ∧ sounding (tieNotes exTiePart [exA, exB]) = [exSound] :=
  ⟨by decide +kernel, by decide +kernel⟩

example : ((exTiePart.measures.map (·.start)).Pairwise (· ≤ ·)) := by decide
-- the piece [4, 6) of the witness carries the estimate for 2 divisions at 1 per quarter: a half note
example : C11Walk.lk (tieNotes exTiePart [exA, exB]) 2 =
    some { exA with key := 2, id := some "n0a", start := 4, stop := 6, sym := some (.single ("half", 0, none, none)),
                    tiePrev := some 0, tieNext := some 1 } := by decide +kernel

-- the seeded change of round 5 in the model's terms: the same chain with the second note written `alter=None`
-- is still one row of the note array, and the tie check (tolerance 0) leaves it tied
def exB' : Note := { exB with pitch := "C_N_4" }
example : sanitizeTies [exA, exB'] 0 = [exA, exB'] ∧
    (sounding [exA, exB']).map (·.2.1) = [8] := by decide +kernel

-- sanitize_part on incomplete structures: the grace note 0 (voice 1, at 0) adopts the plain note of its voice that
-- starts with it; grace note 1 (voice 2) finds none and goes; the tuplet without end note goes; the tie [0,6)→[7,8) with a
-- gap of 1 is cleared at tolerance 0 and kept at tolerance 1
def exC : Note := { exB with start := 7 }
def exSan : SanState :=
  { notes := [exA, exC], graces := [⟨0, 0, some 1, .none⟩, ⟨1, 0, some 2, .none⟩], removed := [],
    tuplets := [(0, true, true), (1, true, false)], slurs := [(0, false, true)] }
example : (sanitizePart exSan 0).graces = [⟨0, 0, some 1, .note 0⟩, ⟨1, 0, some 2, .none⟩] ∧
    (sanitizePart exSan 0).removed = [1] ∧ (sanitizePart exSan 0).tuplets = [(0, true, true)] ∧
    (sanitizePart exSan 0).slurs = [] ∧
    (sanitizePart exSan 0).notes.map (fun n => (n.tiePrev, n.tieNext)) = [(none, none), (none, none)] ∧
    (sanitizePart exSan 1).notes.map (fun n => (n.tiePrev, n.tieNext)) = [(none, some 1), (some 0, none)] := by
  decide +kernel

end C11
