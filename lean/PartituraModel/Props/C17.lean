/-
C17 — spelling, voice and key estimation are total, well-formed and pitch-preserving.
Property theorems over Model/Ps13.lean, Model/Voices.lean, Model/KeyEst.lean and the tables
regenerated from the source (Gen.Ps13Tables, Gen.Tables); helper lemmas live in Proofs/C17*.lean.
-/
import PartituraModel.Proofs.C17Ps13
import PartituraModel.Proofs.C17Acc
import PartituraModel.Proofs.C17Window
import PartituraModel.Proofs.C17Voices
import PartituraModel.Proofs.C17Key
import PartituraModel.Proofs.C17Corr

namespace C17
open Model Gen

/-! ### pitch spelling (ps13 stage 1) -/

/-- the MIDI pitch a spelling sounds (`pitch_spelling_to_midi_pitch`, which is `Note.midi_pitch`) -/
def sounding (s : String × Int × Int) : Option Int := spellingToMidi s.1 (some s.2.1) s.2.2

/-- `p2pn` sounds the chromatic pitch, for EVERY chromatic pitch and EVERY morphetic pitch
    (in particular every morph and octave the heuristic can choose) -/
theorem p2pn_sounds (c mp : Int) : sounding (Ps13.p2pn c mp) = some (c + 21) :=
  C17P.p2pn_sounds c mp

/-- every note is spelled, and its spelling sounds exactly its MIDI pitch: any window sizes,
    any onsets, any pitches, any row order -/
theorem spelling_sounds (kpre kpost : Nat) (notes : List Ps13.Row) (sp : List (String × Int × Int))
    (h : Ps13.ps13 kpre kpost notes = some sp) :
    sp.length = notes.length ∧
    ∀ i (hi : i < notes.length), ∃ s, sp[i]? = some s ∧ sounding s = some notes[i].2 := by
  obtain ⟨h1, h2⟩ := C17P.ps13_spec kpre kpost notes sp h
  refine ⟨h1, fun i hi => ?_⟩
  obtain ⟨mp, hmp⟩ := h2 i hi
  refine ⟨_, hmp, ?_⟩
  rw [p2pn_sounds]; congr 1; omega

/-- ps13 is total on non-empty arrays (the hypothesis of the theorems above is satisfiable by
    every non-empty array) and rejects the empty one, as the code does (IndexError) -/
theorem spelling_total (kpre kpost : Nat) (notes : List Ps13.Row) :
    (notes ≠ [] → ∃ sp, Ps13.ps13 kpre kpost notes = some sp) ∧ Ps13.ps13 kpre kpost [] = none := by
  constructor
  · intro h; simp [Ps13.ps13, h]
  · simp [Ps13.ps13]

/-- the importer builds each `Note` from the spelling of its row (`create_part`), so the imported
    pitches are exactly the file's: the list of sounding pitches of the spellings is the pitch column -/
theorem midi_import_pitches (kpre kpost : Nat) (notes : List Ps13.Row) (sp : List (String × Int × Int))
    (h : Ps13.ps13 kpre kpost notes = some sp) :
    sp.map sounding = notes.map (fun r => some r.2) := by
  obtain ⟨h1, h2⟩ := spelling_sounds kpre kpost notes sp h
  apply List.ext_getElem
  · simp [h1]
  · intro i hi1 hi2
    have hi : i < notes.length := by simpa using hi2
    obtain ⟨s, hs, hsound⟩ := h2 i hi
    have : sp[i]'(by omega) = s := by
      rw [List.getElem?_eq_getElem (by omega)] at hs; exact Option.some.inj hs
    simp [this, hsound]

/-- WHOLE finite domain 12 x 12 x 12 (first-note chroma, note chroma, tonic chroma), decided by the
    kernel on the regenerated tables: the morph a tonic assigns never needs more than a double accidental -/
theorem double_acc_table : ∀ c0 cj ct : Fin 12,
    -2 ≤ C17P.alterOf (cj.val : Int) (Ps13.morphForTonic (c0.val : Int) (cj.val : Int) (ct.val : Int)) ∧
    C17P.alterOf (cj.val : Int) (Ps13.morphForTonic (c0.val : Int) (cj.val : Int) (ct.val : Int)) ≤ 2 :=
  C17P.acc_table

/-- at most a double accidental on every note of every array, for every window with K_post ≥ 1
    (the note itself lies in its window; the default is K_post = 40) -/
theorem double_acc_bound (kpre kpost : Nat) (hpost : 1 ≤ kpost) (notes : List Ps13.Row)
    (sp : List (String × Int × Int)) (h : Ps13.ps13 kpre kpost notes = some sp) :
    ∀ s ∈ sp, -2 ≤ s.2.1 ∧ s.2.1 ≤ 2 := fun s hs =>
  C17P.stage1_alter_bound kpre kpost hpost _ s (C17P.ps13_mem_stage1 kpre kpost notes sp h s hs)

/-- the same for the defaults of `ps13s1` as regenerated from the source -/
theorem double_acc_default (notes : List Ps13.Row) (sp : List (String × Int × Int))
    (h : Ps13.ps13Default notes = some sp) : ∀ s ∈ sp, -2 ≤ s.2.1 ∧ s.2.1 ≤ 2 :=
  double_acc_bound PS13_K_PRE PS13_K_POST (by decide) notes sp h

/-- the bound needs the note in its own window: with K_post = 0 the first note sees an empty
    window, every morph strength is 0, `argmax` answers morph 0 = step A, and an E flat becomes
    an A with six sharps (model-level witness; the code's default is 40) -/
example : C17P.alterOf 6 0 = 6 := by decide +kernel

/-- order independence: permuting the rows permutes the (row, spelling) pairs — a row that is the
    only one with its (onset, pitch) therefore keeps its spelling, and rows that coincide in both
    receive the same multiset of spellings -/
theorem spelling_perm (kpre kpost : Nat) (notes notes' : List Ps13.Row)
    (sp sp' : List (String × Int × Int)) (hp : notes.Perm notes')
    (h : Ps13.ps13 kpre kpost notes = some sp) (h' : Ps13.ps13 kpre kpost notes' = some sp') :
    (notes.zip sp).Perm (notes'.zip sp') := by
  have e := C17P.sortedRows_eq_of_perm notes notes' hp
  have p1 := C17P.ps13_zip_perm kpre kpost notes sp h
  have p2 := C17P.ps13_zip_perm kpre kpost notes' sp' h'
  rw [e] at p1
  exact p1.trans p2.symm

example : [((0 : Rat), (60 : Int)), (1, 64)].Perm [(1, 64), (0, 60)] := List.Perm.swap _ _ _

/-! ### voice estimation (the search is a parameter) -/

/-- `rename_voices` followed by the reversal `max - v + 1`: for every non-empty voice vector the
    result has the same length, its set of values is exactly {1..k} with k the number of distinct
    inputs (so all ≥ 1, no gaps), and two rows share a number iff they shared a voice -/
theorem rename_gapless (vs : List Int) (h : vs ≠ []) :
    ∃ out, Voices.finalize vs = some out ∧ out.length = vs.length ∧
      (∀ x, x ∈ out ↔ 1 ≤ x ∧ x ≤ (vs.dedup.length : Int)) ∧
      (∀ i j (hi : i < vs.length) (hj : j < vs.length), out[i]? = out[j]? ↔ vs[i] = vs[j]) := by
  refine ⟨_, C17V.finalize_eq vs h, by simp, ?_, ?_⟩
  · intro x
    rw [← C17V.firstOcc_length]
    simp only [List.mem_map]
    constructor
    · rintro ⟨v, hv, rfl⟩
      have := List.idxOf_lt_length_of_mem ((C17V.mem_firstOcc vs v).mpr hv)
      omega
    · rintro ⟨h1, h2⟩
      have hlt : ((C17V.firstOcc vs).length - x).toNat < (C17V.firstOcc vs).length := by omega
      refine ⟨(C17V.firstOcc vs)[((C17V.firstOcc vs).length - x).toNat],
        (C17V.mem_firstOcc vs _).mp (List.getElem_mem hlt), ?_⟩
      rw [(C17V.firstOcc_nodup vs).idxOf_getElem]
      omega
  · intro i j hi hj
    simp only [List.getElem?_map, List.getElem?_eq_getElem hi, List.getElem?_eq_getElem hj,
      Option.map_some, Option.some.injEq]
    constructor
    · intro e
      have e' : (C17V.firstOcc vs).idxOf vs[i] = (C17V.firstOcc vs).idxOf vs[j] := by omega
      exact (List.idxOf_inj ((C17V.mem_firstOcc vs _).mpr (List.getElem_mem hi))).mp e'
    · intro e; rw [e]

/-- the empty vector is rejected (`max([])` raises ValueError) -/
theorem rename_empty : Voices.finalize [] = none := C17V.finalize_none_nil

example : Voices.finalize [5, 5, -1, 3] = some [3, 3, 2, 1] := by decide

/-- chord mode: notes with identical onset and duration receive the same voice — for ANY search -/
theorem chord_same_voice (vosa : Voices.Vosa) (notes : List Voices.VNote) (out : List Int)
    (h : Voices.estimateVoices vosa false notes = some out) (i j : Nat)
    (hi : i < notes.length) (hj : j < notes.length)
    (hon : notes[i].2.1 = notes[j].2.1) (hdu : notes[i].2.2 = notes[j].2.2) :
    out[i]? = out[j]? := by
  apply C17V.chord_same_voice vosa notes out h i j hi hj
  simp only [C17V.keyOf, List.getElem?_eq_getElem hi, List.getElem?_eq_getElem hj, Option.map_some, hon, hdu]

/-- totality and well-formedness, both modes, zero-duration notes included (durations are
    arbitrary rationals): if the search answers exactly the ids it was given, every input note
    receives one voice, all voices are ≥ 1 and they are numbered 1..k without gaps -/
theorem total_given_vosa (vosa : Voices.Vosa) (mono : Bool) (notes : List Voices.VNote) (hne : notes ≠ [])
    (hc : C17V.VosaCovers vosa (Voices.vosaInput mono notes)) :
    ∃ out, Voices.estimateVoices vosa mono notes = some out ∧ out.length = notes.length ∧
      (∀ x ∈ out, 1 ≤ x) ∧ ∃ k : Int, ∀ x, x ∈ out ↔ 1 ≤ x ∧ x ≤ k := by
  obtain ⟨out, voices, h1, h2, h3⟩ := C17V.total_given_vosa vosa mono notes hne hc
  have hvne : voices ≠ [] := by
    intro e; subst e; simp at h2; exact hne (List.eq_nil_of_length_eq_zero h2.symm)
  obtain ⟨out', ho, hl, hg, _⟩ := rename_gapless voices hvne
  rw [h3] at ho
  cases ho
  exact ⟨out, h1, by omega, fun x hx => ((hg x).mp hx).1, _, hg⟩

/-- the hypothesis is satisfiable: a search that puts every row in voice 0 covers its input -/
example (rows : List Voices.VRow) : C17V.VosaCovers (fun rows => rows.map fun r => (r.1, 0)) rows := by
  simp [C17V.VosaCovers, Function.comp_def]

/-- the empty array is rejected in both modes (the code raises) -/
theorem voices_empty (vosa : Voices.Vosa) (mono : Bool) : Voices.estimateVoices vosa mono [] = none := by
  simp [Voices.estimateVoices]

/-! ### key estimation -/

/-- every entry of the regenerated `KEYS` table formats to a valid key name (whole table) -/
theorem key_valid_name :
    ∀ i, i < 24 → ∃ nm, KeyEst.keyNameAt i = some nm ∧
      (nm ∈ MAJOR_KEYS ∨ ∃ r ∈ MINOR_KEYS, nm = r ++ "m") := by
  decide

/-- every estimate is one of those names: the argmax ranges over the 24 rows — for every note
    list (empty, zero durations, constant histogram included) and every profile set -/
theorem key_estimate_valid (ps : KeyEst.ProfileSet) (notes : List KeyEst.KNote) :
    ∃ nm, KeyEst.estimateKey ps notes = some nm ∧ (nm ∈ MAJOR_KEYS ∨ ∃ r ∈ MINOR_KEYS, nm = r ++ "m") :=
  key_valid_name _ (C17K.keyIndexOfHist_lt ps _)

/-- the check of row `i` of `KEYS` used by `key_name_roundtrip` -/
def keyRowOK (i : Nat) : Bool :=
  match KEYS[i]? with
  | none => false
  | some (root, mode, fifths) =>
    let nm := KeyEst.formatKey (root, mode, fifths)
    let md := if i < 12 then Mode.major else Mode.minor
    decide (keyNameToFifthsMode nm = some (fifths, md)) &&
    decide (fifthsModeToKeyName fifths md = some nm) &&
    decide (mode = if i < 12 then "major" else "minor") &&
    decide ((noteNameToMidi (root ++ "4")).map (· % 12) = some ((i % 12 : Nat) : Int))

/-- whole table: each name is accepted by `key_name_to_fifths_mode`, which returns the fifths and
    mode listed in `KEYS`, and `fifths_mode_to_key_name` maps them back to the same name
    (what the repaired `load_score_midi(estimate_key=True)` relies on); rows 0-11 are the major and
    rows 12-23 the minor keys, row i having tonic pitch class i mod 12 (so "row (m/12, (m%12+s)%12)"
    in `key_transpose` IS "tonic moved by s, same mode") -/
theorem key_name_roundtrip : ∀ i, i < 24 → keyRowOK i = true := by
  decide

/-- Pearson correlation of the histogram with key `i`, over the reals (what `np.corrcoef` denotes) -/
noncomputable def corr (ps : KeyEst.ProfileSet) (h : Nat → Rat) (i : Nat) : ℝ :=
  ((KeyEst.cov12 h (KeyEst.keyProfile ps i) : ℚ) : ℝ) /
    Real.sqrt (((KeyEst.cov12 h h : ℚ) : ℝ) * ((KeyEst.cov12 (KeyEst.keyProfile ps i) (KeyEst.keyProfile ps i) : ℚ) : ℝ))

/-- the model's square-root-free comparison of two keys is exactly the comparison of their
    correlation coefficients, for every non-constant histogram and the shipped profiles
    (whose variances are positive: whole table, kernel-evaluated) -/
theorem key_order_is_correlation_order (ps : KeyEst.ProfileSet) (h : Nat → Rat) (a b : Nat)
    (ha : a < 24) (hb : b < 24) (hvar : 0 < KeyEst.cov12 h h) :
    KeyEst.better (KeyEst.keyScore ps h a) (KeyEst.keyScore ps h b) = true ↔ corr ps h b < corr ps h a :=
  C17K.better_iff_corr _ _ _ _ _ hvar (C17K.profile_variance_pos ps a ha) (C17K.profile_variance_pos ps b hb)

/-- octave shifts (any multiple of 12, per note) leave the estimate unchanged -/
theorem key_octave_inv (ps : KeyEst.ProfileSet) (notes : List KeyEst.KNote) (shifts : List Int)
    (hl : shifts.length = notes.length) :
    KeyEst.estimateKey ps (List.zipWith (fun n k => (n.1 + 12 * k, n.2)) notes shifts) =
    KeyEst.estimateKey ps notes := by
  have : KeyEst.hist (List.zipWith (fun n k => (n.1 + 12 * k, n.2)) notes shifts) = KeyEst.hist notes := by
    funext pc
    rw [C17K.hist_octave, hl, List.take_length]
  simp only [KeyEst.estimateKey, KeyEst.keyIndex, this]

/-- rescaling all durations by any k > 0 leaves the estimate unchanged -/
theorem key_scale_inv (ps : KeyEst.ProfileSet) (notes : List KeyEst.KNote) (k : Rat) (hk : 0 < k) :
    KeyEst.estimateKey ps (notes.map fun n => (n.1, n.2 * k)) = KeyEst.estimateKey ps notes := by
  have : KeyEst.hist (notes.map fun n => (n.1, n.2 * k)) = fun j => k * KeyEst.hist notes j := by
    funext pc; exact C17K.hist_scale k notes pc
  simp only [KeyEst.estimateKey, KeyEst.keyIndex, this, C17K.keyIndexOfHist_scale ps _ k hk]

/-- key `m` has the strictly greatest exact correlation with the notes' histogram -/
def UniqueMax (ps : KeyEst.ProfileSet) (notes : List KeyEst.KNote) (m : Nat) : Prop :=
  C17K.UniqueMaxH ps (KeyEst.hist notes) m

/-- under a unique maximum the estimate IS that maximum -/
theorem key_is_unique_max (ps : KeyEst.ProfileSet) (notes : List KeyEst.KNote) (m : Nat)
    (hu : UniqueMax ps notes m) : KeyEst.keyIndex ps notes = m :=
  C17K.keyIndexOfHist_unique ps _ m hu

/-- transposing every note by `s` semitones moves the estimated tonic by `s` (mod 12) and keeps the
    mode: row (m / 12, m mod 12) becomes row (m / 12, (m mod 12 + s) mod 12) -/
theorem key_transpose (ps : KeyEst.ProfileSet) (notes : List KeyEst.KNote) (s : Int) (m : Nat)
    (hu : UniqueMax ps notes m) :
    KeyEst.keyIndex ps (notes.map fun n => (n.1 + s, n.2)) = (m / 12) * 12 + (m % 12 + (s % 12).toNat) % 12 ∧
    KeyEst.estimateKey ps (notes.map fun n => (n.1 + s, n.2)) =
      KeyEst.keyNameAt ((m / 12) * 12 + (m % 12 + (s % 12).toNat) % 12) := by
  have ht : (s % 12).toNat < 12 := by omega
  have h := C17K.keyIndexOfHist_transpose ps (KeyEst.hist notes)
    (KeyEst.hist (notes.map fun n => (n.1 + s, n.2))) (s % 12).toNat ht
    (fun j hj => C17K.hist_transpose s notes j hj) m hu
  exact ⟨h, by simp only [KeyEst.estimateKey, KeyEst.keyIndex, h]⟩

/-- the hypothesis is satisfiable: a C major triad with a passing D has C major as its strictly
    best key under the Krumhansl-Kessler profiles (exact rational arithmetic, kernel-evaluated) -/
example : UniqueMax .kk [(60, 1), (64, 1), (67, 1), (62, 1 / 2), (72, 2)] 0 := by
  unfold UniqueMax C17K.UniqueMaxH
  decide +kernel

/-- without it the claim fails: a single C is equally C major and C minor for the cbms profiles
    (they are permutations of each other), the first maximum wins before and after transposing -/
example : ¬ ∃ m, UniqueMax .cbms [(60, 1)] m := by
  have key : ∀ m, m < 24 → ¬ UniqueMax .cbms [(60, 1)] m := by
    unfold UniqueMax C17K.UniqueMaxH
    decide +kernel
  rintro ⟨m, hu⟩
  exact key m hu.2.1 hu

end C17
