import PartituraModel.Model.Ps13
import PartituraModel.Model.Voices
import PartituraModel.Model.KeyEst

namespace C17
open Model

/-- every entry of the regenerated `KEYS` table formats to a valid key name -/
theorem key_valid_name :
    ∀ i, i < 24 → ∃ nm, KeyEst.keyNameAt i = some nm ∧
      (nm ∈ Gen.MAJOR_KEYS ∨ ∃ r ∈ Gen.MINOR_KEYS, nm = r ++ "m") := by
  decide

end C17
