/-
C05 — the note array is a faithful table of the score.

Theorems over Model/NoteArray.lean (helper lemmas in Proofs/C05*.lean).  The part's time,
signature and measure maps are parameters of the model (`Part.maps`): the statements say which
map value, at which time, sits in which column.  Props/C05Compose.lean instantiates the maps with the
C02 / C10 models (and holds the entry-point and float32 statements), Props/C05Collapse.lean is about
`collapse=True`.
-/
import PartituraModel.Proofs.C05Rows
import PartituraModel.Proofs.C05Merge
import PartituraModel.Proofs.C05Inverse
import PartituraModel.Proofs.C05Beats

namespace C05
open NoteArray List

-- ------------------------------------------------------------------ one row per sounding note

/-- The rows are in bijection with the notes that do not continue a tie: the ids of the table are a
    permutation of the ids of `notes_tied`, and there are as many rows as such notes. -/
theorem rows_bijective (p : Part) (o : Opts) (out : List Row) (h : rows p o = some out) :
    out.map (·.id) ~ (notesTied p.notes).map (·.id) ∧ out.length = (notesTied p.notes).length := by
  obtain ⟨dv, rs, _, hout, hf⟩ := rows_structure p o out h
  have hids : (notesTied p.notes).map (·.id) = rs.map (·.id) := by
    apply forall₂_map_eq (·.id) (·.id) _ hf
    intro n r ⟨d, pch, m, _, _, _, hr⟩
    rw [hr]; rfl
  have hperm : out ~ rs := by rw [hout]; exact (isort_perm _ _).trans (isort_perm _ _)
  exact ⟨by rw [hids]; exact hperm.map _, by rw [hperm.length_eq, hf.length_eq]⟩

/-- Every row is the row of a note of `notes_tied`, completely determined by that note, its tied
    duration, its spelled pitch, the part's maps at its onset/offset and the voice rule. -/
theorem row_values (p : Part) (o : Opts) (out : List Row) (h : rows p o = some out) :
    ∀ r ∈ out, ∃ n ∈ notesTied p.notes, ∃ dv d pch m,
      divsOf p o = some dv ∧
      durationTied p.notes n = some d ∧
      Model.spellingToMidi n.step n.alter n.octave = some pch ∧
      maxList ((notesTied p.notes).map rawVoice) = some m ∧
      r = finalRow p.maps dv n d pch m := by
  obtain ⟨dv, rs, hdv, hout, hf⟩ := rows_structure p o out h
  intro r hr
  have hr' : r ∈ rs := by
    rw [hout] at hr
    exact (mem_isort _ _ _).mp ((mem_isort _ _ _).mp hr)
  have : ∀ {l : List Note} {rs : List Row} {R : Note → Row → Prop}, Forall₂ R l rs →
      ∀ r ∈ rs, ∃ n ∈ l, R n r := by
    intro l rs R hf
    induction hf with
    | nil => intro r hr; simp at hr
    | cons hab _ ih =>
      intro r hr
      rcases mem_cons.mp hr with rfl | hr
      · exact ⟨_, mem_cons_self, hab⟩
      · obtain ⟨n, hn, hR⟩ := ih r hr
        exact ⟨n, mem_cons_of_mem _ hn, hR⟩
  obtain ⟨n, hn, d, pch, m, hd, hp, hm, hrow⟩ := this hf r hr'
  exact ⟨n, hn, dv, d, pch, m, hdv, hd, hp, hm, hrow⟩

/-- The columns of the row of note `n`, read off `finalRow`: division columns from the timeline,
    time columns from the part's beat and quarter maps at onset and offset, optional columns from the
    signature / measure maps at the onset, voice and staff with their replacements. -/
theorem row_columns (M : Maps) (dv : Int) (n : Note) (d pch m : Int) :
    let r := finalRow M dv n d pch m
    r.id = n.id ∧ r.onsetDiv = n.onset ∧ r.durDiv = d ∧ r.pitch = pch ∧
    r.onsetBeat = M.beat n.onset ∧ r.durBeat = M.beat (n.onset + d) - M.beat n.onset ∧
    r.onsetQuarter = M.quarter n.onset ∧ r.durQuarter = M.quarter (n.onset + d) - M.quarter n.onset ∧
    r.key = M.okey n.onset ∧
    r.voice = (if rawVoice n = -1 then m + 1 else rawVoice n) ∧
    r.staff = (match n.staff with | some s => s | none => 0) ∧
    r.step = n.step ∧ r.alter = alterOr0 n ∧ r.octave = n.octave ∧
    r.isGrace = decide (n.kind = .grace) ∧
    (r.ksFifths, r.ksMode) = M.ks n.onset ∧
    (r.tsBeats, r.tsBeatType, r.tsMusBeats) = M.ts n.onset ∧
    (r.relOnset, r.totMeasure) = M.metr n.onset ∧
    r.isDownbeat = (if (M.metr n.onset).1 = 0 then 1 else 0) ∧
    r.divsPq = dv := by
  intro r
  refine ⟨rfl, rfl, ?_, rfl, rfl, rfl, rfl, rfl, rfl, rfl, rfl, rfl, rfl, rfl, ?_, rfl, rfl, rfl, rfl, rfl⟩
  · show n.onset + d - n.onset = d
    omega
  · show decide (n.kind = .grace) = decide (n.kind = .grace)
    rfl

/-- a note whose voice is given keeps it; a missing voice becomes (largest voice) + 1, which is
    larger than every given voice of the table -/
theorem missing_voice_above (l : List Note) (m : Int) (h : maxList (l.map rawVoice) = some m) :
    ∀ n ∈ l, rawVoice n < m + 1 := by
  intro n hn
  have := (maxList_spec _ _ h).2 (rawVoice n) (mem_map_of_mem hn)
  omega

-- ------------------------------------------------------------------ tie chains

/-- The tied duration is the sum of the durations along the chain of `tie_next` links that starts
    at the note. -/
theorem duration_is_chain_sum (notes : List Note) (n : Note) (d : Int)
    (h : durationTied notes n = some d) :
    ∃ c, chainFrom notes notes.length n = some (n :: c) ∧ Linked notes (n :: c) ∧ d = durSum (n :: c) := by
  unfold durationTied at h
  simp only [Option.map_eq_some_iff] at h
  obtain ⟨c, hc, hd⟩ := h
  obtain ⟨t, rfl⟩ := chainFrom_head _ _ _ _ hc
  exact ⟨t, hc, chainFrom_linked _ _ _ _ hc, hd.symm⟩

/-- For a chain without gaps the summed duration is the end of the last note minus the start of the
    first. -/
theorem chain_contig (a : Note) (c : List Note) (h : Contiguous (a :: c)) :
    durSum (a :: c) = lastEnd (a :: c) a.onset - a.onset := durSum_contiguous c a h

/-- an untied note: the chain is the note -/
theorem untied_duration (notes : List Note) (n : Note) (h : n.tieNext = none) (hl : notes ≠ []) :
    durationTied notes n = some n.dur := durationTied_untied notes n h hl

-- ------------------------------------------------------------------ order

/-- `sortRows` is a permutation whose result is ordered by (stored onset, pitch) — for every list. -/
theorem rows_sorted (rs : List Row) :
    (sortRows rs).Pairwise (Lex (·.key) (fun a b => a.pitch ≤ b.pitch)) ∧ sortRows rs ~ rs := by
  constructor
  · unfold sortRows
    apply isort_lex (·.key) (fun a b => a.pitch ≤ b.pitch) leOnset
    · intro a b; unfold leOnset; exact decide_eq_true_iff
    · apply isort_sorted (·.pitch) lePitch
      intro a b; unfold lePitch; exact decide_eq_true_iff
  · exact (isort_perm _ _).trans (isort_perm _ _)

/-- the table `rows` returns is ordered by (stored onset, pitch) -/
theorem table_sorted (p : Part) (o : Opts) (out : List Row) (h : rows p o = some out) :
    out.Pairwise (Lex (·.key) (fun a b => a.pitch ≤ b.pitch)) := by
  obtain ⟨_, rs, _, hout, _⟩ := rows_structure p o out h
  rw [hout]; exact (rows_sorted rs).1

/-- When the stored onset is strictly increasing in the division onset on the rows of the table
    (C02: the beat map is strictly monotone; float32 storage does not merge distinct onsets), the
    table is ordered by (onset_div, pitch) as well. -/
theorem beat_order_eq (out : List Row)
    (hmono : ∀ a ∈ out, ∀ b ∈ out, (a.key < b.key ↔ a.onsetDiv < b.onsetDiv) ∧ (a.key = b.key ↔ a.onsetDiv = b.onsetDiv))
    (h : out.Pairwise (Lex (·.key) (fun a b => a.pitch ≤ b.pitch))) :
    out.Pairwise (Lex (·.onsetDiv) (fun a b => a.pitch ≤ b.pitch)) := by
  apply h.imp_of_mem
  intro a b ha hb hab
  rcases hab with hlt | ⟨heq, hp⟩
  · exact Or.inl ((hmono a ha b hb).1.mp hlt)
  · exact Or.inr ⟨(hmono a ha b hb).2.mp heq, hp⟩

-- ------------------------------------------------------------------ several parts

theorem prefixFrom_tableDivs : ∀ (ts : List (List Row)) (i : Nat),
    (prefixFrom i ts).map tableDivs = ts.map tableDivs := by
  intro ts
  induction ts with
  | nil => intro i; rfl
  | cons t ts ih =>
    intro i
    simp only [prefixFrom, map_cons, ih]
    congr 1
    cases t <;> rfl

/-- the tables that are merged: prefixed when asked for and there are at least two -/
def prefixed (unique : Bool) (ts : List (List Row)) : List (List Row) :=
  if unique && decide (1 < ts.length) then prefixFrom 0 ts else ts

theorem prefixed_tableDivs (unique : Bool) (ts : List (List Row)) :
    (prefixed unique ts).map tableDivs = ts.map tableDivs := by
  unfold prefixed; split
  · exact prefixFrom_tableDivs ts 0
  · rfl

theorem mergeTables_eq (unique : Bool) (ts : List (List Row)) :
    mergeTables unique ts =
      if ((ts.map tableDivs).any (· = 0)) then none
      else some (sortRows (((prefixed unique ts).map (scaleTable (Model.natLcm (ts.map tableDivs)))).flatten)) := by
  have : mergeTables unique ts =
      if (((prefixed unique ts).map tableDivs).any (· = 0)) then none
      else some (sortRows (((prefixed unique ts).map
        (scaleTable (Model.natLcm ((prefixed unique ts).map tableDivs)))).flatten)) := rfl
  rw [this, prefixed_tableDivs]

/-- The merged table is a permutation of the (prefixed) part tables rescaled to the common
    divisions `L` = least common multiple of the parts' divisions, and is ordered by (onset, pitch). -/
theorem merge_union (unique : Bool) (ts : List (List Row)) (out : List Row)
    (h : mergeTables unique ts = some out) :
    out ~ ((prefixed unique ts).map (scaleTable (Model.natLcm (ts.map tableDivs)))).flatten ∧
    out.Pairwise (Lex (·.key) (fun a b => a.pitch ≤ b.pitch)) := by
  rw [mergeTables_eq] at h
  split at h
  · cases h
  · simp only [Option.some.injEq] at h
    subst h
    exact ⟨(rows_sorted _).2, (rows_sorted _).1⟩

/-- lcm rescaling preserves musical time: when the merge succeeds, every part's divisions `d_p` are
    positive and divide `L`, `L` is the LEAST common multiple, the multiplier `L / d_p` is therefore
    an exact integer, and a row's onset and duration read on the grid `L` are the same rational
    numbers of quarters as before on the grid `d_p`; a row that carries its part's divisions
    carries `L` afterwards. -/
theorem lcm_rescale (unique : Bool) (ts : List (List Row)) (out : List Row)
    (h : mergeTables unique ts = some out) :
    let L := Model.natLcm (ts.map tableDivs)
    0 < L ∧ (∀ k, (∀ t ∈ ts, tableDivs t ∣ k) → L ∣ k) ∧
    ∀ t ∈ ts, 0 < tableDivs t ∧ tableDivs t ∣ L ∧ (L / tableDivs t) * tableDivs t = L ∧
      ∀ r ∈ t,
        let s := scaleRow ((L / tableDivs t : Nat) : Int) r
        ((s.onsetDiv : Rat) / (L : Rat) = (r.onsetDiv : Rat) / (tableDivs t : Rat)) ∧
        ((s.durDiv : Rat) / (L : Rat) = (r.durDiv : Rat) / (tableDivs t : Rat)) ∧
        (r.divsPq = (tableDivs t : Int) → s.divsPq = (L : Int)) := by
  intro L
  have hpos : ∀ d ∈ ts.map tableDivs, 0 < d := by
    rw [mergeTables_eq] at h
    split at h
    · cases h
    · rename_i hany
      intro d hd
      simp only [any_eq_true, decide_eq_true_eq, not_exists, not_and] at hany
      exact Nat.pos_of_ne_zero (hany d hd)
  have hL : 0 < L := natLcm_pos _ hpos
  refine ⟨hL, ?_, ?_⟩
  · intro k hk
    apply natLcm_dvd
    intro d hd
    obtain ⟨t, ht, rfl⟩ := mem_map.mp hd
    exact hk t ht
  · intro t ht
    have hd : 0 < tableDivs t := hpos _ (mem_map_of_mem ht)
    have hdvd : tableDivs t ∣ L := dvd_natLcm _ _ (mem_map_of_mem ht)
    refine ⟨hd, hdvd, Nat.div_mul_cancel hdvd, ?_⟩
    intro r _
    refine ⟨rescale_exact r.onsetDiv _ _ hd hL hdvd, rescale_exact r.durDiv _ _ hd hL hdvd, ?_⟩
    intro hr
    show r.divsPq * ((L / tableDivs t : Nat) : Int) = (L : Int)
    rw [hr]
    exact_mod_cast (by rw [Nat.mul_comm]; exact Nat.div_mul_cancel hdvd)

/-- id prefixing is injective across parts: equal prefixed ids come from the same part index and the
    same original id. -/
theorem id_prefix (i j : Nat) (a b : String) (h : prefixId i a = prefixId j b) : i = j ∧ a = b :=
  prefixId_injective i j a b h

/-- with `unique_id_per_part` and at least two parts, the k-th part's rows carry the prefix of k -/
theorem prefixed_kth (ts : List (List Row)) (h2 : 1 < ts.length) (k : Nat) :
    (prefixed true ts)[k]? = (ts[k]?).map (prefixTable k) := by
  unfold prefixed
  simp only [Bool.true_and, decide_eq_true_eq, h2, ↓reduceIte]
  rw [prefixFrom_getElem?]
  simp

/-- rows of different parts never share an id after prefixing -/
theorem prefixed_ids_disjoint (i j : Nat) (t t' : List Row) (r r' : Row)
    (hr : r ∈ prefixTable i t) (hr' : r' ∈ prefixTable j t') (hid : r.id = r'.id) : i = j := by
  unfold prefixTable at hr hr'
  obtain ⟨x, _, rfl⟩ := mem_map.mp hr
  obtain ⟨y, _, rfl⟩ := mem_map.mp hr'
  exact (prefixId_injective i j _ _ hid).1

-- ------------------------------------------------------------------ rest arrays

/-- The rest array (no collapsing) has exactly one row per rest of the part. -/
theorem rest_rows_bijective (p : Part) (out : List Row) (h : restRows p false = some out) :
    out.map (·.id) ~ (restsOf p.notes).map (·.id) ∧ out.length = (restsOf p.notes).length := by
  obtain ⟨rs, hout, hf⟩ := restRows_structure p out h
  have hids : (restsOf p.notes).map (·.id) = rs.map (·.id) := by
    apply forall₂_map_eq (·.id) (·.id) _ hf
    intro n r ⟨d, m, _, _, hr⟩
    rw [hr]; rfl
  have hperm : out ~ rs := by rw [hout]; exact (isort_perm _ _).trans (isort_perm _ _)
  exact ⟨by rw [hids]; exact hperm.map _, by rw [hperm.length_eq, hf.length_eq]⟩

/-- Each row of the rest array is the row of a rest: same rules as for notes (onset and duration
    from the timeline, time columns from the maps at onset/offset, signature columns from the maps at
    the onset, voice rule), pitch 0 and the dummy spelling, and the table is ordered by onset. -/
theorem rest_row_values (p : Part) (out : List Row) (h : restRows p false = some out) :
    out.Pairwise (Lex (·.key) (fun a b => a.pitch ≤ b.pitch)) ∧
    ∀ r ∈ out, ∃ n ∈ restsOf p.notes, ∃ d m,
      durationTied p.notes n = some d ∧
      maxList ((restsOf p.notes).map rawVoice) = some m ∧
      r = withVoice (mkRow p.maps 0 n d 0 "0" 0 0) n m ∧
      r.pitch = 0 ∧ r.onsetDiv = n.onset ∧ r.durDiv = d ∧
      r.onsetBeat = p.maps.beat n.onset ∧ r.durBeat = p.maps.beat (n.onset + d) - p.maps.beat n.onset ∧
      (r.tsBeats, r.tsBeatType, r.tsMusBeats) = p.maps.ts n.onset ∧
      (r.ksFifths, r.ksMode) = p.maps.ks n.onset := by
  obtain ⟨rs, hout, hf⟩ := restRows_structure p out h
  refine ⟨by rw [hout]; exact (rows_sorted rs).1, ?_⟩
  intro r hr
  have hr' : r ∈ rs := by
    rw [hout] at hr
    exact (mem_isort _ _ _).mp ((mem_isort _ _ _).mp hr)
  obtain ⟨n, hn, d, m, hd, hm, hrow⟩ := forall₂_mem_right hf r hr'
  refine ⟨n, hn, d, m, hd, hm, hrow, ?_⟩
  subst hrow
  refine ⟨rfl, rfl, ?_, rfl, rfl, rfl, rfl⟩
  show n.onset + d - n.onset = d
  omega

-- ------------------------------------------------------------------ inverse direction

/-- An array with division columns: the notes of the new part are exactly the array's
    (onset_div, duration_div, pitch) triples. -/
theorem from_array_div (hb ht : Bool) (a : List ARow) (dv : Option Nat) (d : Nat)
    (l : List (Int × Int × Int)) (h : fromArray hb true ht a dv = .ok (d, l)) :
    l ~ a.map divTriple ∧ ∀ x ∈ l, 0 ≤ x.1 ∧ 0 ≤ x.2.1 := fromArray_div hb ht a dv d l h

/-- From array to score to array: for an array with division columns that `fromArray` accepts, the
    table of the created part holds the same (onset, duration, pitch) multiset — whatever the maps,
    options, and for any spelling function that keeps the pitch (C17). -/
theorem from_to_array (hb ht : Bool) (a : List ARow) (dv : Option Nat) (d : Nat)
    (l : List (Int × Int × Int)) (M : Maps) (spell : Int → String × Int × Int) (o : Opts) (out : List Row)
    (hspell : ∀ r ∈ a, Model.spellingToMidi (spell r.pitch).1 (some (spell r.pitch).2.1) (spell r.pitch).2.2 = some r.pitch)
    (h : fromArray hb true ht a dv = .ok (d, l))
    (hrows : rows (createPart d l M spell) o = some out) :
    out.map rowTriple ~ a.map divTriple := by
  obtain ⟨hl, _⟩ := fromArray_div hb ht a dv d l h
  refine (rows_createPart d l M spell o out ?_ hrows).trans hl
  intro x hx
  obtain ⟨r, hr, rfl⟩ := mem_map.mp (hl.mem_iff.mp hx)
  exact hspell r hr

/-- the divisions of the new part are the `divs` argument when one is given -/
theorem from_array_divs_given (hb ht : Bool) (a : List ARow) (dv d : Nat)
    (l : List (Int × Int × Int)) (h : fromArray hb true ht a (some dv) = .ok (d, l)) : d = dv :=
  fromArray_div_divs hb ht a dv d l h

/-- An array with beat columns only (beats are quarters): the new part's divisions `d` are positive,
    and on that grid every note sits exactly at its (denominator-limited) beat plus one common
    non-negative shift (0 unless the first onset is negative), lasts exactly its beat duration and
    keeps its pitch: `onset_div / d = beat + shift / d`, `duration_div / d = duration_beat`. -/
theorem from_array_beat (ht : Bool) (a : List ARow) (d : Nat) (l : List (Int × Int × Int))
    (h : fromArray true false ht a none = .ok (d, l)) :
    ∃ sh : Int, 0 ≤ sh ∧
      Forall₂ (fun (r : ARow) (x : Int × Int × Int) =>
        (x.1 : Rat) = (d : Rat) * limitDen r.onsetBeat 256 + (sh : Rat) ∧
        (x.2.1 : Rat) = (d : Rat) * limitDen r.durBeat 256 ∧ x.2.2 = r.pitch) (sortArr false a) l :=
  fromArray_beat ht a d l h

/-- ... and the table of the part created from it holds exactly those notes -/
theorem from_to_array_beat (ht : Bool) (a : List ARow) (d : Nat) (l : List (Int × Int × Int))
    (M : Maps) (spell : Int → String × Int × Int) (o : Opts) (out : List Row)
    (hspell : ∀ r ∈ a, Model.spellingToMidi (spell r.pitch).1 (some (spell r.pitch).2.1) (spell r.pitch).2.2 = some r.pitch)
    (h : fromArray true false ht a none = .ok (d, l))
    (hrows : rows (createPart d l M spell) o = some out) :
    out.map rowTriple ~ l := by
  obtain ⟨sh, _, hf⟩ := fromArray_beat ht a d l h
  apply rows_createPart d l M spell o out _ hrows
  intro x hx
  obtain ⟨r, hr, hR⟩ := forall₂_mem_right hf x hx
  rw [hR.2.2]
  exact hspell r ((sortArr_perm false a).mem_iff.mp hr)

-- ------------------------------------------------------------------ non-vacuity

section Examples

def exMaps : Maps :=
  { beat := fun t => (t : Rat) / 2, quarter := fun t => (t : Rat) / 2, okey := fun t => (t : Rat) / 2,
    ks := fun _ => (0, 1), ts := fun _ => (4, 4, 4), metr := fun t => (t % 8, 8) }

/-- a tied pair (a → b), a grace note without voice and staff, a rest -/
def exNotes : List Note :=
  [ { id := "a", kind := .note, onset := 0, dur := 2, step := "C", alter := none, octave := 4, voice := some 1,
      staff := some 1, graceType := "", tieNext := some 1, tiePrev := none },
    { id := "b", kind := .note, onset := 2, dur := 4, step := "C", alter := none, octave := 4, voice := some 1,
      staff := some 1, graceType := "", tieNext := none, tiePrev := some 0 },
    { id := "g", kind := .grace, onset := 0, dur := 0, step := "E", alter := some (-1), octave := 3, voice := none,
      staff := none, graceType := "grace", tieNext := none, tiePrev := none },
    { id := "r", kind := .rest, onset := 6, dur := 2, step := "", alter := none, octave := 0, voice := none,
      staff := none, graceType := "", tieNext := none, tiePrev := none } ]

def exPart : Part := { notes := exNotes, qdurs := [2], maps := exMaps }
def exOpts : Opts := { spelling := true, ks := true, ts := true, metr := true, grace := true, staff := true, divs := true }

/-- `rows` succeeds on a part with a tie chain, a grace note and a missing voice: the hypotheses of
    rows_bijective / row_values / table_sorted are satisfiable; the chain is one row of duration 6,
    the grace note has duration 0 and voice (max voice) + 1 = 2 -/
example : ((rows exPart exOpts).map fun t => t.map fun r => (r.id, r.onsetDiv, r.durDiv, r.pitch, r.voice)) =
    some [("g", 0, 0, 51, 2), ("a", 0, 6, 60, 1)] := by decide +kernel
example : ((rows exPart exOpts).map fun t => t.map fun r => (r.id, r.staff, r.isGrace, r.durBeat)) =
    some [("g", 0, true, 0), ("a", 1, false, 3)] := by decide +kernel

/-- several quarter durations are rejected when the divisions column is requested -/
example : rows { exPart with qdurs := [2, 3] } exOpts = none := by decide +kernel

example : durationTied exNotes exNotes[0] = some 6 := by decide +kernel
example : Contiguous [exNotes[0], exNotes[1]] := ⟨by decide +kernel, trivial⟩

/-- a dangling or cyclic tie is an error, not a silent 0 -/
example : durationTied [{ exNotes[0] with tieNext := some 0 }] { exNotes[0] with tieNext := some 0 } = none := by
  decide +kernel

example : ((restRows exPart false).map fun t => t.map fun r => (r.id, r.onsetDiv, r.durDiv, r.pitch, r.voice)) =
    some [("r", 6, 2, 0, 0)] := by decide +kernel

example : prefixId 3 "n1" = "P03_n1" ∧ prefixId 12 "x" = "P12_x" ∧ prefixId 100 "" = "P100_" := by decide +kernel

/-- two parts with divisions 2 and 3 and an empty part between them: common divisions 6 -/
def exRow (id : String) (on dur pitch divs : Int) : Row :=
  { key := (on : Rat) / (divs : Rat), onsetBeat := (on : Rat) / (divs : Rat), durBeat := (dur : Rat) / (divs : Rat),
    onsetQuarter := (on : Rat) / (divs : Rat), durQuarter := (dur : Rat) / (divs : Rat), onsetDiv := on,
    durDiv := dur, pitch := pitch, voice := 1, id := id, step := "C", alter := 0, octave := 4, isGrace := false,
    graceType := "", ksFifths := 0, ksMode := 1, tsBeats := 4, tsBeatType := 4, tsMusBeats := 4, isDownbeat := 0,
    relOnset := 0, totMeasure := 0, staff := 1, divsPq := divs }

example : ((mergeTables true [[exRow "x" 2 2 60 2], [], [exRow "y" 3 3 62 3, exRow "z" 0 3 64 3]]).map fun t =>
      t.map fun r => (r.id, r.onsetDiv, r.durDiv, r.divsPq)) =
    some [("P02_z", 0, 6, 6), ("P00_x", 6, 6, 6), ("P02_y", 6, 6, 6)] := by decide +kernel

/-- a table claiming 0 divisions makes the merge fail (the hypothesis of lcm_rescale excludes it) -/
example : mergeTables false [[exRow "x" 0 1 60 0]] = none := by decide +kernel

def exArr : List ARow :=
  [ { onsetBeat := 0, durBeat := 1/3, onsetDiv := 0, durDiv := 1, pitch := 60, tsBeatType := 4 },
    { onsetBeat := 1/3, durBeat := 2/3, onsetDiv := 1, durDiv := 2, pitch := 62, tsBeatType := 4 },
    { onsetBeat := 1/3, durBeat := 0, onsetDiv := 1, durDiv := 0, pitch := 61, tsBeatType := 4 } ]

/-- both kinds of columns, no `divs`: divisions 3 from the first note; the notes come back -/
example : fromArray true true false exArr none = .ok (3, [(0, 1, 60), (1, 0, 61), (1, 2, 62)]) := by decide +kernel

/-- beat columns only: divisions 3 = lcm of the denominators of onsets and durations -/
example : fromArray true false false exArr none = .ok (3, [(0, 1, 60), (1, 0, 61), (1, 2, 62)]) := by decide +kernel

/-- onsets on a finer grid than every duration count for the divisions (the repaired behaviour) -/
example : (divsFromBeats [(0, 1), (1/4, 1), (3/2, 1)]) = (4, [(0, 4), (1, 4), (6, 4)]) := by decide +kernel

/-- a negative first onset is moved to 0 -/
example : (divsFromBeats [(-1/2, 1), (0, 1)]) = (2, [(0, 2), (1, 2)]) := by decide +kernel

example : fromArray false true false exArr none = .error .divs ∧ fromArray false false false exArr none = .error .fields ∧
    fromArray true true false [] none = .error .empty ∧
    fromArray false true false
      [{ onsetBeat := 0, durBeat := 0, onsetDiv := 0, durDiv := -1, pitch := 60, tsBeatType := 4 }] (some 3)
      = .error .negative := by
  refine ⟨by decide +kernel, by decide +kernel, by decide +kernel, by decide +kernel⟩

/-- a spelling function that keeps the pitch (what C17 proves of `estimate_spelling`) -/
def exSpell (p : Int) : String × Int × Int :=
  match Model.midiToSpelling p with
  | some s => s
  | none => ("C", 0, 0)

/-- the hypotheses of from_to_array hold for a concrete array, spelling and part -/
example : (∀ r ∈ exArr, Model.spellingToMidi (exSpell r.pitch).1 (some (exSpell r.pitch).2.1) (exSpell r.pitch).2.2 = some r.pitch) ∧
    ((rows (createPart 3 [(0, 1, 60), (1, 0, 61), (1, 2, 62)] exMaps exSpell) exOpts).map fun t => t.map rowTriple) =
      some [(0, 1, 60), (1, 0, 61), (1, 2, 62)] := by decide +kernel

/-- `sortRows` on rows with equal onsets and pitches, and the monotonicity hypothesis of beat_order_eq -/
example : (sortRows [exRow "c" 2 1 60 2, exRow "b" 0 1 64 2, exRow "a" 0 1 60 2, exRow "d" 0 2 60 2]).map (·.id) =
    ["a", "d", "b", "c"] := by decide +kernel

end Examples

end C05
