/-
C18 — round 3: one score object used, edited in place and used again; score sequences that end
in notes without duration.

* `history_frame`            a use of the codec (`to_matched_score`, `encode_performance`, time maps) never
                             changes the score: after any history the note table is the initial one with the
                             edits applied, whatever was read in between
* `history_fresh`            the result of a use after any history is the result of the same call on a FRESH
                             score holding the table as it is now — nothing of the earlier uses enters
* `history_uses_irrelevant`  two histories with the same edits answer a final use alike (earlier uses with
                             other performances, alignments, normalisations … included)
* `edits_keep_ids_unique`    moving, re-pitching and removing notes keep the ids unique (the hypothesis of the
                             round trip survives the edits); `edit_other_rows` the rows of other notes stay as they are
* `history_roundtrip`        THE ROUND TRIP after any history: encode the performance against the edited score
                             object and decode against it — `performance_roundtrip` for the table as it is now
* `last_time_after_onsets`   `last_time` of `get_unique_seq` lies after every onset;
  `last_time_grace_end`      it is exactly one beat after the last onset when that onset carries only notes
                             without duration and nothing sounds past it (the matched-note table ends in grace
                             notes whose main note is a deletion, or the score ends in grace notes) — so both
                             tempo curves are positive there (`tempo_average_pos`, `tempo_derivative_pos`);
  `last_time_rounded_offset` the float32 witness of repair C18-11
-/
import PartituraModel.Props.C18Pipeline
import PartituraModel.Model.CodecHist

namespace C18
open Model Model.Codec C18P

-- ------------------------------------------------------------------ histories

/-- the results of the uses of a history on a score whose table is `ss`, each computed from the table
    as the edits BEFORE it leave it (a fresh score of that value) -/
def freshObs (ss : List SRow) : List HOp → List Obs
  | [] => []
  | .edit e :: h => freshObs (applyEdit ss e) h
  | .query q :: h => observe ss q :: freshObs ss h

theorem foldl_hstep (st : HSt) (h : List HOp) :
    h.foldl hstep st = (applyEdits st.1 (editsOf h), st.2 ++ freshObs st.1 h) := by
  induction h generalizing st with
  | nil => simp [editsOf, applyEdits, freshObs]
  | cons op h ih =>
    cases op with
    | edit e =>
      simp only [List.foldl_cons, hstep, ih, editsOf, applyEdits, freshObs]
    | query q =>
      simp only [List.foldl_cons, hstep, ih, editsOf, freshObs, List.append_assoc, List.singleton_append]

/-- uses of the codec never change the score -/
theorem history_frame (ss : List SRow) (h : List HOp) : (hrun ss h).1 = applyEdits ss (editsOf h) := by
  unfold hrun; rw [foldl_hstep]

theorem history_results (ss : List SRow) (h : List HOp) : (hrun ss h).2 = freshObs ss h := by
  unfold hrun; rw [foldl_hstep]; simp

theorem editsOf_append (h₁ h₂ : List HOp) : editsOf (h₁ ++ h₂) = editsOf h₁ ++ editsOf h₂ := by
  induction h₁ with
  | nil => rfl
  | cons op h ih => cases op <;> simp [editsOf, ih]

theorem freshObs_append (ss : List SRow) (h₁ h₂ : List HOp) :
    freshObs ss (h₁ ++ h₂) = freshObs ss h₁ ++ freshObs (applyEdits ss (editsOf h₁)) h₂ := by
  induction h₁ generalizing ss with
  | nil => simp [freshObs, editsOf, applyEdits]
  | cons op h ih =>
    cases op with
    | edit e => simp only [List.cons_append, freshObs, ih, editsOf, applyEdits, List.foldl_cons]
    | query q => simp only [List.cons_append, freshObs, ih, editsOf, List.cons_append]

/-- a use of the codec after ANY history (edits and earlier uses in any order) returns what the same
    call returns on a fresh score holding the note table as it is now -/
theorem history_fresh (ss : List SRow) (h : List HOp) (q : Query) :
    (hrun ss (h ++ [.query q])).2 = (hrun ss h).2 ++ [observe (applyEdits ss (editsOf h)) q] := by
  rw [history_results, history_results, freshObs_append]
  simp [freshObs]

/-- … in particular two histories with the same edits answer it alike, whatever was read before -/
theorem history_uses_irrelevant (ss : List SRow) (h h' : List HOp) (q : Query) (he : editsOf h = editsOf h') :
    ((hrun ss (h ++ [.query q])).2).getLast? = ((hrun ss (h' ++ [.query q])).2).getLast? := by
  rw [history_fresh, history_fresh, he]
  simp

/-- encode · edit (move `n2` half a beat later) · encode: the second result is the one of the edited table -/
def demoHist : List HOp :=
  [.query (.enc .average .bp 0 demoPerf demoAl), .edit (.move "n2" 6 (3/2) (1/2)), .edit (.pitch "n0" 61),
   .query (.ms demoPerf demoAl)]

example : (hrun demoScore demoHist).1 = [⟨"n0", 0, 61, 0, 1⟩, ⟨"n1", 0, 55, 0, 2⟩, ⟨"n2", 6, 62, 3/2, 1/2⟩] := by
  decide +kernel
example : ((hrun demoScore demoHist).2).getLast? =
    some (.ms (some ([⟨0, 0, 1, 61, 1, 3/40, 70⟩, ⟨2, 3/2, 1/2, 62, 17/16, 1, 60⟩], ["n0", "n2"]))) := by
  decide +kernel

-- ------------------------------------------------------------------ what an edit does to the table

theorem applyEdit_ids_move (ss : List SRow) (id : String) (od : Int) (so sd : Rat) :
    (applyEdit ss (.move id od so sd)).map (·.id) = ss.map (·.id) := by
  simp only [applyEdit, List.map_map]
  apply List.map_congr_left
  intro r _
  simp only [Function.comp]
  split <;> rfl

theorem applyEdit_ids_pitch (ss : List SRow) (id : String) (p : Int) :
    (applyEdit ss (.pitch id p)).map (·.id) = ss.map (·.id) := by
  simp only [applyEdit, List.map_map]
  apply List.map_congr_left
  intro r _
  simp only [Function.comp]
  split <;> rfl

/-- the ids stay unique under every edit that adds no id twice -/
theorem edits_keep_ids_unique (ss : List SRow) (e : SEdit) (hnd : (ss.map (·.id)).Nodup)
    (hadd : ∀ r, e = .add r → r.id ∉ ss.map (·.id)) : ((applyEdit ss e).map (·.id)).Nodup := by
  cases e with
  | move id od so sd => rw [applyEdit_ids_move]; exact hnd
  | pitch id p => rw [applyEdit_ids_pitch]; exact hnd
  | del id =>
    simp only [applyEdit]
    exact (List.filter_sublist.map _).nodup hnd
  | add r =>
    simp only [applyEdit, List.map_append, List.map_cons, List.map_nil]
    refine List.Nodup.append hnd (List.nodup_singleton _) ?_
    intro a ha hb
    rw [List.mem_singleton] at hb
    exact hadd r rfl (hb ▸ ha)

/-- an edit of note `id` leaves the rows of all other notes as they are -/
theorem edit_other_rows (ss : List SRow) (e : SEdit) (r : SRow) (hr : r ∈ ss)
    (hid : match e with
      | .move id _ _ _ => r.id ≠ id
      | .pitch id _ => r.id ≠ id
      | .del id => r.id ≠ id
      | .add _ => True) : r ∈ applyEdit ss e := by
  cases e with
  | move id od so sd =>
    simp only [applyEdit, List.mem_map]
    exact ⟨r, hr, by rw [if_neg hid]⟩
  | pitch id p =>
    simp only [applyEdit, List.mem_map]
    exact ⟨r, hr, by rw [if_neg hid]⟩
  | del id =>
    simp only [applyEdit, List.mem_filter]
    exact ⟨hr, by simpa using hid⟩
  | add r' =>
    simp only [applyEdit, List.mem_append]
    exact Or.inl hr

/-- … and the moved note is where the edit put it -/
theorem edit_move_row (ss : List SRow) (id : String) (od : Int) (so sd : Rat) (r : SRow) (hr : r ∈ ss) (hid : r.id = id) :
    { r with odiv := od, so := so, sd := sd } ∈ applyEdit ss (.move id od so sd) := by
  simp only [applyEdit, List.mem_map]
  exact ⟨r, hr, by rw [if_pos hid]⟩

-- ------------------------------------------------------------------ the round trip after a history

/-- THE ROUND TRIP on one score object with a past.  `ss0` is the note table of the score object when it
    was first used, `h` ANY history of in-place edits and uses of the codec (with any performances,
    alignments, normalisations, tempo curves).  If the table as it is NOW satisfies the hypotheses of
    `performance_roundtrip` (something is matched, ids unique, no negative duration, MIDI velocities),
    then `encode_performance` on the object returns parameters and `snote_ids` (the last result of the
    history), the score is still the edited table, and `decode_performance` against it returns, for
    every match of the alignment, the score id, the performed onset minus one common shift, the velocity
    and (positive score duration, at least 0.075 s) the performed duration. -/
theorem history_roundtrip (L E : Rat → Rat) (hLE : ∀ r, 0 < r → E (L r) = r)
    (m : Method) (hm : m = .average ∨ m = .derivative) (n : Norm) (sd : Rat)
    (ss0 : List SRow) (h : List HOp) (ps : List PRow) (al : List ARow) (rows : List MRow)
    (hrows : toMatchedScore (applyEdits ss0 (editsOf h)) ps al = some rows)
    (hne : matchedNotes (applyEdits ss0 (editsOf h)) ps al ≠ [])
    (hnd : ((applyEdits ss0 (editsOf h)).map (·.id)).Nodup) (hsd : ∀ s ∈ applyEdits ss0 (editsOf h), 0 ≤ s.sd)
    (hvel : ∀ p ∈ ps, 1 ≤ p.vel ∧ p.vel ≤ 127)
    (hstd : ∀ bp, tempoOf m (rows.map toMNote) = some bp → StdOk n sd bp) :
    ∃ params ids pairs shift out,
      ((hrun ss0 (h ++ [.query (.enc m n sd ps al)])).2).getLast? = some (.enc (some (params, ids))) ∧
      (hrun ss0 (h ++ [.query (.enc m n sd ps al)])).1 = applyEdits ss0 (editsOf h) ∧
      decodePerformance n (applyEdits ss0 (editsOf h)) ids (params.map (viaLog (fun r => E (L r)) n)) = some out ∧
      pairs.Perm (matchedNotes (applyEdits ss0 (editsOf h)) ps al) ∧
      List.Forall₂ (fun (ij : Nat × Nat) (o : String × Rat × Rat × Int) =>
        ∃ s p, (applyEdits ss0 (editsOf h))[ij.1]? = some s ∧ ps[ij.2]? = some p ∧
          o.1 = s.id ∧ o.2.1 = p.po - shift ∧ o.2.2.2 = p.vel ∧
          (0 < s.sd → 3 / 40 ≤ p.pd → o.2.2.1 = p.pd)) pairs out := by
  obtain ⟨params, ids, pairs, shift, out, henc, hdec, hperm, _, hall⟩ :=
    performance_roundtrip L E hLE m hm n sd _ ps al rows hrows hne hnd hsd hvel hstd
  refine ⟨params, ids, pairs, shift, out, ?_, ?_, hdec, hperm, hall⟩
  · rw [history_fresh]
    simp [observe, henc]
  · rw [history_frame, editsOf_append]
    simp [editsOf, applyEdits]

/-- the hypotheses hold for `demoScore` after `demoHist` -/
example : toMatchedScore (applyEdits demoScore (editsOf demoHist)) demoPerf demoAl
      = some [⟨0, 0, 1, 61, 1, 3/40, 70⟩, ⟨2, 3/2, 1/2, 62, 17/16, 1, 60⟩]
    ∧ matchedNotes (applyEdits demoScore (editsOf demoHist)) demoPerf demoAl ≠ []
    ∧ ((applyEdits demoScore (editsOf demoHist)).map (·.id)).Nodup
    ∧ (∀ s ∈ applyEdits demoScore (editsOf demoHist), 0 ≤ s.sd) := by decide +kernel

-- ------------------------------------------------------------------ sequences ending in notes without duration

/-- `last_time` of `get_unique_seq` lies strictly after every onset (no offset before its onset) -/
theorem last_time_after_onsets {α : Type} (l : List α) (f g : α → Rat) (hfg : ∀ x ∈ l, f x ≤ g x) (t : Rat)
    (h : lastTime (l.map f) (l.map g) = some t) : ∀ x ∈ l, f x < t :=
  lastTime_gt l f g hfg t h

theorem maxL_eq_of_mem_of_le (a : Rat) (l : List Rat) (v : Rat) (hv : v ∈ a :: l) (hle : ∀ y ∈ a :: l, y ≤ v) :
    maxL a l = v := by
  apply le_antisymm
  · exact hle _ (maxL_mem a l)
  · rcases List.mem_cons.mp hv with rfl | hv
    · exact le_maxL _ _
    · exact mem_le_maxL _ _ _ hv

/-- when the last onset carries a note without duration and no note sounds past that onset — the
    matched-note table ends in a grace note whose main note is a deletion, or the score ends in grace
    notes — the score sequence ends exactly ONE BEAT after the last onset (seeded change C18-f made it
    end AT the last onset: a score interval of length 0 and a beat period 0/0) -/
theorem last_time_grace_end {α : Type} (l : List α) (f g : α → Rat) (x : α) (hx : x ∈ l)
    (hlast : ∀ y ∈ l, f y ≤ f x) (hgrace : g x = f x) (hpast : ∀ y ∈ l, g y ≤ f x) :
    lastTime (l.map f) (l.map g) = some (f x + 1) := by
  cases l with
  | nil => simp at hx
  | cons a as =>
    have hmo : maxL (f a) (as.map f) = f x := by
      apply maxL_eq_of_mem_of_le
      · rw [← List.map_cons]; exact List.mem_map.mpr ⟨x, hx, rfl⟩
      · intro y hy
        rw [← List.map_cons] at hy
        obtain ⟨z, hz, rfl⟩ := List.mem_map.mp hy
        exact hlast z hz
    have hmf : maxL (g a) (as.map g) = f x := by
      apply maxL_eq_of_mem_of_le
      · rw [← List.map_cons]; exact List.mem_map.mpr ⟨x, hx, hgrace⟩
      · intro y hy
        rw [← List.map_cons] at hy
        obtain ⟨z, hz, rfl⟩ := List.mem_map.mp hy
        exact hpast z hz
    simp only [List.map_cons, lastTime, hmo, hmf]
    have hc : isClose (f x) (f x) = true := by
      have habs : 0 ≤ absR (f x) := by unfold absR; split <;> linarith
      simp only [isClose, sub_self, decide_eq_true_eq]
      have h0 : absR 0 = 0 := by simp [absR]
      rw [h0]
      positivity
    rw [hc]
    rfl

/-- a matched-note table that ends in a grace note alone (its main note is a deletion): three onsets,
    the last one without duration; nothing sounds past beat 2 -/
def demoGraceEnd : List MNote := [⟨0, 1, 1, 1/2⟩, ⟨1, 1, 3/2, 1/4⟩, ⟨1, 1/2, 25/16, 1/4⟩, ⟨2, 0, 9/4, 1/8⟩]

example : lastTime (demoGraceEnd.map (·.so)) (demoGraceEnd.map fun n => n.so + n.sd) = some 3 := by decide +kernel
example : tempoAverage demoGraceEnd (encGroups demoGraceEnd) = some [17/32, 23/32, 1/8]
    ∧ tempoDerivative demoGraceEnd (encGroups demoGraceEnd) = some [17/32, 5/8, 27/64] := by decide +kernel
/-- … and every normalisation × both tempo curves decode it to the performance (shift 1; the grace note
    comes back without duration, F-C18-2) -/
example : ∀ n ∈ [Norm.bp, .log, .ratio, .ratioLog], ∀ m ∈ [0, 1],
    ((encode (if m = 0 then .average else .derivative) n 0 demoGraceEnd).bind fun ps =>
      decodeTime n (List.zipWith toDRow demoGraceEnd ps))
      = some [(0, 1/2), (1/2, 1/4), (9/16, 1/4), (5/4, 0)] := by decide +kernel

/-- the witness of repair C18-11: float32(41/3) + float32(4/3) exceeds the last onset 15 by 3/8388608;
    the sequence still ends one beat after the last onset -/
theorem last_time_rounded_offset :
    lastTime [14330539/1048576, 15] [14330539/1048576 + 11184811/8388608, 15] = some 16 := by decide +kernel

/-- a note that does sound past the last onset ends the sequence -/
example : lastTime [0, 1, 2] [1, 2, 5/2] = some (5/2) := by decide +kernel

end C18
