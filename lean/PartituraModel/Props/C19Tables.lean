/-
C19 — the literal data the models copy from the source is the data of the LIVE source.

`Gen/C19Tables.lean` is regenerated from partitura's source on every run (`harness/translate_c19.py`: the kern tables of
reader and writer, the MEI writer's tables, and the dispatch chains / defaults of `importmei.MeiParser` read off the
source text).  The theorems say that the hand-written tables of the models are those lists — so an edit of the source
(a dropped branch, a changed default, another attribute name) stops this file from building — and state what the models
do with them.
-/
import PartituraModel.Model.Kern
import PartituraModel.Model.KernWrite
import PartituraModel.Model.MeiWrite
import PartituraModel.Model.MeiAccept
import PartituraModel.Proofs.C19Sections
import PartituraModel.Gen.C19Tables

namespace C19
open Model Model.Mei C19S

/-- the same entries, in any order (the order of independent dict entries / elif branches carries no meaning) -/
def sameSet {α : Type} [DecidableEq α] (a b : List α) : Bool := a.all (fun x => decide (x ∈ b)) && b.all (fun x => decide (x ∈ a))

/-! ## tables -/

/-- the kern reader's tables are those of `importkern` -/
theorem kern_reader_tables_from_source :
    sameSet Kern.kernNotes Gen.C19.kernNotes = true ∧ Gen.C19.kernNotesAllSingle = true ∧
    sameSet Kern.kernDurs Gen.C19.kernDurs = true ∧
    Gen.C19.kernNotes.length = Kern.kernNotes.length ∧ Gen.C19.kernDurs.length = Kern.kernDurs.length := by
  decide +kernel

/-- the kern writer's tables are those of `exportkern` -/
theorem kern_writer_tables_from_source :
    sameSet KernWrite.kernDursW Gen.C19.kernDursW = true ∧ sameSet KernWrite.accToSign Gen.C19.accToSign = true ∧
    sameSet KernWrite.stepLetters Gen.C19.stepLetters = true ∧ KernWrite.keyLetters = Gen.C19.keyLetters ∧
    Gen.C19.kernDursW.length = KernWrite.kernDursW.length ∧ Gen.C19.accToSign.length = KernWrite.accToSign.length := by
  decide +kernel

/-- the writer's tables are the inverse of the reader's (whole tables): every symbolic type is written as the reciprocal
    the reader maps back to it, every step letter is read back as its step in octave 3 / 4 -/
theorem kern_tables_inverse :
    sameSet (Gen.C19.kernDursW.map fun e => (String.ofList e.2, e.1)) Gen.C19.kernDurs = true ∧
    sameSet (Gen.C19.stepLetters.map (fun e => (e.2.1, e.1, (3 : Int))) ++ Gen.C19.stepLetters.map (fun e => (e.2.2, e.1, (4 : Int))))
      Gen.C19.kernNotes = true := by
  decide +kernel

/-- the MEI writer's tables are those of `exportmei` -/
theorem mei_writer_tables_from_source :
    sameSet MeiWrite.alterToMei Gen.C19.alterToMei = true ∧ Gen.C19.alterToMei.length = MeiWrite.alterToMei.length ∧
    (∀ e ∈ Gen.C19.meiDursExtra, MeiWrite.meiDurOf e.1 = some e.2) ∧ sameSet (Gen.C19.meiDursExtra.map (·.1)) ["h", "e", "q"] = true := by
  decide +kernel

/-! ## the dispatch of the MEI reader -/

/-- the element names the reader's if / elif chains know (in any order of the branches), the elements whose children are
    read the same way, the children of `<score>` it looks at, the largest `multiRest/@num`, and the attribute read for staff
    crossings (the same in all five handlers) are what `Model/MeiAccept.lean` / `Model/Mei.lean` say -/
theorem mei_dispatch_from_source :
    Gen.C19.extractionOk = true ∧
    sameSet layerTags Gen.C19.meiLayerTags = true ∧ sameSet layerParents Gen.C19.meiLayerParents = true ∧
    sameSet sectionTags Gen.C19.meiSectionTags = true ∧ sameSet sectionParents Gen.C19.meiSectionParents = true ∧
    sameSet Gen.C19.meiScoreTags ["section", "scoreDef", "ending"] = true ∧
    Gen.C19.meiMultiRestMax = 1 ∧ Gen.C19.meiStaffAttr = "staff" ∧
    sameSet Gen.C19.meiGraceTypes [("unacc", "acciaccatura"), ("acc", "appoggiatura")] = true ∧ Gen.C19.meiGraceDefault = "grace" ∧
    sameSet (Gen.C19.meiBarlines.map (·.1)) ["rptstart", "rptend", "dbl", "end", "dashed"] = true := by
  decide +kernel

/-- the defaults of the semantics are the defaults of the reader: G clef on line 2 of staff 1, no accidentals / major -/
theorem mei_defaults_from_source (d : PartDef) (st : St) (hc : d.clef = none) (hk : d.key = none)
    (h1 : st.sdKey = none) (h2 : st.sdKeyChild = none) :
    resolveClef d = Gen.C19.meiDefaultClef ∧ resolveKey st d = Gen.C19.meiDefaultKey := by
  simp [resolveClef, resolveKey, hc, hk, h1, h2, Gen.C19.meiDefaultClef, Gen.C19.meiDefaultKey]

/-- every item the reader accepts in a layer has a branch of its own in the state machine … -/
theorem mei_layer_tags_known : ∀ t ∈ layerTags, t ∈
    ["section", "scoreDef", "meterSig", "keySig", "clef", "measure", "staff", "layer", "tie", "chord", "note", "accid", "rest",
     "mRest", "multiRest", "space", "tuplet", "beam"] := by
  decide +kernel

/-! ## what the state machine does not know denotes nothing -/

/-- the element names `openEv` / `closeEv` have a branch for -/
def knownTags : List String :=
  ["section", "scoreDef", "meterSig", "keySig", "clef", "measure", "staff", "layer", "tie", "chord", "note", "accid", "rest",
   "mRest", "multiRest", "space", "tuplet", "staffDef"]

/-- `mei_unknown_leaf_transparent`: an empty element of any other name (`<fermata/>`, `<dynam/>`, `<dir/>`, `<hairpin/>`,
    `<artic/>`, `<sb/>`, `<beam/>` …) whose attributes carry no `@dur` and no `@meter.unit` changes nothing, wherever it
    stands: the run goes on from the same state. -/
theorem mei_unknown_leaf_transparent (st : St) (tag : String) (as : List (String × String)) (evs : List Ev)
    (ht : tag ∉ knownTags) (hp : PlainAttrs as) :
    runEvs st (.op tag as :: .cl :: evs) = runEvs st evs := by
  simp only [knownTags, List.mem_cons, List.not_mem_nil, or_false, not_or] at ht
  obtain ⟨h0, h1, h2, h3, h4, h5, h6, h7, h8, h9, h10, h11, h12, h13, h14, h15, h16, h17⟩ := ht
  obtain ⟨hd, hu⟩ := hp
  have hopen : openCore (ctxOf st.stack) (core st) tag as = some (core st, .keep) := by
    by_cases hl : (ctxOf st.stack).lay = true
    · simp [openCore, coreBody, recordDurElT, recordUnits, hd, hu, h0, h1, h2, h3, h4, h5, h6, h7, h8, h9, h10, h11, h12, h13,
        h14, h15, h16, hl]
    · simp [openCore, coreBody, recordDurElT, recordUnits, hd, hu, h0, h1, h2, h3, h4, h5, h6, h7, h8, hl]
  simp only [runEvs]
  rw [stepEv_op, hopen]
  simp only [Option.map_some, applyTop_keep]
  rw [stepEv_cl]
  have hclose : closeCore (newFrame tag as) (ptagOf st.stack) (core (withStack (core st) (newFrame tag as :: st.stack)))
      = some (core st) := by
    simp [closeCore, newFrame, h1, h17, h7, h6, h5, h9]
    rfl
  show (match ((closeCore (newFrame tag as) (ptagOf st.stack) (core (withStack (core st) (newFrame tag as :: st.stack)))).map
      fun x => withStack x st.stack) with
    | some st' => runEvs st' evs
    | none => none) = _
  rw [hclose]
  simp only [Option.map_some]
  rw [withStack_core]

example : "fermata" ∉ knownTags ∧ "dynam" ∉ knownTags ∧ "beam" ∉ knownTags ∧ "artic" ∉ knownTags ∧
    PlainAttrs [("xml:id", "f1"), ("startid", "#n3"), ("form", "norm")] := by decide +kernel

/-! ## acceptance -/

/-- what is loaded is what the document denotes: `load` only refuses -/
theorem mei_load_sound (evs : List Ev) (ps : List Part) (h : load evs = some ps) : denote evs = some ps := by
  unfold load at h
  split at h
  · exact h
  · cases h

/-- acceptance is decided element by element: a document is accepted iff every element may stand under its parent -/
theorem mei_accepts_append (a b : List Ev) (st : List String) :
    accepts st (a ++ b) = true → accepts st a = true := by
  induction a generalizing st with
  | nil => intro _; rfl
  | cons e es ih =>
    cases e with
    | op tag as =>
      simp only [List.cons_append, accepts, Bool.and_eq_true]
      exact fun ⟨h1, h2⟩ => ⟨h1, ih _ h2⟩
    | cl =>
      simp only [List.cons_append, accepts]
      exact ih _

/-- the nine layer items are accepted under a layer, a beam and a tuplet (given their id), `mSpace`, `bTrem`, `graceGrp`
    are not; the seven section items under a section and an ending, a `staffDef` or `annot` there is not -/
example : (layerTags.all fun t => layerParents.all fun p => acceptChild (some p) t [("xml:id", "x")]) = true ∧
    (["mSpace", "bTrem", "graceGrp", "app"].all fun t => layerParents.all fun p => !(acceptChild (some p) t [("xml:id", "x")])) = true ∧
    (sectionTags.all fun t => sectionParents.all fun p => acceptChild (some p) t []) = true ∧
    (["staffDef", "annot", "div"].all fun t => sectionParents.all fun p => !(acceptChild (some p) t [])) = true ∧
    acceptChild (some "layer") "note" [] = false ∧ acceptChild (some "measure") "fermata" [] = true := by
  decide +kernel

end C19
