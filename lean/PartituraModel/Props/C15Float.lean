/-
C15, round 6 - `time_multiplier_per_part = [int(lcm / d) for d in ...]`: the float division of the code against the
exact quotient the other theorems use, and the identifier / quarter duration of the new part.

Model: Model/MergeFloat.lean (`toDouble`: int64 -> double, `floatQuot`: IEEE-754 double division followed by `int()`,
`floatMult L d` = the expression of the code; `multAsCoded` reads the operator from the live source,
Gen/C15Arith.lean).
-/
import PartituraModel.Proofs.C15Float
import PartituraModel.Proofs.C15Defs
import PartituraModel.Props.C15

namespace C15
open Model.Merge

/-- The arithmetic of the live sources is what the model copies: the common divisions are `np.lcm.reduce`, the
multiplier of a part is `int(lcm / d)` (float division, truncated) - or the exact `lcm // d` - in `merge_parts` and in
`note_array_from_part_list`, start and end are MULTIPLIED by it, the new part is `Part(parts[0].id,
quarter_duration=lcm)` with no other argument, a part without notes counts with divisions 1 in the score-level note
array, whose onset, duration and divisions columns are multiplied.  (Regenerated from the sources on every run.) -/
theorem arith_source :
    Gen.C15.arithOk = true ∧ Gen.C15.lcmFunc = "np.lcm.reduce" ∧ Gen.C15.refLcmFunc = "np.lcm.reduce"
      ∧ ((Gen.C15.multOp = "/" ∧ Gen.C15.multTrunc = true) ∨ Gen.C15.multOp = "//")
      ∧ ((Gen.C15.refMultOp = "/" ∧ Gen.C15.refMultTrunc = true) ∨ Gen.C15.refMultOp = "//")
      ∧ Gen.C15.timeOps = ["*", "*"]
      ∧ Gen.C15.newPartIdIndex = 0 ∧ Gen.C15.newPartIdAttr = "id" ∧ Gen.C15.newPartQuarterIsLcm = true
      ∧ Gen.C15.newPartOtherArgs = 0
      ∧ Gen.C15.refEmptyDivs = 1 ∧ Gen.C15.refScaled = ["onset_div", "duration_div", "divs_pq"] := by
  decide

/-- the multiplier as the live source computes it is the float expression or the exact quotient -/
theorem mult_coded_form (L d : Nat) :
    multAsCoded L d = some (floatMult L d) ∨ multAsCoded L d = some (L / d) := by
  rcases arith_source.2.2.2.1 with ⟨h1, h2⟩ | h
  · left; simp only [multAsCoded, h1, h2]; rfl
  · right; simp only [multAsCoded, h]; rfl

/-- The multiplier the code computes is EXACT - the integer `lcm / d`, no rounding - for every divisor `d` of every
`lcm` below 2^53 (with `int(lcm / d)`: the IEEE double division of Model/MergeFloat.lean; with `lcm // d`: trivially). -/
theorem float_multiplier_exact (L d : Nat) (hd : 0 < d) (hdvd : d ∣ L) (hL : 0 < L) (h53 : L < 2 ^ 53) :
    multAsCoded L d = some (L / d) := by
  rcases mult_coded_form L d with h | h
  · rw [h, floatMult_exact hd hdvd hL h53]
  · exact h

/-- ... so for every list of parts with positive divisions whose least common multiple is below 2^53 the multiplier
the code computes for each part is the one of the model (`ctxAt`), whatever the combination of divisions. -/
theorem multipliers_as_coded (ps : List APart) (hpos : ∀ p ∈ ps, 0 < p.divs)
    (h53 : lcmList (ps.map (·.divs)) < 2 ^ 53) (i : Nat) (p : APart) (hp : ps[i]? = some p) :
    multAsCoded (lcmList (ps.map (·.divs))) p.divs = some (ctxAt (lcmList (ps.map (·.divs))) ps i p).mult := by
  have hmem : p ∈ ps := List.mem_of_getElem? hp
  have hdvd : p.divs ∣ lcmList (ps.map (·.divs)) := dvd_lcmList (List.mem_map.mpr ⟨p, hmem, rfl⟩)
  have hL : 0 < lcmList (ps.map (·.divs)) := lcmList_pos (by
    intro d hd'; obtain ⟨q, hq, rfl⟩ := List.mem_map.mp hd'; exact hpos q hq)
  rw [float_multiplier_exact _ _ (hpos p hmem) hdvd hL h53, ctxAt_mult]

/-- hypotheses satisfiable by a non-trivial value: divisions 480 and 960 ... -/
example : multAsCoded 6720 480 = some 14 ∧ (480 ∣ 6720) ∧ 6720 < 2 ^ 53 := by decide

/-- Beyond 2^53 the bound cannot be dropped: for the divisions 403979, 104607, 282917 (least common multiple
11955798345005001 > 2^53) `int(lcm / d)` is 29595098618 for the first part, one less than the exact
quotient - a quarter of that part would last 29595098618/29595098619 of a quarter in the merged part. -/
theorem float_multiplier_witness :
    lcmList [403979, 104607, 282917] = 11955798345005001 ∧ ¬ (11955798345005001 < 2 ^ 53)
      ∧ floatMult 11955798345005001 403979 = 29595098618
      ∧ 11955798345005001 / 403979 = 29595098619 := by
  decide +kernel

-- ================================================================ the new part

/-- The new part carries the identifier of the FIRST part of the argument (`Part(parts[0].id, ...)`), whatever else is
listed and however often that part is reachable. -/
theorem new_part_id (p : APart) (ps : List APart) : newPartName (distinctParts (p :: ps)) = some p.name := rfl

/-- ... and there is always one when there is something to merge -/
theorem new_part_id_total (ps : List APart) (h : ps ≠ []) : (newPartName ps).isSome = true := by
  cases ps with
  | nil => exact absurd rfl h
  | cons p ps => rfl

-- ================================================================ the score-level note array as it is computed

/-- When every part has a sounding note, `note_array_from_part_list` as it is computed (a part without notes
counting with divisions 1) is the reference `refSound` of `sounding_equal`: same common divisions, same rows. -/
theorem score_sound_all_sounding (ps : List APart) (h : ∀ p ∈ ps, (rows p.elems).isEmpty = false) :
    scoreDivs ps = lcmList (ps.map (·.divs)) ∧ scoreSound ps = refSound ps := by
  have hd : ∀ p ∈ ps, refDivs p = p.divs := fun p hp => by simp only [refDivs, h p hp]; rfl
  have hL : scoreDivs ps = lcmList (ps.map (·.divs)) := by
    unfold scoreDivs; rw [List.map_congr_left hd]
  refine ⟨hL, ?_⟩
  unfold scoreSound refSound
  rw [hL]
  exact List.flatMap_congr fun p hp => by rw [hd p hp]

theorem refDivs_dvd (p : APart) : refDivs p ∣ p.divs := by
  unfold refDivs
  split
  · exact Nat.one_dvd _
  · exact Nat.dvd_refl _

theorem scoreDivs_dvd : ∀ ps : List APart, scoreDivs ps ∣ lcmList (ps.map (·.divs))
  | [] => Nat.dvd_refl _
  | p :: ps => by
    show Nat.lcm (refDivs p) (scoreDivs ps) ∣ Nat.lcm p.divs (lcmList (ps.map (·.divs)))
    exact Nat.lcm_dvd (Nat.dvd_trans (refDivs_dvd p) (Nat.dvd_lcm_left _ _))
      (Nat.dvd_trans (scoreDivs_dvd ps) (Nat.dvd_lcm_right _ _))

theorem scaleSound_scaleSound (j k : Nat) (x : Nat × Option Int × Option Int) :
    scaleSound k (scaleSound j x) = scaleSound (j * k) x := by
  obtain ⟨a, b, c⟩ := x
  cases b with
  | none => simp [scaleSound, Nat.mul_assoc]
  | some b => simp [scaleSound, Nat.mul_assoc, Int.mul_assoc]

/-- In general (parts WITHOUT sounding notes included, whose divisions the score-level array ignores) the score-level
note array is the reference at a coarser grid: its common divisions `L'` divide the least common multiple `L` of all
parts, and every row multiplied by `L / L'` is the row of the reference - i.e. the sounding notes of the merged part
(`sounding_equal`) and of the score-level note array are at the same musical time (position / divisions), and they
are equal number by number exactly when `L' = L`. -/
theorem score_sound_same_musical_time (ps : List APart) (hpos : ∀ p ∈ ps, 0 < p.divs) :
    scoreDivs ps ∣ lcmList (ps.map (·.divs))
      ∧ (scoreSound ps).map (scaleSound (lcmList (ps.map (·.divs)) / scoreDivs ps)) = refSound ps := by
  have hdvd := scoreDivs_dvd ps
  refine ⟨hdvd, ?_⟩
  have hLpos : 0 < lcmList (ps.map (·.divs)) := lcmList_pos (by
    intro d hd'; obtain ⟨q, hq, rfl⟩ := List.mem_map.mp hd'; exact hpos q hq)
  have hL'pos : 0 < scoreDivs ps := Nat.pos_of_dvd_of_pos hdvd hLpos
  unfold scoreSound refSound
  rw [List.map_flatMap]
  refine List.flatMap_congr fun p hp => ?_
  rw [List.map_map]
  by_cases hr : (rows p.elems).isEmpty = true
  · rw [List.isEmpty_iff.mp hr]; rfl
  · have hd : refDivs p = p.divs := by simp only [refDivs, hr]; rfl
    have hpd : p.divs ∣ scoreDivs ps := by
      rw [← hd]; exact dvd_lcmList (List.mem_map.mpr ⟨p, hp, rfl⟩)
    refine List.map_congr_left fun r _ => ?_
    show scaleSound _ (scaleSound _ r.sound) = _
    rw [scaleSound_scaleSound, hd, Nat.div_mul_div_comm hpd hdvd, Nat.mul_comm p.divs,
      Nat.mul_div_mul_left _ _ hL'pos]

/-- END TO END, the last sentence of the property for EVERY accepted input (parts without sounding notes included):
the sounding rows of the merged part are, as a multiset, the rows of the score-level note array as
`note_array_from_part_list` computes it, brought from its grid `L'` to the grid `L` of the merged part (`L' ∣ L`;
the factor is 1 when every part sounds) - the same notes at the same musical time. -/
theorem sounding_equal_as_computed (m : Mode) (ps : List APart) (L : Nat) (es : List Elem)
    (h : mergeParts m ps = some (.merged L es)) (hid : OidsDistinct ps) (hties : TiesClosed ps) :
    scoreDivs ps ∣ L ∧ ((rows es).map Row.sound).Perm ((scoreSound ps).map (scaleSound (L / scoreDivs ps))) := by
  obtain ⟨_, hpos, _, hL, _⟩ := mergeParts_merged_iff.mp h
  have hs := sounding_equal m ps L es h hid hties
  obtain ⟨hd, hq⟩ := score_sound_same_musical_time ps hpos
  subst hL
  exact ⟨hd, hq ▸ hs⟩

/-- hypotheses: a score with a part that has no sounding note (exB' = exB's divisions 4, rests only) ... -/
example : scoreDivs [exA, { exB with elems := [] }] = 3 ∧ lcmList ([exA, { exB with elems := [] }].map (·.divs)) = 12 := by
  decide

end C15
