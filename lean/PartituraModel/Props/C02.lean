/-
C02 — quarter and beat maps are exact, monotone and mutually inverse.
(property theorems; under construction)
-/
import PartituraModel.Model.TimeMap

namespace C02
open Model.TimeMap

/-- the default table is the documented one -/
theorem default_musical_beats : Gen.MUSICAL_BEATS = [(6, 2), (9, 3), (12, 4)] := by decide

end C02
