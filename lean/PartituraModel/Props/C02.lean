/-
C02 — quarter and beat maps are exact, monotone and mutually inverse.

Property theorems over Model/TimeMap.lean (the executable model of
`Part._time_interpolator`, `beat_map`, `inv_beat_map`, `quarter_map`, `inv_quarter_map`,
`quarter_duration_map`, `use_musical_beat`, `use_notated_beat`, `set_musical_beat_per_ts`).
All theorems hold for every part (any number of quarter-duration changes and signatures,
any rational query position); `WF` is the decidable side condition "at least two time
points, positive divisions and signature numbers".
-/
import PartituraModel.Proofs.C02Part
import PartituraModel.Proofs.C02Exact

namespace C02
open Model.TimeMap C02Proofs

/-! ### the example used for non-vacuity: three division changes, 6/8 → 5/4 → 2/2 away from the
barlines, and a pickup of 4 divisions (2 eighths of a 6/8 bar) -/

def exPart : Part :=
  { npoints := 9, first := 0, last := 120,
    qd := [(0, 4), (10, 6), (31, 5), (77, 12)],
    ts := [⟨0, 6, 8, 2⟩, ⟨23, 5, 4, 5⟩, ⟨64, 2, 2, 2⟩],
    m1 := some (0, 4), musical := false }

example : WF exPart .notated ∧ WF exPart .quarter ∧ WF { exPart with musical := true } .musical := by decide

example : (keypoints exPart .notated).map (·.t) = [0, 10, 23, 31, 64, 77, 120] := by decide +kernel

theorem fwd_eq (p : Part) (m : Mode) (h : WF p m) (x : Rat) : fwd p m x = interp (finalKnots p m) x := by
  unfold fwd
  rw [if_neg (by have := h.1; omega)]

theorem inv_eq (p : Part) (m : Mode) (h : WF p m) (y : Rat) : inv p m y = interp (swap (finalKnots p m)) y := by
  unfold inv
  rw [if_neg (by have := h.1; omega)]

/-! ### exactness -/

/-- **Segment formula / exactness on a stretch.**  Between two consecutive key points `k`, `k'`
(no quarter-duration change and no signature start strictly between them) the map advances by
`(b - a) * fac / divs`: `d` divisions under quarter duration `q = k.divs` last `d / q` quarters
(`fac = 1`) and `(d / q) * fac` beats. -/
theorem stretch_exact (p : Part) (m : Mode) (h : WF p m) (pre post : List KP) (k k' : KP)
    (hk : keypoints p m = pre ++ k :: k' :: post) (a b : Rat)
    (ha : (k.t : Rat) ≤ a) (hab : a ≤ b) (hb : b ≤ (k'.t : Rat)) :
    ∃ ya yb, fwd p m a = some ya ∧ fwd p m b = some yb ∧ yb - ya = (b - a) * (k.fac / k.divs) := by
  obtain ⟨pre', yk, post', hs, _⟩ := knots_split pre k k' post 0
  have hok := knots0_ok p m h
  rw [hk, hs] at hok
  obtain ⟨ya, yb, h1, h2, h3⟩ :=
    stretch_knots (pickupShift p m (knots (keypoints p m) 0)) pre' _ yk _ _ post' hok a b ha hab hb
  refine ⟨ya, yb, ?_, ?_, ?_⟩
  · rw [fwd_eq p m h]; unfold finalKnots; simp only; rw [hk, hs]; rw [hk, hs] at h1; exact h1
  · rw [fwd_eq p m h]; unfold finalKnots; simp only; rw [hk, hs]; rw [hk, hs] at h2; exact h2
  · rw [h3]
    have hadj := knotsOK_adjacent pre' _ yk _ _ post' hok
    have hkm : k ∈ keypoints p m := by rw [hk]; simp
    have hd : 0 < k.divs := ((keypoints_ok p m h).1.2 k hkm).1
    have h1 : ((k'.t : Int) : Rat) - (k.t : Rat) ≠ 0 := by linarith [hadj.1]
    have h2 : k.divs ≠ 0 := ne_of_gt hd
    congr 1
    field_simp
    ring

/-- **Segment formula** in absolute form: on the stretch after key point `k` the value is the value at
`k` plus `(x - k.t) * fac / divs` -/
theorem fwd_segment (p : Part) (m : Mode) (h : WF p m) (pre post : List KP) (k k' : KP)
    (hk : keypoints p m = pre ++ k :: k' :: post) (x : Rat)
    (hx : (k.t : Rat) ≤ x) (hx' : x ≤ (k'.t : Rat)) :
    ∃ yk, fwd p m (k.t : Rat) = some yk ∧ fwd p m x = some (yk + (x - (k.t : Rat)) * (k.fac / k.divs)) := by
  obtain ⟨ya, yb, h1, h2, h3⟩ := stretch_exact p m h pre post k k' hk _ x (le_refl _) hx hx'
  refine ⟨ya, h1, ?_⟩
  rw [h2]
  congr 1
  linarith

example : ∃ pre post k k', keypoints exPart .notated = pre ++ k :: k' :: post ∧ k.t = 23 ∧ k'.t = 31 ∧
    k.divs = 6 ∧ k.fac = 1 := by
  refine ⟨[⟨0, 4, 2⟩, ⟨10, 6, 2⟩], [⟨64, 5, 1/2⟩, ⟨77, 12, 1/2⟩, ⟨120, 12, 1/2⟩], ⟨23, 6, 1⟩, ⟨31, 5, 1⟩, ?_⟩
  decide +kernel

/-- **Exactness over any interval.**  For `a ≤ b` the map advances by the sum, over all stretches
between consecutive key points (on each of which the quarter duration `divs` and the beat factor
`fac` are constant), of the length of the part of `[a, b]` inside the stretch times `fac / divs`:
`Σ (v - u) / q` quarters, `Σ (v - u) / q * (beat_type / 4) [* musical_beats / beats]` beats. -/
theorem fwd_exact (p : Part) (m : Mode) (h : WF p m) (a b ya yb : Rat) (hab : a ≤ b)
    (ha : fwd p m a = some ya) (hb : fwd p m b = some yb) :
    yb - ya = elapsed (keypoints p m) a b := by
  rw [fwd_eq p m h] at ha hb
  unfold finalKnots at ha hb
  simp only at ha hb
  rw [interp_shift _ _ (knots0_ok p m h)] at ha hb
  obtain ⟨hok, hlen⟩ := keypoints_ok p m h
  cases hva : interp (knots (keypoints p m) 0) a with
  | none => rw [hva] at ha; cases ha
  | some va =>
    cases hvb : interp (knots (keypoints p m) 0) b with
    | none => rw [hvb] at hb; cases hb
    | some vb =>
      rw [hva] at ha
      rw [hvb] at hb
      simp only [Option.map_some, Option.some.injEq] at ha hb
      obtain ⟨k, rest, hk, hka, ea⟩ := interp_elapsed _ 0 a va hok hlen hva
      obtain ⟨k2, rest2, hk2, _, eb⟩ := interp_elapsed _ 0 b vb hok hlen hvb
      rw [hk] at hk2
      injection hk2 with e1 e2
      subst e1
      have hfrom : AllFrom (k.t : Rat) (keypoints p m) := by
        rw [hk]
        intro q hq
        rcases List.mem_cons.mp hq with hq | hq
        · subst hq; exact le_refl _
        · exact kps_tail_from k rest (hk ▸ hok) q hq
      have := elapsed_diff (keypoints p m) (k.t : Rat) a b hok hfrom hab
      rw [← this, ← ha, ← hb, ea, eb]
      ring

example : elapsed (keypoints exPart .notated) 4 100 = 497/30 + 23/12 * (1/2) := by decide +kernel

/-- the quarter duration used on the stretch starting at a key point is the one IN FORCE there:
the value of the latest `set_quarter_duration` at or before it (1 if there is none) -/
theorem keypoint_divs_inforce (p : Part) (m : Mode) (kp : KP) (h : kp ∈ keypoints p m) :
    InForce (qdAssign p.qd) 1 kp.t kp.divs := by
  have hm : (kp.t, kp.divs) ∈ carry1 (qdAssign p.qd) (keyTimes p m) 1 := by
    rw [← carry_divs (qdAssign p.qd) (facAssign m p.ts) (keyTimes p m) 1 1]
    exact List.mem_map.mpr ⟨kp, h, rfl⟩
  exact carried_inforce _ _ (keyTimes_pairwise p m) (keyTimes_contains_qd p m) _ hm

/-- the beat factor used on the stretch starting at a key point is that of the signature IN FORCE
there: the latest signature starting at or before it (one beat per quarter if there is none) -/
theorem keypoint_fac_inforce (p : Part) (m : Mode) (kp : KP) (h : kp ∈ keypoints p m) :
    InForce (facAssign m p.ts) 1 kp.t kp.fac := by
  have hm : (kp.t, kp.fac) ∈ carry1 (facAssign m p.ts) (keyTimes p m) 1 := by
    rw [← carry_fac (qdAssign p.qd) (facAssign m p.ts) (keyTimes p m) 1 1]
    exact List.mem_map.mpr ⟨kp, h, rfl⟩
  exact carried_inforce _ _ (keyTimes_pairwise p m) (keyTimes_contains_ts p m) _ hm

/-- what a signature assigns: `beat_type/4` beats per quarter, times `musical_beats/beats` in
musical-beat mode; every assigned factor comes from a signature of the part -/
theorem factor_values (s : TSig) :
    factorOf .notated s = (s.beatType : Rat) / 4 ∧
    factorOf .musical s = (s.beatType : Rat) / 4 * ((s.mb : Rat) / (s.beats : Rat)) := ⟨rfl, rfl⟩

theorem fac_assigned_by_signature (m : Mode) (ts : List TSig) (t : Int) (v : Rat)
    (h : lastAssoc (facAssign m ts) t = some v) : ∃ s ∈ ts, s.t = t ∧ v = factorOf m s := by
  have hm := lastAssoc_mem _ t v h
  cases m with
  | quarter => simp [facAssign] at hm
  | notated =>
    simp only [facAssign] at hm
    obtain ⟨s, hs, he⟩ := List.mem_map.mp hm
    simp only [Prod.mk.injEq] at he
    exact ⟨s, hs, he.1, he.2.symm⟩
  | musical =>
    simp only [facAssign] at hm
    obtain ⟨s, hs, he⟩ := List.mem_map.mp hm
    simp only [Prod.mk.injEq] at he
    exact ⟨s, hs, he.1, he.2.symm⟩

/-- in the quarter map every stretch of `d` divisions lasts exactly `d / q` quarters -/
theorem quarter_fac_one (p : Part) (kp : KP) (h : kp ∈ keypoints p .quarter) : kp.fac = 1 := by
  rcases keypoint_fac_inforce p .quarter kp h with ⟨s, _, hv, _⟩ | ⟨hv, _⟩
  · simp [facAssign, lastAssoc] at hv
  · exact hv

/-- **No jump at a change point.**  Across a key point `k'` (a quarter-duration change and/or a
signature start) the map is continuous: the advance from `a` before it to `b` after it is the sum
of the two partial stretches, each at its own rate. -/
theorem continuous_at_change (p : Part) (m : Mode) (h : WF p m) (pre post : List KP) (k k' k'' : KP)
    (hk : keypoints p m = pre ++ k :: k' :: k'' :: post) (a b : Rat)
    (ha : (k.t : Rat) ≤ a) (ha' : a ≤ (k'.t : Rat)) (hb : (k'.t : Rat) ≤ b) (hb' : b ≤ (k''.t : Rat)) :
    ∃ ya yb, fwd p m a = some ya ∧ fwd p m b = some yb ∧
      yb - ya = ((k'.t : Rat) - a) * (k.fac / k.divs) + (b - (k'.t : Rat)) * (k'.fac / k'.divs) := by
  obtain ⟨ya, yc, h1, h2, h3⟩ := stretch_exact p m h pre (k'' :: post) k k' hk a _ ha ha' (le_refl _)
  have hk2 : keypoints p m = (pre ++ [k]) ++ k' :: k'' :: post := by rw [hk]; simp
  obtain ⟨yc', yb, h4, h5, h6⟩ := stretch_exact p m h (pre ++ [k]) post k' k'' hk2 _ b (le_refl _) hb hb'
  rw [h2] at h4
  injection h4 with h4
  subst h4
  exact ⟨ya, yb, h1, h5, by linarith⟩

/-! ### monotonicity -/

/-- defined (not NaN) on the whole timeline -/
theorem fwd_defined (p : Part) (m : Mode) (h : WF p m) (x : Rat)
    (h0 : (p.first : Rat) ≤ x) (h1 : x ≤ (p.last : Rat)) : ∃ y, fwd p m x = some y := by
  rw [fwd_eq p m h]
  have hok := finalKnots_ok p m h
  have hxs := finalKnots_xs p m
  have hf : (p.first : Rat) ∈ (finalKnots p m).map (·.1) := by
    rw [hxs]; exact List.mem_map.mpr ⟨p.first, first_mem_keyTimes p m, rfl⟩
  have hl : (p.last : Rat) ∈ (finalKnots p m).map (·.1) := by
    rw [hxs]; exact List.mem_map.mpr ⟨p.last, last_mem_keyTimes p m, rfl⟩
  have r1 := knot_mem_range _ hok _ hf
  have r2 := knot_mem_range _ hok _ hl
  exact interp_defined _ hok x (by linarith [r1.1]) (by linarith [r2.2])

/-- **Strictly increasing** wherever defined -/
theorem fwd_strictMono (p : Part) (m : Mode) (h : WF p m) (a b ya yb : Rat) (hab : a < b)
    (ha : fwd p m a = some ya) (hb : fwd p m b = some yb) : ya < yb := by
  rw [fwd_eq p m h] at ha hb
  exact interp_strictMono _ (finalKnots_ok p m h) a b ya yb hab ha hb

/-- hence **non-decreasing** (also across every change point) -/
theorem fwd_mono (p : Part) (m : Mode) (h : WF p m) (a b ya yb : Rat) (hab : a ≤ b)
    (ha : fwd p m a = some ya) (hb : fwd p m b = some yb) : ya ≤ yb := by
  rcases lt_or_eq_of_le hab with hlt | heq
  · exact (fwd_strictMono p m h a b ya yb hlt ha hb).le
  · subst heq
    rw [ha] at hb
    injection hb with hb
    exact hb.le

example : fwd exPart .notated 22 = some 7 ∧ fwd exPart .notated 23 = some (22/3) ∧
    fwd exPart .notated 24 = some (15/2) := by decide +kernel

/-! ### inverse maps -/

/-- **The inverse map undoes the forward map** at every position where the forward map is defined,
in particular at every position of the timeline (`fwd_defined`) -/
theorem inv_fwd (p : Part) (m : Mode) (h : WF p m) (x y : Rat) (hx : fwd p m x = some y) :
    inv p m y = some x := by
  rw [fwd_eq p m h] at hx
  rw [inv_eq p m h]
  exact interp_inv _ (finalKnots_ok p m h) x y hx

/-- and the forward map undoes the inverse map on the image -/
theorem fwd_inv (p : Part) (m : Mode) (h : WF p m) (x y : Rat) (hy : inv p m y = some x) :
    fwd p m x = some y := by
  rw [inv_eq p m h] at hy
  rw [fwd_eq p m h]
  have := interp_inv _ (knotsOK_swap _ (finalKnots_ok p m h)) y x hy
  rwa [swap_swap] at this

theorem inv_fwd_on_timeline (p : Part) (m : Mode) (h : WF p m) (x : Rat)
    (h0 : (p.first : Rat) ≤ x) (h1 : x ≤ (p.last : Rat)) :
    ∃ y, fwd p m x = some y ∧ inv p m y = some x := by
  obtain ⟨y, hy⟩ := fwd_defined p m h x h0 h1
  exact ⟨y, hy, inv_fwd p m h x y hy⟩

example : inv exPart .notated (15/2) = some 24 ∧ inv exPart .quarter 0 = some 4 := by decide +kernel

/-- the four public maps are these functions (beat maps in the mode the part is switched to) -/
theorem public_maps (p : Part) :
    beatMap p = fwd p (beatMode p) ∧ invBeatMap p = inv p (beatMode p) ∧
    quarterMap p = fwd p .quarter ∧ invQuarterMap p = inv p .quarter ∧
    beatMode p = (if p.musical then Mode.musical else Mode.notated) := ⟨rfl, rfl, rfl, rfl, rfl⟩

/-- a part with fewer than two time points: every position maps to 0, and 0 maps back to the only
time point (repaired behaviour, fix C02-2) -/
theorem single_point (p : Part) (m : Mode) (h : p.npoints = 1) (x : Rat) :
    fwd p m x = some 0 ∧ inv p m 0 = some (p.first : Rat) := by
  unfold fwd inv
  simp [h]

/-! ### origin -/

/-- the pickup test of the code: a first measure `(first, e)` with a signature starting at the first
point, whose length `a` in the unit of the map is smaller than a bar of that signature -/
def Pickup (p : Part) (m : Mode) (e : Int) (a : Rat) : Prop :=
  p.m1 = some (p.first, e) ∧ actualDur (knots (keypoints p m) 0) (p.first, e) = some a ∧
  ∃ s, p.ts.find? (fun s => s.t = p.first) = some s ∧ a < normalDur m s

theorem pickupShift_of_pickup (p : Part) (m : Mode) (e : Int) (a : Rat) (h : Pickup p m e a) :
    pickupShift p m (knots (keypoints p m) 0) = a := by
  obtain ⟨h1, h2, s, h3, h4⟩ := h
  unfold pickupShift
  simp only [h1, h2, h3, if_pos h4]

/-- **With a pickup, the end of the pickup measure (= start of the first full measure) carries the
value the un-shifted map has at the first time point.** -/
theorem pickup_end_value (p : Part) (m : Mode) (h : WF p m) (e : Int) (a : Rat) (hp : Pickup p m e a) :
    ∃ v0, interp (knots (keypoints p m) 0) (p.first : Rat) = some v0 ∧ fwd p m (e : Rat) = some v0 := by
  have hs := pickupShift_of_pickup p m e a hp
  obtain ⟨_, h2, _⟩ := hp
  obtain ⟨v0, v1, h3, h4, h5⟩ := actualDur_some _ _ _ _ h2
  refine ⟨v0, h3, ?_⟩
  rw [fwd_eq p m h]
  unfold finalKnots
  simp only
  rw [hs, interp_shift _ _ (knots0_ok p m h), h4]
  simp only [Option.map_some, Option.some.injEq]
  linarith

/-- **Origin with a pickup** (partial: needs `hfirst`, "no key point lies before the first time
point", i.e. the part does not start later than time 0 where the initial quarter duration is stored —
open finding F-C02-1): zero lies at the start of the first full measure. -/
theorem origin_pickup_partial (p : Part) (m : Mode) (h : WF p m) (e : Int) (a : Rat) (hp : Pickup p m e a)
    (hfirst : (keyTimes p m).head? = some p.first) : fwd p m (e : Rat) = some 0 := by
  obtain ⟨v0, h1, h2⟩ := pickup_end_value p m h e a hp
  have hf := interp_first _ (knots0_ok p m h)
  obtain ⟨hx, hy⟩ := firstX_knots0 p m p.first hfirst
  rw [hx, hy, h1] at hf
  injection hf with hf
  rw [h2, hf]

/-- **Origin without a pickup** (partial, same extra hypothesis): zero lies at the first time point. -/
theorem origin_plain_partial (p : Part) (m : Mode) (h : WF p m)
    (hno : pickupShift p m (knots (keypoints p m) 0) = 0)
    (hfirst : (keyTimes p m).head? = some p.first) : fwd p m (p.first : Rat) = some 0 := by
  rw [fwd_eq p m h]
  unfold finalKnots
  simp only
  rw [hno, interp_shift _ _ (knots0_ok p m h)]
  have hf := interp_first _ (knots0_ok p m h)
  obtain ⟨hx, hy⟩ := firstX_knots0 p m p.first hfirst
  rw [hx, hy] at hf
  rw [hf]
  simp

/-- what holds for EVERY part without a pickup: zero lies at the first key point -/
theorem origin_first_key (p : Part) (m : Mode) (h : WF p m) (t0 : Int)
    (hno : pickupShift p m (knots (keypoints p m) 0) = 0)
    (hkey : (keyTimes p m).head? = some t0) : fwd p m (t0 : Rat) = some 0 := by
  rw [fwd_eq p m h]
  unfold finalKnots
  simp only
  rw [hno, interp_shift _ _ (knots0_ok p m h)]
  have hf := interp_first _ (knots0_ok p m h)
  obtain ⟨hx, hy⟩ := firstX_knots0 p m t0 hkey
  rw [hx, hy] at hf
  rw [hf]
  simp

/-- the extra hypothesis holds whenever nothing is stored before the first time point, e.g. for every
part whose first time point is 0 (times are never negative) -/
theorem first_key_is_first_point (p : Part) (m : Mode) (hl : p.first ≤ p.last)
    (hq : ∀ e ∈ p.qd, p.first ≤ e.1) (ht : ∀ s ∈ p.ts, p.first ≤ s.t) :
    (keyTimes p m).head? = some p.first := by
  have hmem := first_mem_keyTimes p m
  have hp := keyTimes_pairwise p m
  have hall : ∀ x ∈ keyTimes p m, p.first ≤ x := by
    intro x hx
    unfold keyTimes at hx
    rw [mem_sortedKeys] at hx
    simp only [List.mem_cons, List.mem_append, List.mem_map] at hx
    rcases hx with hx | hx | ⟨e, he, hx⟩ | ⟨e, he, hx⟩
    · omega
    · omega
    · unfold qdAssign at he
      obtain ⟨e', he', rfl⟩ := List.mem_map.mp he
      have := hq e' he'
      simp only at hx
      omega
    · cases m with
      | quarter => simp [facAssign] at he
      | notated =>
        simp only [facAssign] at he
        obtain ⟨s, hs, rfl⟩ := List.mem_map.mp he
        have := ht s hs
        simp only at hx
        omega
      | musical =>
        simp only [facAssign] at he
        obtain ⟨s, hs, rfl⟩ := List.mem_map.mp he
        have := ht s hs
        simp only at hx
        omega
  cases hk : keyTimes p m with
  | nil => rw [hk] at hmem; simp at hmem
  | cons a as =>
    rw [hk] at hmem hp hall
    have h1 := hall a List.mem_cons_self
    have h2 : a ≤ p.first := head_le_of_pairwise (a :: as) a hp rfl p.first hmem
    simp only [List.head?_cons, Option.some.injEq]
    omega

example : Pickup exPart .notated 4 2 := by
  refine ⟨rfl, by decide +kernel, ⟨0, 6, 8, 2⟩, by decide +kernel, by decide +kernel⟩

example : (keyTimes exPart .notated).head? = some exPart.first := by decide +kernel

example : fwd exPart .notated 4 = some 0 ∧ fwd exPart .quarter 4 = some 0 ∧ fwd exPart .notated 0 = some (-2) := by
  decide +kernel

/-- a part that starts at time 8 (open finding F-C02-1): 3/4 from 8, first measure 8..20 (a full bar) -/
def lateStart : Part :=
  { npoints := 4, first := 8, last := 40, qd := [(0, 4)], ts := [⟨8, 3, 4, 3⟩],
    m1 := some (8, 20), musical := false }

/-- the un-restricted origin statement is FALSE for the current code: without a pickup, the map is
not zero at the first time point of a part that starts later than time 0 -/
theorem origin_late_start_counterexample :
    WF lateStart .notated ∧ pickupShift lateStart .notated (knots (keypoints lateStart .notated) 0) = 0 ∧
    fwd lateStart .notated (lateStart.first : Rat) = some 2 ∧ fwd lateStart .notated 0 = some 0 := by
  decide +kernel

/-- and with a pickup (first measure 8..12, one beat of a 3/4 bar) zero is not at the start of the
first full measure either -/
theorem origin_late_pickup_counterexample :
    Pickup { lateStart with m1 := some (8, 12) } .notated 12 1 ∧
    fwd { lateStart with m1 := some (8, 12) } .notated 12 = some 2 := by
  refine ⟨⟨rfl, by decide +kernel, ⟨8, 3, 4, 3⟩, by decide +kernel, by decide +kernel⟩, by decide +kernel⟩

/-! ### quarter_duration_map -/

/-- **`quarter_duration_map(t)` is the quarter duration in force at `t`**: the value of the last
change at or before `t` (the change times are kept strictly increasing by `set_quarter_duration`) -/
theorem qdMap_inforce (qd pre post : List (Int × Nat)) (e : Int × Nat) (t : Rat)
    (hs : (qd.map (·.1)).Pairwise (· < ·)) (hq : qd = pre ++ e :: post)
    (h1 : (e.1 : Rat) ≤ t) (h2 : ∀ x ∈ post, t < (x.1 : Rat)) : qdMap qd t = some e.2 := by
  subst hq
  have hpre : ∀ x ∈ pre, (x.1 : Rat) ≤ t := by
    intro x hx
    rw [List.map_append, List.pairwise_append] at hs
    have : x.1 < e.1 := hs.2.2 x.1 (List.mem_map.mpr ⟨x, hx, rfl⟩) e.1 (by simp)
    have : (x.1 : Rat) < (e.1 : Rat) := by exact_mod_cast this
    linarith
  cases pre with
  | nil =>
    obtain ⟨e1, e2⟩ := e
    simp only [List.nil_append, qdMap]
    rw [prevValue_before e2 t post h2]
  | cons x pre' =>
    obtain ⟨x1, x2⟩ := x
    simp only [List.cons_append, qdMap]
    rw [prevValue_spec t e post h1 h2 pre' x2 (fun y hy => hpre y (List.mem_cons_of_mem _ hy))]

/-- before the first change the first value is returned -/
theorem qdMap_before (q0 : Int × Nat) (rest : List (Int × Nat)) (t : Rat)
    (h : ∀ x ∈ rest, t < (x.1 : Rat)) : qdMap (q0 :: rest) t = some q0.2 := by
  obtain ⟨a, b⟩ := q0
  simp only [qdMap]
  rw [prevValue_before b t rest h]

example : qdMap exPart.qd 30 = some 6 ∧ qdMap exPart.qd 31 = some 5 ∧ qdMap exPart.qd (-3) = some 4 ∧
    qdMap exPart.qd 1000 = some 12 := by decide +kernel

/-! ### musical-beat switches -/

/-- the regenerated default table: 6 → 2, 9 → 3, 12 → 4, every other numerator is its own number of
musical beats -/
theorem defaultMB_values : Gen.MUSICAL_BEATS = [(6, 2), (9, 3), (12, 4)] ∧
    ∀ b, defaultMB b = if b = 6 then 2 else if b = 9 then 3 else if b = 12 then 4 else b := by
  refine ⟨by decide, ?_⟩
  intro b
  unfold defaultMB Gen.MUSICAL_BEATS
  by_cases h6 : b = 6
  · subst h6; rfl
  · by_cases h9 : b = 9
    · subst h9; rfl
    · by_cases h12 : b = 12
      · subst h12; rfl
      · have e6 : ¬ (6 = b) := fun h => h6 h.symm
        have e9 : ¬ (9 = b) := fun h => h9 h.symm
        have e12 : ¬ (12 = b) := fun h => h12 h.symm
        simp [List.find?, h6, h9, h12, e6, e9, e12]

/-- a new signature carries the default -/
theorem addTS_default (s : BeatState) (t : Int) (b bt : Nat) :
    step s (.addTS t b bt) = { s with ts := s.ts ++ [⟨t, b, bt, defaultMB b⟩] } := rfl

/-- `set_musical_beat_per_ts` leaves time, beats and beat type alone and stores the user's value for
`beats/beat_type` when the table has it, the default otherwise -/
theorem assignMB_spec (tbl : List ((Nat × Nat) × Nat)) (s : TSig) :
    (assignMB tbl s).t = s.t ∧ (assignMB tbl s).beats = s.beats ∧ (assignMB tbl s).beatType = s.beatType ∧
    (assignMB tbl s).mb = (userMB tbl s.beats s.beatType).getD (defaultMB s.beats) := by
  unfold assignMB
  cases h : userMB tbl s.beats s.beatType <;> simp

/-- `use_musical_beat(tbl)` on a part in notated mode switches the mode and applies a non-empty table
to every signature present; with an empty table the stored values are kept -/
theorem useMusical_spec (s : BeatState) (tbl : List ((Nat × Nat) × Nat)) (h : s.musical = false) :
    step s (.useMusical tbl) =
      ⟨true, if tbl.isEmpty then s.ts else s.ts.map (assignMB tbl)⟩ := by
  simp [step, h]

/-- `use_notated_beat()` on a part in musical mode switches back and resets every signature to the
default; the switches are idempotent (a second call changes nothing) -/
theorem useNotated_spec (s : BeatState) :
    (s.musical = true → step s .useNotated = ⟨false, s.ts.map (assignMB [])⟩) ∧
    (s.musical = false → step s .useNotated = s) ∧
    (s.musical = true → ∀ tbl, step s (.useMusical tbl) = s) := by
  refine ⟨fun h => by simp [step, h], fun h => by simp [step, h], fun h tbl => by simp [step, h]⟩

theorem assignMB_empty (s : TSig) : (assignMB [] s).mb = defaultMB s.beats := by
  simp [assignMB, userMB]

example : (runOps [.addTS 0 6 8, .addTS 23 5 4, .useMusical [((5, 4), 2)], .addTS 64 12 8]).ts.map (·.mb)
    = [2, 2, 4] := by decide

end C02
