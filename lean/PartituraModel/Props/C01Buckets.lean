/-
C01, round 5 — the flat insertion-ordered registry of Model/Timeline.lean is a SOUND ABSTRACTION of the
class-keyed `defaultdict(_OrderedSet)` the code keeps (Model/TimelineBuckets.lean): whatever sequence of
`add_*_object`, `Part.remove` deregistrations, `remove_*_object`, `iter_starting/iter_ending` reads (which
create empty buckets) and `_cleanup_point` emptiness tests is performed, every result is the same.
-/
import PartituraModel.Proofs.C01Buckets

namespace C01
open TL

/-- every operation sequence on a fresh registry: the dictionary and the flat list give the same results, and
the dictionary keeps representing the list (each bucket = the list's objects of exactly that class, in order) -/
theorem registry_refinement (ops : List BOp) :
    (runB [] ops).2 = (runF [] ops).2 ∧ Rep (runB [] ops).1 (runF [] ops).1 :=
  runB_refines ops rep_empty

/-- one step, from any represented state -/
theorem registry_step {b : Buckets} {flat : List ObjRef} (h : Rep b flat) (op : BOp) :
    (stepB b op).2 = (stepF flat op).2 ∧ Rep (stepB b op).1 (stepF flat op).1 := stepB_refines h op

/-- a bucket IS the per-class view the flat model computes by filtering (also for classes without a key) -/
theorem bucket_is_filter {b : Buckets} {flat : List ObjRef} (h : Rep b flat) (c : Nat) :
    b.get c = flat.filter (fun o => o.cls == c) := h.get c

/-- `_cleanup_point`: `sum(len(starting buckets)) + sum(len(ending buckets)) == 0` is the model's test
`p.starting.length + p.ending.length = 0` — empty buckets left behind by reading do not matter -/
theorem cleanup_test_sound {bs be : Buckets} {p : Point} (hs : Rep bs p.starting) (he : Rep be p.ending) :
    bs.total + be.total = p.starting.length + p.ending.length := by
  rw [rep_total hs, rep_total he]

/-- reading (`iter_starting(cls, include_subclasses)`) yields the flat model's answer in the same order and
changes nothing that is represented — it only creates empty buckets -/
theorem reading_is_harmless {b : Buckets} {flat : List ObjRef} (h : Rep b flat) (cls : Option Nat) (incl : Bool) :
    (b.iter cls incl).1 = iterReg flat cls incl ∧ Rep (b.iter cls incl).2 flat := rep_iter h cls incl

/-! ### non-vacuity -/

section Examples

def bA : ObjRef := { id := 0, cls := 2 }
def bB : ObjRef := { id := 1, cls := 3 }
def bC : ObjRef := { id := 2, cls := 2 }

def bops : List BOp :=
  [.add bB, .add bA, .iter (some 1) true, .add bC, .removeTouch bA, .add bA, .removeIfKey bB, .total,
   .iter (some 2) true, .removeIfKey { id := 9, cls := 38 }, .removeTouch { id := 9, cls := 38 }]

/-- reading created the keys 1 (GenericNote) … before any object of those classes existed; the GraceNote bucket (3)
is empty again after the removal but its key stays; `removeTouch` of an unknown object created key 38 -/
example : (runB [] bops).1.map (fun e => (e.1, e.2.map (·.id)))
    = [(3, []), (2, [2, 0]), (1, []), (4, []), (5, []), (38, [])] := by decide +kernel
example : (runF [] bops).1 = [bC, bA] := by decide +kernel
example : (runB [] bops).2 = [.unit, .unit, .objs [bA, bB], .unit, .unit, .unit, .unit, .count 2, .objs [bC, bA],
    .unit, .unit] := by decide +kernel
example : Rep [(3, []), (2, [bC, bA]), (1, [])] [bC, bA] :=
  ⟨by decide, by decide, by decide⟩

end Examples

end C01
