/-
C07 — property theorems about the value codecs of match lines (they do not depend on the generated
template table, only on Gen/Tables.lean, so they are not re-elaborated when a pattern changes).
-/
import PartituraModel.Model.MatchCodec
import PartituraModel.Proofs.C07Codec

namespace C07
open Model Model.Template Model.MatchCodec

-- ---------------------------------------------------------------- integers (`format_int` / `interpret_as_int`)

/-- `int(format_int(i)) = i` for every integer -/
theorem int_roundtrip (i : Int) : decode .int (encInt (some i)) = .ok (.int i) := by
  simp only [decode, encInt, C07Codec.parseInt_showIntS, liftO, Except.map]

/-- formatting fixpoint: whatever text was read as the integer `i`, the text written for `i` is read
    as `i` again (so the second formatting equals the first) -/
theorem int_fixpoint (s : Str) (i : Int) (_ : parseInt s = some i) :
    parseInt (encInt (some i)) = some i := C07Codec.parseInt_showIntS i

/-- the `-` written for None is not a number (the pitch post-processing turns it back into None) -/
theorem int_none : parseInt (encInt none) = none := by decide

example : encInt (some (-12)) = "-12".toList ∧ parseInt " 0042 ".toList = some 42 := by decide +kernel

-- ---------------------------------------------------------------- FractionalSymbolicDuration

/-- **duration addition is exact**: whenever `a + b` stays within the bound of 1024 (beyond it the class
    deliberately approximates), its value is the sum of the values -/
theorem frac_add_exact (a b c : Frac) (h : Frac.add? a b = some c) : c.value = a.value + b.value :=
  C07Codec.frac_add_value a b c h

/-- the sum keeps the components of both operands, in order, without the zero ones -/
theorem frac_add_components (a b c : Frac) (h : Frac.add? a b = some c) :
    c.add = some ((a.comps ++ b.comps).filter (fun x => x.1 != 0)) ∧ c.tdiv = none := by
  unfold Frac.add? at h
  simp only at h
  split at h
  · simp at h
  · split at h
    · simp at h
    · injection h with h; subst h; exact ⟨rfl, rfl⟩

-- non-vacuity: 1/4 + 1/8/3 = 7/24, written "1/4+1/8/3" and read back as the same object
example : Frac.add? ⟨1, 4, none, none⟩ ⟨1, 8, some 3, none⟩
    = some ⟨7, 24, none, some [(1, 4, none), (1, 8, some 3)]⟩ := by decide +kernel
example : fracFromString "1/4+1/8/3".toList
    = .ok ⟨7, 24, none, some [(1, 4, none), (1, 8, some 3)]⟩ := by decide +kernel

-- ---------------------------------------------------------------- key signatures

/-- the 30 keys -/
def allKeys : List (Int × Mode) :=
  (List.range 15).flatMap fun (i : Nat) => [((i : Int) - 7, Mode.major), ((i : Int) - 7, Mode.minor)]

def key1 (fm : Int × Mode) : KeySig := { main := { fifths := fm.1, mode := fm.2, alt := none }, others := [] }
def key2 (a b : Int × Mode) : KeySig := { main := { fifths := a.1, mode := a.2, alt := some b }, others := [] }

/-- **all 30 key names in every historical spelling** (`[bb,minor]` of 0.1.0, `Bb min` and `[Bb min]`
    of 0.3.0–0.5.0, `Bbm` of 1.0.0) are written, and read back as the same (fifths, mode); hence
    re-formatting gives the identical text.  Whole table, by kernel evaluation. -/
theorem key_names : ∀ fm ∈ allKeys, ∀ fmt ∈ [KeyFmt.v100, KeyFmt.v030, KeyFmt.v010, KeyFmt.v030list],
    (encKey fmt (key1 fm)).bind decKey = some (some (key1 fm)) := by decide +kernel

/-- the spellings are the ones the formats define -/
example : encKey .v100 (key1 (-2, .minor)) = some "Gm".toList ∧ encKey .v030 (key1 (-2, .minor)) = some "G min".toList ∧
    encKey .v010 (key1 (-2, .minor)) = some "[gn,minor]".toList ∧ encKey .v030list (key1 (3, .major)) = some "[A Maj]".toList := by
  decide +kernel

/-- double keys `X/Y` (all 900 pairs) in the 1.0.0 spelling -/
theorem key_pairs_v100 : ∀ a ∈ allKeys, ∀ b ∈ allKeys,
    (encKey .v100 (key2 a b)).bind decKey = some (some (key2 a b)) := by decide +kernel

/-- double keys `X Maj/Y min` (all 900 pairs) in the 0.3.0 spelling -/
theorem key_pairs_v030 : ∀ a ∈ allKeys, ∀ b ∈ allKeys,
    (encKey .v030 (key2 a b)).bind decKey = some (some (key2 a b)) := by decide +kernel

-- ---------------------------------------------------------------- floats (text level), durations as text, versions

/-- fixed-point text: the numeral written for `n / 10^k` with `k ≥ 1` decimals (`'%.kf'`, e.g. the
    four-decimal beat times of 1.0.0) is read back as exactly `n / 10^k`, with either sign.
    (`_partial`: the binary64 rounding step between the float and its decimal numeral is part of the
    model - `toBinary64`, `roundHalfEven` - and is compared with the implementation, not proved.) -/
theorem fixed_decimal_roundtrip_partial (k : Nat) (neg : Bool) (n : Nat) (hk : 1 ≤ k) :
    decode .float (printFixed k neg n)
      = .ok (.dec (if neg then -((n : Rat) / (pow10 k : Rat)) else (n : Rat) / (pow10 k : Rat))) := by
  simp only [decode, C07Codec.parseDecimal_printFixed k neg n hk, liftO, Except.map]

example : printFixed 4 true 12345 = "-1.2345".toList ∧ encFix 4 (1 / 32) = "0.0312".toList ∧
    encFix 4 (3 / 32) = "0.0938".toList ∧ encFix 4 (5 / 100000) = "0.0001".toList ∧
    encRepr (5 / 4) = some "1.25".toList ∧ encRepr 3 = some "3.0".toList := by decide +kernel

/-- **durations keep their value through the string round trip**: every simple duration `n`, `n/d`,
    `n/d/t` within the bound is read back from its text as the same object (hence the same value, and
    the same text again).  (`_partial`: for additive durations `a+b+…` the string round trip is the
    left fold of `frac_add_exact`; it is evaluated on examples below and compared on generated sums.) -/
theorem frac_string_roundtrip_partial (f : Frac) (ha : f.add = none) (hn : f.num ≤ BOUND) (hd : f.den ≤ BOUND) :
    fracFromString f.toStr = .ok f := C07Codec.fracFromString_toStr f ha hn hd

example : (fracFromString "1/4+1/8/3+3".toList).toOption.map Frac.toStr = some "1/4+1/8/3+3".toList := by
  decide +kernel
example : fracFromString (Frac.toStr ⟨7, 1, none, none⟩) = .ok ⟨7, 1, none, none⟩ ∧
    Frac.toStrRational ⟨7, 1, none, none⟩ = "7/1".toList := by decide +kernel

/-- the format version written as `major.minor.patch` is read back as itself -/
theorem version_roundtrip (a b c : Nat) : decode .version (encVersion a b c) = .ok (.ver a b c) := by
  simp only [decode, C07Codec.decVersion_encVersion, liftO, Except.map]

/-- the pre-1.0 spelling `minor.patch` denotes version `0.minor.patch` (one formatting round, then a fixpoint) -/
example : decVersion "5.0".toList = some (0, 5, 0) ∧ encVersion 0 5 0 = "0.5.0".toList ∧
    decVersion "0.5.0".toList = some (0, 5, 0) := by decide +kernel

-- ---------------------------------------------------------------- attribute lists

/-- **attribute lists of any length**: a list of words (no comma, no blank) is read back from the text
    `format_list` writes - the empty list included.  (The single exception `[""]` has the same text as the
    empty list and is read as the empty list.) -/
theorem list_roundtrip (items : List Str) (hw : C07Codec.Words items) (hne : items ≠ [[]]) :
    decode .list (encList items) = .ok (.strs items) := by
  simp only [decode, C07Codec.decList_encList items hw hne]

/-- the same for the list fields whose brackets are literals of the line pattern (`ScoreAttributesList`,
    `AnnotationType`, `OrnamentType`, `RepeatEndType`, `Onsets`) -/
theorem list_body_roundtrip (items : List Str) (hw : C07Codec.Words items) (hne : items ≠ [[]])
    (hbr : ∀ x, items.head? = some x → x.head? ≠ some '[') :
    decode .list (encListBody items) = .ok (.strs items) := by
  simp only [decode, C07Codec.decList_encListBody items hw hne hbr]

example : decList "[]".toList = [] ∧ decList [] = [] ∧ decList "[staff1, s ,v1]".toList = ["staff1".toList, "s".toList, "v1".toList]
    ∧ encList [] = "[]".toList := by decide +kernel

end C07
