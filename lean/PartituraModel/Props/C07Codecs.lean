/-
C07 — property theorems about the value codecs of match lines (they do not depend on the generated
template table, only on Gen/Tables.lean, so they are not re-elaborated when a pattern changes).
-/
import PartituraModel.Model.MatchCodec
import PartituraModel.Proofs.C07Codec
import PartituraModel.Proofs.C07Frac
import PartituraModel.Proofs.C07Float
import PartituraModel.Proofs.C07Bound

namespace C07
open Model Model.Template Model.MatchCodec

-- ---------------------------------------------------------------- integers (`format_int` / `interpret_as_int`)

/-- `int(format_int(i)) = i` for every integer -/
theorem int_roundtrip (i : Int) : decode .int (encInt (some i)) = .ok (.int i) := by
  simp only [decode, encInt, C07Codec.parseInt_showIntS, liftO, Except.map]

/-- formatting fixpoint: whatever text was read as the integer `i`, the text written for `i` is read
    as `i` again (so the second formatting equals the first) -/
theorem int_fixpoint (s : Str) (i : Int) (_ : parseInt s = some i) :
    parseInt (encInt (some i)) = some i := C07Codec.parseInt_showIntS i

/-- the `-` written for None is not a number (the pitch post-processing turns it back into None) -/
theorem int_none : parseInt (encInt none) = none := by decide

example : encInt (some (-12)) = "-12".toList ∧ parseInt " 0042 ".toList = some 42 := by decide +kernel

-- ---------------------------------------------------------------- FractionalSymbolicDuration

/-- **duration addition is exact**: whenever `a + b` stays within the bound of 1024 (beyond it the class
    deliberately approximates), its value is the sum of the values -/
theorem frac_add_exact (a b c : Frac) (h : Frac.add? a b = some c) : c.value = a.value + b.value :=
  C07Codec.frac_add_value a b c h

/-- the sum keeps the components of both operands, in order, without the zero ones -/
theorem frac_add_components (a b c : Frac) (h : Frac.add? a b = some c) :
    c.add = some ((a.comps ++ b.comps).filter (fun x => x.1 != 0)) ∧ c.tdiv = none := by
  unfold Frac.add? at h
  simp only at h
  split at h
  · simp at h
  · split at h
    · simp at h
    · injection h with h; subst h; exact ⟨rfl, rfl⟩

-- non-vacuity: 1/4 + 1/8/3 = 7/24, written "1/4+1/8/3" and read back as the same object
example : Frac.add? ⟨1, 4, none, none⟩ ⟨1, 8, some 3, none⟩
    = some ⟨7, 24, none, some [(1, 4, none), (1, 8, some 3)]⟩ := by decide +kernel
example : fracFromString "1/4+1/8/3".toList
    = .ok ⟨7, 24, none, some [(1, 4, none), (1, 8, some 3)]⟩ := by decide +kernel

-- ---------------------------------------------------------------- key signatures

/-- the 30 keys -/
def allKeys : List (Int × Mode) :=
  (List.range 15).flatMap fun (i : Nat) => [((i : Int) - 7, Mode.major), ((i : Int) - 7, Mode.minor)]

def key1 (fm : Int × Mode) : KeySig := { main := { fifths := fm.1, mode := fm.2, alt := none }, others := [] }
def key2 (a b : Int × Mode) : KeySig := { main := { fifths := a.1, mode := a.2, alt := some b }, others := [] }

/-- **all 30 key names in every historical spelling** (`[bb,minor]` of 0.1.0, `Bb min` and `[Bb min]`
    of 0.3.0–0.5.0, `Bbm` of 1.0.0) are written, and read back as the same (fifths, mode); hence
    re-formatting gives the identical text.  Whole table, by kernel evaluation. -/
theorem key_names : ∀ fm ∈ allKeys, ∀ fmt ∈ [KeyFmt.v100, KeyFmt.v030, KeyFmt.v010, KeyFmt.v030list],
    (encKey fmt (key1 fm)).bind decKey = some (some (key1 fm)) := by decide +kernel

/-- the spellings are the ones the formats define -/
example : encKey .v100 (key1 (-2, .minor)) = some "Gm".toList ∧ encKey .v030 (key1 (-2, .minor)) = some "G min".toList ∧
    encKey .v010 (key1 (-2, .minor)) = some "[gn,minor]".toList ∧ encKey .v030list (key1 (3, .major)) = some "[A Maj]".toList := by
  decide +kernel

/-- double keys `X/Y` (all 900 pairs) in the 1.0.0 spelling -/
theorem key_pairs_v100 : ∀ a ∈ allKeys, ∀ b ∈ allKeys,
    (encKey .v100 (key2 a b)).bind decKey = some (some (key2 a b)) := by decide +kernel

/-- double keys `X Maj/Y min` (all 900 pairs) in the 0.3.0 spelling -/
theorem key_pairs_v030 : ∀ a ∈ allKeys, ∀ b ∈ allKeys,
    (encKey .v030 (key2 a b)).bind decKey = some (some (key2 a b)) := by decide +kernel

-- ---------------------------------------------------------------- floats (text level), durations as text, versions

/-- the sign-and-digits value of a decimal numeral -/
def fixedVal (k : Nat) (neg : Bool) (n : Nat) : Rat :=
  if neg then -((n : Rat) / (pow10 k : Rat)) else (n : Rat) / (pow10 k : Rat)

/-- fixed-point text: the numeral written for `n / 10^k` with `k ≥ 1` decimals is read back as exactly
    `n / 10^k`, with either sign -/
theorem fixed_numeral_read (k : Nat) (neg : Bool) (n : Nat) (hk : 1 ≤ k) :
    decode .float (printFixed k neg n) = .ok (.dec (fixedVal k neg n)) := by
  simp only [decode, C07Codec.parseDecimal_printFixed k neg n hk, liftO, Except.map, fixedVal]

/-- **four-decimal beat times keep their value** (and the five- and two-decimal times of versions < 0.3.0):
    a float that is the k-decimal number `±n / 10^k` (`k ≥ 1`, fewer than 2^52 units in the last place) is
    written by `'%.kf'` as its own numeral and read back as the same number - the binary64 value nearest to
    it lies within relative error 2^-53 (`toBinary64` is a correct rounding: `C07Float.tbPos_close`), so
    correct rounding to k decimals returns `n` -/
theorem fixed_decimal_roundtrip (k : Nat) (neg : Bool) (n : Nat) (hk : 1 ≤ k) (hb : n < 2 ^ 52)
    (hz : neg = true → 0 < n) :
    encFix k (fixedVal k neg n) = printFixed k neg n ∧
      decode .float (encFix k (fixedVal k neg n)) = .ok (.dec (fixedVal k neg n)) := by
  have h := C07Float.encFix_fixed k n neg hb hz
  unfold fixedVal
  exact ⟨h, by rw [h]; exact fixed_numeral_read k neg n hk⟩

/-- the sign and the units in the last place `'%.kf'` prints for an arbitrary float -/
def fixNeg (q : Rat) : Bool := decide (toBinary64 q < 0)
def fixUnits (k : Nat) (q : Rat) : Nat :=
  (roundHalfEven ((if toBinary64 q < 0 then -toBinary64 q else toBinary64 q) * (pow10 k : Rat))).toNat

/-- **formatting of floats is a fixpoint after one round**: ANY float `q` (not necessarily representable with
    k decimals) is written as some numeral; the number read back from it is written as the identical text -/
theorem fixed_decimal_fixpoint (k : Nat) (q : Rat) (hk : 1 ≤ k) (hb : fixUnits k q < 2 ^ 52)
    (hz : fixNeg q = true → 0 < fixUnits k q) :
    ∃ q', decode .float (encFix k q) = .ok (.dec q') ∧ encFix k q' = encFix k q := by
  have he : encFix k q = printFixed k (fixNeg q) (fixUnits k q) := rfl
  refine ⟨fixedVal k (fixNeg q) (fixUnits k q), ?_, ?_⟩
  · rw [he]; exact fixed_numeral_read k _ _ hk
  · rw [he]; exact (fixed_decimal_roundtrip k _ _ hk hb hz).1

/-- floats written in full (`repr`: pre-1.0 beat times, seconds): the decimal the model carries is written
    and read back exactly, whenever it is written at all (positional range, terminating decimal) -/
theorem repr_roundtrip (q : Rat) (text : Str) (h : encRepr q = some text) : decode .float text = .ok (.dec q) := by
  simp only [decode, C07Float.encRepr_parse q text h, liftO, Except.map]

example : printFixed 4 true 12345 = "-1.2345".toList ∧ encFix 4 (1 / 32) = "0.0312".toList ∧
    encFix 4 (3 / 32) = "0.0938".toList ∧ encFix 4 (5 / 100000) = "0.0001".toList ∧
    encRepr (5 / 4) = some "1.25".toList ∧ encRepr 3 = some "3.0".toList := by decide +kernel

/-- **durations keep their value through the string round trip**: every duration the class builds - simple
    `n`, `n/d`, with tuplet divisor `n/d/t`, or additive `c₁+c₂+…` (`FracWF`: two or more components with
    non-zero numerator, numbers within the bound, the object being the left-to-right sum of its
    components) - is read back from its text as the SAME object, hence the same value and the same text -/
theorem frac_string_roundtrip (f : Frac) (h : C07Codec.FracWF f) : fracFromString f.toStr = .ok f :=
  C07Codec.fracFromString_toStr_full f h

/-- **formatting fixpoint of durations**: whatever text `s` was read as the duration `f` (no `+`-separated
    part of `s` being a zero duration - those are dropped from the components), `f` is well formed, so the
    text written for `f` is read as `f` again and written identically -/
theorem frac_string_fixpoint (s : Str) (f : Frac) (h : fracFromString s = .ok f)
    (hz : ∀ ps, (splitOn '+' s).mapM C07Codec.oneF = .ok ps → ∀ p ∈ ps, p.num ≠ 0) :
    fracFromString f.toStr = .ok f ∧ ((fracFromString f.toStr).toOption.map Frac.toStr) = some f.toStr := by
  have hw := C07Codec.frac_fixpoint s f h hz
  have := C07Codec.fracFromString_toStr_full f hw
  exact ⟨this, by rw [this]; rfl⟩

/-- reading `c₁+c₂+…`: the object is the left-to-right sum, it carries exactly the components, and its value
    is the exact sum of the component values (**duration addition is exact** along the whole chain) -/
theorem frac_additive_value (cs : List C07Codec.Comp) (h2 : 2 ≤ cs.length) (hc : ∀ c ∈ cs, C07Codec.CompOK c)
    (f : Frac) (h : fracFromString (C07Codec.compsStr cs) = .ok f) :
    f.add = some cs ∧ f.value = ((cs.map C07Codec.compFrac).map Frac.value).foldr (· + ·) 0 := by
  rw [C07Codec.fracFromString_compsStr cs h2 hc] at h
  refine ⟨C07Codec.fracSum_add cs h2 hc f h, ?_⟩
  rw [C07Codec.fracSum_eq] at h
  have := C07Codec.foldlM_value _ _ f h
  rw [this]
  simp [Frac.value, Frac.fullDen]

example : (fracFromString "1/4+1/8/3+3".toList).toOption.map Frac.toStr = some "1/4+1/8/3+3".toList := by
  decide +kernel
example : fracFromString (Frac.toStr ⟨7, 1, none, none⟩) = .ok ⟨7, 1, none, none⟩ ∧
    Frac.toStrRational ⟨7, 1, none, none⟩ = "7/1".toList := by decide +kernel
-- non-vacuity of `frac_string_roundtrip` / `frac_additive_value`: 1/4 + 1/8/3 + 3
example : C07Codec.compsStr [(1, 4, none), (1, 8, some 3), (3, 1, none)] = "1/4+1/8/3+3".toList ∧
    fracFromString "1/4+1/8/3+3".toList = .ok ⟨79, 24, none, some [(1, 4, none), (1, 8, some 3), (3, 1, none)]⟩ := by
  decide +kernel
-- a zero part is dropped: same text and value afterwards, but a different object (the excluded case of the fixpoint)
example : (fracFromString "0/3+1/4".toList).toOption.map (fun f => (f.num, f.den, f.toStr)) = some (3, 12, "1/4".toList) := by
  decide +kernel

/-- the format version written as `major.minor.patch` is read back as itself -/
theorem version_roundtrip (a b c : Nat) : decode .version (encVersion a b c) = .ok (.ver a b c) := by
  simp only [decode, C07Codec.decVersion_encVersion, liftO, Except.map]

/-- the pre-1.0 spelling `minor.patch` denotes version `0.minor.patch` (one formatting round, then a fixpoint) -/
example : decVersion "5.0".toList = some (0, 5, 0) ∧ encVersion 0 5 0 = "0.5.0".toList ∧
    decVersion "0.5.0".toList = some (0, 5, 0) := by decide +kernel

-- ---------------------------------------------------------------- attribute lists

/-- **attribute lists of any length**: a list of words (no comma, no blank) is read back from the text
    `format_list` writes - the empty list included.  (The single exception `[""]` has the same text as the
    empty list and is read as the empty list.) -/
theorem list_roundtrip (items : List Str) (hw : C07Codec.Words items) (hne : items ≠ [[]]) :
    decode .list (encList items) = .ok (.strs items) := by
  simp only [decode, C07Codec.decList_encList items hw hne]

/-- the same for the list fields whose brackets are literals of the line pattern (`ScoreAttributesList`,
    `AnnotationType`, `OrnamentType`, `RepeatEndType`, `Onsets`) -/
theorem list_body_roundtrip (items : List Str) (hw : C07Codec.Words items) (hne : items ≠ [[]])
    (hbr : ∀ x, items.head? = some x → x.head? ≠ some '[') :
    decode .list (encListBody items) = .ok (.strs items) := by
  simp only [decode, C07Codec.decList_encListBody items hw hne hbr]

example : decList "[]".toList = [] ∧ decList [] = [] ∧ decList "[staff1, s ,v1]".toList = ["staff1".toList, "s".toList, "v1".toList]
    ∧ encList [] = "[]".toList := by decide +kernel

-- ---------------------------------------------------------------- quoted strings, tempo, integer lists, time signatures

/-- pre-1.0 quoted strings (`'Sonata K. 331'`): a non-empty text without blanks at its ends is read back -/
theorem quoted_roundtrip (s : Str) (hs : strip s = s) (hne : s ≠ []) :
    decode .strOld (encQuoted s) = .ok (.str s) := by
  simp only [decode, C07Codec.decStrOld_encQuoted s hs hne]

example : encQuoted "it's a,b".toList = "'it's a,b'".toList ∧ decStrOld "'it's a,b'".toList = "it's a,b".toList := by
  decide +kernel

/-- tempo indication of 1.0.0 (`Lento ma non troppo`): one text without comma, not starting with `[` -/
theorem tempo_roundtrip (s : Str) (hs : strip s = s) (hne : s ≠ []) (hc : ∀ c ∈ s, c ≠ ',')
    (hb : s.head? ≠ some '[') : decode .tempo s = .ok (.tempo s) := by
  simp only [decode, C07Codec.decTempo_id s hs hne hc hb, liftO, Except.map]

/-- integer lists (`beatSubDivision` of 1.0.0 as `[2,3]`, the onsets of `ptime([…]).`), any length, any sign -/
theorem int_list_roundtrip (l : List Int) :
    decode .listInt (encList (l.map showIntS)) = .ok (.ints l) ∧
    decode .listInt (encListBody (l.map showIntS)) = .ok (.ints l) := by
  simp only [decode, C07Codec.decListInt_encList, C07Codec.decListInt_encListBody, liftO, Except.map, and_self]

/-- **time signatures** `n/d` (both within the bound) keep their value through the string round trip, in the
    plain form and in the list form of 0.4.0 / 0.5.0 (`[6/8]`, further components `[2/4,3/4]` included) -/
theorem tsig_roundtrip (t : TimeSig) (hn : t.num ≤ BOUND) (hd : t.den ≤ BOUND) (ho : ∀ f ∈ t.others, C07Codec.FracWF f) :
    (t.others = [] → decode .tsig (encTsig t) = .ok (.tsig t)) ∧ decode .tsig (encTsigList t) = .ok (.tsig t) := by
  constructor
  · intro he
    obtain ⟨n, d, o⟩ := t
    simp only at he hn hd
    subst he
    simp only [decode, C07Bound.decTsigB_of_ok _ _ (C07Codec.decTsig_encTsig n d hn hd), Except.map]
  · simp only [decode, C07Bound.decTsigB_of_ok _ _ (C07Codec.decTsig_encTsigList t hn hd ho), Except.map]

example : encTsigList ⟨2, 4, [⟨3, 4, none, none⟩]⟩ = "[2/4,3/4]".toList ∧
    decTsig "[2/4,3/4]".toList = .ok ⟨2, 4, [⟨3, 4, none, none⟩]⟩ := by decide +kernel

-- ---------------------------------------------------------------- every codec of the field tables

/-- **admissible values of a codec** (formatter, interpreter): the values its format version allows.
    Floats: `'%.kf'` fields hold a k-decimal number `±n / 10^k` with `n < 2^52` ("four-decimal beat times");
    `repr` fields hold any decimal `repr` writes positionally.  Keys: the 30 keys, and the 900 double keys in the spellings
    that have them.  The three pitch fields are not self-inverse codecs (`pitch_ok`, Props/C07Lines.lean). -/
def Adm : Enc → Dec → Val → Prop
  | .int, .int, .int _ => True
  | .strip, .str, .str s => strip s = s
  | .raw, .str, .str _ => True
  | .quoted, .strOld, .str s => strip s = s ∧ s ≠ []
  | .fix k, .float, .dec q => ∃ neg n, 1 ≤ k ∧ n < 2 ^ 52 ∧ (neg = true → 0 < n) ∧ q = fixedVal k neg n
  | .repr, .float, .dec q => (encRepr q).isSome = true
  | .frac, .frac, .frac f => C07Codec.FracWF f
  | .fracRational, .frac, .frac f => C07Codec.FracWF f ∧ (f.den = 1 ∧ f.tdiv = none → f.add = none)
  | .list, .list, .strs l => C07Codec.Words l ∧ l ≠ [[]]
  | .listBody, .list, .strs l => C07Codec.Words l ∧ l ≠ [[]] ∧ ∀ x, l.head? = some x → x.head? ≠ some '['
  | .list, .listInt, .ints _ => True
  | .listBody, .listInt, .ints _ => True
  | .version, .version, .ver _ _ _ => True
  | .key fmt, .key, .key k =>
    (fmt ∈ [KeyFmt.v100, KeyFmt.v030, KeyFmt.v010, KeyFmt.v030list] ∧ ∃ fm ∈ allKeys, k = key1 fm) ∨
      (fmt ∈ [KeyFmt.v100, KeyFmt.v030] ∧ ∃ a ∈ allKeys, ∃ b ∈ allKeys, k = key2 a b)
  | .tsig, .tsig, .tsig t => t.others = [] ∧ t.num ≤ BOUND ∧ t.den ≤ BOUND
  | .tsigList, .tsig, .tsig t => t.num ≤ BOUND ∧ t.den ≤ BOUND ∧ ∀ f ∈ t.others, C07Codec.FracWF f
  | .tempo, .tempo, .tempo s => strip s = s ∧ s ≠ [] ∧ (∀ c ∈ s, c ≠ ',') ∧ s.head? ≠ some '['
  | _, _, _ => False

theorem toStrRational_roundtrip (f : Frac) (h : C07Codec.FracWF f) (hr : f.den = 1 ∧ f.tdiv = none → f.add = none) :
    fracFromString f.toStrRational = .ok f := by
  unfold Frac.toStrRational
  by_cases hc : f.den = 1 ∧ f.tdiv = none
  · simp only [hc, and_self, if_true]
    have ha := hr hc
    obtain ⟨n, d, t, a⟩ := f
    simp only at hc ha
    obtain ⟨rfl, rfl⟩ := hc
    subst ha
    unfold C07Codec.FracWF at h
    simp only at h
    have e1 : showNatS 1 = ['1'] := by decide +kernel
    have e : showNatS n ++ ['/', '1'] = showNatS n ++ '/' :: showNatS 1 := by rw [e1]
    rw [e, C07Codec.fracFromString_eq, C07Codec.fracSimple_2]
    have h1 : ¬ (1024 < n) := by unfold BOUND at h; omega
    simp [Frac.mk?, h1, BOUND]
  · simp only [hc, if_false]
    exact C07Codec.fracFromString_toStr_full f h

/-- **every codec of the generated field tables is a round trip on its admissible values**: the value is
    written, and the text is read back as the same value (hence writing it again gives the identical
    text) -/
theorem codec_roundtrip (e : Enc) (d : Dec) (v : Val) (h : Adm e d v) :
    ∃ text, encode e v = some text ∧ decode d text = .ok v := by
  unfold Adm at h
  split at h
  · exact ⟨_, rfl, int_roundtrip _⟩
  · rename_i s
    exact ⟨strip s, rfl, by simp only [decode, h]⟩
  · exact ⟨_, rfl, rfl⟩
  · exact ⟨_, rfl, quoted_roundtrip _ h.1 h.2⟩
  · rename_i k q
    obtain ⟨neg, n, hk, hb, hz, hq⟩ := h
    subst hq
    exact ⟨_, rfl, (fixed_decimal_roundtrip k neg n hk hb hz).2⟩
  · rename_i q
    cases he : encRepr q with
    | none => rw [he] at h; simp at h
    | some text => exact ⟨text, by simp only [encode, he], repr_roundtrip q text he⟩
  · rename_i f
    exact ⟨f.toStr, rfl, by simp only [decode, C07Bound.fracFromStringB_of_ok _ _ (frac_string_roundtrip f h), Except.map]⟩
  · rename_i f
    exact ⟨f.toStrRational, rfl, by simp only [decode, C07Bound.fracFromStringB_of_ok _ _ (toStrRational_roundtrip f h.1 h.2), Except.map]⟩
  · rename_i l
    exact ⟨encList l, rfl, list_roundtrip l h.1 h.2⟩
  · rename_i l
    exact ⟨encListBody l, rfl, list_body_roundtrip l h.1 h.2.1 h.2.2⟩
  · rename_i l
    exact ⟨encList (l.map showIntS), rfl, (int_list_roundtrip l).1⟩
  · rename_i l
    exact ⟨encListBody (l.map showIntS), rfl, (int_list_roundtrip l).2⟩
  · rename_i a b c
    exact ⟨encVersion a b c, rfl, version_roundtrip a b c⟩
  · rename_i fmt k
    have key : (encKey fmt k).bind decKey = some (some k) := by
      rcases h with ⟨hf, fm, hfm, rfl⟩ | ⟨hf, a, ha, b, hb, rfl⟩
      · exact key_names fm hfm fmt hf
      · simp only [List.mem_cons, List.not_mem_nil, or_false] at hf
        rcases hf with rfl | rfl
        · exact key_pairs_v100 a ha b hb
        · exact key_pairs_v030 a ha b hb
    cases he : encKey fmt k with
    | none => rw [he] at key; simp at key
    | some text =>
      rw [he] at key
      simp only [Option.bind_some] at key
      exact ⟨text, he, by simp only [decode, key, liftO, Except.map]⟩
  · rename_i t
    obtain ⟨ho, hn, hd⟩ := h
    exact ⟨encTsig t, rfl, (tsig_roundtrip t hn hd (by rw [ho]; intro f hf; simp at hf)).1 ho⟩
  · rename_i t
    obtain ⟨hn, hd, ho⟩ := h
    exact ⟨encTsigList t, rfl, (tsig_roundtrip t hn hd ho).2⟩
  · rename_i s
    exact ⟨s, rfl, tempo_roundtrip s h.1 h.2.1 h.2.2.1 h.2.2.2⟩
  · exact absurd h id

-- non-vacuity: admissible values exist for the float codecs (model output evaluated), durations and keys
example : Adm (.fix 4) .float (.dec (5 / 4)) := ⟨false, 12500, by decide, by decide, by decide, by decide +kernel⟩
example : Adm .repr .float (.dec (-5 / 4)) := by
  show (encRepr (-5 / 4)).isSome = true
  decide +kernel
-- one formatting round for a float that is not a four-decimal number: 1/32 -> "0.0312" -> 0.0312 -> "0.0312"
example : encFix 4 (1 / 32) = "0.0312".toList ∧ fixUnits 4 (1 / 32) = 312 ∧ fixNeg (1 / 32) = false := by decide +kernel
example : Adm (.key .v030list) .key (.key (key1 (-3, .minor))) :=
  Or.inl ⟨by decide, (-3, .minor), by decide +kernel, rfl⟩

end C07
