/-
C10 (round 2) — the order of the element tables is no longer a trusted statement.

`time_signature_map`, `key_signature_map`, `clef_map`, `measure_map` build their tables from
`self.iter_all(cls)`.  Model/Timeline.lean (property C01) models the timeline under every edit history and
`C01.iterAll_correct` proves that `iter_all` yields exactly the registered objects of the class, in time order.
Here that result is carried to the tables of this property: in every state reachable by a valid history of
add / remove / set_quarter_duration / get_or_add_point operations the table of a class is in time order
(`SortedLE`, the only thing `lookup_spec` needs) and holds exactly one row per object of the class on the timeline;
hence the lookup returns the value of an object in force.
-/
import PartituraModel.Props.C01
import PartituraModel.Props.C10
import PartituraModel.Proofs.C10Part

namespace C10
open Model Model.StepMap TL

/-- the table a map builds from `iter_all(cls)`: `(o.start.t, value of o)` for every yielded object -/
def classTable {α : Type} (s : TL.Part) (cls : Nat) (val : ObjRef → α) : Tbl α :=
  (iterAll s (some cls) none none false .starting).filterMap fun o =>
    (getObj s.objs o).start.map fun t => (t, val o)

/-- in a consistent timeline state the table of a class is in time order and its rows are exactly the objects of
    that class registered as starting somewhere -/
theorem table_of_state {α : Type} {s : TL.Part} (hI : Inv s) (cls : Nat) (hc : cls < Gen.numClasses)
    (hk : ∀ e ∈ s.objs, e.ref.cls < Gen.numClasses) (val : ObjRef → α) :
    SortedLE (classTable s cls val) ∧
    (∀ t v, (t, v) ∈ classTable s cls val ↔
      ∃ o : ObjRef, o.cls = cls ∧ (getObj s.objs o).start = some t ∧ val o = v) ∧
    (classTable s cls val).length = (iterAll s (some cls) none none false .starting).length := by
  obtain ⟨_, hmem, hpw⟩ := C01.iterAll_correct hI (some cls) none none false .starting hk
    (by intro c h; injection h with h; rw [← h]; exact hc)
  have hside : Mode.starting.side = Side.start := rfl
  refine ⟨?_, ?_, ?_⟩
  · unfold SortedLE classTable
    apply List.Pairwise.filterMap _ _ hpw
    intro o1 o2 h r1 hr1 r2 hr2
    simp only [Option.map_eq_some_iff] at hr1 hr2
    obtain ⟨t1, ht1, rfl⟩ := hr1
    obtain ⟨t2, ht2, rfl⟩ := hr2
    exact h t1 t2 (by rw [hside]; exact ht1) (by rw [hside]; exact ht2)
  · intro t v
    unfold classTable
    rw [List.mem_filterMap]
    constructor
    · rintro ⟨o, ho, hrow⟩
      simp only [Option.map_eq_some_iff, Prod.mk.injEq] at hrow
      obtain ⟨t', ht', rfl, rfl⟩ := hrow
      obtain ⟨τ, _, _, hcs⟩ := (hmem o).mp ho
      exact ⟨o, by simpa [ClassSpec, inclEff] using hcs, ht', rfl⟩
    · rintro ⟨o, hcls, hst, rfl⟩
      refine ⟨o, (hmem o).mpr ⟨t, by rw [hside]; exact hst, ⟨by simp, by simp⟩, ?_⟩, ?_⟩
      · simp [ClassSpec, inclEff, hcls]
      · simp [hst]
  · unfold classTable
    apply length_filterMap_of_isSome
    intro o ho
    obtain ⟨τ, hτ, _, _⟩ := (hmem o).mp ho
    rw [hside] at hτ
    have hτ' : (getObj s.objs o).start = some τ := hτ
    simp [hτ']

/-- **`tables_sorted_any_history`**: after ANY valid edit history of the timeline (objects added, removed — by
    start, end or both —, re-added, quarter durations set, points requested, queries in between) the table a map
    builds from `iter_all(cls)` is in time order and holds exactly the objects of the class that are on the timeline -/
theorem tables_sorted_any_history {α : Type} (q : Nat) (ops : List Op) (hv : ValidHistory (Part.init q) ops)
    (cls : Nat) (hc : cls < Gen.numClasses)
    (hk : ∀ e ∈ (run (Part.init q) ops).objs, e.ref.cls < Gen.numClasses) (val : ObjRef → α) :
    SortedLE (classTable (run (Part.init q) ops) cls val) ∧
    (∀ t v, (t, v) ∈ classTable (run (Part.init q) ops) cls val ↔
      ∃ o : ObjRef, o.cls = cls ∧ (getObj (run (Part.init q) ops).objs o).start = some t ∧ val o = v) :=
  let h := table_of_state (C01.inv_reachable q ops hv) cls hc hk val
  ⟨h.1, h.2.1⟩

/-- … hence, after any valid history, the previous-value lookup on that table returns the value of an object of the
    class that is in force at `x` (greatest start ≤ x), and the first object's value before all of them -/
theorem in_force_any_history {α : Type} (q : Nat) (ops : List Op) (hv : ValidHistory (Part.init q) ops)
    (cls : Nat) (hc : cls < Gen.numClasses)
    (hk : ∀ e ∈ (run (Part.init q) ops).objs, e.ref.cls < Gen.numClasses) (val : ObjRef → α) (x : Int) :
    ((∃ e ∈ classTable (run (Part.init q) ops) cls val, e.1 ≤ x) →
      ∃ e, InForce (classTable (run (Part.init q) ops) cls val) x e ∧
        lookupPrev (classTable (run (Part.init q) ops) cls val) x = some e.2 ∧
        ∃ o : ObjRef, o.cls = cls ∧ (getObj (run (Part.init q) ops).objs o).start = some e.1 ∧ val o = e.2) ∧
    ((∀ e ∈ classTable (run (Part.init q) ops) cls val, x < e.1) →
      lookupPrev (classTable (run (Part.init q) ops) cls val) x
        = (classTable (run (Part.init q) ops) cls val).head?.map (·.2)) := by
  obtain ⟨hs, hm⟩ := tables_sorted_any_history q ops hv cls hc hk val
  obtain ⟨l1, l2⟩ := lookup_spec (classTable (run (Part.init q) ops) cls val) x hs
  refine ⟨?_, fun h => (l2 h).2⟩
  intro h
  obtain ⟨e, he, _, hl⟩ := l1 h
  exact ⟨e, he, hl, (hm e.1 e.2).mp he.1⟩

/-- non-vacuity: objects added out of time order, one removed and re-added at another time (it then comes last among
    the coincident ones), a quarter-duration change in between — the table is in time order -/
def exHistory : List Op :=
  [.add ⟨0, 2⟩ (some 8) none, .add ⟨1, 2⟩ (some 0) none, .add ⟨2, 2⟩ (some 4) (some 6), .add ⟨3, 5⟩ (some 1) none,
   .remove ⟨1, 2⟩ .both, .setQD 3 2, .add ⟨1, 2⟩ (some 8) none]

example : ValidHistory (Part.init 1) exHistory ∧ 2 < Gen.numClasses
    ∧ (∀ e ∈ (run (Part.init 1) exHistory).objs, e.ref.cls < Gen.numClasses)
    ∧ classTable (run (Part.init 1) exHistory) 2 (fun o => o.id) = [(4, 2), (8, 0), (8, 1)] := by decide +kernel

end C10
