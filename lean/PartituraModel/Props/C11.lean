/-
C11 — adding measures and tying notes normalise notation without changing what sounds.
-/
import PartituraModel.Model.Measures

namespace C11
open Model Model.Dur Model.Meas Gen

end C11
