/-
C11 — adding measures and tying notes normalise notation without changing what sounds.

Property theorems over Model/Durations.lean (estimator, split search) and Model/Measures.lean
(add_measures, tie_notes) and the regenerated duration tables.  Helper lemmas are in Proofs/C11*.lean.
-/
import PartituraModel.Proofs.C11Dur
import PartituraModel.Proofs.C11Split
import PartituraModel.Proofs.C11Tie
import PartituraModel.Proofs.C11Meas
import PartituraModel.Proofs.C11Walk

namespace C11
open Model Model.Dur Model.Meas Gen

/-! ### the duration tables -/

def sortedB (l : List Rat) : Bool := (l.zip l.tail).all fun p => decide (p.1 ≤ p.2)

/-- **table_consistent** (whole regenerated tables, kernel decision): `SYM_DURS[i]` lasts `DURS[i]` quarters;
    every straight value is the label's duration; every composite row sums to its `COMPOSITE_DURS` entry up to
    the binary64 rounding of that entry (2⁻⁵⁰); the three numeric tables are sorted (as `find_nearest` /
    `searchsorted` assume) -/
theorem table_consistent :
    (DURS.length = SYM_DURS.length ∧
      ∀ (i : Nat) (d : Rat) (sd : SymDur), DURS[i]? = some d → SYM_DURS[i]? = some sd → symbolicToNumeric sd 1 = some d) ∧
    (STRAIGHT_DURS.length = SYM_STRAIGHT_DURS.length ∧
      ∀ (k : Nat) (s : Rat) (ss : SymDur), STRAIGHT_DURS[k]? = some s → SYM_STRAIGHT_DURS[k]? = some ss → lookup ss.1 LABEL_DURS = some s) ∧
    (COMPOSITE_DURS.length = SYM_COMPOSITE_DURS.length ∧
      ∀ (j : Nat) (cf : Rat) (sc : List SymDur), COMPOSITE_DURS[j]? = some cf → SYM_COMPOSITE_DURS[j]? = some sc →
        ∃ c, numericSum sc 1 = some c ∧ |c - cf| ≤ 1 / 1125899906842624) ∧
    (sortedB DURS = true ∧ sortedB STRAIGHT_DURS = true ∧ sortedB COMPOSITE_DURS = true) :=
  ⟨⟨C11Dur.dur_rows.1, fun i d sd hd hs => (C11Dur.dur_row i d sd hd hs).1⟩,
   ⟨C11Dur.straight_rows.1, fun k s ss hd hs => (C11Dur.straight_row k s ss hd hs).1⟩,
   ⟨C11Dur.comp_rows.1, fun j cf sc hd hs =>
      let ⟨c, h1, h2, _⟩ := C11Dur.comp_row j cf sc hd hs; ⟨c, h1, h2⟩⟩,
   by decide +kernel⟩

/-! ### estimating and converting back -/

/-- **estimate_back**: for every integer duration and every divisions value, whatever single symbolic
    duration the (repaired) estimator answers lasts exactly the duration it was given -/
theorem estimate_back (dur div : Nat) (com : Bool) (sd : SymDur)
    (h : estimate (dur : Rat) div com = some (.single sd)) : symbolicToNumeric sd div = some (dur : Rat) :=
  C11Dur.estimate_back' dur div com sd h

/-- with `return_com_durations=True` the tied values of a composite answer add up to the duration
    (divisions up to 2⁴⁰: the composite table holds binary64 values) -/
theorem estimate_back_composite (dur div : Nat) (hdiv : 0 < div) (hbig : div ≤ 1099511627776) (com : Bool)
    (l : List SymDur) (h : estimate (dur : Rat) div com = some (.composite l)) : numericSum l div = some (dur : Rat) :=
  C11Dur.composite_back dur div hdiv hbig com l h

/-- the estimator always answers on integers: a value, a composite, or `{}` = "no single notated value"
    (the fuel of the tuplet guess suffices) -/
theorem estimate_total (dur div : Nat) (hdiv : 0 < div) (com : Bool) : ∃ e, estimate (dur : Rat) div com = some e :=
  C11Dur.estimate_total' dur div hdiv com

/-- without `return_com_durations` the answer is `{}` or a single value -/
theorem estimate_shape (dur : Rat) (div : Nat) (e : Est) (h : estimate dur div false = some e) :
    e = .empty ∨ ∃ sd, e = .single sd :=
  C11Dur.estimate_false_shape dur div e h

-- non-vacuity: a dotted quarter from the table, a triplet from the tuplet guess, a composite, no value
example : estimate 6 4 false = some (.single ("quarter", 1, none, none)) := by decide +kernel
example : estimate 4 6 false = some (.single ("quarter", 0, some 3, some 2)) := by decide +kernel
example : estimate 34 16 true = some (.composite [("half", 0, none, none), ("32nd", 0, none, none)]) := by decide +kernel
example : estimate 34 16 false = some .empty ∧ estimate 81 16 false = some .empty := by decide +kernel

/-- the defects repaired by C11-1 / C11-2, on the unrepaired matching rule in exact arithmetic:
    22 divisions at 960 per quarter were called a dotted 256th (which lasts 22.5), one division at 17 per quarter
    a triple-dotted 128th, and 1001 divisions at 251 per quarter a 336:334 tuplet of wholes -/
example : estimateOld 22 960 = some (.single ("256th", 1, none, none)) ∧
    symbolicToNumeric ("256th", 1, none, none) 960 = some (45 / 2) := by decide +kernel
example : estimateOld 1 17 = some (.single ("128th", 3, none, none)) ∧
    symbolicToNumeric ("128th", 3, none, none) 17 ≠ some 1 := by decide +kernel
example : estimateOld 1001 251 = some (.single ("whole", 0, some 336, some 334)) ∧
    symbolicToNumeric ("whole", 0, some 336, some 334) 251 ≠ some 1001 := by decide +kernel
-- the repaired rule on the same inputs
example : estimate 22 960 false = some (.single ("128th", 0, some 15, some 11)) ∧
    symbolicToNumeric ("128th", 0, some 15, some 11) 960 = some 22 := by decide +kernel

/-! ### the split search -/

/-- **split_sound**: for all start, end, divisions, split limits and fuel — an answer of `find_tie_split` tiles
    `[start, end)` with at most `max_splits + 1` (four, as `tie_notes` calls it) non-empty parts, each carrying
    one symbolic value that lasts exactly the part -/
theorem split_sound (start stop divs maxSplits fuel : Nat) (parts : List Piece)
    (h : findTieSplit start stop divs maxSplits fuel = .found parts) :
    C11Split.Tiles start stop parts ∧ parts ≠ [] ∧ parts.length ≤ maxSplits + 1 ∧
    ∀ p ∈ parts, ∃ sd, p.2.2 = .single sd ∧ symbolicToNumeric sd divs = some ((p.2.1 - p.1 : Nat) : Rat) :=
  C11Split.split_sound' start stop divs maxSplits fuel parts h

example : ∃ parts, findTieSplit 0 5 1 3 100 = .found parts ∧ parts.length = 2 :=
  ⟨[(0, 4, .single ("whole", 0, none, none)), (4, 5, .single ("quarter", 0, none, none))], by decide +kernel⟩

/-! ### adding measures -/

/-- **measures_tile**: for every bar-end map that answers later integer positions on integer positions, every
    part whose signatures are in time order inside a non-empty timeline and whose existing measures are in time
    order, non-empty, disjoint, inside the timeline and not straddling a signature change: after `add_measures`
    the measures are pairwise disjoint (in time order), non-empty, cover `[first, last)`, and the old ones are
    still there with their extents -/
theorem measures_tile (f : Rat → Nat → Option Rat) (hf : C11Meas.Integral f) (p : PartM) (fuel : Nat)
    (l : List (Nat × Nat × Nat)) (ms' : List Measure) (hok : C11Meas.TsOK p) (hl : stretches p = some l)
    (hex : C11Meas.ExistingOK p l) (h : addMeasuresWith f p fuel = .ok ms') :
    ms'.Pairwise (fun m m' => m.stop ≤ m'.start) ∧
    (∀ m ∈ ms', p.first ≤ m.start ∧ m.stop ≤ p.last) ∧
    (∀ t, p.first ≤ t → t < p.last → ∃ m ∈ ms', m.start ≤ t ∧ t < m.stop) ∧
    (p.measures.map C11Meas.ext).Sublist (ms'.map C11Meas.ext) := by
  obtain ⟨htn, hsub, _⟩ := C11Meas.add_measures_sound' f hf p fuel l ms' hok hl hex h
  obtain ⟨d1, d2⟩ := C11Meas.tn_disjoint _ _ _ _ _ htn
  exact ⟨d1, d2, C11Meas.tn_cover _ _ _ _ _ htn, hsub⟩

/-- **numbers_consecutive**: under the same hypotheses the measures, in time order, are numbered 1, 2, …, n -/
theorem numbers_consecutive (f : Rat → Nat → Option Rat) (hf : C11Meas.Integral f) (p : PartM) (fuel : Nat)
    (l : List (Nat × Nat × Nat)) (ms' : List Measure) (hok : C11Meas.TsOK p) (hl : stretches p = some l)
    (hex : C11Meas.ExistingOK p l) (h : addMeasuresWith f p fuel = .ok ms') :
    ∀ (i : Nat) (hi : i < ms'.length), (ms'[i]).number = some (1 + (i : Int)) :=
  (C11Meas.tn_numbers _ _ _ _ _ (C11Meas.add_measures_sound' f hf p fuel l ms' hok hl hex h).1).1

/-- **measure_lengths**: under the same hypotheses every measure afterwards is an old one (same extent) or was
    added inside a stretch `(tsStart, tsEnd, beats)` of one time signature and ends where the bar-end map puts the end
    of a full bar from its start (`w`), or earlier only because the stretch ends there (next signature change or
    end of the part) or an existing measure starts there -/
theorem measure_lengths (f : Rat → Nat → Option Rat) (hf : C11Meas.Integral f) (p : PartM) (fuel : Nat)
    (l : List (Nat × Nat × Nat)) (ms' : List Measure) (hok : C11Meas.TsOK p) (hl : stretches p = some l)
    (hex : C11Meas.ExistingOK p l) (h : addMeasuresWith f p fuel = .ok ms') :
    ∀ m ∈ ms', (∃ x ∈ p.measures, x.start = m.start ∧ x.stop = m.stop) ∨
      ∃ x ∈ l, ∃ w : Nat, f (m.start : Rat) x.2.2 = some (w : Rat) ∧ x.1 ≤ m.start ∧ m.start < x.2.1 ∧ m.stop ≤ w ∧
        m.stop ≤ x.2.1 ∧
        (m.stop = w ∨ m.stop = x.2.1 ∨ ∃ y ∈ p.measures, y.start = m.stop) := by
  intro m hm
  rcases (C11Meas.add_measures_sound' f hf p fuel l ms' hok hl hex h).2.2 m hm with ⟨x, hx, he⟩ | ⟨x, hx, hj⟩
  · left
    simp only [C11Meas.ext, Prod.mk.injEq] at he
    exact ⟨x, hx, he.1, he.2⟩
  · right; exact ⟨x, hx, hj⟩

/-- `add_measures` is that loop over C02's beat maps -/
theorem addMeasures_eq (p : PartM) (fuel : Nat) : addMeasures p fuel = addMeasuresWith (barEnd p) p fuel := rfl

/-- a part without time signature, or with an empty timeline, is left alone -/
theorem addMeasures_noop (f : Rat → Nat → Option Rat) (p : PartM) (fuel : Nat)
    (h : p.ts = [] ∨ p.first = p.last) : addMeasuresWith f p fuel = .ok p.measures := by
  unfold addMeasuresWith
  rcases h with h | h
  · simp [h]
  · simp [h]

-- non-vacuity: bars of 4 over [0, 10) in two stretches, one existing measure [5, 7) numbered 9
def exF : Rat → Nat → Option Rat := fun pos beats => some (pos + (beats : Rat))
def exPart : PartM :=
  { first := 0, last := 10, npoints := 5, qd := [(0, 1)], ts := [⟨0, 4, 4, 4⟩, ⟨7, 2, 4, 2⟩],
    measures := [⟨5, 7, some 9⟩] }

example : stretches exPart = some [(0, 7, 4), (7, 10, 2)] ∧
    addMeasuresWith exF exPart 50 =
      .ok [⟨0, 4, some 1⟩, ⟨4, 5, some 2⟩, ⟨5, 7, some 3⟩, ⟨7, 9, some 4⟩, ⟨9, 10, some 5⟩] := by
  decide +kernel

example : C11Meas.TsOK exPart := ⟨by decide, by decide, by decide, by decide⟩
example : C11Meas.ExistingOK exPart [(0, 7, 4), (7, 10, 2)] :=
  ⟨(C11Meas.td_cons ..).mpr ⟨by decide, by decide, trivial⟩, by decide, by decide⟩

/-! ### tying notes -/

/-- **tie_sound_same**: the chain that `tie_notes` puts in place of a note cut at the following measure starts
    (any list of measure starts) sounds the same — onset, summed duration, pitch, voice — and is a well-formed
    tie chain: contiguous, linked both ways, of one pitch/voice/staff, keeping the note's identity and back
    link at its head and handing the forward tie and the stopping slurs to its last member.
    By induction over the split list; `ps` may be any tiling of the note (also the one `split_note` gets). -/
theorem tie_sound_same (orig : Note) (base : Nat) (ps : List (Nat × Nat × Option Est)) (hne : ps ≠ [])
    (ht : C11Tie.PTiles orig.start orig.stop ps) :
    C11Tie.chainRow (mkChain orig base ps) = some (C11Tie.noteRow orig) ∧
    C11Tie.ChainSpec orig orig.start orig.stop orig.tiePrev orig.key orig.id ps (mkChain orig base ps) :=
  C11Tie.mkChain_sound orig base ps hne ht

/-- the pieces stage 1 of `tie_notes` uses do tile the note, for every list of measure starts -/
theorem tie_pieces_tile (f : Nat × Nat → Option Est) (ms : List Nat) (start stop : Nat) (h : start < stop) :
    C11Tie.PTiles start stop ((pieceBounds start stop (cutPoints start stop ms)).map fun b => (b.1, b.2, f b)) :=
  C11Tie.cutPoints_tiles f ms start stop h

/-- **every pitched note lies within one measure**: with the measure starts in time order no measure starts
    strictly inside a piece -/
theorem pieces_within_measures (ms : List Nat) (start stop : Nat) (hs : ms.Pairwise (· ≤ ·)) :
    ∀ b ∈ pieceBounds start stop (cutPoints start stop ms), ∀ m ∈ ms, ¬ (b.1 < m ∧ m < b.2) :=
  C11Tie.cutPoints_no_inner ms start stop hs

/-- **symdur_assigned**: a symbolic duration `tie_notes` stores on a piece lasts exactly the piece -/
theorem symdur_assigned (dur div : Nat) (sd : SymDur) (h : estimateI dur div = .single sd) :
    symbolicToNumeric sd div = some (dur : Rat) := by
  unfold estimateI at h
  split at h
  · rename_i e he
    subst h
    exact estimate_back dur div false sd he
  · cases h

/-- stage 2 of `tie_notes` never fires: `symbolic_duration` is never `None` for a note in a part, because
    `estimate_symbolic_duration` answers `{}` where it used to answer `None` (reported, not repaired) -/
theorem stage2_dead (qd : List (Int × Nat)) (ns : List Note) : tieStage2 qd ns = ns := by
  have h1 : ∀ (ns : List Note) (k : Nat), tieTwo qd ns k = ns := by
    intro ns k
    unfold tieTwo
    split
    · rfl
    · have : ∀ n : Note, (symbolicDuration qd n).isNone = false := by
        intro n; unfold symbolicDuration; split <;> rfl
      simp [this]
  unfold tieStage2
  generalize ns.map (·.key) = ks
  induction ks generalizing ns with
  | nil => rfl
  | cons k ks ih => rw [List.foldl_cons, h1]; exact ih ns

/-- **tie_notes_sound_same** (list level): for every note list and every part, after `tie_notes` every tie chain
    that could be walked before (`Walk` = the recursion of `duration_tied` / `end_tied`) has the same summed
    duration and the same end, and every note is still found under its key with the same onset, pitch, voice,
    staff and id; a note that had a `tie_prev` (is not a row of the note array) still has one -/
theorem tie_notes_sound_same (p : PartM) (ns : List Note) :
    (∀ x d e, C11Walk.Walk ns x d e → C11Walk.Walk (tieNotes p ns) x d e) ∧ C11Walk.RowKept ns (tieNotes p ns) := by
  unfold tieNotes
  rw [stage2_dead]
  exact C11Walk.tieStage1_sound p.qd (p.measures.map (·.start)) ns

/-- for the same reason `find_tuplets` finds no candidate group and changes nothing -/
theorem tuplet_candidates_empty (qd : List (Int × Nat)) (ns : List Note) : tupletCandidates qd ns = [] := by
  unfold tupletCandidates
  have : ∀ n : Note, (symbolicDuration qd n).isNone = false := by
    intro n; unfold symbolicDuration; split <;> rfl
  simp only [this]
  induction ns with
  | nil => rfl
  | cons n ns ih => simpa using ih

/-- **sanitize_sound_same**: on a note list whose tie links all join adjacent notes (what `tie_notes` produces,
    `tie_sound_same`), the tie check of `sanitize_part` removes nothing, whatever the tolerance -/
theorem sanitize_sound_same (ns : List Note) (tol : Nat) (hc : C11Walk.ContigAll ns) : sanitizeTies ns tol = ns :=
  C11Walk.sanitize_noop ns tol hc

-- non-vacuity: the witness of C11-3 — a note [0, 6) tied to [6, 8), bars of 4: the chain 0 → 2 → 1 still lasts 8
def exA : Note := { key := 0, id := some "n0", start := 0, stop := 6, pitch := "C_0_4", voice := some 1, staff := some 1,
                    sym := none, tiePrev := none, tieNext := some 1, slurStops := [] }
def exB : Note := { key := 1, id := some "n1", start := 6, stop := 8, pitch := "C_0_4", voice := some 1, staff := some 1,
                    sym := none, tiePrev := some 0, tieNext := none, slurStops := [] }
def exTiePart : PartM := { first := 0, last := 8, npoints := 3, qd := [(0, 1)], ts := [⟨0, 4, 4, 4⟩],
                           measures := [⟨0, 4, some 1⟩, ⟨4, 8, some 2⟩] }

example : C11Walk.Walk [exA, exB] 0 8 8 :=
  C11Walk.Walk.step 0 exA 1 2 8 rfl rfl (C11Walk.Walk.last 1 exB rfl rfl)

example : C11Walk.ContigAll [exA, exB] := by
  intro n hn
  simp only [List.mem_cons, List.not_mem_nil, or_false] at hn
  rcases hn with rfl | rfl
  · refine ⟨by decide, ?_⟩
    intro t nx ht hf
    have : t = 1 := by simpa [exA] using ht.symm
    subst this
    have : nx = exB := by simpa [exA, exB] using hf.symm
    subst this; rfl
  · refine ⟨by decide, ?_⟩
    intro t nx ht _
    simp [exB] at ht

example : (tieNotes exTiePart [exA, exB]).map (fun n => (n.key, n.start, n.stop, n.tiePrev, n.tieNext)) =
    [(0, 0, 4, none, some 2), (2, 4, 6, some 0, some 1), (1, 6, 8, some 2, none)] := by decide +kernel

-- non-vacuity: a note [0, 10) cut at the measure starts 4 and 8
example : cutPoints 0 10 [0, 4, 8, 12] = [4, 8] ∧ pieceBounds 0 10 [4, 8] = [(0, 4), (4, 8), (8, 10)] := by decide

end C11
