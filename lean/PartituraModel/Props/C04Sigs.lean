/-
C04 — time signatures, key signatures and tempo marks of the written file stand at the ticks of their
musical positions (`Model.ScoreMidi.saveScoreMidi`, tied to `save_score_midi` by harness/props/c04.py).

The written tick of position `t` of part `x` is `tick ppq x.base o t`; by `C04.export_ticks_exact` it is the
exact image `ppq * (quarter(t) - origin)` for `shift` / `time_sig_change` (and for `pad_bar` under the
hypothesis of `export_ticks_exact_pad_partial`); `pad_bar_offset` states how `pad_bar` moves every tick.
Helper lemmas: Proofs/C04Meta.lean, Proofs/C04Export.lean.
-/
import PartituraModel.Props.C04Export

namespace C04
open Model Model.Ticks Model.MidiPair Model.MidiModes Model.ScoreMidi

/-- Key signatures, every policy: the key signature events of track `tr` are, as a multiset, the key signatures
    of the parts that have a note in the track, each at the written tick of its position (`trackKS`, `ksImages`). -/
theorem key_signature_positions (mode : Nat) (a : Anacrusis) (minPpq vel : Nat) (parts : List PartIn) (ex : Exported)
    (h : saveScoreMidi mode a minPpq vel parts = some ex) :
    ∃ o tcs, origin a (parts.map (·.base)) = some o ∧ mapToTrackChannel mode (noteKeys parts) = some tcs ∧
      ∀ tr (htr : tr < ex.tracks.length),
        (ex.tracks[tr].filter C04D.isKS).Perm (trackKS ex.ppq o ((noteKeys parts).zip tcs) parts tr) := by
  obtain ⟨o, metas, tcs, n, ho, hm, htc, hn, rfl⟩ := C04E.save_inv mode a minPpq vel parts ex h
  refine ⟨o, tcs, ho, htc, ?_⟩
  intro tr htr
  simp only [List.getElem_map, List.getElem_range]
  refine (C04E.exportTrack_filter C04D.isKS C04E.isKS_note _ _ _ _ _ _).trans ?_
  have hT : (C04E.trackTempos (exportTempos (C04E.tkOf (exportPpq parts minPpq) o) parts) tr).filter C04D.isKS = [] := by
    rw [List.filter_eq_nil_iff]
    intro x hx
    have := (C04E.trackTempos_kind _ tr).1 x hx
    obtain ⟨t, m⟩ := x
    cases m <;> simp_all [C04D.isKS, C04D.isTempo]
  rw [hT, List.nil_append]
  exact C04E.trackMetas_filter a _ parts metas hm _ tr C04D.isKS
    (fun x => ksImages x (tick (exportPpq parts minPpq) x.base o))
    (fun x d hd => C04D.partMetas_ks a x _ d hd)

/-- Time signatures, `shift` and `pad_bar`: the time signature events of track `tr` are, as a multiset, the time
    signatures of the parts that have a note in the track, each at the written tick of its position — except that
    `pad_bar` writes the first time signature of a part at tick 0 (`trackTS`, `tsImages`). -/
theorem time_signature_positions (mode : Nat) (a : Anacrusis) (minPpq vel : Nat) (parts : List PartIn) (ex : Exported)
    (h : saveScoreMidi mode a minPpq vel parts = some ex) (ha : a ≠ .timeSigChange) :
    ∃ o tcs, origin a (parts.map (·.base)) = some o ∧ mapToTrackChannel mode (noteKeys parts) = some tcs ∧
      ∀ tr (htr : tr < ex.tracks.length),
        (ex.tracks[tr].filter C04D.isTS).Perm (trackTS a ex.ppq o ((noteKeys parts).zip tcs) parts tr) := by
  obtain ⟨o, metas, tcs, n, ho, hm, htc, hn, rfl⟩ := C04E.save_inv mode a minPpq vel parts ex h
  refine ⟨o, tcs, ho, htc, ?_⟩
  intro tr htr
  simp only [List.getElem_map, List.getElem_range]
  refine (C04E.exportTrack_filter C04D.isTS C04E.isTS_note _ _ _ _ _ _).trans ?_
  have hT : (C04E.trackTempos (exportTempos (C04E.tkOf (exportPpq parts minPpq) o) parts) tr).filter C04D.isTS = [] := by
    rw [List.filter_eq_nil_iff]
    intro x hx
    have := (C04E.trackTempos_kind _ tr).1 x hx
    obtain ⟨t, m⟩ := x
    cases m <;> simp_all [C04D.isTS, C04D.isTempo]
  rw [hT, List.nil_append]
  exact C04E.trackMetas_filter a _ parts metas hm _ tr C04D.isTS
    (fun x => tsImages a x (tick (exportPpq parts minPpq) x.base o))
    (fun x d hd => C04D.partMetas_ts a ha x _ d hd)

/-- Time signatures, `time_sig_change` (the policy rewrites the signatures of irregular measures by design):
    for a part with a note in track `tr`, every time signature of the part that does not start an irregular
    measure (`C04D.irregular`: length in beats different from the signature in force) is written in the track at
    the tick of its position; and every time signature event of the track stands at the written tick of a time
    signature, a measure start or a measure end of such a part. -/
theorem time_sig_change_positions (mode : Nat) (minPpq vel : Nat) (parts : List PartIn) (ex : Exported)
    (h : saveScoreMidi mode .timeSigChange minPpq vel parts = some ex) :
    ∃ o tcs, origin .timeSigChange (parts.map (·.base)) = some o ∧ mapToTrackChannel mode (noteKeys parts) = some tcs ∧
      ∀ tr (htr : tr < ex.tracks.length),
        (∀ xi ∈ parts.zipIdx, (tracksOfPart ((noteKeys parts).zip tcs) xi.2).contains tr = true →
          ∀ ts ∈ xi.1.base.ts, ts.1 ∉ (xi.1.measures.filter (C04D.irregular xi.1.base)).map (·.1) →
            (tick ex.ppq xi.1.base o ts.1, Msg.timeSig ts.2.1 ts.2.2) ∈ ex.tracks[tr]) ∧
        (∀ e ∈ ex.tracks[tr], C04D.isTS e = true →
          ∃ xi ∈ parts.zipIdx, (tracksOfPart ((noteKeys parts).zip tcs) xi.2).contains tr = true ∧
            ((∃ ts ∈ xi.1.base.ts, e.1 = tick ex.ppq xi.1.base o ts.1) ∨
             ∃ m ∈ xi.1.measures, e.1 = tick ex.ppq xi.1.base o m.1 ∨ e.1 = tick ex.ppq xi.1.base o m.2)) := by
  obtain ⟨o, metas, tcs, n, ho, hm, htc, hn, rfl⟩ := C04E.save_inv mode .timeSigChange minPpq vel parts ex h
  refine ⟨o, tcs, ho, htc, ?_⟩
  intro tr htr
  simp only [List.getElem_map, List.getElem_range]
  have hmemTS : ∀ e, C04D.isTS e = true →
      (e ∈ exportTrack (exportTempos (C04E.tkOf (exportPpq parts minPpq) o) parts) metas
        (exportRecs (C04E.tkOf (exportPpq parts minPpq) o) parts) ((noteKeys parts).zip tcs) vel tr ↔
       e ∈ trackMetas metas ((noteKeys parts).zip tcs) tr) := by
    intro e he
    have hp := C04E.exportTrack_filter C04D.isTS C04E.isTS_note
      (exportTempos (C04E.tkOf (exportPpq parts minPpq) o) parts) metas
      (exportRecs (C04E.tkOf (exportPpq parts minPpq) o) parts) ((noteKeys parts).zip tcs) vel tr
    have hT : (C04E.trackTempos (exportTempos (C04E.tkOf (exportPpq parts minPpq) o) parts) tr).filter C04D.isTS = [] := by
      rw [List.filter_eq_nil_iff]
      intro x hx
      have := (C04E.trackTempos_kind _ tr).1 x hx
      obtain ⟨t, m⟩ := x
      cases m <;> simp_all [C04D.isTS, C04D.isTempo]
    rw [hT, List.nil_append] at hp
    have := hp.mem_iff (a := e)
    simp only [List.mem_filter, he, and_true] at this
    exact this
  constructor
  · intro xi hxi hc ts hts hirr
    rw [hmemTS _ rfl]
    obtain ⟨e, he, d, hd, rfl⟩ := C04E.forall₂_mem_left (C04E.exportMetas_spec _ _ parts metas hm) xi hxi
    rw [C04E.mem_trackMetas _ _ parts metas hm]
    exact ⟨xi, hxi, hc, d, hd, (C04D.partMetas_tsc xi.1 _ d hd).2.2.1 ts hts hirr⟩
  · intro e he hts
    rw [hmemTS e hts, C04E.mem_trackMetas _ _ parts metas hm] at he
    obtain ⟨xi, hxi, hc, d, hd, hx⟩ := he
    exact ⟨xi, hxi, hc, (C04D.partMetas_tsc xi.1 _ d hd).2.2.2 e hx hts⟩

/-- Tempo marks: only the first track holds tempo events, one per entry of the exporter's `tempos` dict (`trackTempo`);
    the dict has one entry per tick; every entry is a tempo mark of some part at the written tick of its position
    (or the default tempo 500000 at tick 0); and the tick of every tempo mark of every part has an entry
    (when two marks share a tick the dict keeps the one read last). -/
theorem tempo_positions (mode : Nat) (a : Anacrusis) (minPpq vel : Nat) (parts : List PartIn) (ex : Exported)
    (h : saveScoreMidi mode a minPpq vel parts = some ex) :
    ∃ o, origin a (parts.map (·.base)) = some o ∧
      (∀ tr (htr : tr < ex.tracks.length),
        (ex.tracks[tr].filter C04D.isTempo).Perm (trackTempo ex.ppq o parts tr)) ∧
      ((exportTempos (fun x t => tick ex.ppq x.base o t) parts).map (·.1)).Nodup ∧
      (∀ e ∈ exportTempos (fun x t => tick ex.ppq x.base o t) parts,
        e = (0, 500000) ∨ ∃ x ∈ parts, ∃ tp ∈ x.tempos, e = (tick ex.ppq x.base o tp.1, tp.2)) ∧
      (∀ x ∈ parts, ∀ tp ∈ x.tempos,
        tick ex.ppq x.base o tp.1 ∈ (exportTempos (fun x t => tick ex.ppq x.base o t) parts).map (·.1)) := by
  obtain ⟨o, metas, tcs, n, ho, hm, htc, hn, rfl⟩ := C04E.save_inv mode a minPpq vel parts ex h
  have inv := C04D.exportTempos_inv (C04E.tkOf (exportPpq parts minPpq) o) parts
  refine ⟨o, ho, ?_, inv.nodup, inv.src, inv.cov⟩
  intro tr htr
  simp only [List.getElem_map, List.getElem_range]
  refine (C04E.exportTrack_filter C04D.isTempo C04E.isTempo_note _ _ _ _ _ _).trans ?_
  have hM : (trackMetas metas ((noteKeys parts).zip tcs) tr).filter C04D.isTempo = [] := by
    rw [List.filter_eq_nil_iff]
    intro x hx
    obtain ⟨t, m⟩ := x
    rcases C04E.trackMetas_kinds a _ parts metas hm _ tr _ hx with h' | h' <;>
      cases m <;> simp_all [C04D.isKS, C04D.isTS, C04D.isTempo]
  rw [hM, List.append_nil, List.filter_eq_self.mpr (C04E.trackTempos_kind _ tr).1]
  exact List.Perm.refl _

/-- Several tempo marks on one tick: the first track holds exactly one tempo event on that tick, with the value of
    the mark read last (part after part, mark after mark: `C04D.lastMark` of `C04D.allMarks`). -/
theorem tempo_last_wins (mode : Nat) (a : Anacrusis) (minPpq vel : Nat) (parts : List PartIn) (ex : Exported)
    (h : saveScoreMidi mode a minPpq vel parts = some ex) :
    ∃ o, origin a (parts.map (·.base)) = some o ∧ ∃ h0 : 0 < ex.tracks.length,
      ∀ t v, C04D.lastMark (C04D.allMarks (fun x t => tick ex.ppq x.base o t) parts) t = some v →
        (t, Msg.tempo v) ∈ ex.tracks[0] ∧ ∀ v', (t, Msg.tempo v') ∈ ex.tracks[0] → v' = v := by
  obtain ⟨o, ho, hperm, hnd, _, _⟩ := tempo_positions mode a minPpq vel parts ex h
  obtain ⟨o', metas, tcs, n, ho', hm, htc, hn, hex⟩ := C04E.save_inv mode a minPpq vel parts ex h
  rw [ho] at ho'
  cases ho'
  have h0 : 0 < ex.tracks.length := by
    rw [hex]
    simp only [Option.map_eq_some_iff] at hn
    obtain ⟨m, _, rfl⟩ := hn
    simp
  refine ⟨o, ho, h0, ?_⟩
  intro t v hlast
  have hl := C04D.exportTempos_last (fun x t => tick ex.ppq x.base o t) parts t v hlast
  have hmem := C04E.lookup_mem _ _ _ hl
  have hp := hperm 0 h0
  simp only [trackTempo, ↓reduceIte] at hp
  have key : ∀ w, (t, Msg.tempo w) ∈ ex.tracks[0] ↔ (t, w) ∈ exportTempos (fun x t => tick ex.ppq x.base o t) parts := by
    intro w
    have := hp.mem_iff (a := (t, Msg.tempo w))
    simp only [List.mem_filter, C04D.isTempo, and_true, List.mem_map] at this
    rw [this]
    constructor
    · rintro ⟨e, he, hx⟩
      simp only [Prod.mk.injEq, Msg.tempo.injEq] at hx
      obtain ⟨rfl, rfl⟩ := hx
      exact he
    · intro he
      exact ⟨(t, w), he, rfl⟩
  refine ⟨(key v).mpr hmem, ?_⟩
  intro v' hv'
  have hmem' := (key v').mp hv'
  -- one entry per tick
  have : ∀ (d : List (Int × Nat)), (d.map (·.1)).Nodup → (t, v) ∈ d → (t, v') ∈ d → v' = v := by
    intro d
    induction d with
    | nil => intro _ h1; simp at h1
    | cons e rest ih =>
      intro hnd' h1 h2
      simp only [List.map_cons, List.nodup_cons] at hnd'
      rcases List.mem_cons.mp h1 with a1 | a1 <;> rcases List.mem_cons.mp h2 with a2 | a2
      · rw [← a1] at a2
        exact (Prod.mk.inj a2).2
      · rw [← a1] at hnd'
        exact absurd (show t ∈ rest.map (·.1) from List.mem_map.mpr ⟨(t, v'), a2, rfl⟩) hnd'.1
      · rw [← a2] at hnd'
        exact absurd (show t ∈ rest.map (·.1) from List.mem_map.mpr ⟨(t, v), a1, rfl⟩) hnd'.1
      · exact ih hnd'.2 a1 a2
  exact this _ hnd hmem hmem'

/-- non-vacuity: two marks on tick 6 (the second wins), one on tick 0 -/
example : C04D.lastMark [(0, 500000), (6, 400000), (6, 300000)] 6 = some 300000 := by decide +kernel

/-- `pad_bar` moves every tick of the file by one constant: with origins `oS` (`shift`) and `oP` (`pad_bar`),
    the exact tick image of every position of every part under `pad_bar` is its image under `shift` plus
    `ppq * (oS - oP)` — the bar of the first time signature minus the pickup, in ticks.  When both images are
    whole numbers the written ticks differ by that constant as integers. -/
theorem pad_bar_offset (P : Nat) (oS oP : Rat) (b : TimeBase) (t : Nat) :
    toTick P b oP t = toTick P b oS t + (P : Rat) * (oS - oP) ∧
    (∀ zS zP : Int, toTick P b oS t = (zS : Rat) → toTick P b oP t = (zP : Rat) →
      ((tick P b oP t - tick P b oS t : Int) : Rat) = (P : Rat) * (oS - oP)) := by
  constructor
  · unfold toTick; ring
  · intro zS zP hS hP
    unfold tick
    rw [hS, hP, Round.roundHalfEven_int, Round.roundHalfEven_int, Int.cast_sub, ← hS, ← hP]
    unfold toTick; ring

/-- non-vacuity: a one-quarter pickup in 4/4, three divisions per quarter, ppq 6: `shift` origin -1, `pad_bar`
    origin -4, every tick moves by 18 -/
example : origin .shift [(⟨3, [], 0, 15, some (0, 3), [(0, 4, 4)]⟩ : TimeBase)] = some (-1) ∧
    origin .padBar [(⟨3, [], 0, 15, some (0, 3), [(0, 4, 4)]⟩ : TimeBase)] = some (-4) ∧
    tick 6 ⟨3, [], 0, 15, some (0, 3), [(0, 4, 4)]⟩ (-4) 5 - tick 6 ⟨3, [], 0, 15, some (0, 3), [(0, 4, 4)]⟩ (-1) 5 = 18 := by
  refine ⟨by decide +kernel, by decide +kernel, by decide +kernel⟩

/-- non-vacuity of the position theorems on `demoScore` (both parts in track 0): the events of the track -/
example :
    (saveScoreMidi 1 .shift 0 64 demoScore).map (fun ex => ex.tracks.map fun t => t.filter C04D.isKS) =
      some [[(0, .keySig "C"), (0, .keySig "C")]] ∧
    (saveScoreMidi 1 .shift 0 64 demoScore).map (fun ex => ex.tracks.map fun t => t.filter C04D.isTS) =
      some [[(0, .timeSig 4 4), (0, .timeSig 4 4)]] ∧
    (saveScoreMidi 1 .shift 0 64 demoScore).map (fun ex => ex.tracks.map fun t => t.filter C04D.isTempo) =
      some [[(0, .tempo 500000)]] := by
  refine ⟨by decide +kernel, by decide +kernel, by decide +kernel⟩

end C04
