/-
C10 (round 5) — "every part": the part an edit history leaves.

Model/StepMapHist.lean models `Part.add` / `Part.remove` / re-adding / `use_musical_beat` / `use_notated_beat` /
`set_musical_beat_per_ts` / `set_quarter_duration` on the elements the six maps read, and `describe`: what the
maps read of the result (compared with the state of the real part after every generated history: request `hist`).
Over ALL histories (induction on the list of operations):

  * a query of the maps changes nothing; a history with queries interleaved leaves the part of the history without
    them (`query_is_noop`, `queries_do_not_matter`);
  * the tables the maps build are in time order, coincident elements in the order they were added, a re-added
    element last (`tables_in_time_order`, `coincident_in_insertion_order`, `seq_below_clock`, `readd_is_latest`) -
    the hypotheses of `lookup_spec` / `*_coincident`, here derived inside this model;
  * `use_notated_beat` resets the musical beats of the signatures ON the timeline to the default table and leaves a
    removed signature alone (`use_notated_resets`, `beat_ops_skip_removed`);
  * **`rebuild_same_tables`**: building a fresh part from what is on the timeline (elements kind by kind in table
    order, with their stored musical beats, then the beat mode) gives the same tables, time points and beat mode -
    and, when the quarter-duration table is reproduced, the same description, hence the same six maps: the maps
    depend on what is on the timeline now, not on how it got there.
  * round 6: the table IS reproduced whenever it has no redundant entry (`rebuild_qd_normal`,
    `rebuild_same_description_normal`, `rebuild_any_history_normal`; `qd_head_zero`: the table of every history
    starts at 0, which is what the harness's fresh build `Part(quarter_duration = first value)` relies on);
    `rebuild_same_maps`: the signature / key / clef maps of the fresh build are the same functions for EVERY history
    and table, the three measure maps as soon as `divs_per_beat` is the same.
-/
import PartituraModel.Proofs.C10Hist
import PartituraModel.Proofs.C10Part
import PartituraModel.Props.C10Order
import PartituraModel.Props.C10Part

namespace C10
open Model Model.StepMap

/-! ### queries -/

/-- building and calling the maps does not change the part (nothing is cached) -/
theorem query_is_noop (s : HPart) : hpStep s .query = s := rfl

def HistOp.isQuery : HistOp → Bool
  | .query => true
  | _ => false

/-- **`queries_do_not_matter`**: interleaving queries with the edits leaves the same part -/
theorem queries_do_not_matter (q0 : Nat) (ops : List HistOp) :
    hpRun q0 ops = hpRun q0 (ops.filter fun o => !HistOp.isQuery o) := by
  unfold hpRun
  generalize hpInit q0 = s
  induction ops generalizing s with
  | nil => rfl
  | cons op rest ih =>
    cases op <;> simp [HistOp.isQuery, ih, hpStep]

/-! ### the order of the tables -/

/-- **`tables_in_time_order`**: after any history the tables the maps build are in time order (the hypothesis of
    `lookup_spec` and of the `*_coincident` theorems) -/
theorem tables_in_time_order (s : HPart) :
    SortedLE (tsTbl (describe s).part.ts) ∧ SortedLE (describe s).kss ∧ SortedLE (describe s).clefs
    ∧ (describe s).part.ms.Pairwise (fun a b => a.1 ≤ b.1) := by
  have hl := liveSorted_sorted s
  refine ⟨?_, ?_, ?_, ?_⟩
  · have := pairwise_filterMap_key (fun o : HObj => o.t) (fun y : TimeMap.TSig => y.t) tsKey tsKey_t _ hl
    unfold SortedLE tsTbl
    rw [List.pairwise_map]
    exact this
  · exact pairwise_filterMap_key (fun o : HObj => o.t) (fun y : Int × Int × Mode => y.1) ksKey ksKey_t _ hl
  · exact pairwise_filterMap_key (fun o : HObj => o.t) (fun y : RawClef => y.1) clefKey clefKey_t _ hl
  · exact pairwise_filterMap_key (fun o : HObj => o.t) (fun y : Int × Int × Option Int => y.1) msKey msKey_t _ hl

/-- **`coincident_in_insertion_order`**: the elements on the timeline are read in time order, those of one time in the
    order they were (last) added -/
theorem coincident_in_insertion_order (s : HPart) :
    (liveSorted s).Pairwise fun a b => a.t < b.t ∨ (a.t = b.t ∧ a.seq ≤ b.seq) :=
  (liveSorted_lex s).imp fun h => by
    rcases h with h | ⟨h1, h2⟩
    · exact Or.inl h
    · exact Or.inr ⟨h1, by omega⟩

/-- **`seq_below_clock`**: every object carries an insertion stamp below the clock, after any history -/
theorem seq_below_clock (q0 : Nat) (ops : List HistOp) :
    ∀ o ∈ (hpRun q0 ops).objs, o.seq < (hpRun q0 ops).clock := by
  unfold hpRun
  have h0 : ∀ o ∈ (hpInit q0).objs, o.seq < (hpInit q0).clock := by
    intro o ho; simp [hpInit] at ho
  generalize hpInit q0 = s at h0
  induction ops generalizing s with
  | nil => exact h0
  | cons op rest ih =>
    apply ih
    intro o ho
    cases op with
    | new id t k mb =>
      simp only [hpStep, List.mem_append, List.mem_singleton] at ho ⊢
      rcases ho with ho | rfl
      · have := h0 o ho; omega
      · simp
    | readd id =>
      simp only [hpStep, List.mem_map] at ho ⊢
      obtain ⟨o', ho', rfl⟩ := ho
      have := h0 o' ho'
      split <;> simp <;> omega
    | remove id =>
      simp only [hpStep, List.mem_map] at ho ⊢
      obtain ⟨o', ho', rfl⟩ := ho
      have := h0 o' ho'
      split <;> simpa using this
    | setMB tbl =>
      simp only [hpStep, List.mem_map] at ho ⊢
      obtain ⟨o', ho', rfl⟩ := ho
      have := h0 o' ho'
      unfold assignObj
      split <;> simpa using this
    | useMusical tbl =>
      simp only [hpStep] at ho ⊢
      split at ho
      · simpa [*] using h0 o ho
      · rename_i hm
        simp only [hm, Bool.false_eq_true, if_false]
        split at ho
        · exact h0 o ho
        · obtain ⟨o', ho', rfl⟩ := List.mem_map.mp ho
          have := h0 o' ho'
          unfold assignObj
          split <;> simpa using this
    | useNotated =>
      simp only [hpStep] at ho ⊢
      split at ho
      · rename_i hm
        simp only [hm, if_true]
        obtain ⟨o', ho', rfl⟩ := List.mem_map.mp ho
        have := h0 o' ho'
        unfold assignObj
        split <;> simpa using this
      · rename_i hm
        simp only [hm, Bool.false_eq_true, if_false]
        exact h0 o ho
    | setQD t q => exact h0 o ho
    | query => exact h0 o ho

/-- **`readd_is_latest`**: an element that is removed and added again is the latest insertion: it comes after every
    other element of its time point (for a signature: it is the one the map reports from there on, `*_coincident`) -/
theorem readd_is_latest (q0 : Nat) (ops : List HistOp) (id : Nat) :
    ∀ o ∈ (hpStep (hpRun q0 ops) (.readd id)).objs,
      (o.seq = (hpRun q0 ops).clock ∧ o.id = id ∧ o.live = true) ∨ o.seq < (hpRun q0 ops).clock := by
  intro o ho
  simp only [hpStep, List.mem_map] at ho
  obtain ⟨o', ho', rfl⟩ := ho
  have := seq_below_clock q0 ops o' ho'
  split
  · rename_i h; exact Or.inl ⟨rfl, h.1, rfl⟩
  · exact Or.inr this

/-- **`ks_after_history`** / **`ts_after_history`**: composed with the lookup theorems - after ANY history the
    key-signature (time-signature) map of the part reports, on the timeline, the key signature that starts latest at or
    before `x` and, among coincident ones, the one added last; the first one of the table before all of them -/
theorem ks_after_history (s : HPart) (f l x : Int) (hsp : (describe s).part.span = some (f, l)) (hx : f ≤ x)
    (hne : (describe s).kss ≠ []) :
    ksMap (describe s).part.span (describe s).kss x = match (upTo (describe s).kss x).getLast? with
      | some e => some (e.2.1, keyModeToInt e.2.2)
      | none => (describe s).kss.head?.map fun e => (e.2.1, keyModeToInt e.2.2) := by
  rw [hsp]
  exact ks_coincident f l x hx _ (tables_in_time_order s).2.1 hne

theorem ts_after_history (s : HPart) (f l x : Int) (hsp : (describe s).part.span = some (f, l)) (hx : f ≤ x)
    (hne : (describe s).part.ts ≠ []) :
    tsMapE (describe s).part.span (describe s).part.ts x
      = match (upTo (tsTbl (describe s).part.ts) x).getLast? with
        | some e => some (e.2.beats, e.2.beatType, e.2.mb)
        | none => (describe s).part.ts.head?.map fun sg => (sg.beats, sg.beatType, sg.mb) := by
  rw [hsp]
  exact ts_coincident f l x hx _ (tables_in_time_order s).1 hne

/-- **`clef_after_history`** (round 6): the same for `clef_map`, per staff - after ANY history the row of staff `i+1`
    is the clef of that staff that starts latest at or before `x` (among coincident ones the one added last), the
    first clef of that staff before all of them; the order of the clef table is derived, not assumed -/
theorem clef_after_history (s : HPart) (f l x : Int) (hsp : (describe s).part.span = some (f, l)) (hx : f ≤ x)
    (rows : Tbl ClefV) (hr : clefRows (describe s).clefs = some rows) (i : Nat)
    (hi : i < numberOfStaves ((describe s).clefs.map (·.2.1) ++ otherStaffs (describe s).others))
    (hne : rows.filter (fun r => r.2.1 = (i : Int) + 1) ≠ []) :
    ∃ res, clefMap (describe s).part.span (describe s).clefs (otherStaffs (describe s).others) x = some res ∧
      res[i]? = some (match (upTo (rows.filter fun r => r.2.1 = (i : Int) + 1) x).getLast? with
        | some e => some e.2
        | none => (rows.filter fun r => r.2.1 = (i : Int) + 1).head?.map (·.2)) := by
  rw [hsp]
  exact clef_coincident f l x hx _ _ rows hr (clefRows_sorted _ rows hr (tables_in_time_order s).2.2.1) i hi hne

/-- **`measures_ordered_after_history`** (round 6): the hypothesis `Ordered` of `measure_spec` / `number_spec` /
    `metrical_position_no_tiling` ("measures in time order without overlap") from what the user controls alone: when
    the measures on the timeline are non-empty and pairwise disjoint - in whatever order they were added, removed
    and re-added - the table the maps read lists them one after the other -/
theorem measures_ordered_after_history (s : HPart) (hpos : ∀ m ∈ (describe s).part.ms, m.1 < m.2.1)
    (hdis : (describe s).part.ms.Pairwise fun a b => a.2.1 ≤ b.1 ∨ b.2.1 ≤ a.1) :
    Ordered (bars (describe s).part) := by
  unfold bars
  apply ordered_of_disjoint
  · intro m hm
    obtain ⟨m', hm', rfl⟩ := List.mem_map.mp hm
    exact hpos m' hm'
  · rw [List.pairwise_map]
    exact (tables_in_time_order s).2.2.2
  · rw [List.pairwise_map]
    exact hdis

/-- **`measure_after_history`** (round 6): end to end - after ANY history, for disjoint non-empty measures on the
    timeline and a position `x` inside the `i`-th of them (in time order), `measure_map(x)` is that measure's extent
    (the first one with its pickup-corrected start) and `metrical_position_map(x)[0]` the distance from that start -/
theorem measure_after_history (s : HPart) (x : Int) (hr : raisesP (describe s).part = false)
    (hpos : ∀ m ∈ (describe s).part.ms, m.1 < m.2.1)
    (hdis : (describe s).part.ms.Pairwise fun a b => a.2.1 ≤ b.1 ∨ b.2.1 ≤ a.1)
    (i : Nat) (s0 e : Int) (hi : (bars (describe s).part)[i]? = some (s0, e)) (hs : s0 ≤ x) (he : x < e) :
    measureMapP (describe s).part x
      = some (some (if i = 0 then pickupStart s0 e (beatsPerBar (describe s).part) (divsPerBeat (describe s).part)
                    else s0, e)) ∧
    (metricalMapP (describe s).part x).map (·.1)
      = some (x - (if i = 0 then pickupStart s0 e (beatsPerBar (describe s).part) (divsPerBeat (describe s).part)
                   else s0)) :=
  ⟨measure_spec_composed _ x hr (measures_ordered_after_history s hpos hdis) i s0 e hi hs he,
   metrical_position_composed_no_tiling _ x hr (measures_ordered_after_history s hpos hdis) i s0 e hi hs he⟩

/-- … and `measure_number_map(x)` is that measure's number -/
theorem number_after_history (s : HPart) (x : Int) (hr : raisesP (describe s).part = false)
    (hpos : ∀ m ∈ (describe s).part.ms, m.1 < m.2.1)
    (hdis : (describe s).part.ms.Pairwise fun a b => a.2.1 ≤ b.1 ∨ b.2.1 ≤ a.1)
    (filled : List Int) (hf : allSome (fillNumbers ((describe s).part.ms.map (·.2.2))) = some filled)
    (i : Nat) (s0 e n : Int) (hi : (describe s).part.ms[i]? = some (s0, e, some n)) (hs : s0 ≤ x) (he : x < e) :
    measureNumberMapP (describe s).part x = some (some n) :=
  number_spec_composed _ x hr (measures_ordered_after_history s hpos hdis) filled hf i s0 e n hi hs he

/-! ### the beat-mode switches -/

/-- **`use_notated_resets`**: leaving musical beats resets the musical beats of every time signature that is on the
    timeline to the default table (2 for 6, 3 for 9, 4 for 12, else the number of beats) -/
theorem use_notated_resets (s : HPart) (hm : s.musical = true) :
    (hpStep s .useNotated).musical = false ∧
    ∀ sig ∈ (describe (hpStep s .useNotated)).part.ts, sig.mb = TimeMap.defaultMB sig.beats := by
  refine ⟨by simp [hpStep, hm], ?_⟩
  intro sig hsig
  change sig ∈ tsOf (liveSorted (hpStep s .useNotated)) at hsig
  rw [tsOf_eq] at hsig
  obtain ⟨o, ho, hk⟩ := List.mem_filterMap.mp hsig
  obtain ⟨hmem, hlive⟩ := (mem_liveSorted _ o).mp ho
  simp only [hpStep, hm, if_true, List.mem_map] at hmem
  obtain ⟨o', _, rfl⟩ := hmem
  unfold tsKey at hk
  unfold assignObj at hk hlive
  cases hl : o'.live <;> cases hkd : o'.kind <;> simp_all [TimeMap.userMB]
  obtain ⟨rfl⟩ := hk
  rfl

/-- **`beat_ops_skip_removed`**: `set_musical_beat_per_ts` (and with it both switches) iterates over the timeline: a
    signature that is not on it keeps the musical beats stored on it (and brings them back when it is re-added) -/
theorem beat_ops_skip_removed (tbl : List ((Nat × Nat) × Nat)) (o : HObj) (h : o.live = false) :
    assignObj tbl o = o := by
  unfold assignObj
  rw [h]

/-! ### a fresh build of what is on the timeline -/

/-- **`rebuild_tables`**: building a part from tables that are in time order (elements kind by kind in table order,
    the stored musical beats, then the beat mode) leaves exactly those tables on the timeline -/
theorem rebuild_tables (q0 : Nat) (d : Described)
    (hts : d.part.ts.Pairwise fun a b => a.t ≤ b.t) (hks : d.kss.Pairwise fun a b => a.1 ≤ b.1)
    (hcl : d.clefs.Pairwise fun a b => a.1 ≤ b.1) (hms : d.part.ms.Pairwise fun a b => a.1 ≤ b.1)
    (hot : d.others.Pairwise fun a b => a.1 ≤ b.1) :
    describe (hpRun q0 (rebuildOps d))
      = mkDescribed (hpRun q0 (rebuildOps d)).qd d.part.musical d.part.ts d.kss d.clefs d.part.ms d.others := by
  -- the specs of the `new` block
  let specs : List (Int × EKind × Option Nat) :=
    d.part.ts.map (fun s => (s.t, EKind.ts s.beats s.beatType, some s.mb))
    ++ d.kss.map (fun e => (e.1, EKind.ks e.2.1 e.2.2, none))
    ++ d.clefs.map (fun c => (c.1, EKind.clef c.2.1 c.2.2.1 c.2.2.2.1 c.2.2.2.2, none))
    ++ d.part.ms.map (fun m => (m.1, EKind.measure m.2.1 m.2.2, none))
    ++ d.others.map (fun o => (o.1, EKind.other o.2.1 o.2.2, none))
  have hops : rebuildOps d = (d.part.qd.drop 1).map (fun e => HistOp.setQD e.1 e.2)
      ++ (specs.map fun e => HistOp.new 0 e.1 e.2.1 e.2.2)
      ++ (if d.part.musical then [HistOp.useMusical []] else []) := by
    unfold rebuildOps
    simp only [specs, List.map_append, List.map_map, List.append_assoc]
    rfl
  -- the state after the first two blocks
  have hA := foldl_setQD_objs (d.part.qd.drop 1) (hpInit q0)
  set sA := ((d.part.qd.drop 1).map fun e => HistOp.setQD e.1 e.2).foldl hpStep (hpInit q0) with hsA
  have hB := foldl_new specs sA
  set sB := (specs.map fun e => HistOp.new 0 e.1 e.2.1 e.2.2).foldl hpStep sA with hsB
  have hobjsB : sB.objs = mkObjs 0 specs := by
    rw [hB]; simp only; rw [hA.1, hA.2.2]; simp [hpInit]
  have hmusB : sB.musical = false := by
    rw [hB]; simp only; rw [hA.2.1]; rfl
  -- the last block only switches the mode
  have hrun : hpRun q0 (rebuildOps d)
      = (if d.part.musical then [HistOp.useMusical []] else []).foldl hpStep sB := by
    rw [hops, hpRun_append, hpRun_append]
    rfl
  have hfin : (hpRun q0 (rebuildOps d)).objs = mkObjs 0 specs ∧ (hpRun q0 (rebuildOps d)).musical = d.part.musical := by
    rw [hrun]
    cases hm : d.part.musical
    · simp only [Bool.false_eq_true, if_false, List.foldl_nil]
      exact ⟨hobjsB, hmusB⟩
    · have hstep : hpStep sB (.useMusical []) = { sB with musical := true } := by
        simp [hpStep, hmusB]
      simp only [if_true, List.foldl_cons, List.foldl_nil, hstep]
      exact ⟨hobjsB, trivial⟩
  -- the sorted list of live objects
  have hlive : (mkObjs 0 specs).filter (·.live) = mkObjs 0 specs := by
    rw [List.filter_eq_self]
    exact mkObjs_live 0 specs
  have hls : liveSorted (hpRun q0 (rebuildOps d)) = sortBy (fun o => o.t) (mkObjs 0 specs) := by
    unfold liveSorted
    rw [hfin.1, hlive, sortBy_of_sorted _ _ (mkObjs_seq_sorted 0 specs)]
  unfold describe
  dsimp only
  rw [hls, hfin.2, tsOf_eq, ksOf_eq, clefsOf_eq, msOf_eq, othersOf_eq,
    filterMap_sortBy _ (fun y : TimeMap.TSig => y.t) tsKey tsKey_t,
    filterMap_sortBy _ (fun y : Int × Int × Mode => y.1) ksKey ksKey_t,
    filterMap_sortBy _ (fun y : RawClef => y.1) clefKey clefKey_t,
    filterMap_sortBy _ (fun y : Int × Int × Option Int => y.1) msKey msKey_t,
    filterMap_sortBy _ (fun y : Int × Option Int × Option Int => y.1) otherKey otherKey_t]
  have e1 : (mkObjs 0 specs).filterMap tsKey = d.part.ts := by
    rw [mkObjs_filterMap tsKey (fun e => match e.2.1 with | .ts b bt => some ⟨e.1, b, bt, e.2.2.getD (TimeMap.defaultMB b)⟩ | _ => none)
      (by intro c t k mb; cases k <;> rfl)]
    simp only [specs, List.filterMap_append, List.filterMap_map]
    simp [List.filterMap_eq_map']
  have e2 : (mkObjs 0 specs).filterMap ksKey = d.kss := by
    rw [mkObjs_filterMap ksKey (fun e => match e.2.1 with | .ks f m => some (e.1, f, m) | _ => none)
      (by intro c t k mb; cases k <;> rfl)]
    simp only [specs, List.filterMap_append, List.filterMap_map]
    simp
  have e3 : (mkObjs 0 specs).filterMap clefKey = d.clefs := by
    rw [mkObjs_filterMap clefKey (fun e => match e.2.1 with | .clef st sg ln oc => some (e.1, st, sg, ln, oc) | _ => none)
      (by intro c t k mb; cases k <;> rfl)]
    simp only [specs, List.filterMap_append, List.filterMap_map]
    simp
  have e4 : (mkObjs 0 specs).filterMap msKey = d.part.ms := by
    rw [mkObjs_filterMap msKey (fun e => match e.2.1 with | .measure en n => some (e.1, en, n) | _ => none)
      (by intro c t k mb; cases k <;> rfl)]
    simp only [specs, List.filterMap_append, List.filterMap_map]
    simp
  have e5 : (mkObjs 0 specs).filterMap otherKey = d.others := by
    rw [mkObjs_filterMap otherKey (fun e => match e.2.1 with | .other en st => some (e.1, en, st) | _ => none)
      (by intro c t k mb; cases k <;> rfl)]
    simp only [specs, List.filterMap_append, List.filterMap_map]
    simp
  rw [e1, e2, e3, e4, e5, sortBy_of_sorted _ _ hts, sortBy_of_sorted _ _ hks, sortBy_of_sorted _ _ hcl,
    sortBy_of_sorted _ _ hms, sortBy_of_sorted _ _ hot]

/-- **`rebuild_same_tables`**: after ANY history, a fresh build of what is on the timeline has the same tables
    (time signatures with their stored musical beats, key signatures, clefs, measures, the other elements), the same
    beat mode and the same time points -/
theorem rebuild_same_tables (q0 : Nat) (s : HPart) :
    (describe (hpRun q0 (rebuildOps (describe s)))).part.ts = (describe s).part.ts ∧
    (describe (hpRun q0 (rebuildOps (describe s)))).part.ms = (describe s).part.ms ∧
    (describe (hpRun q0 (rebuildOps (describe s)))).kss = (describe s).kss ∧
    (describe (hpRun q0 (rebuildOps (describe s)))).clefs = (describe s).clefs ∧
    (describe (hpRun q0 (rebuildOps (describe s)))).others = (describe s).others ∧
    (describe (hpRun q0 (rebuildOps (describe s)))).part.musical = (describe s).part.musical ∧
    (describe (hpRun q0 (rebuildOps (describe s)))).part.npoints = (describe s).part.npoints ∧
    (describe (hpRun q0 (rebuildOps (describe s)))).part.span = (describe s).part.span := by
  have hl := liveSorted_sorted s
  obtain ⟨h1, h2, h3, h4⟩ := tables_in_time_order s
  have h1' : (describe s).part.ts.Pairwise fun a b => a.t ≤ b.t := by
    unfold SortedLE tsTbl at h1
    rwa [List.pairwise_map] at h1
  have h5 : (describe s).others.Pairwise fun a b => a.1 ≤ b.1 :=
    pairwise_filterMap_key (fun o : HObj => o.t) (fun y : Int × Option Int × Option Int => y.1) otherKey otherKey_t _ hl
  rw [rebuild_tables q0 (describe s) h1' h2 h3 h4 h5]
  exact ⟨rfl, rfl, rfl, rfl, rfl, rfl, rfl, rfl⟩

/-- **`rebuild_same_description`**: when the fresh build also reproduces the quarter-duration table, it is
    indistinguishable for the six maps (they are functions of the description): the maps depend on what is on the
    timeline now, not on the history that put it there -/
theorem rebuild_same_description (q0 : Nat) (s : HPart)
    (hqd : (hpRun q0 (rebuildOps (describe s))).qd = s.qd) :
    describe (hpRun q0 (rebuildOps (describe s))) = describe s := by
  have hl := liveSorted_sorted s
  obtain ⟨h1, h2, h3, h4⟩ := tables_in_time_order s
  have h1' : (describe s).part.ts.Pairwise fun a b => a.t ≤ b.t := by
    unfold SortedLE tsTbl at h1
    rwa [List.pairwise_map] at h1
  have h5 : (describe s).others.Pairwise fun a b => a.1 ≤ b.1 :=
    pairwise_filterMap_key (fun o : HObj => o.t) (fun y : Int × Option Int × Option Int => y.1) otherKey otherKey_t _ hl
  rw [rebuild_tables q0 (describe s) h1' h2 h3 h4 h5, hqd]
  rfl

/-- … in particular for a part whose quarter duration never changes -/
theorem rebuild_same_description_const_qd (q0 : Nat) (s : HPart) (hq : s.qd = [(0, q0)]) :
    describe (hpRun q0 (rebuildOps (describe s))) = describe s := by
  apply rebuild_same_description
  have hd : (describe s).part.qd = [(0, q0)] := hq
  -- no operation of the rebuild touches the quarter durations
  have key : ∀ (ops : List HistOp) (st : HPart), (∀ op ∈ ops, ∀ t q, op ≠ HistOp.setQD t q) →
      (ops.foldl hpStep st).qd = st.qd := by
    intro ops
    induction ops with
    | nil => intro st _; rfl
    | cons op rest ih =>
      intro st hno
      rw [List.foldl_cons, ih _ (fun o ho => hno o (List.mem_cons_of_mem _ ho))]
      have := hno op (List.mem_cons_self ..)
      cases op <;> simp [hpStep] at this ⊢
      · split <;> rfl
      · split <;> rfl
  unfold hpRun
  rw [key, hq]
  · rfl
  · intro op hop t q
    unfold rebuildOps at hop
    rw [hd] at hop
    simp only [List.drop_succ_cons, List.drop_zero, List.map_nil, List.nil_append, List.mem_append, List.mem_map] at hop
    rcases hop with ((((⟨_, _, rfl⟩ | ⟨_, _, rfl⟩) | ⟨_, _, rfl⟩) | ⟨_, _, rfl⟩) | ⟨_, _, rfl⟩) | hop
    all_goals first | (intro h; cases h)
    split at hop <;> simp at hop

/-! ### round 6: the quarter-duration table of the fresh build; the maps of the fresh build -/

/-- **`qd_head_zero`**: after ANY history whose `set_quarter_duration` calls are at times >= 0 the quarter-duration
    table starts with an entry at 0 and all other entries are later (the fresh build of the harness is
    `Part(quarter_duration = that first value)` followed by one `set_quarter_duration` per later entry) -/
theorem qd_head_zero (q0 : Nat) (ops : List HistOp) (hv : ∀ t q, HistOp.setQD t q ∈ ops → 0 ≤ t) :
    ∃ q rest, (hpRun q0 ops).qd = (0, q) :: rest ∧ ∀ e ∈ rest, 0 < e.1 := by
  unfold hpRun
  have h0 : ∃ q rest, (hpInit q0).qd = (0, q) :: rest ∧ ∀ e ∈ rest, 0 < e.1 := ⟨q0, [], rfl, by simp⟩
  generalize hpInit q0 = s at h0
  induction ops generalizing s with
  | nil => exact h0
  | cons op rest ih =>
    apply ih (fun t q h => hv t q (List.mem_cons_of_mem _ h))
    obtain ⟨a, r, hq, hr⟩ := h0
    cases op with
    | setQD t q =>
      have ht : 0 ≤ t := hv t q (List.mem_cons_self ..)
      simp only [hpStep, hq, TimeMap.setQD]
      unfold TimeMap.setQDAux
      by_cases h1 : (0 : Int) < t
      · rw [if_pos h1]
        refine ⟨a, _, rfl, ?_⟩
        intro e he
        rcases mem_setQDAux t q r (some a) e he with he | he
        · exact hr e he
        · rw [he]; exact h1
      · have : (0 : Int) = t := by omega
        rw [if_neg h1, if_pos this]
        exact ⟨q, r, by rw [this], hr⟩
    | new id t k mb => exact ⟨a, r, hq, hr⟩
    | readd id => exact ⟨a, r, hq, hr⟩
    | remove id => exact ⟨a, r, hq, hr⟩
    | setMB tbl => exact ⟨a, r, hq, hr⟩
    | useMusical tbl =>
      refine ⟨a, r, ?_, hr⟩
      simp only [hpStep]
      split <;> exact hq
    | useNotated =>
      refine ⟨a, r, ?_, hr⟩
      simp only [hpStep]
      split <;> exact hq
    | query => exact ⟨a, r, hq, hr⟩

/-- the quarter-duration table of the fresh build `Part(quarter_duration = q)` + one `set_quarter_duration` per later
    entry: the replay of those entries -/
theorem rebuild_qd_replay (s : HPart) (q : Nat) (rest : List (Int × Nat)) (hq : s.qd = (0, q) :: rest) :
    (hpRun q (rebuildOps (describe s))).qd = replayQD [(0, q)] rest := by
  have hd : (describe s).part.qd = (0, q) :: rest := hq
  have hops : rebuildOps (describe s) = (rest.map fun e => HistOp.setQD e.1 e.2)
      ++ ((describe s).part.ts.map (fun s => HistOp.new 0 s.t (.ts s.beats s.beatType) (some s.mb))
        ++ (describe s).kss.map (fun e => HistOp.new 0 e.1 (.ks e.2.1 e.2.2) none)
        ++ (describe s).clefs.map (fun c => HistOp.new 0 c.1 (.clef c.2.1 c.2.2.1 c.2.2.2.1 c.2.2.2.2) none)
        ++ (describe s).part.ms.map (fun m => HistOp.new 0 m.1 (.measure m.2.1 m.2.2) none)
        ++ (describe s).others.map (fun o => HistOp.new 0 o.1 (.other o.2.1 o.2.2) none)
        ++ (if (describe s).part.musical then [HistOp.useMusical []] else [])) := by
    unfold rebuildOps
    rw [hd]
    simp only [List.drop_succ_cons, List.drop_zero, List.append_assoc]
  rw [hops, hpRun_append, foldl_no_setQD_qd]
  · unfold hpRun
    rw [foldl_setQD_qd]
    rfl
  · intro op hop t q'
    simp only [List.mem_append, List.mem_map] at hop
    rcases hop with ((((⟨_, _, rfl⟩ | ⟨_, _, rfl⟩) | ⟨_, _, rfl⟩) | ⟨_, _, rfl⟩) | ⟨_, _, rfl⟩) | hop
    all_goals first | (intro h; cases h)
    split at hop <;> simp at hop

/-- the fresh build reproduces a quarter-duration table that has no redundant entry -/
theorem rebuild_qd_normal (s : HPart) (q : Nat) (rest : List (Int × Nat)) (hq : s.qd = (0, q) :: rest)
    (hn : QDNormal s.qd) : (hpRun q (rebuildOps (describe s))).qd = s.qd := by
  rw [rebuild_qd_replay s q rest hq, hq]
  exact replayQD_normal rest [] (0, q) (hq ▸ hn) (by simp)

/-- **`rebuild_same_description_normal`**: for a part whose quarter-duration table has no redundant entry (times
    increase, every change changes the value), the fresh build `Part(quarter_duration = first value)` + the later
    changes + the elements on the timeline + the beat mode has the SAME description - hence the same six maps.
    `rebuild_same_description_const_qd` is the special case of a table with one entry. -/
theorem rebuild_same_description_normal (s : HPart) (q : Nat) (rest : List (Int × Nat)) (hq : s.qd = (0, q) :: rest)
    (hn : QDNormal s.qd) : describe (hpRun q (rebuildOps (describe s))) = describe s :=
  rebuild_same_description q s (rebuild_qd_normal s q rest hq hn)

/-- … for the part ANY history leaves (`set_quarter_duration` at times >= 0): the only side condition is the absence
    of redundant quarter-duration entries -/
theorem rebuild_any_history_normal (q0 : Nat) (ops : List HistOp) (hv : ∀ t q, HistOp.setQD t q ∈ ops → 0 ≤ t)
    (hn : QDNormal (hpRun q0 ops).qd) :
    ∃ q, describe (hpRun q (rebuildOps (describe (hpRun q0 ops)))) = describe (hpRun q0 ops) := by
  obtain ⟨q, rest, hq, _⟩ := qd_head_zero q0 ops hv
  exact ⟨q, rebuild_same_description_normal _ q rest hq hn⟩

/-- **`rebuild_same_maps`**: the maps of a fresh build of what is on the timeline, for EVERY history and every
    quarter-duration table (redundant entries or not): `time_signature_map`, `key_signature_map`, `clef_map` (and
    the number of staves) are the same functions with no side condition - they read the tables and the span only;
    the three measure maps read the quarter durations through `divs_per_beat` alone: when the fresh build measures
    the same divisions per beat (it does whenever the table is reproduced, `rebuild_qd_normal`; in general that is
    property C02: a redundant entry does not change the beat map) they are the same functions too -/
theorem rebuild_same_maps (q : Nat) (s : HPart) (x : Int) :
    tsMapE (describe (hpRun q (rebuildOps (describe s)))).part.span
        (describe (hpRun q (rebuildOps (describe s)))).part.ts x
      = tsMapE (describe s).part.span (describe s).part.ts x ∧
    ksMap (describe (hpRun q (rebuildOps (describe s)))).part.span
        (describe (hpRun q (rebuildOps (describe s)))).kss x
      = ksMap (describe s).part.span (describe s).kss x ∧
    clefMap (describe (hpRun q (rebuildOps (describe s)))).part.span
        (describe (hpRun q (rebuildOps (describe s)))).clefs
        (otherStaffs (describe (hpRun q (rebuildOps (describe s)))).others) x
      = clefMap (describe s).part.span (describe s).clefs (otherStaffs (describe s).others) x ∧
    (divsPerBeat (describe (hpRun q (rebuildOps (describe s)))).part = divsPerBeat (describe s).part →
      measureMapP (describe (hpRun q (rebuildOps (describe s)))).part x = measureMapP (describe s).part x ∧
      measureNumberMapP (describe (hpRun q (rebuildOps (describe s)))).part x
        = measureNumberMapP (describe s).part x ∧
      metricalMapP (describe (hpRun q (rebuildOps (describe s)))).part x = metricalMapP (describe s).part x) := by
  obtain ⟨hts, hms, hks, hcl, hot, hmu, hnp, hsp⟩ := rebuild_same_tables q s
  refine ⟨by rw [hts, hsp], by rw [hks, hsp], by rw [hcl, hot, hsp], ?_⟩
  intro hd
  have hbars : bars (describe (hpRun q (rebuildOps (describe s)))).part = bars (describe s).part := by
    unfold bars; rw [hms]
  have hbpb : beatsPerBar (describe (hpRun q (rebuildOps (describe s)))).part = beatsPerBar (describe s).part := by
    unfold beatsPerBar; rw [hts, hsp, hmu]
  have hra : raisesP (describe (hpRun q (rebuildOps (describe s)))).part = raisesP (describe s).part := by
    unfold raisesP TimeMap.raises TimeMap.beatMode timePart
    simp only [hms, hnp, hts, hmu]
  have htb : measureTableP (describe (hpRun q (rebuildOps (describe s)))).part = measureTableP (describe s).part := by
    unfold measureTableP; rw [hsp, hbars, hbpb, hd]
  refine ⟨?_, ?_, ?_⟩
  · unfold measureMapP; rw [hra, htb]
  · unfold measureNumberMapP; rw [hra, hsp, hms, hbpb, hd]
  · unfold metricalMapP; rw [hra, htb, hbars]

/-- a redundant quarter-duration entry (the duration at 5 set to 8 and then back to 4) is the one thing a fresh build
    does not reproduce: `set_quarter_duration` drops a change to the duration already in force (the maps are the
    same functions; property C02) -/
example : (hpRun 4 [.setQD 5 8, .setQD 5 4]).qd = [(0, 4), (5, 4)]
    ∧ (hpRun 4 (rebuildOps (describe (hpRun 4 [.setQD 5 8, .setQD 5 4])))).qd = [(0, 4)] := by decide

/-- non-vacuity: a signature removed, the mode switched with a custom table, the signature re-added (it keeps its
    default musical beats and comes last at its time point), a query in between -/
def exHist : List HistOp :=
  [.new 0 0 (.ts 6 8) none, .new 1 0 (.ts 9 8) none, .new 2 0 (.measure 12 (some 1)) none, .query,
   .remove 0, .useMusical [((9, 8), 9), ((6, 8), 6)], .readd 0, .new 3 4 (.ks (-2) .minor) none]

example : (describe (hpRun 4 exHist)).part.ts = [⟨0, 9, 8, 9⟩, ⟨0, 6, 8, 2⟩]
    ∧ (describe (hpRun 4 exHist)).part.musical = true ∧ (describe (hpRun 4 exHist)).part.npoints = 3
    ∧ describe (hpRun 4 (rebuildOps (describe (hpRun 4 exHist)))) = describe (hpRun 4 exHist) := by
  refine ⟨by decide, by decide, by decide, rebuild_same_description_const_qd 4 _ (by decide)⟩

/-- non-vacuity (round 6): a history with three quarter-duration changes, one of them re-set; the table is normal,
    the fresh build `Part(quarter_duration=6)` reproduces the description -/
def exHistQ : List HistOp :=
  [.setQD 8 3, .new 0 0 (.ts 3 4) none, .setQD 0 6, .new 1 0 (.measure 12 (some 1)) none, .setQD 8 5, .setQD 20 6]

example : (hpRun 4 exHistQ).qd = [(0, 6), (8, 5), (20, 6)] ∧ QDNormal (hpRun 4 exHistQ).qd
    ∧ describe (hpRun 6 (rebuildOps (describe (hpRun 4 exHistQ)))) = describe (hpRun 4 exHistQ) := by
  refine ⟨by decide, by decide, rebuild_same_description_normal _ 6 [(8, 5), (20, 6)] (by decide) (by decide)⟩

/-- non-vacuity (round 6): three measures added out of time order, one removed and re-added, a pickup -/
def exHistM : List HistOp :=
  [.new 0 16 (.measure 28 (some 2)) none, .new 1 0 (.measure 4 (some 0)) none, .new 2 4 (.measure 16 (some 1)) none,
   .new 3 0 (.ts 3 4) none, .remove 2, .query, .readd 2]

example : bars (describe (hpRun 4 exHistM)).part = [(0, 4), (4, 16), (16, 28)]
    ∧ Ordered (bars (describe (hpRun 4 exHistM)).part)
    ∧ measureMapP (describe (hpRun 4 exHistM)).part 2 = some (some (-8, 4))
    ∧ measureNumberMapP (describe (hpRun 4 exHistM)).part 20 = some (some 2) := by
  refine ⟨by decide, measures_ordered_after_history _ (by decide) (by decide), by decide +kernel, by decide +kernel⟩

end C10
