/-
C05 — the literal data of the note-array code, REGENERATED from the live source on every run
(harness/translate_c05.py -> Gen/C05Tables.lean), against what the model implements.

Every statement is under `readable "<item>"`: an item whose source form the translator could not read is left empty
and listed in `Gen.C05.unreadable`; its theorem then holds vacuously (a harmless rewriting must not alarm — the
behaviour stays under the correspondence and the oracle).  A readable item that differs from the model stops this file
from building: a reordered or renamed column, another "missing voice" marker, an unstable second sort, a switch that
tests other column names than the loop behind it reads (the shape of defect F-C05-10), a default that flips.
`decide +kernel` is used on WHOLE generated tables and on all 2^8 option vectors only.
-/
import PartituraModel.Gen.C05Tables
import PartituraModel.Model.NoteArrayTs

namespace C05
open NoteArray

def readable (item : String) : Prop := ∀ e ∈ Gen.C05.unreadable, e.1 ≠ item

instance (item : String) : Decidable (readable item) := by unfold readable; infer_instance

/-- does the group of fields guarded by `cond` exist for these options?  `note_array_from_part` always hands over the
    beat and quarter maps; a signature / measure map is handed over exactly when its option is set
    (`maps_follow_options`); `none` = a condition the model does not know -/
def condHolds (o : Opts) (withDivs : Bool) (cond : String) : Option Bool :=
  if cond = "" then some true
  else if cond = "beat_map" then some true
  else if cond = "quarter_map" then some true
  else if cond = "include_pitch_spelling" then some o.spelling
  else if cond = "include_grace_notes" then some o.grace
  else if cond = "key_signature_map" then some o.ks
  else if cond = "time_signature_map" then some o.ts
  else if cond = "metrical_position_map" then some o.metr
  else if cond = "include_staff" then some o.staff
  else if cond = "divs_per_quarter" then some withDivs
  else none

/-- the column names the source produces for these options, in the source's order -/
def sourceHeader (groups : List (String × List (String × String))) (o : Opts) (withDivs : Bool) : Option (List String) :=
  groups.foldr (fun g acc =>
    match condHolds o withDivs g.1, acc with
    | some true, some l => some (g.2.map (·.1) ++ l)
    | some false, some l => some l
    | _, _ => none) (some [])

def allBools : List Bool := [false, true]

/-- all 2^7 option vectors -/
def allOpts : List Opts :=
  allBools.flatMap fun a => allBools.flatMap fun b => allBools.flatMap fun c => allBools.flatMap fun d =>
  allBools.flatMap fun e => allBools.flatMap fun f => allBools.map fun g =>
    { spelling := a, ks := b, ts := c, metr := d, grace := e, staff := f, divs := g }

theorem mem_allOpts (o : Opts) : o ∈ allOpts := by
  obtain ⟨a, b, c, d, e, f, g⟩ := o
  cases a <;> cases b <;> cases c <;> cases d <;> cases e <;> cases f <;> cases g <;> decide

/-- NOTE ARRAYS: for every combination of options the model's header (what the correspondence prints and compares with
    `dtype.names`) is the list of fields the source builds, in the source's order. -/
theorem note_header_is_the_source_dtype (h : readable "noteFields") (o : Opts) (withDivs : Bool) :
    sourceHeader Gen.C05.noteFields o withDivs = some (header o withDivs) := by
  have key : readable "noteFields" → ∀ o ∈ allOpts, ∀ w ∈ allBools,
      sourceHeader Gen.C05.noteFields o w = some (header o w) := by decide +kernel
  exact key h o (mem_allOpts o) withDivs (by cases withDivs <;> decide)

/-- REST ARRAYS: the same fields without the divisions column. -/
theorem rest_header_is_the_source_dtype (h : readable "restFields") (o : Opts) :
    sourceHeader Gen.C05.restFields o false = some (header o false) := by
  have key : readable "restFields" → ∀ o ∈ allOpts, sourceHeader Gen.C05.restFields o false = some (header o false) := by
    decide +kernel
  exact key h o (mem_allOpts o)

/-- COLUMNS PRESENT IFF OPTION: each optional group of columns is in the table exactly when its option is set (and
    the nine basic columns always are). -/
theorem columns_present_iff_option (o : Opts) (withDivs : Bool) :
    (∀ c ∈ ["onset_beat", "duration_beat", "onset_quarter", "duration_quarter", "onset_div", "duration_div", "pitch",
            "voice", "id"], c ∈ header o withDivs) ∧
    (∀ c ∈ ["step", "alter", "octave"], (c ∈ header o withDivs ↔ o.spelling = true)) ∧
    (∀ c ∈ ["is_grace", "grace_type"], (c ∈ header o withDivs ↔ o.grace = true)) ∧
    (∀ c ∈ ["ks_fifths", "ks_mode"], (c ∈ header o withDivs ↔ o.ks = true)) ∧
    (∀ c ∈ ["ts_beats", "ts_beat_type", "ts_mus_beats"], (c ∈ header o withDivs ↔ o.ts = true)) ∧
    (∀ c ∈ ["is_downbeat", "rel_onset_div", "tot_measure_div"], (c ∈ header o withDivs ↔ o.metr = true)) ∧
    ("staff" ∈ header o withDivs ↔ o.staff = true) ∧
    ("divs_pq" ∈ header o withDivs ↔ withDivs = true) ∧
    (header o withDivs).Nodup := by
  have key : ∀ o ∈ allOpts, ∀ w ∈ allBools,
      (∀ c ∈ ["onset_beat", "duration_beat", "onset_quarter", "duration_quarter", "onset_div", "duration_div", "pitch",
              "voice", "id"], c ∈ header o w) ∧
      (∀ c ∈ ["step", "alter", "octave"], (c ∈ header o w ↔ o.spelling = true)) ∧
      (∀ c ∈ ["is_grace", "grace_type"], (c ∈ header o w ↔ o.grace = true)) ∧
      (∀ c ∈ ["ks_fifths", "ks_mode"], (c ∈ header o w ↔ o.ks = true)) ∧
      (∀ c ∈ ["ts_beats", "ts_beat_type", "ts_mus_beats"], (c ∈ header o w ↔ o.ts = true)) ∧
      (∀ c ∈ ["is_downbeat", "rel_onset_div", "tot_measure_div"], (c ∈ header o w ↔ o.metr = true)) ∧
      ("staff" ∈ header o w ↔ o.staff = true) ∧
      ("divs_pq" ∈ header o w ↔ w = true) ∧
      (header o w).Nodup := by decide +kernel
  exact key o (mem_allOpts o) withDivs (by cases withDivs <;> decide)

/-- one cell per column: the model prints as many cells as the header has names, for every row and option vector -/
theorem cells_match_header (o : Opts) (withDivs : Bool) (r : Row) :
    (cells o withDivs r).length = (header o withDivs).length := by
  unfold cells header
  simp only [List.length_append, List.length_cons, List.length_nil]
  repeat' split
  all_goals rfl

/-- the storage types: the four time columns are binary32 (`f4`: what Model/NoteArrayF64.lean `storeRow64` rounds to),
    the flag is a byte, `id`, `step`, `grace_type` are strings, every other column a 32-bit integer — in the note and in the
    rest function -/
theorem storage_types :
    (readable "noteFields" → ∀ g ∈ Gen.C05.noteFields, ∀ f ∈ g.2,
      f.2 = (if f.1 ∈ ["onset_beat", "duration_beat", "onset_quarter", "duration_quarter"] then "f4"
             else if f.1 ∈ ["id", "step", "grace_type"] then "U256" else if f.1 = "is_grace" then "b" else "i4")) ∧
    (readable "restFields" → ∀ g ∈ Gen.C05.restFields, ∀ f ∈ g.2,
      f.2 = (if f.1 ∈ ["onset_beat", "duration_beat", "onset_quarter", "duration_quarter"] then "f4"
             else if f.1 ∈ ["id", "step", "grace_type"] then "U256" else if f.1 = "is_grace" then "b" else "i4")) := by
  decide +kernel

/-- `note_array_from_part` / `rest_array_from_part` hand a signature / measure map to the list function exactly when
    the option of that name is set, each under its own keyword; notes come from `notes_tied`, rests from `rests`;
    beat and quarter maps are always handed over. -/
theorem maps_follow_options :
    (readable "noteMaps" → Gen.C05.noteMaps = [("include_time_signature", "time_signature_map"),
      ("include_key_signature", "key_signature_map"), ("include_metrical_position", "metrical_position_map")]) ∧
    (readable "restMaps" → Gen.C05.restMaps = Gen.C05.noteMaps) ∧
    (readable "noteListKw" → Gen.C05.noteListKw = [("note_list", "part.notes_tied"), ("beat_map", "part.beat_map"),
      ("quarter_map", "part.quarter_map"), ("time_signature_map", "time_signature_map"),
      ("key_signature_map", "key_signature_map"), ("metrical_position_map", "metrical_position_map"),
      ("include_pitch_spelling", "include_pitch_spelling"), ("include_grace_notes", "include_grace_notes"),
      ("include_staff", "include_staff"), ("divs_per_quarter", "divs_per_quarter")]) ∧
    (readable "restListKw" → Gen.C05.restListKw = [("rest_list", "part.rests"), ("beat_map", "part.beat_map"),
      ("quarter_map", "part.quarter_map"), ("time_signature_map", "time_signature_map"),
      ("key_signature_map", "key_signature_map"), ("metrical_position_map", "metrical_position_map"),
      ("include_pitch_spelling", "include_pitch_spelling"), ("include_grace_notes", "include_grace_notes"),
      ("include_staff", "include_staff"), ("collapse", "collapse")]) := by
  decide +kernel

/-- the default of every `include_*` option, of `collapse` and of the two `estimate_*` switches is off; ids are
    part-prefixed and the new part is sanitized unless asked otherwise; `divs`, `time_sigs`, `key_sigs` default to None -/
theorem defaults_as_modelled (h : readable "defaults") :
    ∀ e ∈ Gen.C05.defaults,
      ((e.2.1.startsWith "include_" ∨ e.2.1 = "collapse" ∨ e.2.1.startsWith "estimate_" ∨ e.2.1 = "return_part")
        → e.2.2 = "false") ∧
      ((e.2.1 = "unique_id_per_part" ∨ e.2.1 = "sanitize") → e.2.2 = "true") ∧
      ((e.2.1 = "divs" ∨ e.2.1 = "time_sigs" ∨ e.2.1 = "key_sigs") → e.2.2 = "none") := by
  revert h
  decide +kernel

/-- the marker written for a missing voice is the marker the voice pass looks for, -1 as in the model (`mkRow`,
    `sanitizeVoices`), in the note and in the rest function; a missing staff is written as 0 -/
theorem missing_markers :
    (readable "voiceSentinels" → ∀ e ∈ Gen.C05.voiceSentinels, e.2 = [-1, -1]) ∧
    (readable "voiceSentinels" → Gen.C05.voiceSentinels.map (·.1) = ["note_array_from_note_list", "rest_array_from_rest_list"]) ∧
    (readable "staffFallbacks" → ∀ e ∈ Gen.C05.staffFallbacks, e.2 = 0) := by
  decide +kernel

/-- both part-list functions prefix ids with the same format, the one `prefixId` implements
    (`"P" ++ two-digit index ++ "_"`; compared with `str.format` on generated indices by the correspondence) -/
theorem id_prefix_format (h : readable "idPrefixFormats") :
    ∀ e ∈ Gen.C05.idPrefixFormats, e.2 = "P{0:02d}_" := by
  revert h
  decide +kernel

/-- the four functions that order a table sort by pitch first and then by onset with a STABLE sort (`mergesort`):
    what makes `sortRows` = `isort leOnset ∘ isort lePitch` a sort by (onset, pitch) (C05.rows_sorted) -/
theorem second_sort_is_stable (h : readable "sortKinds") :
    Gen.C05.sortKinds.length = 4 ∧ ∀ e ∈ Gen.C05.sortKinds, e.2 = ["", "mergesort"] := by
  revert h
  decide +kernel

/-- inverse direction: `limit_denominator(256)` on onsets and durations (`limited`), `np.lexsort((duration, pitch,
    onset))` = by onset, then pitch, then duration (`leLex`) -/
theorem inverse_constants :
    (readable "limitDenominators" → Gen.C05.limitDenominators = [256, 256]) ∧
    (readable "lexsortKeys" → Gen.C05.lexsortKeys = ["@duration", "pitch", "@onset"]) := by
  decide +kernel

/-- the columns that switch the signature handling of `note_array_to_score` on are the columns the loop behind the
    switch reads (plus `onset_div`), and they are the columns `note_array_from_part` writes: `ts_beats`, `ts_beat_type`;
    `ks_fifths`, `ks_mode` (repaired, fixes/C05-10: the switch used to test `key_fifths` / `key_mode`, so a note array's
    key columns were never read, and an array with the documented names raised) -/
theorem signature_switch_reads_its_columns :
    (readable "tsCase" → readable "tsLoopFields" →
      (Gen.C05.tsCase = ["ts_beats", "ts_beat_type"] ∧ (∀ c ∈ Gen.C05.tsLoopFields, c ∈ Gen.C05.tsCase ∨ c = "onset_div") ∧
        ∀ c ∈ Gen.C05.tsCase, c ∈ Gen.C05.tsLoopFields)) ∧
    (readable "ksCase" → readable "ksLoopFields" →
      (Gen.C05.ksCase = ["ks_fifths", "ks_mode"] ∧ (∀ c ∈ Gen.C05.ksLoopFields, c ∈ Gen.C05.ksCase ∨ c = "onset_div") ∧
        ∀ c ∈ Gen.C05.ksCase, c ∈ Gen.C05.ksLoopFields)) := by
  refine ⟨?_, ?_⟩ <;> decide +kernel

/-- ... and they are columns `note_array_from_part` writes (so a note array taken from a part can be handed back) -/
theorem signature_columns_are_note_array_columns (h : readable "noteFields") :
    (readable "tsCase" → ∀ c ∈ Gen.C05.tsCase, c ∈ (Gen.C05.noteFields.flatMap (·.2)).map (·.1)) ∧
    (readable "ksCase" → ∀ c ∈ Gen.C05.ksCase, c ∈ (Gen.C05.noteFields.flatMap (·.2)).map (·.1)) := by
  revert h
  decide +kernel

-- ------------------------------------------------------------------ round 6: part lists and collapse_rests

/-- the cell of a row under a column name (the pairing of `header` and `cells`, see `column_is_the_cell`) -/
def column (name : String) (r : Row) : Option Cell :=
  if name = "onset_beat" then some (.q r.onsetBeat) else if name = "duration_beat" then some (.q r.durBeat)
  else if name = "onset_quarter" then some (.q r.onsetQuarter) else if name = "duration_quarter" then some (.q r.durQuarter)
  else if name = "onset_div" then some (.i r.onsetDiv) else if name = "duration_div" then some (.i r.durDiv)
  else if name = "pitch" then some (.i r.pitch) else if name = "voice" then some (.i r.voice)
  else if name = "id" then some (.s r.id) else if name = "step" then some (.s r.step)
  else if name = "alter" then some (.i r.alter) else if name = "octave" then some (.i r.octave)
  else if name = "is_grace" then some (.i (if r.isGrace then 1 else 0)) else if name = "grace_type" then some (.s r.graceType)
  else if name = "ks_fifths" then some (.i r.ksFifths) else if name = "ks_mode" then some (.i r.ksMode)
  else if name = "ts_beats" then some (.i r.tsBeats) else if name = "ts_beat_type" then some (.i r.tsBeatType)
  else if name = "ts_mus_beats" then some (.i r.tsMusBeats) else if name = "is_downbeat" then some (.i r.isDownbeat)
  else if name = "rel_onset_div" then some (.i r.relOnset) else if name = "tot_measure_div" then some (.i r.totMeasure)
  else if name = "staff" then some (.i r.staff) else if name = "divs_pq" then some (.i r.divsPq)
  else none

/-- every column the functions can write -/
def allColumns : List String :=
  header { spelling := true, ks := true, ts := true, metr := true, grace := true, staff := true, divs := true } true

/-- `column` reads the cell the model prints under that name (all options on: every column) -/
theorem column_is_the_cell (r : Row) :
    allColumns.map (fun c => column c r) =
      (cells { spelling := true, ks := true, ts := true, metr := true, grace := true, staff := true, divs := true } true r).map some := by
  simp [allColumns, header, cells, column]

/-- an integer cell multiplied, any other cell untouched -/
def Cell.times (m : Int) : Cell → Cell
  | .i v => .i (v * m)
  | c => c

/-- THE COLUMNS `note_array_from_part_list` RESCALES are the three the model's `scaleRow` multiplies — `onset_div`,
    `duration_div`, `divs_pq` — and no other cell of the row changes (the float columns, the metrical columns
    `rel_onset_div` / `tot_measure_div` stay as the part wrote them: `merged_metrical_columns_in_part_divisions`);
    `rest_array_from_part_list` rescales nothing (`mergeRestTables`).  The function forces `include_divs_per_quarter`
    (the model's `{ o with divs := true }`), and a part without rows counts with divisions 1 (`tableDivs []`). -/
theorem rescale_touches_exactly_the_source_columns :
    (readable "rescaledColumns" →
      Gen.C05.rescaledColumns.map (·.1) = ["note_array_from_part_list", "rest_array_from_part_list"] ∧
      (Gen.C05.rescaledColumns.map (·.2))[1]? = some [] ∧
      ∀ (m : Int) (r : Row), ∀ c ∈ allColumns,
        column c (scaleRow m r) =
          if c ∈ (Gen.C05.rescaledColumns.flatMap (·.2)) then (column c r).map (Cell.times m) else column c r) ∧
    (readable "forcedOptions" → Gen.C05.forcedOptions = [("include_divs_per_quarter", "true")]) ∧
    (readable "emptyPartDivs" → Gen.C05.emptyPartDivs = [("divs_pq", ((tableDivs [] : Nat) : Int))]) := by
  refine ⟨?_, by decide +kernel, by decide +kernel⟩
  intro h
  have hl : Gen.C05.rescaledColumns.flatMap (·.2) = ["divs_pq", "duration_div", "onset_div"] := by
    revert h; decide +kernel
  refine ⟨by revert h; decide +kernel, by revert h; decide +kernel, ?_⟩
  intro m r c hc
  rw [hl]
  simp only [allColumns, header, if_true, List.cons_append, List.nil_append, List.mem_cons, List.not_mem_nil, or_false] at hc
  rcases hc with rfl | rfl | rfl | rfl | rfl | rfl | rfl | rfl | rfl | rfl | rfl | rfl | rfl | rfl | rfl | rfl | rfl | rfl |
    rfl | rfl | rfl | rfl | rfl | rfl <;> rfl

/-- `collapse_rests` SUMS the three duration columns — the cells `absorbS` changes, and no other cell of the absorbing
    row — and decides adjacency on `onset_div`, `duration_div` and `voice` (`hits`: the integer division columns,
    repaired fixes/C05-8; the staff is not asked) -/
theorem collapse_sums_exactly_the_source_columns :
    (readable "collapseSums" →
      Gen.C05.collapseSums = ["duration_beat", "duration_div", "duration_quarter"] ∧
      ∀ (store : Rat → Rat) (acc x : Row), ∀ c ∈ allColumns, c ∉ Gen.C05.collapseSums →
        column c (absorbS store acc x) = column c acc) ∧
    (readable "collapseAdjacency" →
      Gen.C05.collapseAdjacency = ["duration_div", "onset_div", "onset_div", "voice", "voice"]) ∧
    (∀ (target voice : Int) (x : Row), hits target voice x = true ↔ x.onsetDiv = target ∧ x.voice = voice) := by
  refine ⟨?_, by decide +kernel, ?_⟩
  · intro h
    have hl : Gen.C05.collapseSums = ["duration_beat", "duration_div", "duration_quarter"] := by revert h; decide +kernel
    refine ⟨hl, ?_⟩
    intro store acc x c hc hn
    rw [hl] at hn
    simp only [allColumns, header, if_true, List.cons_append, List.nil_append, List.mem_cons, List.not_mem_nil, or_false] at hc
    rcases hc with rfl | rfl | rfl | rfl | rfl | rfl | rfl | rfl | rfl | rfl | rfl | rfl | rfl | rfl | rfl | rfl | rfl | rfl |
      rfl | rfl | rfl | rfl | rfl | rfl
    all_goals first
      | rfl
      | exact absurd (by decide) hn
  · intro target voice x
    unfold hits
    simp only [Bool.and_eq_true, decide_eq_true_eq]

/- Whether the translator read everything on the tree under test is REPORTED, not demanded: harness/props/c05.py prints
   the number of unreadable items in the evidence (`translator_unreadable_items`; 0 on the unchanged tree).  An `example`
   demanding `Gen.C05.unreadable = []` here would turn a harmless rewriting of the source (`x if x else 0` -> `x or 0`)
   into a broken build - the alarm the `readable` hypotheses exist to avoid. -/

end C05
