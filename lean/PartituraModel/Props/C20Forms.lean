/-
C20 — every argument FORM.  The read-only entry points take a ScoreLike / PerformanceLike argument and begin by
normalising it (Model/ArgForms.lean mirrors that glue).  Here:

* the normalisations agree: whatever form the argument has, `save_musicxml`, `save_score_midi`, `Score(x)` and
  `ensure_notearray` reach exactly the parts `iter_parts` reaches (a Score: its own flat list), each once, in depth-first
  order — grouping is transparent;
* `transpose` over a heap of note cells: the deep copy allocates, the in-place rewriting hits only the copy:
  the argument's cells are what they were (`transpose_frame`, NO side condition), the result holds the transposed
  contents for Score / Part arguments and an untransposed copy for the other forms (`transpose_result`), a second call
  on the same argument returns an equal result and leaves the first result alone (`transpose_repeatable`);
  the seeded variant that walks the ARGUMENT for groups / lists is refuted by `example`;
* `save_performance_midi` reads the caller's parts as they are, for every PerformanceLike form (`perf_export_reads`);
  the variant that wraps the argument in `Performance(…)` (seeded change C20-i) rewrites them (`example`).
-/
import PartituraModel.Proofs.C20Heap

namespace C20Forms
open Model.ArgForms C20Heap

-- ================================================================== part lists

/-- a list of plain parts is walked in order -/
theorem iter_flat_list (ps : List Nat) : iterNodes (ps.map Node.part) = ps := iterNodes_parts ps

/-- **grouping is transparent**: putting consecutive elements of a part list into a group (at any depth — the
    statement applies to the children of every group) does not change which parts are visited, nor their order -/
theorem group_transparent (xs ys zs : List Node) :
    iterNodes (xs ++ Node.group ys :: zs) = iterNodes (xs ++ ys ++ zs) := by
  rw [iterNodes_append, iterNodes_append, iterNodes_append]
  simp [iterNodes, iterNode, List.append_assoc]

/-- `Score(x)`: the flat list of the new score is the walk of its part structure, and it is the walk of `x` -/
theorem score_ctor_consistent (a : ScoreArg) (ps : List Nat) (st : List Node) (h : scoreCtor a = some (ps, st)) :
    iterNodes st = ps ∧ ps = flat a := by
  cases a with
  | score _ _ => simp [scoreCtor] at h
  | node n =>
    simp only [scoreCtor, Option.some.injEq, Prod.mk.injEq] at h
    obtain ⟨h1, h2⟩ := h
    subst h1; subst h2
    simp [iterNodes, flat]
  | seq b xs =>
    simp only [scoreCtor, iterParts_seq, Option.map_some, Option.some.injEq, Prod.mk.injEq] at h
    obtain ⟨h1, h2⟩ := h
    subst h1; subst h2
    simp [flat]

/-- **every exporter sees the same parts, whatever the form**: for every score-like argument `save_musicxml` and
    `save_score_midi` visit exactly `flat a` (a Score's own list; otherwise the depth-first walk), and when
    `ensure_notearray` accepts the argument the parts it hands on walk to the same list -/
theorem exporters_agree (a : ScoreArg) :
    (xmlScore a).map (·.1) = some (flat a) ∧ midiParts a = flat a ∧
    (∀ ns, notearrayParts a = some ns → iterNodes ns = flat a) := by
  cases a with
  | score ps st =>
    refine ⟨rfl, by simp [midiParts, flat, iterNodes_parts], ?_⟩
    intro ns h
    simp only [notearrayParts, Option.some.injEq] at h
    subst h
    simp [flat, iterNodes_parts]
  | node n =>
    refine ⟨rfl, by simp [midiParts, flat, iterNodes], ?_⟩
    intro ns h
    cases n with
    | part p =>
      simp only [notearrayParts, Option.some.injEq] at h
      subst h
      simp [flat, iterNodes]
    | group cs =>
      simp only [notearrayParts, Option.some.injEq] at h
      subst h
      simp [flat, iterNode]
  | seq b xs =>
    refine ⟨by simp [xmlScore, scoreCtor, iterParts_seq, flat], rfl, ?_⟩
    intro ns h
    cases b with
    | true =>
      simp only [notearrayParts] at h
      split at h
      · cases h; rfl
      · cases h
    | false => simp [notearrayParts] at h

/-- `iter_parts` itself agrees with them on everything except a Score object, which it rejects (the
    `elif isinstance(partlist, Score)` branch cannot be reached) -/
theorem iter_parts_forms (a : ScoreArg) :
    (∀ ps st, a = ScoreArg.score ps st → iterParts a = none) ∧
    ((∀ ps st, a ≠ ScoreArg.score ps st) → iterParts a = some (flat a)) := by
  cases a with
  | score ps st => exact ⟨fun _ _ _ => rfl, fun h => absurd rfl (h ps st)⟩
  | node n => exact ⟨fun _ _ h => (by cases h), fun _ => rfl⟩
  | seq b xs => exact ⟨fun _ _ h => (by cases h), fun _ => iterParts_seq b xs⟩

-- ================================================================== transpose over the heap

/-- **`transpose` leaves its argument exactly as it was** — for EVERY form of the argument, every heap (well formed or
    not) and every note transformation: each cell that existed before the call holds what it held. -/
theorem transpose_frame {α : Type} (f : α → α) (cells : List α) (a : TArg) (i : Nat) (hi : i < cells.length) :
    (transpose f cells a).1[i]? = cells[i]? := by
  simp only [transpose]
  rw [writeParts_flatten]
  have hfresh : ∀ x ∈ (targets (deepcopy cells a).2).flatten, cells.length ≤ x := by
    intro x hx
    obtain ⟨q, hq, hxq⟩ := List.mem_flatten.mp hx
    exact copyParts_fresh a.parts cells q (targets_sub cells a q hq) x hxq
  rw [writePart_frame f cells.length _ hfresh _ i hi]
  obtain ⟨ext, hext⟩ := copyParts_extends a.parts cells
  simp only [deepcopy]
  rw [hext]
  exact List.getElem?_append_left hi

/-- the argument is VALID when every note address it holds is a cell of the heap -/
def Valid {α : Type} (cells : List α) (a : TArg) : Prop := ∀ p ∈ a.parts, ∀ x ∈ p, x < cells.length

/-- the note transformation in force for a form: Score and Part arguments are transposed, a PartGroup or a list /
    tuple comes back as an untransposed copy (`parts = []`) -/
def effect {α : Type} (f : α → α) : TArg → α → α
  | .score _ => f
  | .part _ => f
  | _ => id

/-- **what `transpose` returns**: a new object of the same form whose parts hold, note by note, the transformed
    contents of the argument's parts (Score / Part) or an exact copy of them (PartGroup / list) -/
theorem transpose_result {α : Type} (f : α → α) (cells : List α) (a : TArg) (hv : Valid cells a) :
    contents (transpose f cells a).1 (transpose f cells a).2
      = (contents cells a).map (fun p => p.map (Option.map (effect f a))) := by
  have hparts : (deepcopy cells a).2.parts = (copyParts cells a.parts).2 :=
    withParts_parts a _ (copyParts_snd_length a.parts cells)
  obtain ⟨haddr, hlen⟩ := copyParts_addresses a.parts cells hv
  have hcont := copyParts_contents cells a.parts hv []
  simp only [List.append_nil] at hcont
  simp only [contents, transpose]
  rw [hparts, writeParts_flatten, ← hcont, List.map_map]
  apply List.map_congr_left
  intro q hq
  simp only [Function.comp, List.map_map]
  apply List.map_congr_left
  intro x hx
  simp only [Function.comp]
  -- the targets are all of the copy (Score / Part) or nothing (other forms)
  cases a with
  | score ps =>
    have hnd : ((targets (deepcopy cells (TArg.score ps)).2).flatten).Nodup := by
      simp only [deepcopy, TArg.withParts, targets, TArg.parts]
      rw [show (copyParts cells ps).2.flatten = _ from haddr]
      exact List.nodup_range'
    rw [writePart_get f _ hnd]
    have hmem : x ∈ (targets (deepcopy cells (TArg.score ps)).2).flatten := by
      simp only [deepcopy, TArg.withParts, targets, TArg.parts]
      exact List.mem_flatten.mpr ⟨q, hq, hx⟩
    rw [if_pos hmem]
    simp [effect, deepcopy]
  | part p =>
    have h1 : (copyParts cells [p]).2 = [(copyPart cells p).2] := rfl
    have hnd : ((targets (deepcopy cells (TArg.part p)).2).flatten).Nodup := by
      simp only [deepcopy, TArg.withParts, targets, TArg.parts, h1, List.headD_cons, List.flatten_cons,
        List.flatten_nil, List.append_nil, copyPart_snd]
      exact List.nodup_range'
    rw [writePart_get f _ hnd]
    have hmem : x ∈ (targets (deepcopy cells (TArg.part p)).2).flatten := by
      simp only [deepcopy, TArg.withParts, targets, TArg.parts, h1, List.headD_cons, List.flatten_cons,
        List.flatten_nil, List.append_nil]
      simp only [TArg.parts, h1, List.mem_singleton] at hq
      subst hq
      exact hx
    rw [if_pos hmem]
    simp [effect, deepcopy]
  | group ps => simp [deepcopy, TArg.withParts, targets, writePart, effect]
  | seq ps => simp [deepcopy, TArg.withParts, targets, writePart, effect]

/-- **`transpose` is repeatable**: a second call on the same (valid) argument, in the heap the first call left,
    returns an object with exactly the contents of the first result -/
theorem transpose_repeatable {α : Type} (f : α → α) (cells : List α) (a : TArg) (hv : Valid cells a) :
    let r1 := transpose f cells a
    let r2 := transpose f r1.1 a
    contents r2.1 r2.2 = contents r1.1 r1.2 := by
  intro r1 r2
  have hgrow := transpose_heap_grows f cells a
  have hv1 : Valid r1.1 a := fun p hp x hx => Nat.lt_of_lt_of_le (hv p hp x hx) hgrow
  have e2 := transpose_result f r1.1 a hv1
  have e1 := transpose_result f cells a hv
  -- the argument reads the same in both heaps (frame)
  have hsame : contents r1.1 a = contents cells a := by
    simp only [contents]
    apply List.map_congr_left
    intro p hp
    apply List.map_congr_left
    intro x hx
    exact transpose_frame f cells a x (hv p hp x hx)
  show contents (transpose f r1.1 a).1 (transpose f r1.1 a).2 = contents (transpose f cells a).1 (transpose f cells a).2
  rw [e2, e1, hsame]

/-- non-vacuity: a valid two-part score over a three-cell heap; and the concrete run — the copy is transposed, the
    argument is not -/
example : Valid [60, 62, 64] (TArg.score [[0, 1], [2]]) := by
  intro p hp x hx
  simp only [TArg.parts, List.mem_cons, List.not_mem_nil, or_false] at hp
  show x < 3
  rcases hp with rfl | rfl <;> simp at hx <;> omega

example :
    transpose (fun (x : Int) => x + 2) [60, 62, 64] (TArg.score [[0, 1], [2]])
      = ([60, 62, 64, 62, 64, 66], TArg.score [[3, 4], [5]]) := by decide

/-- a PartGroup argument: an untransposed copy comes back (the code as it is) and the argument is untouched … -/
example :
    transpose (fun (x : Int) => x + 2) [60, 62] (TArg.group [[0], [1]])
      = ([60, 62, 60, 62], TArg.group [[2], [3]]) := by decide

/-- … whereas the seeded variant C20-j (`parts = list(iter_parts(score))`: the ARGUMENT is walked) rewrites the
    caller's notes, returns the untransposed copy, and a second call returns something else -/
example :
    transposeWalkArg (fun (x : Int) => x + 2) [60, 62] (TArg.group [[0], [1]])
      = ([62, 64, 60, 62], TArg.group [[2], [3]]) := by decide

-- ================================================================== performances

/-- **the MIDI exporter reads the caller's performed parts as they are**: for every PerformanceLike form that is
    accepted, the parts iterated are the argument's own parts with their `track` entries untouched — a Performance's
    list, the single part, the list itself — and nothing is renumbered -/
theorem perf_export_reads (a : PerfArg) (pps : List PPart) (h : perfParts a = some pps) :
    (∀ l, a = PerfArg.performance l → pps = l) ∧ (∀ pp, a = PerfArg.ppart pp → pps = [pp]) ∧
    (∀ l, a = PerfArg.seq l → pps = l) := by
  cases a with
  | performance l =>
    simp only [perfParts, Option.some.injEq] at h
    refine ⟨?_, ?_, ?_⟩
    · intro l' e; cases e; exact h.symm
    · intro pp e; cases e
    · intro l' e; cases e
  | ppart pp =>
    simp only [perfParts, Option.some.injEq] at h
    refine ⟨?_, ?_, ?_⟩
    · intro l' e; cases e
    · intro pp' e; cases e; exact h.symm
    · intro l' e; cases e
  | seq l =>
    simp only [perfParts, Option.some.injEq] at h
    refine ⟨?_, ?_, ?_⟩
    · intro l' e; cases e
    · intro pp e; cases e
    · intro l' e; cases e; exact h.symm
  | bad => simp [perfParts] at h
  | other => simp [perfParts] at h

/-- what is not a Performance, a PerformedPart or an iterable of PerformedParts is rejected -/
theorem perf_export_rejects : perfParts PerfArg.bad = none ∧ perfParts PerfArg.other = none := ⟨rfl, rfl⟩

/-- the seeded variant C20-i: the part taken out of a two-part performance (its notes and its pedal on track 1)
    goes through `Performance(…)` and comes back on track 0 — the caller's dictionaries were rewritten; the real
    dispatch hands the same part over untouched -/
example :
    let pp : PPart := { notes := [some 1, some 1], controls := [some 1], programs := [], metas := [] }
    perfPartsWrap (PerfArg.ppart pp)
        = some [{ notes := [some 0, some 0], controls := [some 0], programs := [], metas := [] }] ∧
    perfParts (PerfArg.ppart pp) = some [pp] := by decide

/-- … and a part whose controls carry no `track` key: the missing key counts as −1, the notes move to track 1 and
    the controls GET a key -/
example :
    let pp : PPart := { notes := [some 0], controls := [none], programs := [], metas := [none] }
    perfPartsWrap (PerfArg.ppart pp)
        = some [{ notes := [some 1], controls := [some 0], programs := [], metas := [some 0] }] := by decide

end C20Forms
