/-
C08 — the order in which the note lines are written (`matchfile_from_alignment`: `np.lexsort` over
`(onset in beats, document order)` for score lines and `(ptime_to_stime(note_on), MIDI pitch)` for
performed-only lines).  Property theorems over Model/MatchTime.lean.
-/
import PartituraModel.Model.MatchTime
import PartituraModel.Proofs.C08Sort
import PartituraModel.Proofs.C08Order
import Mathlib.Data.List.Range

namespace C08
open Model Model.MatchTime C08S C08O

/-- **line_order.**  For every list of sort keys (one per alignment entry):
    1. the written lines are the alignment entries, each exactly once (a permutation of the indexed keys, and
       of the indices);
    2. every written pair carries the key of its index;
    3. the lines are sorted by the documented key — first key ascending (NaN after every number), then second
       key ascending — and lines with equal keys keep the order of the alignment (stability of `np.lexsort`). -/
theorem line_order (keys : List LineKey) :
    (lexsortPairs keys).Perm ((List.range keys.length).zip keys)
    ∧ (lexsortIdx keys).Perm (List.range keys.length)
    ∧ (∀ p ∈ lexsortPairs keys, keys[p.1]? = some p.2)
    ∧ (lexsortPairs keys).Pairwise (fun a b => keyLe a.2 b.2 = true ∧ (keyLe b.2 a.2 = true → a.1 < b.1)) := by
  have hperm : (lexsortPairs keys).Perm ((List.range keys.length).zip keys) := sortBy_perm _ _
  have hfst : ((List.range keys.length).zip keys).map Prod.fst = List.range keys.length :=
    List.map_fst_zip (by simp)
  refine ⟨hperm, ?_, ?_, ?_⟩
  · unfold lexsortIdx
    have := hperm.map Prod.fst
    rw [hfst] at this
    exact this
  · intro p hp
    have hm := hperm.mem_iff.mp hp
    obtain ⟨j, hj⟩ := List.mem_iff_getElem?.mp hm
    rw [List.getElem?_zip_eq_some] at hj
    obtain ⟨h1, h2⟩ := hj
    have hlt : j < keys.length := by
      by_contra hc
      rw [List.getElem?_eq_none (by simpa using hc)] at h2
      cases h2
    rw [List.getElem?_range hlt] at h1
    cases h1
    exact h2
  · unfold lexsortPairs
    apply sortBy_stable keyLe keyLe_total keyLe_trans
    have : (((List.range keys.length).zip keys).map Prod.fst).Pairwise (· < ·) := by
      rw [hfst]; exact List.pairwise_lt_range
    rw [List.pairwise_map] at this
    exact this

/-- non-vacuity: two score lines and two insertions, one of them with an undefined (NaN) key; the third and
    the first entry have equal keys and keep their order -/
example : lexsortIdx [⟨some 2, 0⟩, ⟨none, 60⟩, ⟨some 2, 0⟩, ⟨some (1/2), 64⟩] = [3, 0, 2, 1] := by decide +kernel

/-- **time_map_places.**  The key of a performed-only line is the time map at its onset.  With at least two
    matched score onsets that are performed in score order (performed times strictly increasing, score times
    non-decreasing): the map passes through every matched onset, and it is monotone — so an insertion played
    at or after the (mean) performed time of a matched onset gets a key at or above that onset's score time, one
    played at or before it a key at or below; `line_order` then puts its line on that side of the score
    lines. -/
theorem time_map_places (p q : Rat × Rat) (rest : List (Rat × Rat)) (hs : KnotsSorted (p :: q :: rest)) :
    (∀ k ∈ p :: q :: rest, timeMapKey (p :: q :: rest) k.1 = some k.2)
    ∧ (∀ t t' : Rat, t ≤ t' → ∃ y y', timeMapKey (p :: q :: rest) t = some y
          ∧ timeMapKey (p :: q :: rest) t' = some y' ∧ y ≤ y') := by
  have hkey : ∀ t, timeMapKey (p :: q :: rest) t = some (interpLin.go t p q rest) := by
    intro t
    obtain ⟨a, ya⟩ := p
    obtain ⟨b, yb⟩ := q
    rfl
  constructor
  · intro k hk
    rw [hkey]
    rcases List.mem_cons.mp hk with rfl | hk'
    · have hlt : k.1 < q.1 := ((List.pairwise_cons.mp hs).1 q (by simp)).1
      rw [go_at_first k q rest hlt]
    · rw [go_at_mem rest p q hs k hk']
  · intro t t' ht
    exact ⟨_, _, hkey t, hkey t', go_mono rest p q hs t t' ht⟩

/-- non-vacuity: three matched onsets (performed at 1, 2, 4 s; score times 0, 1, 3 beats); an insertion played at
    3 s gets the key 2 -/
example : KnotsSorted [(1, 0), (2, 1), (4, 3)] ∧ timeMapKey [(1, 0), (2, 1), (4, 3)] 3 = some 2 := by
  constructor
  · unfold KnotsSorted
    simp only [List.pairwise_cons, List.mem_cons, List.mem_nil_iff, or_false, forall_eq_or_imp, forall_eq,
      List.Pairwise.nil, and_true, IsEmpty.forall_iff, implies_true]
    norm_num
  · decide +kernel

/-- with one matched onset every performed-only line gets that onset's score time; with none the key is
    undefined (NaN) and the line is written after every line that has a key -/
theorem time_map_degenerate (x y t : Rat) (k2 : Int) (a : LineKey) (r : Rat) (ha : a.k1 = some r) :
    timeMapKey [(x, y)] t = some y ∧ timeMapKey [] t = none
    ∧ keyLe a ⟨none, k2⟩ = true ∧ keyLe ⟨none, k2⟩ a = false := by
  refine ⟨rfl, rfl, ?_, ?_⟩ <;> simp [keyLe, ha]

end C08
