/-
C05, round 2 — the table composed with the models of the part's maps.

`rowsC` (Model/NoteArrayMaps.lean) builds the maps handed to `note_array_from_note_list` from the
description of the part by evaluating Model/TimeMap.lean (C02: `beat_map`, `quarter_map`,
`inv_beat_map`) and Model/StepMap.lean (C10: `key_signature_map`, `time_signature_map`,
`metrical_position_map`).  The theorems say: the columns of every row ARE those models' values at
the note's onset / offset, as exact rationals; float32 rounding enters only in the stored sort key.
-/
import PartituraModel.Props.C05
import PartituraModel.Proofs.C05Compose
import PartituraModel.Proofs.C05Float

namespace C05
open NoteArray List Model

/-- **The columns of the table are the C02 / C10 models' values.**  For every row of
    `note_array_from_part` on a described part there is a note of `notes_tied` with its tied duration
    such that, as exact rationals / integers,
    * onset_beat = `beat_map(onset)`, onset_beat + duration_beat = `beat_map(onset + duration_tied)`,
    * the same for the quarter columns and `quarter_map`,
    * the stored sort key is the float32 rounding of onset_beat (the only rounding),
    * with the option on: (ks_fifths, ks_mode) = `key_signature_map(onset)`,
      (ts_beats, ts_beat_type, ts_mus_beats) = `time_signature_map(onset)`,
      (rel_onset_div, tot_measure_div) = `metrical_position_map(onset)` where the measure map's
      `divs_per_beat` is `inv_beat_map(1 + beat_map(0))`, and is_downbeat = [rel_onset_div = 0]. -/
theorem row_values_composed (d : Desc) (notes : List Note) (o : Opts) (out : List Row)
    (h : rowsC d notes o = some out) :
    ∀ r ∈ out, ∃ n ∈ notesTied notes, ∃ dur,
      durationTied notes n = some dur ∧ ComposedColumns d o n dur r := by
  obtain ⟨hok, hrows⟩ := rowsC_some d notes o out h
  intro r hr
  obtain ⟨n, hn, dv, dur, pch, m, _, hd, _, _, hrow⟩ := row_values (d.part o notes) o out hrows r hr
  have hn' : n ∈ notesTied notes := hn
  have hd' : durationTied notes n = some dur := hd
  refine ⟨n, hn', dur, hd', ?_⟩
  subst hrow
  exact mkRow_composed d o n dur dv pch n.step (alterOr0 n) n.octave (needOK_mem d o notes _ hok n hn' dur hd')

/-- the composed table has one row per note of `notes_tied` and is ordered by (stored onset, pitch) -/
theorem rows_composed_bijective_sorted (d : Desc) (notes : List Note) (o : Opts) (out : List Row)
    (h : rowsC d notes o = some out) :
    out.map (·.id) ~ (notesTied notes).map (·.id) ∧ out.length = (notesTied notes).length ∧
    out.Pairwise (Lex (·.key) (fun a b => a.pitch ≤ b.pitch)) := by
  obtain ⟨_, hrows⟩ := rowsC_some d notes o out h
  obtain ⟨h1, h2⟩ := rows_bijective (d.part o notes) o out hrows
  exact ⟨h1, h2, table_sorted (d.part o notes) o out hrows⟩

/-- the rest array (no collapsing) of a described part obeys the same rules for its rests -/
theorem rest_row_values_composed (d : Desc) (notes : List Note) (o : Opts) (out : List Row)
    (h : restRowsC d notes o false = some out) :
    out.map (·.id) ~ (restsOf notes).map (·.id) ∧
    ∀ r ∈ out, ∃ n ∈ restsOf notes, ∃ dur,
      durationTied notes n = some dur ∧ r.pitch = 0 ∧ ComposedColumns d o n dur r := by
  obtain ⟨hok, hrows⟩ := restRowsC_some d notes o out h
  refine ⟨(rest_rows_bijective (d.part o notes) out hrows).1, ?_⟩
  intro r hr
  obtain ⟨n, hn, dur, m, hd, _, hrow, _⟩ := (rest_row_values (d.part o notes) out hrows).2 r hr
  have hn' : n ∈ restsOf notes := hn
  have hd' : durationTied notes n = some dur := hd
  refine ⟨n, hn', dur, hd', ?_, ?_⟩
  · rw [hrow]; rfl
  · rw [hrow]
    exact mkRow_composed d o n dur 0 0 "0" 0 0 (needOK_mem d o notes _ hok n hn' dur hd')

-- ------------------------------------------------------------------ float32

/-- **The only rounding in the table is a correct float32 rounding.**  For `x ≠ 0` in the normal range, with
    `e = expOf |x|` the binary exponent (`2^e ≤ |x| < 2^(e+1)`): `f32round x` is `m * 2^(e-23)` for an integer
    `|m| ≤ 2^24` (so it is a binary32 number), it is within half a unit in the last place of `x`, hence within
    `|x| / 2^24` — the tolerance the float columns are compared with is 16 times that. -/
theorem float32_rounding (x : Rat) (hx : x ≠ 0) (hnorm : pow2 (-126) ≤ |x|) :
    pow2 (expOf |x|) ≤ |x| ∧ |x| < pow2 (expOf |x| + 1) ∧
    |f32round x - x| ≤ pow2 (expOf |x| - 24) ∧ |f32round x - x| ≤ |x| / 2 ^ 24 ∧
    ∃ m : Int, f32round x = (m : Rat) * pow2 (expOf |x| - 23) ∧ |m| ≤ 2 ^ 24 := by
  obtain ⟨h1, h2, h3, h4⟩ := f32round_spec x hx hnorm
  refine ⟨h1, h2, h3, ?_, h4⟩
  have e : pow2 (expOf |x|) = 2 ^ 24 * pow2 (expOf |x| - 24) := by
    rw [pow2_eq_zpow, pow2_eq_zpow, show expOf |x| = 24 + (expOf |x| - 24) by omega,
      zpow_add₀ (by norm_num : (2 : Rat) ≠ 0)]
    norm_num
  rw [le_div_iff₀ (by norm_num : (0 : Rat) < 2 ^ 24)]
  calc |f32round x - x| * 2 ^ 24 ≤ pow2 (expOf |x| - 24) * 2 ^ 24 := by
        apply mul_le_mul_of_nonneg_right h3; norm_num
    _ = pow2 (expOf |x|) := by rw [e]; ring
    _ ≤ |x| := h1

/-- zero is stored as zero -/
theorem float32_zero : f32round 0 = 0 := rfl

-- ------------------------------------------------------------------ entry points

/-- `ensure_notearray` on a `Part`, a `PartGroup`, a `Score` is the method of that object -/
theorem ensure_is_method (u : Bool) (o : Opts) :
    (∀ d ns, ensureNoteArray u o (.part d ns) = partNoteArray o d ns) ∧
    (∀ cs, ensureNoteArray u o (.group cs) = groupNoteArray u o cs) ∧
    (∀ st, ensureNoteArray u o (.score st) = scoreNoteArray u o st) ∧
    (∀ c d ns, ensureRestArray u o c (.part d ns) = partRestArray o c d ns) ∧
    (∀ c cs, ensureRestArray u o c (.group cs) = groupRestArray u o c cs) :=
  ⟨fun _ _ => rfl, fun _ => rfl, fun _ => rfl, fun _ _ _ => rfl, fun _ _ => rfl⟩

/-- **Every entry point reduces to the part-list case.**  Whatever is handed to `ensure_notearray`, the
    answer is: the array itself (a structured array), a refusal, the table of the one part, or
    `note_array_from_part_list` on an explicit list of parts / groups — the children of the group,
    the items of the list (which must all be parts), or, for a score, its parts in depth-first order
    with the grouping forgotten. -/
theorem dispatch_reduces (u : Bool) (o : Opts) (x : Input) :
    (∃ t, x = .structured t ∧ ensureNoteArray u o x = .same t) ∨
    ensureNoteArray u o x = .refused ∨
    (∃ d ns, x = .part d ns ∧ ensureNoteArray u o x = .ofOption o.divs (rowsC d ns o)) ∨
    (∃ l, (x = .group l ∨ (x = .list l ∧ l.all Tree.isPart = true) ∨ (∃ st, x = .score st ∧ l = flatParts st)) ∧
      ensureNoteArray u o x = .ofOption true (partListRows u o l)) := by
  cases x with
  | structured t => exact Or.inl ⟨t, rfl, rfl⟩
  | plainArray => exact Or.inr (Or.inl rfl)
  | part d ns => exact Or.inr (Or.inr (Or.inl ⟨d, ns, rfl, rfl⟩))
  | group cs => exact Or.inr (Or.inr (Or.inr ⟨cs, Or.inl rfl, rfl⟩))
  | score st => exact Or.inr (Or.inr (Or.inr ⟨flatParts st, Or.inr (Or.inr ⟨st, rfl, rfl⟩), rfl⟩))
  | list items =>
    by_cases hall : items.all Tree.isPart = true
    · refine Or.inr (Or.inr (Or.inr ⟨items, Or.inr (Or.inl ⟨rfl, hall⟩), ?_⟩))
      simp only [ensureNoteArray, hall, if_true]
    · refine Or.inr (Or.inl ?_)
      simp only [ensureNoteArray, hall]
      rfl
  | other => exact Or.inr (Or.inl rfl)

/-- the same for rest arrays; a `Score` is refused (the function has no case for it) -/
theorem rest_dispatch_reduces (u : Bool) (o : Opts) (c : Bool) (x : Input) :
    (∃ t, x = .structured t ∧ ensureRestArray u o c x = .same t) ∨
    ensureRestArray u o c x = .refused ∨
    (∃ d ns, x = .part d ns ∧ ensureRestArray u o c x = .ofOption false (restRowsC d ns { o with divs := false } c)) ∨
    (∃ l, (x = .group l ∨ (x = .list l ∧ l.all Tree.isPart = true)) ∧
      ensureRestArray u o c x = .ofOption false (restListRows u o c l)) := by
  cases x with
  | structured t => exact Or.inl ⟨t, rfl, rfl⟩
  | plainArray => exact Or.inr (Or.inl rfl)
  | part d ns => exact Or.inr (Or.inr (Or.inl ⟨d, ns, rfl, rfl⟩))
  | group cs => exact Or.inr (Or.inr (Or.inr ⟨cs, Or.inl rfl, rfl⟩))
  | score st => exact Or.inr (Or.inl rfl)
  | list items =>
    by_cases hall : items.all Tree.isPart = true
    · refine Or.inr (Or.inr (Or.inr ⟨items, Or.inr ⟨rfl, hall⟩, ?_⟩))
      simp only [ensureRestArray, hall, if_true]
    · refine Or.inr (Or.inl ?_)
      simp only [ensureRestArray, hall]
      rfl
  | other => exact Or.inr (Or.inl rfl)

/-- a group inside a list is one element whose table is the part-list table of its children -/
theorem group_table (u : Bool) (o : Opts) (cs : List Tree) :
    (Tree.group cs).table u o = partListRows u o cs := by
  rw [Tree.table]; rfl

/-- a flat list of parts: `note_array_from_part_list` is `mergeTables` of the parts' own tables (each
    made with the divisions column) — the statement `merge_union`, `lcm_rescale`, `id_prefix` are about -/
theorem part_list_flat (u : Bool) (o : Opts) (ps : List (Desc × List Note)) :
    partListRows u o (ps.map fun p => Tree.part p.1 p.2) =
      (NoteArray.mapM' (fun (p : Desc × List Note) => rowsC p.1 p.2 { o with divs := true }) ps).bind (mergeTables u) := by
  unfold partListRows
  rw [tablesOf_parts]

/-- a score hands the depth-first list of its parts to `note_array_from_part_list`: the table of a
    score is the table of that flat list, whatever the grouping was; on a flat structure nothing changes -/
theorem score_is_flat_list (u : Bool) (o : Opts) (st : List Tree) :
    scoreNoteArray u o st = .ofOption true
      ((NoteArray.mapM' (fun (p : Desc × List Note) => rowsC p.1 p.2 { o with divs := true }) (partsOf st)).bind (mergeTables u)) := by
  unfold scoreNoteArray flatParts
  rw [part_list_flat]

theorem flatParts_flat (ps : List (Desc × List Note)) :
    flatParts (ps.map fun p => Tree.part p.1 p.2) = ps.map fun p => Tree.part p.1 p.2 := by
  unfold flatParts
  rw [partsOf_parts]

/-- `iter_parts` goes depth first: the parts of a group are the parts of its children, in order -/
theorem partsOf_append (a b : List Tree) : partsOf (a ++ b) = partsOf a ++ partsOf b := by
  induction a with
  | nil => rw [List.nil_append, partsOf, List.nil_append]
  | cons x a ih => rw [List.cons_append, partsOf, partsOf, ih, List.append_assoc]

theorem parts_group (cs : List Tree) : (Tree.group cs).parts = partsOf cs := by rw [Tree.parts]

-- ------------------------------------------------------------------ inverse direction, sanitize=True

/-- `note_array_to_score(..., sanitize=True)` runs `add_measures`, `tie_notes`, `find_tuplets`,
    `sanitize_part` on the created part.  What those do is property C11, whose statement
    (`tie_sound_same`: the note array of the normalised part has the same (onset, tied duration, pitch)
    rows as before) is the hypothesis `hsame` here: ANY table `out'` (that of the normalised part) which agrees in that sense
    with the table of the part `createPart` makes gives back the array's (onset, duration, pitch) triples. -/
theorem from_to_array_sanitized (hb ht : Bool) (a : List ARow) (dv : Option Nat) (d : Nat)
    (l : List (Int × Int × Int)) (M : Maps) (spell : Int → String × Int × Int) (o : Opts)
    (out' : List Row)
    (hspell : ∀ r ∈ a, Model.spellingToMidi (spell r.pitch).1 (some (spell r.pitch).2.1) (spell r.pitch).2.2 = some r.pitch)
    (h : fromArray hb true ht a dv = .ok (d, l))
    (hsame : ∃ out, rows (createPart d l M spell) o = some out ∧ out'.map rowTriple ~ out.map rowTriple) :
    out'.map rowTriple ~ a.map divTriple := by
  obtain ⟨out, hrows, hperm⟩ := hsame
  exact hperm.trans (from_to_array hb ht a dv d l M spell o out hspell h hrows)

-- ------------------------------------------------------------------ non-vacuity

section Examples

/-- 3/4 in divisions 2 with an upbeat of one quarter and a key change at the first full bar -/
def exDesc : Desc :=
  { tm := { npoints := 5, first := 0, last := 8, qd := [(0, 2)], ts := [⟨0, 3, 4, 3⟩], m1 := some (0, 2), musical := false },
    kss := [(0, -1, .major), (2, 2, .minor)],
    ms := [(0, 2), (2, 8)] }

/-- `rowsC` succeeds on it (hypothesis of row_values_composed): the upbeat starts at beat -1, the tied
    chain lasts 3 beats, the key at the onset is the first one, the metrical position counts from the
    start the first bar would have had (2 - 3 * 2 = -4) and the bar is 6 divisions long -/
example : ((rowsC exDesc exNotes exOpts).map fun t => t.map fun r => (r.id, r.onsetBeat, r.durBeat, r.key)) =
    some [("g", (-1 : Rat), (0 : Rat), (-1 : Rat)), ("a", -1, 3, -1)] := by decide +kernel
example : ((rowsC exDesc exNotes exOpts).map fun t => t.map fun r => (r.ksFifths, r.ksMode, r.tsBeats, r.tsMusBeats)) =
    some [((-1 : Int), (1 : Int), (3 : Int), (3 : Int)), (-1, 1, 3, 3)] := by decide +kernel
example : ((rowsC exDesc exNotes exOpts).map fun t => t.map fun r => (r.relOnset, r.totMeasure, r.isDownbeat)) =
    some [((4 : Int), (6 : Int), (0 : Int)), (4, 6, 0)] := by decide +kernel

/-- the rest at 6: beat 2, key signature of the second bar, first beat... of nothing: position 4 of 6 -/
example : ((restRowsC exDesc exNotes exOpts false).map fun t => t.map fun r => (r.id, r.onsetBeat, r.ksFifths, r.relOnset)) =
    some [("r", (2 : Rat), (2 : Int), (4 : Int))] := by decide +kernel

/-- a time outside the part's extent is not a number: no table -/
example : rowsC { exDesc with tm := { exDesc.tm with last := 4 } } exNotes exOpts = none := by decide +kernel

/-- float32: 1/3 is stored as 11184811 / 2^25; 2^24 + 1 is a tie and goes to the even neighbour -/
example : f32round (1 / 3) = 11184811 / 33554432 ∧ f32round 16777217 = 16777216 ∧ f32round 16777219 = 16777220 ∧
    f32round (-5 / 4) = -5 / 4 ∧ f32round 0 = 0 := by decide +kernel

/-- a score forgets its grouping, a list / group keeps it: ids `P01_g` against `P00_P01_g` -/
example :
    (match scoreNoteArray true exOpts [.group [.part exDesc [], .part exDesc exNotes]] with
      | .table _ t => t.map (·.id) | _ => []) = ["P01_g", "P01_a"] ∧
    (match groupNoteArray true exOpts [.group [.part exDesc [], .part exDesc exNotes], .part exDesc []] with
      | .table _ t => t.map (·.id) | _ => []) = ["P00_P01_g", "P00_P01_a"] := by decide +kernel

/-- a list that holds a group is refused by `ensure_notearray`, a score is refused by `ensure_rest_array` -/
example : (match ensureNoteArray true exOpts (.list [.group []]) with | .refused => true | _ => false) = true ∧
    (match ensureRestArray true exOpts false (.score []) with | .refused => true | _ => false) = true := by
  decide +kernel

/-- from_to_array_sanitized: a part in which the note 1–3 of `exArr` is split into two tied halves (what
    `tie_notes` does at a barline) has the same triples as the unsplit part -/
def exSplit : Part :=
  { notes :=
      [ { id := "n0", kind := .note, onset := 0, dur := 1, step := "C", alter := some 0, octave := 4, voice := some 1,
          staff := none, graceType := "", tieNext := none, tiePrev := none },
        { id := "n1", kind := .grace, onset := 1, dur := 0, step := "C", alter := some 1, octave := 4, voice := some 1,
          staff := none, graceType := "appoggiatura", tieNext := none, tiePrev := none },
        { id := "n2", kind := .note, onset := 1, dur := 1, step := "D", alter := some 0, octave := 4, voice := some 1,
          staff := none, graceType := "", tieNext := some 3, tiePrev := none },
        { id := "n2b", kind := .note, onset := 2, dur := 1, step := "D", alter := some 0, octave := 4, voice := some 1,
          staff := none, graceType := "", tieNext := none, tiePrev := some 2 } ],
    qdurs := [3], maps := exMaps }

example : ((rows exSplit exOpts).map fun t => t.map rowTriple) = some [(0, 1, 60), (1, 0, 61), (1, 2, 62)] ∧
    ((rows (createPart 3 [(0, 1, 60), (1, 0, 61), (1, 2, 62)] exMaps exSpell) exOpts).map fun t => t.map rowTriple) =
      some [(0, 1, 60), (1, 0, 61), (1, 2, 62)] := by decide +kernel

end Examples

end C05
