/-
C11 (round 6) — the grace-note loop of `sanitize_part`: "find and remove … grace notes without a main note", proved for
the loop as it is written (Model/Sanitize.lean `graceLoop`: offers in iteration order, the last note of the voice wins,
the link is put on the LAST grace note of the sequence), for every part — any links between grace notes (sequences,
dangling and cyclic links, equal keys), any notes.

* `sanitize_complete_grace_kept`   a grace note that has a main note is never removed (nor is one that has none but finds one)
* `sanitize_removes_only_incomplete` whatever is removed is a grace note of the part that had no main note when the call began
* `sanitize_kept_grace_has_main`   every grace note still in the part afterwards has a main note
* `grace_adopter_is_last`           which note adopts: the last plain note (iteration order) of the grace note's voice that starts with it
* `sanitize_part_after_normalise`  the whole `sanitize_part` after `tie_notes`/`find_tuplets`: note array kept, only incomplete grace notes go
* `sanitize_grace_links`           the grace notes keep their order, key, time and voice; a link is the one entered or a
                                   plain note of the part that starts where a grace note starts and has that grace note's voice
-/
import PartituraModel.Props.C11Sound
import PartituraModel.Proofs.C11Grace

namespace C11
open Model Model.Dur Model.Meas Model.San C11Grace

/-- **sanitize_removes_only_incomplete**: every key `sanitize_part` adds to the removed grace notes is the key of a grace
    note of the part, and that grace note had NO main note when the call began; in particular
    (`sanitize_complete_grace_kept`) a grace note that has a main note is never removed -/
theorem sanitize_removes_only_incomplete (s : SanState) (tol k : Nat)
    (hk : k ∈ (sanitizePart s tol).removed) (hnew : k ∉ s.removed) :
    k ∈ s.graces.map (·.key) ∧
    ∀ g, lkG s.graces k = some g → mainNote s.graces (s.graces.length + 1) g = none := by
  have hk' : k ∈ (graceLoop s.notes s.graces).2 := by
    have : k ∈ s.removed ++ (graceLoop s.notes s.graces).2 := hk
    rcases List.mem_append.mp this with h | h
    · exact absurd h hnew
    · exact h
  obtain ⟨h1, h2⟩ := (graceLoop_inv s.notes s.graces).listed k hk'
  refine ⟨h1, fun g hg => ?_⟩
  have := h2 g hg
  cases hm : mainNote s.graces (s.graces.length + 1) g with
  | none => rfl
  | some _ => rw [hm] at this; cases this

theorem sanitize_complete_grace_kept (s : SanState) (tol k : Nat) (g : Grace) (hg : lkG s.graces k = some g)
    (hm : (mainNote s.graces (s.graces.length + 1) g).isSome = true) (hnew : k ∉ s.removed) :
    k ∉ (sanitizePart s tol).removed := by
  intro hk
  have := (sanitize_removes_only_incomplete s tol k hk hnew).2 g hg
  rw [this] at hm
  cases hm

/-- **sanitize_kept_grace_has_main** (lookup form, no condition on the keys): a grace note found in the part after
    `sanitize_part` whose key was not listed for removal has a main note -/
theorem sanitize_kept_grace_has_main_lk (s : SanState) (tol k : Nat) (g : Grace)
    (hg : lkG (sanitizePart s tol).graces k = some g) (hk : k ∉ (sanitizePart s tol).removed) :
    (mainNote (sanitizePart s tol).graces ((sanitizePart s tol).graces.length + 1) g).isSome = true := by
  have inv := graceLoop_inv s.notes s.graces
  have hg' : lkG (graceLoop s.notes s.graces).1 k = some g := hg
  have hk' : k ∉ (graceLoop s.notes s.graces).2 := fun h => hk (List.mem_append_right _ h)
  have hdone : k ∈ s.graces.map (·.key) := by
    rw [← reach_keys inv.reach]
    obtain ⟨hm, hkey⟩ := lkG_mem _ k g hg'
    exact List.mem_map.mpr ⟨g, hm, hkey⟩
  exact inv.kept k hdone hk' g hg'

/-- **sanitize_kept_grace_has_main**: with distinct keys (one key per object), every grace note that is still in the part
    after `sanitize_part` has a main note -/
theorem sanitize_kept_grace_has_main (s : SanState) (tol : Nat) (hnd : (s.graces.map (·.key)).Nodup) :
    ∀ g ∈ keptGraces (sanitizePart s tol),
      (mainNote (sanitizePart s tol).graces ((sanitizePart s tol).graces.length + 1) g).isSome = true := by
  intro g hg
  unfold keptGraces at hg
  obtain ⟨hmem, hnot⟩ := List.mem_filter.mp hg
  have hnd' : ((sanitizePart s tol).graces.map (·.key)).Nodup := by
    have : (sanitizePart s tol).graces = (graceLoop s.notes s.graces).1 := rfl
    rw [this, reach_keys (graceLoop_inv s.notes s.graces).reach]
    exact hnd
  have hl := lkG_self _ hnd' g hmem
  refine sanitize_kept_grace_has_main_lk s tol g.key g hl ?_
  intro hin
  have : (sanitizePart s tol).removed.contains g.key = true := List.contains_iff_mem.mpr hin
  rw [this] at hnot
  cases hnot

/-- **sanitize_grace_links**: `sanitize_part` moves and revoices no grace note and keeps their order; the `grace_next` of
    a grace note afterwards is the one entered, or a plain note of the part that starts where a grace note of the part
    starts and has that grace note's voice -/
theorem sanitize_grace_links (s : SanState) (tol : Nat) :
    ∃ f : Grace → Grace, (sanitizePart s tol).graces = s.graces.map f ∧
      ∀ g, (f g).key = g.key ∧ (f g).start = g.start ∧ (f g).voice = g.voice ∧
        ((f g).next = g.next ∨
          ∃ no ∈ s.notes, (f g).next = .note no.key ∧ ∃ h ∈ s.graces, no.start = h.start ∧ no.voice = h.voice) := by
  obtain ⟨f, hf, hprop⟩ := reach_map (graceLoop_inv s.notes s.graces).reach
  refine ⟨f, hf, fun g => ?_⟩
  obtain ⟨a, b, c, d⟩ := hprop g
  refine ⟨a, b, c, ?_⟩
  rcases d with d | ⟨x, ⟨no, hno, hkey, h, hh, hs, hv⟩, hx⟩
  · exact Or.inl d
  · exact Or.inr ⟨no, hno, by rw [hx, hkey], h, hh, hs, hv⟩

/-- **grace_adopter_is_last**: WHICH note adopts — in the turn of a grace note `g` that has no main note, of all plain
    notes that start where `g` starts and have its voice the LAST one in iteration order becomes the `grace_next` of the
    last grace note of `g`'s sequence (every earlier offer is overwritten); if there is none the links stay as they are.
    A grace note that has a main note leaves links and removal list untouched (`grace_turn_complete_noop`) -/
theorem grace_adopter_is_last (notes : List Note) (st : List Grace × List Nat) (k : Nat) (g : Grace)
    (hg : lkG st.1 k = some g) (hm : mainNote st.1 (st.1.length + 1) g = none) :
    (graceStep notes st k).1 =
      match ((notes.filter fun n => n.start = g.start).filter fun no => no.voice = g.voice).getLast? with
      | none => st.1
      | some c => setNext st.1 (lastInSeq st.1 (st.1.length + 1) g) (.note c.key) :=
  graceStep_closed notes st k g hg hm

theorem grace_turn_complete_noop (notes : List Note) (st : List Grace × List Nat) (k : Nat) (g : Grace)
    (hg : lkG st.1 k = some g) (hm : (mainNote st.1 (st.1.length + 1) g).isSome = true) :
    graceStep notes st k = st :=
  graceStep_complete notes st k g hg hm

/-- **sanitize_part_after_normalise**: the whole of `sanitize_part` (any tolerance, any grace notes, tuplets and slurs in
    the part) after `tie_notes` and `find_tuplets` on a well-formed note list: the note array of the plain notes is the
    one entered, and whatever is removed is a grace note of the part that had no main note -/
theorem sanitize_part_after_normalise (p : PartM) (ns : List Note) (tol : Nat) (gs : List Grace) (tu sl : List Span)
    (hkeys : C11Rows.KeysOK ns) (hlinks : C11Rows.LinksOK ns) (hw : C11Sound.Walkable ns) (hc : C11Walk.ContigAll ns) :
    soundingMidi (sanitizePart ⟨(Model.Tup.findTuplets p.qd (tieNotes p ns)).notes, gs, [], tu, sl⟩ tol).notes =
      soundingMidi ns ∧
    ∀ k ∈ (sanitizePart ⟨(Model.Tup.findTuplets p.qd (tieNotes p ns)).notes, gs, [], tu, sl⟩ tol).removed,
      k ∈ gs.map (·.key) ∧ ∀ g, lkG gs k = some g → mainNote gs (gs.length + 1) g = none := by
  constructor
  · exact (normalise_note_array_same p ns tol hkeys hlinks hw hc).1
  · intro k hk
    exact sanitize_removes_only_incomplete ⟨_, gs, [], tu, sl⟩ tol k hk List.not_mem_nil

-- the last candidate wins: plain notes 0 and 5 of voice 1 (and 3 of voice 2 between them) start with the grace note
example : (graceStep [exA, { exA with key := 3, voice := some 2 }, { exA with key := 5 }]
    ([⟨7, 0, some 1, .none⟩], []) 7).1 = [⟨7, 0, some 1, .note 5⟩] := by decide +kernel

-- non-vacuity on the part `exSan` of Props/C11Sound.lean (graces 0 and 1 without main note; 0 finds one, 1 is removed):
-- the keys are distinct, the kept grace note is 0 with the plain note 0 as main note, and 1 had none when entered
example : (exSan.graces.map (·.key)).Nodup := by decide
example : (keptGraces (sanitizePart exSan 0)).map (·.key) = [0] ∧
    (sanitizePart exSan 0).removed = [1] ∧
    mainNote (sanitizePart exSan 0).graces 3 ⟨0, 0, some 1, .note 0⟩ = some 0 ∧
    mainNote exSan.graces 3 ⟨1, 0, some 2, .none⟩ = none := by decide +kernel
-- a sequence 0 → 1 → main note 0: complete, so nothing is removed, whatever the notes
def exSeq : SanState :=
  { notes := [exA], graces := [⟨0, 0, some 1, .grace 1⟩, ⟨1, 0, some 1, .note 0⟩], removed := [], tuplets := [], slurs := [] }
example : lkG exSeq.graces 0 = some ⟨0, 0, some 1, .grace 1⟩ ∧
    (mainNote exSeq.graces 3 ⟨0, 0, some 1, .grace 1⟩).isSome = true ∧ (sanitizePart exSeq 0).removed = [] := by
  decide +kernel
-- the link goes on the LAST grace note of the sequence: 0 → 1 → nothing, a plain note of voice 1 starts with grace note 0
def exSeq2 : SanState :=
  { exSeq with graces := [⟨0, 0, some 1, .grace 1⟩, ⟨1, 0, some 1, .none⟩] }
example : (sanitizePart exSeq2 0).graces = [⟨0, 0, some 1, .grace 1⟩, ⟨1, 0, some 1, .note 0⟩] ∧
    (sanitizePart exSeq2 0).removed = [] := by decide +kernel
-- a later turn may complete a grace note that was already listed: 0 (voice 1, no plain note of voice 1) → 1 (voice 2);
-- grace note 1 adopts the plain note of voice 2, grace note 0 is removed all the same — so "removed ⇒ no main note
-- afterwards" is NOT a theorem; what holds is `sanitize_removes_only_incomplete` (no main note when the call began)
def exLate : SanState :=
  { exSeq with notes := [{ exA with voice := some 2 }],
               graces := [⟨0, 0, some 1, .grace 1⟩, ⟨1, 0, some 2, .none⟩] }
example : (sanitizePart exLate 0).removed = [0] ∧
    mainNote (sanitizePart exLate 0).graces 3 ⟨0, 0, some 1, .grace 1⟩ = some 0 := by decide +kernel

end C11
