/-
C17 (round 2) — voice estimation with the contig-mapping search INSIDE the model
(Model/Vosa.lean: VoSA.__init__, make_contigs, Contig, NoteStream, Voice(Manager),
VoSA.estimate_voices, pairwise_cost, est_best_connections, note_array), helper lemmas in
Proofs/C17Vosa*.lean.  The search is no longer a parameter and nothing about it is assumed: the
modelled search is proved to answer (never `none` = the code does not raise inside VoSA) on every
non-empty array and to answer every id exactly once.
-/
import PartituraModel.Props.C17
import PartituraModel.Proofs.C17Vosa
import PartituraModel.Proofs.C17VosaTotal
import PartituraModel.Proofs.C17VosaCtx

namespace C17
open Model Gen

/-! ### the search answers every id exactly once -/

/-- whatever the crystallisation decides, `VoSA(rows).note_array()` has one row per input row:
    the ids it answers are a permutation of the ids it was given (each exactly once), in onset order -/
theorem vosa_covers (rows : List Vosa.Row) (out : List (Nat × Int)) (h : Vosa.run rows = some out) :
    (out.map (·.1)).Perm (rows.map (·.1)) ∧ out.length = rows.length ∧
    out.map (·.1) = (Vosa.byOnset (Vosa.mkNotes rows)).map (·.id) :=
  ⟨C17S.run_covers rows out h, C17S.run_length rows out h, C17S.run_ids rows out h⟩

/-- the hypothesis is satisfiable: two simultaneous notes and a grace note (duration 0, row 2)
    that follows its main note, evaluated by the kernel -/
example : Vosa.run [(0, 60, 0, 1, 1), (1, 64, 0, 1, 1), (2, 62, 1, 0, 1)] = some [(0, 0), (1, 1), (2, 0)] := by
  decide +kernel

/-- `VosaCovers` — the hypothesis of `total_given_vosa` — holds for the modelled search -/
theorem vosa_model_covers (offs : List Rat) (mono : Bool) (notes : List Voices.VNote)
    (rows : List Vosa.Row) (hrows : Vosa.withOffsets offs (Voices.vosaInput mono notes) = some rows)
    (o : List (Nat × Int)) (hrun : Vosa.run rows = some o) :
    C17V.VosaCovers (fun _ => o) (Voices.vosaInput mono notes) := by
  unfold C17V.VosaCovers
  rw [← C17S.withOffsets_ids offs _ rows hrows]
  exact C17S.run_covers rows o hrun

/-- the rows handed to the search always have an offset: the conversion cannot fail -/
theorem offsets_total (offs : List Rat) (mono : Bool) (notes : List Voices.VNote)
    (hl : offs.length = notes.length) :
    ∃ rows, Vosa.withOffsets offs (Voices.vosaInput mono notes) = some rows :=
  C17S.withOffsets_total offs _ (fun r hr => by rw [hl]; exact C17S.vosaInput_lt mono notes r hr)

/-! ### estimate_voices with the modelled search -/

/-- the modelled search never raises on a non-empty array: grace notes always find a main note,
    `make_contigs` never reads an unbound `last_tp`, every `Contig` has non-empty streams and no more
    sounding notes than streams, every index the crystallisation loop uses (`vm[es]`, `streams[ns]`,
    `Voice.first/last`) exists — and it answers every id exactly once -/
theorem vosa_total (rows : List Vosa.Row) (hne : rows ≠ []) :
    ∃ out, Vosa.run rows = some out ∧ (out.map (·.1)).Perm (rows.map (·.1)) := by
  obtain ⟨cs, hcs⟩ := Option.isSome_iff_exists.mp (C17X.search_isSome rows hne)
  have h : Vosa.run rows = some ((Vosa.byOnset (Vosa.mkNotes rows)).map fun n => (n.id, Vosa.voiceOut cs.2.voice n)) := by
    simp [Vosa.run, hcs]
  exact ⟨_, h, C17S.run_covers rows _ h⟩

/-- the empty array is rejected (`np.max` of an empty array raises) -/
theorem vosa_empty : Vosa.run [] = none := by decide

/-- totality and well-formedness of `estimate_voices` with the search inside the model — no
    hypothesis about the search left: both modes, zero-duration notes included, any rounding of
    `onset + duration` (`offs`): every input note receives exactly one voice, all voices are ≥ 1 and
    they are numbered 1..k without gaps -/
theorem voices_total (offs : List Rat) (mono : Bool) (notes : List Voices.VNote) (hne : notes ≠ [])
    (hl : offs.length = notes.length) :
    ∃ out, Vosa.estimateVoicesWith offs mono notes = some out ∧ out.length = notes.length ∧
      (∀ x ∈ out, 1 ≤ x) ∧ ∃ k : Int, ∀ x, x ∈ out ↔ 1 ≤ x ∧ x ≤ k := by
  obtain ⟨rows, hrows⟩ := offsets_total offs mono notes hl
  have hrne : rows ≠ [] := by
    intro e
    have hids := C17S.withOffsets_ids offs _ rows hrows
    rw [e] at hids
    obtain ⟨id, hid, _⟩ := (C17V.equivs_facts mono notes).2 0 (by
      cases notes with
      | nil => exact absurd rfl hne
      | cons a r => simp)
    rw [← hids] at hid
    simp at hid
  obtain ⟨o, ho, _⟩ := vosa_total rows hrne
  have hc := vosa_model_covers offs mono notes rows hrows o ho
  obtain ⟨out, h1, h2, h3, h4⟩ := total_given_vosa (fun _ => o) mono notes hne hc
  refine ⟨out, ?_, h2, h3, h4⟩
  simp only [Vosa.estimateVoicesWith, hne, if_false, hrows, ho, Option.bind_some, h1]

/-- the same with exact sums as offsets -/
theorem voices_total_exact (mono : Bool) (notes : List Voices.VNote) (hne : notes ≠ []) :
    ∃ out, Vosa.estimateVoicesExact mono notes = some out ∧ out.length = notes.length ∧
      (∀ x ∈ out, 1 ≤ x) ∧ ∃ k : Int, ∀ x, x ∈ out ↔ 1 ≤ x ∧ x ≤ k :=
  voices_total (Vosa.exactOffsets notes) mono notes hne (by simp [Vosa.exactOffsets])

/-- the hypotheses are satisfiable and the conclusion is not vacuous: C major triad as a chord plus
    a passing note, chord mode, evaluated by the kernel (three voices 1, 2, 3 from the top) -/
example : Vosa.estimateVoicesExact false [(60, 0, 1), (64, 0, 1), (67, 0, 2), (62, 1, 1)] = some [2, 2, 1, 2] := by
  decide +kernel

/-- chord mode with the modelled search: notes with identical onset and duration receive the same voice -/
theorem chord_same_voice_modelled (offs : List Rat) (notes : List Voices.VNote) (out : List Int)
    (h : Vosa.estimateVoicesWith offs false notes = some out) (i j : Nat)
    (hi : i < notes.length) (hj : j < notes.length)
    (hon : notes[i].2.1 = notes[j].2.1) (hdu : notes[i].2.2 = notes[j].2.2) :
    out[i]? = out[j]? := by
  simp only [Vosa.estimateVoicesWith] at h
  split at h
  · exact absurd h (by simp)
  · cases hs : (Vosa.withOffsets offs (Voices.vosaInput false notes)).bind Vosa.run with
    | none => rw [hs] at h; exact absurd h (by simp)
    | some o =>
      rw [hs] at h
      exact chord_same_voice (fun _ => o) notes out h i j hi hj hon hdu

/-- the empty array is rejected (the code raises) -/
theorem voices_modelled_empty (offs : List Rat) (mono : Bool) : Vosa.estimateVoicesWith offs mono [] = none := by
  simp [Vosa.estimateVoicesWith]

/-! ### the stages of the search that are proved never to raise -/

/-- `VoSA.__init__`: every grace note (duration 0) finds its main note whenever some note has a
    duration — the `np.argmin` over the candidates is never over an empty array (defect C17-2 repaired) -/
theorem vosa_grace_total (notes : List Vosa.N) : (Vosa.graceLinks notes).isSome :=
  C17T.graceLinks_isSome notes

/-- `make_contigs`: on a non-empty score the loop that cuts the timepoints into contigs never reads
    the unbound `last_tp` (a timepoint with sounding notes that is not a boundary always follows a contig) -/
theorem vosa_contig_lists_total (notes : List Vosa.N) (hne : notes ≠ []) :
    (Vosa.contigNoteLists notes).isSome :=
  C17T.contigNoteLists_isSome notes hne

/-- `Contig(notes)` never raises on a non-empty note list: no onset has more sounding notes than
    there are streams (no IndexError) and every stream receives a note at the contig's onset, because
    the first timepoint with the maximal number of sounding notes is an onset (no empty NoteStream) -/
theorem vosa_contig_total (l : List Vosa.N) (hne : l ≠ []) : (Vosa.mkContig l).isSome :=
  C17T.mkContig_isSome l hne

/-! ### est_best_connections -/

/-- `est_best_connections` on an R × C cost matrix asked for `n ≤ min R C` connections (in the search
    n = the number of streams of the neighbour contig, R = the number of voices): it answers exactly n
    connections, no stream of either side is used twice, and every index lies inside the matrix -/
theorem best_connections_matching (cost : List (List Int)) (C n : Nat) (hrect : C17S.Rect cost C)
    (hR : n ≤ cost.length) (hC : n ≤ C) :
    let b := (Vosa.estBest cost n).1
    b.length = n ∧ (b.map (·.1)).Nodup ∧ (b.map (·.2)).Nodup ∧ ∀ x ∈ b, x.1 < cost.length ∧ x.2 < C := by
  have h := C17S.bestAux_matching cost C hrect n [] [] List.nodup_nil List.nodup_nil (by simpa using hR) (by simpa using hC)
  simp only [List.append_nil] at h
  exact ⟨C17S.bestAux_length cost n [] [], h.1, h.2.1, h.2.2⟩

/-- the unassigned streams are exactly the rows without a connection -/
theorem best_connections_unassigned (cost : List (List Int)) (n i : Nat) :
    i ∈ (Vosa.estBest cost n).2 ↔ i < cost.length ∧ i ∉ (Vosa.estBest cost n).1.map (·.1) := by
  simp [Vosa.estBest, List.mem_filter]

/-- global-minimum policy: the first connection has the smallest cost of the whole matrix -/
theorem best_connections_first_min (cost : List (List Int)) (C n : Nat) (hrect : C17S.Rect cost C)
    (hR : 0 < cost.length) (hC : 0 < C) :
    ∃ i j v, (Vosa.estBest cost (n + 1)).1.head? = some (i, j) ∧
      (∃ row, cost[i]? = some row ∧ row[j]? = some v) ∧
      ∀ (i' j' : Nat) (row' : List Int) (v' : Int), cost[i']? = some row' → row'[j']? = some v' → v ≤ v' :=
  C17S.bestAux_first_min cost n (C17S.entries_nonempty cost C hrect [] [] (by simpa using hR) (by simpa using hC))

/-- non-vacuity: a 3 × 2 matrix with a tie (the first smallest entry in row-major order wins) -/
example : Vosa.estBest [[3, 1], [1, 1], [0, 1]] 2 = ([(2, 0), (0, 1)], [1]) := by decide

/-- outside the domain (more connections asked for than rows) numpy's masked argmin answers index 0:
    the model mirrors it, and the result is no longer a matching — which is why the theorem needs n ≤ R -/
example : Vosa.estBest [[1, 2, 3]] 3 = ([(0, 0), (0, 0), (0, 0)], []) := by decide

/-- `pairwise_cost`: a note continuing into the next contig costs -MAX_COST, a skipped stream
    MAX_COST, everything else the pitch distance (the constant is regenerated from the source) -/
theorem pairwise_cost_entry (skip : Array Nat) (c n : Vosa.N) (sc sn : Nat)
    (hc : skip[c.ix]? = some sc) (hn : skip[n.ix]? = some sn) :
    Vosa.cost1 skip c n =
      some (if c.ix = n.ix then -VOSA_MAX_COST
            else if sc ≠ 0 ∨ sn ≠ 0 then VOSA_MAX_COST else ((c.p - n.p).natAbs : Int)) := by
  unfold Vosa.cost1
  by_cases h : c.ix = n.ix
  · simp [h]
  · simp only [h, if_false, hc, hn]
    by_cases h1 : sc ≠ 0 ∨ sn ≠ 0
    · simp only [h1, if_true]
      rcases h1 with h1 | h1 <;> simp [h1]
    · simp only [h1, if_false]
      push Not at h1
      simp [h1.1, h1.2]

/-- non-vacuity: a skipped stream (skip_contig 1 on the left note) costs MAX_COST whatever the pitches -/
example : Vosa.cost1 #[1, 0] { ix := 0, id := 0, p := 60, on := 0, du := 1, off := 1 }
    { ix := 1, id := 1, p := 62, on := 1, du := 1, off := 2 } = some VOSA_MAX_COST := by decide

end C17
