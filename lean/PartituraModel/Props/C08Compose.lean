/-
C08 (round 5) — COMPOSITION.  The earlier theorems are about the pieces (`encode`, `barTime`, `notePos`, `durDivs`,
`importDivs`); here the pieces are put together as `reconstruct` (the model of `part_from_matchfile`) and
`Score.roundTrip` (write, then read) put them together:

* `reconstruct_spec`   for EVERY input on which the reconstruction succeeds: each loaded note comes from exactly its own
                       snote line and the FIRST line of its bar, through `barTime`, `notePos`, `durDivs` with the divisions
                       `importDivs` of all lines; each bar line from the first line of its bar; nothing else enters;
* `roundtrip_durations`  end to end, for every written score and every list of stored notes: every loaded duration is
                       the saved duration (same number of quarters), with no side condition beyond a valid score;
* `roundtrip_onsets`   end to end: every stored note whose `OnsetInBeats` fallback did not fire is loaded exactly at its
                       saved distance from the loaded origin, under the grid / exactness conditions of `onset_roundtrip`.
-/
import PartituraModel.Model.MatchTime
import PartituraModel.Proofs.C08
import PartituraModel.Proofs.C08Sort
import PartituraModel.Proofs.C08Compose
import PartituraModel.Proofs.C08Fallback
import PartituraModel.Props.C08
import PartituraModel.Props.C08Mixed
import PartituraModel.Props.C08Format
import PartituraModel.Props.C08Round5
import PartituraModel.Proofs.C08Mixed
import Mathlib.Tactic.Ring
import Mathlib.Tactic.FieldSimp
import Mathlib.Tactic.Linarith

namespace C08
open Model Model.MatchTime

/-- the snotes in the reader's order (`sort_snotes`), with their position in the file -/
def sortedNotes (raw : List SNote) : List (Nat × SNote) := sortSNotes ((List.range raw.length).zip raw)

/-- the closing point of the reader's signature maps: the largest `OffsetInBeats`, or the last time signature if later -/
def readerMaxTime (raw : List SNote) (ts : List TSLine) : Rat :=
  match (sortedNotes raw).head? with
  | none => 0
  | some first => closingTime ((sortedNotes raw).map (·.2.offsetB)) first.2.offsetB ts

theorem clip_eq_max (x : Int) : (if x < 0 then 0 else x) = max 0 x := by
  split
  · rename_i h; rw [max_eq_left (le_of_lt h)]
  · rename_i h; rw [max_eq_right (not_lt.mp h)]

/-- the loaded onset is the computed one unless the fallback fired -/
theorem onset_cases (od oid atol : Rat) :
    (if (!isClose od oid atol) = true then oid else od) = od
    ∨ ¬ isClose od (if (!isClose od oid atol) = true then oid else od) atol = true := by
  cases h : isClose od oid atol <;> simp [h]

/-- **reconstruct_spec.**  Whenever `reconstruct` succeeds (any snotes, any signature lines):
    * the divisions are `importDivs` of all the lines;
    * every loaded note `(i, onset, durs)` is made from line `i` (`n`) and the first line `n₁` of the bar with `n`'s
      measure number: its durations are `durDivs` of the duration (or of each additive component), and its onset is
      `round(divs · notePos(barTime n₁, beat, beat type, offset, shift))` unless the `OnsetInBeats` fallback fired
      (then it is the interpolated `onset_in_divs`);
    * the shift is the position of the EARLIEST line `nmin` (smallest `OnsetInBeats`; fix C08-19), if that is before
      beat 0;
    * every bar line `(b, p)` is `max 0 (round(divs · (barTime n₁ − shift)))` for the first line `n₁` of bar `b`. -/
theorem reconstruct_spec (raw : List SNote) (ts : List TSLine) (ks : List (Rat × Int)) (r : Recon)
    (h : reconstruct raw ts ks = some r) :
    r.divs = importDivs ts (readerMaxTime raw ts) ((sortedNotes raw).map (·.2))
    ∧ (∀ y ∈ r.notes, ∃ n n₁ : SNote, raw[y.1]? = some n ∧ firstOfBar (sortedNotes raw) n.measure = some n₁
        ∧ n₁.measure = n.measure ∧ n₁ ∈ raw
        ∧ y.2.2 = (if n.comps.isEmpty then [durDivs r.divs n.dur] else n.comps.map (durDivs r.divs))
        ∧ (y.2.1 = (roundHalfEven ((r.divs : Rat) * notePos (barTime ts (readerMaxTime raw ts) n₁) n.beat
                      (denAtBeats ts (readerMaxTime raw ts) n.onsetB) n.offset.val r.shiftQ) : Rat)
           ∨ ¬ isClose ((roundHalfEven ((r.divs : Rat) * notePos (barTime ts (readerMaxTime raw ts) n₁) n.beat
                      (denAtBeats ts (readerMaxTime raw ts) n.onsetB) n.offset.val r.shiftQ) : Int) : Rat)
                y.2.1 ((r.divs : Rat) / 100) = true))
    ∧ (∀ bl ∈ r.barlines, ∃ n₁ : SNote, firstOfBar (sortedNotes raw) bl.1 = some n₁ ∧ n₁.measure = bl.1 ∧ n₁ ∈ raw
        ∧ bl.2 = max 0 (roundHalfEven ((r.divs : Rat) * (barTime ts (readerMaxTime raw ts) n₁ - r.shiftQ))))
    ∧ (∃ first, (sortedNotes raw).head? = some first ∧ first.2 ∈ raw
        ∧ ∃ nmin, nmin ∈ raw ∧ (∀ n ∈ raw, nmin.onsetB ≤ n.onsetB)
          ∧ ((sortedNotes raw).map (·.2.onsetB)).foldl min first.2.onsetB = nmin.onsetB
          ∧ r.shiftQ = min (beatsToQuarters ts nmin.onsetB) 0) := by
  unfold reconstruct at h
  simp only [Option.bind_eq_bind, Option.bind_eq_some_iff, Option.pure_def, Option.some.injEq] at h
  obtain ⟨first, hfirst, _, _, bars, hb, notesFb, hn, _, _, _, _, _, _, hr⟩ := h
  -- the closing point of the maps, as `reconstruct` computes it
  have hmax : closingTime ((sortSNotes ((List.range raw.length).zip raw)).map (·.2.offsetB)) first.2.offsetB ts
      = readerMaxTime raw ts := by
    unfold readerMaxTime sortedNotes
    rw [hfirst]
  simp only [hmax] at hb hn hr
  have hraw_of_sorted : ∀ p ∈ sortedNotes raw, raw[p.1]? = some p.2 ∧ p.2 ∈ raw := by
    intro p hp
    have hp' : p ∈ (List.range raw.length).zip raw := C08S.mem_sortBy.mp hp
    have h1 := C08C.mem_zip_range raw p.1 p.2 hp'
    exact ⟨h1, List.mem_of_getElem? h1⟩
  -- the bars: name and start from the first line of the bar
  have hbars : ∀ bq ∈ bars, ∃ n₁, firstOfBar (sortedNotes raw) bq.1 = some n₁
      ∧ bq.2 = barTime ts (readerMaxTime raw ts) n₁ := by
    intro bq hbq
    obtain ⟨b, _, hfb⟩ := C08C.mapM_mem _ _ _ hb bq hbq
    cases hf : firstOfBar (sortSNotes ((List.range raw.length).zip raw)) b with
    | none => simp [hf] at hfb
    | some n₁ =>
      simp only [hf, Option.bind_some, Option.some.injEq] at hfb
      subst hfb
      exact ⟨n₁, hf, rfl⟩
  subst hr
  refine ⟨rfl, ?_, ?_, ?_⟩
  · intro y hy
    simp only [List.mem_map] at hy
    obtain ⟨yf, hyf, rfl⟩ := hy
    obtain ⟨p, hp, hfp⟩ := C08C.mapM_mem _ _ _ hn yf hyf
    obtain ⟨hrawp, _⟩ := hraw_of_sorted p hp
    cases hl : lookup p.2.measure bars with
    | none => simp [hl] at hfp
    | some bt =>
      simp only [hl, Option.bind_some, Option.some.injEq] at hfp
      obtain ⟨n₁, hf1, hbt⟩ := hbars _ (C08C.lookup_mem _ _ _ hl)
      obtain ⟨hm1, j, hj⟩ := C08C.firstOfBar_spec _ _ _ hf1
      have hn1raw := (hraw_of_sorted (j, n₁) hj).2
      simp only at hbt
      subst hbt
      subst hfp
      exact ⟨p.2, n₁, hrawp, hf1, hm1, hn1raw, rfl, onset_cases _ _ _⟩
  · intro bl hbl
    simp only [List.mem_map] at hbl
    obtain ⟨bq, hbq, rfl⟩ := hbl
    obtain ⟨n₁, hf1, hbt⟩ := hbars bq hbq
    obtain ⟨hm1, j, hj⟩ := C08C.firstOfBar_spec _ _ _ hf1
    refine ⟨n₁, hf1, hm1, (hraw_of_sorted (j, n₁) hj).2, ?_⟩
    simp only
    rw [← hbt]
    exact clip_eq_max _
  · have hfraw := (hraw_of_sorted first (List.mem_of_mem_head? hfirst)).2
    refine ⟨first, hfirst, hfraw, ?_⟩
    obtain ⟨hin, _, hall⟩ := C08F.foldl_min_spec ((sortedNotes raw).map (·.2.onsetB)) first.2.onsetB
    -- the smallest `OnsetInBeats` is the one of a line
    obtain ⟨nmin, hnmin, hminB⟩ : ∃ nmin, nmin ∈ raw
        ∧ ((sortedNotes raw).map (·.2.onsetB)).foldl min first.2.onsetB = nmin.onsetB := by
      rcases hin with h0 | h0
      · exact ⟨first.2, hfraw, h0⟩
      · obtain ⟨p, hp, hpe⟩ := List.mem_map.mp h0
        exact ⟨p.2, (hraw_of_sorted p hp).2, hpe.symm⟩
    refine ⟨nmin, hnmin, ?_, hminB, ?_⟩
    · intro n hn
      obtain ⟨i, hi⟩ := List.mem_iff_getElem?.mp hn
      have hz : (i, n) ∈ sortedNotes raw := C08S.mem_sortBy.mpr (C08C.zip_range_mem raw i n hi)
      rw [← hminB]
      exact hall _ (List.mem_map.mpr ⟨(i, n), hz, rfl⟩)
    · rw [← hminB]
      unfold sortedNotes
      simp only
      split
      · rename_i hpos; rw [min_eq_right (le_of_lt hpos)]
      · rename_i hnp; rw [min_eq_left (not_lt.mp hnp)]

/-! ### end to end: write, then read -/

/-- the file view of `Score.roundTrip`: the lines of the stored notes, then the reconstruction -/
theorem roundTrip_lines (sc : Score) (stored : List (Int × Int)) (ks : List (Int × Nat)) (r : Recon)
    (h : sc.roundTrip stored ks = some r) :
    ∃ sts, sc.storedLines stored = some sts
      ∧ reconstruct (sts.map STime.toSNote) sc.readTS (sc.readKS ks) = some r := by
  unfold Score.roundTrip at h
  cases hs : sc.storedLines stored with
  | none => simp [hs] at h
  | some sts => exact ⟨sts, rfl, by simpa [hs] using h⟩

/-- line `i` of the file is the encoding of stored note `i` in the measure it is found in -/
theorem stored_line (sc : Score) (stored : List (Int × Int)) (sts : List STime) (h : sc.storedLines stored = some sts)
    (i : Nat) (st : STime) (hi : sts[i]? = some st) :
    ∃ o d mi, stored[i]? = some (o, d) ∧ sc.measureOf o = some mi ∧ sc.encode mi o d = some st := by
  unfold Score.storedLines at h
  obtain ⟨p, hp, hf⟩ := C08C.mapM_getElem? _ _ _ h i st hi
  cases hm : sc.measureOf p.1 with
  | none => simp [hm] at hf
  | some mi =>
    simp only [hm, Option.bind_eq_bind, Option.bind_some] at hf
    exact ⟨p.1, p.2, mi, hp, hm, hf⟩

/-- the fields of an encoded note -/
theorem encode_fields (sc : Score) (mi : Nat) (o d : Int) (st : STime) (h : sc.encode mi o d = some st) :
    ∃ m s, sc.ms[mi]? = some m ∧ tsAt sc.ts o = some s
      ∧ st.measure = sc.firstMeasureNumber + mi ∧ st.beat = encBeat sc.divs s.den (o - m.s) + 1
      ∧ st.offset = encOffset sc.divs s.den (o - m.s) ∧ st.dur = encDur sc.divs d
      ∧ st.onsetB = sc.beats o ∧ st.offsetB = sc.beats (o + d) := by
  unfold Score.encode at h
  cases hm : sc.ms[mi]? with
  | none => simp [hm] at h
  | some m =>
    cases hs : tsAt sc.ts o with
    | none => simp [hm, hs] at h
    | some s =>
      simp [hm, hs] at h
      subst h
      exact ⟨m, s, rfl, rfl, rfl, rfl, rfl, rfl, rfl, rfl⟩

/-- **roundtrip_durations.**  End to end, for EVERY score with a positive divisions value, every list of stored notes
    (onset, tied duration ≥ 0) and key signatures: whenever writing and reading succeeds, every loaded note `i` has one
    duration component, and it is the saved duration of stored note `i` — the same number of quarters
    (`loaded / reader's divisions = saved / score's divisions`).  No grid or exactness condition is needed: the
    reader's divisions are a multiple of every written denominator. -/
theorem roundtrip_durations (sc : Score) (hdivs : 0 < sc.divs) (stored : List (Int × Int)) (ks : List (Int × Nat))
    (r : Recon) (h : sc.roundTrip stored ks = some r) (hd : ∀ p ∈ stored, 0 ≤ p.2) :
    ∀ y ∈ r.notes, ∃ o d z, stored[y.1]? = some (o, d) ∧ y.2.2 = [z]
      ∧ (z : Rat) / (r.divs : Rat) = (d : Rat) / (sc.divs : Rat) ∧ 0 < r.divs := by
  obtain ⟨sts, hsts, hrec⟩ := roundTrip_lines sc stored ks r h
  obtain ⟨hD, hnotes, _, _⟩ := reconstruct_spec _ _ _ r hrec
  intro y hy
  obtain ⟨n, n₁, hraw, _, _, _, hdurs, _⟩ := hnotes y hy
  rw [List.getElem?_map] at hraw
  cases hst : sts[y.1]? with
  | none => simp [hst] at hraw
  | some st =>
    simp only [hst, Option.map_some, Option.some.injEq] at hraw
    obtain ⟨o, d, mi, hsto, _, henc⟩ := stored_line sc stored sts hsts y.1 st hst
    obtain ⟨m, s, _, _, _, _, _, hdur, _, _⟩ := encode_fields sc mi o d st henc
    have hd0 : 0 ≤ d := hd (o, d) (List.mem_of_getElem? hsto)
    -- the note is one of the sorted notes, so its written denominator divides the reader's divisions
    have hmem : n ∈ (sortedNotes (sts.map STime.toSNote)).map (·.2) := by
      have h1 : (sts.map STime.toSNote)[y.1]? = some n := by rw [List.getElem?_map, hst, ← hraw]; rfl
      have h2 := C08C.zip_range_mem _ _ _ h1
      exact List.mem_map.mpr ⟨(y.1, n), C08S.mem_sortBy.mpr h2, rfl⟩
    have hnd : n.dur = Frac.ofRat (encDur sc.divs d) := by rw [← hraw]; simp [STime.toSNote, hdur]
    have hnc : n.comps = [] := by rw [← hraw]; rfl
    have hdvd : (encDur sc.divs d).den ∣ 4 * r.divs := by
      have h1 : max (denAtBeats sc.readTS (readerMaxTime (sts.map STime.toSNote) sc.readTS) n.onsetB / 4) 1
          * n.dur.den * n.dur.tup ∣ r.divs := by
        rw [hD]
        apply C08P.dvd_natLcm
        rw [List.mem_flatMap]
        exact ⟨n, hmem, by simp⟩
      have h2 : n.dur.den ∣ r.divs := by
        refine Dvd.dvd.trans ?_ h1
        exact ⟨max (denAtBeats sc.readTS (readerMaxTime (sts.map STime.toSNote) sc.readTS) n.onsetB / 4) 1 * n.dur.tup,
          by ring⟩
      have h3 : n.dur.den = (encDur sc.divs d).den := by rw [hnd]; rfl
      rw [← h3]
      exact Dvd.dvd.mul_left h2 4
    have hDpos : 0 < r.divs := by
      rw [hD]
      apply C08P.natLcm_pos
      intro a ha
      rw [List.mem_flatMap] at ha
      obtain ⟨x, hx, hax⟩ := ha
      -- every written denominator is positive: the lines come from `Frac.ofRat`
      obtain ⟨px, hpx, rfl⟩ := List.mem_map.mp hx
      have hpx' : px ∈ (List.range (sts.map STime.toSNote).length).zip (sts.map STime.toSNote) := C08S.mem_sortBy.mp hpx
      have hx2 := List.mem_of_getElem? (C08C.mem_zip_range _ _ _ hpx')
      obtain ⟨stx, _, hstx⟩ := List.mem_map.mp hx2
      have hoff : 0 < px.2.offset.den ∧ px.2.offset.tup = 1 ∧ 0 < px.2.dur.den ∧ px.2.dur.tup = 1 := by
        rw [← hstx]
        exact ⟨Rat.den_pos _, rfl, Rat.den_pos _, rfl⟩
      have hk : 0 < max (denAtBeats sc.readTS (readerMaxTime (sts.map STime.toSNote) sc.readTS) px.2.onsetB / 4) 1 :=
        lt_of_lt_of_le Nat.one_pos (le_max_right _ _)
      simp only [List.mem_cons, List.not_mem_nil, or_false] at hax
      rcases hax with rfl | rfl
      · rw [hoff.2.1, Nat.mul_one]; exact Nat.mul_pos hk hoff.1
      · rw [hoff.2.2.2, Nat.mul_one]; exact Nat.mul_pos hk hoff.2.2.1
    refine ⟨o, d, durDivs r.divs (Frac.ofRat (encDur sc.divs d)), hsto, ?_, ?_, hDpos⟩
    · rw [hdurs, hnc, hnd]; rfl
    · rw [duration_roundtrip r.divs sc.divs d hd0 hdivs hdvd]
      have hDne : (r.divs : Rat) ≠ 0 := by exact_mod_cast (Nat.pos_iff_ne_zero.mp hDpos)
      field_simp

/-- non-vacuity: `exampleScore` (3/4 pickup | 6/8 | 2/2, 4 divisions per quarter) with a quarter, a
    dotted quarter and a half note stored: the file is read with 16 divisions per quarter (lcm of the written
    denominators 4, 8, 2, times 2 for the beat type 8), the durations come back times four -/
example : ((exampleScore.roundTrip [(0, 4), (4, 6), (20, 8)] []).map fun r => (r.divs, r.notes.map (·.2.2)))
    = some (16, [[16], [24], [32]]) := by
  decide +kernel

/-- the beat type the reader looks up for a written note is the one of the note's time signature -/
theorem denAt_written (sc : Score) (wf : WrittenScore sc) (mnum : Int → Int)
    (s0 : TSig) (rest : List TSig) (hts : sc.ts = s0 :: rest) (o : Int) (ho : s0.t ≤ o)
    (sk : TSig) (hat : tsAt sc.ts o = some sk) (maxTime : Rat)
    (hend : dec4 (sc.beats o) < maxTime ∨ sc.ts.getLast? = some sk) :
    denAtBeats (sc.tsLines mnum) maxTime (dec4 (sc.beats o)) = sk.den := by
  have hpw := C08M.PW_score sc wf.sorted
  have hsorted := wf.sorted
  have hden := wf.den_pos
  have hat' := hat
  rw [hts] at hpw hsorted hden hat'
  have hats := C08M.hats_of_small_divs sc.divs wf.divs_pos wf.divs_small sc.beats rest s0 hsorted hpw hden
  have hseg := C08M.segOK_of_small_divs sc.divs wf.divs_pos wf.divs_small sc.beats rest s0 hsorted hpw hden o ho
  obtain ⟨hmem, hkb, hmax⟩ := C08M.seg_facts sc.beats rest s0 hats o (dec4 (sc.beats o)) sk hseg hat'
  rw [C08M.tsLines_eq, hts, List.map_cons]
  apply C08M.denAtBeats_seg (C08M.tsLineOf sc.beats mnum s0) (rest.map (C08M.tsLineOf sc.beats mnum)) maxTime
    (dec4 (sc.beats o)) (C08M.tsLineOf sc.beats mnum sk)
  · rw [← List.map_cons]; exact List.mem_map.mpr ⟨sk, hmem, rfl⟩
  · exact hkb
  · intro x hx hxb
    rw [← List.map_cons] at hx
    obtain ⟨y, hy, rfl⟩ := List.mem_map.mp hx
    exact hmax y hy hxb
  · rcases hend with h | h
    · left; exact h
    · right
      rw [← List.map_cons, C08M.getLast?_getD_map, ← hts, h]
      rfl

/-- in a list whose keys increase strictly, every element other than the last has a smaller key than the last -/
theorem lt_last_of_pairwise {α : Type} (f : α → Rat) : ∀ (l : List α) (last x : α), (l.map f).Pairwise (· < ·) →
    l.getLast? = some last → x ∈ l → x ≠ last → f x < f last := by
  intro l
  induction l with
  | nil => intro last x _ h; simp at h
  | cons a rest ih =>
    intro last x hpw hlast hx hne
    cases rest with
    | nil =>
      simp at hlast hx
      subst hlast; subst hx; exact absurd rfl hne
    | cons b r =>
      rw [List.getLast?_cons_cons] at hlast
      rw [List.map_cons, List.pairwise_cons] at hpw
      rcases List.mem_cons.mp hx with rfl | hx'
      · exact hpw.1 (f last) (List.mem_map_of_mem (C08P.mem_of_getLast? hlast))
      · exact ih last x hpw.2 hlast hx' hne

/-- the closing point of the reader's maps is not before the last time-signature line -/
theorem closingTime_ge_last (offs : List Rat) (first : Rat) (ts : List TSLine) (s : TSLine) (h : ts.getLast? = some s) :
    s.timeB ≤ closingTime offs first ts := by
  unfold closingTime
  simp only [h]
  split
  · exact le_refl _
  · rename_i hn; exact not_lt.mp hn

/-- **written_note_before_closing_point** (`hend` of `bars_recovered` / `onset_roundtrip`, discharged).  For a written
    score, any `M` not before the written time of the last time signature: the four-decimal beat time of a note lies
    before `M`, or the note stands under the last time signature. -/
theorem written_note_before_closing_point (sc : Score) (wf : WrittenScore sc)
    (s0 : TSig) (rest : List TSig) (hts : sc.ts = s0 :: rest) (o : Int) (ho : s0.t ≤ o)
    (sk : TSig) (hat : tsAt sc.ts o = some sk) (M : Rat)
    (hM : ∀ s, sc.ts.getLast? = some s → dec4 (sc.beats s.t) ≤ M) :
    dec4 (sc.beats o) < M ∨ sc.ts.getLast? = some sk := by
  have hpw := C08M.PW_score sc wf.sorted
  have hsorted := wf.sorted
  have hden := wf.den_pos
  have hat' := hat
  rw [hts] at hpw hsorted hden hat'
  have hats := C08M.hats_of_small_divs sc.divs wf.divs_pos wf.divs_small sc.beats rest s0 hsorted hpw hden
  have hseg := C08M.segOK_of_small_divs sc.divs wf.divs_pos wf.divs_small sc.beats rest s0 hsorted hpw hden o ho
  obtain ⟨hmem, _, hmax⟩ := C08M.seg_facts sc.beats rest s0 hats o (dec4 (sc.beats o)) sk hseg hat'
  obtain ⟨last, hlast⟩ : ∃ last, (s0 :: rest).getLast? = some last := by
    cases hl : (s0 :: rest).getLast? with
    | none => simp at hl
    | some l => exact ⟨l, rfl⟩
  by_cases hsk : sk = last
  · right; rw [hts, hsk]; exact hlast
  · left
    have hlt := lt_last_of_pairwise (fun x : TSig => dec4 (sc.beats x.t)) (s0 :: rest) last sk hats hlast hmem hsk
    have hMl : dec4 (sc.beats last.t) ≤ M := hM last (by rw [hts]; exact hlast)
    by_contra hc
    have hle : dec4 (sc.beats last.t) ≤ dec4 (sc.beats o) := le_trans hMl (not_lt.mp hc)
    have := (hmax last (C08P.mem_of_getLast? hlast) hle).1
    linarith

/-- **roundtrip_onsets.**  End to end.  A written score (`WrittenScore`: fewer than 2500 divisions, time signatures in
    order, positive beat types) whose time-signature lines are read as they were written (`hTS`: none is dropped by the
    reader's collapse of repeated values) and whose changes of time signature fall on beat times that four decimals hold
    (`hexact`: whole beats — changes at bar lines after complete bars); stored notes at or after the first time signature;
    the reader's divisions below 1250 and every stored note on the reader's division grid counted from the loaded origin
    (`hgrid`; inherent, theorem `barline_off_grid`).  Then EVERY loaded note `i` whose `OnsetInBeats` fallback did not fire
    sits exactly `reader's divisions × (saved distance in quarters from the loaded origin)` — the origin being the
    earliest line (smallest written beat time) if it lies before beat 0, else beat 0. -/
theorem roundtrip_onsets (sc : Score) (wf : WrittenScore sc) (stored : List (Int × Int)) (ks : List (Int × Nat))
    (r : Recon) (h : sc.roundTrip stored ks = some r)
    (mnum : Int → Int) (hTS : sc.readTS = sc.tsLines mnum)
    (s0 : TSig) (rest : List TSig) (hts : sc.ts = s0 :: rest)
    (hafter : ∀ p ∈ stored, s0.t ≤ p.1)
    (hexact : ∀ x ∈ rest, dec4 (sc.beats x.t) = sc.beats x.t)
    (hD : r.divs < 1250)
    (hgrid : ∀ p ∈ stored, ∀ q ∈ stored, ∃ z : Int,
      (r.divs : Rat) * (sc.quarters p.1 - min (sc.quarters q.1) 0) = (z : Rat)) :
    ∃ of dfirst, (of, dfirst) ∈ stored ∧ ∀ y ∈ r.notes, ∃ o d, stored[y.1]? = some (o, d)
      ∧ (y.2.1 = (r.divs : Rat) * (sc.quarters o - min (sc.quarters of) 0)
         ∨ ¬ isClose ((r.divs : Rat) * (sc.quarters o - min (sc.quarters of) 0)) y.2.1 ((r.divs : Rat) / 100) = true) := by
  obtain ⟨sts, hsts, hrec⟩ := roundTrip_lines sc stored ks r h
  obtain ⟨_, hnotes, _, first, hfirsthead, _, nmin, hnminraw, _, _, hshift⟩ := reconstruct_spec _ _ _ r hrec
  set M := readerMaxTime (sts.map STime.toSNote) sc.readTS with hM
  have hMge : ∀ s, sc.ts.getLast? = some s → dec4 (sc.beats s.t) ≤ M := by
    intro s hs
    have hl : sc.readTS.getLast? = some (C08M.tsLineOf sc.beats mnum s) := by
      rw [hTS, C08M.tsLines_eq, List.getLast?_map, hs]; rfl
    have hge := closingTime_ge_last ((sortedNotes (sts.map STime.toSNote)).map (·.2.offsetB)) first.2.offsetB sc.readTS _ hl
    rw [hM]; unfold readerMaxTime; rw [hfirsthead]; exact hge
  have hend : ∀ p ∈ stored, ∀ sk, tsAt sc.ts p.1 = some sk → dec4 (sc.beats p.1) < M ∨ sc.ts.getLast? = some sk :=
    fun p hp sk hat => written_note_before_closing_point sc wf s0 rest hts p.1 (hafter p hp) sk hat M hMge
  -- a line of the file is the encoding of a stored note
  have line_of : ∀ n : SNote, n ∈ sts.map STime.toSNote → ∃ (o d : Int) (mi : Nat) (m : Meas) (s : TSig), (o, d) ∈ stored ∧ sc.ms[mi]? = some m
      ∧ tsAt sc.ts o = some s ∧ n.measure = sc.firstMeasureNumber + mi
      ∧ n.beat = encBeat sc.divs s.den (o - m.s) + 1 ∧ n.offset = Frac.ofRat (encOffset sc.divs s.den (o - m.s))
      ∧ n.onsetB = dec4 (sc.beats o) := by
    intro n hn
    obtain ⟨st, hst, rfl⟩ := List.mem_map.mp hn
    obtain ⟨j, hj⟩ := List.mem_iff_getElem?.mp hst
    obtain ⟨o, d, mi, hsto, _, henc⟩ := stored_line sc stored sts hsts j st hj
    obtain ⟨m, s, hm, hs, h1, h2, h3, _, h5, _⟩ := encode_fields sc mi o d st henc
    exact ⟨o, d, mi, m, s, List.mem_of_getElem? hsto, hm, hs, h1, by simp [STime.toSNote, h2],
      by simp [STime.toSNote, h3], by simp [STime.toSNote, h5]⟩
  -- the earliest line
  obtain ⟨of, dfirst, _, _, sf, hofmem, _, hsf, _, _, _, hfon⟩ := line_of nmin hnminraw
  refine ⟨of, dfirst, hofmem, ?_⟩
  intro y hy
  obtain ⟨n, n₁, hraw, _, hmeas, hn1raw, _, honset⟩ := hnotes y hy
  have hnraw : n ∈ sts.map STime.toSNote := List.mem_of_getElem? hraw
  -- which stored note line `y.1` is
  rw [List.getElem?_map] at hraw
  cases hst : sts[y.1]? with
  | none => simp [hst] at hraw
  | some st =>
    simp only [hst, Option.map_some, Option.some.injEq] at hraw
    obtain ⟨o, d, mi, hsto, _, henc⟩ := stored_line sc stored sts hsts y.1 st hst
    obtain ⟨m, s, hm, hs, hnm, hnb, hno, _, hnon, _⟩ := encode_fields sc mi o d st henc
    have homem : (o, d) ∈ stored := List.mem_of_getElem? hsto
    obtain ⟨o₁, d₁, mj, m₁, s₁, ho1mem, hm1, hs1, hn1m, hn1b, hn1o, hn1on⟩ := line_of n₁ hn1raw
    -- the first line of the bar lies in the same measure
    have hmij : mj = mi := by
      have : n.measure = sc.firstMeasureNumber + mi := by rw [← hraw]; simp [STime.toSNote, hnm]
      rw [hn1m, this] at hmeas
      omega
    subst hmij
    have hmm : m₁ = m := by rw [hm] at hm1; exact (Option.some.inj hm1).symm
    subst hmm
    refine ⟨o, d, hsto, ?_⟩
    -- the onset `reconstruct` computes is the exact one
    have hwritten : (roundHalfEven ((r.divs : Rat) * notePos (barTime sc.readTS M n₁) n.beat
        (denAtBeats sc.readTS M n.onsetB) n.offset.val r.shiftQ) : Int)
        = (roundHalfEven ((r.divs : Rat) * notePos (barTime (sc.tsLines mnum) M n₁) (encBeat sc.divs s.den (o - m₁.s) + 1) s.den
            (Frac.ofRat (encOffset sc.divs s.den (o - m₁.s))).val
            (min (beatsToQuarters (sc.tsLines mnum) (dec4 (sc.beats of))) 0)) : Int) := by
      have hb : n.beat = encBeat sc.divs s.den (o - m₁.s) + 1 := by rw [← hraw]; simp [STime.toSNote, hnb]
      have hoff : n.offset = Frac.ofRat (encOffset sc.divs s.den (o - m₁.s)) := by rw [← hraw]; simp [STime.toSNote, hno]
      have hon : n.onsetB = dec4 (sc.beats o) := by rw [← hraw]; simp [STime.toSNote, hnon]
      rw [hshift, hTS, hb, hoff, hon, hfon,
        denAt_written sc wf mnum s0 rest hts o (hafter _ homem) s hs M (hend _ homem s hs)]
    obtain ⟨z, hz⟩ := hgrid (o, d) homem (of, dfirst) hofmem
    have hk1 : knotErr sc.beats sc.ts o₁ = 0 := by rw [hts]; exact C08M.knotErr_exact sc.beats rest s0 o₁ hexact
    have hkf : knotErr sc.beats sc.ts of = 0 := by rw [hts]; exact C08M.knotErr_exact sc.beats rest s0 of hexact
    have hmem_of_at : ∀ (t : Int) (sk : TSig), s0.t ≤ t → tsAt sc.ts t = some sk → 0 < sk.den := by
      intro t sk ht hat
      have hpw := C08M.PW_score sc wf.sorted
      have hsorted := wf.sorted
      have hden := wf.den_pos
      have hat' := hat
      rw [hts] at hpw hsorted hden hat'
      have hats := C08M.hats_of_small_divs sc.divs wf.divs_pos wf.divs_small sc.beats rest s0 hsorted hpw hden
      have hseg := C08M.segOK_of_small_divs sc.divs wf.divs_pos wf.divs_small sc.beats rest s0 hsorted hpw hden t ht
      exact hden sk (C08M.seg_facts sc.beats rest s0 hats t (dec4 (sc.beats t)) sk hseg hat').1
    have hs1pos := hmem_of_at o₁ s₁ (hafter _ ho1mem) hs1
    have hsfpos := hmem_of_at of sf (hafter _ hofmem) hsf
    have hspos := hmem_of_at o s (hafter _ homem) hs
    have hbound : (r.divs : Rat) * ((1 / (5000 * (s₁.den : Rat)) + |knotErr sc.beats sc.ts o₁|)
        + (1 / (5000 * (sf.den : Rat)) + |knotErr sc.beats sc.ts of|)) < 1 / 2 := by
      rw [hk1, hkf, abs_zero, add_zero, add_zero]
      have h1 : (1 : Rat) / (5000 * (s₁.den : Rat)) ≤ 1 / 5000 := by
        apply div_le_div_of_nonneg_left (by norm_num) (by norm_num)
        have : (1 : Rat) ≤ (s₁.den : Rat) := by exact_mod_cast hs1pos
        linarith
      have h2 : (1 : Rat) / (5000 * (sf.den : Rat)) ≤ 1 / 5000 := by
        apply div_le_div_of_nonneg_left (by norm_num) (by norm_num)
        have : (1 : Rat) ≤ (sf.den : Rat) := by exact_mod_cast hsfpos
        linarith
      have hDr : (r.divs : Rat) < 1250 := by exact_mod_cast hD
      have hDnn : (0 : Rat) ≤ (r.divs : Rat) := by positivity
      nlinarith
    have hq : sc.quarters m₁.s + ((o - m₁.s : Int) : Rat) / (sc.divs : Rat) = sc.quarters o := by
      unfold Score.quarters
      rw [hts]
      simp only
      push_cast
      ring
    have hexactz := onset_roundtrip sc wf mnum s0 rest hts of (hafter _ hofmem) sf hsf m₁.s o₁ (hafter _ ho1mem) s₁ hs1 M n₁
      hn1b hn1o hn1on (by rw [hn1on]; exact hend _ ho1mem s₁ hs1) (o - m₁.s) s.den hspos r.divs hbound z (by rw [hq]; exact hz)
    rw [hwritten, hexactz, ← hz] at honset
    exact honset

/-- **roundtrip_bars.**  End to end, under the hypotheses of `roundtrip_onsets` (the grid condition now for the bar
    lines): every loaded bar line `(number, position)` belongs to a measure of the score that holds a stored note — the
    number is the position of that measure among the measures (from 0 with a pickup, else from 1) — and lies exactly at
    the measure's saved distance in quarters from the loaded origin (clipped to the origin: a measure that starts before
    the first stored note begins with it); and every measure that holds a stored note gets its bar line. -/
theorem roundtrip_bars (sc : Score) (wf : WrittenScore sc) (stored : List (Int × Int)) (ks : List (Int × Nat))
    (r : Recon) (h : sc.roundTrip stored ks = some r)
    (mnum : Int → Int) (hTS : sc.readTS = sc.tsLines mnum)
    (s0 : TSig) (rest : List TSig) (hts : sc.ts = s0 :: rest)
    (hafter : ∀ p ∈ stored, s0.t ≤ p.1)
    (hexact : ∀ x ∈ rest, dec4 (sc.beats x.t) = sc.beats x.t)
    (hD : r.divs < 1250)
    (hgrid : ∀ p ∈ stored, ∀ mi m, sc.measureOf p.1 = some mi → sc.ms[mi]? = some m → ∀ q ∈ stored, ∃ z : Int,
      (r.divs : Rat) * (sc.quarters m.s - min (sc.quarters q.1) 0) = (z : Rat)) :
    ∃ of dfirst, (of, dfirst) ∈ stored
      ∧ (∀ bl ∈ r.barlines, ∃ (mi : Nat) (m : Meas) (z : Int), sc.ms[mi]? = some m ∧ bl.1 = sc.firstMeasureNumber + mi
          ∧ (∃ p ∈ stored, sc.measureOf p.1 = some mi)
          ∧ (z : Rat) = (r.divs : Rat) * (sc.quarters m.s - min (sc.quarters of) 0) ∧ bl.2 = max 0 z)
      ∧ (∀ p ∈ stored, ∀ mi, sc.measureOf p.1 = some mi → ∃ bl ∈ r.barlines, bl.1 = sc.firstMeasureNumber + mi) := by
  obtain ⟨sts, hsts, hrec⟩ := roundTrip_lines sc stored ks r h
  obtain ⟨_, _, hbars, first, hfirsthead, _, nmin, hnminraw, _, _, hshift⟩ := reconstruct_spec _ _ _ r hrec
  set M := readerMaxTime (sts.map STime.toSNote) sc.readTS with hM
  have hMge : ∀ s, sc.ts.getLast? = some s → dec4 (sc.beats s.t) ≤ M := by
    intro s hs
    have hl : sc.readTS.getLast? = some (C08M.tsLineOf sc.beats mnum s) := by
      rw [hTS, C08M.tsLines_eq, List.getLast?_map, hs]; rfl
    have hge := closingTime_ge_last ((sortedNotes (sts.map STime.toSNote)).map (·.2.offsetB)) first.2.offsetB sc.readTS _ hl
    rw [hM]; unfold readerMaxTime; rw [hfirsthead]; exact hge
  have hend : ∀ p ∈ stored, ∀ sk, tsAt sc.ts p.1 = some sk → dec4 (sc.beats p.1) < M ∨ sc.ts.getLast? = some sk :=
    fun p hp sk hat => written_note_before_closing_point sc wf s0 rest hts p.1 (hafter p hp) sk hat M hMge
  have line_of : ∀ n : SNote, n ∈ sts.map STime.toSNote → ∃ (o d : Int) (mi : Nat) (m : Meas) (s : TSig), (o, d) ∈ stored
      ∧ sc.measureOf o = some mi ∧ sc.ms[mi]? = some m
      ∧ tsAt sc.ts o = some s ∧ n.measure = sc.firstMeasureNumber + mi
      ∧ n.beat = encBeat sc.divs s.den (o - m.s) + 1 ∧ n.offset = Frac.ofRat (encOffset sc.divs s.den (o - m.s))
      ∧ n.onsetB = dec4 (sc.beats o) := by
    intro n hn
    obtain ⟨st, hst, rfl⟩ := List.mem_map.mp hn
    obtain ⟨j, hj⟩ := List.mem_iff_getElem?.mp hst
    obtain ⟨o, d, mi, hsto, hmo, henc⟩ := stored_line sc stored sts hsts j st hj
    obtain ⟨m, s, hm, hs, h1, h2, h3, _, h5, _⟩ := encode_fields sc mi o d st henc
    exact ⟨o, d, mi, m, s, List.mem_of_getElem? hsto, hmo, hm, hs, h1, by simp [STime.toSNote, h2],
      by simp [STime.toSNote, h3], by simp [STime.toSNote, h5]⟩
  obtain ⟨of, dfirst, _, _, sf, hofmem, _, _, hsf, _, _, _, hfon⟩ := line_of nmin hnminraw
  refine ⟨of, dfirst, hofmem, ?_, ?_⟩
  · intro bl hbl
    obtain ⟨n₁, _, hn1meas, hn1raw, hpos⟩ := hbars bl hbl
    obtain ⟨o₁, d₁, mi, m, s₁, ho1mem, hmo1, hm, hs1, hn1m, hn1b, hn1o, hn1on⟩ := line_of n₁ hn1raw
    obtain ⟨z, hz⟩ := hgrid (o₁, d₁) ho1mem mi m hmo1 hm (of, dfirst) hofmem
    refine ⟨mi, m, z, hm, by rw [← hn1meas, hn1m], ⟨(o₁, d₁), ho1mem, hmo1⟩, hz.symm, ?_⟩
    have hk1 : knotErr sc.beats sc.ts o₁ = 0 := by rw [hts]; exact C08M.knotErr_exact sc.beats rest s0 o₁ hexact
    have hkf : knotErr sc.beats sc.ts of = 0 := by rw [hts]; exact C08M.knotErr_exact sc.beats rest s0 of hexact
    have hmem_of_at : ∀ (t : Int) (sk : TSig), s0.t ≤ t → tsAt sc.ts t = some sk → 0 < sk.den := by
      intro t sk ht hat
      have hpw := C08M.PW_score sc wf.sorted
      have hsorted := wf.sorted
      have hden := wf.den_pos
      have hat' := hat
      rw [hts] at hpw hsorted hden hat'
      have hats := C08M.hats_of_small_divs sc.divs wf.divs_pos wf.divs_small sc.beats rest s0 hsorted hpw hden
      have hseg := C08M.segOK_of_small_divs sc.divs wf.divs_pos wf.divs_small sc.beats rest s0 hsorted hpw hden t ht
      exact hden sk (C08M.seg_facts sc.beats rest s0 hats t (dec4 (sc.beats t)) sk hseg hat').1
    have hs1pos := hmem_of_at o₁ s₁ (hafter _ ho1mem) hs1
    have hsfpos := hmem_of_at of sf (hafter _ hofmem) hsf
    have hbound : (r.divs : Rat) * ((1 / (5000 * (s₁.den : Rat)) + |knotErr sc.beats sc.ts o₁|)
        + (1 / (5000 * (sf.den : Rat)) + |knotErr sc.beats sc.ts of|)) < 1 / 2 := by
      rw [hk1, hkf, abs_zero, add_zero, add_zero]
      have h1 : (1 : Rat) / (5000 * (s₁.den : Rat)) ≤ 1 / 5000 := by
        apply div_le_div_of_nonneg_left (by norm_num) (by norm_num)
        have : (1 : Rat) ≤ (s₁.den : Rat) := by exact_mod_cast hs1pos
        linarith
      have h2 : (1 : Rat) / (5000 * (sf.den : Rat)) ≤ 1 / 5000 := by
        apply div_le_div_of_nonneg_left (by norm_num) (by norm_num)
        have : (1 : Rat) ≤ (sf.den : Rat) := by exact_mod_cast hsfpos
        linarith
      have hDr : (r.divs : Rat) < 1250 := by exact_mod_cast hD
      have hDnn : (0 : Rat) ≤ (r.divs : Rat) := by positivity
      nlinarith
    -- a note exactly on the bar line (rel = 0) is at the bar line
    have hexactz := onset_roundtrip sc wf mnum s0 rest hts of (hafter _ hofmem) sf hsf m.s o₁ (hafter _ ho1mem) s₁ hs1 M n₁
      hn1b hn1o hn1on (by rw [hn1on]; exact hend _ ho1mem s₁ hs1) 0 s₁.den hs1pos r.divs hbound z
      (by rw [← hz]; simp)
    have hnp : notePos (barTime (sc.tsLines mnum) M n₁) (encBeat sc.divs s₁.den 0 + 1) s₁.den
        (Frac.ofRat (encOffset sc.divs s₁.den 0)).val (min (beatsToQuarters (sc.tsLines mnum) (dec4 (sc.beats of))) 0)
        = barTime sc.readTS M n₁ - r.shiftQ := by
      rw [hshift, hTS, hfon]
      have e1 : encBeat sc.divs s₁.den 0 = 0 := by simp [encBeat]
      have e2 : encOffset sc.divs s₁.den 0 = 0 := by simp [encOffset, encBeat]
      rw [e1, e2, C08P.Frac.ofRat_val 0 (le_refl _)]
      unfold notePos
      simp
    rw [hnp] at hexactz
    rw [hpos, hexactz]
  · intro p hp mi hmi
    -- the line of the stored note carries the number of its measure, and the reader makes a bar for every number
    obtain ⟨_, hnames⟩ := bars_are_the_distinct_numbers _ _ _ r hrec
    obtain ⟨st, hst, hfst⟩ := C08C.mapM_mem' _ _ _ (by unfold Score.storedLines at hsts; exact hsts) p hp
    simp only [hmi, Option.bind_eq_bind, Option.bind_some] at hfst
    obtain ⟨_, _, _, _, hnm, _⟩ := encode_fields sc mi p.1 p.2 st hfst
    have : sc.firstMeasureNumber + (mi : Int) ∈ r.barlines.map (·.1) := by
      rw [hnames]
      exact ⟨STime.toSNote st, List.mem_map_of_mem hst, by simp [STime.toSNote, hnm]⟩
    obtain ⟨bl, hbl, hbl1⟩ := List.mem_map.mp this
    exact ⟨bl, hbl, hbl1⟩

/-- non-vacuity of `roundtrip_onsets`: `exampleScore` (3/4 pickup | 6/8 | 2/2, 4 divisions per quarter), stored: the
    pickup quarter, the first note of the 6/8 bar, a half note a quarter into the 2/2 bar.  All hypotheses hold, so the
    three loaded onsets are 16 × (distance in quarters from the pickup) = 0, 16, 80 (or the fallback fired). -/
example (r : Recon) (h : exampleScore.roundTrip [(0, 4), (4, 6), (20, 8)] [] = some r) :
    ∃ of dfirst, (of, dfirst) ∈ [((0 : Int), (4 : Int)), (4, 6), (20, 8)] ∧ ∀ y ∈ r.notes, ∃ o d,
      [((0 : Int), (4 : Int)), (4, 6), (20, 8)][y.1]? = some (o, d)
      ∧ (y.2.1 = (r.divs : Rat) * (exampleScore.quarters o - min (exampleScore.quarters of) 0)
         ∨ ¬ isClose ((r.divs : Rat) * (exampleScore.quarters o - min (exampleScore.quarters of) 0)) y.2.1
              ((r.divs : Rat) / 100) = true) := by
  have hdivs : r.divs = 16 := by
    have h1 : (exampleScore.roundTrip [(0, 4), (4, 6), (20, 8)] []).map (·.divs) = some 16 := by decide +kernel
    rw [h] at h1
    simpa using h1
  apply roundtrip_onsets exampleScore ⟨by decide, by decide, by decide, by decide⟩ _ [] r h
    (fun t => if t = 0 then 0 else if t = 4 then 1 else 2) (by decide +kernel) ⟨0, 3, 4⟩ [⟨4, 6, 8⟩, ⟨16, 2, 2⟩] rfl
  · decide
  · decide +kernel
  · rw [hdivs]; norm_num
  · rw [hdivs]
    have hden : ∀ p ∈ [((0 : Int), (4 : Int)), (4, 6), (20, 8)], ∀ q ∈ [((0 : Int), (4 : Int)), (4, 6), (20, 8)],
        (((16 : Nat) : Rat) * (exampleScore.quarters p.1 - min (exampleScore.quarters q.1) 0)).den = 1 := by
      decide +kernel
    intro p hp q hq
    exact ⟨_, ((Rat.den_eq_one_iff _).mp (hden p hp q hq)).symm⟩

end C08
