/-
C01, round 2 — the class hierarchy: the generated MRO table is the reflexive-transitive closure of the generated
`__subclasses__()` table, `iter_subclasses` enumerates exactly the strict descendants, and
`include_subclasses=True` queries return exactly the registered objects whose class is a reflexive-transitive
subclass of the query class — with NO hypothesis "class ids lie in the generated table" left: the ids of the
registered objects are discharged by `clsOk_reachable` (only timed objects are ever added), the query class is
arbitrary.

`SubclassRT d c` (Proofs/C01Closure): `d` is `c` or reachable from `c` through `__subclasses__()` edges.
`ClassSpecRT cls incl k`: `k = c` (exact), `SubclassRT k c` (with subclasses), anything (`cls = None`).
-/
import PartituraModel.Props.C01Any

namespace C01
open TL

/-- every class id occurring in the generated tables is a row of the tables (whole-table evaluation) -/
theorem classes_ids_bounded :
    (∀ row ∈ Gen.directSubclasses, ∀ c ∈ row, c < Gen.numClasses)
    ∧ (∀ row ∈ Gen.iterSubclassesTab, ∀ c ∈ row, c < Gen.numClasses)
    ∧ (∀ row ∈ Gen.mroTab, ∀ c ∈ row, c < Gen.numClasses)
    ∧ (∀ c ∈ Gen.objectSubclasses, c < Gen.numClasses) := class_ids_bounded_tab

/-- `issubclass` per the generated MRO table is exactly reflexive-transitive reachability through the
generated `__subclasses__()` table, for ALL naturals `d`, `c` -/
theorem classes_closure (d c : Nat) : SubclassRT d c ↔ (d = c ∨ isSubclass d c = true) := subclassRT_iff d c

/-- `iter_subclasses(c)` yields exactly the strict reflexive-transitive subclasses of `c`, each once,
for EVERY class argument (a class outside the table has none) -/
theorem iterSubclasses_closure (c d : Nat) :
    (iterSubclasses c).Nodup ∧ (d ∈ iterSubclasses c ↔ (d ≠ c ∧ SubclassRT d c)) := by
  refine ⟨(iterSubclasses_nodup c).1, ?_⟩
  rw [subclassRT_iff]
  constructor
  · intro h
    obtain ⟨hd, hc⟩ := iterSubclasses_bounds h
    have := (iterSubclasses_desc_tab c (List.mem_range.mpr hc) d (List.mem_range.mpr hd)).mp h
    exact ⟨this.1, Or.inr this.2⟩
  · rintro ⟨hne, rfl | h⟩
    · exact absurd rfl hne
    · obtain ⟨hd, hc⟩ := isSubclass_bounds h
      exact (iterSubclasses_desc_tab c (List.mem_range.mpr hc) d (List.mem_range.mpr hd)).mpr ⟨hne, h⟩

/-- `TimePoint.iter_starting / iter_ending(cls, include_subclasses)` on one duplicate-free registry of timed
objects: duplicate-free, exactly the listed objects whose class matches — the class itself first, then the
classes `iter_subclasses` enumerates -/
theorem iterReg_correct {reg : List ObjRef} (hn : reg.Nodup) (hk : ∀ o ∈ reg, o.cls < Gen.numClasses)
    (cls : Option Nat) (incl : Bool) :
    (iterReg reg cls incl).Nodup
    ∧ (∀ o, o ∈ iterReg reg cls incl ↔ o ∈ reg ∧ ClassSpecRT cls incl o.cls)
    ∧ (∀ c, cls = some c → iterReg reg cls incl
        = reg.filter (fun o => o.cls == c)
          ++ (if incl then (iterSubclasses c).flatMap (fun d => reg.filter (fun o => o.cls == d)) else [])) := by
  refine ⟨nodup_iterReg hn cls incl, ?_, ?_⟩
  · intro o
    rw [mem_iterReg]
    constructor
    · rintro ⟨ho, hm⟩; exact ⟨ho, (clsMatch_specRT (hk o ho)).mp hm⟩
    · rintro ⟨ho, hm⟩; exact ⟨ho, (clsMatch_specRT (hk o ho)).mpr hm⟩
  · rintro c rfl
    rfl

/-- `iter_all` on a consistent part holding timed objects, ANY query class: duplicate-free, exactly the
registered objects in `[a, b)` whose class matches (`SubclassRT` with `include_subclasses`), in time order -/
theorem iterAll_correct_classes {s : Part} (hI : Inv s) (hk : ClsOk s) (cls : Option Nat) (a b : Option Int)
    (incl : Bool) (mode : Mode) :
    (iterAll s cls a b incl mode).Nodup
    ∧ (∀ o, o ∈ iterAll s cls a b incl mode ↔
        ∃ τ, (getObj s.objs o).at mode.side = some τ ∧ inRange a b τ ∧ ClassSpecRT cls (inclEff cls incl) o.cls)
    ∧ (iterAll s cls a b incl mode).Pairwise (fun o1 o2 => ∀ t1 t2,
        (getObj s.objs o1).at mode.side = some t1 → (getObj s.objs o2).at mode.side = some t2 → t1 ≤ t2) :=
  iterAll_specRT hI hk cls a b incl mode

/-- the `include_subclasses=True` case spelled out -/
theorem include_subclasses_exact {s : Part} (hI : Inv s) (hk : ClsOk s) (c : Nat) (a b : Option Int) (mode : Mode)
    (o : ObjRef) :
    o ∈ iterAll s (some c) a b true mode ↔
      ∃ τ, (getObj s.objs o).at mode.side = some τ ∧ inRange a b τ ∧ SubclassRT o.cls c := by
  have := (iterAll_specRT hI hk (some c) a b true mode).2.1 o
  simpa [ClassSpecRT, inclEff] using this

theorem iterPrev_correct_classes {s : Part} (hI : Inv s) (hk : ClsOk s) {t : Int} (ht : 0 ≤ t) (cls : Option Nat)
    (eq incl : Bool) :
    ∃ out, step s (.iterPrev t cls eq incl) = .ok (s, out) ∧
      (t ∉ s.times → out = .noPoint) ∧
      (t ∈ s.times → ∃ l, out = .objs l ∧ l.Nodup
        ∧ (∀ o, o ∈ l ↔ ∃ τ, (getObj s.objs o).start = some τ ∧ (τ < t ∨ (eq = true ∧ τ = t))
            ∧ ClassSpecRT cls incl o.cls)
        ∧ l.Pairwise (fun o1 o2 => ∀ t1 t2, (getObj s.objs o1).start = some t1 →
            (getObj s.objs o2).start = some t2 → t2 ≤ t1)) := by
  have hg := (good_iff_inv s).mpr hI
  refine ⟨_, by simp only [step, iterPrev_spec hg ht, Except.map]; rfl, ?_, ?_⟩
  · intro h; simp [h]
  · intro h
    simp only [h, if_true]
    exact ⟨_, rfl, iterPrev_objs_specRT hI hk t cls eq incl⟩

theorem iterNext_correct_classes {s : Part} (hI : Inv s) (hk : ClsOk s) {t : Int} (ht : 0 ≤ t) (cls : Option Nat)
    (eq incl : Bool) :
    ∃ out, step s (.iterNext t cls eq incl) = .ok (s, out) ∧
      (t ∉ s.times → out = .noPoint) ∧
      (t ∈ s.times → ∃ l, out = .objs l ∧ l.Nodup
        ∧ (∀ o, o ∈ l ↔ ∃ τ, (getObj s.objs o).start = some τ ∧ (t < τ ∨ (eq = true ∧ τ = t))
            ∧ ClassSpecRT cls incl o.cls)
        ∧ l.Pairwise (fun o1 o2 => ∀ t1 t2, (getObj s.objs o1).start = some t1 →
            (getObj s.objs o2).start = some t2 → t1 ≤ t2)) := by
  have hg := (good_iff_inv s).mpr hI
  refine ⟨_, by simp only [step, iterNext_spec hg ht, Except.map]; rfl, ?_, ?_⟩
  · intro h; simp [h]
  · intro h
    simp only [h, if_true]
    exact ⟨_, rfl, iterNext_objs_specRT hI hk t cls eq incl⟩

/-- end to end: after ANY valid history in which only timed objects are added, every `iter_all` query —
any class argument, any bounds — returns precisely the matching registered objects in time order.
No hypothesis on the state or on class ids remains. -/
theorem iterAll_reachable (q : Nat) (ops : List Op) (hv : ValidHistory (Part.init q) ops)
    (ho : ∀ op ∈ ops, op.clsOk) (cls : Option Nat) (a b : Option Int) (incl : Bool) (mode : Mode) :
    let s := run (Part.init q) ops
    (iterAll s cls a b incl mode).Nodup
    ∧ (∀ o, o ∈ iterAll s cls a b incl mode ↔
        ∃ τ, (getObj s.objs o).at mode.side = some τ ∧ inRange a b τ ∧ ClassSpecRT cls (inclEff cls incl) o.cls)
    ∧ (iterAll s cls a b incl mode).Pairwise (fun o1 o2 => ∀ t1 t2,
        (getObj s.objs o1).at mode.side = some t1 → (getObj s.objs o2).at mode.side = some t2 → t1 ≤ t2) :=
  iterAll_specRT (inv_reachable q ops hv) (clsOk_reachable q ops ho) cls a b incl mode

/-! ### non-vacuity -/

section Examples

/-- GraceNote (3) → Note (2) → GenericNote (1) → TimedObject (0): a three-edge chain; the multiply-inheriting
ConstantLoudnessDirection (37) reaches Direction (35) along two paths; unrelated classes are not related -/
example : SubclassRT 3 0 ∧ SubclassRT 37 35 ∧ SubclassRT 37 52 ∧ ¬ SubclassRT 3 35 ∧ ¬ SubclassRT 0 1
    ∧ SubclassRT 99 99 ∧ ¬ SubclassRT 99 0 := by
  simp only [classes_closure]
  decide +kernel
/-- `iterAll_reachable`: `history` (Props/C01) is valid and adds timed objects only; a query class OUTSIDE the
table is accepted and matches nothing -/
example : ValidHistory (Part.init 1) history ∧ (∀ op ∈ history, op.clsOk) := by decide +kernel
/-- `iterReg_correct`: a Note, a GraceNote and a Rest listed together; GenericNote with subclasses finds all,
in the order "class itself, then the DFS order of the subclasses" (Note 2, GraceNote 3, Rest 5) -/
example : iterReg [rD, nB, nA] (some 1) true = [nA, nB, rD] ∧ iterReg [rD, nB, nA] (some 2) false = [nA] := by
  decide +kernel
example : iterAll (run (Part.init 1) history) (some 35) none none true .starting = [dC]
    ∧ iterAll (run (Part.init 1) history) (some 99) none none true .starting = [] := by decide +kernel

end Examples

end C01
