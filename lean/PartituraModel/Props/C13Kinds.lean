/-
C13, round 5 — arguments of another kind than documented (Model/PianoRollKinds.lean): what the operations of
`compute_pianoroll` make of them.
-/
import PartituraModel.Model.PianoRollKinds
import PartituraModel.Props.C13Raster

namespace C13
open Model Model.PianoRoll
open List

/-- `if flag:` — Python truthiness -/
theorem truthy_spec (b : Bool) (i : Int) (q : Rat) (s : String) (xs : List Rat) :
    PyVal.none.truthy = false ∧ (PyVal.bool b).truthy = b ∧ ((PyVal.int i).truthy = true ↔ i ≠ 0) ∧
    ((PyVal.float q).truthy = true ↔ q ≠ 0) ∧ ((PyVal.str s).truthy = true ↔ s ≠ "") ∧
    ((PyVal.seq xs).truthy = true ↔ xs ≠ []) := by
  refine ⟨rfl, rfl, ?_, ?_, ?_, ?_⟩ <;> simp [PyVal.truthy]

/-- **a flag is read by its truth value only**: whatever object is passed for `onset_only`, `note_separation`,
    `piano_range`, `remove_drums`, `remove_silence`, `binary`, `return_idxs`, the call is the call with `bool(object)` -/
theorem flags_by_truth (p : PyArgs) (v : PyVal) :
    readArgs { p with onsetOnly := some v } = readArgs { p with onsetOnly := some (.bool v.truthy) } ∧
    readArgs { p with noteSep := some v } = readArgs { p with noteSep := some (.bool v.truthy) } ∧
    readArgs { p with pianoRange := some v } = readArgs { p with pianoRange := some (.bool v.truthy) } ∧
    readArgs { p with removeDrums := some v } = readArgs { p with removeDrums := some (.bool v.truthy) } ∧
    readArgs { p with removeSilence := some v } = readArgs { p with removeSilence := some (.bool v.truthy) } ∧
    readArgs { p with binary := some v } = readArgs { p with binary := some (.bool v.truthy) } ∧
    readArgs { p with returnIdxs := some v } = readArgs { p with returnIdxs := some (.bool v.truthy) } :=
  ⟨rfl, rfl, rfl, rfl, rfl, rfl, rfl⟩

/-- **a bool is the integer 0 / 1** wherever a number is expected -/
theorem bool_is_int (b : Bool) :
    readTimeDiv (.bool b) = readTimeDiv (.int (if b then 1 else 0)) ∧
    readTimeMargin (.bool b) = readTimeMargin (.int (if b then 1 else 0)) ∧
    readPitchMargin (.bool b) = readPitchMargin (.int (if b then 1 else 0)) ∧
    readEndTime (.bool b) = readEndTime (.int (if b then 1 else 0)) := by
  cases b <;> simp [readTimeDiv, readTimeMargin, readPitchMargin, readEndTime]

/-- a float with an integer value is that integer as `pitch_margin`; any other float is not covered by the model -/
theorem pitch_margin_float (i : Int) : readPitchMargin (.float (i : Rat)) = .ok i := by
  simp [readPitchMargin]

/-- `int(text)` of a text made of ASCII digits only is the number the digits denote -/
theorem int_of_digits (s : String) (hne : s.toList ≠ []) (hd : ∀ c ∈ s.toList, c.isDigit = true) :
    pyIntOfStr s = some (digitsToNat s.toList : Int) := by
  have hnb : ∀ c ∈ s.toList, isBlankChar c = false := by
    intro c hc
    have h := hd c hc
    have hr : 48 ≤ c.val ∧ c.val ≤ 57 := by simpa [Char.isDigit] using h
    have h1 : c ≠ ' ' := by rintro rfl; exact absurd hr.1 (by decide)
    have h2 : c ≠ '\t' := by rintro rfl; exact absurd hr.1 (by decide)
    have h3 : c ≠ '\n' := by rintro rfl; exact absurd hr.1 (by decide)
    have h4 : c ≠ '\r' := by rintro rfl; exact absurd hr.1 (by decide)
    have h5 : c ≠ '\x0b' := by rintro rfl; exact absurd hr.1 (by decide)
    have h6 : c ≠ '\x0c' := by rintro rfl; exact absurd hr.1 (by decide)
    simp [isBlankChar, h1, h2, h3, h4, h5, h6]
  have hdw : ∀ l : List Char, (∀ c ∈ l, isBlankChar c = false) → l.dropWhile isBlankChar = l := by
    intro l hl
    cases l with
    | nil => rfl
    | cons c r => simp [dropWhile, hl c (by simp)]
  have hstrip : pyIntOfStr.stripChars' s.toList = s.toList := by
    unfold pyIntOfStr.stripChars'
    rw [hdw _ hnb, hdw _ (by intro c hc; exact hnb c (by simpa using hc)), reverse_reverse]
  have hall : allDigitChars s.toList = true := by
    unfold allDigitChars
    simp only [Bool.and_eq_true, Bool.not_eq_true', all_eq_true]
    exact ⟨by simpa using hne, hd⟩
  unfold pyIntOfStr
  rw [hstrip]
  split
  · rename_i r heq
    have := hd '-' (by rw [heq]; simp)
    exact absurd this (by decide)
  · rename_i r heq
    have := hd '+' (by rw [heq]; simp)
    exact absurd this (by decide)
  · rw [if_pos hall]

/-- readable arguments: each of the five converted arguments was read -/
theorem readArgs_ok (p : PyArgs) (kw : KwArgs) (h : readArgs p = .ok kw) :
    (∃ x, readOpt readTimeUnit p.timeUnit = .ok x) ∧ (∃ x, readOpt readTimeDiv p.timeDiv = .ok x) ∧
    (∃ x, readOpt readPitchMargin p.pitchMargin = .ok x) ∧ (∃ x, readOpt readTimeMargin p.timeMargin = .ok x) ∧
    (∃ x, readOpt readEndTime p.endTime = .ok x) := by
  unfold readArgs at h
  generalize readOpt readTimeUnit p.timeUnit = a at h ⊢
  generalize readOpt readTimeDiv p.timeDiv = b at h ⊢
  generalize readOpt readPitchMargin p.pitchMargin = c at h ⊢
  generalize readOpt readTimeMargin p.timeMargin = d at h ⊢
  generalize readOpt readEndTime p.endTime = e at h ⊢
  split at h
  · exact ⟨⟨_, rfl⟩, ⟨_, rfl⟩, ⟨_, rfl⟩, ⟨_, rfl⟩, ⟨_, rfl⟩⟩
  · split at h <;> cases h

/-- what is rejected whatever the other arguments are: `None` / a list for `time_div`, `None` / text / a list for
    `time_margin` and `pitch_margin`, anything but a string for `time_unit` -/
theorem kinds_rejected (kind : String) (a : NoteArray) (p : PyArgs) (s : String) (xs : List Rat)
    (h : p.timeDiv = some .none ∨ p.timeDiv = some (.seq xs) ∨
         p.timeMargin = some .none ∨ p.timeMargin = some (.str s) ∨ p.timeMargin = some (.seq xs) ∨
         p.pitchMargin = some .none ∨ p.pitchMargin = some (.str s) ∨ p.pitchMargin = some (.seq xs) ∨
         p.timeUnit = some .none ∨ p.timeUnit = some (.seq xs)) :
    ∀ r, computePianorollPy kind a p ≠ .ok (some r) := by
  intro r hc
  have hne : ∀ kw, readArgs p ≠ .ok kw := by
    intro kw hk
    obtain ⟨⟨_, h1⟩, ⟨_, h2⟩, ⟨_, h3⟩, ⟨_, h4⟩, _⟩ := readArgs_ok p kw hk
    rcases h with h | h | h | h | h | h | h | h | h | h
    · rw [h] at h2; simp [readOpt, readTimeDiv] at h2
    · rw [h] at h2; simp [readOpt, readTimeDiv] at h2
    · rw [h] at h4; simp [readOpt, readTimeMargin] at h4
    · rw [h] at h4; simp [readOpt, readTimeMargin] at h4
    · rw [h] at h4; simp [readOpt, readTimeMargin] at h4
    · rw [h] at h3; simp [readOpt, readPitchMargin] at h3
    · rw [h] at h3; simp [readOpt, readPitchMargin] at h3
    · rw [h] at h3; simp [readOpt, readPitchMargin] at h3
    · rw [h] at h1; simp [readOpt, readTimeUnit] at h1
    · rw [h] at h1; simp [readOpt, readTimeUnit] at h1
  unfold computePianorollPy at hc
  split at hc
  · rename_i kw hk; exact hne kw hk
  · simp at hc
  · simp at hc

/-- with readable arguments the call is the call on the values read (Props/C13Args, C13Raster apply from there) -/
theorem kinds_call (kind : String) (a : NoteArray) (p : PyArgs) (kw : KwArgs) (h : readArgs p = .ok kw) :
    computePianorollPy kind a p = .ok (computePianorollKwF kind a kw) := by
  unfold computePianorollPy
  rw [h]

def exPy : PyArgs :=
  { timeUnit := none, timeDiv := some (.bool true), onsetOnly := some (.int 2), noteSep := some (.str ""), pitchMargin := none,
    timeMargin := none, returnIdxs := some .none, pianoRange := some (.seq []), removeDrums := none, removeSilence := some (.seq [0]),
    endTime := some .none, binary := none }

example : ∃ kw, readArgs exPy = .ok kw ∧ kw.timeDiv = some (.num 1) ∧ kw.onsetOnly = some true ∧ kw.noteSep = some false ∧
    kw.returnIdxs = some false ∧ kw.pianoRange = some false ∧ kw.removeSilence = some true ∧ kw.endTime = none :=
  ⟨_, rfl, rfl, rfl, rfl, rfl, rfl, rfl, rfl⟩

end C13
