/-
C05, round 6 — FROM ARRAY TO SCORE TO ARRAY with the table that comes back ON THE STORED VALUES.

`fromArrayXW pt` (Model/NoteArrayTsF.lean) is `note_array_to_score` followed by the note array of the created part, that
note array made by the part table `pt`.  At the exact table `rowsC` it IS `fromArrayX` of round 5 (`inverse_is_shared`);
at the stored table `rowsF` (binary64 evaluation of the created part's maps, binary32 store: compared with the real
arrays with tolerance 0, stream `invxf`) the same things come back — the round-5 theorems hold of the table numpy
actually returns, and that table is ordered by its stored onset_beat column.
-/
import PartituraModel.Props.C05Ts
import PartituraModel.Proofs.C05TsF

namespace C05
open NoteArray List

/-- one inverse construction, two part tables -/
theorem inverse_is_shared : fromArrayXW rowsC = fromArrayX := rfl

/-- onsets, durations and pitches come back in the table as stored (cf. `from_to_array_x`) -/
theorem from_to_array_x_stored (hb ht hk : Bool) (a : List ARow) (dv : Option Nat)
    (tsl : List (Int × Int × Int)) (est san : Bool) (x : XOut)
    (h : fromArrayXF hb true ht hk a dv tsl est san = .ok x) :
    x.rows.map rowTriple ~ a.map divTriple :=
  fromArrayXF_triples hb ht hk a dv tsl est san x h

/-- the time-signature columns come back in the table as stored (cf. `time_signature_columns_come_back`) -/
theorem time_signature_columns_come_back_stored (hb hk : Bool) (a : List ARow) (dv : Option Nat)
    (tsl : List (Int × Int × Int)) (est san : Bool) (x : XOut)
    (h : fromArrayXF hb true true hk a dv tsl est san = .ok x) (hok : TsColumnsOK a) :
    x.rows.map (fun r => (r.onsetDiv, r.durDiv, r.pitch, r.tsBeats, r.tsBeatType))
      ~ a.map (fun r => (r.onsetDiv, r.durDiv, r.pitch, r.tsBeats, r.tsBeatType)) :=
  fromArrayXF_ts_back hb hk a dv tsl est san x h hok

/-- the key-signature columns come back in the table as stored (cf. `key_signature_columns_come_back`) -/
theorem key_signature_columns_come_back_stored (hb ht : Bool) (a : List ARow) (dv : Option Nat)
    (tsl : List (Int × Int × Int)) (est san : Bool) (x : XOut)
    (h : fromArrayXF hb true ht true a dv tsl est san = .ok x) (hok : KsColumnsOK a) :
    x.rows.map (fun r => (r.onsetDiv, r.durDiv, r.pitch, r.ksFifths, r.ksMode))
      ~ a.map (fun r => (r.onsetDiv, r.durDiv, r.pitch, r.ksFifths, r.ksMode)) :=
  fromArrayXF_ks_back hb ht a dv tsl est san x h hok

/-- the table that comes back is ordered by its stored onset_beat column, then pitch, and every float cell is the
    binary32 rounding of the binary64 value of the CREATED part's maps (`stored_columns`) — whatever columns the
    array had -/
theorem inverse_table_sorted_on_stored_column (hb hd ht hk : Bool) (a : List ARow) (dv : Option Nat)
    (tsl : List (Int × Int × Int)) (est san : Bool) (x : XOut)
    (h : fromArrayXF hb hd ht hk a dv tsl est san = .ok x) :
    x.rows.Pairwise (NoteArray.Lex (·.onsetBeat) (fun a b => a.pitch ≤ b.pitch)) ∧
    ∀ r ∈ x.rows, r.key = r.onsetBeat := by
  obtain ⟨d, l, kss, ms, _, _, _, _, _, _, _, hrows⟩ := fromArrayXW_ok rowsF _ _ _ _ _ _ _ _ _ _ h
  refine ⟨stored_table_sorted _ _ _ _ hrows, ?_⟩
  intro r hr
  obtain ⟨_, _, _, _, _, _, _, _, _, _, _, hk'⟩ := stored_columns _ _ _ _ hrows r hr
  exact hk'

section Examples

/-- the A B A example of Props/C05Ts.lean on the stored values, with and without `sanitize`; key columns too -/
example : xRows (fromArrayXF true true true false exABA none [] false false) =
    some [(0, 0, 4, 4, 4), (8, 4, 3, 6, 8), (11, 7, 3, 6, 8), (14, 10, 4, 4, 4)] := by decide +kernel
example : xRows (fromArrayXF true true true false exABA none [] false true) =
    some [(0, 0, 4, 4, 4), (8, 4, 3, 6, 8), (11, 7, 3, 6, 8), (14, 10, 4, 4, 4)] := by decide +kernel
example : (xKeys (fromArrayXF true true true true exKeys none [] false true)).isSome = true := by decide +kernel

end Examples

end C05
