/-
C05, round 6 — "rows are ordered by onset, then pitch": the order by the STORED onset_beat column against the order of
the timeline.

`beat_order_eq` (round 1) assumed that the stored key is strictly increasing in the division onset.  Half of that is
false in general (binary32 merges onsets that are closer than its spacing: beats 100000.25 and 100000.26 are one stored
number) and half of it is a theorem, proved here from the producing functions: the beat map is strictly increasing
(C02.fwd_strictMono) and binary32 rounding is monotone (`float32_monotone`, all rationals, subnormals included).  Hence
storing never INVERTS two onsets, it can only merge them: the table is in timeline order except inside groups of rows
whose stored onsets coincide, and those are ordered by pitch.
-/
import PartituraModel.Props.C05Compose
import PartituraModel.Props.C02
import PartituraModel.Proofs.C05FloatMono

namespace C05
open NoteArray List

/-- binary32 rounding is monotone: `x ≤ y → float32(x) ≤ float32(y)`, for all rationals -/
theorem float32_monotone {x y : Rat} (h : x ≤ y) : f32round x ≤ f32round y := f32round_mono h

/-- the stored sort key follows the timeline: a row that starts earlier (in divisions) never has a larger stored onset.
    `WF`: the part has at least two time points, first < last, positive divisions and signatures (validity of the part) -/
theorem stored_key_follows_timeline (d : Desc) (notes : List Note) (o : Opts) (out : List Row)
    (h : rowsC d notes o = some out) (hwf : C02Proofs.WF d.tm (Model.TimeMap.beatMode d.tm)) :
    ∀ a ∈ out, ∀ b ∈ out, a.onsetDiv ≤ b.onsetDiv → a.onsetBeat ≤ b.onsetBeat ∧ a.key ≤ b.key := by
  intro a ha b hb hab
  obtain ⟨na, _, da, _, _, hoa, _, hba, _, _, _, hka, _⟩ := row_values_composed d notes o out h a ha
  obtain ⟨nb, _, db, _, _, hob, _, hbb, _, _, _, hkb, _⟩ := row_values_composed d notes o out h b hb
  have hle : ((na.onset : Int) : Rat) ≤ ((nb.onset : Int) : Rat) := by
    rw [← hoa, ← hob]; exact_mod_cast hab
  have hmono := C02.fwd_mono d.tm (Model.TimeMap.beatMode d.tm) hwf _ _ _ _ hle hba hbb
  exact ⟨hmono, by rw [hka, hkb]; exact f32round_mono hmono⟩

/-- **ORDERED BY ONSET, THEN PITCH** — against the timeline: of two rows of the table the earlier one starts no later in
    divisions, unless binary32 stores their onsets as the same number, and then it has the lower (or equal) pitch.
    (The hypothesis `hmono` of `beat_order_eq` is discharged as far as it is true.) -/
theorem table_order_follows_the_timeline (d : Desc) (notes : List Note) (o : Opts) (out : List Row)
    (h : rowsC d notes o = some out) (hwf : C02Proofs.WF d.tm (Model.TimeMap.beatMode d.tm)) :
    out.Pairwise (fun a b => a.onsetDiv ≤ b.onsetDiv ∨ (a.key = b.key ∧ a.pitch ≤ b.pitch)) := by
  have hs := (rows_composed_bijective_sorted d notes o out h).2.2
  have hk := stored_key_follows_timeline d notes o out h hwf
  apply hs.imp_of_mem
  intro a b ha hb hab
  rcases hab with hlt | ⟨heq, hp⟩
  · left
    by_contra hc
    have : b.onsetDiv ≤ a.onsetDiv := by omega
    exact absurd (hk b hb a ha this).2 (not_le.mpr hlt)
  · exact Or.inr ⟨heq, hp⟩

/-- where binary32 keeps the onsets of the table apart (any piece short enough: the spacing of binary32 at beat `x` is
    `x / 2^23`), the table is ordered by (onset_div, pitch) outright -/
theorem table_sorted_by_onset_div (d : Desc) (notes : List Note) (o : Opts) (out : List Row)
    (h : rowsC d notes o = some out) (hwf : C02Proofs.WF d.tm (Model.TimeMap.beatMode d.tm))
    (hapart : ∀ a ∈ out, ∀ b ∈ out, a.key = b.key → a.onsetDiv = b.onsetDiv) :
    out.Pairwise (NoteArray.Lex (·.onsetDiv) (fun a b => a.pitch ≤ b.pitch)) := by
  have hs := (rows_composed_bijective_sorted d notes o out h).2.2
  have hk := stored_key_follows_timeline d notes o out h hwf
  apply hs.imp_of_mem
  intro a b ha hb hab
  rcases hab with hlt | ⟨heq, hp⟩
  · left
    show a.onsetDiv < b.onsetDiv
    by_contra hc
    have : b.onsetDiv ≤ a.onsetDiv := by omega
    exact absurd (hk b hb a ha this).2 (not_le.mpr hlt)
  · exact Or.inr ⟨hapart a ha b hb heq, hp⟩

section Examples

/-- the hypotheses are satisfiable: the example part of Props/C05Compose.lean is well-formed and its table exists -/
example : C02Proofs.WF exDesc.tm (Model.TimeMap.beatMode exDesc.tm) ∧ (rowsC exDesc exNotes exOpts).isSome = true := by
  decide +kernel

/-- binary32 merges onsets: beats 100000.25 and 100000.251953125 (1/512 apart; the spacing there is 1/128) are one
    stored number - which is why `hapart` cannot be dropped from `table_sorted_by_onset_div`; 1/128 apart they stay apart -/
example : f32round (100000 + 1 / 4) = f32round (100000 + 1 / 4 + 1 / 512) ∧
    f32round (100000 + 1 / 4) ≠ f32round (100000 + 1 / 4 + 1 / 128) := by decide +kernel

end Examples

end C05
