/-
C19 — `<ending>` is as transparent as `<section>`, and a scoreDef change may stand on either side of the tags of the
grouping elements around it.

Round 4 proved that `<section>` elements only group measures (Props/C19Sections.lean) and left two facts to the
correspondence: that `<ending>` is as transparent, and that a `<scoreDef>` (meter / key change) between two measures may be
written at the end of the previous container, between the containers (also directly in `<score>`) or at the start of the
next one.  Both are theorems here, about the unchanged state machine `Model/Mei.lean`, for ALL event lists.
Helper lemmas: `Proofs/C19Endings.lean`.
-/
import PartituraModel.Proofs.C19Endings
import PartituraModel.Props.C19Sections

namespace C19
open Model Model.Mei C19S C19E

/-! ## endings -/

/-- `mei_ending_as_section`: writing `<ending>` instead of `<section>` (or the other way round) for a grouping element
    changes nothing of the denotation, once the music has started — whatever stands inside and after it, at any depth. -/
theorem mei_ending_as_section (pre post : List Ev) (as : List (String × String)) (st : St)
    (hrun : runEvs {} pre = some st) (hin : st.inSection = true) (hp : PlainAttrs as) :
    denote (pre ++ .op "ending" as :: post) = denote (pre ++ .op "section" as :: post) := by
  rw [denote_eq, denote_eq, runEvs_append, runEvs_append, hrun]
  simp only [Option.bind_some, runEvs, stepEv_section st as hp hin, stepEv_ending st as hp]
  refine bind_partsOf_of_rel (fun a b h => h.1) _ _ (run_simG post _ _ ⟨rfl, ?_⟩)
  exact .cons (Or.inr ⟨Or.inr rfl, Or.inl rfl⟩) (StkG.refl _)

/-- `mei_ending_unnest`: an `<ending>` denotes what its content denotes — inside a section, inside another ending, or
    directly in `<score>` (any parent that is not one of staffDef, scoreDef, measure, staff, chord, note).  `mid` is any
    list of whole elements (measures, scoreDefs, further sections and endings …). -/
theorem mei_ending_unnest (pre mid post : List Ev) (as : List (String × String)) (st : St)
    (hrun : runEvs {} pre = some st) (htop : Neutral (ptagOf st.stack)) (hp : PlainAttrs as) (hb : Balanced mid) :
    denote (pre ++ .op "ending" as :: (mid ++ .cl :: post)) = denote (pre ++ (mid ++ post)) := by
  rw [denote_eq, denote_eq, runEvs_append, runEvs_append, hrun]
  simp only [Option.bind_some]
  rw [unnest_ending_state st as mid post htop hp hb]

/-- `mei_section_unnest_anywhere`: the round-4 theorem `mei_section_unnest` without the restriction to a `section` parent:
    a `<section>` inside an ending or directly in `<score>` (after the first section) also denotes what its content denotes. -/
theorem mei_section_unnest_anywhere (pre mid post : List Ev) (as : List (String × String)) (st : St)
    (hrun : runEvs {} pre = some st) (htop : Neutral (ptagOf st.stack)) (hin : st.inSection = true)
    (hp : PlainAttrs as) (hb : Balanced mid) :
    denote (pre ++ .op "section" as :: (mid ++ .cl :: post)) = denote (pre ++ (mid ++ post)) := by
  rw [denote_eq, denote_eq, runEvs_append, runEvs_append, hrun]
  simp only [Option.bind_some]
  rw [unnest_section_state st as mid post htop hin hp hb]

/-- the parents meant: a section, an ending and the score element are neutral -/
theorem neutral_parents : Neutral "section" ∧ Neutral "ending" ∧ Neutral "score" := by
  refine ⟨?_, ?_, ?_⟩ <;> simp [Neutral]

/-! ## where a scoreDef change is written -/

/-- `mei_scoredef_across_close`: a whole `<scoreDef>` element (with its children) written as the last child of a section /
    ending denotes the same as the same element written right after that container's end tag — whatever encloses the
    container (a section, an ending, or `<score>` itself). -/
theorem mei_scoredef_across_close (pre inner post : List Ev) (as : List (String × String)) (st : St) (x : Frame)
    (low : List Frame) (hrun : runEvs {} pre = some st) (hs : st.stack = x :: low) (hx : isGrp x.tag)
    (hb : Balanced inner) :
    denote (pre ++ (.op "scoreDef" as :: (inner ++ [.cl])) ++ .cl :: post)
      = denote (pre ++ .cl :: ((.op "scoreDef" as :: (inner ++ [.cl])) ++ post)) := by
  rw [denote_eq, denote_eq, List.append_assoc, runEvs_append, runEvs_append, hrun]
  simp only [Option.bind_some]
  rw [runEvs_append]
  have hcl : runEvs st (.cl :: ((.op "scoreDef" as :: (inner ++ [.cl])) ++ post))
      = runEvs (withStack st low) ((.op "scoreDef" as :: (inner ++ [.cl])) ++ post) := by
    show (match stepEv st .cl with | some st' => runEvs st' _ | none => none) = _
    rw [stepEv_cl_grp st x low hs hx]
  rw [hcl, runEvs_append]
  have hsd := sd_frame_indep st x low hs hx as inner hb
  cases ha : runEvs st (.op "scoreDef" as :: (inner ++ [.cl])) with
  | none =>
    cases hb' : runEvs (withStack st low) (.op "scoreDef" as :: (inner ++ [.cl])) with
    | none => rfl
    | some y => simp [ha, hb', RelOpt] at hsd
  | some a =>
    cases hb' : runEvs (withStack st low) (.op "scoreDef" as :: (inner ++ [.cl])) with
    | none => simp [ha, hb', RelOpt] at hsd
    | some b =>
      simp only [ha, hb', RelOpt] at hsd
      obtain ⟨hc, hsa, hsb⟩ := hsd
      simp only [Option.bind_some]
      have : runEvs a (.cl :: post) = runEvs b post := by
        show (match stepEv a .cl with | some st' => runEvs st' _ | none => none) = _
        rw [stepEv_cl_grp a x low hsa hx]
        have : withStack a low = b := eq_of_core _ _ hc (by show low = b.stack; exact hsb.symm)
        rw [this]
      rw [this]

/-- `mei_scoredef_across_open`: a whole `<scoreDef>` element written right before the start tag of an `<ending>`, or of a
    `<section>` once the music has started, denotes the same as the same element written as the container's first child. -/
theorem mei_scoredef_across_open (pre inner post : List Ev) (as gas : List (String × String)) (g : String) (st : St)
    (hrun : runEvs {} pre = some st) (hg : g = "ending" ∨ (g = "section" ∧ st.inSection = true))
    (hp : PlainAttrs gas) (hb : Balanced inner) :
    denote (pre ++ (.op "scoreDef" as :: (inner ++ [.cl])) ++ .op g gas :: post)
      = denote (pre ++ .op g gas :: ((.op "scoreDef" as :: (inner ++ [.cl])) ++ post)) := by
  have hopen : stepEv st (.op g gas) = some (withStack st (newFrame g gas :: st.stack)) := by
    rcases hg with rfl | ⟨rfl, hin⟩
    · exact stepEv_ending st gas hp
    · exact stepEv_section st gas hp hin
  have hgrp : isGrp (newFrame g gas).tag := by
    rcases hg with rfl | ⟨rfl, _⟩
    · exact Or.inr rfl
    · exact Or.inl rfl
  rw [denote_eq, denote_eq, List.append_assoc, runEvs_append, runEvs_append, hrun]
  simp only [Option.bind_some]
  rw [runEvs_append]
  have hop : runEvs st (.op g gas :: ((.op "scoreDef" as :: (inner ++ [.cl])) ++ post))
      = runEvs (withStack st (newFrame g gas :: st.stack)) ((.op "scoreDef" as :: (inner ++ [.cl])) ++ post) := by
    show (match stepEv st (.op g gas) with | some st' => runEvs st' _ | none => none) = _
    rw [hopen]
  rw [hop, runEvs_append]
  have hsd := sd_frame_indep (withStack st (newFrame g gas :: st.stack)) (newFrame g gas) st.stack rfl hgrp as inner hb
  have hw : withStack (withStack st (newFrame g gas :: st.stack)) st.stack = st := rfl
  rw [hw] at hsd
  cases ha : runEvs (withStack st (newFrame g gas :: st.stack)) (.op "scoreDef" as :: (inner ++ [.cl])) with
  | none =>
    cases hb' : runEvs st (.op "scoreDef" as :: (inner ++ [.cl])) with
    | none => rfl
    | some y => simp [ha, hb', RelOpt] at hsd
  | some a =>
    cases hb' : runEvs st (.op "scoreDef" as :: (inner ++ [.cl])) with
    | none => simp [ha, hb', RelOpt] at hsd
    | some b =>
      simp only [ha, hb', RelOpt] at hsd
      obtain ⟨hc, hsa, hsb⟩ := hsd
      simp only [Option.bind_some]
      -- after the scoreDef the music is still "in section" if it was: opening `g` on `b` only pushes the frame
      have hinb : g = "ending" ∨ (g = "section" ∧ b.inSection = true) := by
        rcases hg with h | ⟨h, hin⟩
        · exact Or.inl h
        · refine Or.inr ⟨h, ?_⟩
          have := (run_ties (.op "scoreDef" as :: (inner ++ [.cl])) st b hb').2 hin
          exact this
      have hopb : stepEv b (.op g gas) = some (withStack b (newFrame g gas :: b.stack)) := by
        rcases hinb with rfl | ⟨rfl, hin⟩
        · exact stepEv_ending b gas hp
        · exact stepEv_section b gas hp hin
      have : runEvs b (.op g gas :: post) = runEvs a post := by
        show (match stepEv b (.op g gas) with | some st' => runEvs st' _ | none => none) = _
        rw [hopb]
        have : withStack b (newFrame g gas :: b.stack) = a :=
          eq_of_core _ _ hc.symm (by show newFrame g gas :: b.stack = a.stack; rw [hsa, hsb])
        rw [this]
      rw [this]

/-! ## non-vacuity -/

def hdr2 : List Ev :=
  [.op "score" [], .op "scoreDef" [], .op "staffGrp" [],
   .op "staffDef" [("xml:id", "P1"), ("n", "1"), ("meter.count", "2"), ("meter.unit", "4"), ("key.sig", "0")], .cl, .cl, .cl]

def meas (n : String) (id : String) : List Ev :=
  [.op "measure" [("n", n)], .op "staff" [("n", "1")], .op "layer" [("n", "1")],
   .op "note" [("xml:id", id), ("dur", "2"), ("pname", "c"), ("oct", "4")], .cl, .cl, .cl, .cl]

def sdChange : List Ev := [.op "scoreDef" [("key.sig", "2s")], .op "meterSig" [("count", "3"), ("unit", "4")], .cl, .cl]

/-- up to the end of the first measure inside `<section>` -/
def preE : List Ev := hdr2 ++ [.op "section" [("xml:id", "A")]] ++ meas "1" "a1"

example : ∃ st, runEvs {} preE = some st ∧ st.inSection = true ∧ Neutral (ptagOf st.stack) ∧
    (∃ x low, st.stack = x :: low ∧ isGrp x.tag) ∧ PlainAttrs [("n", "1")] ∧ Balanced (meas "2" "a2") := by
  refine ⟨_, rfl, by decide +kernel, ?_, ⟨_, _, rfl, Or.inl rfl⟩, by decide +kernel, by decide +kernel⟩
  show Neutral "section"
  exact neutral_parents.1

/-- an ending inside the section = its content; the scoreDef change at the end of the section = after it, directly in
    `<score>` = at the start of the following ending -/
example : denote (preE ++ .op "ending" [("n", "1")] :: (meas "2" "a2" ++ .cl :: [.cl, .cl]))
    = denote (preE ++ (meas "2" "a2" ++ [.cl, .cl])) := by
  obtain ⟨st, h1, _, h3, _, h5, h6⟩ : ∃ st, runEvs {} preE = some st ∧ st.inSection = true ∧ Neutral (ptagOf st.stack) ∧
      (∃ x low, st.stack = x :: low ∧ isGrp x.tag) ∧ PlainAttrs [("n", "1")] ∧ Balanced (meas "2" "a2") := by
    refine ⟨_, rfl, by decide +kernel, ?_, ⟨_, _, rfl, Or.inl rfl⟩, by decide +kernel, by decide +kernel⟩
    show Neutral "section"
    exact neutral_parents.1
  exact mei_ending_unnest preE (meas "2" "a2") [.cl, .cl] _ st h1 h3 h5 h6

example : ((denote (preE ++ sdChange ++ .cl :: (.op "ending" [("n", "1")] :: (meas "2" "a2" ++ [.cl, .cl])))).map fun ps =>
      ps.map fun p => p.tsigs) = some [[(0, 2, 4), (2, 3, 4)]] := by
  decide +kernel

example : ((denote (preE ++ .cl :: sdChange ++ (.op "ending" [("n", "1")] :: (meas "2" "a2" ++ [.cl, .cl])))).map fun ps =>
      ps.map fun p => p.ksigs.map fun k => (k.1, k.2.1)) = some [[(0, 0), (2, 2)]] := by
  decide +kernel

end C19
