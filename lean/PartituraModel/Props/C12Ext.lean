/-
C12, round 5 — theorems over Model/Conversions.lean: the conversion functions written over the literals of their
own bodies (Gen/C12Tables.lean, regenerated from the live source on every run), with the glue the first model left
out (Python membership chains for the mode, the range guard in front of Python list indexing,
`ensure_pitch_spelling_format`, `alter or 0`, keyword defaults, absent tuplet types).

The driver answers with exactly these functions; `Proofs/C12Bridge.lean` proves them equal to the functions of
Model/Pitch.lean, so the theorems of Props/C12.lean are restated here for what the driver runs.
-/
import PartituraModel.Model.Conversions
import PartituraModel.Proofs.C12Bridge
import PartituraModel.Props.C12
import Mathlib.Tactic.IntervalCases
import Mathlib.Tactic.FieldSimp
import Mathlib.Tactic.Ring
import Mathlib.Tactic.Linarith

namespace C12
open Model Gen Gen.C12 C12Bridge

/-- the translator could read every literal it looks for in the live source -/
theorem tables_extracted : extractionOk = true ∧ extractionNotes = [] := by decide

/-! ### twelve-tone arithmetic over the constants of the source lines -/

/-- C4 = 60, with the octave size, the octave shift and the `alter or 0` default as the source writes them -/
theorem midi_c4_src : spellingToMidiG "C" (some 0) 4 = some 60 ∧ spellingToMidiG "c" none 4 = some 60 := by decide

/-- value for every octave and alteration; a missing alteration and the alteration 0 are the same -/
theorem midi_value_src (s : String) (a : Option Int) (o b : Int) (h : lookup (lower s) MIDI_BASE_CLASS = some b) :
    spellingToMidiG s a o = some ((o + 1) * 12 + b + a.getD 0) := by
  rw [spellingToMidiG_eq]; exact midi_value s a o b h

/-- MIDI → spelling → MIDI is the identity for EVERY integer pitch; the spelling comes back through
    `ensure_pitch_spelling_format` with an integer alteration (0 or 1) and an integer octave -/
theorem midi_spelling_src (p : Int) :
    ∃ s a o, midiToSpellingG p = some (s, some a, some o) ∧ spellingToMidiG s (some a) o = some p ∧ (a = 0 ∨ a = 1) := by
  obtain ⟨s, a, o, h1, h2, h3⟩ := midi_spelling p
  refine ⟨s, a, o, ?_, ?_, h3⟩
  · rw [midiToSpellingG_eq, h1]; rfl
  · rw [spellingToMidiG_eq]; exact h2

/-- note-name round trip through the scanner built from NOTE_NAME_PATT and `ensure_pitch_spelling_format`:
    every step, alteration −3..3, EVERY octave ≥ 0 -/
theorem name_roundtrip_src (s : String) (hs : s ∈ ["C", "D", "E", "F", "G", "A", "B"])
    (a : Int) (ha : a ∈ [(-3 : Int), -2, -1, 0, 1, 2, 3]) (o : Nat) :
    noteNameToSpellingG (spellingToNoteName s a (o : Int)) = some (s, some a, some (o : Int)) ∧
    noteNameToMidiG (spellingToNoteName s a (o : Int)) = spellingToMidiG s (some a) (o : Int) := by
  constructor
  · rw [noteNameToSpellingG_eq, name_roundtrip s hs a ha o]; rfl
  · rw [noteNameToMidiG_eq, spellingToMidiG_eq]; exact name_midi s hs a ha o

/-- where the inverse does not exist: an octave below 0 prints a name the pattern cannot read, and four sharps
    print a sign string `ensure_pitch_spelling_format` does not know -/
example : noteNameToSpellingG (spellingToNoteName "C" 0 (-1)) = none ∧
    noteNameToSpellingG (spellingToNoteName "C" 4 4) = none ∧
    noteNameToSpellingG (spellingToNoteName "C" 2 4) = some ("C", some 2, some 4) := by decide

/-- `step2pc` is the pitch class of the spelled pitch (the two base tables agree), for every alteration and octave -/
theorem step2pc_pitch_class (s : String) (hs : s ∈ ["C", "D", "E", "F", "G", "A", "B"]) (a o : Int) :
    step2pc s a = (spellingToMidiG s (some a) o).map (· % 12) := by
  have key : ∀ s ∈ ["C", "D", "E", "F", "G", "A", "B"],
      ∃ b, lookup s BASE_PC = some b ∧ lookup (lower s) MIDI_BASE_CLASS = some b := by decide
  obtain ⟨b, h1, h2⟩ := key s hs
  rw [spellingToMidiG_eq, midi_value s (some a) o b h2, step2pc_spec s a b h1]
  simp only [Option.getD_some, Option.map_some, Option.some.injEq]
  omega

/-! ### ensure_pitch_spelling_format -/

def stepAccepted (s : String) : Bool := !((lookup (lower s) MIDI_BASE_CLASS).isNone && decide (lower s ≠ "r"))

/-- an unknown step is rejected, whatever the other arguments -/
theorem ensure_format_rejects (s : String) (a : AlterArg) (o : OctArg) (h : stepAccepted s = false) :
    ensureFormat s a o = none := by
  unfold stepAccepted at h
  unfold ensureFormat
  simp only [Bool.not_eq_false'] at h
  simp only [h]
  rfl

example : stepAccepted "h" = false ∧ stepAccepted "" = false ∧ stepAccepted "CC" = false ∧ stepAccepted "R" = true ∧
    stepAccepted "g" = true := by decide

/-- integers pass unchanged, the step is upper-cased -/
theorem ensure_format_ints (s : String) (a o : Int) (h : stepAccepted s = true) :
    ensureFormat s (.int a) (.int o) = some (upper s, some a, some o) := by
  apply ensureFormat_int
  unfold stepAccepted at h
  have hb : ∀ b : Bool, (!b) = true → b = false := by decide
  exact hb _ h

/-- the fourteen letters (and the rest letter) are accepted, and the result is a fixed point: formatting it again
    changes nothing (all alterations, all octaves) -/
theorem ensure_format_idempotent (s : String)
    (hs : s ∈ ["C", "D", "E", "F", "G", "A", "B", "c", "d", "e", "f", "g", "a", "b", "r", "R"]) (a o : Int) :
    ensureFormat s (.int a) (.int o) = some (upper s, some a, some o) ∧
    ensureFormat (upper s) (.int a) (.int o) = some (upper s, some a, some o) := by
  have key : ∀ s ∈ ["C", "D", "E", "F", "G", "A", "B", "c", "d", "e", "f", "g", "a", "b", "r", "R"],
      stepAccepted s = true ∧ stepAccepted (upper s) = true ∧ upper (upper s) = upper s := by decide
  obtain ⟨h1, h2, h3⟩ := key s hs
  refine ⟨ensure_format_ints s a o h1, ?_⟩
  rw [ensure_format_ints (upper s) a o h2, h3]

/-- every sign string of the regenerated table means its table value (the keys are distinct), `"-"` means no
    alteration; an unknown sign is rejected -/
theorem ensure_format_signs :
    (∀ e ∈ SIGN_TO_ALTER, ∀ o : Int, ensureFormat "C" (.sign e.1) (.int o) = some ("C", e.2, some o)) ∧
    (∀ sg : String, lookup sg SIGN_TO_ALTER = none → ∀ o, ensureFormat "C" (.sign sg) o = none) := by
  constructor
  · have key : ∀ e ∈ SIGN_TO_ALTER, lookup e.1 SIGN_TO_ALTER = some e.2 := by decide
    intro e he o
    rw [ensureFormat_sign "C" e.1 o (by decide), key e he]
    rfl
  · intro sg h o
    unfold ensureFormat
    have : ((lookup (lower "C") MIDI_BASE_CLASS).isNone && decide (lower "C" ≠ "r")) = false := by decide
    simp only [this, h]
    rfl

/-- the octave `"-"` of Batik match files is no octave; other numbers are truncated towards zero as `int()` does -/
example : ensureFormat "r" .none (.str "-") = some ("R", none, none) ∧
    ensureFormat "c" (.num (3/2)) (.num (-1/2)) = some ("C", some 1, some 0) ∧
    ensureFormat "c" (.num (-3/2)) (.str "-1") = some ("C", some (-1), some (-1)) ∧
    ensureFormat "c" (.sign "-") (.str "x") = none ∧ ensureFormat "h" (.int 0) (.int 4) = none := by decide +kernel

/-- `Note.alter_sign` (table ALTER_SIGNS) writes the accidental exactly as `pitch_spelling_to_note_name` does -/
theorem alter_signs_agree : ∀ e ∈ ALTER_SIGNS, alterSign e.1 = some (accString (e.1.getD 0)) := by decide

/-- the two accidental-code tables of utils/globals.py invert each other where both are defined -/
theorem alt_tables_inverse : ∀ e ∈ INT_TO_ALT, lookup e.2 ALT_TO_INT = some e.1 := by decide

/-! ### keys: membership chains, range guard, Python indexing -/

/-- what a mode argument means to `fifths_mode_to_key_name` -/
def modeOfLit (m : PyLit) : Option Mode :=
  (chainFind m f2kModes).map fun r => if r.1 then Mode.minor else Mode.major

/-- the accepted mode arguments are exactly the documented six (numbers by value) -/
theorem mode_accepted (m : PyLit) :
    (modeOfLit m).isSome ↔ m ∈ [PyLit.str "minor", PyLit.num (-1), PyLit.str "major", PyLit.none, PyLit.str "none", PyLit.num 1] := by
  unfold modeOfLit
  simp only [f2kModes, chainFind, List.contains_cons, List.contains_nil, Bool.or_false]
  cases m with
  | str s => by_cases h1 : s = "minor" <;> by_cases h2 : s = "major" <;> by_cases h3 : s = "none" <;> simp_all
  | num r =>
    by_cases h1 : r = -1
    · subst h1; decide +kernel
    · by_cases h2 : r = 1
      · subst h2; decide +kernel
      · simp [h1, h2]
  | none => simp

/-- the three copies of the mode test (fifths_mode_to_key_name, key_mode_to_int, key_int_to_mode) agree on EVERY
    argument: same accepted set, minor ↔ −1 ↔ "minor", major ↔ 1 ↔ "major" -/
theorem mode_tests_agree (m : PyLit) :
    keyModeToIntG m = (modeOfLit m).map keyModeToInt ∧ keyIntToModeG m = (modeOfLit m).map modeName := by
  unfold keyModeToIntG keyIntToModeG modeOfLit
  simp only [f2kModes, kmiModes, kimModes, chainFind]
  split <;> [skip; split] <;> simp_all [keyModeToInt, modeName]

/-- mode codes decode to what was encoded: the int code of any accepted mode, given back as a mode argument,
    names the same mode -/
theorem mode_code_roundtrip_src (m : PyLit) (i : Int) (h : keyModeToIntG m = some i) :
    keyIntToModeG (PyLit.num (i : Rat)) = keyIntToModeG m ∧ keyModeToIntG (PyLit.num (i : Rat)) = some i := by
  have hm := mode_tests_agree m
  rw [hm.1] at h
  rw [hm.2]
  cases hmo : modeOfLit m with
  | none => rw [hmo] at h; simp at h
  | some mo =>
    rw [hmo] at h
    simp only [Option.map_some, Option.some.injEq] at h
    subst h
    cases mo <;> decide

theorem fifthsModeToKeyNameG_eq (f : Int) (m : PyLit) :
    fifthsModeToKeyNameG f m = (modeOfLit m).bind (fifthsModeToKeyName f) := by
  unfold fifthsModeToKeyNameG modeOfLit
  cases hc : chainFind m f2kModes with
  | none => rfl
  | some r =>
    obtain ⟨isMinor, suffix⟩ := r
    -- the two branches of the chain
    have hr : (isMinor = true ∧ suffix = "m") ∨ (isMinor = false ∧ suffix = "") := by
      simp only [f2kModes, chainFind] at hc
      split at hc
      · simp only [Option.some.injEq, Prod.mk.injEq] at hc; exact Or.inl ⟨hc.1.symm, hc.2.symm⟩
      · split at hc
        · simp only [Option.some.injEq, Prod.mk.injEq] at hc; exact Or.inr ⟨hc.1.symm, hc.2.symm⟩
        · simp at hc
    have hl : MAJOR_KEYS.length = 15 ∧ MINOR_KEYS.length = 15 := by decide
    have hlo : fifthsLo = -7 := rfl
    have hhi : fifthsHi = 7 := rfl
    have hoff : fifthsOffset = 7 := rfl
    simp only [Option.map_some, Option.bind_some]
    unfold fifthsModeToKeyName pyIndex
    rw [hlo, hhi, hoff]
    rcases hr with ⟨h1, h2⟩ | ⟨h1, h2⟩ <;> subst h1 <;> subst h2 <;> simp only [if_true]
    all_goals
      by_cases hr1 : -7 ≤ f ∧ f ≤ 7
      · have h0 : ¬ (f + 7 < 0) := by omega
        have h0' : 0 ≤ f + 7 := by omega
        simp [hr1, h0, h0']
      · simp only [hr1, if_false]
        by_cases h0 : f + 7 < 0
        · simp [h0]
        · have : 15 ≤ (f + 7).toNat := by omega
          simp [h0, List.getElem?_eq_none, hl.1, hl.2, this]

/-- key name ↔ (fifths, mode) is a bijection on the fifteen major and fifteen minor keys, for every accepted
    spelling of the mode, through the functions the driver runs -/
theorem key_bijection_src (f : Int) (h1 : -7 ≤ f) (h2 : f ≤ 7) (m : PyLit) (mo : Mode) (hm : modeOfLit m = some mo) :
    (fifthsModeToKeyNameG f m).isSome ∧ (fifthsModeToKeyNameG f m).bind keyNameToFifthsModeG = some (f, mo) := by
  rw [fifthsModeToKeyNameG_eq, hm]
  simp only [Option.bind_some]
  have := key_bijection f h1 h2 mo
  refine ⟨this.1, ?_⟩
  have h := this.2
  cases hk : fifthsModeToKeyName f mo with
  | none => rw [hk] at h; simp at h
  | some nm => rw [hk] at h; simpa [keyNameToFifthsModeG_eq] using h

/-- … and the other way round: each of the thirty names is read as a (fifths, mode) pair that prints that name -/
theorem key_bijection_names :
    (∀ nm ∈ MAJOR_KEYS, (keyNameToFifthsModeG nm).bind (fun r => fifthsModeToKeyNameG r.1 (PyLit.str (modeName r.2))) = some nm) ∧
    (∀ nm ∈ MINOR_KEYS, (keyNameToFifthsModeG (nm ++ "m")).bind
      (fun r => fifthsModeToKeyNameG r.1 (PyLit.num (keyModeToInt r.2 : Int))) = some (nm ++ "m")) := by decide +kernel

/-- non-vacuity of the hypotheses above -/
example : modeOfLit (PyLit.num (-1)) = some Mode.minor ∧ modeOfLit PyLit.none = some Mode.major ∧
    modeOfLit (PyLit.str "1") = none ∧ modeOfLit (PyLit.num 0) = none ∧ keyModeToIntG (PyLit.str "minor") = some (-1) ∧
    keyIntToModeG (PyLit.num 1) = some "major" ∧ keyIntToModeG (PyLit.str "dorian") = none := by decide +kernel

/-- a name is produced EXACTLY for fifths in −7..7 with an accepted mode: everything else is rejected, never mapped
    to another key … -/
theorem key_accepts_iff (f : Int) (m : PyLit) :
    (fifthsModeToKeyNameG f m).isSome ↔ (-7 ≤ f ∧ f ≤ 7) ∧ (modeOfLit m).isSome := by
  rw [fifthsModeToKeyNameG_eq]
  cases hm : modeOfLit m with
  | none => simp
  | some mo =>
    simp only [Option.bind_some, Option.isSome_some, and_true]
    constructor
    · intro h
      by_contra hc
      have : f < -7 ∨ 7 < f := by omega
      rw [key_rejects f mo this] at h
      simp at h
    · intro ⟨h1, h2⟩
      exact (key_bijection f h1 h2 mo).1

/-- … although the list indexing alone WOULD wrap around: it is the range guard that rejects -/
example : keyListIndex (-8) false = some "C#" ∧ keyListIndex (-22) true = some "Ab" ∧
    fifthsModeToKeyNameG (-8) (PyLit.str "major") = none ∧ fifthsModeToKeyNameG 0 f2kDefaultMode = some "C" := by decide

/-! ### tuplets -/

theorem lookup_mem {α β : Type} [DecidableEq α] (k : α) (v : β) : ∀ l : List (α × β), lookup k l = some v → (k, v) ∈ l
  | [], h => by simp [lookup] at h
  | (a, b) :: t, h => by
    unfold lookup at h
    split at h
    · rename_i hab; cases h; subst hab; simp
    · exact List.mem_cons_of_mem _ (lookup_mem k v t h)

theorem label_durs_pos : ∀ e ∈ LABEL_DURS, 0 < e.2 := by decide +kernel

/-- **tuplet ratio**: for every pair of note types of the table and all counts, the multiplier is exactly
    normal_notes · dur(normal_type) / (actual_notes · dur(actual_type)) — also when the two types are equal -/
theorem tuplet_multiplier (a n : Nat) (ta tn : String) (va vn : Rat) (ha : a ≠ 0)
    (hta : lookup ta LABEL_DURS = some va) (htn : lookup tn LABEL_DURS = some vn) :
    tupletMultiplierO a n (some ta) (some tn) = some ((n : Rat) * vn / ((a : Rat) * va)) := by
  have hva : va ≠ 0 := ne_of_gt (label_durs_pos _ (lookup_mem ta va _ hta))
  have ha' : (a : Rat) ≠ 0 := by exact_mod_cast ha
  unfold tupletMultiplierO
  simp only [ha, if_false]
  by_cases heq : (some ta : Option String) = some tn
  · simp only [heq, if_true]
    have : ta = tn := by simpa using heq
    subst this
    rw [hta] at htn
    cases htn
    congr 1
    field_simp
  · simp only [heq, if_false, Option.bind_some, hta, htn]
    congr 1
    field_simp

/-- types never set: the plain ratio -/
theorem tuplet_untyped (a n : Nat) (ha : a ≠ 0) : tupletMultiplierO a n none none = some ((n : Rat) / (a : Rat)) := by
  simp [tupletMultiplierO, ha]

/-- what the ratio is for: `actual_notes` notes of the actual type, each scaled by it, last exactly as long as
    `normal_notes` notes of the normal type -/
theorem tuplet_fills (a n : Nat) (ta tn : String) (va vn m : Rat) (ha : a ≠ 0)
    (hta : lookup ta LABEL_DURS = some va) (htn : lookup tn LABEL_DURS = some vn)
    (hm : tupletMultiplierO a n (some ta) (some tn) = some m) : (a : Rat) * (va * m) = (n : Rat) * vn := by
  rw [tuplet_multiplier a n ta tn va vn ha hta htn] at hm
  cases hm
  have hva : va ≠ 0 := ne_of_gt (label_durs_pos _ (lookup_mem ta va _ hta))
  have ha' : (a : Rat) ≠ 0 := by exact_mod_cast ha
  field_simp

/-- a type that is not a note value, one type absent, or no actual notes: rejected -/
example : tupletMultiplierO 3 2 (some "quarter") (some "foo") = none ∧ tupletMultiplierO 3 2 (some "quarter") none = none ∧
    tupletMultiplierO 0 2 none none = none ∧ tupletMultiplierO 3 5 (some "quarter") (some "eighth") = some (5 / 6) ∧
    tupletMultiplierO 3 2 (some "half") (some "eighth") = some (1 / 6) := by decide +kernel

/-- a tuplet inside `symbolic_to_numeric_duration` scales by the same ratio as a same-type `Tuplet` -/
theorem symbolic_tuplet (ty : String) (v : Rat) (d a n : Nat) (divs m : Rat)
    (hu : lookup ty LABEL_DURS = some v) (hd : d ∈ [0, 1, 2, 3]) (ha : a ≠ 0) (hn : n ≠ 0)
    (hm : tupletMultiplierO a n (some ty) (some ty) = some m) :
    symbolicToNumeric (ty, d, some a, some n) divs = (symbolicToNumeric (ty, d, none, none) divs).map (· * m) := by
  have h1 := symbolic_numeric ty v d a n divs hu hd ha hn
  have hm' : m = (n : Rat) / (a : Rat) := by
    have : tupletMultiplierO a n (some ty) (some ty) = some ((n : Rat) / (a : Rat)) := by
      simp [tupletMultiplierO, ha]
    rw [this] at hm; cases hm; rfl
  have hmul : DOT_MULTIPLIERS[d]? = some ((2 : Rat) - 1 / 2 ^ d) := by
    rw [dot_multipliers]
    simp only [List.mem_cons, List.mem_nil_iff, or_false] at hd
    rcases hd with rfl | rfl | rfl | rfl <;> rfl
  rw [h1, hm']
  simp [symbolicToNumeric, hu, hmul]

example : tupletMultiplierO 3 2 (some "eighth") (some "eighth") = some (2 / 3) ∧
    symbolicToNumeric ("eighth", 1, some 3, some 2) 480 = some 240 ∧
    symbolicToNumeric ("eighth", 1, none, none) 480 = some 360 := by decide +kernel

/-! ### the unit string printed for a note value reads back as a tempo unit -/

theorem formatSymbolic_plain (u : String) (d : Nat) :
    formatSymbolic (some (some u, some d, none, none)) = u ++ dotsStr d := rfl

/-- `to_quarter_tempo (format_symbolic_duration {type, dots}) t = t · (2 − 1/2^d) · value(type)` -/
theorem tempo_unit_roundtrip (u : String) (v : Rat) (d : Nat) (t : Rat) (hu : (u, v) ∈ LABEL_DURS) (hd : d ∈ [0, 1, 2, 3]) :
    toQuarterTempo (formatSymbolic (some (some u, some d, none, none))) t = some (t * ((2 : Rat) - 1 / 2 ^ d) * v) := by
  rw [formatSymbolic_plain]; exact tempo_units u v d t hu hd

/-! ### intervals over the ladders written in `Interval.change_quality` -/

theorem change_quality_size_src (q : String) (n : Nat) (k : Int) (q' : String)
    (hq : q ∈ ["dd", "d", "m", "M", "P", "A", "AA"]) (hn : n ∈ [1, 2, 3, 4, 5, 6, 7])
    (hv : intervalValidD q n none = true) (h : changeQualityG n q k = some q') :
    intervalValidD q' n none = true ∧ intervalSemitones q' n = (intervalSemitones q n).map (· + k) := by
  have hd : ivDefaultDirection = "up" := rfl
  unfold intervalValidD at hv ⊢
  simp only [Option.getD_none, hd] at hv ⊢
  rw [changeQualityG_eq] at h
  exact change_quality_size q n k q' hq hn hv h

/-! ### seconds, ticks, tempo: constants and defaults of the source lines -/

/-- ticks → seconds → ticks is the identity for every tick, ppq and mpq — also with the keyword defaults left out
    (the two functions carry the same defaults and the same 10^6) -/
theorem tick_sec_tick_src (k : Int) (mpq ppq : Option Nat) (hm : mpq ≠ some 0) (hp : ppq ≠ some 0) :
    (tickToSecG (k : Rat) mpq ppq).bind (fun t => secToTickG t mpq ppq) = some k := by
  have d1 : s2tDefaultMpq = 500000 := rfl
  have d2 : s2tDefaultPpq = 480 := rfl
  have d3 : t2sDefaultMpq = 500000 := rfl
  have d4 : t2sDefaultPpq = 480 := rfl
  have key : ∀ m p : Nat, m ≠ 0 → p ≠ 0 →
      (tickToSecG (k : Rat) (some m) (some p)).bind (fun t => secToTickG t (some m) (some p)) = some k := by
    intro m p hm hp
    rw [tickToSecG_eq k m p hp]
    simp only [Option.bind_some]
    rw [secToTickG_eq _ m p hm, tick_sec_tick k m p (Nat.pos_of_ne_zero hm) (Nat.pos_of_ne_zero hp)]
  -- a missing keyword is the default value of BOTH functions
  have hs : ∀ (t : Rat) (m p : Option Nat), secToTickG t m p = secToTickG t (some (m.getD 500000)) (some (p.getD 480)) := by
    intro t m p; unfold secToTickG; rw [d1, d2]; cases m <;> cases p <;> rfl
  have ht : ∀ (x : Rat) (m p : Option Nat), tickToSecG x m p = tickToSecG x (some (m.getD 500000)) (some (p.getD 480)) := by
    intro x m p; unfold tickToSecG; rw [d3, d4]; cases m <;> cases p <;> rfl
  rw [ht]
  have : (fun t => secToTickG t mpq ppq) = fun t => secToTickG t (some (mpq.getD 500000)) (some (ppq.getD 480)) := by
    funext t; exact hs t mpq ppq
  rw [this]
  apply key
  · cases mpq with
    | none => simp
    | some m => simpa using hm
  · cases ppq with
    | none => simp
    | some p => simpa using hp

/-- seconds → ticks → seconds comes back within half a tick (mpq / (2·10^6·ppq) seconds) -/
theorem sec_tick_sec_close (t : Rat) (mpq ppq : Nat) (hm : 0 < mpq) (hp : 0 < ppq) :
    |tickToSec (secToTick t mpq ppq) mpq ppq - t| ≤ (mpq : Rat) / (2 * 1000000 * (ppq : Rat)) := by
  have hm' : (0 : Rat) < (mpq : Rat) := by exact_mod_cast hm
  have hp' : (0 : Rat) < (ppq : Rat) := by exact_mod_cast hp
  have hc := tick_nearest t mpq ppq
  set k : Rat := ((secToTick t mpq ppq : Int) : Rat) with hk
  have hpos : (0 : Rat) < (mpq : Rat) / (1000000 * (ppq : Rat)) := div_pos hm' (mul_pos (by norm_num) hp')
  have e : tickToSec (secToTick t mpq ppq) mpq ppq - t
      = (k - 1000000 * (ppq : Rat) * t / (mpq : Rat)) * ((mpq : Rat) / (1000000 * (ppq : Rat))) := by
    unfold tickToSec
    rw [← hk]
    field_simp
  rw [e, abs_mul, abs_of_pos hpos]
  calc |k - 1000000 * (ppq : Rat) * t / (mpq : Rat)| * ((mpq : Rat) / (1000000 * (ppq : Rat)))
      ≤ (1 / 2) * ((mpq : Rat) / (1000000 * (ppq : Rat))) := by
        exact mul_le_mul_of_nonneg_right hc (le_of_lt hpos)
    _ = (mpq : Rat) / (2 * 1000000 * (ppq : Rat)) := by field_simp

/-- `self.unit or "q"` -/
def unitOrQuarter : Option String → String
  | none => "q"
  | some s => if s = "" then "q" else s

theorem mpq_unfold (unit : Option String) (bpm : Rat) :
    microsecondsPerQuarterG unit bpm = match toQuarterTempo (unitOrQuarter unit) bpm with
      | some q => if q = 0 then none else some (roundHalfEven (60 * (1000000 / q)))
      | none => none := by
  cases unit <;> rfl

/-- `Tempo.microseconds_per_quarter` is a nearest integer to 60·10^6 / (quarters per minute), for every unit string,
    also with the unit left out or empty (then a quarter) -/
theorem mpq_nearest (unit : Option String) (bpm : Rat) (k : Int) (h : microsecondsPerQuarterG unit bpm = some k) :
    ∃ q : Rat, q ≠ 0 ∧ toQuarterTempo (unitOrQuarter unit) bpm = some q ∧ |(k : Rat) - 60 * 1000000 / q| ≤ 1 / 2 := by
  rw [mpq_unfold] at h
  cases hq : toQuarterTempo (unitOrQuarter unit) bpm with
  | none => rw [hq] at h; simp at h
  | some q =>
    rw [hq] at h
    simp only at h
    split at h
    · simp at h
    · rename_i hq0
      simp only [Option.some.injEq] at h
      refine ⟨q, hq0, rfl, ?_⟩
      rw [← h]
      have e : (60 : Rat) * (1000000 / q) = 60 * 1000000 / q := by ring
      rw [e]
      exact Round.roundHalfEven_close _

example : microsecondsPerQuarterG none 120 = some 500000 ∧ microsecondsPerQuarterG (some "h.") 50 = some 400000 ∧
    microsecondsPerQuarterG (some "") 60 = some 1000000 ∧ microsecondsPerQuarterG (some "q") 0 = none := by decide +kernel

/-! ### frequency: the constants of the two source lines fit together -/

/-- number of octaves between the reference pitches of the two formulas -/
def freqShift : Nat := ((m2fRef - f2mRef) / m2fOctave).num.toNat

/-- the constants of `midi_pitch_to_frequency` and `frequency_to_midi_pitch` as regenerated: base 2, the same
    octave size, and the scale factors differ by exactly the octaves between the two reference pitches.
    (Props/C12Real.lean derives the inversion over ℝ from these equations alone.) -/
theorem freq_consts :
    m2fBase = 2 ∧ f2mOctave = m2fOctave ∧ m2fOctave ≠ 0 ∧ m2fDiv ≠ 0 ∧
    f2mMul = m2fDiv * 2 ^ freqShift ∧ (freqShift : Rat) * m2fOctave = m2fRef - f2mRef := by decide +kernel

/-- with the tuning left out both conversions assume the same (positive) frequency of A4 -/
theorem freq_defaults_agree : m2fDefaultA4 = f2mDefaultA4 ∧ 0 < m2fDefaultA4 := by decide +kernel

/-- on whole octaves from the reference pitch the frequency is rational: A4 = MIDI 69 sounds at the tuning
    frequency (440 Hz when left out), an octave doubles it -/
theorem freq_octaves : midiToFreqQ 69 none = some 440 ∧ midiToFreqQ 69 (some 415) = some 415 ∧
    midiToFreqQ 81 (some 442) = some 884 ∧ midiToFreqQ 57 none = some 220 ∧ midiToFreqQ 9 (some 440) = some (55 / 4) ∧
    midiToFreqQ (-3) (some 440) = some (55 / 8) ∧ midiToFreqQ 60 none = none := by decide +kernel

end C12
