/-
C07 — `to_v1` of info and meta lines: the attribute is renamed through the equivalence tables, the VALUE
(key signature, time signature, file names, clock units, …) is carried over unchanged - the two documented
exceptions being `subtitle` (a pre-1.0 list of words becomes one string) and `tempoIndication` (the words
become one tempo text) - and a meta line keeps its measure and time.  Insertions, trills: anchor and
performed note.
-/
import PartituraModel.Model.MatchLine
import PartituraModel.Gen.MatchTemplates
import PartituraModel.Proofs.C07Frac
import PartituraModel.Props.C07Codecs

namespace C07
open Model Model.Template Model.MatchCodec Model.MatchLine Gen

/-- the 1.0.0 name of a pre-1.0 attribute -/
def v1Attr (a : String) (eqv : List (String × String)) : String := (lookup a eqv).getD a

/-- **meta lines** (`meta(timeSignature,3/4,12,45.0).` → `scoreprop(timeSignature,3/4,12:1,0,45.0000).`):
    the result is a score property with the same value, measure and time, at beat 1 with offset 0 -/
theorem toV1_meta_content (ts : List Template) (v : Nat × Nat × Nat) (vals : List Val) (k : String) (vals' : List Val)
    (h : toV1 ts "meta" v vals = some (k, vals')) :
    ∃ attr value measure time, vals = [.str attr, value, measure, time] ∧ k = "scoreprop" ∧
      v1ScorepropAttributes.contains (v1Attr (String.ofList attr) scorepropAttributeEquivalences) = true ∧
      vals' = [.str (v1Attr (String.ofList attr) scorepropAttributeEquivalences).toList, value, measure,
               .int 1, .frac zeroFrac, time] := by
  unfold toV1 at h
  simp only at h
  split at h
  · rename_i attr value measure time
    split at h
    · simp at h
    · rename_i hc
      simp only [Option.some.injEq, Prod.mk.injEq] at h
      refine ⟨attr, value, measure, time, rfl, h.1.symm, ?_, h.2.symm⟩
      simpa [v1Attr] using hc
  · simp at h

/-- **info lines**: the result is a 1.0.0 info line or a score property whose value is the value of the input,
    except for `subtitle` and `tempoIndication` -/
theorem toV1_info_content (ts : List Template) (v : Nat × Nat × Nat) (vals : List Val) (k : String) (vals' : List Val)
    (h : toV1 ts "info" v vals = some (k, vals')) :
    ∃ attr value value', vals = [.str attr, value] ∧
      ((k = "info" ∧ vals' = [.str (v1Attr (String.ofList attr) infoAttributeEquivalences).toList, value'] ∧
          (v1Attr (String.ofList attr) infoAttributeEquivalences ≠ "subtitle" → value' = value)) ∨
       (k = "scoreprop" ∧
          vals' = [.str (v1Attr (String.ofList attr) scorepropAttributeEquivalences).toList, value', .int 1, .int 1,
                   .frac zeroFrac, .dec 0] ∧
          (v1Attr (String.ofList attr) scorepropAttributeEquivalences ≠ "tempoIndication" → value' = value))) := by
  unfold toV1 at h
  simp only at h
  split at h
  · rename_i attr value
    split at h
    · split at h
      · simp at h
      · simp only [Option.some.injEq, Prod.mk.injEq] at h
        refine ⟨attr, value, _, rfl, Or.inl ⟨h.1.symm, h.2.symm, ?_⟩⟩
        intro hne
        have : ((lookup (String.ofList attr) infoAttributeEquivalences).getD (String.ofList attr) == "subtitle") = false := by
          simpa [v1Attr] using hne
        simp only [this, Bool.false_eq_true, if_false]
    · split at h
      · split at h
        · simp at h
        · simp only [Option.some.injEq, Prod.mk.injEq] at h
          refine ⟨attr, value, _, rfl, Or.inr ⟨h.1.symm, h.2.symm, ?_⟩⟩
          intro hne
          have : ((lookup (String.ofList attr) scorepropAttributeEquivalences).getD (String.ofList attr) == "tempoIndication") = false := by
            simpa [v1Attr] using hne
          simp only [this, Bool.false_eq_true, if_false]
      · simp at h
  · simp at h

/-- key and time signatures of pre-1.0 info lines become score properties with the SAME value -/
theorem toV1_info_signatures (ts : List Template) (v : Nat × Nat × Nat) (value : Val) :
    toV1 ts "info" v [.str "keySignature".toList, value]
      = some ("scoreprop", [.str "keySignature".toList, value, .int 1, .int 1, .frac zeroFrac, .dec 0]) ∧
    toV1 ts "info" v [.str "timeSignature".toList, value]
      = some ("scoreprop", [.str "timeSignature".toList, value, .int 1, .int 1, .frac zeroFrac, .dec 0]) := by
  constructor <;> rfl

/-- the two conversions of values: a subtitle list becomes the text Python prints for the list, the words of a
    tempo indication become the first comma-free run of their blank-separated text -/
example : toV1 [] "info" (0, 5, 0) [.str "subtitle".toList, .strs ["a".toList, "b".toList]]
      = some ("info", [.str "subtitle".toList, .str "['a', 'b']".toList]) ∧
    toV1 [] "info" (0, 5, 0) [.str "tempoIndication".toList, .strs ["lento".toList, "ma".toList]]
      = some ("scoreprop", [.str "tempoIndication".toList, .tempo "lento ma".toList, .int 1, .int 1, .frac zeroFrac, .dec 0]) ∧
    toV1 [] "info" (0, 5, 0) [.str "midiFilename".toList, .str "x.mid".toList]
      = some ("info", [.str "midiFileName".toList, .str "x.mid".toList]) := by
  refine ⟨?_, ?_, ?_⟩ <;> decide +kernel

/-- **tempo indication** (pre-1.0 info line: a list of words; 1.0.0 score property: one tempo text): the words
    are kept, in order, joined by single blanks - provided that text is a tempo text the 1.0.0 interpreter reads
    back as itself (no blank at either end, not empty, no comma, no `[` in front); the result is then an
    admissible value of the 1.0.0 line (`Adm`, so `line_roundtrip_adm` applies to the converted line) -/
theorem toV1_tempo_words (ts : List Template) (v : Nat × Nat × Nat) (l : List Str)
    (hs : strip (joinWith [' '] l) = joinWith [' '] l) (hne : joinWith [' '] l ≠ [])
    (hc : ∀ c ∈ joinWith [' '] l, c ≠ ',') (hb : (joinWith [' '] l).head? ≠ some '[') :
    toV1 ts "info" v [.str "tempoIndication".toList, .strs l]
      = some ("scoreprop", [.str "tempoIndication".toList, .tempo (joinWith [' '] l), .int 1, .int 1,
                            .frac zeroFrac, .dec 0]) ∧
    Adm .tempo .tempo (.tempo (joinWith [' '] l)) := by
  have key : toV1 ts "info" v [.str "tempoIndication".toList, .strs l]
      = some ("scoreprop", [.str "tempoIndication".toList,
          (match decTempo (joinWith [' '] l) with | some s => Val.tempo s | none => Val.none),
          .int 1, .int 1, .frac zeroFrac, .dec 0]) := rfl
  rw [key, C07Codec.decTempo_id _ hs hne hc hb]
  exact ⟨rfl, hs, hne, hc, hb⟩

/-- **subtitle** (pre-1.0: a list of words; 1.0.0: one string): an empty list becomes the empty string, any
    other list the text Python prints for it (`['a', 'b']`: every word, in order, between apostrophes) -/
theorem toV1_subtitle_words (ts : List Template) (v : Nat × Nat × Nat) (w : Str) (l : List Str) :
    toV1 ts "info" v [.str "subtitle".toList, .strs []] = some ("info", [.str "subtitle".toList, .str []]) ∧
    toV1 ts "info" v [.str "subtitle".toList, .strs (w :: l)]
      = some ("info", [.str "subtitle".toList,
          .str ('[' :: (joinWith [',', ' '] ((w :: l).map fun s => '\'' :: (s ++ ['\'']))) ++ [']'])]) := by
  constructor <;> rfl

example : strip (joinWith [' '] ["lento".toList, "ma".toList]) = joinWith [' '] ["lento".toList, "ma".toList] ∧
    joinWith [' '] ["lento".toList, "ma".toList] = "lento ma".toList := by
  constructor <;> decide +kernel

/-- insertions and their variants, trills: the anchor is kept and the performed note is converted by `noteToV1`
    (id, velocity and tick times kept, MIDI pitch = the spelled pitch: `noteToV1_content`) -/
theorem toV1_insertion_content (ts : List Template) (v : Nat × Nat × Nat) (kind : String) (vals vals' : List Val) (k : String)
    (hk : kind = "insertion" ∨ kind = "hammer_bounce" ∨ kind = "trailing_played")
    (h : toV1 ts kind v vals = some (k, vals')) :
    k = "insertion" ∧ ∃ names, noteToV1 names vals = some vals' := by
  rcases hk with rfl | rfl | rfl <;>
  · unfold toV1 at h
    simp only [Option.map_eq_some_iff, Prod.mk.injEq] at h
    obtain ⟨n, hn, hk', hv⟩ := h
    subst hv
    exact ⟨hk'.symm, _, hn⟩

theorem toV1_trill_content (ts : List Template) (v : Nat × Nat × Nat) (vals vals' : List Val) (k : String)
    (h : toV1 ts "trill" v vals = some (k, vals')) :
    k = "ornament" ∧ ∃ anchor rest names n, vals = anchor :: rest ∧ noteToV1 names rest = some n ∧
      vals' = anchor :: .strs ["trill".toList] :: n := by
  unfold toV1 at h
  simp only at h
  split at h
  · rename_i anchor rest
    simp only [Option.map_eq_some_iff, Prod.mk.injEq] at h
    obtain ⟨n, hn, hk', hv⟩ := h
    exact ⟨hk'.symm, anchor, rest, _, n, rfl, hn, hv.symm⟩
  · simp at h

end C07
