/-
C01, round 2 — the timeline after ARBITRARY histories (no hypothesis on what is registered), the effect of
double registration and of `remove` on an object that is not registered, `quarter_duration_map` on
arbitrary times and arrays, `quarter_durations(start, end)`, `first_point / last_point / get_point`.

Vocabulary (Model/TimelineExt.lean unless noted):
  `WInv s`           the invariant of ALL histories: `Inv` with "start/end refer to the very point that lists
                     the object, and only that point lists it" weakened to its first half
  `Strict s`         the second half ("only that point lists it"); `Inv s ↔ WInv s ∧ Strict s`
  `Listed s sd x o`  the point at time `x` lists `o` among its starting (`sd = .start`) / ending objects
  `QDNonneg op`      quarter durations are set at times ≥ 0 (the only argument condition)
  `ClsOk s`          the class ids of the object records are rows of the generated class table (Proofs/C01WeakOps)
  `qdAtQ tab x`      `quarter_duration_map(x)` for a rational time `x`; `quarterMap s xs` for an array
-/
import PartituraModel.Props.C01
import PartituraModel.Proofs.C01QueryRT
import PartituraModel.Proofs.C01Np

namespace C01
open TL

/-! ### the weak invariant holds after every history -/

theorem winv_init (q : Nat) : WInv (Part.init q) := init_winv q

/-- no hypothesis `Valid`: also double registration and removal of unregistered objects keep `WInv` -/
theorem winv_step {s s' : Part} {op : Op} {out : Out} (hW : WInv s) (hq : QDNonneg op)
    (h : step s op = .ok (s', out)) : WInv s' := wstep_preserves hW hq h

/-- by induction over the operation list, for EVERY operation list -/
theorem winv_reachable (q : Nat) (ops : List Op) (hq : ∀ op ∈ ops, QDNonneg op) :
    WInv (run (Part.init q) ops) := run_winv (init_winv q) ops hq

/-- no operation with non-negative time arguments raises, whatever was registered before -/
theorem step_total_any {s : Part} {op : Op} (hW : WInv s) (hq : QDNonneg op) (hn : op.negTime = false) :
    ∃ s' out, step s op = .ok (s', out) ∧ WInv s' := wstep_ok hW hq hn

/-- `Inv` is `WInv` plus "only the point an object refers to lists it" -/
theorem inv_iff_winv_strict (s : Part) : Inv s ↔ WInv s ∧ Strict s := TL.inv_iff_winv_strict s

/-- the executable weak invariant the driver evaluates on model states is `WInv` -/
theorem winvB_iff (s : Part) : winvB s = true ↔ WInv s := by
  constructor
  · intro h
    simp only [winvB, Bool.and_eq_true, decide_eq_true_eq] at h
    obtain ⟨⟨⟨⟨⟨⟨⟨⟨⟨⟨⟨⟨h1, h2⟩, h3⟩, h4⟩, h5⟩, h6⟩, h7⟩, h8⟩, h9⟩, h10⟩, h11⟩, h12⟩, h13⟩ := h
    exact ⟨h1, h2, h3, h4, h5, h6, fun sd e he t ht => h7 sd e he t (by simpa using ht), h8, h9, h10, h11, h12, h13⟩
  · intro h
    simp only [winvB, Bool.and_eq_true, decide_eq_true_eq]
    exact ⟨⟨⟨⟨⟨⟨⟨⟨⟨⟨⟨⟨h.sorted, h.nonneg⟩, h.links⟩, h.regNodup⟩, h.objsNodup⟩, h.backListed⟩,
      fun sd e he t ht => h.refOn sd e he t (by simpa using ht)⟩, h.listedKnown⟩, h.nonempty⟩, h.requestedOn⟩,
      h.quarter⟩, h.qsorted⟩, h.qhead⟩

/-- the class ids of the records stay inside the generated table when only timed objects are added -/
theorem clsOk_reachable (q : Nat) (ops : List Op) (ho : ∀ op ∈ ops, op.clsOk) :
    ClsOk (run (Part.init q) ops) := run_clsOk (init_clsOk q) ops ho

/-! ### what `add` and `remove` do, registered or not -/

/-- effect of `add` in ANY reachable state: the supplied sides are (re)set, one listing per supplied side is
added and NO listing is removed — a side that was registered elsewhere stays listed there -/
theorem add_any_effect {s : Part} (hW : WInv s) {o : ObjRef} {st en : Option Int}
    (hn : (Op.add o st en).negTime = false) :
    ∃ s', step s (.add o st en) = .ok (s', .unit) ∧ WInv s' ∧ s'.qtab = s.qtab ∧ s'.requested = s.requested
      ∧ (getObj s'.objs o).start = (if st.isSome then st else (getObj s.objs o).start)
      ∧ (getObj s'.objs o).stop = (if en.isSome then en else (getObj s.objs o).stop)
      ∧ (∀ o', o' ≠ o → getObj s'.objs o' = getObj s.objs o')
      ∧ (∀ x, x ∈ s'.times ↔ x ∈ s.times ∨ some x = st ∨ some x = en)
      ∧ (∀ sd x o', Listed s' sd x o' ↔
          Listed s sd x o' ∨ (o' = o ∧ ((sd = .start ∧ st = some x) ∨ (sd = .stop ∧ en = some x)))) := by
  obtain ⟨s', h1, h2, h3⟩ := add_wspec ((wgood_iff_winv s).mpr hW) hn
  exact ⟨s', h1, (wgood_iff_winv s').mp h2, h3⟩

/-- `add(o, start=t)` / `add(o, end=t)` -/
def addOn : Side → ObjRef → Int → Op
  | .start, o, t => .add o (some t) none
  | .stop, o, t => .add o none (some t)

/-- double registration: `o` is registered on side `sd` at `t0` and is added again on that side at another
time `t`.  The call succeeds, `o`'s reference moves to `t`, but the point at `t0` STILL lists `o`: the part
is no longer "exactly the collection of the registered objects" (`Strict` and hence `Inv` fail), while all
other clauses (`WInv`) survive.  This is what the code does; the property excludes the call (`Valid`). -/
theorem add_twice_effect {s : Part} (hW : WInv s) {o : ObjRef} {sd : Side} {t0 t : Int}
    (h0 : (getObj s.objs o).at sd = some t0) (ht : 0 ≤ t) (hne : t ≠ t0) :
    ∃ s', step s (addOn sd o t) = .ok (s', .unit) ∧ WInv s' ∧ (getObj s'.objs o).at sd = some t
      ∧ Listed s' sd t0 o ∧ Listed s' sd t o ∧ ¬ Strict s' ∧ ¬ Inv s' := by
  have hg := (wgood_iff_winv s).mpr hW
  have hl0 : Listed s sd t0 o := by
    have hmem := hg.1.getObj_refOn sd o h0
    obtain ⟨p, hp, hpt⟩ := List.mem_map.mp hmem
    exact ⟨p, hp, hpt, hg.1.getObj_backListed sd o hp (by rw [hpt]; exact h0)⟩
  have hneg : ¬ t < 0 := by omega
  have key : ∃ s', step s (addOn sd o t) = .ok (s', .unit) ∧ WInv s' ∧ (getObj s'.objs o).at sd = some t
      ∧ Listed s' sd t0 o ∧ Listed s' sd t o := by
    cases sd with
    | start =>
      obtain ⟨s', h1, h2, -, -, h5, -, -, -, h9⟩ :=
        add_any_effect hW (o := o) (st := some t) (en := none) (by simp [Op.negTime, isNeg, hneg])
      exact ⟨s', h1, h2, by simpa [ObjSt.at] using h5, (h9 _ _ _).mpr (Or.inl hl0), (h9 _ _ _).mpr (Or.inr (by simp))⟩
    | stop =>
      obtain ⟨s', h1, h2, -, -, -, h6, -, -, h9⟩ :=
        add_any_effect hW (o := o) (st := none) (en := some t) (by simp [Op.negTime, isNeg, hneg])
      exact ⟨s', h1, h2, by simpa [ObjSt.at] using h6, (h9 _ _ _).mpr (Or.inl hl0), (h9 _ _ _).mpr (Or.inr (by simp))⟩
  obtain ⟨s', h1, h2, h3, h4, h5⟩ := key
  have hns : ¬ Strict s' := by
    intro hs
    obtain ⟨p, hp, hpt, ho⟩ := h4
    have hmem : getObj s'.objs o ∈ s'.objs := by
      rcases getObj_mem_or_blank s'.objs o with ⟨hm, _⟩ | ⟨hb, _⟩
      · exact hm
      · rw [hb] at h3
        cases sd <;> simp [blank, ObjSt.at] at h3
    have := hs sd _ hmem p hp (by simpa using ho)
    rw [h3, hpt] at this
    simp only [Option.some.injEq] at this
    exact hne this
  exact ⟨s', h1, h2, h3, h4, h5, hns, fun hI => hns ((TL.inv_iff_winv_strict s').mp hI).2⟩

/-- the documented two-call usage (`tie_notes`: `add(o, start)` then `add(o, end=…)`) is the one-call `add` -/
theorem add_split (s : Part) (o : ObjRef) (a b : Int) :
    step s (.add o (some a) (some b))
      = (if b < 0 then .error .invalidTimePoint
         else (step s (.add o (some a) none)).bind fun r => step r.1 (.add o none (some b))) := by
  by_cases hb : b < 0
  · simp [step, stepAdd, isNeg, hb, Except.map]
  · by_cases ha : a < 0
    · simp [step, stepAdd, isNeg, ha, hb, Except.map, Except.bind]
    · simp only [step, stepAdd, isNeg, ha, hb, decide_false, Bool.or_self, Bool.false_eq_true, if_false,
        addSideOpt, Except.bind]
      cases addSide s .start a o with
      | error e => rfl
      | ok s1 =>
        simp only [Except.map]

/-- effect of `remove` in ANY reachable state: exactly the listing the object's reference points to is
removed on each requested side; stale listings left behind by a double registration stay -/
theorem remove_any_effect {s : Part} (hW : WInv s) (o : ObjRef) (w : Which) :
    ∃ s', step s (.remove o w) = .ok (s', .unit) ∧ WInv s' ∧ s'.qtab = s.qtab
      ∧ (getObj s'.objs o).start = (if w = .start ∨ w = .both then none else (getObj s.objs o).start)
      ∧ (getObj s'.objs o).stop = (if w = .stop ∨ w = .both then none else (getObj s.objs o).stop)
      ∧ (∀ o', o' ≠ o → getObj s'.objs o' = getObj s.objs o')
      ∧ (∀ sd x o', Listed s' sd x o' ↔
          Listed s sd x o' ∧ ¬ (o' = o ∧ w.has sd ∧ (getObj s.objs o).at sd = some x)) := by
  obtain ⟨s', h1, h2, h3⟩ := remove_wspec ((wgood_iff_winv s).mpr hW) o w
  exact ⟨s', h1, (wgood_iff_winv s').mp h2, h3⟩

/-- `remove` of an object that is not registered (`o.start is None and o.end is None`) does nothing at all,
in every state (no invariant needed) -/
theorem remove_unregistered_effect (s : Part) (o : ObjRef) (w : Which)
    (h1 : (getObj s.objs o).start = none) (h2 : (getObj s.objs o).stop = none) :
    step s (.remove o w) = .ok (s, .unit) := by
  have e1 : removeSide s .start o = .ok s := by simp [removeSide, ObjSt.at, h1, pure, Except.pure]
  have e2 : removeSide s .stop o = .ok s := by simp [removeSide, ObjSt.at, h2, pure, Except.pure]
  simp only [step, stepRemove, e1]
  cases w <;> simp [e2, Except.bind, Except.map]

/-- `get_or_add_point` in ANY reachable state -/
theorem getOrAdd_any_effect {s : Part} (hW : WInv s) {t : Int} (ht : 0 ≤ t) :
    ∃ s', step s (.getOrAdd t) = .ok (s', .point (some t)) ∧ WInv s' ∧ s'.qtab = s.qtab ∧ s'.objs = s.objs
      ∧ t ∈ s'.times ∧ (∀ x, x ∈ s'.times ↔ x ∈ s.times ∨ x = t)
      ∧ (∀ sd x o, Listed s' sd x o ↔ Listed s sd x o) := by
  obtain ⟨s', h1, h2, h3⟩ := getOrAdd_wspec ((wgood_iff_winv s).mpr hW) ht
  exact ⟨s', h1, (wgood_iff_winv s').mp h2, h3⟩

/-- `set_quarter_duration` in ANY reachable state: the law, and nothing but `quarter` attributes changes -/
theorem setQD_any_history {s : Part} (hW : WInv s) {t : Int} (ht : 0 ≤ t) (q : Nat) :
    (∀ x, 0 ≤ x → ∀ v, qdAt s.qtab x = some v →
        qdAt (setQD s t q).qtab x = some (if t ≤ x ∧ ltOpt x (nextChange s.qtab t) then q else v))
    ∧ (setQD s t q).objs = s.objs ∧ (setQD s t q).requested = s.requested
    ∧ (setQD s t q).points.map (fun p => (p.t, p.prev, p.next, p.starting, p.ending))
        = s.points.map (fun p => (p.t, p.prev, p.next, p.starting, p.ending))
    ∧ WInv (setQD s t q) := by
  have hg := (wgood_iff_winv s).mpr hW
  have r := setQD_result hg.1.toQCore ht q
  exact ⟨r.law, r.objs, r.requested, r.same, (wgood_iff_winv _).mp (setQD_wgood hg ht q).1⟩

/-- `_cleanup_point` in every reachable state: a time point exists exactly when some object is listed there
(as starting or ending) or it was requested through `get_or_add_point` — no empty point is left behind, no
listed point is dropped (the all-histories form of `points_are_spec`) -/
theorem points_are_listings {s : Part} (hW : WInv s) (x : Int) :
    x ∈ s.times ↔ (∃ sd o, Listed s sd x o) ∨ x ∈ s.requested := by
  constructor
  · intro hx
    obtain ⟨p, hp, rfl⟩ := List.mem_map.mp hx
    rcases hW.nonempty p hp with h | h | h
    · obtain ⟨o, ho⟩ := List.exists_mem_of_ne_nil _ h
      exact Or.inl ⟨.start, o, p, hp, rfl, ho⟩
    · obtain ⟨o, ho⟩ := List.exists_mem_of_ne_nil _ h
      exact Or.inl ⟨.stop, o, p, hp, rfl, ho⟩
    · exact Or.inr h
  · rintro (⟨sd, o, p, hp, rfl, -⟩ | h)
    · exact List.mem_map_of_mem hp
    · exact hW.requestedOn x h

/-- an object's reference is always one of its listings (the half of `listed_iff_backref` that survives double
registration); inside `Valid` histories it is the only one (`Inv`, `Strict`) -/
theorem backref_listed {s : Part} (hW : WInv s) (sd : Side) (o : ObjRef) {x : Int}
    (h : (getObj s.objs o).at sd = some x) : Listed s sd x o := by
  have hg := (wgood_iff_winv s).mpr hW
  obtain ⟨p, hp, hpt⟩ := List.mem_map.mp (hg.1.getObj_refOn sd o h)
  exact ⟨p, hp, hpt, hg.1.getObj_backListed sd o hp (by rw [hpt]; exact h)⟩

/-! ### `quarter_duration_map` and `quarter_durations(start, end)` -/

/-- `quarter_duration_map(x)` for ANY (rational, not necessarily time-point) `x`: the duration of the last
change at or before `x`; before the first change, the first duration.  (The table is never empty and starts
at 0: `WInv.qhead`.) -/
theorem quarterMap_correct {s : Part} (hW : WInv s) (x : Rat) :
    (∀ e ∈ s.qtab, (e.1 : Rat) ≤ x → (∀ e' ∈ s.qtab, (e'.1 : Rat) ≤ x → e'.1 ≤ e.1) → qdAtQ s.qtab x = some e.2)
    ∧ ((∀ e ∈ s.qtab, x < (e.1 : Rat)) → qdAtQ s.qtab x = s.qtab.head?.map (·.2))
    ∧ (∃ v, qdAtQ s.qtab x = some v) := by
  obtain ⟨h1, h2⟩ := qdAtQ_spec hW.qsorted x
  refine ⟨h1, h2, ?_⟩
  have := hW.qhead
  cases hq : s.qtab with
  | nil => simp [hq] at this
  | cons e r => exact ⟨_, rfl⟩

/-- at integer times the map is the model's `qdAt` — so `WInv.quarter` says: every time point carries
`quarter_duration_map(t)` -/
theorem quarterMap_int (tab : List (Int × Nat)) (t : Int) : qdAtQ tab (t : Rat) = qdAt tab t := qdAtQ_cast tab t

/-- list / array arguments are mapped element-wise -/
theorem quarterMap_array (s : Part) (xs : List Rat) :
    (quarterMap s xs).length = xs.length ∧ ∀ i (h : i < xs.length), (quarterMap s xs)[i]? = some (qdAtQ s.qtab xs[i]) := by
  refine ⟨by simp [quarterMap], ?_⟩
  intro i h
  simp [quarterMap, h]

/-- `quarter_durations(a, b)` is the sub-table of the stored changes with `a ≤ time < b`: exactly those
entries, in table order, strictly increasing in time -/
theorem quarterDurations_exact {s : Part} (hW : WInv s) (a b : Option Int) :
    (quarterDurations s a b).Sublist s.qtab
    ∧ ((quarterDurations s a b).map (·.1)).Pairwise (· < ·)
    ∧ (∀ e, e ∈ quarterDurations s a b ↔ e ∈ s.qtab ∧ (∀ x, a = some x → x ≤ e.1) ∧ (∀ y, b = some y → e.1 < y)) := by
  have hsub : (quarterDurations s a b).Sublist s.qtab := by
    unfold quarterDurations
    exact List.filter_sublist.trans List.filter_sublist
  refine ⟨hsub, (hW.qsorted).sublist (hsub.map _), ?_⟩
  intro e
  unfold quarterDurations
  cases a <;> cases b <;> simp [List.mem_filter] <;> intro _ <;> exact And.comm

/-! ### `first_point`, `last_point`, `get_point` after arbitrary histories -/

theorem first_last_any_history {s : Part} (hW : WInv s) :
    step s .first = .ok (s, .point s.times.head?) ∧ step s .last = .ok (s, .point s.times.getLast?)
    ∧ (∀ h ∈ s.times.head?, ∀ x ∈ s.times, h ≤ x) ∧ (∀ h ∈ s.times.getLast?, ∀ x ∈ s.times, x ≤ h)
    ∧ (s.times.head? = none ↔ s.times = []) ∧ (s.times.getLast? = none ↔ s.times = []) := by
  refine ⟨by simp [step, Part.times], by simp [step, Part.times], head_min hW.sorted, getLast_max hW.sorted,
    by simp, by simp⟩

theorem getPoint_any_history {s : Part} (hW : WInv s) {t : Int} (ht : 0 ≤ t) :
    step s (.getPoint t) = .ok (s, .point (if t ∈ s.times then some t else none)) := by
  have hneg : ¬ t < 0 := by omega
  simp only [step, hneg, if_false]
  by_cases hm : t ∈ s.times
  · obtain ⟨l, p, r, hsplit, hpt, -, -⟩ := split_at_time hW.sorted hm
    have hs := hW.sorted
    rw [Part.times, hsplit] at hs
    subst hpt
    rw [hsplit, getPoint_of_split hs]
    simp [hm]
  · rw [getPoint_none_of_not_mem hm]
    simp [hm]

/-! ### queries after arbitrary histories, in terms of the listings -/

/-- `iter_all` in ANY reachable state: the concatenation, over the time points in `[a, b)` in increasing
time order, of one duplicate-free segment per point holding exactly the matching objects that point lists -/
theorem iterAll_any_history {s : Part} (hW : WInv s) (hk : ClsOk s) (cls : Option Nat) (a b : Option Int)
    (incl : Bool) (mode : Mode) :
    ∃ segs : List (Int × List ObjRef), iterAll s cls a b incl mode = segs.flatMap (·.2)
      ∧ (segs.map (·.1)).Pairwise (· < ·)
      ∧ (∀ τ, τ ∈ segs.map (·.1) ↔ τ ∈ s.times ∧ inRange a b τ)
      ∧ (∀ seg ∈ segs, seg.2.Nodup
          ∧ ∀ o, o ∈ seg.2 ↔ Listed s mode.side seg.1 o ∧ ClassSpecRT cls (inclEff cls incl) o.cls) := by
  have hsub : ∀ p ∈ rangePoints s.points a b, p ∈ s.points := fun p hp => (List.mem_filter.mp hp).1
  obtain ⟨k1, k2, k3⟩ := segments_spec hW hk mode.side cls (inclEff cls incl) (rangePoints s.points a b) hsub
  refine ⟨_, by rw [iterAll_eq hW.sorted]; exact k1, ?_, ?_, k3⟩
  · rw [k2]
    exact (List.Pairwise.sublist (List.Sublist.map _ List.filter_sublist) hW.sorted)
  · intro τ
    rw [k2]
    exact mem_rangePoints_times

/-- `iter_prev` in ANY reachable state (latest point first) -/
theorem iterPrev_any_history {s : Part} (hW : WInv s) (hk : ClsOk s) {t : Int} (ht : 0 ≤ t) (cls : Option Nat)
    (eq incl : Bool) :
    ∃ out, step s (.iterPrev t cls eq incl) = .ok (s, out) ∧
      (t ∉ s.times → out = .noPoint) ∧
      (t ∈ s.times → ∃ segs : List (Int × List ObjRef), out = .objs (segs.flatMap (·.2))
        ∧ (segs.map (·.1)).Pairwise (· > ·)
        ∧ (∀ τ, τ ∈ segs.map (·.1) ↔ τ ∈ s.times ∧ (τ < t ∨ (eq = true ∧ τ = t)))
        ∧ (∀ seg ∈ segs, seg.2.Nodup ∧ ∀ o, o ∈ seg.2 ↔ Listed s .start seg.1 o ∧ ClassSpecRT cls incl o.cls)) := by
  refine ⟨_, by simp only [step, iterPrev_spec' hW.sorted hW.links ht, Except.map]; rfl, ?_, ?_⟩
  · intro h; simp [h]
  · intro h
    simp only [h, if_true]
    have hsub : ∀ p ∈ prevPoints s.points t eq, p ∈ s.points := by
      intro p hp
      simp only [prevPoints, List.mem_reverse] at hp
      exact (List.mem_filter.mp hp).1
    obtain ⟨k1, k2, k3⟩ := segments_spec hW hk .start cls incl (prevPoints s.points t eq) hsub
    refine ⟨_, by rw [← k1]; rfl, ?_, ?_, k3⟩
    · rw [k2]
      simp only [prevPoints, List.map_reverse, List.pairwise_reverse]
      exact (List.Pairwise.sublist (List.Sublist.map _ List.filter_sublist) hW.sorted)
    · intro τ
      rw [k2]
      exact mem_prevPoints_times

/-- `iter_next` in ANY reachable state (earliest point first) -/
theorem iterNext_any_history {s : Part} (hW : WInv s) (hk : ClsOk s) {t : Int} (ht : 0 ≤ t) (cls : Option Nat)
    (eq incl : Bool) :
    ∃ out, step s (.iterNext t cls eq incl) = .ok (s, out) ∧
      (t ∉ s.times → out = .noPoint) ∧
      (t ∈ s.times → ∃ segs : List (Int × List ObjRef), out = .objs (segs.flatMap (·.2))
        ∧ (segs.map (·.1)).Pairwise (· < ·)
        ∧ (∀ τ, τ ∈ segs.map (·.1) ↔ τ ∈ s.times ∧ (t < τ ∨ (eq = true ∧ τ = t)))
        ∧ (∀ seg ∈ segs, seg.2.Nodup ∧ ∀ o, o ∈ seg.2 ↔ Listed s .start seg.1 o ∧ ClassSpecRT cls incl o.cls)) := by
  refine ⟨_, by simp only [step, iterNext_spec' hW.sorted hW.links ht, Except.map]; rfl, ?_, ?_⟩
  · intro h; simp [h]
  · intro h
    simp only [h, if_true]
    have hsub : ∀ p ∈ nextPoints s.points t eq, p ∈ s.points := fun p hp => (List.mem_filter.mp hp).1
    obtain ⟨k1, k2, k3⟩ := segments_spec hW hk .start cls incl (nextPoints s.points t eq) hsub
    refine ⟨_, by rw [← k1]; rfl, ?_, ?_, k3⟩
    · rw [k2]
      exact (List.Pairwise.sublist (List.Sublist.map _ List.filter_sublist) hW.sorted)
    · intro τ
      rw [k2]
      exact mem_nextPoints_times

/-! ### non-vacuity -/

section Examples

def wA : ObjRef := { id := 0, cls := 2 }
def wB : ObjRef := { id := 1, cls := 3 }
def wC : ObjRef := { id := 2, cls := 38 }

/-- a history OUTSIDE `Valid`: `wA` is registered twice by start (0 then 6) and twice by end (4 then 4 — the
same point), an unregistered object is removed, `wA` is removed while a stale listing remains, re-added -/
def wild : List Op :=
  [.add wA (some 0) (some 4), .add wB (some 4) none, .add wA (some 6) none, .add wA none (some 4),
   .remove wC .both, .setQD 4 2, .remove wA .start, .add wA (some 0) none, .add wA (some 9) (some 9),
   .getOrAdd 7, .remove wB .both]

example : ¬ ValidHistory (Part.init 1) wild := by decide +kernel
example : (∀ op ∈ wild, QDNonneg op) ∧ (∀ op ∈ wild, op.clsOk) := by decide +kernel
example : WInv (run (Part.init 1) wild) := (winvB_iff _).mp (by decide +kernel)
/-- … and `Inv` is really lost: the point at 0 and the point at 4 list `wA` although it refers to 9 -/
example : ¬ Inv (run (Part.init 1) wild) := fun h => absurd ((invB_iff _).mpr h) (by decide +kernel)
example : (run (Part.init 1) wild).points.map (fun p => (p.t, p.quarter, p.starting.map (·.id), p.ending.map (·.id)))
    = [(0, 1, [0], []), (4, 2, [], [0]), (7, 2, [], []), (9, 2, [0], [0])] := by decide +kernel

/-- `add_twice_effect`: hypotheses met in a reachable state (registered at 0, added again at 6) -/
example : (getObj (run (Part.init 1) [.add wA (some 0) (some 4)]).objs wA).at .start = some 0 := by decide +kernel
/-- `remove_unregistered_effect`: `wC` was never added -/
example : (getObj (run (Part.init 1) [.add wA (some 0) (some 4)]).objs wC).start = none
    ∧ (getObj (run (Part.init 1) [.add wA (some 0) (some 4)]).objs wC).stop = none := by decide +kernel
/-- `add_split`: both forms on a non-trivial state give the same three-point timeline -/
example : ((step (run (Part.init 1) [.add wB (some 2) none]) (.add wA (some 0) (some 4))).toOption.map
    (fun r => r.1.times)) = some [0, 2, 4] := by decide +kernel
/-- the two-call usage is inside `Valid` and ends in the very state of the one-call form -/
example : ValidHistory (Part.init 1) [.add wB (some 2) none, .add wA (some 0) none, .add wA none (some 4)]
    ∧ run (Part.init 1) [.add wB (some 2) none, .add wA (some 0) none, .add wA none (some 4)]
      = run (Part.init 1) [.add wB (some 2) none, .add wA (some 0) (some 4)] := by decide +kernel
/-- `quarterMap_correct`: between, at and below the changes of the table `[(0,1),(4,2)]` -/
example : quarterMap (run (Part.init 1) wild) [(7 : Rat) / 2, 4, 9 / 2, -1, 1000000]
    = [some 1, some 2, some 2, some 1, some 2] := by decide +kernel
/-- `quarterDurations_exact`: both bounds -/
example : quarterDurations (run (Part.init 1) [.setQD 4 2, .setQD 8 3, .setQD 12 4]) (some 4) (some 12)
    = [(4, 2), (8, 3)] := by decide +kernel
/-- `iterAll_any_history`: the object registered twice is yielded twice (once per listing point) -/
example : iterAll (run (Part.init 1) wild) (some 1) none none true .starting = [wA, wA] := by decide +kernel
example : ClsOk (run (Part.init 1) wild) := by
  unfold ClsOk; decide +kernel

end Examples

end C01
