/-
C07 — line round trips WITHOUT a side condition on the written texts.

`line_roundtrip_adm` (Props/C07Lines.lean) still carries `FieldsOKGen`, a computed condition on the texts the
formatters produce.  Here it is derived from a character-level description of each codec's output:

* `alpha_text`: the output alphabet (and minimal length) of the codecs `format_int` (digits and `-`),
  `'%.kf'` (digits, `-`, `.`; every float), `format_string` / plain `str.format` of an identifier (letters,
  digits, `_ . # + -`), a list of identifiers written without brackets (identifier characters and `,`),
  `format_fractional` / `format_fractional_rational` (digits, `/`, `+`); the note-name and accidental
  formatters are tabulated over all steps and accidentals (`pitch_alpha_ok`);
* `alpha_table_ok`: for the generated templates of the listed kinds the terminating character of every group
  lies outside the alphabets of all fields in the window the group's class can swallow (a check of the
  TEMPLATE, kernel-decided for the whole table on every run);
* `line_roundtrip_values` / `pitch_line_roundtrip_values`: for these line classes (score notes and performed
  notes of all versions, pedal lines of all versions, trill heads, the 1.0.0 section line), every assignment of
  integers, identifiers, k-decimal floats, durations and identifier lists is written,
  parsed back to exactly the values, and written again identically - no hypothesis other than validity of the
  user's values.
* `info_line_roundtrip_values`: info lines of all six versions and meta lines, for EVERY attribute of the
  class's table (`info_alpha_ok`), the formatter of the Value being the one listed under the Attribute;
* `deletion_roundtrip_values`, `insertion_roundtrip_values`, `insertion_roundtrip_values_v1`: composed with the
  composite-line theorems of Props/C07Lines.lean for all 32 deletion-like and insertion-like lines (the identifier
  literal behind the score note is the known text that follows: `affix_alpha_ok`).
Not covered (FieldsOKGen stays a hypothesis there): scoreprop, stime, ptime, ornament head, first components of
two-component lines.
Helper lemmas: Proofs/C07Alpha.lean.
-/
import PartituraModel.Model.MatchLine
import PartituraModel.Gen.MatchTemplates
import PartituraModel.Proofs.C07Alpha
import PartituraModel.Props.C07Lines

namespace C07
open Model Model.Template Model.MatchCodec Model.MatchLine C07Line

/-- characters of an identifier "without separators" (the reading of the property: letters, digits, `_ . # + -`) -/
def idChar (c : Char) : Bool := c.isAlphanum || c == '_' || c == '.' || c == '#' || c == '+' || c == '-'

/-- characters `format_int` writes -/
def intChar (c : Char) : Bool := c.isDigit || c == '-'

/-- characters `'%.kf'` writes -/
def fixChar (c : Char) : Bool := c.isDigit || c == '-' || c == '.'

/-- characters of a list of identifiers written without its brackets -/
def listChar (c : Char) : Bool := idChar c || c == ','

/-- characters of a symbolic duration -/
def fracChar (c : Char) : Bool := c.isDigit || c == '/' || c == '+'

/-- a time signature with further components, written as a list -/
def tsigLChar (c : Char) : Bool := fracChar c || c == ',' || c == '[' || c == ']'

/-- a list of identifiers or integers with its brackets -/
def listBChar (c : Char) : Bool := listChar c || c == '[' || c == ']'

/-- free text: anything but a line break -/
def notNl (c : Char) : Bool := c != '\n'

/-- a key name of the 0.3.0 / 1.0.0 spellings: no line break, no comma -/
def notNlComma (c : Char) : Bool := c != '\n' && c != ','

/-- output alphabet and minimal text length of the codecs described at character level -/
def encAlpha : Enc → Option ((Char → Bool) × Nat)
  | .int => some (intChar, 1)
  | .fix _ => some (fixChar, 1)
  | .repr => some (fixChar, 1)
  | .listBody => some (listChar, 0)
  | .strip => some (idChar, 1)
  | .raw => some (idChar, 1)
  | .upper => some (idChar, 1)
  | .lower => some (idChar, 1)
  | .accTable _ => some (idChar, 1)
  | .frac => some (fracChar, 1)
  | .fracRational => some (fracChar, 1)
  | .version => some (fixChar, 1)
  | .tsig => some (fracChar, 1)
  | .tsigList => some (tsigLChar, 1)
  | .quoted => some (notNl, 1)
  | .list => some (listBChar, 1)
  | .key .v010 => some (notNl, 1)
  | .key .v030list => some (notNl, 1)
  | .key _ => some (notNlComma, 1)
  | _ => none

/-- the text a formatter writes for a value lies in the formatter's alphabet and has the minimal length -/
def TextOK (e : Enc) (v : Val) : Prop :=
  ∃ A N, encAlpha e = some (A, N) ∧ ∀ text, encode e v = some text → text.all A = true ∧ N ≤ text.length

/-- VALUES with a character-level description: any integer (or None); a non-empty identifier; any float written
    with k decimals or by repr; a list of identifiers (or integers); a duration (that is not an empty sum); a
    version; a time signature; a quoted text without line break; one of the 30 keys / 900 double keys -/
def AlphaVal : Enc → Val → Prop
  | .int, .int _ => True
  | .int, .none => True
  | .strip, .str s => s ≠ [] ∧ s.all idChar = true
  | .raw, .str s => s ≠ [] ∧ s.all idChar = true
  | .fix _, .dec _ => True
  | .repr, .dec _ => True
  | .listBody, .strs l => ∀ x ∈ l, x.all idChar = true
  | .frac, .frac f => f.add ≠ some []
  | .fracRational, .frac f => f.add ≠ some []
  | .version, .ver _ _ _ => True
  | .tsig, .tsig _ => True
  | .tsigList, .tsig t => ∀ f ∈ t.others, f.add ≠ some []
  | .quoted, .str s => strip s = s ∧ s.all notNl = true
  | .list, .strs l => ∀ x ∈ l, x.all idChar = true
  | .list, .ints _ => True
  | .key fmt, .key k => Adm (.key fmt) .key (.key k)
  | _, _ => False

/-- the formatter selected for a field: its own, or the one the class's table lists under the line's Attribute -/
def encSel (t : Template) (attr : Option Str) (f : String × Enc × Dec) : Enc :=
  match codecFor t attr f with
  | some c => c.1
  | none => Enc.unmodelled

/-- field names with the formatters selected for a line with the Attribute `attr` -/
def selFields (t : Template) (attr : Option Str) : List (String × Enc) := t.fields.map fun f => (f.1, encSel t attr f)

def AlphaVals : List (String × Enc) → List Val → Prop
  | [], [] => True
  | f :: fs, v :: vs => AlphaVal f.2 v ∧ AlphaVals fs vs
  | _, _ => False

def TextsOK : List (String × Enc) → List Val → Prop
  | [], [] => True
  | f :: fs, v :: vs => TextOK f.2 v ∧ TextsOK fs vs
  | _, _ => False

theorem idChar_not_ws (c : Char) (h : idChar c = true) : isWs c = false := by
  cases hw : isWs c with
  | false => rfl
  | true =>
    exfalso
    simp only [isWs, Bool.or_eq_true, decide_eq_true_eq] at hw
    rcases hw with ((((rfl | rfl) | rfl) | rfl) | rfl) | rfl <;> revert h <;> decide

theorem showNatS_len (n : Nat) : 1 ≤ (showNatS n).length := by
  have := C07Codec.showNatS_ne_nil n
  cases h : showNatS n with
  | nil => exact absurd h this
  | cons _ _ => simp

theorem showNatS_all (P : Char → Bool) (hP : ∀ c, c.isDigit = true → P c = true) (n : Nat) :
    (showNatS n).all P = true := by
  rw [List.all_eq_true]
  intro c hc
  exact hP c (C07Codec.showNatS_isDigit n c hc)

theorem showIntS_alpha (i : Int) : (showIntS i).all intChar = true ∧ 1 ≤ (showIntS i).length := by
  have hn : ∀ n, (showNatS n).all intChar = true := showNatS_all intChar (fun c h => by simp [intChar, h])
  unfold showIntS
  split
  · refine ⟨?_, by simp⟩
    simp only [List.all_cons, Bool.and_eq_true]
    exact ⟨by decide, hn _⟩
  · exact ⟨hn _, showNatS_len _⟩

theorem showNatS_fix (n : Nat) : (showNatS n).all fixChar = true :=
  showNatS_all fixChar (fun c h => by simp [fixChar, h]) n

theorem showNatS_frac (n : Nat) : (showNatS n).all fracChar = true :=
  showNatS_all fracChar (fun c h => by simp [fracChar, h]) n

theorem printFixed_alpha (k : Nat) (neg : Bool) (n : Nat) :
    (printFixed k neg n).all fixChar = true ∧ 1 ≤ (printFixed k neg n).length := by
  unfold printFixed
  constructor
  · simp only [List.all_append, Bool.and_eq_true]
    refine ⟨⟨?_, showNatS_fix _⟩, ?_⟩
    · cases neg <;> simp [fixChar]
    · split
      · rfl
      · simp only [List.all_cons, padZeros, List.all_append, Bool.and_eq_true, List.all_replicate]
        refine ⟨by decide, by split <;> decide, showNatS_fix _⟩
  · have := showNatS_len (n / pow10 k)
    simp only [List.length_append]
    omega

theorem encRepr_alpha (q : Rat) (text : Str) (h : encRepr q = some text) :
    text.all fixChar = true ∧ 1 ≤ text.length := by
  unfold encRepr at h
  simp only at h
  repeat' split at h
  all_goals first
    | (simp only [Option.some.injEq] at h; subst h; exact printFixed_alpha _ _ _)
    | cases h

theorem joinWith_all (P : Char → Bool) (sep : Str) (hsep : sep.all P = true) : ∀ (l : List Str),
    (∀ x ∈ l, x.all P = true) → (joinWith sep l).all P = true := by
  intro l
  fun_induction joinWith sep l with
  | case1 => intro _; rfl
  | case2 x => intro h; exact h x (by simp)
  | case3 x y r ih =>
    intro h
    simp only [List.all_append, Bool.and_eq_true]
    exact ⟨⟨h x (by simp), hsep⟩, ih (fun z hz => h z (by simp [hz]))⟩

theorem joinWith_len (sep x : Str) (r : List Str) : x.length ≤ (joinWith sep (x :: r)).length := by
  cases r with
  | nil => simp [joinWith]
  | cons y r => simp only [joinWith, List.length_append]; omega

theorem fracStr1_alpha (n d : Nat) (t : Option Nat) :
    (fracStr1 n d t).all fracChar = true ∧ 1 ≤ (fracStr1 n d t).length := by
  have hl := showNatS_len n
  unfold fracStr1
  cases t with
  | none =>
    simp only
    split
    · exact ⟨showNatS_frac n, hl⟩
    · refine ⟨?_, by simp only [List.length_append]; omega⟩
      simp only [List.all_append, List.all_cons, Bool.and_eq_true]
      exact ⟨showNatS_frac n, by decide, showNatS_frac d⟩
  | some t =>
    simp only
    refine ⟨?_, by simp only [List.length_append]; omega⟩
    simp only [List.all_append, List.all_cons, Bool.and_eq_true]
    exact ⟨⟨showNatS_frac n, by decide, showNatS_frac d⟩, by decide, showNatS_frac t⟩

theorem toStr_alpha (f : Frac) (h : f.add ≠ some []) : f.toStr.all fracChar = true ∧ 1 ≤ f.toStr.length := by
  unfold Frac.toStr
  cases ha : f.add with
  | none => exact fracStr1_alpha _ _ _
  | some comps =>
    simp only
    constructor
    · apply joinWith_all fracChar ['+'] (by decide)
      intro x hx
      rw [List.mem_map] at hx
      obtain ⟨c, _, rfl⟩ := hx
      exact (fracStr1_alpha _ _ _).1
    · cases comps with
      | nil => exact absurd ha h
      | cons c cs =>
        simp only [List.map_cons]
        exact Nat.le_trans (fracStr1_alpha c.1 c.2.1 c.2.2).2 (joinWith_len _ _ _)

theorem toStrRational_alpha (f : Frac) (h : f.add ≠ some []) :
    f.toStrRational.all fracChar = true ∧ 1 ≤ f.toStrRational.length := by
  unfold Frac.toStrRational
  split
  · refine ⟨?_, by simp⟩
    simp only [List.all_append, Bool.and_eq_true]
    exact ⟨showNatS_frac _, by decide⟩
  · exact toStr_alpha f h

private theorem enc_eq {e : Enc} {v : Val} {x text : Str} (h1 : encode e v = some x) (h2 : encode e v = some text) :
    text = x := by
  rw [h1] at h2
  exact (Option.some.inj h2).symm

/-- the decidable form of `TextOK` for one value (used over the finite tables of steps and accidentals) -/
def textOKb (e : Enc) (v : Val) : Bool :=
  match encAlpha e, encode e v with
  | some (A, N), some x => x.all A && decide (N ≤ x.length)
  | some _, none => true
  | none, _ => false

theorem textOK_of_b (e : Enc) (v : Val) (h : textOKb e v = true) : TextOK e v := by
  unfold textOKb at h
  split at h
  · rename_i A N x hA hx
    simp only [Bool.and_eq_true, decide_eq_true_eq] at h
    refine ⟨A, N, hA, ?_⟩
    intro text ht
    rw [enc_eq hx ht]
    exact h
  · rename_i AN hA hx
    refine ⟨AN.1, AN.2, hA, ?_⟩
    intro text ht
    rw [hx] at ht
    cases ht
  · cases h

theorem all_mono (P Q : Char → Bool) (h : ∀ c, P c = true → Q c = true) (x : Str) (hx : x.all P = true) :
    x.all Q = true := by
  rw [List.all_eq_true] at hx ⊢
  exact fun c hc => h c (hx c hc)

theorem encVersion_alpha (a b c : Nat) : (encVersion a b c).all fixChar = true ∧ 1 ≤ (encVersion a b c).length := by
  unfold encVersion
  have := showNatS_len a
  refine ⟨?_, by simp only [List.length_append]; omega⟩
  simp only [List.all_append, List.all_cons, Bool.and_eq_true]
  exact ⟨⟨showNatS_fix a, by decide, showNatS_fix b⟩, by decide, showNatS_fix c⟩

theorem encTsig_alpha (t : TimeSig) : (encTsig t).all fracChar = true ∧ 1 ≤ (encTsig t).length := by
  unfold encTsig
  have := showNatS_len t.num
  refine ⟨?_, by simp only [List.length_append]; omega⟩
  simp only [List.all_append, List.all_cons, Bool.and_eq_true]
  exact ⟨showNatS_frac _, by decide, showNatS_frac _⟩

theorem encList_all (P : Char → Bool) (hb : P '[' = true ∧ P ']' = true ∧ P ',' = true) (l : List Str)
    (h : ∀ x ∈ l, x.all P = true) : (encList l).all P = true ∧ 1 ≤ (encList l).length := by
  unfold encList encListBody
  refine ⟨?_, by simp⟩
  simp only [List.all_cons, List.all_append, Bool.and_eq_true, List.all_nil]
  exact ⟨hb.1, joinWith_all P [','] (by simp [hb.2.2]) l h, hb.2.1, trivial⟩

theorem key1_alpha : ∀ fm ∈ allKeys, ∀ fmt ∈ [KeyFmt.v100, KeyFmt.v030, KeyFmt.v010, KeyFmt.v030list],
    textOKb (.key fmt) (.key (key1 fm)) = true := by decide +kernel

theorem key2_alpha : ∀ a ∈ allKeys, ∀ b ∈ allKeys, ∀ fmt ∈ [KeyFmt.v100, KeyFmt.v030],
    textOKb (.key fmt) (.key (key2 a b)) = true := by decide +kernel

/-- **output alphabets**: the text written for a value with a character-level description lies in the codec's
    alphabet and has the minimal length -/
theorem alpha_text (e : Enc) (v : Val) (h : AlphaVal e v) : TextOK e v := by
  unfold AlphaVal at h
  split at h
  · rename_i i
    refine ⟨intChar, 1, rfl, ?_⟩
    intro text ht
    rw [enc_eq (x := showIntS i) rfl ht]
    exact showIntS_alpha i
  · refine ⟨intChar, 1, rfl, ?_⟩
    intro text ht
    rw [enc_eq (x := ['-']) rfl ht]
    exact ⟨by decide, by decide⟩
  · rename_i s
    have hs : strip s = s := C07Codec.strip_id s (fun c hc => idChar_not_ws c (List.all_eq_true.mp h.2 c hc))
    refine ⟨idChar, 1, rfl, ?_⟩
    intro text ht
    have : encode .strip (.str s) = some s := by
      show some (encStrip s) = some s
      unfold encStrip
      rw [hs]
    rw [enc_eq this ht]
    refine ⟨h.2, ?_⟩
    cases s with
    | nil => exact absurd rfl h.1
    | cons _ _ => simp
  · rename_i s
    refine ⟨idChar, 1, rfl, ?_⟩
    intro text ht
    rw [enc_eq (x := s) rfl ht]
    refine ⟨h.2, ?_⟩
    cases s with
    | nil => exact absurd rfl h.1
    | cons _ _ => simp
  · rename_i k q
    refine ⟨fixChar, 1, rfl, ?_⟩
    intro text ht
    rw [enc_eq (x := encFix k q) rfl ht]
    unfold encFix
    exact printFixed_alpha _ _ _
  · rename_i q
    refine ⟨fixChar, 1, rfl, ?_⟩
    intro text ht
    exact encRepr_alpha q text ht
  · rename_i l
    refine ⟨listChar, 0, rfl, ?_⟩
    intro text ht
    rw [enc_eq (x := encListBody l) rfl ht]
    refine ⟨?_, Nat.zero_le _⟩
    apply joinWith_all listChar [','] (by decide)
    intro x hx
    have := h x hx
    rw [List.all_eq_true] at this ⊢
    intro c hc
    simp [listChar, this c hc]
  · rename_i f
    refine ⟨fracChar, 1, rfl, ?_⟩
    intro text ht
    rw [enc_eq (x := f.toStr) rfl ht]
    exact toStr_alpha f h
  · rename_i f
    refine ⟨fracChar, 1, rfl, ?_⟩
    intro text ht
    rw [enc_eq (x := f.toStrRational) rfl ht]
    exact toStrRational_alpha f h
  · rename_i a b c
    refine ⟨fixChar, 1, rfl, ?_⟩
    intro text ht
    rw [enc_eq (x := encVersion a b c) rfl ht]
    exact encVersion_alpha a b c
  · rename_i t
    refine ⟨fracChar, 1, rfl, ?_⟩
    intro text ht
    rw [enc_eq (x := encTsig t) rfl ht]
    exact encTsig_alpha t
  · rename_i t
    refine ⟨tsigLChar, 1, rfl, ?_⟩
    intro text ht
    rw [enc_eq (x := encTsigList t) rfl ht]
    unfold encTsigList
    apply encList_all tsigLChar (by decide)
    intro x hx
    have hm : ∀ c, fracChar c = true → tsigLChar c = true := fun c hc => by simp [tsigLChar, hc]
    rcases List.mem_cons.mp hx with rfl | hx
    · exact all_mono _ _ hm _ (encTsig_alpha t).1
    · rw [List.mem_map] at hx
      obtain ⟨f, hf, rfl⟩ := hx
      exact all_mono _ _ hm _ (toStr_alpha f (h f hf)).1
  · rename_i s
    refine ⟨notNl, 1, rfl, ?_⟩
    intro text ht
    have : encode .quoted (.str s) = some ('\'' :: (s ++ ['\''])) := by
      show some (encQuoted s) = _
      unfold encQuoted
      rw [h.1]
    rw [enc_eq this ht]
    refine ⟨?_, by simp⟩
    simp only [List.all_cons, List.all_append, Bool.and_eq_true, List.all_nil]
    exact ⟨by decide, h.2, by decide, trivial⟩
  · rename_i l
    refine ⟨listBChar, 1, rfl, ?_⟩
    intro text ht
    rw [enc_eq (x := encList l) rfl ht]
    apply encList_all listBChar (by decide)
    intro x hx
    exact all_mono _ _ (fun c hc => by simp [listBChar, listChar, hc]) _ (h x hx)
  · rename_i l
    refine ⟨listBChar, 1, rfl, ?_⟩
    intro text ht
    rw [enc_eq (x := encList (l.map showIntS)) rfl ht]
    apply encList_all listBChar (by decide)
    intro x hx
    rw [List.mem_map] at hx
    obtain ⟨i, _, rfl⟩ := hx
    refine all_mono _ _ (fun c hc => ?_) _ (showIntS_alpha i).1
    simp only [intChar, Bool.or_eq_true, beq_iff_eq] at hc
    rcases hc with hc | hc
    · simp [listBChar, listChar, idChar, Char.isAlphanum, hc]
    · subst hc; decide
  · rename_i fmt k
    simp only [Adm] at h
    rcases h with ⟨hf, fm, hfm, rfl⟩ | ⟨hf, a, ha, b, hb, rfl⟩
    · exact textOK_of_b _ _ (key1_alpha fm hfm fmt hf)
    · exact textOK_of_b _ _ (key2_alpha a ha b hb fmt hf)
  · cases h

theorem textsOK_of_alphaVals : ∀ (fs : List (String × Enc)) (vs : List Val), AlphaVals fs vs → TextsOK fs vs := by
  intro fs
  induction fs with
  | nil => intro vs h; cases vs <;> simp_all [AlphaVals, TextsOK]
  | cons f fs ih =>
    intro vs h
    cases vs with
    | nil => simp [AlphaVals] at h
    | cons v vs => exact ⟨alpha_text _ _ h.1, ih vs h.2⟩

/-- alphabet / minimal length of the field named `n` (everything / 0 when the codec has no description) -/
def alphaOf (fs : List (String × Enc)) (n : String) : Char → Bool :=
  match lookup n fs with
  | some e => (match encAlpha e with | some (A, _) => A | none => fun _ => true)
  | none => fun _ => true

def minOf (fs : List (String × Enc)) (n : String) : Nat :=
  match lookup n fs with
  | some e => (match encAlpha e with | some (_, N) => N | none => 0)
  | none => 0

/-- the character-level check of a template (Proofs/C07Alpha.lean `sepOKS`) with the alphabets of the formatters
    selected for a line with the Attribute `attr`, followed by the known text `tl` -/
def alphaOK (t : Template) (attr : Option Str) (tl : List Char) : Bool :=
  sepOKS (alphaOf (selFields t attr)) (minOf (selFields t attr)) tl t.out t.pat

theorem encSel_plain (t : Template) (attr : Option Str) (f : String × Enc × Dec) (h : plainField f = true) :
    encSel t attr f = f.2.1 := by
  unfold encSel
  rw [codecFor_plain t attr f h]

theorem selFields_plain (t : Template) (attr : Option Str) (h : t.fields.all plainField = true) :
    selFields t attr = selFields t none := by
  unfold selFields
  apply List.map_congr_left
  intro f hf
  rw [encSel_plain t attr f (List.all_eq_true.mp h f hf), encSel_plain t none f (List.all_eq_true.mp h f hf)]

/-- the line classes without pitch post-processing and without a formatter chosen by the Attribute whose every
    field has a character-level description -/
def alphaKinds : List String := ["sustain", "soft", "trill.head", "section"]

/-- **whole generated table**: sustain and soft pedal lines of all six versions, the head of a trill line of
    the five pre-1.0 versions, the 1.0.0 performed note and the 1.0.0 section line pass the character-level check -/
theorem alpha_table_ok : ∀ t ∈ Gen.matchTemplates, (t.kind ∈ alphaKinds ∨ t.name = "v1.0.0/note") →
    t.post = Post.none ∧ t.fields.all plainField = true ∧ alphaOK t none [] = true := by
  decide +kernel

/-- the pitch fields of a template with pitch post-processing, over ALL steps and accidentals: the texts of the
    note-name and accidental formatters lie in the identifier alphabet; the octave is written by `format_int` -/
def pitchAlphaOK (t : Template) : Bool :=
  match t.fields with
  | _ :: fN :: fM :: fO :: _ =>
    (stepsOf t.post).all (fun s => textOKb fN.2.1 (.str s)) && alters.all (fun a => textOKb fM.2.1 (optInt a))
      && fO.2.1 == Enc.int
  | _ => false

/-- **whole generated table**: the score notes of all six versions and the performed notes of the five pre-1.0
    versions (all 11 templates with pitch post-processing) pass the character-level check, their pitch fields for
    every step and accidental -/
theorem pitch_alpha_ok : ∀ t ∈ Gen.matchTemplates, t.post ≠ Post.none →
    t.fields.all plainField = true ∧ alphaOK t none [] = true ∧ pitchAlphaOK t = true := by
  decide +kernel

example : (Gen.matchTemplates.filter (fun t => alphaKinds.contains t.kind || t.name == "v1.0.0/note"
    || t.post != Post.none)).length = 30 := by
  decide +kernel

/-- field by field: the text is the one the selected formatter writes -/
def Enc3 : List (String × Enc) → List Val → List (String × Str) → Prop
  | [], [], [] => True
  | f :: fs, v :: vs, e :: es => e.1 = f.1 ∧ encode f.2 v = some e.2 ∧ Enc3 fs vs es
  | _, _, _ => False

theorem enc3_of_RTP : ∀ (fs : List (String × Enc × Dec)) (vs : List Val) (es : List (String × Str)),
    RTP fs vs es → Enc3 (fs.map fun f => (f.1, f.2.1)) vs es := by
  intro fs
  induction fs with
  | nil => intro vs es h; cases vs <;> cases es <;> simp_all [RTP, Enc3]
  | cons f fs ih =>
    intro vs es h
    cases vs with
    | nil => simp [RTP] at h
    | cons v vs =>
      cases es with
      | nil => simp [RTP] at h
      | cons e es => exact ⟨h.1, h.2.1, ih vs es h.2.2.2⟩

theorem enc3_of_encodeFields (t : Template) (attr : Option Str) : ∀ (fs : List (String × Enc × Dec)) (vs : List Val)
    (es : List (String × Str)), encodeFields t attr fs vs = some es →
    Enc3 (fs.map fun f => (f.1, encSel t attr f)) vs es := by
  intro fs
  induction fs with
  | nil =>
    intro vs es he
    cases vs with
    | nil =>
      simp only [encodeFields, Option.some.injEq] at he
      subst he
      trivial
    | cons _ _ => simp [encodeFields] at he
  | cons f fs ih =>
    intro vs es he
    cases vs with
    | nil => simp [encodeFields] at he
    | cons v vs =>
      unfold encodeFields at he
      split at he
      · cases he
      · rename_i e d hc
        split at he
        · rename_i s r hs hr
          simp only [Option.some.injEq] at he
          subst he
          refine ⟨rfl, ?_, ih vs r hr⟩
          show encode (encSel t attr f) v = some s
          unfold encSel
          rw [hc]
          exact hs
        · cases he

theorem texts_alpha : ∀ (fs : List (String × Enc)) (vs : List Val) (es : List (String × Str)),
    TextsOK fs vs → Enc3 fs vs es →
    ∀ n, (textOf es n).all (alphaOf fs n) = true ∧ minOf fs n ≤ (textOf es n).length := by
  intro fs
  induction fs with
  | nil =>
    intro vs es _ he n
    cases vs <;> cases es <;> simp_all [Enc3, textOf, lookup, minOf]
  | cons f fs ih =>
    intro vs es hv he n
    cases vs with
    | nil => simp [Enc3] at he
    | cons v vs =>
      cases es with
      | nil => simp [Enc3] at he
      | cons e es =>
        obtain ⟨⟨A, N, hA, htext⟩, hv2⟩ := hv
        obtain ⟨hn1, henc, he2⟩ := he
        obtain ⟨hall, hlen⟩ := htext e.2 henc
        obtain ⟨fn, fe⟩ := f
        obtain ⟨en, et⟩ := e
        simp only at hn1 hA hall hlen
        subst hn1
        by_cases hn : en = n
        · subst hn
          simp only [textOf, lookup, if_true, Option.getD_some, alphaOf, minOf]
          rw [hA]
          exact ⟨hall, hlen⟩
        · have := ih vs es hv2 he2 n
          simpa only [textOf, lookup, hn, if_false, alphaOf, minOf] using this

private theorem fieldsOKGen_of_alpha (t : Template) (attr : Option Str) (tl : List Char) (vals : List Val)
    (es : List (String × Str)) (hok : alphaOK t attr tl = true) (hv : TextsOK (selFields t attr) vals)
    (he : Enc3 (selFields t attr) vals es) : FieldsOKGen t (textOf es) tl := by
  have hal := texts_alpha _ vals es hv he
  exact fieldsOKGen_of_sepOK _ _ _ _
    (sepOK_of_sepOKS (alphaOf (selFields t attr)) (minOf (selFields t attr)) tl (textOf es)
      (fun n => (hal n).1) (fun n => (hal n).2) _ _ hok)

theorem unmodelled_none : ∀ t ∈ Gen.matchTemplates, t.unmodelled.isSome = false := by decide +kernel

/-- the component form (`CompRT`, the input of the composite-line theorems) of the round trip of a line without
    pitch post-processing, followed by the known text `tl` -/
theorem comp_alpha (t : Template) (hmem : t ∈ Gen.matchTemplates) (hp : t.post = Post.none)
    (vals : List Val) (tl : List Char) (hok : alphaOK t (attrOf t vals) tl = true)
    (hadm : AdmFields t (attrOf t vals) t.fields vals) (hv : AlphaVals (selFields t (attrOf t vals)) vals) :
    ∃ v, CompRT t vals v tl := by
  obtain ⟨es, hes, hrt⟩ := line_roundtrip_adm t hmem hp vals hadm
  have hsep := fieldsOKGen_of_alpha t _ tl vals es hok (textsOK_of_alphaVals _ _ hv)
    (enc3_of_encodeFields t _ _ _ _ hes)
  have hf : formatT t vals = some (render t.out (textOf es)) := by
    unfold formatT
    rw [unmodelled_none t hmem, hes]
    rfl
  refine ⟨textOf es, hf, ?_⟩
  intro pre hpre
  obtain ⟨line, h1, h2, _⟩ := hrt pre tl hsep hpre
  obtain rfl := Option.some.inj (hf.symm.trans h1)
  exact h2

/-- **every generated line class without pitch post-processing, formatter chosen by the Attribute or not**: if
    the template passes the character-level check for the line's Attribute (`alphaOK`, a computation on the
    generated template), the values are admissible (`AdmFields`, the domain of the codec round trips) and have a
    character-level description (`AlphaVals`: identifiers consist of identifier characters, …), then the line
    object is written, the text is parsed back to exactly the values, and writing the parsed values gives the
    identical text.  No condition on the written texts is left: `FieldsOKGen` is derived from the output
    alphabets (`alpha_text`). -/
theorem line_roundtrip_alpha (t : Template) (hmem : t ∈ Gen.matchTemplates) (hp : t.post = Post.none)
    (vals : List Val) (hok : alphaOK t (attrOf t vals) [] = true)
    (hadm : AdmFields t (attrOf t vals) t.fields vals) (hv : AlphaVals (selFields t (attrOf t vals)) vals) :
    ∃ line, formatT t vals = some line ∧ parseT t line = .ok vals ∧
      ((parseT t line).toOption.bind (formatT t)) = some line := by
  obtain ⟨v, hf, hpar⟩ := comp_alpha t hmem hp vals [] hok hadm hv
  have h2 := hpar [] (C07Line.noEarly_nil _ _)
  simp only [List.nil_append, List.append_nil] at h2
  exact ⟨_, hf, h2, by rw [h2]; exact hf⟩

/-- **pedal lines of every version, trill heads, the 1.0.0 performed note and section line - every integer,
    every identifier, every k-decimal float, every list of identifiers**: written, parsed back to exactly the
    values, written again identically (the check of the templates discharged by `alpha_table_ok`) -/
theorem line_roundtrip_values (t : Template) (hmem : t ∈ Gen.matchTemplates)
    (hk : t.kind ∈ alphaKinds ∨ t.name = "v1.0.0/note") (vals : List Val)
    (hadm : AdmFields t (attrOf t vals) t.fields vals) (hv : AlphaVals (selFields t none) vals) :
    ∃ line, formatT t vals = some line ∧ parseT t line = .ok vals ∧
      ((parseT t line).toOption.bind (formatT t)) = some line := by
  obtain ⟨hp, hpl, hok⟩ := alpha_table_ok t hmem hk
  have hsel := selFields_plain t (attrOf t vals) hpl
  apply line_roundtrip_alpha t hmem hp vals ?_ hadm (by rw [hsel]; exact hv)
  unfold alphaOK at hok ⊢
  rw [hsel]
  exact hok

/-- **whole generated table**: the info lines of all six versions and the meta lines of 0.3.0 - 0.5.0 pass the
    character-level check for EVERY attribute their class's table lists (the formatter of the Value is the one
    listed under the Attribute: key and time signatures in the spelling of the version, quoted texts, lists,
    versions, numbers) -/
theorem info_alpha_ok : ∀ t ∈ Gen.matchTemplates, (t.kind = "info" ∨ t.kind = "meta") →
    t.post = Post.none ∧ ∀ a ∈ t.valueBy.map (·.1), alphaOK t (some a.toList) [] = true := by
  decide +kernel

example : (Gen.matchTemplates.filter (fun t => t.kind == "info" || t.kind == "meta")).length = 9 := by decide +kernel

/-- **info lines of every version and meta lines, every attribute of the class's table**: with admissible values
    (`AdmFields`) that have a character-level description (`AlphaVals`: for a quoted text "no line break", for lists
    "identifiers", for keys "one of the 30 keys or 900 double keys", nothing for numbers, versions and time
    signatures) the line is written, parsed back to exactly the values, and written again identically -/
theorem info_line_roundtrip_values (t : Template) (hmem : t ∈ Gen.matchTemplates)
    (hk : t.kind = "info" ∨ t.kind = "meta") (vals : List Val) (a : String) (ha : a ∈ t.valueBy.map (·.1))
    (hattr : attrOf t vals = some a.toList)
    (hadm : AdmFields t (some a.toList) t.fields vals) (hv : AlphaVals (selFields t (some a.toList)) vals) :
    ∃ line, formatT t vals = some line ∧ parseT t line = .ok vals ∧
      ((parseT t line).toOption.bind (formatT t)) = some line := by
  obtain ⟨hp, hall⟩ := info_alpha_ok t hmem hk
  exact line_roundtrip_alpha t hmem hp vals (by rw [hattr]; exact hall a ha) (by rw [hattr]; exact hadm)
    (by rw [hattr]; exact hv)

/-- the component form of the round trip of a score note / pre-1.0 performed note followed by the known text `tl` -/
theorem comp_pitch_alpha (t : Template) (hmem : t ∈ Gen.matchTemplates) (hp : t.post ≠ Post.none)
    (v0 : Val) (step : Str) (alter octave : Option Int) (rest : List Val) (tl : List Char)
    (hok : alphaOK t none tl = true)
    (hstep : step ∈ stepsOf t.post) (halter : alter ∈ alters)
    (hoct : t.post = Post.pitchSpellingNote → octave.isSome = true)
    (hadm : match t.fields with
      | f0 :: _ :: _ :: _ :: fr => AdmFields t none (f0 :: fr) (v0 :: rest) ∧
          AlphaVals ((f0 :: fr).map fun f => (f.1, f.2.1)) (v0 :: rest)
      | _ => False) :
    ∃ v, CompRT t (v0 :: .str step :: optInt alter :: optInt octave :: rest) v tl := by
  obtain ⟨hpl, _, hpok⟩ := pitch_alpha_ok t hmem hp
  have hadm' : match t.fields with
      | f0 :: _ :: _ :: _ :: fr => AdmFields t none (f0 :: fr) (v0 :: rest)
      | _ => False := by
    split
    · rename_i f0 fN fM fO fr hf
      rw [hf] at hadm
      exact hadm.1
    · rename_i hne
      split at hadm
      · rename_i f0 fN fM fO fr hf
        exact absurd hf (hne f0 fN fM fO fr)
      · exact hadm
  obtain ⟨es, hrtp, _⟩ := pitch_line_roundtrip_adm t hmem hp v0 step alter octave rest hstep halter hoct hadm'
  have hsel : selFields t none = t.fields.map fun f => (f.1, f.2.1) := by
    unfold selFields
    apply List.map_congr_left
    intro f hf
    rw [encSel_plain t none f (List.all_eq_true.mp hpl f hf)]
  have htexts : TextsOK (selFields t none) (v0 :: .str step :: optInt alter :: optInt octave :: rest) := by
    rw [hsel]
    unfold pitchAlphaOK at hpok
    split at hpok
    · rename_i f0 fN fM fO fr hf
      rw [hf] at hadm ⊢
      simp only [Bool.and_eq_true, List.all_eq_true, beq_iff_eq] at hpok
      obtain ⟨⟨hN, hM⟩, hO⟩ := hpok
      have hr := textsOK_of_alphaVals _ _ hadm.2
      refine ⟨hr.1, textOK_of_b _ _ (hN step hstep), textOK_of_b _ _ (hM alter halter), ?_, hr.2⟩
      show TextOK fO.2.1 (optInt octave)
      rw [hO]
      cases octave <;> exact alpha_text _ _ trivial
    · cases hpok
  have hsep := fieldsOKGen_of_alpha t none tl _ es hok htexts (by rw [hsel]; exact enc3_of_RTP _ _ _ hrtp)
  obtain ⟨hl, hall⟩ := pitch_ok t hmem hp
  obtain ⟨htext, hmid⟩ := hall step hstep alter halter
  have key := fun pre hpre => C07Line.pitch_line t (templates_ok t hmem) hp hl v0 step alter octave rest es pre tl htext
    (fun hn => ⟨hoct hn, hmid hn⟩) hrtp hsep hpre
  exact ⟨textOf es, (key [] (C07Line.noEarly_nil _ _)).1, fun pre hpre => (key pre hpre).2⟩

/-- **score notes of every version and pre-1.0 performed notes - every step, accidental and octave, every
    identifier, integer, k-decimal float, duration and attribute list**: the line is written, parsed back
    (search, interpreters, pitch post-processing) to exactly the values, and written again identically; no
    condition on the written texts -/
theorem pitch_line_roundtrip_values (t : Template) (hmem : t ∈ Gen.matchTemplates) (hp : t.post ≠ Post.none)
    (v0 : Val) (step : Str) (alter octave : Option Int) (rest : List Val)
    (hstep : step ∈ stepsOf t.post) (halter : alter ∈ alters)
    (hoct : t.post = Post.pitchSpellingNote → octave.isSome = true)
    (hadm : match t.fields with
      | f0 :: _ :: _ :: _ :: fr => AdmFields t none (f0 :: fr) (v0 :: rest) ∧
          AlphaVals ((f0 :: fr).map fun f => (f.1, f.2.1)) (v0 :: rest)
      | _ => False) :
    ∃ line, formatT t (v0 :: .str step :: optInt alter :: optInt octave :: rest) = some line ∧
      parseT t line = .ok (v0 :: .str step :: optInt alter :: optInt octave :: rest) ∧
      ((parseT t line).toOption.bind (formatT t)) = some line := by
  obtain ⟨v, hf, hpar⟩ := comp_pitch_alpha t hmem hp v0 step alter octave rest [] (pitch_alpha_ok t hmem hp).2.1
    hstep halter hoct hadm
  have h2 := hpar [] (C07Line.noEarly_nil _ _)
  simp only [List.nil_append, List.append_nil] at h2
  exact ⟨_, hf, h2, by rw [h2]; exact hf⟩

-- ---------------------------------------------------------------- composite lines: deletions and insertions

/-- the score note of a `snote(…)-deletion.` line (and its variants) passes the character-level check with the
    identifier literal as the text that follows -/
def suffixOK (c : Composite) : Bool :=
  match c.parts with
  | [.tpl x, .lit l] =>
    (match findTpl Gen.matchTemplates x with
     | some a => a.post != Post.none && alphaOK a none l.toList
     | none => false)
  | _ => true

/-- the performed note of an `insertion-note(…).` line (and its variants) passes the check, and the literal in
    front passes the structural check of Props/C07Lines.lean -/
def prefixOK (c : Composite) : Bool :=
  match c.parts with
  | [.lit l, .tpl y] =>
    (match findTpl Gen.matchTemplates y with
     | some b => alphaOK b none [] && (earlyNames [.lit l] b).isSome && b.fields.all plainField
     | none => false)
  | _ => true

/-- **whole generated table of composite lines** (16 deletion-like and 16 insertion-like lines) -/
theorem affix_alpha_ok : ∀ c ∈ Gen.matchComposites, suffixOK c = true ∧ prefixOK c = true := by
  decide +kernel

private theorem mem_of_findTpl (x : String) (a : Template) (h : findTpl Gen.matchTemplates x = some a) :
    a ∈ Gen.matchTemplates := by
  unfold findTpl at h
  exact List.mem_of_find?_eq_some h

/-- **deletion, trailing score note, no played note - all versions**: `snote(…)-deletion.` with every step,
    accidental, octave and admissible values with a character-level description is written, parsed back by the
    composite parser (score note searched in the whole line, identifier literal found) to exactly the values,
    and written again identically -/
theorem deletion_roundtrip_values (c : Composite) (hc : c ∈ Gen.matchComposites) (x lit : String) (a : Template)
    (hparts : c.parts = [.tpl x, .lit lit]) (hfa : findTpl Gen.matchTemplates x = some a)
    (v0 : Val) (step : Str) (alter octave : Option Int) (rest : List Val)
    (hstep : step ∈ stepsOf a.post) (halter : alter ∈ alters)
    (hoct : a.post = Post.pitchSpellingNote → octave.isSome = true)
    (hadm : match a.fields with
      | f0 :: _ :: _ :: _ :: fr => AdmFields a none (f0 :: fr) (v0 :: rest) ∧
          AlphaVals ((f0 :: fr).map fun f => (f.1, f.2.1)) (v0 :: rest)
      | _ => False) :
    ∃ line, formatC Gen.matchTemplates c (v0 :: .str step :: optInt alter :: optInt octave :: rest) = some line ∧
      parseC Gen.matchTemplates c line = .ok (v0 :: .str step :: optInt alter :: optInt octave :: rest) ∧
      ((parseC Gen.matchTemplates c line).toOption.bind (formatC Gen.matchTemplates c)) = some line := by
  have hs := (affix_alpha_ok c hc).1
  unfold suffixOK at hs
  rw [hparts] at hs
  simp only [hfa, Bool.and_eq_true, bne_iff_ne, ne_eq] at hs
  obtain ⟨v, hcomp⟩ := comp_pitch_alpha a (mem_of_findTpl x a hfa) hs.1 v0 step alter octave rest lit.toList hs.2
    hstep halter hoct hadm
  have := composite_suffix c hc x lit a hparts hfa _ v [] (by simpa using hcomp)
  simpa using this

/-- **insertion, hammer bounce, trailing played note - versions before 1.0.0** (the performed note carries a
    spelled pitch): `insertion-note(…).` is written, parsed back by the composite parser to exactly the values and
    written again identically -/
theorem insertion_roundtrip_values (c : Composite) (hc : c ∈ Gen.matchComposites) (y lit : String) (b : Template)
    (hparts : c.parts = [.lit lit, .tpl y]) (hfb : findTpl Gen.matchTemplates y = some b) (hp : b.post ≠ Post.none)
    (v0 : Val) (step : Str) (alter octave : Option Int) (rest : List Val)
    (hstep : step ∈ stepsOf b.post) (halter : alter ∈ alters)
    (hoct : b.post = Post.pitchSpellingNote → octave.isSome = true)
    (hadm : match b.fields with
      | f0 :: _ :: _ :: _ :: fr => AdmFields b none (f0 :: fr) (v0 :: rest) ∧
          AlphaVals ((f0 :: fr).map fun f => (f.1, f.2.1)) (v0 :: rest)
      | _ => False) :
    ∃ line, formatC Gen.matchTemplates c (v0 :: .str step :: optInt alter :: optInt octave :: rest) = some line ∧
      parseC Gen.matchTemplates c line = .ok (v0 :: .str step :: optInt alter :: optInt octave :: rest) ∧
      ((parseC Gen.matchTemplates c line).toOption.bind (formatC Gen.matchTemplates c)) = some line := by
  have hs := (affix_alpha_ok c hc).2
  unfold prefixOK at hs
  rw [hparts] at hs
  simp only [hfb, Bool.and_eq_true] at hs
  obtain ⟨⟨hok, hn⟩, _⟩ := hs
  obtain ⟨names, hnames⟩ := Option.isSome_iff_exists.mp hn
  obtain ⟨v, hcomp⟩ := comp_pitch_alpha b (mem_of_findTpl y b hfb) hp v0 step alter octave rest [] hok
    hstep halter hoct hadm
  have := composite_prefix c hc y lit b names hparts hfb hnames _ v [] hcomp
  simpa using this

/-- **insertion of version 1.0.0** (the performed note carries a MIDI pitch): every identifier and integers -/
theorem insertion_roundtrip_values_v1 (c : Composite) (hc : c ∈ Gen.matchComposites) (y lit : String) (b : Template)
    (hparts : c.parts = [.lit lit, .tpl y]) (hfb : findTpl Gen.matchTemplates y = some b) (hp : b.post = Post.none)
    (vals : List Val) (hadm : AdmFields b (attrOf b vals) b.fields vals) (hv : AlphaVals (selFields b none) vals) :
    ∃ line, formatC Gen.matchTemplates c vals = some line ∧
      parseC Gen.matchTemplates c line = .ok vals ∧
      ((parseC Gen.matchTemplates c line).toOption.bind (formatC Gen.matchTemplates c)) = some line := by
  have hs := (affix_alpha_ok c hc).2
  unfold prefixOK at hs
  rw [hparts] at hs
  simp only [hfb, Bool.and_eq_true] at hs
  obtain ⟨⟨hok, hn⟩, hpl⟩ := hs
  obtain ⟨names, hnames⟩ := Option.isSome_iff_exists.mp hn
  have hsel := selFields_plain b (attrOf b vals) hpl
  have hok' : alphaOK b (attrOf b vals) [] = true := by
    unfold alphaOK at hok ⊢
    rw [hsel]
    exact hok
  obtain ⟨v, hcomp⟩ := comp_alpha b (mem_of_findTpl y b hfb) hp vals [] hok' hadm (by rw [hsel]; exact hv)
  have := composite_prefix c hc y lit b names hparts hfb hnames _ v [] hcomp
  simpa using this

example : (Gen.matchComposites.filter (fun c => match c.parts with
    | [.tpl _, .lit _] => true | [.lit _, .tpl _] => true | _ => false)).length = 32 := by decide +kernel

-- non-vacuity: a 0.5.0 soft-pedal line (two integer fields: `AlphaVals` / `AdmFields` hold for any two integers)
example : ∀ t ∈ Gen.matchTemplates, t.name = "v0.5.0/soft" →
    t.kind ∈ alphaKinds ∧ selFields t none = [("Time", Enc.int), ("Value", Enc.int)] ∧
    formatT t [.int 1200, .int (-3)] = some "soft(1200,-3).".toList := by
  decide +kernel

example : (Gen.matchTemplates.filter (·.name == "v0.5.0/soft")).length = 1 := by decide +kernel

-- non-vacuity: the codecs of a 1.0.0 score note all have a description
example : ∀ t ∈ Gen.matchTemplates, t.name = "v1.0.0/snote" →
    t.post ≠ Post.none ∧ (t.fields.map (·.2.1)).all (fun e => (encAlpha e).isSome) = true := by
  decide +kernel

end C07
