/-
C10 (round 5) — the side conditions of `pickup_spec_composed` as conditions on the part DESCRIPTION.

`SimpleStart` (Props/C10Part.lean) speaks about the key points of C02's beat-map model (`keypoints … = k :: k' :: post`,
`k.t = 0`, `q0 / factor ≤ k'.t`).  Here those are derived from what a user can read off the part: the timeline
starts at 0 and is at least one beat long, the first time signature starts at 0 and the others later, the quarter
duration set at 0 is `q0` and the later changes come later - and none of the later signatures / quarter-duration
changes lies inside the first beat.  Hence `pickup_spec_described`: the pickup rule with no hypothesis about the model's
internals (the remaining ones are validity of the input: positive numbers in the signatures and quarter durations).
-/
import PartituraModel.Props.C10Part
import PartituraModel.Props.C10Exact

namespace C10
open Model Model.StepMap

/-- what `simple_start_of_description` asks of a description: everything is stated on `p` itself -/
structure DescribedStart (p : PartD) (l : Int) (s0 : TimeMap.TSig) (rest : List TimeMap.TSig) (q0 : Nat)
    (qrest : List (Int × Nat)) : Prop where
  span : p.span = some (0, l)
  /-- validity of the input: at least two time points, positive quarter durations and signature numbers -/
  wf : C02Proofs.WF (timePart p) (TimeMap.beatMode (timePart p))
  ts : p.ts = s0 :: rest
  s0t : s0.t = 0
  later : ∀ s ∈ rest, 0 < s.t
  qd : p.qd = (0, q0) :: qrest
  qlater : ∀ e ∈ qrest, 0 < e.1
  /-- one beat (of the beat mode in use) of the first signature fits before the end of the timeline, before every
      later signature and before every later quarter-duration change -/
  beat_le_last : (q0 : Rat) / TimeMap.factorOf (TimeMap.beatMode (timePart p)) s0 ≤ (l : Rat)
  beat_le_ts : ∀ s ∈ rest, (q0 : Rat) / TimeMap.factorOf (TimeMap.beatMode (timePart p)) s0 ≤ (s.t : Rat)
  beat_le_qd : ∀ e ∈ qrest, (q0 : Rat) / TimeMap.factorOf (TimeMap.beatMode (timePart p)) s0 ≤ (e.1 : Rat)

/-- **`simple_start_of_description`**: the key-point conditions of `SimpleStart` follow from the description -/
theorem simple_start_of_description (p : PartD) (l : Int) (s0 : TimeMap.TSig) (rest : List TimeMap.TSig) (q0 : Nat)
    (qrest : List (Int × Nat)) (H : DescribedStart p l s0 rest q0 qrest) :
    ∃ k k' post, SimpleStart p l s0 rest q0 k k' post := by
  obtain ⟨hspan, hwf, hts, hs0, hlater, hqd, hqlater, hbl, hbts, hbqd⟩ := H
  have hfirst : (timePart p).first = 0 := by simp [timePart, hspan, spanOrZero]
  have hlast : (timePart p).last = l := by simp [timePart, hspan, spanOrZero]
  have hl : 0 < l := by
    have := hwf.2.1
    rw [hfirst, hlast] at this
    exact this
  set m := TimeMap.beatMode (timePart p) with hm
  have hmq : m ≠ .quarter := beatMode_ne_quarter _
  -- the key times
  set K := TimeMap.keyTimes (timePart p) m with hK
  have hmem : ∀ x, x ∈ K ↔ x = 0 ∨ x = l ∨ x ∈ (p.qd.map (·.1)) ∨ x ∈ (p.ts.map (·.t)) := by
    intro x
    rw [hK]
    unfold TimeMap.keyTimes
    rw [C02Proofs.mem_sortedKeys, hfirst, hlast]
    have hf : (TimeMap.facAssign m (timePart p).ts).map (·.1) = p.ts.map (·.t) := by
      have : (timePart p).ts = p.ts := rfl
      rw [this]
      cases hmm : m with
      | quarter => exact absurd hmm hmq
      | notated => simp [TimeMap.facAssign, List.map_map, Function.comp_def]
      | musical => simp [TimeMap.facAssign, List.map_map, Function.comp_def]
    have hq : (TimeMap.qdAssign (timePart p).qd).map (·.1) = p.qd.map (·.1) := by
      have : (timePart p).qd = p.qd := rfl
      rw [this]
      simp [TimeMap.qdAssign, List.map_map, Function.comp_def]
    rw [hf, hq]
    simp only [List.mem_cons, List.mem_append]
  have hnonneg : ∀ x ∈ K, 0 ≤ x := by
    intro x hx
    rcases (hmem x).mp hx with rfl | rfl | hx | hx
    · exact Int.le_refl _
    · omega
    · rw [hqd] at hx
      simp only [List.map_cons, List.mem_cons, List.mem_map] at hx
      rcases hx with rfl | ⟨e, he, rfl⟩
      · exact Int.le_refl _
      · have := hqlater e he; omega
    · rw [hts] at hx
      simp only [List.map_cons, List.mem_cons, List.mem_map] at hx
      rcases hx with rfl | ⟨s, hs, rfl⟩
      · omega
      · have := hlater s hs; omega
  have hpos : ∀ x ∈ K, 0 < x → (q0 : Rat) / TimeMap.factorOf m s0 ≤ (x : Rat) := by
    intro x hx hx0
    rcases (hmem x).mp hx with rfl | rfl | hx | hx
    · omega
    · exact hbl
    · rw [hqd] at hx
      simp only [List.map_cons, List.mem_cons, List.mem_map] at hx
      rcases hx with rfl | ⟨e, he, rfl⟩
      · omega
      · exact hbqd e he
    · rw [hts] at hx
      simp only [List.map_cons, List.mem_cons, List.mem_map] at hx
      rcases hx with rfl | ⟨s, hs, rfl⟩
      · omega
      · exact hbts s hs
  have hsorted : K.Pairwise (· < ·) := C02Proofs.keyTimes_pairwise _ _
  have h0K : (0 : Int) ∈ K := (hmem 0).mpr (Or.inl rfl)
  have hlK : l ∈ K := (hmem l).mpr (Or.inr (Or.inl rfl))
  -- K = 0 :: b :: K''
  cases hKc : K with
  | nil => rw [hKc] at h0K; simp at h0K
  | cons a K' =>
    rw [hKc] at hsorted h0K hlK hnonneg hpos
    have hs' := List.pairwise_cons.mp hsorted
    have ha0 : a = 0 := by
      rcases List.mem_cons.mp h0K with h | h
      · exact h.symm
      · have := hs'.1 0 h
        have := hnonneg a (List.mem_cons_self ..)
        omega
    subst ha0
    have hlK' : l ∈ K' := by
      rcases List.mem_cons.mp hlK with h | h
      · omega
      · exact h
    cases hK'c : K' with
    | nil => rw [hK'c] at hlK'; simp at hlK'
    | cons b K'' =>
      rw [hK'c] at hs' hpos
      have hb0 : 0 < b := hs'.1 b (List.mem_cons_self ..)
      have hkps : TimeMap.keypoints (timePart p) m
          = TimeMap.carry (TimeMap.qdAssign (timePart p).qd) (TimeMap.facAssign m (timePart p).ts) (0 :: b :: K'') 1 1 := by
        unfold TimeMap.keypoints
        rw [← hK, hKc, hK'c]
      have hshape : ∃ d f d' f' post,
          TimeMap.keypoints (timePart p) m = ⟨0, d, f⟩ :: ⟨b, d', f'⟩ :: post := by
        rw [hkps]
        exact ⟨_, _, _, _, _, rfl⟩
      obtain ⟨d, f, d', f', post, hshape⟩ := hshape
      have hq : TimeMap.lastAssoc (TimeMap.qdAssign p.qd) 0 = some (q0 : Rat) := by
        rw [hqd]
        have hrest : TimeMap.lastAssoc (TimeMap.qdAssign qrest) 0 = none := by
          apply lastAssoc_none_of_not_key
          intro hmem0
          obtain ⟨e, he, he0⟩ := List.mem_map.mp hmem0
          simp only [TimeMap.qdAssign] at he
          obtain ⟨e', he', rfl⟩ := List.mem_map.mp he
          have := hqlater e' he'
          simp only at he0
          omega
        simp only [TimeMap.qdAssign, List.map_cons, TimeMap.lastAssoc] at hrest ⊢
        simp [hrest]
      have hreach := hpos b (List.mem_cons_of_mem _ (List.mem_cons_self ..)) hb0
      exact ⟨⟨0, d, f⟩, ⟨b, d', f'⟩, post, ⟨hspan, hwf, hts, hs0, hlater, hq, hshape, rfl, hreach⟩⟩

/-- **`pickup_spec_described`**: the pickup rule as a theorem about the description, with no side condition on the
    model's internals: for a part whose first signature and quarter duration start at 0 and are not changed inside
    the first beat, and whose timeline is at least one beat long, in either beat mode, the first measure `(s, e)` keeps
    its start when it is at least a full bar of the first signature long and otherwise starts at
    `round(e − full bar)` -/
theorem pickup_spec_described (p : PartD) (l : Int) (s0 : TimeMap.TSig) (rest : List TimeMap.TSig) (q0 : Nat)
    (qrest : List (Int × Nat)) (H : DescribedStart p l s0 rest q0 qrest) :
    (∃ b d, beatsPerBar p = some b ∧ divsPerBeat p = some d ∧ b * d = fullBar s0 q0) ∧
    ∀ s e : Int, pickupStart s e (beatsPerBar p) (divsPerBeat p)
      = if ((e - s : Int) : Rat) < fullBar s0 q0 then roundHalfEven ((e : Rat) - fullBar s0 q0) else s := by
  obtain ⟨k, k', post, hS⟩ := simple_start_of_description p l s0 rest q0 qrest H
  exact pickup_spec_composed p l s0 rest q0 k k' post hS

/-- **`divs_per_beat_described`** (round 6): under the same description-level hypotheses `divs_per_beat` is the quarter
    duration at 0 divided by the beat factor of the first signature - it does not depend on any later quarter-duration
    entry, signature or on the length of the timeline -/
theorem divs_per_beat_described (p : PartD) (l : Int) (s0 : TimeMap.TSig) (rest : List TimeMap.TSig) (q0 : Nat)
    (qrest : List (Int × Nat)) (H : DescribedStart p l s0 rest q0 qrest) :
    divsPerBeat p = some ((q0 : Rat) / TimeMap.factorOf (TimeMap.beatMode (timePart p)) s0) := by
  obtain ⟨k, k', post, hS⟩ := simple_start_of_description p l s0 rest q0 qrest H
  obtain ⟨hspan, hwf, hts, hs0, hlater, hq, hk, hk0, hreach⟩ := hS
  have hkm : k ∈ TimeMap.keypoints (timePart p) (TimeMap.beatMode (timePart p)) := by rw [hk]; simp
  have hdiv : k.divs = (q0 : Rat) := by
    have := C02.keypoint_divs_inforce _ _ k hkm
    rw [hk0] at this
    exact inforce_at_assigned _ _ _ _ _ this hq
  have hfac : k.fac = TimeMap.factorOf (TimeMap.beatMode (timePart p)) s0 := by
    have := C02.keypoint_fac_inforce _ _ k hkm
    rw [hk0] at this
    have hts' : (timePart p).ts = s0 :: rest := hts
    rw [hts'] at this
    exact inforce_at_assigned _ _ _ _ _ this
      (facAssign_at_zero _ (beatMode_ne_quarter _) s0 rest hs0 hlater)
  rw [← hdiv, ← hfac]
  exact divsPerBeat_closed p hwf k k' post hk hk0 (by rw [hdiv, hfac]; exact hreach)

/-- **`pickup_maps_exact_described`**: `pickup_maps_exact` with the same description-level hypotheses - inside a pickup
    shorter than a bar of `N` whole divisions, `measure_map = (e − N, e)` and
    `metrical_position_map = (x − e + N, N)`, at every resolution -/
theorem pickup_maps_exact_described (p : PartD) (l : Int) (s0 : TimeMap.TSig) (rest : List TimeMap.TSig) (q0 : Nat)
    (qrest : List (Int × Nat)) (H : DescribedStart p l s0 rest q0 qrest)
    (N : Int) (hN : fullBar s0 q0 = (N : Rat)) (hr : raisesP p = false) (ht : Tiles (bars p))
    (s e : Int) (hi : (bars p)[0]? = some (s, e)) (hshort : e - s < N) (x : Int) (hs : s ≤ x) (he : x < e) :
    measureMapP p x = some (some (e - N, e)) ∧ metricalMapP p x = some (x - e + N, some N) := by
  obtain ⟨k, k', post, hS⟩ := simple_start_of_description p l s0 rest q0 qrest H
  exact pickup_maps_exact p l s0 rest q0 k k' post hS N hN hr ht s e hi hshort x hs he

/-- non-vacuity: the example part of Props/C10Part.lean (6/8 in musical beats, divisions 4, a second signature and a
    quarter-duration change at 28: one dotted beat = 6 divisions fits before both) -/
example : DescribedStart exPart 52 ⟨0, 6, 8, 2⟩ [⟨28, 3, 4, 3⟩] 4 [(28, 8)] :=
  ⟨rfl, by decide, rfl, rfl, by decide, rfl, by decide, by decide +kernel, by decide +kernel, by decide +kernel⟩

end C10
