/-
C04 (round 5) — the property's domain stated on the SCORE, and the property with no other hypothesis.

"… in which no two notes of equal pitch overlap within one track/channel" is a statement about musical time.  The
theorems of Props/C04Export.lean assume it of the written ticks (`C04P.NoOverlap (routedTo …)`).  Here it is stated
in quarter notes on the rows of the score (`ScoreNoOverlap`) and the tick version is derived: the exact tick image is
a strictly increasing function of musical time, the same for all parts of a file.
-/
import PartituraModel.Props.C04ImportSigs

namespace C04
open Model Model.Ticks Model.MidiPair Model.MidiModes Model.ScoreMidi

/-- the written note of a row -/
def rowRec (p : Nat) (o : Rat) (vel : Nat) (r : ScoreRow) : NoteRec :=
  ⟨tick p r.1 o r.2.1, tick p r.1 o (r.2.1 + r.2.2.1), r.2.2.2.1, r.2.2.2.2, vel⟩

theorem routedTo_rows (p : Nat) (o : Rat) (vel : Nat) (ktc : List (Key × (Nat × Nat))) (parts : List PartIn) (tr : Nat) :
    routedTo p o vel ktc parts tr = (routedRows ktc parts tr).map (rowRec p o vel) := by
  unfold routedTo routedRows
  rw [List.map_flatMap]
  apply List.flatMap_congr
  intro xi _
  rw [List.map_filterMap]
  apply List.filterMap_congr
  intro n _
  cases lookup (xi.1.group, xi.2, n.2.2.2) ktc with
  | none => rfl
  | some tc =>
    obtain ⟨t, ch⟩ := tc
    by_cases ht : t = tr <;> simp [ht, rowRec]

theorem routedRows_base (ktc : List (Key × (Nat × Nat))) (parts : List PartIn) (tr : Nat) :
    ∀ r ∈ routedRows ktc parts tr, ∃ x ∈ parts, r.1 = x.base := by
  intro r hr
  simp only [routedRows, List.mem_flatMap, List.mem_filterMap] at hr
  obtain ⟨xi, hxi, n, _, hn⟩ := hr
  refine ⟨xi.1, C04Tot.mem_of_mem_zipIdx hxi, ?_⟩
  split at hn
  · split at hn
    · cases hn; rfl
    · cases hn
  · cases hn

/-- exact ticks order positions of (possibly different) parts as musical time does -/
theorem tick_order (P : Nat) (hP : 0 < P) (o : Rat) (b₁ b₂ : TimeBase) (t₁ t₂ : Nat)
    (h₁ : ((tick P b₁ o t₁ : Int) : Rat) = (P : Rat) * (quarter b₁ t₁ - o))
    (h₂ : ((tick P b₂ o t₂ : Int) : Rat) = (P : Rat) * (quarter b₂ t₂ - o)) :
    (tick P b₁ o t₁ < tick P b₂ o t₂ ↔ quarter b₁ t₁ < quarter b₂ t₂) ∧
    (tick P b₁ o t₁ ≤ tick P b₂ o t₂ ↔ quarter b₁ t₁ ≤ quarter b₂ t₂) ∧
    (tick P b₁ o t₁ = tick P b₂ o t₂ ↔ quarter b₁ t₁ = quarter b₂ t₂) := by
  have hP' : (0 : Rat) < (P : Rat) := by exact_mod_cast hP
  have lt : tick P b₁ o t₁ < tick P b₂ o t₂ ↔ quarter b₁ t₁ < quarter b₂ t₂ := by
    rw [← Int.cast_lt (R := Rat), h₁, h₂, mul_lt_mul_iff_right₀ hP']
    constructor <;> intro h <;> linarith
  have le : tick P b₁ o t₁ ≤ tick P b₂ o t₂ ↔ quarter b₁ t₁ ≤ quarter b₂ t₂ := by
    rw [← Int.cast_le (R := Rat), h₁, h₂, mul_le_mul_iff_right₀ hP']
    constructor <;> intro h <;> linarith
  refine ⟨lt, le, ?_⟩
  rw [← Int.cast_inj (α := Rat), h₁, h₂]
  constructor
  · intro h
    have := mul_left_cancel₀ (ne_of_gt hP') h
    linarith
  · intro h; rw [h]

/-- **The domain on the score gives the domain on the file** (`shift`, `time_sig_change`): if no two notes of equal
    pitch overlap in musical time within a track and channel of the mode, the notes routed to every track do not
    overlap in written ticks — the hypothesis `hno` of the export and round-trip theorems. -/
theorem score_domain_gives_tick_domain (mode : Nat) (a : Anacrusis) (minPpq vel : Nat) (parts : List PartIn) (ex : Exported)
    (h : saveScoreMidi mode a minPpq vel parts = some ex) (ha : a ≠ .padBar)
    (hw : ∀ x ∈ parts, C04T.WellFormed x.base) (hdom : ScoreNoOverlap mode parts) :
    ∀ o tcs, origin a (parts.map (·.base)) = some o → mapToTrackChannel mode (noteKeys parts) = some tcs →
      ∀ tr, C04P.NoOverlap (routedTo ex.ppq o vel ((noteKeys parts).zip tcs) parts tr) := by
  intro o tcs ho htc tr
  obtain ⟨o', ho', hP, hex⟩ := export_ticks_exact mode a minPpq vel parts ex h ha hw
  rw [ho] at ho'
  cases ho'
  rw [routedTo_rows]
  unfold C04P.NoOverlap
  rw [List.pairwise_map]
  refine (hdom tcs htc tr).imp_of_mem ?_
  intro m n hm hn hc
  obtain ⟨xm, hxm, hbm⟩ := routedRows_base _ parts tr m hm
  obtain ⟨xn, hxn, hbn⟩ := routedRows_base _ parts tr n hn
  have em : ∀ t, ((tick ex.ppq m.1 o t : Int) : Rat) = (ex.ppq : Rat) * (quarter m.1 t - o) := by
    intro t; rw [hbm]; exact hex xm hxm t
  have en : ∀ t, ((tick ex.ppq n.1 o t : Int) : Rat) = (ex.ppq : Rat) * (quarter n.1 t - o) := by
    intro t; rw [hbn]; exact hex xn hxn t
  intro hkey
  have hkey' : (m.2.2.2.1, m.2.2.2.2) = (n.2.2.2.1, n.2.2.2.2) := by
    simpa [C04P.keyOf, rowRec] using hkey
  obtain ⟨c1, c2, c3⟩ := hc hkey'
  -- every comparison of two ticks is the comparison of the two musical times
  have T := fun (b₁ b₂ : TimeBase) (t₁ t₂ : Nat) (h₁ : ∀ t, ((tick ex.ppq b₁ o t : Int) : Rat) = (ex.ppq : Rat) * (quarter b₁ t - o))
      (h₂ : ∀ t, ((tick ex.ppq b₂ o t : Int) : Rat) = (ex.ppq : Rat) * (quarter b₂ t - o)) =>
    tick_order ex.ppq hP o b₁ b₂ t₁ t₂ (h₁ t₁) (h₂ t₂)
  simp only [rowRec, qOn, qOff] at c1 c2 c3 ⊢
  refine ⟨?_, ?_, ?_⟩
  · rintro ⟨h1, h2⟩
    rw [(T m.1 m.1 _ _ em em).1] at h1
    rw [(T n.1 n.1 _ _ en en).1] at h2
    rcases c1 ⟨h1, h2⟩ with h3 | h3
    · left; exact (T m.1 n.1 _ _ em en).2.1.mpr h3
    · right; exact (T n.1 m.1 _ _ en em).2.1.mpr h3
  · rintro ⟨h1, h2⟩ ⟨h3, h4⟩
    rw [(T m.1 m.1 _ _ em em).1] at h1
    rw [(T n.1 n.1 _ _ en en).2.2] at h2
    exact c2 ⟨h1, h2⟩ ⟨(T m.1 n.1 _ _ em en).1.mp h3, (T n.1 m.1 _ _ en em).1.mp h4⟩
  · rintro ⟨h1, h2⟩ ⟨h3, h4⟩
    rw [(T n.1 n.1 _ _ en en).1] at h1
    rw [(T m.1 m.1 _ _ em em).2.2] at h2
    exact c3 ⟨h1, h2⟩ ⟨(T n.1 m.1 _ _ en em).1.mp h3, (T m.1 n.1 _ _ em en).1.mp h4⟩

theorem pairwiseB_iff {α : Type} (r : α → α → Bool) (l : List α) :
    pairwiseB r l = true ↔ l.Pairwise (fun a b => r a b = true) := by
  induction l with
  | nil => simp [pairwiseB]
  | cons a as ih => simp [pairwiseB, ih, List.pairwise_cons]

/-- the decided domain (`dom` of the driver, answered for every generated score) is the domain -/
theorem scoreNoOverlapB_iff (mode : Nat) (parts : List PartIn) :
    scoreNoOverlapB mode parts = true ↔ ScoreNoOverlap mode parts := by
  unfold scoreNoOverlapB ScoreNoOverlap
  cases htc : mapToTrackChannel mode (noteKeys parts) with
  | none => simp
  | some tcs =>
    simp only [Option.some.injEq, forall_eq', List.all_eq_true, List.mem_range, pairwiseB_iff, decide_eq_true_eq]
    constructor
    · intro hall tr
      by_cases hlt : tr < (tcs.map (·.1)).foldl max 0 + 1
      · exact hall tr hlt
      · -- no key is mapped to a track beyond the largest
        have : routedRows ((noteKeys parts).zip tcs) parts tr = [] := by
          unfold routedRows
          rw [List.flatMap_eq_nil_iff]
          intro xi _
          rw [List.filterMap_eq_nil_iff]
          intro n _
          cases hl : lookup (xi.1.group, xi.2, n.2.2.2) ((noteKeys parts).zip tcs) with
          | none => rfl
          | some tc =>
            obtain ⟨t, ch⟩ := tc
            have hmem := (List.of_mem_zip (C04E.lookup_mem _ _ _ hl)).2
            have hle := (C04E.foldl_max_ge (tcs.map (·.1)) 0).2 t (List.mem_map.mpr ⟨(t, ch), hmem, rfl⟩)
            have : t ≠ tr := by omega
            simp [this]
        rw [this]
        exact List.Pairwise.nil
    · intro hall tr _
      exact hall tr

/-- **Property C04** (`shift`, `time_sig_change`) with hypotheses about the user's input only: a well-formed score
    (positive divisions, ascending change times) with a sounding note, in which no two notes of equal pitch overlap
    in musical time within one track / channel of the export mode; any export and import mode 0..5, minimum ppq and
    audible velocity.  Then exporting and importing both return, the ticks per quarter are the least common multiple
    of the divisions doubled up to the minimum, the imported parts hold exactly the score's sounding notes (onset and
    duration in quarter notes, MIDI pitch) with `ppq` divisions per quarter, every note is in the (part, voice) the
    import mode gives to the (track, channel) the export mode chose, and the tempo events are the exporter's. -/
theorem property_C04 (mode imode : Nat) (a : Anacrusis) (minPpq vel : Nat) (parts : List PartIn)
    (hm : mode ≤ 5) (him : imode ≤ 5) (ha : a ≠ .padBar) (hvel : 0 < vel)
    (hw : ∀ x ∈ parts, C04T.WellFormed x.base) (hnote : ∃ x ∈ parts, x.notes ≠ [])
    (hts : a = .timeSigChange → ∀ x ∈ parts, ∀ m ∈ x.measures, (tsAt x.base m.1).isSome)
    (hdom : ScoreNoOverlap mode parts) :
    ∃ ex imp o tcs, saveScoreMidi mode a minPpq vel parts = some ex ∧
      loadScoreMidi imode ex.ppq (ex.tracks.map (deltasFrom 0)) = some imp ∧
      origin a (parts.map (·.base)) = some o ∧ mapToTrackChannel mode (noteKeys parts) = some tcs ∧
      ex.ppq = ppq (parts.flatMap fun x => divisions x.base) minPpq ∧
      (importedRows o imp).Perm (scoreRows parts) ∧ (∀ e ∈ imp.parts, e.2.divs = ex.ppq) ∧
      (importedCells imp).Perm (writtenCells imode ex.ppq o ((noteKeys parts).zip tcs) parts) ∧
      imp.tempos.Perm (exportTempos (fun x t => tick ex.ppq x.base o t) parts) := by
  obtain ⟨ex, h⟩ := export_returns mode a minPpq vel parts hm hw hnote ⟨hts, fun h => absurd h ha⟩
  have hppq : ex.ppq = exportPpq parts minPpq := by
    obtain ⟨_, _, _, _, _, _, _, _, hex⟩ := C04E.save_inv mode a minPpq vel parts ex h
    rw [hex]
  have hno := score_domain_gives_tick_domain mode a minPpq vel parts ex h ha hw hdom
  rw [hppq] at hno
  exact property_end_to_end mode imode a minPpq vel parts hm him ha hvel hw hnote hts hno

/-- non-vacuity: `demoScore` is in the domain for mode 1 (both parts on channels of one track; touching notes of one
    pitch in two voices of one channel, a grace note on a boundary) -/
example : ScoreNoOverlap 1 demoScore := by
  intro tcs htc tr
  have : tcs = [(0, 1), (0, 1), (0, 2)] := by
    have h' : mapToTrackChannel 1 (noteKeys demoScore) = some [(0, 1), (0, 1), (0, 2)] := by decide +kernel
    rw [h'] at htc
    exact (Option.some.inj htc).symm
  subst this
  by_cases h0 : tr = 0
  · subst h0
    decide +kernel
  · have hr : routedRows ((noteKeys demoScore).zip [(0, 1), (0, 1), (0, 2)]) demoScore tr = [] := by
      simp only [routedRows, demoScore, noteKeys]
      simp [lookup, List.zipIdx, firstSeen]; omega
    rw [hr]
    exact List.Pairwise.nil

end C04
