/-
C06 (round 3) — second-generation round trips: a performance LOADED from a MIDI file is saved again.

The entries of a loaded performance carry, next to their seconds, the tick they had in the file they were read
from, and the parts the `ppq` of that file and the DEFAULT tempo as `mpq`.  The exporter writes the seconds.
The theorems say (1) what the loader's `Performance(...)` does to the track numbers of ALL lists of a part
(repaired: fixes/C06-7), (2) that the composed pipeline file → loader → exporter is always defined and is the
exporter applied to the seconds of the loaded events, (3) that the tick written is a nearest tick of the integral
of the OLD file's tempo map — whatever the stored tick —, and (4) exactly when the stored tick is that tick
(constant tempo equal to the new one, same resolution) and that it is not in general.
-/
import PartituraModel.Model.PerfMidi
import PartituraModel.Model.PerfMidiRegen
import PartituraModel.Props.C06
import PartituraModel.Props.C06Tracks
import PartituraModel.Proofs.C06Regen

namespace C06
open Model Model.PerfMidi C06Sort C06Stable C06Tracks C06Adjust C06Export C06Lists C06Regen

-- ================================================================== track numbers of the meta entries

private theorem allPairs_map_fst (parts : List (List Int × List Int)) :
    (parts.zipIdx.flatMap fun p => p.1.1.map fun t => (p.2, t)) = allPairs (parts.map (·.1)) := by
  unfold allPairs
  rw [List.zipIdx_map, List.flatMap_map]
  rfl

/-- `sanitize_track_numbers` on key/time signatures and other meta events (fixes/C06-7): an entry of part `i`
    on track `t` gets the number the notes, controls and programs of part `i` on track `t` get (`newTrack`, see
    `sanitize_tracks`) — it has one exactly if there are such notes, controls or programs (a, b) —, and keeps
    `t` otherwise -/
theorem sanitize_meta (parts : List (List Int × List Int)) :
    (sanitizeMeta parts = parts.zipIdx.map fun p => p.1.2.map fun t =>
        metaNum (newTrack (parts.map (·.1)) p.2 t) t) ∧
    (∀ i t, (i, t) ∈ allPairs (parts.map (·.1)) → ∃ n, newTrack (parts.map (·.1)) i t = some n ∧
        metaNum (newTrack (parts.map (·.1)) i t) t = (n : Int)) ∧
    (∀ i t, (i, t) ∉ allPairs (parts.map (·.1)) → metaNum (newTrack (parts.map (·.1)) i t) t = t) := by
  refine ⟨?_, ?_, ?_⟩
  · unfold sanitizeMeta newTrack
    simp only [allPairs_map_fst]
  · intro i t h
    obtain ⟨n, hn, _⟩ := (sanitize_tracks (parts.map (·.1))).2.1 (i, t) h
    exact ⟨n, hn, by rw [hn]; rfl⟩
  · intro i t h
    unfold newTrack
    cases hx : indexOfKey (i, t) (sanitizeKeys (allPairs (parts.map (·.1)))) with
    | none => rfl
    | some n => exact absurd ((mem_sanitizeKeys _ _).mp (mem_of_indexOfKey _ _ _ hx)) h

/-- non-vacuity, and the shape of fixes/C06-7: part 1 has its notes on track 0 like part 0; its key signature
    (track 0) follows them to track 1, an entry on the note-less track 9 stays -/
example : sanitizeMeta [([0, 0], [0]), ([0], [0, 9])] = [[0], [1, 9]] := by decide

/-- The loader: all entries of a performed part carry the index of the file track it was read from, so
    `Performance(...)` gives the key/time signatures and other meta events of the j-th part the number j — the
    number of its notes, controls and programs (`loader_renumbering`) -/
theorem loader_meta_numbers (rts : List RTrack) (hk : ∀ t ∈ rts, t.kept = true) :
    loadMetaNumbers rts = rts.zipIdx.map fun p =>
      List.replicate (p.1.timeSigs.length + p.1.keySigs.length + p.1.metas.length) ((p.2 : Nat) : Int) := by
  have hpos : ∀ t ∈ rts, 0 < t.notes.length + t.controls.length + t.programs.length := by
    intro t ht
    have := hk t ht
    unfold RTrack.kept at this
    by_contra hc
    have h0 : t.notes.length = 0 ∧ t.controls.length = 0 ∧ t.programs.length = 0 := by omega
    simp [List.length_eq_zero_iff.mp h0.1, List.length_eq_zero_iff.mp h0.2.1,
      List.length_eq_zero_iff.mp h0.2.2] at this
  let ts : List (Int × Nat) :=
    rts.map fun t => ((t.fileTrack : Int), t.notes.length + t.controls.length + t.programs.length - 1)
  have e : (rts.map fun t => (partTracks t, metaTracks t)).map (·.1)
      = ts.map fun tc => List.replicate (tc.2 + 1) tc.1 := by
    rw [List.map_map, List.map_map]
    refine List.map_congr_left ?_
    intro t ht
    have := hpos t ht
    simp only [Function.comp, partTracks]
    congr 1
    omega
  have hkeys : sanitizeKeys (allPairs ((rts.map fun t => (partTracks t, metaTracks t)).map (·.1))) = keysFrom 0 ts := by
    rw [e]
    unfold allPairs sanitizeKeys
    rw [pairs_map_replicate, sortBy_of_sorted pairLe _ (pairsFrom_sorted 0 ts), dedupAdj_pairsFrom]
  unfold loadMetaNumbers
  rw [(sanitize_meta _).1]
  unfold newTrack
  rw [hkeys, List.zipIdx_map, List.map_map]
  refine List.map_congr_left ?_
  intro p hp
  have hget : rts[p.2]? = some p.1 := List.mem_zipIdx_iff_getElem?.mp hp
  have hget' : ts[p.2]? = some ((p.1.fileTrack : Int), p.1.notes.length + p.1.controls.length + p.1.programs.length - 1) := by
    simp only [ts, List.getElem?_map, hget, Option.map_some]
  have := indexOfKey_keysFrom 0 ts p.2 _ hget'
  rw [Nat.zero_add] at this
  simp only [Function.comp, Prod.map, id, metaTracks, List.map_replicate, this, metaNum]

/-- non-vacuity: three file tracks, the first (tempo only) makes no part; the parts read from file tracks 1 and 2
    are numbered 0 and 1, their meta entries with them -/
example : let kept := loadFile false [[(0, Ev.tempo 400000), (0, Ev.metaMsg 1)],
                                      [(0, Ev.metaMsg 1), (0, Ev.keySig 2 false), (0, Ev.noteOn 0 60 64), (10, Ev.noteOff 0 60 0)],
                                      [(0, Ev.timeSig 3 4), (5, Ev.control 3 64 127)]]
    (∀ t ∈ kept, t.kept = true) ∧ kept.map (·.fileTrack) = [1, 2] ∧
    loadNumbers kept = [[some 0], [some 1]] ∧ loadMetaNumbers kept = [[0, 0], [1]] := by decide +kernel

-- ================================================================== the loaded performance

/-- `load_performance_midi` always returns a performance, and its j-th part is the j-th kept track with every
    tick converted by the integral of the file's tempo map and EVERY entry — notes, controls, programs, key and
    time signatures, other meta events — on track j -/
theorem loadedParts_eq (ppq d : Nat) (m : Bool) (tracks : List Track) :
    loadedParts ppq d m tracks
      = some ((loadFile m tracks).zipIdx.map fun p => toPPart (secondsAt d (loaderTracks m tracks) ppq) p.2 p.1) := by
  have hk : ∀ t ∈ loadFile m tracks, t.kept = true := by
    intro t ht
    unfold loadFile at ht
    exact (List.mem_filter.mp ht).2
  unfold loadedParts
  simp only
  rw [loadFile_numbers, loader_meta_numbers _ hk]
  generalize loadFile m tracks = kept
  generalize secondsAt d (loaderTracks m tracks) ppq = sec
  rw [zip3_zipIdx, List.mapM_map]
  rw [mapM_all_some _ (fun p => toPPart sec p.2 p.1)]
  intro p _
  simp [loadedPart, metaOn]

-- ================================================================== the ticks of the second file

/-- a file whose tempo events all equal the default tempo `m`: seconds = ticks·m/(10^6·ppq) -/
theorem seconds_const_tempo (m : Nat) (tracks : List Track) (ppq : Nat) (k : Int)
    (h : ∀ e ∈ tracks.flatMap temposOf, e.2 = m) : secondsAt m tracks ppq k = tickToSec k m ppq := by
  unfold secondsAt tempoList
  rw [adjustLoop_const ppq k 0 0 m _ (by
    intro c hc
    rcases List.mem_cons.mp hc with rfl | hc
    · rfl
    · exact h c ((mem_sortBy _ _ _).mp hc)), tickToSec_eq]
  simp

/-- **When the stored tick is the tick of the new file.**  An entry read at tick `k` of a file whose whole tempo
    map is the constant `m` keeps `k` as its stored tick; if the performance is saved with the resolution of that
    file and the tempo `m` — and its seconds have not been touched — the tick written, `quant m ppq (seconds)`,
    is `k` again: the second generation reproduces the ticks of the first -/
theorem stored_tick_fixpoint (m ppq : Nat) (hm : 0 < m) (hp : 0 < ppq) (tracks : List Track) (k : Int)
    (h : ∀ e ∈ tracks.flatMap temposOf, e.2 = m) :
    quant m ppq (secondsAt m tracks ppq k) = storedTick k := by
  rw [seconds_const_tempo m tracks ppq k h]
  exact C12.tick_sec_tick k m ppq hm hp

example : quant 500000 480 (secondsAt 500000 [[(0, Ev.tempo 500000), (7, Ev.noteOn 0 60 64)]] 480 1234) = storedTick 1234 :=
  stored_tick_fixpoint 500000 480 (by decide) (by decide) _ 1234 (by decide)

/-- … and in general it is NOT: under a constant file tempo `m1` and resolution `ppq1` the tick of the new file
    (tempo `mpq2`, resolution `ppq2`) is the stored tick rescaled by m1·ppq2/(ppq1·mpq2), rounded half-even -/
theorem stored_tick_rescaled (m1 ppq1 mpq2 ppq2 : Nat) (hp : 0 < ppq1) (tracks : List Track) (k : Int)
    (h : ∀ e ∈ tracks.flatMap temposOf, e.2 = m1) :
    quant mpq2 ppq2 (secondsAt m1 tracks ppq1 k)
      = roundHalfEven (((m1 : Rat) * (ppq2 : Rat) * (k : Rat)) / ((ppq1 : Rat) * (mpq2 : Rat))) := by
  rw [seconds_const_tempo m1 tracks ppq1 k h]
  unfold quant secToTick tickToSec
  have h2 : ((ppq1 : Nat) : Rat) ≠ 0 := by exact_mod_cast (Nat.pos_iff_ne_zero.mp hp)
  congr 1
  by_cases h3 : ((mpq2 : Nat) : Rat) = 0
  · rw [h3]; simp
  · field_simp

/-- the witness of the seeded change C06-e: a file at 150 bpm (`set_tempo 400000`, 480 ticks per quarter) loaded
    with the default tempo; `PerformedPart.mpq` is the default 500000 and `ppq` 480 — the very values of a default
    `save_performance_midi` —, yet the event stored at tick 480 (0.4 s) belongs on tick 384 of the new file, not
    on its stored tick -/
example : secondsAt 500000 [[(0, Ev.tempo 400000)]] 480 480 = 2 / 5 ∧
    quant 500000 480 (secondsAt 500000 [[(0, Ev.tempo 400000)]] 480 480) = 384 ∧
    quant 500000 480 (secondsAt 500000 [[(0, Ev.tempo 400000)]] 480 480) ≠ storedTick 480 := by decide +kernel

/-- **Second generation, timing.**  Whatever the file the performance was loaded from (any tempo map, any
    resolution `ppq1`, any default tempo `d`) and whatever tick `k` the entry is stored with: the seconds the
    loader gave it are the integral of that file's tempo map, they are not negative, and the tick
    `save_performance_midi(mpq2, ppq2)` writes is a nearest tick of these seconds — loading the new file returns
    them at most half a tick (of the new file) away -/
theorem second_generation_time (ppq1 d : Nat) (tracks : List Track) (mpq2 ppq2 : Nat) (hm : 0 < mpq2) (hp : 0 < ppq2)
    (k : Int) (hk : 0 ≤ k) (hpos : ∀ e ∈ tracks.flatMap temposOf, 0 ≤ e.1) :
    secondsAt d tracks ppq1 k = integral ppq1 k (0, d) (sortBy tempoLe (tracks.flatMap temposOf)) ∧
    0 ≤ secondsAt d tracks ppq1 k ∧
    |tickToSec (quant mpq2 ppq2 (secondsAt d tracks ppq1 k)) mpq2 ppq2 - secondsAt d tracks ppq1 k|
      ≤ (mpq2 : Rat) / (2 * 1000000 * ppq2) := by
  have h1 := (adjust_any_track d tracks ppq1 k hk hpos).2.2
  have h0 : 0 ≤ secondsAt d tracks ppq1 k := by rw [h1]; exact integral_nonneg _ _ _ _
  refine ⟨h1, h0, ?_⟩
  exact half_tick mpq2 ppq2 hm hp _

example : (∀ e ∈ [[(0, Ev.tempo 400000)], [(960, Ev.tempo 600000), (0, Ev.noteOn 0 60 64)]].flatMap temposOf, (0 : Int) ≤ e.1) ∧
    secondsAt 500000 [[(0, Ev.tempo 400000)], [(960, Ev.tempo 600000), (0, Ev.noteOn 0 60 64)]] 480 1440 = 7 / 5 ∧
    quant 500000 480 (7 / 5) = 1344 := by decide +kernel

-- ================================================================== the composed pipeline

/-- **Second generation, the file.**  Loading any file and saving what was loaded never fails in the model, and
    the file written is `save_performance_midi` applied to the loaded parts as `loadedParts_eq` describes them:
    every theorem of Props/C06.lean, C06Merge.lean about `exportFile` / `savedAbs` on arbitrary parts
    (`controls_kept`, `signatures_meta_kept`, `programs_kept`, `notes_kept_merged`, …) applies to it as it is.
    Neither the stored ticks nor `PerformedPart.ppq` / `mpq` occur on the right-hand side. -/
theorem regen_eq (q : Rat → Int) (ppq1 d : Nat) (ml fnz one : Bool) (tracks : List Track) (mpq2 : Nat) (ms : Bool) :
    regen q ppq1 d ml fnz one tracks mpq2 ms
      = some (exportFile q mpq2 ms (selectParts one (loadPerformanceP fnz
          ((loadFile ml tracks).zipIdx.map fun p => toPPart (secondsAt d (loaderTracks ml tracks) ppq1) p.2 p.1)))) := by
  unfold regen
  rw [loadedParts_eq]
  rfl

/-- **Second generation, the notes.**  Every note the loader paired in the j-th kept track of the old file — onset
    tick `on`, release tick `off` — is written to track j of the new file as a note-on at `q (sec on)` and a
    note-off at `q (sec off)`, `sec` the integral of the old file's tempo map: the stored ticks `on`, `off`
    themselves are written only if `q ∘ sec` fixes them (`stored_tick_fixpoint`) -/
theorem second_generation_notes (q : Rat → Int) (ppq1 d : Nat) (ml : Bool) (tracks : List Track)
    (rt : RTrack) (j : Nat) (hrt : (rt, j) ∈ (loadFile ml tracks).zipIdx) (n : RNote) (hn : n ∈ rt.notes) :
    let sec := secondsAt d (loaderTracks ml tracks) ppq1
    let parts := (loadFile ml tracks).zipIdx.map fun p => toPPart sec p.2 p.1
    (j, q (sec n.on), Ev.noteOn n.ch n.pitch n.vel) ∈ insertAll q parts ∧
    (j, q (sec n.off), Ev.noteOff n.ch n.pitch 0) ∈ insertAll q parts := by
  intro sec parts
  have hp : toPPart sec j rt ∈ parts := List.mem_map.mpr ⟨(rt, j), hrt, rfl⟩
  have hnote : (⟨n.pitch, n.vel, n.ch, j, sec n.on, sec n.off⟩ : PNote) ∈ sortBy noteLe (toPPart sec j rt).notes :=
    (mem_sortBy _ _ _).mpr (List.mem_map.mpr ⟨n, hn, rfl⟩)
  have hsub := (partEvents_sub_foldl q parts []).2 _ hp
  unfold insertAll
  constructor
  · apply hsub
    unfold partEvents
    refine List.mem_append_left _ (List.mem_append_right _ ?_)
    exact List.mem_flatMap.mpr ⟨_, hnote, by simp [noteIns]⟩
  · apply hsub
    unfold partEvents
    refine List.mem_append_left _ (List.mem_append_right _ ?_)
    exact List.mem_flatMap.mpr ⟨_, hnote, by simp [noteIns]⟩

example : ((loadFile false [[(0, Ev.tempo 400000)], [(480, Ev.noteOn 0 60 70), (480, Ev.noteOff 0 60 0), (0, Ev.eot)]]).zipIdx.map
      fun p => (p.1.fileTrack, p.1.notes, p.2)) = [(1, [⟨60, 480, 960, 70, 0⟩], 0)] := by
  decide +kernel

/-- non-vacuity of the pipeline: the 150 bpm file of the witness above, with a track name and a key signature
    next to its note in the second track (the first holds the tempo only), saved with the defaults: one track,
    note at ticks 384 / 768 (not 480 / 960), the meta events with it (fixes/C06-7) -/
example : regen (quant 500000 480) 480 500000 false false false
      [[(0, Ev.tempo 400000)], [(0, Ev.metaMsg 1), (0, Ev.keySig 2 false), (480, Ev.noteOn 0 60 70), (480, Ev.noteOff 0 60 0)]]
      500000 false
    = some (0, [[(0, Ev.tempo 500000), (0, Ev.metaMsg 1), (0, Ev.keySig 2 false), (0, Ev.program 0 0),
                 (384, Ev.noteOn 0 60 70), (384, Ev.noteOff 0 60 0), (0, Ev.eot)]]) := by decide +kernel

end C06
