/-
C18 — round 5: the literal data of the codec, regenerated from the live source on every run
(harness/translate_c18.py -> Gen/C18Lits.lean), against what the model has inlined.  Editing a constant, a column
name, a `scale` / `rescale` body, a default or a list literal of partitura/musicanalysis/performance_codec.py makes one
of these theorems fail to build.

* `source_literals`   the constants and lists: duration clip, onset quantisation at its three sites, `eps`, the central
                      difference, velocity scale and clips, pitch clip, `last_time` step and `isclose` tolerances, match
                      label, grace-note test, parameter names, matched-score columns, feature functions, defaults
* `source_rescale`    the model's `rescale` is the translated `rescale` function of every normalisation
* `source_scale`      the model's `scale` row is the translated `scale` function of every normalisation
* `source_columns`    every normalisation has as many columns as `param_names`
* `source_quant`, `source_velocity`, `source_isclose`, `source_derivative`   the model's functions written over the
                      generated constants
-/
import PartituraModel.Model.CodecAl
import PartituraModel.Model.CodecSeq
import PartituraModel.Gen.C18Lits
import PartituraModel.Proofs.C18Ext3

namespace C18
open Model Model.Codec C18P

/-- the key of `TEMPO_NORMALIZATION` a model normalisation stands for -/
def normName : Norm → String
  | .bp => "beat_period"
  | .log => "beat_period_log"
  | .ratio => "beat_period_ratio"
  | .ratioLog => "beat_period_ratio_log"
  | .std => "beat_period_standardized"

def allNorms : List Norm := [.bp, .log, .ratio, .ratioLog, .std]

theorem source_literals :
    Gen.C18_OK = true ∧ Gen.C18_NORMS = allNorms.map normName ∧
    clipDur = Gen.C18_CLIP_DUR ∧ eps = Gen.C18_GROUP_EPS ∧
    Gen.C18_ONSET_QUANT = [("decode_time", 10000), ("tempo_by_average", 10000), ("tempo_by_derivative", 10000)] ∧
    Gen.C18_DERIV_DX = 1 / 2 ∧ Gen.C18_DERIV_WEIGHTS = [-1 / 2, 0, 1 / 2] ∧
    Gen.C18_VEL_ENC = 127 ∧ Gen.C18_VEL_DEC = 127 ∧ Gen.C18_VEL_CLIP = [1, 127] ∧ Gen.C18_PITCH_CLIP = [1, 127] ∧
    Gen.C18_LAST_STEP = 1 ∧ Gen.C18_ISCLOSE = [1 / 100000, 1 / 100000000] ∧
    Gen.C18_MATCH_LABELS = [("to_matched_score", "match"), ("get_matched_notes", "match")] ∧
    Gen.C18_GRACE_LE_ZERO = true ∧
    Gen.C18_BASE_PARAMS = ["beat_period", "velocity", "timing", "articulation_log"] ∧
    Gen.C18_DECODE_PARAMS = ["beat_period", "timing", "articulation_log"] ∧
    Gen.C18_MATCHED_FIELDS.map (·.1) = baseFields ∧
    Gen.C18_MATCHED_FIELDS.map (·.2) = ["f4", "f4", "i4", "f4", "f4", "i4"] ∧
    Gen.C18_MARKING_FEATURES = ["loudness_direction_feature", "articulation_feature", "tempo_direction_feature", "slur_feature"] ∧
    Gen.C18_EXP2_COLS.map (·.2) = [[], ["beat_period_log"], [], ["beat_period_ratio_log"], []] ∧
    Gen.C18_LOG2_FNS.map (fun p => p.2.length) = [0, 1, 0, 1, 0] := by
  decide +kernel

/-- the defaults the model and the harness rely on: `beat_period` / `average`, no `snote_ids`, no alignment returned,
    no markings, ornaments removed, groups and sampling points inferred, no abscissae -/
theorem source_defaults :
    Gen.C18_DEFAULTS.map (·.2) = ["'beat_period'", "'average'", "False", "'beat_period'", "None", "False", "'beat_period'",
      "'average'", "'beat_period'", "False", "True", "None", "None", "None", "None", "False", "None"] := by
  decide +kernel

-- the second alternative only runs after a harmless rewriting of the source (operands swapped, …)
set_option linter.unreachableTactic false in
set_option linter.unusedTactic false in
/-- `TEMPO_NORMALIZATION[n]["rescale"]`, as written in the source, is the model's `rescale` -/
theorem source_rescale (n : Norm) (cols : List Rat) : rescale n cols = Gen.C18_rescale (normName n) cols := by
  cases n <;> rcases cols with _ | ⟨a, _ | ⟨b, _ | ⟨c, _ | ⟨d, t⟩⟩⟩⟩ <;>
    first
    | rfl
    | (simp only [rescale, Gen.C18_rescale, normName]; congr 1; ring)

set_option linter.unreachableTactic false in
set_option linter.unusedTactic false in
/-- `TEMPO_NORMALIZATION[n]["scale"]`, as written in the source, computes the model's columns -/
theorem source_scale (n : Norm) (sd m b : Rat) : scaleRow n sd m b = Gen.C18_scaleRow (normName n) sd m b := by
  cases n <;>
    first
    | rfl
    | (simp only [scaleRow, Gen.C18_scaleRow, normName, List.cons.injEq, and_true]; refine ⟨?_, ?_⟩ <;> ring)

/-- one column per parameter name -/
theorem source_columns (n : Norm) (sd m b : Rat) :
    ((lookup (normName n) Gen.C18_PARAM_NAMES).map List.length) = some (scaleRow n sd m b).length := by
  cases n <;> rfl

/-- the onset key: truncation of `q * onset` with the factor written at each of the three sites -/
theorem source_quant (so : Rat) : ∀ p ∈ Gen.C18_ONSET_QUANT, encKey so = ((truncR (p.2 * so) : Int) : Rat) := by
  intro p hp
  simp only [Gen.C18_ONSET_QUANT, List.mem_cons, List.not_mem_nil, or_false] at hp
  rcases hp with rfl | rfl | rfl <;> exact encKey_eq so

theorem source_velocity (v : Int) (x : Rat) :
    encodeVel v = (v : Rat) / Gen.C18_VEL_ENC ∧ decodeVel x = clipInt 1 127 (roundHalfEven (x * Gen.C18_VEL_DEC)) :=
  ⟨rfl, rfl⟩

theorem source_isclose (a b : Rat) :
    isClose a b = decide (absR (a - b) ≤ Gen.C18_ISCLOSE.getD 1 0 + Gen.C18_ISCLOSE.getD 0 0 * absR b) := rfl

/-- the central difference over the generated weights and step: `Σ w[k] · f(x + (k − 1)·dx) / dx` -/
theorem source_derivative (f : Rat → Option Rat) (x a b c : Rat)
    (ha : f (x + (0 - 1) * Gen.C18_DERIV_DX) = some a) (hb : f (x + (1 - 1) * Gen.C18_DERIV_DX) = some b)
    (hc : f (x + (2 - 1) * Gen.C18_DERIV_DX) = some c) :
    firstOrderDerivative f x = some ((Gen.C18_DERIV_WEIGHTS.getD 0 0 * a + Gen.C18_DERIV_WEIGHTS.getD 1 0 * b
      + Gen.C18_DERIV_WEIGHTS.getD 2 0 * c) / Gen.C18_DERIV_DX) := by
  unfold firstOrderDerivative
  simp only [Gen.C18_DERIV_DX] at ha hb hc
  rw [ha, hb, hc]
  simp only [Gen.C18_DERIV_WEIGHTS, Gen.C18_DERIV_DX, List.getD_cons_zero, List.getD_cons_succ, Option.some.injEq]
  ring

/-- round 6: which side of an alignment entry each function passes through `str(·)` (Model/CodecAl.lean: `to_matched_score`
    rewrites and reads `str(score_id)` and looks `performance_id` up as it is; `get_matched_notes` the other way round) -/
theorem source_id_forms :
    Gen.C18_STR_IDS = [("to_matched_score", ["score_id"]), ("get_matched_notes", ["performance_id"])] ∧
    Gen.C18_ID_LOOKUPS = [("part_by_id", "score_id"), ("ppart_by_id", "performance_id")] ∧
    (∀ l v p, (flatS ⟨some l, some v, some p⟩).sid = some (pyStr v)) ∧
    (∀ l v p, (flatP ⟨some l, some v, some p⟩).pid = some (pyStr p)) :=
  ⟨by decide +kernel, by decide +kernel, fun _ _ _ => rfl, fun _ _ _ => rfl⟩

/-- round 6: the column names of the parameter array (Model/CodecSeq.lean `paramNames`, `encodedColumns`,
    `requiredColumns`) are the `param_names` of `TEMPO_NORMALIZATION`, `parameter_names` of `encode_tempo` and the list
    `decode_performance` indexes the array with -/
theorem source_column_names :
    Gen.C18_PARAM_NAMES = allNorms.map (fun n => (normName n, paramNames n)) ∧
    (∀ n ∈ allNorms, encodedColumns n = Gen.C18_BASE_PARAMS ++ (if n = .bp then [] else paramNames n)) ∧
    (∀ n ∈ allNorms, requiredColumns n = "velocity" :: (Gen.C18_DECODE_PARAMS ++ (if n = .bp then [] else paramNames n))) := by
  decide +kernel

end C18
