/-
C14 — performed notes sound until release or later, exactly as the pedal dictates.

Property theorems over Model/Pedal.lean (the literal mirror of `adjust_offsets_w_sustain`, the threshold
setter, `note_array`, `from_note_array`, `sanitize_track_numbers`).  Vocabulary (defined in Model/Pedal.lean):
`pedalStream cs thr` = pedal events in time order, simultaneous ones in stream order, thresholded `value > thr`;
`downBefore r evs` = state established by the events strictly before `r`; `Moment ns cs thr i n t` = `t ≥ release`
is a pedal event with value ≤ thr or the onset of another note of the same pitch; `closing` = the table's
closing sentinel; `soundOffAt ns cs thr i` = `sound_off` of note `i` after `adjust_offsets_w_sustain`.
-/
import PartituraModel.Proofs.C14Aux
import PartituraModel.Proofs.Round

namespace C14
open Model Model.Pedal C14P

/-! ### the vocabulary is what it says -/

/-- `validNote` = 0 ≤ onset ≤ release and MIDI ranges of pitch and velocity -/
theorem valid_note_iff (n : Note) :
    validNote n = true ↔ 0 ≤ n.pitch ∧ n.pitch ≤ 127 ∧ 0 ≤ n.on ∧ n.on ≤ n.off ∧ 0 ≤ n.vel ∧ n.vel ≤ 127 :=
  validNote_iff n

/-- the pedal stream is exactly the controls number 64, thresholded `value > thr` … -/
theorem pedal_stream_perm (cs : List Control) (thr : Int) :
    (pedalStream cs thr).Perm ((cs.filter (fun c => c.number = sustainCC)).map (fun c => (c.time, decide (thr < c.value)))) :=
  perm_sortBy _ _

/-- … in time order … -/
theorem pedal_stream_sorted (cs : List Control) (thr : Int) :
    (pedalStream cs thr).Pairwise (fun a b => a.1 ≤ b.1) :=
  sorted_sortBy _ _

/-- … simultaneous events in the order of the control stream -/
theorem pedal_stream_stable (cs : List Control) (thr : Int) (t : Rat) :
    (pedalStream cs thr).filter (fun e => decide (e.1 = t))
      = ((cs.filter (fun c => c.number = sustainCC)).map (fun c => (c.time, decide (thr < c.value)))).filter
          (fun e => decide (e.1 = t)) :=
  stable_sortBy _ t _

example : pedalStream [⟨64, 1, 100, none⟩, ⟨7, 0, 3, none⟩, ⟨64, 1, 0, none⟩, ⟨64, 0, 90, some 2⟩] 64
    = [(0, true), (1, true), (1, false)] := by decide +kernel

/-- the pedal change table the code searches with `np.searchsorted` is in ascending time order, and so are the
    same-pitch onsets searched by the re-strike clipping (the precondition under which `searchsorted` is
    modelled as "number of elements < x") -/
theorem searched_arrays_sorted (cs : List Control) (thr : Int) (firstOff lastOff : Rat) (T : List Ev)
    (hT : pedalTable (pedalStream cs thr) firstOff lastOff = some T) (ns : List Note) (p : Int) :
    T.Pairwise (fun a b => a.1 ≤ b.1)
    ∧ (sortBy (fun m : Note × Nat => m.1.on) (samePitch ns p)).Pairwise (fun a b => a.1.on ≤ b.1.on) :=
  ⟨pedalTable_sorted _ _ _ T hT (sorted_sortBy _ _), sorted_sortBy _ _⟩

example : pedalTable (pedalStream [⟨64, 1, 100, none⟩, ⟨64, 3, 90, none⟩, ⟨64, 4, 0, none⟩, ⟨64, 0, 0, none⟩] 64) 2 5
    = some [(-1, false), (0, false), (1, true), (4, false), (6, false)] := by decide +kernel

/-! ### never fails; never before the release -/

/-- building a performed part from well-formed notes and any control stream never fails; its `sound_off`
    column is `adjust_offsets_w_sustain` of (notes, controls, threshold); every later assignment succeeds -/
theorem total (ns : List Note) (cs : List Control) (thr : Int) (hwf : ∀ n ∈ ns, validNote n = true) :
    ∃ p, buildPart ns cs thr = some p ∧ p.notes = ns ∧ p.controls = cs ∧ p.thr = thr
      ∧ soundOffs ns cs thr = some p.sound ∧ p.sound.length = ns.length
      ∧ ∀ thr', ∃ p', setThreshold p thr' = some p' := by
  have hall : ns.all validNote = true := List.all_eq_true.mpr hwf
  unfold buildPart
  rw [if_pos hall, setThreshold_eq]
  refine ⟨_, rfl, rfl, rfl, rfl, ?_, ?_, ?_⟩
  · exact soundOffs_eq ns cs thr
  · simp
  · intro thr'
    rw [setThreshold_eq]
    exact ⟨_, rfl⟩

/-- `PerformedNote` validation: a note outside 0 ≤ onset ≤ release / MIDI ranges is rejected -/
theorem rejects_invalid (ns : List Note) (cs : List Control) (thr : Int) (n : Note) (hn : n ∈ ns)
    (hbad : validNote n = false) : buildPart ns cs thr = none := by
  unfold buildPart
  have : ¬ (ns.all validNote = true) := by
    intro h
    have := List.all_eq_true.mp h n hn
    rw [hbad] at this
    cases this
  rw [if_neg this]

example : buildPart [⟨60, 0, 2, 64, 0, 1, none⟩, ⟨60, 1, 3, 64, 0, 2, none⟩] [⟨64, 1/2, 100, none⟩, ⟨64, 5, 0, none⟩] 64
    = some ⟨[⟨60, 0, 2, 64, 0, 1, none⟩, ⟨60, 1, 3, 64, 0, 2, none⟩], [5, 5], [⟨64, 1/2, 100, none⟩, ⟨64, 5, 0, none⟩], 64⟩ := by
  decide +kernel

example : buildPart [⟨60, 2, 1, 64, 0, 1, none⟩] [] 64 = none := by decide +kernel

/-- every note has a sounding end, and it is never before the release (any notes, any controls, any threshold) -/
theorem ge_release (ns : List Note) (cs : List Control) (thr : Int) (i : Nat) (n : Note) (hn : ns[i]? = some n) :
    ∃ x, soundOffAt ns cs thr i = some x ∧ n.off ≤ x := by
  rw [soundOffAt_eq, hn]
  exact ⟨_, rfl, spec_ge_off ns cs thr i n (List.mem_of_getElem? hn)⟩

example : soundOffAt [⟨60, 0, 1, 64, 0, 1, none⟩, ⟨61, 1/2, 1/2, 0, 3, 9, some 7⟩] [⟨64, 1/4, 100, none⟩, ⟨64, 2, 3, none⟩] 64 1
    = some 2 := by decide +kernel

/-! ### equal to the release -/

/-- no pedal events: every note ends at its release -/
theorem eq_release_no_pedal (ns : List Note) (cs : List Control) (thr : Int) (i : Nat) (n : Note)
    (hn : ns[i]? = some n) (hno : ∀ c ∈ cs, c.number ≠ sustainCC) : soundOffAt ns cs thr i = some n.off := by
  rw [soundOffAt_eq, hn]
  simp [soundOffSpec, pedalStream_nil_of_no_pedal cs thr hno, downBefore]

/-- no pedal value above the threshold (in particular threshold 127 with MIDI values 0..127) -/
theorem eq_release_thr_max (ns : List Note) (cs : List Control) (thr : Int) (i : Nat) (n : Note)
    (hn : ns[i]? = some n) (hmax : ∀ c ∈ cs, c.number = sustainCC → c.value ≤ thr) :
    soundOffAt ns cs thr i = some n.off := by
  rw [soundOffAt_eq, hn]
  have : downBefore n.off (pedalStream cs thr) = false := by
    apply downBefore_false_of_all_up
    intro e he
    obtain ⟨c, hc, h64, rfl⟩ := (mem_pedalStream cs thr e).mp he
    have := hmax c hc h64
    simp only [decide_eq_false_iff_not]
    omega
  simp [soundOffSpec, this]

/-- the pedal is up at the release -/
theorem eq_release_pedal_up (ns : List Note) (cs : List Control) (thr : Int) (i : Nat) (n : Note)
    (hn : ns[i]? = some n) (hup : downBefore n.off (pedalStream cs thr) = false) :
    soundOffAt ns cs thr i = some n.off := by
  rw [soundOffAt_eq, hn]
  simp [soundOffSpec, hup]

example : soundOffAt [⟨60, 0, 1, 64, 0, 1, none⟩] [⟨7, 1/2, 127, none⟩, ⟨66, 1/2, 127, none⟩] 0 0 = some 1 := by decide +kernel
-- a pedal event exactly at the release acts after it; the re-strike at 3 is irrelevant with the pedal up
example : soundOffAt [⟨60, 0, 1, 64, 0, 1, none⟩, ⟨60, 3, 4, 64, 0, 1, none⟩] [⟨64, 1, 127, none⟩, ⟨64, 9, 0, none⟩] 64 0
    = some 1 := by decide +kernel
example : soundOffAt [⟨60, 0, 1, 64, 0, 1, none⟩] [⟨64, 1/2, 127, none⟩, ⟨64, 9, 0, none⟩] 127 0 = some 1 := by
  decide +kernel

/-! ### pedal down at the release -/

/-- with the pedal down at the release the note ends at the first moment at or after the release at which the
    pedal value is at or below the threshold or the same pitch is struck again — the least such moment -/
theorem pedal_down (ns : List Note) (cs : List Control) (thr : Int) (i : Nat) (n : Note)
    (hwf : ∀ m ∈ ns, m.on ≤ m.off) (hn : ns[i]? = some n)
    (hdown : downBefore n.off (pedalStream cs thr) = true) (hex : ∃ t, Moment ns cs thr i n t) :
    ∃ x, soundOffAt ns cs thr i = some x ∧ Moment ns cs thr i n x ∧ ∀ t, Moment ns cs thr i n t → x ≤ t := by
  rw [soundOffAt_eq, hn]
  refine ⟨_, rfl, ?_, ?_⟩
  · obtain ⟨c, hc⟩ := closing_some_of_down ns _ n (List.mem_of_getElem? hn) _ hdown
    obtain ⟨t, ht⟩ := hex
    have htm := (mem_moments ns cs thr i n t).mpr ht
    have hlt := moments_lt_closing ns cs thr i n c hwf hc
    apply (mem_moments ns cs thr i n _).mp
    simp only [soundOffSpec, hdown, if_true, hc, Option.getD_some, minOf]
    rcases foldl_min_mem c (upTimes n.off (pedalStream cs thr) ++ restrikes ns i n) with h | h
    · exfalso
      have h1 := foldl_min_le_mem c _ t htm
      rw [h] at h1
      exact absurd (hlt t htm) (not_lt.mpr h1)
    · exact h
  · intro t ht
    have htm := (mem_moments ns cs thr i n t).mpr ht
    simp only [soundOffSpec, hdown, if_true, minOf]
    exact foldl_min_le_mem _ _ t htm

/-- pedal down at the release, never lifted afterwards and the pitch never struck again: the property names no
    moment; the code (and the model) answer the closing sentinel, one second after the last pedal event and
    the last release of the part -/
theorem pedal_down_never_released (ns : List Note) (cs : List Control) (thr : Int) (i : Nat) (n : Note)
    (hn : ns[i]? = some n) (hdown : downBefore n.off (pedalStream cs thr) = true)
    (hno : ¬ ∃ t, Moment ns cs thr i n t) :
    ∃ c, closing ns (pedalStream cs thr) = some c ∧ soundOffAt ns cs thr i = some c := by
  obtain ⟨c, hc⟩ := closing_some_of_down ns _ n (List.mem_of_getElem? hn) _ hdown
  refine ⟨c, hc, ?_⟩
  rw [soundOffAt_eq, hn, Option.map_some]
  have : upTimes n.off (pedalStream cs thr) ++ restrikes ns i n = [] := by
    apply List.eq_nil_iff_forall_not_mem.mpr
    intro t ht
    exact hno ⟨t, (mem_moments ns cs thr i n t).mp ht⟩
  simp only [soundOffSpec, hdown, if_true, hc, Option.getD_some]
  rw [this]
  rfl

-- pedal down at 1/2, lifted at 5; the same pitch is struck again at 3 (on another channel): cut at 3;
-- the later note sounds until the pedal is lifted; a note of another pitch is not cut
example : soundOffAt [⟨60, 0, 2, 64, 0, 1, none⟩, ⟨60, 3, 4, 64, 0, 2, none⟩, ⟨62, 0, 2, 64, 0, 1, none⟩]
    [⟨64, 1/2, 100, none⟩, ⟨64, 5, 0, none⟩] 64 0 = some 3 := by decide +kernel
example : (List.range 3).map (soundOffAt [⟨60, 0, 2, 64, 0, 1, none⟩, ⟨60, 3, 4, 64, 0, 2, none⟩, ⟨62, 0, 2, 64, 0, 1, none⟩]
    [⟨64, 1/2, 100, none⟩, ⟨64, 5, 0, none⟩] 64) = [some 3, some 5, some 5] := by decide +kernel
example : Moment [⟨60, 0, 2, 64, 0, 1, none⟩, ⟨60, 3, 4, 64, 0, 2, none⟩] [⟨64, 1/2, 100, none⟩, ⟨64, 5, 0, none⟩] 64 0
    ⟨60, 0, 2, 64, 0, 1, none⟩ 3 :=
  ⟨by decide +kernel, Or.inr ⟨1, ⟨60, 3, 4, 64, 0, 2, none⟩, rfl, by decide, rfl, rfl⟩⟩
-- never released: sentinel = max(last pedal time, last release) + 1
example : soundOffAt [⟨60, 0, 2, 64, 0, 1, none⟩] [⟨64, 1/2, 100, none⟩] 64 0 = some 3 := by decide +kernel

/-- the re-strike cut does not depend on how simultaneous onsets of one pitch are ordered by the sort -/
theorem restrike_order_irrelevant (ns : List Note) (i : Nat) (n : Note) (x : Rat) (S : List (Note × Nat))
    (hp : S.Perm (samePitch ns n.pitch)) (hS : S.Pairwise (fun a b => a.1.on ≤ b.1.on)) :
    restrikeClipIn S i n x = restrikeClip ns i n x :=
  restrikeClipIn_any_order ns i n x S hp hS

-- two simultaneous onsets of one pitch in either order, seen from the zero-length note 0 released at 1
example : restrikeClipIn [(⟨60, 1, 1, 64, 0, 1, none⟩, 0), (⟨60, 1, 2, 64, 0, 1, none⟩, 1)] 0 ⟨60, 1, 1, 64, 0, 1, none⟩ 9 = 1
    ∧ restrikeClipIn [(⟨60, 1, 2, 64, 0, 1, none⟩, 1), (⟨60, 1, 1, 64, 0, 1, none⟩, 0)] 0 ⟨60, 1, 1, 64, 0, 1, none⟩ 9 = 1 := by
  decide +kernel

/-! ### the threshold -/

/-- raising the threshold never lengthens any note -/
theorem thr_antitone (ns : List Note) (cs : List Control) (thr thr' : Int) (h : thr ≤ thr') (i : Nat) (n : Note)
    (hn : ns[i]? = some n) :
    ∃ x x', soundOffAt ns cs thr i = some x ∧ soundOffAt ns cs thr' i = some x' ∧ x' ≤ x := by
  rw [soundOffAt_eq, soundOffAt_eq, hn]
  exact ⟨_, _, rfl, rfl, spec_antitone ns cs thr thr' h i n (List.mem_of_getElem? hn)⟩

example : soundOffAt [⟨60, 0, 1, 64, 0, 1, none⟩] [⟨64, 1/2, 65, none⟩, ⟨64, 2, 0, none⟩] 64 0 = some 2
    ∧ soundOffAt [⟨60, 0, 1, 64, 0, 1, none⟩] [⟨64, 1/2, 65, none⟩, ⟨64, 2, 0, none⟩] 65 0 = some 1 := by decide +kernel

/-- assigning the threshold recomputes every note from (notes, controls, threshold): the result does not
    depend on the `sound_off` values (or the threshold) the part held before -/
theorem recompute (p q : Part) (thr : Int) (hn : p.notes = q.notes) (hc : p.controls = q.controls) :
    (setThreshold p thr).map (·.sound) = (setThreshold q thr).map (·.sound)
    ∧ (setThreshold p thr).map (·.sound) = soundOffs p.notes p.controls thr := by
  unfold setThreshold
  rw [hn, hc]
  cases soundOffs q.notes q.controls thr <;> simp

/-- after any sequence of assignments the notes sound as in a part freshly built with the last threshold;
    every intermediate observation is the fresh computation for its threshold -/
theorem recompute_sequence (ns : List Note) (cs : List Control) (thr : Int) (ts : List Int) (p : Part)
    (hp : buildPart ns cs thr = some p) :
    ∃ obs, rethreshold p ts = some obs ∧ obs.length = ts.length ∧
      ∀ (k : Nat) (t : Int), ts[k]? = some t → obs[k]? = soundOffs ns cs t := by
  obtain ⟨hnotes, hcontrols⟩ : p.notes = ns ∧ p.controls = cs := by
    unfold buildPart at hp
    split at hp
    · rw [setThreshold_eq] at hp
      have := Option.some.inj hp
      subst this
      exact ⟨rfl, rfl⟩
    · cases hp
  refine ⟨_, rethreshold_eq p ts, by simp, ?_⟩
  intro k t hk
  rw [List.getElem?_map, hk, hnotes, hcontrols, soundOffs_eq]
  rfl

example : (buildPart [⟨60, 0, 1, 64, 0, 1, none⟩] [⟨64, 1/2, 65, none⟩, ⟨64, 2, 0, none⟩] 64).bind
    (fun p => rethreshold p [65, 0, 127, 64]) = some [[1], [2], [1], [2]] := by decide +kernel

/-! ### the note array and its inverse -/

/-- rows of `note_array()`: onset in seconds and in ticks agree under ppq and mpq, the duration in seconds
    reaches the sounding end, the duration in ticks is the tick image of the release minus the onset tick —
    which is the tick image of the seconds columns whenever no pedal extends the note -/
theorem rows_consistent (mpq ppq : Nat) (n : Note) (so : Rat) :
    (noteRow mpq ppq n so).onsetSec = n.on
    ∧ (noteRow mpq ppq n so).durSec = so - n.on
    ∧ (n.onTick = none → (noteRow mpq ppq n so).onsetTick = secToTick (noteRow mpq ppq n so).onsetSec mpq ppq)
    ∧ (noteRow mpq ppq n so).durTick = secToTick n.off mpq ppq - (noteRow mpq ppq n so).onsetTick
    ∧ (so = n.off → (noteRow mpq ppq n so).durTick
        = secToTick ((noteRow mpq ppq n so).onsetSec + (noteRow mpq ppq n so).durSec) mpq ppq
          - (noteRow mpq ppq n so).onsetTick)
    ∧ (noteRow mpq ppq n so).pitch = n.pitch ∧ (noteRow mpq ppq n so).vel = n.vel
    ∧ (noteRow mpq ppq n so).track = n.track ∧ (noteRow mpq ppq n so).chan = n.chan := by
  refine ⟨rfl, rfl, ?_, rfl, ?_, rfl, rfl, rfl, rfl⟩
  · intro h; simp [noteRow, h]
  · intro h
    subst h
    simp [noteRow]

/-- one row per note, in order, each built from the note and its current `sound_off` -/
theorem rows_of_part (mpq ppq : Nat) (p : Part) (hl : p.sound.length = p.notes.length) (i : Nat) :
    (noteRows mpq ppq p)[i]? =
      (p.notes[i]?).bind (fun n => (p.sound[i]?).map (fun so => noteRow mpq ppq n so))
    ∧ (noteRows mpq ppq p).length = p.notes.length := by
  unfold noteRows
  constructor
  · rw [List.getElem?_map]
    cases h1 : p.notes[i]? with
    | none =>
      have : (p.notes.zip p.sound)[i]? = none := by
        apply List.getElem?_eq_none
        have := List.getElem?_eq_none_iff.mp h1
        simp [List.length_zip]; omega
      simp [this]
    | some n =>
      cases h2 : p.sound[i]? with
      | none =>
        have := List.getElem?_eq_none_iff.mp h2
        have := (List.getElem?_eq_some_iff.mp h1).1
        omega
      | some so =>
        have : (p.notes.zip p.sound)[i]? = some (n, so) := List.getElem?_zip_eq_some.mpr ⟨h1, h2⟩
        simp [this]
  · simp [List.length_zip, hl]

/-- a performed part rebuilt from its own note array has the same pitches, velocities, onsets (tracks and
    channels) and the same sounding ends -/
theorem from_to_array (ns : List Note) (cs : List Control) (thr : Int) (mpq ppq : Nat) (p : Part)
    (hp : buildPart ns cs thr = some p) :
    ∃ q, fromRows (noteRows mpq ppq p) = some q
      ∧ q.notes.map (fun n => (n.pitch, n.vel, n.on, n.track, n.chan))
          = ns.map (fun n => (n.pitch, n.vel, n.on, n.track, n.chan))
      ∧ q.sound = p.sound := by
  -- what the part is
  have hvalid : ns.all validNote = true := by
    unfold buildPart at hp
    split at hp
    · assumption
    · cases hp
  have hp' : p = ⟨ns, ns.zipIdx.map (fun m => soundOffSpec ns cs thr m.2 m.1), cs, thr⟩ := by
    unfold buildPart at hp
    rw [if_pos hvalid, setThreshold_eq] at hp
    exact (Option.some.inj hp).symm
  subst hp'
  -- the notes from_note_array builds
  have hrows : (noteRows mpq ppq ⟨ns, ns.zipIdx.map (fun m => soundOffSpec ns cs thr m.2 m.1), cs, thr⟩).map noteOfRow
      = ns.zipIdx.map (fun m => ({ m.1 with off := soundOffSpec ns cs thr m.2 m.1, onTick := none } : Note)) := by
    unfold noteRows
    simp only
    have hz := zip_map_zipIdx (fun m : Note × Nat => soundOffSpec ns cs thr m.2 m.1) ns 0
    rw [hz, List.map_map, List.map_map]
    apply List.map_congr_left
    intro m _
    simp only [Function.comp, noteOfRow, noteRow]
    congr 1
    exact add_sub_cancel _ _
  unfold fromRows buildPart
  rw [hrows]
  have hvalid' : (ns.zipIdx.map (fun m => ({ m.1 with off := soundOffSpec ns cs thr m.2 m.1, onTick := none } : Note))).all
      validNote = true := by
    apply List.all_eq_true.mpr
    intro a ha
    obtain ⟨m, hm, rfl⟩ := List.mem_map.mp ha
    have hmem : m.1 ∈ ns := List.mem_of_getElem? (List.mem_zipIdx_iff_getElem?.mp hm)
    have hv := (validNote_iff m.1).mp (List.all_eq_true.mp hvalid m.1 hmem)
    have hge := spec_ge_off ns cs thr m.2 m.1 hmem
    apply (validNote_iff _).mpr
    exact ⟨hv.1, hv.2.1, hv.2.2.1, le_trans hv.2.2.2.1 hge, hv.2.2.2.2.1, hv.2.2.2.2.2⟩
  rw [if_pos hvalid']
  unfold setThreshold
  simp only
  rw [soundOffs_no_controls]
  refine ⟨_, rfl, ?_, ?_⟩
  · simp only [List.map_map]
    exact map_zipIdx_fst (fun n : Note => (n.pitch, n.vel, n.on, n.track, n.chan)) ns 0
  · simp [List.map_map, Function.comp]

example : (buildPart [⟨60, 0, 2, 64, 0, 1, none⟩, ⟨60, 3, 4, 70, 1, 2, none⟩] [⟨64, 1/2, 100, none⟩, ⟨64, 5, 0, none⟩] 64).map
    (noteRows 500000 480) = some [⟨0, 3, 0, 1920, 60, 64, 0, 1⟩, ⟨3, 2, 2880, 960, 60, 70, 1, 2⟩] := by decide +kernel

example : ((buildPart [⟨60, 0, 2, 64, 0, 1, none⟩, ⟨60, 3, 4, 70, 1, 2, none⟩] [⟨64, 1/2, 100, none⟩, ⟨64, 5, 0, none⟩] 64).bind
    (fun p => fromRows (noteRows 500000 480 p))).map (fun q => (q.notes.map (fun n => (n.pitch, n.vel, n.on, n.off)), q.sound))
    = some ([(60, 64, 0, 3), (60, 70, 3, 5)], [3, 5]) := by decide +kernel

/-! ### track renumbering -/

/-- `sanitize_track_numbers`, for every iteration order `u` of the set of (part, track) pairs: it never fails,
    the new number is a function of (part index, old track) alone, that function is injective on the pairs
    that occur (so no two parts share a track and no track is split), and the numbers are `0 … num_tracks-1` -/
theorem tracks_unique (parts : List PartTracks) (u : List (Nat × Int)) (hnd : u.Nodup)
    (hu : ∀ k, k ∈ u ↔ k ∈ trackKeys parts) :
    ∃ f : Nat × Int → Nat,
      sanitizeWith u parts = some (parts.zipIdx.map (fun p =>
        (p.1.notes.map (fun t => f (p.2, t)), p.1.controls.map (fun t => f (p.2, trackOr t)),
         p.1.programs.map (fun t => f (p.2, trackOr t)))))
      ∧ (∀ k₁ ∈ trackKeys parts, ∀ k₂ ∈ trackKeys parts, f k₁ = f k₂ → k₁ = k₂)
      ∧ (∀ k ∈ trackKeys parts, f k < numTracks parts) := by
  have hget : ∀ k ∈ trackKeys parts, ∃ j, trackMap u k = some j ∧ j < u.length :=
    fun k hk => indexOf_some_of_mem k u ((hu k).mpr hk)
  have hlen : u.length = numTracks parts := by
    unfold numTracks
    apply List.Perm.length_eq
    apply (List.perm_ext_iff_of_nodup hnd (nodup_dedup _)).mpr
    intro k
    rw [hu k, mem_dedup]
  refine ⟨fun k => (trackMap u k).getD 0, ?_, ?_, ?_⟩
  · unfold sanitizeWith
    apply mapM'_eq_some
    intro p hp
    have hpi : parts[p.2]? = some p.1 := List.mem_zipIdx_iff_getElem?.mp hp
    have hkeys : (∀ t ∈ p.1.notes, (p.2, t) ∈ trackKeys parts)
        ∧ (∀ t ∈ p.1.controls, (p.2, trackOr t) ∈ trackKeys parts)
        ∧ (∀ t ∈ p.1.programs, (p.2, trackOr t) ∈ trackKeys parts) := by
      unfold trackKeys
      refine ⟨?_, ?_, ?_⟩
      · intro t ht
        apply List.mem_append_left; apply List.mem_append_left
        exact List.mem_flatMap.mpr ⟨p, hp, List.mem_map.mpr ⟨t, ht, rfl⟩⟩
      · intro t ht
        apply List.mem_append_left; apply List.mem_append_right
        exact List.mem_flatMap.mpr ⟨p, hp, List.mem_map.mpr ⟨t, ht, rfl⟩⟩
      · intro t ht
        apply List.mem_append_right
        exact List.mem_flatMap.mpr ⟨p, hp, List.mem_map.mpr ⟨t, ht, rfl⟩⟩
    unfold sanitizePart
    rw [mapM'_eq_some (fun t => trackMap u (p.2, t)) (fun t => (trackMap u (p.2, t)).getD 0) p.1.notes
        (by intro t ht; obtain ⟨j, hj, _⟩ := hget _ (hkeys.1 t ht); simp [hj]),
      mapM'_eq_some (fun t => trackMap u (p.2, trackOr t)) (fun t => (trackMap u (p.2, trackOr t)).getD 0) p.1.controls
        (by intro t ht; obtain ⟨j, hj, _⟩ := hget _ (hkeys.2.1 t ht); simp [hj]),
      mapM'_eq_some (fun t => trackMap u (p.2, trackOr t)) (fun t => (trackMap u (p.2, trackOr t)).getD 0) p.1.programs
        (by intro t ht; obtain ⟨j, hj, _⟩ := hget _ (hkeys.2.2 t ht); simp [hj])]
  · intro k₁ h₁ k₂ h₂ hf
    obtain ⟨j₁, hj₁, _⟩ := hget k₁ h₁
    obtain ⟨j₂, hj₂, _⟩ := hget k₂ h₂
    simp only [hj₁, hj₂, Option.getD_some] at hf
    subst hf
    exact indexOf_inj k₁ k₂ u j₁ hj₁ hj₂
  · intro k hk
    obtain ⟨j, hj, hlt⟩ := hget k hk
    simp only [hj, Option.getD_some]
    omega

/-- the order of first occurrence is such an enumeration (it is the one the check compares with) -/
theorem tracks_unique_canonical (parts : List PartTracks) :
    (dedup (trackKeys parts)).Nodup ∧ ∀ k, k ∈ dedup (trackKeys parts) ↔ k ∈ trackKeys parts :=
  ⟨nodup_dedup _, fun k => mem_dedup _ k⟩

-- two parts both using track 0 (and a control without track number in the second one)
example : sanitize [⟨[0, 1, 0], [some 0], []⟩, ⟨[0, 0], [none], [some 0]⟩]
    = some [([0, 1, 0], [0], []), ([2, 2], [3], [2])]
  ∧ numTracks [⟨[0, 1, 0], [some 0], []⟩, ⟨[0, 0], [none], [some 0]⟩] = 4 := by decide +kernel

end C14
