/-
C14 — performed notes sound until release or later, exactly as the pedal dictates.
-/
import PartituraModel.Model.Pedal

namespace C14
open Model Model.Pedal

theorem placeholder_partial : soundOffs [] [] 64 = some [] := rfl

end C14
