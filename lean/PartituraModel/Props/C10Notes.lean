/-
C10 (round 5) — "the maps agree with the optional note-array columns derived from them".

Model/StepMapNotes.lean mirrors the part of `note_array_from_note_list` / `rest_array_from_rest_list`
(partitura/utils/music.py) that produces the key-signature, time-signature and metrical-position columns:
the loop over the list handed in (in ITS order), the conversion of the cells, the sort of the finished rows by
pitch and then (stably) by onset, and the selection of the maps by the `include_*` flags of
`note_array_from_part` / `rest_array_from_part`.

The theorems say, for EVERY list of notes in EVERY order and every choice of maps:
  * each row of the array is the loop body evaluated at that row's own onset (`row_at_own_onset`,
    `columns_agree_with_maps`) - the rows are sorted, the cells travel with their row;
  * the array holds exactly one row per note handed in (`rows_perm_input`), sorted by onset and, among equal
    onsets, by pitch (`rows_sorted`); the order of the list handed in does not matter (`list_order_irrelevant`);
  * it raises exactly when a signature map answers NaN at some onset (`note_array_raises_iff`), which does not
    happen for notes on the timeline (`note_array_total`);
  * composed with the map theorems: the columns are the key signature / time signature in force at the row's
    onset and the position in / length of the measure that contains it (`note_ks_column_in_force`,
    `note_ts_column_in_force`, `note_metrical_columns`, `downbeat_iff`), and are absent exactly when the flag is
    off (`note_columns_absent`); the same for rests, whose pitch cell is 0 (`rest_rows`).
-/
import PartituraModel.Proofs.C10Notes
import PartituraModel.Props.C10
import PartituraModel.Props.C10Part

namespace C10
open Model Model.StepMap Gen

/-! ### every row carries the maps evaluated at its own onset -/

/-- **`row_at_own_onset`**: whatever the order of the list handed in, every row of the finished (sorted) array is
    the loop body evaluated for that row's own object at that row's own onset -/
theorem row_at_own_onset (M : NoteMaps) (notes : List NoteIn) (rows : List ColRow)
    (h : noteArrayCols M notes = some rows) (r : ColRow) (hr : r ∈ rows) :
    r.note ∈ notes ∧ mkColRow M r.note = some r := by
  obtain ⟨rows0, h0, _, hp⟩ := noteArrayCols_some M notes rows h
  obtain ⟨n, hn, hm⟩ := loopRows_mem M notes rows0 h0 r (hp.mem_iff.mp hr)
  obtain ⟨h1, h2, h3, _⟩ := mkColRow_some M n r hm
  have : r.note = n := by
    unfold ColRow.note
    cases n; simp_all
  rw [this]
  exact ⟨hn, hm⟩

/-- **`columns_agree_with_maps`**: the key-signature cells of a row are `key_signature_map(row.onset_div)`, the
    time-signature cells `time_signature_map(row.onset_div)`, the metrical cells
    `(rel == 0, *metrical_position_map(row.onset_div))`; a map that is not handed in leaves no cells -/
theorem columns_agree_with_maps (M : NoteMaps) (notes : List NoteIn) (rows : List ColRow)
    (h : noteArrayCols M notes = some rows) (r : ColRow) (hr : r ∈ rows) :
    (∀ f, M.ks = some f → f r.onset = r.ks) ∧ (M.ks = none → r.ks = none) ∧
    (∀ f, M.ts = some f → (f r.onset).map (fun v => ((v.1 : Int), (v.2.1 : Int), (v.2.2 : Int))) = r.ts) ∧
    (M.ts = none → r.ts = none) ∧
    (∀ f, M.mp = some f → (f r.onset).map metricalCells = r.mp) ∧ (M.mp = none → r.mp = none) := by
  obtain ⟨_, hm⟩ := row_at_own_onset M notes rows h r hr
  obtain ⟨_, _, _, hks, hts, hmp⟩ := mkColRow_some M r.note r hm
  have ho : r.note.onset = r.onset := rfl
  rw [ho] at hks hts hmp
  have hks' : (cellsOf M.ks r.onset).map (·.map id) = some r.ks := by
    rw [hks]; simp
  refine ⟨?_, ?_, ?_, ?_, ?_, ?_⟩
  · intro f hf
    rw [hf] at hks'
    simpa using cellsOf_map_some id f r.onset r.ks hks'
  · intro hf
    rw [hf] at hks'
    exact cellsOf_map_none id r.onset r.ks hks'
  · intro f hf
    rw [hf] at hts
    exact cellsOf_map_some _ f r.onset r.ts hts
  · intro hf
    rw [hf] at hts
    exact cellsOf_map_none _ r.onset r.ts hts
  · intro f hf
    rw [hf] at hmp
    exact cellsOf_map_some _ f r.onset r.mp hmp
  · intro hf
    rw [hf] at hmp
    exact cellsOf_map_none _ r.onset r.mp hmp

/-- `is_downbeat` is 1 exactly when `rel_onset_div` is 0 -/
theorem downbeat_cell (M : NoteMaps) (notes : List NoteIn) (rows : List ColRow)
    (h : noteArrayCols M notes = some rows) (r : ColRow) (hr : r ∈ rows) (d rel : Int) (tot : Option Int)
    (hm : r.mp = some (d, rel, tot)) : (d = 1 ↔ rel = 0) ∧ (d = 0 ∨ d = 1) := by
  obtain ⟨_, _, _, _, hmp, hnone⟩ := columns_agree_with_maps M notes rows h r hr
  cases hM : M.mp with
  | none => rw [hnone hM] at hm; simp at hm
  | some f =>
    have := hmp f hM
    rw [hm] at this
    cases hv : f r.onset with
    | none => rw [hv] at this; simp at this
    | some v =>
      rw [hv] at this
      simp only [Option.map_some, metricalCells, Option.some.injEq, Prod.mk.injEq] at this
      obtain ⟨h1, h2, _⟩ := this
      subst h1 h2
      unfold downbeat
      by_cases h0 : v.1 = 0 <;> simp [h0]

/-! ### one row per note, sorted; the order of the list does not matter -/

/-- **`rows_perm_input`**: the array holds exactly one row per note handed in -/
theorem rows_perm_input (M : NoteMaps) (notes : List NoteIn) (rows : List ColRow)
    (h : noteArrayCols M notes = some rows) : (rows.map ColRow.note).Perm notes := by
  obtain ⟨rows0, h0, _, hp⟩ := noteArrayCols_some M notes rows h
  have := hp.map ColRow.note
  rwa [loopRows_map_note M notes rows0 h0] at this

/-- **`rows_sorted`**: by onset and, among equal onsets, by pitch -/
theorem rows_sorted (M : NoteMaps) (notes : List NoteIn) (rows : List ColRow)
    (h : noteArrayCols M notes = some rows) :
    rows.Pairwise fun a b => a.onset < b.onset ∨ (a.onset = b.onset ∧ a.pitch ≤ b.pitch) := by
  obtain ⟨rows0, _, hs, _⟩ := noteArrayCols_some M notes rows h
  rw [hs]
  exact sortBy_lex (fun r : ColRow => r.onset) (fun r : ColRow => r.pitch) _ (sortBy_sorted _ _)

/-- **`note_array_raises_iff`**: the array cannot be built exactly when a signature / metrical map that was
    handed in answers NaN at the onset of one of the notes -/
theorem note_array_raises_iff (M : NoteMaps) (notes : List NoteIn) :
    noteArrayCols M notes = none ↔
      ∃ n ∈ notes, (∃ f, M.ks = some f ∧ f n.onset = none) ∨ (∃ f, M.ts = some f ∧ f n.onset = none)
        ∨ (∃ f, M.mp = some f ∧ f n.onset = none) := by
  unfold noteArrayCols
  rw [Option.map_eq_none_iff, loopRows_none_iff]
  constructor
  · rintro ⟨n, hn, hm⟩
    refine ⟨n, hn, ?_⟩
    rw [mkColRow_eq_none, cellsOf_eq_none, cellsOf_eq_none, cellsOf_eq_none] at hm
    exact hm
  · rintro ⟨n, hn, hm⟩
    refine ⟨n, hn, ?_⟩
    rw [mkColRow_eq_none, cellsOf_eq_none, cellsOf_eq_none, cellsOf_eq_none]
    exact hm

/-- **`list_order_irrelevant`**: handing in the same notes in another order gives the same rows (both results are
    sorted by onset and pitch, `rows_sorted`; they can differ only in the order of rows with equal onset and pitch) -/
theorem list_order_irrelevant (M : NoteMaps) (notes notes' : List NoteIn) (hp : notes.Perm notes')
    (rows : List ColRow) (h : noteArrayCols M notes = some rows) :
    ∃ rows', noteArrayCols M notes' = some rows' ∧ rows.Perm rows' := by
  cases h' : noteArrayCols M notes' with
  | none =>
    obtain ⟨n, hn, hbad⟩ := (note_array_raises_iff M notes').mp h'
    have : noteArrayCols M notes = none := (note_array_raises_iff M notes).mpr ⟨n, hp.mem_iff.mpr hn, hbad⟩
    rw [h] at this; exact absurd this (by simp)
  | some rows' =>
    refine ⟨rows', rfl, ?_⟩
    obtain ⟨rows0, h0, _, hp0⟩ := noteArrayCols_some M notes rows h
    obtain ⟨rows0', h0', _, hp0'⟩ := noteArrayCols_some M notes' rows' h'
    have e1 : ∀ (l : List NoteIn) (rs : List ColRow), loopRows M l = some rs → rs = l.filterMap (mkColRow M) := by
      intro l
      induction l with
      | nil => intro rs hl; simp only [loopRows, Option.some.injEq] at hl; simp [← hl]
      | cons n rest ih =>
        intro rs hl
        obtain ⟨r, rs', h1, h2, rfl⟩ := loopRows_cons M n rest rs hl
        rw [List.filterMap_cons, h1, ← ih rs' h2]
    rw [e1 notes rows0 h0] at hp0
    rw [e1 notes' rows0' h0'] at hp0'
    exact hp0.trans ((hp.filterMap _).trans hp0'.symm)

example : noteArrayCols ⟨some fun t => some (if t < 8 then (2, 1) else (-3, -1)), none, none⟩
      [⟨0, 12, 48⟩, ⟨1, 0, 72⟩, ⟨2, 12, 40⟩, ⟨3, 4, 60⟩]
    = some [⟨1, 0, 72, some (2, 1), none, none⟩, ⟨3, 4, 60, some (2, 1), none, none⟩,
            ⟨2, 12, 40, some (-3, -1), none, none⟩, ⟨0, 12, 48, some (-3, -1), none, none⟩] := by decide

/-! ### the entry points on a part: the columns are what is in force at the row's onset -/

/-- **`note_columns_absent`**: a flag that is off leaves no cells (the map is not even built) -/
theorem note_columns_absent (p : PartD) (kss : List (Int × Int × Mode)) (fl : NAFlags) (notes : List NoteIn)
    (rows : List ColRow) (h : noteArrayOfPart p kss fl notes = some rows) (r : ColRow) (hr : r ∈ rows) :
    (fl.ks = false → r.ks = none) ∧ (fl.ts = false → r.ts = none) ∧ (fl.mp = false → r.mp = none) := by
  obtain ⟨_, h'⟩ := noteArrayOfPart_some p kss fl notes rows h
  obtain ⟨_, hks, _, hts, _, hmp⟩ := columns_agree_with_maps _ notes rows h' r hr
  refine ⟨fun hf => hks (by simp [hf]), fun hf => hts (by simp [hf]), fun hf => hmp (by simp [hf])⟩

/-- **`note_ks_column_in_force`**: with `include_key_signature`, the cells `(ks_fifths, ks_mode)` of every row on
    the timeline are those of the key signature in force at the row's onset, of the first key signature for an
    onset before it, and `(0, 1)` (C major) when the part has none -/
theorem note_ks_column_in_force (p : PartD) (kss : List (Int × Int × Mode)) (fl : NAFlags) (notes : List NoteIn)
    (rows : List ColRow) (h : noteArrayOfPart p kss fl notes = some rows) (hfl : fl.ks = true)
    (f l : Int) (hsp : p.span = some (f, l)) (hs : SortedLT kss) (r : ColRow) (hr : r ∈ rows) (hx : f ≤ r.onset) :
    (kss = [] → r.ks = some (0, 1)) ∧
    (∀ e, InForce kss r.onset e → r.ks = some (e.2.1, keyModeToInt e.2.2)) ∧
    (∀ e rest, kss = e :: rest → r.onset < e.1 → r.ks = some (e.2.1, keyModeToInt e.2.2)) := by
  obtain ⟨_, h'⟩ := noteArrayOfPart_some p kss fl notes rows h
  obtain ⟨hks, _⟩ := columns_agree_with_maps _ notes rows h' r hr
  have hk := hks (ksMap p.span kss) (by simp [hfl])
  rw [hsp] at hk
  obtain ⟨s1, s2, s3⟩ := ks_spec f l r.onset hx kss hs
  exact ⟨fun he => by rw [← hk]; exact s1 he, fun e he => by rw [← hk]; exact s2 e he,
         fun e rest he hlt => by rw [← hk]; exact s3 e rest he hlt⟩

/-- **`note_ts_column_in_force`**: with `include_time_signature`, `(ts_beats, ts_beat_type, ts_mus_beats)` of every
    row are beats, beat type and the STORED musical beats of the time signature in force at the row's onset, of
    the first one before it, and `(4, 4, 4)` when the part has none -/
theorem note_ts_column_in_force (p : PartD) (kss : List (Int × Int × Mode)) (fl : NAFlags) (notes : List NoteIn)
    (rows : List ColRow) (h : noteArrayOfPart p kss fl notes = some rows) (hfl : fl.ts = true)
    (f l : Int) (hsp : p.span = some (f, l)) (hs : SortedLT (tsTbl p.ts)) (r : ColRow) (hr : r ∈ rows)
    (hx : f ≤ r.onset) :
    (p.ts = [] → r.ts = some (4, 4, 4)) ∧
    (∀ e, InForce (tsTbl p.ts) r.onset e → r.ts = some ((e.2.beats : Int), (e.2.beatType : Int), (e.2.mb : Int))) ∧
    (∀ s rest, p.ts = s :: rest → r.onset < s.t →
      r.ts = some ((s.beats : Int), (s.beatType : Int), (s.mb : Int))) := by
  obtain ⟨_, h'⟩ := noteArrayOfPart_some p kss fl notes rows h
  obtain ⟨_, _, hts, _⟩ := columns_agree_with_maps _ notes rows h' r hr
  have hk := hts (tsMapE p.span p.ts) (by simp [hfl])
  rw [hsp] at hk
  obtain ⟨s1, s2, s3⟩ := ts_spec_stored f l r.onset hx p.ts hs
  refine ⟨fun he => ?_, fun e he => ?_, fun s rest he hlt => ?_⟩
  · rw [← hk, s1 he]; rfl
  · rw [← hk, s2 e he]; rfl
  · rw [← hk, s3 s rest he hlt]; rfl

/-- **`note_metrical_columns`**: with `include_metrical_position`, for measures that tile, a row whose onset lies in
    measure `i = (s, e)` has `rel_onset_div = onset − s'`, `tot_measure_div = e − s'` and `is_downbeat = 1` exactly
    when the onset is `s'`, where `s'` is the pickup-corrected start for the first measure and `s` otherwise -/
theorem note_metrical_columns (p : PartD) (kss : List (Int × Int × Mode)) (fl : NAFlags) (notes : List NoteIn)
    (rows : List ColRow) (h : noteArrayOfPart p kss fl notes = some rows) (hfl : fl.mp = true)
    (ht : Tiles (bars p)) (r : ColRow) (hr : r ∈ rows) (i : Nat) (s e : Int) (hi : (bars p)[i]? = some (s, e))
    (hs : s ≤ r.onset) (he : r.onset < e) :
    r.mp = some (downbeat (r.onset - (if i = 0 then pickupStart s e (beatsPerBar p) (divsPerBeat p) else s)),
                 r.onset - (if i = 0 then pickupStart s e (beatsPerBar p) (divsPerBeat p) else s),
                 some (e - (if i = 0 then pickupStart s e (beatsPerBar p) (divsPerBeat p) else s))) := by
  obtain ⟨hrz, h'⟩ := noteArrayOfPart_some p kss fl notes rows h
  obtain ⟨_, _, _, _, hmp, _⟩ := columns_agree_with_maps _ notes rows h' r hr
  have hk := hmp (metricalMapP p) (by simp [hfl])
  rw [metrical_spec_composed p r.onset (hrz hfl) ht i s e hi hs he] at hk
  rw [← hk]; rfl

/-- `is_downbeat` marks exactly the onset at the (corrected) start of the measure -/
theorem downbeat_iff (x s' : Int) : downbeat (x - s') = 1 ↔ x = s' := by
  unfold downbeat
  by_cases h : x - s' = 0
  · simp only [h, if_true, true_iff]; omega
  · simp only [h, if_false]
    constructor
    · intro h1; exact absurd h1 (by decide)
    · intro h1; omega

/-- **`note_array_total`**: for notes on the timeline of a part whose measures are in time order without overlap
    (and whose measure maps do not raise, when the metrical columns are requested) the array is always built -/
theorem note_array_total (p : PartD) (kss : List (Int × Int × Mode)) (fl : NAFlags) (notes : List NoteIn)
    (f l : Int) (hsp : p.span = some (f, l)) (hon : ∀ n ∈ notes, f ≤ n.onset)
    (hr : fl.mp = true → raisesP p = false) (ht : fl.mp = true → Ordered (bars p)) :
    ∃ rows, noteArrayOfPart p kss fl notes = some rows := by
  cases h : noteArrayOfPart p kss fl notes with
  | some rows => exact ⟨rows, rfl⟩
  | none =>
    exfalso
    unfold noteArrayOfPart partMaps at h
    have hc : ¬ (fl.mp && raisesP p) = true := by
      intro hc
      simp only [Bool.and_eq_true] at hc
      rw [hr hc.1] at hc
      exact absurd hc.2 (by simp)
    rw [if_neg hc] at h
    simp only [Option.bind_some] at h
    obtain ⟨n, hn, hbad⟩ := (note_array_raises_iff _ notes).mp h
    have hx := hon n hn
    rcases hbad with ⟨g, hg, hv⟩ | ⟨g, hg, hv⟩ | ⟨g, hg, hv⟩
    · by_cases hk : fl.ks = true
      · simp only [hk, if_true, Option.some.injEq] at hg
        subst hg
        rw [hsp] at hv
        have := ksMap_isSome f l n.onset hx kss
        rw [hv] at this; exact absurd this (by simp)
      · simp [hk] at hg
    · by_cases hk : fl.ts = true
      · simp only [hk, if_true, Option.some.injEq] at hg
        subst hg
        rw [hsp] at hv
        have := tsMapE_isSome f l n.onset hx p.ts
        rw [hv] at this; exact absurd this (by simp)
      · simp [hk] at hg
    · by_cases hk : fl.mp = true
      · simp only [hk, if_true, Option.some.injEq] at hg
        subst hg
        unfold metricalMapP measureTableP metricalFromTable at hv
        rw [hr hk, barLookupsTbl_tiles _ _ _ _ (ht hk)] at hv
        simp only [Bool.false_eq_true, if_false] at hv
        unfold metricalOfBars at hv
        cases hl : (corrected (bars p) (beatsPerBar p) (divsPerBeat p)).getLast? with
        | none => rw [hl] at hv; simp at hv
        | some last =>
          rw [hl] at hv
          simp only at hv
          have hne : (corrected (bars p) (beatsPerBar p) (divsPerBeat p)) ≠ [] := by
            intro h0; rw [h0] at hl; simp at hl
          have hsome := lookupPrev_isSome
            ((corrected (bars p) (beatsPerBar p) (divsPerBeat p)).map (·.1) |>.map fun s => (s, s)) n.onset
            (by simpa using hne)
          cases hq : lookupPrev ((corrected (bars p) (beatsPerBar p) (divsPerBeat p)).map (·.1) |>.map fun s => (s, s))
              n.onset with
          | none => rw [hq] at hsome; exact absurd hsome (by simp)
          | some b => rw [hq] at hv; simp at hv
      · simp [hk] at hg

/-! ### rests -/

/-- **`rest_rows`**: `rest_array_from_rest_list` is the same loop with the pitch cell 0: every row carries the maps
    at its own onset, one row per rest, sorted by onset -/
theorem rest_rows (M : NoteMaps) (rests : List NoteIn) (rows : List ColRow)
    (h : restArrayCols M rests = some rows) :
    (∀ r ∈ rows, r.pitch = 0 ∧ mkColRow M r.note = some r) ∧
    (rows.map fun r => (r.idx, r.onset)).Perm (rests.map fun n => (n.idx, n.onset)) ∧
    rows.Pairwise (fun a b => a.onset ≤ b.onset) := by
  unfold restArrayCols at h
  refine ⟨?_, ?_, ?_⟩
  · intro r hr
    obtain ⟨hmem, hm⟩ := row_at_own_onset M _ rows h r hr
    obtain ⟨n, _, hn⟩ := List.mem_map.mp hmem
    have : r.pitch = 0 := by
      have := congrArg NoteIn.pitch hn
      simpa [ColRow.note] using this.symm
    exact ⟨this, hm⟩
  · have := (rows_perm_input M _ rows h).map fun n : NoteIn => (n.idx, n.onset)
    simpa [List.map_map, Function.comp_def, ColRow.note] using this
  · exact (rows_sorted M _ rows h).imp fun hab => by rcases hab with h1 | ⟨h1, _⟩ <;> omega

/-! ### non-vacuity: a part with a key change, a metre change and a pickup; the notes handed in by pitch -/

def exNotesPart : PartD :=
  { npoints := 5, span := some (0, 52), qd := [(0, 4)], ts := [⟨0, 6, 8, 2⟩, ⟨28, 3, 4, 3⟩], musical := false,
    ms := [(0, 4, some 0), (4, 28, some 1), (28, 40, some 2), (40, 52, some 3)] }

example : noteArrayOfPart exNotesPart [(0, 2, .major), (28, -1, .minor)] ⟨true, true, true⟩
      [⟨0, 30, 36⟩, ⟨1, 2, 60⟩, ⟨2, 28, 62⟩, ⟨3, 4, 64⟩]
    = some [⟨1, 2, 60, some (2, 1), some (6, 8, 2), some (0, 10, some 12)⟩,
            ⟨3, 4, 64, some (2, 1), some (6, 8, 2), some (1, 0, some 24)⟩,
            ⟨2, 28, 62, some (-1, -1), some (3, 4, 3), some (1, 0, some 12)⟩,
            ⟨0, 30, 36, some (-1, -1), some (3, 4, 3), some (0, 2, some 12)⟩] := by decide +kernel

example : raisesP exNotesPart = false ∧ Tiles (bars exNotesPart) ∧ SortedLT (tsTbl exNotesPart.ts)
    ∧ SortedLT [((0 : Int), ((2 : Int), Mode.major)), (28, (-1, Mode.minor))] := by
  refine ⟨by decide, by simp [Tiles, bars, exNotesPart], by simp [SortedLT, tsTbl, exNotesPart],
          by simp [SortedLT]⟩

end C10
