/-
C03 — the voice numbers of a re-exported score: `remove_voice_polyphony` is stable.  Part of "loading a file written by
partitura and saving it again reproduces that file": the exporter moves notes that MusicXML cannot hold in their voice to
free voices; the loaded score carries the voices written, and the second export must leave them where they are.
-/
import PartituraModel.Proofs.C03Stable

namespace C03
open Model.Xml C03.Voices C03.Stable

/-- **voices_stable.**  For every list of notes of a segment (distinct identities; any voices, durations, chords of unequal
    length, notes running past later onsets, grace notes): every voice `remove_voice_polyphony` produces — old or new —
    is one that MusicXML can hold (`Monophonic`: one duration per onset, no note past the next onset); therefore
    `remove_voice_polyphony_single`, run on ANY notes whose onset, duration and grace flag are those of notes of such a
    voice (the voice as it is loaded back: other order, other objects), finds no note to move and leaves `voice_spans` and
    `extraneous` as they are; and the loop over all voices produced returns them unchanged. -/
theorem voices_stable (notes : List NoteIn) (hnd : (notes.map (·.idx)).Nodup) :
    (∀ vn ∈ assignVoices notes, Monophonic vn.2) ∧
    (∀ vn ∈ assignVoices notes, ∀ ns' : List NoteIn,
      (∀ n ∈ ns', ∃ m ∈ vn.2, n.onset = m.onset ∧ n.dur = m.dur ∧ n.grace = m.grace) →
      ∀ spans ex, removeSingle ns' spans ex = (ns', spans, ex)) ∧
    (∀ spans ex, removeLoop spans ex (assignVoices notes) = (assignVoices notes, spans, ex)) := by
  have hm := assignVoices_monophonic notes hnd
  exact ⟨hm, fun vn hvn ns' hsub spans ex => removeSingle_stable ns' (monophonic_of_timing vn.2 ns' (hm vn hvn) hsub) spans ex,
    fun spans ex => removeLoop_stable _ hm spans ex⟩

/-- **second_export_moves_nothing.**  A segment all of whose voices MusicXML can hold goes through
    `remove_voice_polyphony` unchanged: the voices are the ones the notes carry, none is added. -/
theorem second_export_moves_nothing (notes : List NoteIn) (h : ∀ vn ∈ partitionVoices notes, Monophonic vn.2) :
    assignVoices notes = partitionVoices notes := by
  unfold assignVoices
  simp only [removeLoop_stable _ h, List.append_nil]

/-- a chord {quarter, dotted half} in voice 1 and a half note in voice 2 on the same beat: the long chord member moves to
    voice 3 … -/
example : (assignVoices [
    { idx := 0, onset := 0, dur := 4, grace := false, voice := 1, staff := 1, pitch := 76, step := [69], gracePrev := false, seq := [] },
    { idx := 1, onset := 0, dur := 12, grace := false, voice := 1, staff := 1, pitch := 72, step := [67], gracePrev := false, seq := [] },
    { idx := 2, onset := 0, dur := 8, grace := false, voice := 2, staff := 2, pitch := 48, step := [67], gracePrev := false, seq := [] }]).map
      (fun vn => (vn.1, vn.2.map (·.idx))) = [(1, [0]), (2, [2]), (3, [1])] := by decide

/-- … and the score loaded from that file (the notes with the voices written) is left alone -/
example : (assignVoices [
    { idx := 0, onset := 0, dur := 4, grace := false, voice := 1, staff := 1, pitch := 76, step := [69], gracePrev := false, seq := [] },
    { idx := 2, onset := 0, dur := 8, grace := false, voice := 2, staff := 2, pitch := 48, step := [67], gracePrev := false, seq := [] },
    { idx := 1, onset := 0, dur := 12, grace := false, voice := 3, staff := 1, pitch := 72, step := [67], gracePrev := false, seq := [] }]).map
      (fun vn => (vn.1, vn.2.map (·.idx))) = [(1, [0]), (2, [2]), (3, [1])] := by decide

/-- the hypothesis of `second_export_moves_nothing` is needed: a voice with a chord of unequal durations is split -/
example : ¬ Monophonic [
    { idx := 0, onset := 0, dur := 4, grace := false, voice := 1, staff := 1, pitch := 76, step := [69], gracePrev := false, seq := [] },
    { idx := 1, onset := 0, dur := 12, grace := false, voice := 1, staff := 1, pitch := 72, step := [67], gracePrev := false, seq := [] }] := by
  intro h
  have := h.1 _ (List.mem_cons_self ..) _ (List.mem_cons_of_mem _ (List.mem_cons_self ..)) rfl rfl rfl
  simp at this

end C03
