/-
C02 (round 2) — edit / query histories.

The maps are rebuilt from the state of the part on every access; a query changes nothing
(`history_fresh`: the part after a history with warm-up queries is the part after its edits alone, so are
all five maps).  Every part reachable through the API from `Part(quarter_duration=q0)` by valid edits is
well formed (`built_part_wf` — the side condition `WF` of all C02 theorems is thereby discharged for real
parts as soon as they have two time points), its quarter list is strictly increasing and starts at time 0
(`built_qd`), so its first key point is time 0 (`built_first_key_zero`) and its zero lies at time 0 without a
pickup (`built_zero_plain`).
-/
import PartituraModel.Props.C02Origin
import PartituraModel.Props.C02Musical
import PartituraModel.Proofs.C02Hist
import PartituraModel.Proofs.C02QDLaw

namespace C02
open Model.TimeMap C02Proofs

/-! ### queries -/

theorem query_no_effect (s : HState) : hstep s .query = s := rfl

/-- **a history with queries leaves the state its edits alone leave** -/
theorem history_fresh (q0 : Nat) (h : List HOp) : hrun q0 h = hrun q0 (h.filter HOp.isEdit) := by
  unfold hrun
  generalize hinit q0 = s
  induction h generalizing s with
  | nil => rfl
  | cons op rest ih =>
    cases op with
    | query => simp only [List.foldl_cons, hstep, List.filter, HOp.isEdit]; exact ih s
    | setQD t q => simp only [List.foldl_cons, List.filter, HOp.isEdit]; exact ih _
    | beat o => simp only [List.foldl_cons, List.filter, HOp.isEdit]; exact ih _
    | measure a e => simp only [List.foldl_cons, List.filter, HOp.isEdit]; exact ih _
    | span a e => simp only [List.foldl_cons, List.filter, HOp.isEdit]; exact ih _

/-- hence all five maps after an (edit, query, edit, …) history are those of a part built from the edits in
one go: nothing is cached -/
theorem maps_after_queries (q0 : Nat) (h : List HOp) (m : Mode) (x : Rat) :
    fwd (buildPart q0 h) m x = fwd (buildPart q0 (h.filter HOp.isEdit)) m x ∧
    inv (buildPart q0 h) m x = inv (buildPart q0 (h.filter HOp.isEdit)) m x ∧
    qdMap (buildPart q0 h).qd x = qdMap (buildPart q0 (h.filter HOp.isEdit)).qd x := by
  unfold buildPart
  rw [← history_fresh]
  exact ⟨rfl, rfl, rfl⟩

example : buildPart 4 [.setQD 10 6, .query, .beat (.addTS 0 6 8), .measure 0 4, .query, .span 0 60, .query] =
    buildPart 4 [.setQD 10 6, .beat (.addTS 0 6 8), .measure 0 4, .span 0 60] := by
  unfold buildPart; rw [history_fresh]; rfl

/-! ### set_quarter_duration -/

/-- **`set_quarter_duration(t, q)` changes `quarter_duration_map` exactly on `[t, next change)`**: there the
new value `q` is in force, everywhere else (from the first entry on) the map is what it was — also when the
call is redundant and the lists are left alone, when an entry at `t` is replaced, and when `t` lies after the
last entry. -/
theorem setQD_law (h0 : Int) (a : Nat) (r : List (Int × Nat)) (t : Int) (q : Nat)
    (hs : (((h0, a) :: r).map (·.1)).Pairwise (· < ·)) (ht : h0 ≤ t) (x : Rat) (hx : (h0 : Rat) ≤ x) :
    qdMap (setQD ((h0, a) :: r) t q) x =
      if (t : Rat) ≤ x ∧ (∀ e ∈ (h0, a) :: r, t < e.1 → x < (e.1 : Rat)) then some q else qdMap ((h0, a) :: r) x := by
  have hp' := List.pairwise_cons.mp (by simpa using hs : (h0 :: r.map (·.1)).Pairwise (· < ·))
  have hgt : ∀ e ∈ r, h0 < e.1 := fun e he => hp'.1 e.1 (List.mem_map.mpr ⟨e, he, rfl⟩)
  unfold setQD setQDAux
  by_cases h1 : h0 < t
  · rw [if_pos h1]
    simp only [qdMap]
    rw [setQDAux_law t q x r a hp'.2]
    have : (∀ e ∈ (h0, a) :: r, t < e.1 → x < (e.1 : Rat)) ↔ (∀ e ∈ r, t < e.1 → x < (e.1 : Rat)) := by
      constructor
      · intro h e he; exact h e (List.mem_cons_of_mem _ he)
      · intro h e he
        rcases List.mem_cons.mp he with he | he
        · intro hlt; rw [he] at hlt; simp only at hlt; omega
        · exact h e he
    simp only [this]
    split_ifs <;> rfl
  · have h2 : h0 = t := by omega
    subst h2
    rw [if_neg h1, if_pos rfl]
    simp only [qdMap]
    by_cases hall : ∀ e ∈ r, x < (e.1 : Rat)
    · have hc : (h0 : Rat) ≤ x ∧ (∀ e ∈ (h0, a) :: r, h0 < e.1 → x < (e.1 : Rat)) := by
        refine ⟨hx, ?_⟩
        intro e he hlt
        rcases List.mem_cons.mp he with he | he
        · rw [he] at hlt; simp at hlt
        · exact hall e he
      rw [if_pos hc, prevValue_before q x r hall]
    · have hc : ¬ ((h0 : Rat) ≤ x ∧ (∀ e ∈ (h0, a) :: r, h0 < e.1 → x < (e.1 : Rat))) := by
        intro h
        exact hall (fun e he => h.2 e (List.mem_cons_of_mem _ he) (hgt e he))
      rw [if_neg hc]
      congr 1
      apply prevValue_indep q a x r hp'.2
      by_contra hne
      apply hall
      intro e he
      by_contra hnl
      exact hne ⟨e, he, not_lt.mp hnl⟩

example : setQD [(0, 4), (10, 6), (70, 3)] 20 6 = [(0, 4), (10, 6), (70, 3)] ∧
    setQD [(0, 4), (10, 6), (70, 3)] 20 5 = [(0, 4), (10, 6), (20, 5), (70, 3)] ∧
    setQD [(0, 4), (10, 6), (70, 3)] 10 4 = [(0, 4), (10, 4), (70, 3)] ∧
    setQD [(0, 4), (10, 6), (70, 3)] 90 3 = [(0, 4), (10, 6), (70, 3)] ∧
    qdMap (setQD [(0, 4), (10, 6), (70, 3)] 20 5) 69 = some 5 ∧ qdMap (setQD [(0, 4), (10, 6), (70, 3)] 20 5) 70 = some 3 := by
  decide +kernel

/-! ### every part built through the API is well formed -/

/-- what the API accepts / what the property quantifies over: non-negative times, positive divisions,
positive signature numbers, positive musical beats in the tables -/
def ValidOp : HOp → Prop
  | .setQD t q => 0 ≤ t ∧ 0 < q
  | .beat (.addTS t b bt) => 0 ≤ t ∧ 0 < b ∧ 0 < bt
  | .beat (.setMB tbl) => ∀ e ∈ tbl, 0 < e.2
  | .beat (.useMusical tbl) => ∀ e ∈ tbl, 0 < e.2
  | .beat .useNotated => True
  | .measure a e => 0 ≤ a ∧ 0 ≤ e
  | .span a e => 0 ≤ a ∧ 0 ≤ e
  | .query => True

structure Inv (s : HState) : Prop where
  qd_head : ∃ a r, s.qd = (0, a) :: r
  qd_sorted : (s.qd.map (·.1)).Pairwise (· < ·)
  qd_pos : ∀ e ∈ s.qd, 0 < e.2
  qd_nonneg : ∀ e ∈ s.qd, 0 ≤ e.1
  times_sorted : s.times.Pairwise (· < ·)
  times_nonneg : ∀ t ∈ s.times, 0 ≤ t
  ts_ok : ∀ x ∈ s.beat.ts, 0 < x.beats ∧ 0 < x.beatType ∧ 0 < x.mb ∧ x.t ∈ s.times

theorem defaultMB_pos (b : Nat) (h : 0 < b) : 0 < defaultMB b := by
  rw [defaultMB_values.2 b]
  split_ifs <;> omega

theorem assignMB_pos (tbl : List ((Nat × Nat) × Nat)) (hv : ∀ e ∈ tbl, 0 < e.2) (x : TSig) (hb : 0 < x.beats) :
    0 < (assignMB tbl x).mb := by
  rw [(assignMB_spec tbl x).2.2.2]
  cases hu : userMB tbl x.beats x.beatType with
  | none => simpa using defaultMB_pos _ hb
  | some v => simpa using hv _ ((userMB_spec tbl x.beats x.beatType).1 v hu)

theorem inv_init (q0 : Nat) (h : 0 < q0) : Inv (hinit q0) where
  qd_head := ⟨q0, [], rfl⟩
  qd_sorted := by simp [hinit]
  qd_pos := by intro e he; simp only [hinit, List.mem_singleton] at he; rw [he]; exact h
  qd_nonneg := by intro e he; simp only [hinit, List.mem_singleton] at he; rw [he]
  times_sorted := by simp [hinit]
  times_nonneg := by intro t ht; simp [hinit] at ht
  ts_ok := by intro x hx; simp [hinit] at hx

theorem inv_map_assign (s : HState) (hi : Inv s) (tbl : List ((Nat × Nat) × Nat)) (hv : ∀ e ∈ tbl, 0 < e.2) :
    ∀ x ∈ s.beat.ts.map (assignMB tbl), 0 < x.beats ∧ 0 < x.beatType ∧ 0 < x.mb ∧ x.t ∈ s.times := by
  intro x hx
  obtain ⟨x0, h0, rfl⟩ := List.mem_map.mp hx
  obtain ⟨h1, h2, _, h4⟩ := hi.ts_ok x0 h0
  obtain ⟨e1, e2, e3, _⟩ := assignMB_spec tbl x0
  rw [e1, e2, e3]
  exact ⟨h1, h2, assignMB_pos tbl hv x0 h1, h4⟩

/-- **the invariant is kept by every valid step** -/
theorem inv_step (s : HState) (op : HOp) (hi : Inv s) (hv : ValidOp op) : Inv (hstep s op) := by
  cases op with
  | query => exact hi
  | setQD t q =>
    obtain ⟨a, r, hq⟩ := hi.qd_head
    have hmem : ∀ e ∈ setQD s.qd t q, e = (t, q) ∨ e ∈ s.qd := fun e he => setQDAux_mem t q s.qd none e he
    exact {
      qd_head := by simp only [hstep]; rw [hq]; exact setQD_head a r t q hv.1
      qd_sorted := setQDAux_pairwise t q s.qd none hi.qd_sorted
      qd_pos := by
        intro e he
        rcases hmem e he with h | h
        · rw [h]; exact hv.2
        · exact hi.qd_pos e h
      qd_nonneg := by
        intro e he
        rcases hmem e he with h | h
        · rw [h]; exact hv.1
        · exact hi.qd_nonneg e h
      times_sorted := hi.times_sorted
      times_nonneg := hi.times_nonneg
      ts_ok := hi.ts_ok }
  | measure a e =>
    exact { hi with
      times_sorted := pairwise_insertKey _ _ (pairwise_insertKey _ _ hi.times_sorted)
      times_nonneg := by
        intro t ht
        simp only [hstep, mem_insertKey] at ht
        rcases ht with h | h | h
        · rw [h]; exact hv.1
        · rw [h]; exact hv.2
        · exact hi.times_nonneg t h
      ts_ok := by
        intro x hx
        obtain ⟨h1, h2, h3, h4⟩ := hi.ts_ok x hx
        exact ⟨h1, h2, h3, by simp only [hstep, mem_insertKey]; exact Or.inr (Or.inr h4)⟩ }
  | span a e =>
    exact { hi with
      times_sorted := pairwise_insertKey _ _ (pairwise_insertKey _ _ hi.times_sorted)
      times_nonneg := by
        intro t ht
        simp only [hstep, mem_insertKey] at ht
        rcases ht with h | h | h
        · rw [h]; exact hv.1
        · rw [h]; exact hv.2
        · exact hi.times_nonneg t h
      ts_ok := by
        intro x hx
        obtain ⟨h1, h2, h3, h4⟩ := hi.ts_ok x hx
        exact ⟨h1, h2, h3, by simp only [hstep, mem_insertKey]; exact Or.inr (Or.inr h4)⟩ }
  | beat o =>
    cases o with
    | addTS t b bt =>
      exact { hi with
        times_sorted := pairwise_insertKey _ _ hi.times_sorted
        times_nonneg := by
          intro u hu
          simp only [hstep, mem_insertKey] at hu
          rcases hu with h | h
          · rw [h]; exact hv.1
          · exact hi.times_nonneg u h
        ts_ok := by
          intro x hx
          simp only [hstep, step, List.mem_append, List.mem_singleton] at hx
          rcases hx with hx | hx
          · obtain ⟨h1, h2, h3, h4⟩ := hi.ts_ok x hx
            exact ⟨h1, h2, h3, by simp only [hstep, mem_insertKey]; exact Or.inr h4⟩
          · rw [hx]
            exact ⟨hv.2.1, hv.2.2, defaultMB_pos b hv.2.1, by simp [hstep, mem_insertKey]⟩ }
    | setMB tbl =>
      exact { hi with ts_ok := by simp only [hstep, step]; exact inv_map_assign s hi tbl hv }
    | useMusical tbl =>
      exact { hi with
        ts_ok := by
          simp only [hstep, step]
          split_ifs
          · exact hi.ts_ok
          · exact hi.ts_ok
          · exact inv_map_assign s hi tbl hv }
    | useNotated =>
      exact { hi with
        ts_ok := by
          simp only [hstep, step]
          split_ifs
          · exact inv_map_assign s hi [] (by simp)
          · exact hi.ts_ok }

/-- **every state reachable by a valid history satisfies the invariant** (induction over the history) -/
theorem inv_reachable (q0 : Nat) (hq : 0 < q0) (h : List HOp) (hv : ∀ op ∈ h, ValidOp op) : Inv (hrun q0 h) := by
  unfold hrun
  have h0 := inv_init q0 hq
  generalize hinit q0 = s at h0
  induction h generalizing s with
  | nil => exact h0
  | cons op rest ih =>
    simp only [List.foldl_cons]
    exact ih (fun o ho => hv o (List.mem_cons_of_mem _ ho)) _ (inv_step s op h0 (hv op List.mem_cons_self))

/-- the quarter lists of a reachable part: first entry at time 0, strictly increasing times — the
hypothesis of `qdMap_inforce` / `qdMap_at_change` — and positive values -/
theorem built_qd (q0 : Nat) (hq : 0 < q0) (h : List HOp) (hv : ∀ op ∈ h, ValidOp op) :
    (∃ a r, (buildPart q0 h).qd = (0, a) :: r) ∧ ((buildPart q0 h).qd.map (·.1)).Pairwise (· < ·) ∧
    ∀ e ∈ (buildPart q0 h).qd, 0 < e.2 := by
  have hi := inv_reachable q0 hq h hv
  exact ⟨hi.qd_head, hi.qd_sorted, hi.qd_pos⟩

/-- `first_point` / `last_point`: the earliest and the latest time of any object added -/
theorem built_first_last (q0 : Nat) (hq : 0 < q0) (h : List HOp) (hv : ∀ op ∈ h, ValidOp op)
    (hne : (hrun q0 h).times ≠ []) :
    (buildPart q0 h).first ∈ (hrun q0 h).times ∧ (buildPart q0 h).last ∈ (hrun q0 h).times ∧
    ∀ t ∈ (hrun q0 h).times, (buildPart q0 h).first ≤ t ∧ t ≤ (buildPart q0 h).last := by
  have hi := inv_reachable q0 hq h hv
  unfold buildPart HState.toPart
  cases ht : (hrun q0 h).times with
  | nil => exact absurd ht hne
  | cons a as =>
    simp only
    have hp := hi.times_sorted
    rw [ht] at hp
    refine ⟨List.mem_cons_self, lastOf_mem _ (by simp), ?_⟩
    intro t htm
    exact ⟨head_le_of_pairwise (a :: as) a hp rfl t htm, le_lastOf _ hp t htm⟩

/-- **Every part reachable through the API with two or more time points satisfies `WF`** in every mode:
all theorems of C02 apply to it without further hypotheses. -/
theorem built_part_wf (q0 : Nat) (hq : 0 < q0) (h : List HOp) (hv : ∀ op ∈ h, ValidOp op) (m : Mode)
    (h2 : 2 ≤ (buildPart q0 h).npoints) : WF (buildPart q0 h) m := by
  have hi := inv_reachable q0 hq h hv
  refine ⟨h2, ?_, hi.qd_pos, ?_⟩
  · unfold buildPart HState.toPart at h2 ⊢
    simp only at h2 ⊢
    have hp := hi.times_sorted
    cases ht : (hrun q0 h).times with
    | nil => rw [ht] at h2; simp at h2
    | cons a as =>
      cases as with
      | nil => rw [ht] at h2; simp at h2
      | cons b rest =>
        rw [ht] at hp
        exact head_lt_lastOf a b rest hp
  · intro _ x hx
    have hx' : x ∈ (hrun q0 h).beat.ts := (mem_sortTS x _).mp hx
    obtain ⟨h1, h2', h3, _⟩ := hi.ts_ok x hx'
    exact ⟨h1, h2', fun _ => h3⟩

/-- **The first key point of every reachable part is time 0.** -/
theorem built_first_key_zero (q0 : Nat) (hq : 0 < q0) (h : List HOp) (hv : ∀ op ∈ h, ValidOp op) (m : Mode) :
    (keyTimes (buildPart q0 h) m).head? = some 0 := by
  have hi := inv_reachable q0 hq h hv
  obtain ⟨a, r, hqd⟩ := hi.qd_head
  have hfl : 0 ≤ (buildPart q0 h).first ∧ (buildPart q0 h).first ≤ (buildPart q0 h).last := by
    by_cases hne : (hrun q0 h).times = []
    · unfold buildPart HState.toPart; simp [hne, lastOf]
    · obtain ⟨h1, h2, h3⟩ := built_first_last q0 hq h hv hne
      exact ⟨hi.times_nonneg _ h1, (h3 _ h2).1⟩
  refine first_key_zero (buildPart q0 h) m a ?_ hfl.1 hfl.2 hi.qd_nonneg ?_
  · show (0, a) ∈ (hrun q0 h).qd
    rw [hqd]; exact List.mem_cons_self
  · intro x hx
    have hx' : x ∈ (hrun q0 h).beat.ts := (mem_sortTS x _).mp hx
    exact hi.times_nonneg _ (hi.ts_ok x hx').2.2.2

/-- **Zero of every reachable part without a pickup lies at time 0 and nowhere else** — at the first time
point exactly when the part starts at time 0 (F-C02-1 for the others). -/
theorem built_zero_plain (q0 : Nat) (hq : 0 < q0) (h : List HOp) (hv : ∀ op ∈ h, ValidOp op) (m : Mode)
    (h2 : 2 ≤ (buildPart q0 h).npoints)
    (hno : pickupShift (buildPart q0 h) m (knots (keypoints (buildPart q0 h) m) 0) = 0) (z : Rat) :
    (fwd (buildPart q0 h) m z = some 0 ↔ z = 0) ∧
    (fwd (buildPart q0 h) m ((buildPart q0 h).first : Rat) = some 0 ↔ (buildPart q0 h).first = 0) := by
  have hw := built_part_wf q0 hq h hv m h2
  have hk := built_first_key_zero q0 hq h hv m
  refine ⟨by simpa using zero_plain _ m hw 0 hk hno z, ?_⟩
  rw [origin_zero_iff_plain _ m hw 0 hk hno]
  exact eq_comm

/-- **All reachable parts with the same quarter durations and signatures share the origin**: their maps
agree (up to the difference of the pickup shifts) wherever both are defined. -/
theorem built_common_origin (q1 q2 : Nat) (hq1 : 0 < q1) (hq2 : 0 < q2) (h1 h2 : List HOp)
    (hv1 : ∀ op ∈ h1, ValidOp op) (hv2 : ∀ op ∈ h2, ValidOp op) (m : Mode)
    (n1 : 2 ≤ (buildPart q1 h1).npoints) (n2 : 2 ≤ (buildPart q2 h2).npoints)
    (hqd : (buildPart q1 h1).qd = (buildPart q2 h2).qd) (hts : (buildPart q1 h1).ts = (buildPart q2 h2).ts)
    (x y1 y2 : Rat) (hy1 : fwd (buildPart q1 h1) m x = some y1) (hy2 : fwd (buildPart q2 h2) m x = some y2) :
    y1 + pickupShift (buildPart q1 h1) m (knots (keypoints (buildPart q1 h1) m) 0) =
    y2 + pickupShift (buildPart q2 h2) m (knots (keypoints (buildPart q2 h2) m) 0) :=
  origin_common_across_parts _ _ m (built_part_wf q1 hq1 h1 hv1 m n1) (built_part_wf q2 hq2 h2 hv2 m n2)
    hqd hts 0 (built_first_key_zero q1 hq1 h1 hv1 m) (built_first_key_zero q2 hq2 h2 hv2 m) x y1 y2 hy1 hy2

/-- non-vacuity: a valid history with queries; the part it builds; its late-starting sibling -/
def exHist : List HOp :=
  [.setQD 10 6, .query, .beat (.addTS 0 6 8), .measure 0 4, .query, .beat (.useMusical [((6, 8), 7)]),
   .setQD 10 6, .span 0 60, .setQD 70 3, .query]

example : (∀ op ∈ exHist, ValidOp op) ∧ (buildPart 4 exHist).npoints = 3 ∧
    (buildPart 4 exHist).qd = [(0, 4), (10, 6), (70, 3)] ∧ (buildPart 4 exHist).m1 = some (0, 4) ∧
    (buildPart 4 exHist).ts = [⟨0, 6, 8, 7⟩] ∧ (buildPart 4 exHist).musical = true := by
  refine ⟨?_, by decide, by decide, by decide, by decide, by decide⟩
  intro op hop
  simp only [exHist, List.mem_cons, List.mem_nil_iff, or_false] at hop
  rcases hop with h | h | h | h | h | h | h | h | h | h <;> subst h <;> simp [ValidOp]

end C02
