/-
C19 — how many sub-spines a **kern spine has after a row of spine-path indicators.

`importkern.parse_by_voice` keeps the number of columns (`voices`) of the spine it is cutting out of the file; the repaired
bookkeeping (fixes/C19-30) is `voices + (#cells "*^") - (#cells "*v" whose left neighbour is "*v")`.  The theorems state
that this is exactly what the denotational semantics (`Model.Kern.interpRow`: every `*^` doubles its column, every run of
adjacent `*v` of one spine becomes one column, `*-` ends a column) does — for every row, any number of splits and joins of
any length in the same row.
-/
import PartituraModel.Model.Kern

set_option linter.unusedSimpArgs false

namespace C19
open Model Model.Kern

/-- columns a row of interpretation cells leaves, by the semantics' rule (`prev`: the spine of the cell to the left if
    that cell was a `*v`) -/
def pathOut : List (Col × Nat) → List (List Char) → Option Nat → Nat
  | (c, _) :: cs, cell :: cells, prev =>
    if cell = "*^".toList then 2 + pathOut cs cells none
    else if cell = "*v".toList then (if prev = some c.main then 0 else 1) + pathOut cs cells (some c.main)
    else if cell = "*-".toList then pathOut cs cells none
    else 1 + pathOut cs cells none
  | _, _, _ => 0

/-- `kern_spine_paths`: whenever the semantics accepts an interpretation row, the columns after it are those before it,
    two for every `*^`, one for every run of adjacent `*v` cells of one spine, none for a `*-`, one for any other cell.
    (`acc`: the columns already produced, newest first; `joining`: the cell to the left was a `*v`.) -/
theorem kern_spine_paths (st : St) (cp : List (Col × Nat)) (row : List (List Char)) (acc : List Col) (joining : Bool)
    (st' : St) (cols' : List Col) (hj : joining = true → acc ≠ [])
    (h : interpRow st cp row acc joining = some (st', cols')) :
    cols'.length = acc.length + pathOut cp row (if joining then acc.head?.map (·.main) else none) := by
  induction cp generalizing st row acc joining with
  | nil =>
    cases row with
    | nil =>
      simp only [interpRow, Option.some.injEq, Prod.mk.injEq] at h
      rw [← h.2]
      simp [pathOut]
    | cons _ _ => simp [interpRow] at h
  | cons cpHead cs ih =>
    obtain ⟨c, p⟩ := cpHead
    cases row with
    | nil => simp [interpRow] at h
    | cons cell cells =>
      simp only [interpRow] at h
      by_cases h1 : cell = "*^".toList
      · simp only [eq_true h1, if_true] at h
        have := ih st cells (c :: c :: acc) false (by simp) h
        simp only [pathOut, eq_true h1, if_true]
        simp at this
        omega
      · simp only [eq_false h1, if_false] at h
        by_cases h2 : cell = "*v".toList
        · simp only [eq_true h2, if_true] at h
          simp only [pathOut, eq_false h1, eq_true h2, if_true, if_false]
          cases acc with
          | nil =>
            have hjf : joining = false := by
              cases joining with
              | false => rfl
              | true => exact absurd rfl (hj rfl)
            subst hjf
            have := ih st cells [c] true (by simp) h
            simp at this ⊢
            omega
          | cons a rest =>
            cases joining with
            | false =>
              have := ih st cells (c :: a :: rest) true (by simp) h
              simp at this ⊢
              omega
            | true =>
              simp only at h
              by_cases hm : a.main = c.main
              · simp only [hm, if_true] at h
                have := ih st cells (a :: rest) true (by simp) h
                simp [hm] at this ⊢
                omega
              · simp only [hm, if_false] at h
                have := ih st cells (c :: a :: rest) true (by simp) h
                simp [hm] at this ⊢
                omega
        · simp only [eq_false h2, if_false] at h
          by_cases h3 : cell = "*-".toList
          · simp only [eq_true h3, if_true] at h
            have := ih st cells acc false (by simp) h
            simp only [pathOut, eq_false h1, eq_false h2, eq_true h3, if_true, if_false]
            simp at this
            omega
          · simp only [eq_false h3, if_false] at h
            cases ht : tandem st c p cell with
            | none => simp [ht] at h
            | some r =>
              obtain ⟨st2, c2⟩ := r
              simp only [ht] at h
              have := ih st2 cells (c2 :: acc) false (by simp) h
              simp only [pathOut, eq_false h1, eq_false h2, eq_false h3, if_false]
              simp at this
              omega

/-- the count the repaired `parse_by_voice` keeps: cells, splits, cells `*v` whose left neighbour is a `*v`, ends -/
def countSplits (row : List (List Char)) : Nat := (row.filter (· = "*^".toList)).length
def countEnds (row : List (List Char)) : Nat := (row.filter (· = "*-".toList)).length
def countJoins : List (List Char) → Bool → Nat
  | [], _ => 0
  | cell :: cells, prevV =>
    (if cell = "*v".toList ∧ prevV = true then 1 else 0) + countJoins cells (decide (cell = "*v".toList))

/-- `kern_spine_width`: inside ONE spine (all columns of the row belong to the spine `m`) the semantics' rule is the
    importer's arithmetic: columns after = columns before + splits − joins − ends, where a join is a `*v` cell whose left
    neighbour is a `*v` cell — so `*v *v *v` takes away two columns, `*^ *^` adds two. -/
theorem kern_spine_width (m : Nat) (cp : List (Col × Nat)) (row : List (List Char)) (prevV : Bool)
    (hm : ∀ x ∈ cp, x.1.main = m) (hlen : cp.length = row.length) :
    pathOut cp row (if prevV then some m else none) + countJoins row prevV + countEnds row
      = row.length + countSplits row := by
  induction cp generalizing row prevV with
  | nil =>
    cases row with
    | nil => simp [pathOut, countJoins, countEnds, countSplits]
    | cons _ _ => simp at hlen
  | cons x cs ih =>
    obtain ⟨c, p⟩ := x
    cases row with
    | nil => simp at hlen
    | cons cell cells =>
      have hc : c.main = m := hm (c, p) (by simp)
      have hm' : ∀ x ∈ cs, x.1.main = m := fun x hx => hm x (List.mem_cons_of_mem _ hx)
      have hlen' : cs.length = cells.length := by simpa using hlen
      unfold countEnds countSplits at *
      by_cases h1 : cell = "*^".toList
      · have h2 : ¬ cell = "*v".toList := by rw [h1]; decide
        have h3 : ¬ cell = "*-".toList := by rw [h1]; decide
        have := ih cells false hm' hlen'
        simp only [pathOut, countJoins, List.filter_cons, eq_true h1, eq_false h2, eq_false h3, if_true, if_false,
          decide_true, decide_false, false_and, List.length_cons, Bool.false_eq_true] at this ⊢
        omega
      · by_cases h2 : cell = "*v".toList
        · have h3 : ¬ cell = "*-".toList := by rw [h2]; decide
          have := ih cells true hm' hlen'
          cases prevV with
          | true =>
            simp only [pathOut, countJoins, List.filter_cons, eq_false h1, eq_true h2, eq_false h3, if_true, if_false,
              decide_true, decide_false, true_and, and_self, List.length_cons, hc, Bool.false_eq_true] at this ⊢
            omega
          | false =>
            simp only [pathOut, countJoins, List.filter_cons, eq_false h1, eq_true h2, eq_false h3, if_true, if_false,
              decide_true, decide_false, true_and, and_false, List.length_cons, hc, Bool.false_eq_true, reduceCtorEq] at this ⊢
            omega
        · by_cases h3 : cell = "*-".toList
          · have := ih cells false hm' hlen'
            simp only [pathOut, countJoins, List.filter_cons, eq_false h1, eq_false h2, eq_true h3, if_true, if_false,
              decide_true, decide_false, false_and, List.length_cons, Bool.false_eq_true] at this ⊢
            omega
          · have := ih cells false hm' hlen'
            simp only [pathOut, countJoins, List.filter_cons, eq_false h1, eq_false h2, eq_false h3, if_true, if_false,
              decide_true, decide_false, false_and, List.length_cons, Bool.false_eq_true] at this ⊢
            omega

/-- non-vacuity: three sub-spines joined at once, two split at once -/
example : pathOut [(⟨0, true, 0, 1⟩, 0), (⟨0, true, 0, 1⟩, 1), (⟨0, true, 0, 1⟩, 2)] ["*v".toList, "*v".toList, "*v".toList] none = 1 ∧
    pathOut [(⟨0, true, 0, 1⟩, 0), (⟨0, true, 0, 1⟩, 1)] ["*^".toList, "*^".toList] none = 4 ∧
    countJoins ["*v".toList, "*v".toList, "*v".toList] false = 2 := by decide +kernel

example : (interpRow { cols := [], same := false } [(⟨0, true, 0, 1⟩, 0), (⟨0, true, 0, 1⟩, 1), (⟨0, true, 0, 1⟩, 2), (⟨1, true, 0, 1⟩, 0)]
      ["*v".toList, "*v".toList, "*v".toList, "*".toList] [] false).map (fun r => r.2.map (·.main)) = some [0, 1] := by
  decide +kernel

end C19
