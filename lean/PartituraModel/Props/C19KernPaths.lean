/-
C19 — how many sub-spines a **kern spine has after a row of spine-path indicators.

`importkern.parse_by_voice` keeps the number of columns (`voices`) of the spine it is cutting out of the file; the repaired
bookkeeping (fixes/C19-30) is `voices + (#cells "*^") - (#cells "*v" whose left neighbour is "*v")`.  The theorems state
that this is exactly what the denotational semantics (`Model.Kern.interpRow`: every `*^` doubles its column, every run of
adjacent `*v` of one spine becomes one column, `*-` ends a column) does — for every row, any number of splits and joins of
any length in the same row.
-/
import PartituraModel.Model.Kern
import PartituraModel.Proofs.C19KernPbv

set_option linter.unusedSimpArgs false

namespace C19
open Model Model.Kern

/-- columns a row of interpretation cells leaves, by the semantics' rule (`prev`: the spine of the cell to the left if
    that cell was a `*v`) -/
def pathOut : List (Col × Nat) → List (List Char) → Option Nat → Nat
  | (c, _) :: cs, cell :: cells, prev =>
    if cell = "*^".toList then 2 + pathOut cs cells none
    else if cell = "*v".toList then (if prev = some c.main then 0 else 1) + pathOut cs cells (some c.main)
    else if cell = "*-".toList then pathOut cs cells none
    else 1 + pathOut cs cells none
  | _, _, _ => 0

/-- `kern_spine_paths`: whenever the semantics accepts an interpretation row, the columns after it are those before it,
    two for every `*^`, one for every run of adjacent `*v` cells of one spine, none for a `*-`, one for any other cell.
    (`acc`: the columns already produced, newest first; `joining`: the cell to the left was a `*v`.) -/
theorem kern_spine_paths (st : St) (cp : List (Col × Nat)) (row : List (List Char)) (acc : List Col) (joining : Bool)
    (st' : St) (cols' : List Col) (hj : joining = true → acc ≠ [])
    (h : interpRow st cp row acc joining = some (st', cols')) :
    cols'.length = acc.length + pathOut cp row (if joining then acc.head?.map (·.main) else none) := by
  induction cp generalizing st row acc joining with
  | nil =>
    cases row with
    | nil =>
      simp only [interpRow, Option.some.injEq, Prod.mk.injEq] at h
      rw [← h.2]
      simp [pathOut]
    | cons _ _ => simp [interpRow] at h
  | cons cpHead cs ih =>
    obtain ⟨c, p⟩ := cpHead
    cases row with
    | nil => simp [interpRow] at h
    | cons cell cells =>
      simp only [interpRow] at h
      by_cases h1 : cell = "*^".toList
      · simp only [eq_true h1, if_true] at h
        have := ih st cells (c :: c :: acc) false (by simp) h
        simp only [pathOut, eq_true h1, if_true]
        simp at this
        omega
      · simp only [eq_false h1, if_false] at h
        by_cases h2 : cell = "*v".toList
        · simp only [eq_true h2, if_true] at h
          simp only [pathOut, eq_false h1, eq_true h2, if_true, if_false]
          cases acc with
          | nil =>
            have hjf : joining = false := by
              cases joining with
              | false => rfl
              | true => exact absurd rfl (hj rfl)
            subst hjf
            have := ih st cells [c] true (by simp) h
            simp at this ⊢
            omega
          | cons a rest =>
            cases joining with
            | false =>
              have := ih st cells (c :: a :: rest) true (by simp) h
              simp at this ⊢
              omega
            | true =>
              simp only at h
              by_cases hm : a.main = c.main
              · simp only [hm, if_true] at h
                have := ih st cells (a :: rest) true (by simp) h
                simp [hm] at this ⊢
                omega
              · simp only [hm, if_false] at h
                have := ih st cells (c :: a :: rest) true (by simp) h
                simp [hm] at this ⊢
                omega
        · simp only [eq_false h2, if_false] at h
          by_cases h3 : cell = "*-".toList
          · simp only [eq_true h3, if_true] at h
            have := ih st cells acc false (by simp) h
            simp only [pathOut, eq_false h1, eq_false h2, eq_true h3, if_true, if_false]
            simp at this
            omega
          · simp only [eq_false h3, if_false] at h
            cases ht : tandem st c p cell with
            | none => simp [ht] at h
            | some r =>
              obtain ⟨st2, c2⟩ := r
              simp only [ht] at h
              have := ih st2 cells (c2 :: acc) false (by simp) h
              simp only [pathOut, eq_false h1, eq_false h2, eq_false h3, if_false]
              simp at this
              omega

/-- the count the repaired `parse_by_voice` keeps: cells, splits, cells `*v` whose left neighbour is a `*v`, ends -/
def countSplits (row : List (List Char)) : Nat := (row.filter (· = "*^".toList)).length
def countEnds (row : List (List Char)) : Nat := (row.filter (· = "*-".toList)).length
def countJoins : List (List Char) → Bool → Nat
  | [], _ => 0
  | cell :: cells, prevV =>
    (if cell = "*v".toList ∧ prevV = true then 1 else 0) + countJoins cells (decide (cell = "*v".toList))

/-- `kern_spine_width`: inside ONE spine (all columns of the row belong to the spine `m`) the semantics' rule is the
    importer's arithmetic: columns after = columns before + splits − joins − ends, where a join is a `*v` cell whose left
    neighbour is a `*v` cell — so `*v *v *v` takes away two columns, `*^ *^` adds two. -/
theorem kern_spine_width (m : Nat) (cp : List (Col × Nat)) (row : List (List Char)) (prevV : Bool)
    (hm : ∀ x ∈ cp, x.1.main = m) (hlen : cp.length = row.length) :
    pathOut cp row (if prevV then some m else none) + countJoins row prevV + countEnds row
      = row.length + countSplits row := by
  induction cp generalizing row prevV with
  | nil =>
    cases row with
    | nil => simp [pathOut, countJoins, countEnds, countSplits]
    | cons _ _ => simp at hlen
  | cons x cs ih =>
    obtain ⟨c, p⟩ := x
    cases row with
    | nil => simp at hlen
    | cons cell cells =>
      have hc : c.main = m := hm (c, p) (by simp)
      have hm' : ∀ x ∈ cs, x.1.main = m := fun x hx => hm x (List.mem_cons_of_mem _ hx)
      have hlen' : cs.length = cells.length := by simpa using hlen
      unfold countEnds countSplits at *
      by_cases h1 : cell = "*^".toList
      · have h2 : ¬ cell = "*v".toList := by rw [h1]; decide
        have h3 : ¬ cell = "*-".toList := by rw [h1]; decide
        have := ih cells false hm' hlen'
        simp only [pathOut, countJoins, List.filter_cons, eq_true h1, eq_false h2, eq_false h3, if_true, if_false,
          decide_true, decide_false, false_and, List.length_cons, Bool.false_eq_true] at this ⊢
        omega
      · by_cases h2 : cell = "*v".toList
        · have h3 : ¬ cell = "*-".toList := by rw [h2]; decide
          have := ih cells true hm' hlen'
          cases prevV with
          | true =>
            simp only [pathOut, countJoins, List.filter_cons, eq_false h1, eq_true h2, eq_false h3, if_true, if_false,
              decide_true, decide_false, true_and, and_self, List.length_cons, hc, Bool.false_eq_true] at this ⊢
            omega
          | false =>
            simp only [pathOut, countJoins, List.filter_cons, eq_false h1, eq_true h2, eq_false h3, if_true, if_false,
              decide_true, decide_false, true_and, and_false, List.length_cons, hc, Bool.false_eq_true, reduceCtorEq] at this ⊢
            omega
        · by_cases h3 : cell = "*-".toList
          · have := ih cells false hm' hlen'
            simp only [pathOut, countJoins, List.filter_cons, eq_false h1, eq_false h2, eq_true h3, if_true, if_false,
              decide_true, decide_false, false_and, List.length_cons, Bool.false_eq_true] at this ⊢
            omega
          · have := ih cells false hm' hlen'
            simp only [pathOut, countJoins, List.filter_cons, eq_false h1, eq_false h2, eq_false h3, if_true, if_false,
              decide_true, decide_false, false_and, List.length_cons, Bool.false_eq_true] at this ⊢
            omega

/-- non-vacuity: three sub-spines joined at once, two split at once -/
example : pathOut [(⟨0, true, 0, 1⟩, 0), (⟨0, true, 0, 1⟩, 1), (⟨0, true, 0, 1⟩, 2)] ["*v".toList, "*v".toList, "*v".toList] none = 1 ∧
    pathOut [(⟨0, true, 0, 1⟩, 0), (⟨0, true, 0, 1⟩, 1)] ["*^".toList, "*^".toList] none = 4 ∧
    countJoins ["*v".toList, "*v".toList, "*v".toList] false = 2 := by decide +kernel

example : (interpRow { cols := [], same := false } [(⟨0, true, 0, 1⟩, 0), (⟨0, true, 0, 1⟩, 1), (⟨0, true, 0, 1⟩, 2), (⟨1, true, 0, 1⟩, 0)]
      ["*v".toList, "*v".toList, "*v".toList, "*".toList] [] false).map (fun r => r.2.map (·.main)) = some [0, 1] := by
  decide +kernel

/-! ### which spine every column belongs to, and the importer's bookkeeping (`importkern.parse_by_voice`) -/

/-- `kern_paths_mains`: the number of columns `pathOut` counts is the length of the list of their spines -/
theorem kern_paths_mains (cp : List (Col × Nat)) (row : List (List Char)) (prev : Option Nat) :
    (Pbv.mainsOut cp row prev).length = pathOut cp row prev := by
  induction cp generalizing row prev with
  | nil => simp [Pbv.mainsOut, pathOut]
  | cons x cs ih =>
    obtain ⟨c, p⟩ := x
    cases row with
    | nil => simp [Pbv.mainsOut, pathOut]
    | cons cell cells =>
      simp only [Pbv.mainsOut, pathOut]
      by_cases h1 : cell = "*^".toList
      · simp only [eq_true h1, if_true, List.length_cons, ih]; omega
      · by_cases h2 : cell = "*v".toList
        · simp only [eq_false h1, eq_true h2, if_true, if_false, List.length_append, ih]
          by_cases hp : prev = some c.main
          · simp [hp]
          · simp [hp]
        · by_cases h3 : cell = "*-".toList
          · simp only [eq_false h1, eq_false h2, eq_true h3, if_true, if_false, ih]
          · simp only [eq_false h1, eq_false h2, eq_false h3, if_false, List.length_cons, ih]; omega

/-- `kern_columns_after_row`: after an accepted row of interpretations every column belongs to the spine the
    semantics' rule names — two columns of its spine for a `*^`, one for a run of `*v` of one spine, none for `*-`,
    the column itself otherwise — in document order; tandem interpretations never move a column to another spine. -/
theorem kern_columns_after_row (st : St) (cp : List (Col × Nat)) (row : List (List Char)) (st' : St) (cols' : List Col)
    (h : interpRow st cp row [] false = some (st', cols')) :
    cols'.map (·.main) = Pbv.mainsOut cp row none := by
  have := Pbv.interpRow_mains st cp row [] false st' cols' (by simp) h
  simpa using this

theorem pbvJoins_eq (row : List (List Char)) (b : Bool) : pbvJoins row b = countJoins row b := by
  induction row generalizing b with
  | nil => rfl
  | cons cell cells ih => simp only [pbvJoins, countJoins, ih]

/-- `parse_by_voice_first_spine`: the importer's arithmetic is the semantics for the spine it is cutting out.  When the
    first `pre.length` columns are exactly the columns of spine `m` (what `parse_by_voice` assumes: the spines before it
    have been popped) and the row does not end a column of that spine, then after any accepted row of interpretations
    the columns of `m` are again exactly the leading block, and `voices + splits - joins` (Model/KernPbv.lean `pbvStep`,
    the loop body as written) is its length — any number of splits and joins of any length in the row, whatever the
    other spines do in the same row. -/
theorem parse_by_voice_first_spine (m : Nat) (st : St) (pre post : List (Col × Nat)) (rpre rpost : List (List Char))
    (st' : St) (cols' : List Col)
    (hpre : ∀ x ∈ pre, x.1.main = m) (hpost : ∀ x ∈ post, x.1.main ≠ m) (hl : pre.length = rpre.length)
    (hends : ∀ cell ∈ rpre, cell ≠ "*-".toList)
    (h : interpRow st (pre ++ post) (rpre ++ rpost) [] false = some (st', cols')) :
    ∃ pre' post', cols' = pre' ++ post' ∧ (∀ c ∈ pre', c.main = m) ∧ (∀ c ∈ post', c.main ≠ m) ∧
      pbvStep pre.length (rpre ++ rpost) = some pre'.length := by
  have hmains := kern_columns_after_row st _ _ st' cols' h
  rw [Pbv.mainsOut_append pre post rpre rpost none hl] at hmains
  have hB : Pbv.mainsOut post rpost (Pbv.prevAfter pre rpre none) = Pbv.mainsOut post rpost none := by
    rcases Pbv.prevAfter_cases m pre rpre none hpre (Or.inl rfl) with e | e
    · rw [e]
    · rw [e]
      apply Pbv.mainsOut_prev_irrel
      intro x hx
      exact hpost x (List.mem_of_mem_head? hx)
  rw [hB] at hmains
  obtain ⟨h1, h2⟩ := Pbv.split_of_map_eq_append (·.main) cols' _ _ hmains
  have hA := Pbv.mainsOut_all (· = m) pre rpre none hpre
  have hBn := Pbv.mainsOut_all (· ≠ m) post rpost none hpost
  refine ⟨cols'.take (Pbv.mainsOut pre rpre none).length, cols'.drop (Pbv.mainsOut pre rpre none).length,
    (List.take_append_drop _ _).symm, ?_, ?_, ?_⟩
  · intro c hc
    apply hA
    rw [← h1]
    exact List.mem_map_of_mem hc
  · intro c hc
    apply hBn
    rw [← h2]
    exact List.mem_map_of_mem hc
  · have hlen : (cols'.take (Pbv.mainsOut pre rpre none).length).length = (Pbv.mainsOut pre rpre none).length := by
      have := congrArg List.length h1
      simpa using this
    have hw := kern_spine_width m pre rpre false hpre hl
    have he : countEnds rpre = 0 := by
      unfold countEnds
      rw [List.length_eq_zero_iff, List.filter_eq_nil_iff]
      intro cell hc
      simpa using hends cell hc
    have htake : (rpre ++ rpost).take pre.length = rpre := by rw [hl]; simp
    have hnl : ¬ (rpre ++ rpost).length < pre.length := by simp [hl]
    simp only [pbvStep, hnl, if_false, htake, hlen, Option.some.injEq, pbvJoins_eq, pbvSplits]
    rw [kern_paths_mains]
    simp only [Bool.false_eq_true, if_false] at hw
    unfold countSplits at hw
    omega

/-- `parse_by_voice_step`: the same through `Model.Kern.step`, the function the semantics runs on every row of a document:
    if the columns of the state are the columns of spine `m` followed by columns of other spines, an accepted row of
    interpretations (one that ends no column of `m`) leaves the state in the same shape, and the importer's
    `voices + splits - joins` is the new number of columns of `m`. -/
theorem parse_by_voice_step (m : Nat) (st st' : St) (pre post : List Col) (first : List Char) (rest : List (List Char))
    (hcols : st.cols = pre ++ post) (hpre : ∀ c ∈ pre, c.main = m) (hpost : ∀ c ∈ post, c.main ≠ m)
    (hstar : startsWith first "*" = true)
    (hends : ∀ cell ∈ (first :: rest).take pre.length, cell ≠ "*-".toList)
    (h : step st (first :: rest) = some st') :
    ∃ pre' post', st'.cols = pre' ++ post' ∧ (∀ c ∈ pre', c.main = m) ∧ (∀ c ∈ post', c.main ≠ m) ∧
      pbvStep pre.length (first :: rest) = some pre'.length := by
  have hb := Pbv.startsWith_star_not_bang first hstar
  simp only [step, hb, hstar, if_true, if_false, Bool.false_eq_true] at h
  by_cases hlen : (first :: rest).length ≠ st.cols.length
  · exfalso
    simp only [List.length_cons] at hlen
    simp only [List.length_cons, hlen, if_true, reduceCtorEq, ne_eq, not_false_eq_true] at h
  · simp only [hlen, if_false] at h
    have hlen' : (first :: rest).length = st.cols.length := by simpa using hlen
    cases hi : interpRow { st with widths := updWidths st.widths (withPos st.cols) } (withPos st.cols) (first :: rest) [] false with
    | none => simp [hi] at h
    | some r =>
      obtain ⟨st2, cols2⟩ := r
      simp only [hi, Option.map_some, Option.some.injEq] at h
      have hfst : (withPos st.cols).map Prod.fst = pre ++ post := by rw [withPos, Pbv.withPosAux_fst, hcols]
      have hwl : (withPos st.cols).length = pre.length + post.length := by
        have := congrArg List.length hfst; simpa using this
      obtain ⟨hp1, hp2⟩ := Pbv.split_of_map_eq_append Prod.fst (withPos st.cols) pre post hfst
      have hrl : (first :: rest).length = pre.length + post.length := by rw [hlen', hcols]; simp
      have hi' : interpRow { st with widths := updWidths st.widths (withPos st.cols) }
          ((withPos st.cols).take pre.length ++ (withPos st.cols).drop pre.length)
          ((first :: rest).take pre.length ++ (first :: rest).drop pre.length) [] false = some (st2, cols2) := by
        rw [List.take_append_drop, List.take_append_drop]; exact hi
      have := parse_by_voice_first_spine m _ _ _ _ _ st2 cols2
        (by intro x hx; apply hpre; rw [← hp1]; exact List.mem_map_of_mem hx)
        (by intro x hx; apply hpost; rw [← hp2]; exact List.mem_map_of_mem hx)
        (by rw [List.length_take, List.length_take]; omega)
        hends hi'
      obtain ⟨pre', post', e1, e2, e3, e4⟩ := this
      refine ⟨pre', post', ?_, e2, e3, ?_⟩
      · rw [← h]; exact e1
      · rw [List.take_append_drop] at e4
        have : ((withPos st.cols).take pre.length).length = pre.length := by rw [List.length_take]; omega
        rw [this] at e4
        exact e4

/-- non-vacuity: a spine of three sub-spines next to another spine; `*^ *v *v` leaves three columns of spine 0 -/
example : (interpRow { cols := [], same := false }
      ([(⟨0, true, 0, 1⟩, 0), (⟨0, true, 0, 1⟩, 1), (⟨0, true, 0, 1⟩, 2)] ++ [(⟨1, true, 0, 1⟩, 0)])
      (["*^".toList, "*v".toList, "*v".toList] ++ ["*v".toList]) [] false).map (fun r => r.2.map (·.main)) = some [0, 0, 0, 1] ∧
    pbvStep 3 (["*^".toList, "*v".toList, "*v".toList] ++ ["*v".toList]) = some 3 := by decide +kernel

/-- rows the document theorem speaks about: a row of interpretations ends no column, any other row (data, barlines)
    holds no spine-path cell (the semantics ignores or refuses those, the importer's arithmetic would count them) -/
def CleanRow (row : List (List Char)) : Prop :=
  match row with
  | [] => True
  | first :: _ =>
    if startsWith first "*" = true then ∀ cell ∈ row, cell ≠ "*-".toList
    else ∀ cell ∈ row, cell ≠ "*^".toList ∧ cell ≠ "*v".toList

theorem parse_by_voice_document (m : Nat) (rows : List (List (List Char))) (st : St) (pre post : List Col)
    (tr : List (List Col))
    (hcols : st.cols = pre ++ post) (hpre : ∀ c ∈ pre, c.main = m) (hpost : ∀ c ∈ post, c.main ≠ m)
    (hclean : ∀ row ∈ rows, CleanRow row)
    (h : colsTrace st rows = some tr) :
    pbvTrace pre.length (pbvFile rows) = some (tr.map fun cols => countMain cols m) := by
  induction rows generalizing st pre post tr with
  | nil =>
    simp only [colsTrace, Option.some.injEq] at h
    subst h
    simp [pbvFile, pbvTrace]
  | cons r rs ih =>
    have hclean' : ∀ row ∈ rs, CleanRow row := fun row hr => hclean row (List.mem_cons_of_mem _ hr)
    simp only [colsTrace] at h
    by_cases hs : isSkippable r = true
    · simp only [hs, if_true] at h
      have : pbvFile (r :: rs) = pbvFile rs := by simp [pbvFile, hs]
      rw [this]
      exact ih st pre post tr hcols hpre hpost hclean' h
    · simp only [hs, if_false, Bool.false_eq_true] at h
      have hfile : pbvFile (r :: rs) = r :: pbvFile rs := by
        simp only [pbvFile, List.filter_cons]
        simp [hs]
      rw [hfile]
      cases hst : step st r with
      | none => simp [hst] at h
      | some st1 =>
        simp only [hst] at h
        cases htr : colsTrace st1 rs with
        | none => simp [htr] at h
        | some tr1 =>
          simp only [htr, Option.map_some, Option.some.injEq] at h
          subst h
          cases r with
          | nil => simp [isSkippable] at hs
          | cons first rest =>
            have hbang : startsWith first "!" = false := by simpa [isSkippable] using hs
            have hcr := hclean (first :: rest) (by simp)
            simp only [CleanRow] at hcr
            by_cases hstar : startsWith first "*" = true
            · simp only [hstar, if_true] at hcr
              obtain ⟨pre', post', e1, e2, e3, e4⟩ := parse_by_voice_step m st st1 pre post first rest hcols hpre hpost hstar
                (fun cell hc => hcr cell (List.mem_of_mem_take hc)) hst
              have := ih st1 pre' post' tr1 e1 e2 e3 hclean' htr
              simp only [pbvTrace, e4, this, Option.map_some, List.map_cons, hcols, Pbv.countMain_block m pre post hpre hpost]
            · simp only [hstar, if_false, Bool.false_eq_true] at hcr
              have hstar' : startsWith first "*" = false := by simpa using hstar
              obtain ⟨hm, hl⟩ := Pbv.step_other_mains st st1 first rest hstar' hst
              have hl' := hl hbang
              rw [hcols, List.map_append] at hm
              obtain ⟨h1, h2⟩ := Pbv.split_of_map_eq_append (·.main) st1.cols _ _ hm
              have hk : pre.length ≤ (first :: rest).length := by rw [hl', hcols]; simp
              have e4 := Pbv.pbvStep_clean pre.length (first :: rest) hk hcr
              have hplen : (st1.cols.take (pre.map (·.main)).length).length = pre.length := by
                have := congrArg List.length h1; simpa using this
              have := ih st1 (st1.cols.take (pre.map (·.main)).length) (st1.cols.drop (pre.map (·.main)).length) tr1
                (List.take_append_drop _ _).symm
                (by
                  intro c hc
                  have : c.main ∈ pre.map (·.main) := by rw [← h1]; exact List.mem_map_of_mem hc
                  obtain ⟨c0, hc0, e⟩ := List.mem_map.1 this
                  rw [← e]; exact hpre c0 hc0)
                (by
                  intro c hc
                  have : c.main ∈ post.map (·.main) := by rw [← h2]; exact List.mem_map_of_mem hc
                  obtain ⟨c0, hc0, e⟩ := List.mem_map.1 this
                  rw [← e]; exact hpost c0 hc0)
                hclean' htr
              rw [hplen] at this
              simp only [pbvTrace, e4, this, Option.map_some, List.map_cons, hcols, Pbv.countMain_block m pre post hpre hpost]

/-- `parse_by_voice_first_call`: the first call of `parse_by_voice` on a document (header `h0 :: hs`, then `rest`): the
    number of cells it takes from every row that is not a comment is the number of columns the semantics gives the
    leftmost spine in front of that row — for every document of clean rows the semantics accepts, whatever is split and
    joined, in this spine or the others. -/
theorem parse_by_voice_first_call (h0 : List Char) (hs : List (List Char)) (rest : List (List (List Char))) (same : Bool)
    (tr : List (List Col)) (hclean : ∀ row ∈ rest, CleanRow row)
    (h : colsTrace { cols := initCols (h0 :: hs) 0, same := same } rest = some tr) :
    pbvTrace 1 (pbvFile rest) = some (tr.map fun cols => countMain cols 0) := by
  have := parse_by_voice_document 0 rest { cols := initCols (h0 :: hs) 0, same := same }
    [{ main := 0, kern := startsWith h0 "**kern" || startsWith h0 "**notes", cursor := 0, staff := 1 }] (initCols hs 1) tr
    (by simp [initCols]) (by simp)
    (by intro c hc; have := Pbv.initCols_mains_ge hs 1 c hc; omega) hclean h
  simpa using this


/-- non-vacuity: two spines, the left one split, a barline, joined again: clean rows, accepted, the trace is 1, 2, 2 -/
example : (∀ row ∈ [["*^".toList, "*".toList], ["=1".toList, "=1".toList, "=1".toList], ["*v".toList, "*v".toList, "*".toList]],
      CleanRow row) ∧
    (colsTrace { cols := initCols ["**kern".toList, "**kern".toList] 0, same := false }
      [["*^".toList, "*".toList], ["=1".toList, "=1".toList, "=1".toList], ["*v".toList, "*v".toList, "*".toList]]).map
        (fun tr => tr.map fun cols => countMain cols 0) = some [1, 2, 2] ∧
    pbvTrace 1 [["*^".toList, "*".toList], ["=1".toList, "=1".toList, "=1".toList], ["*v".toList, "*v".toList, "*".toList]]
      = some [1, 2, 2] := by
  refine ⟨?_, by decide +kernel, by decide +kernel⟩
  intro row hr
  simp only [List.mem_cons, List.not_mem_nil, or_false] at hr
  rcases hr with rfl | rfl | rfl <;> simp only [CleanRow] <;> decide +kernel

end C19
