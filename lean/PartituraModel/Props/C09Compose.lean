/-
C09, round 6 — compositions through the public entry points.

Props/C09Ext proves, for the bracket family and the three navigation families over symbolic times, which path
`get_paths` returns on the table `add_segments` builds; Props/C09Entry proves what the entry points do with the paths.
Here the two are composed, so that the statements read like the property: "the maximal unfolding (the part
`unfold_part_maximal` RETURNS) plays each repeated section the notated number of times with the matching ending, the minimal
one plays each section once with the last ending" — for one repeat with k brackets carrying any assignment of the numbers
1..N, and for D.C. al Fine, D.C. al Coda, D.S. al Coda.  No entry point fails on these parts.
-/
import PartituraModel.Props.C09Entry

namespace C09
open Model.Unfold

/-- Whenever the all-repeats enumeration on the table of `add_segments` is the single path `path`, the call
`unfold_part_maximal(part, update_ids, ignore_leaps)` RETURNS (no exception) the part made along exactly that path, with the
ids suffixed on request. -/
theorem unfold_part_maximal_of_path (L : Layout) (p : APart) (upd il : Option Bool) (fuel : Nat) (path : List Nat)
    (rest : List (List Nat))
    (h : ((mkSegments L).bind fun g => getPaths g false true (il.getD true) fuel) = some (path :: rest)) :
    ∃ g v, mkSegments L = some g ∧ unfoldPartMaximal L p upd il fuel = some v ∧
      newPartFromPath g p path (some (upd.getD Gen.C09.MAX_DEF.1)) = some v := by
  rw [unfold_part_maximal_is]
  cases hg : mkSegments L with
  | none => simp [hg] at h
  | some g =>
    simp only [hg, Option.bind_some] at h ⊢
    rw [h]
    simp only [Option.bind_some, List.head?_cons]
    obtain ⟨_, v, _, hv⟩ := unfolding_never_misses_a_segment g false true (il.getD true) fuel _ h path
      (by simp) p (some (upd.getD Gen.C09.MAX_DEF.1))
    exact ⟨g, v, rfl, hv, hv⟩

/-- … and `unfold_part_minimal(part)` returns the part made along the first path of the no-repeats enumeration, ids untouched. -/
theorem unfold_part_minimal_of_path (L : Layout) (p : APart) (fuel : Nat) (path : List Nat) (rest : List (List Nat))
    (h : ((mkSegments L).bind fun g => getPaths g true false true fuel) = some (path :: rest)) :
    ∃ g v, mkSegments L = some g ∧ unfoldPartMinimal L p fuel = some v ∧
      newPartFromPath g p path (some false) = some v := by
  rw [unfold_part_minimal_is]
  cases hg : mkSegments L with
  | none => simp [hg] at h
  | some g =>
    simp only [hg, Option.bind_some] at h ⊢
    rw [h]
    simp only [Option.bind_some, List.head?_cons]
    obtain ⟨_, v, _, hv⟩ := unfolding_never_misses_a_segment g true false true fuel _ h path (by simp) p (some false)
    exact ⟨g, v, rfl, hv, hv⟩

/-- … and `list(iter_unfolded_parts(part, update_ids))` has one part per enumerated path, in the order of the paths, each made
along its path. -/
theorem iter_unfolded_parts_of_paths (L : Layout) (p : APart) (upd : Option Bool) (fuel : Nat) (ps : List (List Nat))
    (h : ((mkSegments L).bind fun g => getPaths g false false true fuel) = some ps) :
    ∃ g us, mkSegments L = some g ∧ iterUnfoldedParts L p upd fuel = some us ∧ us.length = ps.length ∧
      ps.mapM (fun path => newPartFromPath g p path (some (upd.getD Gen.C09.ITER_DEF))) = some us := by
  rw [iter_unfolded_parts_is]
  cases hg : mkSegments L with
  | none => simp [hg] at h
  | some g =>
    simp only [hg, Option.bind_some] at h ⊢
    rw [h]
    simp only [Option.bind_some]
    obtain ⟨us, hus, hl⟩ := mapM_some_length (fun path => newPartFromPath g p path (some (upd.getD Gen.C09.ITER_DEF))) ps
      (fun path hp => by
        obtain ⟨_, v, _, hv⟩ := unfolding_never_misses_a_segment g false false true fuel _ h path hp p (some (upd.getD Gen.C09.ITER_DEF))
        exact ⟨v, hv⟩)
    exact ⟨g, us, rfl, hus, hl, hus⟩

/-! ## one repeat with k brackets carrying the numbers 1..N, through the entry points -/

/-- The maximal unfolding of a part with one repeat and k brackets carrying any assignment of the numbers 1..N (symbolic
boundary times, hypotheses of `voltas_numbers_layout`): `unfold_part_maximal` RETURNS the part made along "section, bracket of
number 1, section, bracket of number 2, …, section, bracket of number N" — each pass with the matching ending —, and
`unfold_part_minimal` the part made along "section, last bracket": once, with the last ending. -/
theorem unfold_part_maximal_voltas (pre post : Bool) (k : Nat) (asg : List Nat) (ts : List Int)
    (hs : StrictSorted ts) (hlen : ts.length = vLen pre k post + 1) (hk : 1 ≤ k) (hk10 : k ≤ 10)
    (hasg : ∀ x ∈ asg, x < k) (hN9 : asg.length ≤ 9) (hlast : asg.getLast? = some (k - 1))
    (hsurj : ∀ j, j < k → j ∈ asg) (ha : 0 ≤ ts.getD (vBody pre) 0) (p : APart) (upd il : Option Bool) (fuel : Nat)
    (hf : 2 * asg.length + 4 ≤ fuel) :
    ∃ g vmax vmin, mkSegments (mvLayout pre k post asg ts) = some g ∧
      unfoldPartMaximal (mvLayout pre k post asg ts) p upd il fuel = some vmax ∧
      newPartFromPath g p (mvMaxPath pre k post asg) (some (upd.getD Gen.C09.MAX_DEF.1)) = some vmax ∧
      unfoldPartMinimal (mvLayout pre k post asg ts) p fuel = some vmin ∧
      newPartFromPath g p (mvMinPath pre k post (k - 1)) (some false) = some vmin := by
  obtain ⟨h1, _⟩ := voltas_numbers_unfold pre post k asg ts hs hlen hk hk10 hasg hN9 hlast hsurj ha (il.getD true) fuel hf
  obtain ⟨_, h2⟩ := voltas_numbers_unfold pre post k asg ts hs hlen hk hk10 hasg hN9 hlast hsurj ha true fuel hf
  obtain ⟨g, vmax, hg, hm1, hm2⟩ := unfold_part_maximal_of_path _ p upd il fuel _ [] h1
  obtain ⟨g', vmin, hg', hn1, hn2⟩ := unfold_part_minimal_of_path _ p fuel _ [] h2
  rw [hg] at hg'
  simp only [Option.some.injEq] at hg'
  subst hg'
  exact ⟨g, vmax, vmin, hg, hm1, hm2, hn1, hn2⟩

-- non-vacuity: lead-in [0,4), section [4,12), brackets [12,16) "1,3" and [16,20) "2,4", rest [20,24); one note in the section
example :
    let L := mvLayout true 2 true [0, 1, 0, 1] [0, 4, 12, 16, 20, 24]
    let p : APart := { points := [0, 4, 12, 16, 20, 24], qd := [(0, 1)], objs :=
      [{ kind := .note, start := 4, stp := some 12, payload := [60, 1, 1], nid := some "n", refs := [] }] }
    ((unfoldPartMaximal L p (some true) none 12).map fun v => v.objs.map fun c => (c.start, c.nid)) =
      some [(4, some "n-1"), (16, some "n-2"), (28, some "n-3"), (40, some "n-4")] ∧
    ((unfoldPartMinimal L p 12).map fun v => v.objs.map fun c => (c.start, c.nid)) = some [(4, some "n")] := by decide

/-! ## navigation marks through the entry points -/

/-- D.C. al Fine (Fine at `f`, Da Capo at the end `e`, any `0 < f < e`): `unfold_part_maximal` returns the part made along
"everything, then from the start to the Fine", `unfold_part_minimal` the part played once; whatever `ignore_leaps`. -/
theorem unfold_part_dacapo_al_fine (f e : Int) (h0 : 0 < f) (hfe : f < e) (p : APart) (upd il : Option Bool) :
    ∃ g vmax vmin, mkSegments (dcFineLayout f e) = some g ∧
      unfoldPartMaximal (dcFineLayout f e) p upd il 8 = some vmax ∧
      newPartFromPath g p [0, 1, 0] (some (upd.getD Gen.C09.MAX_DEF.1)) = some vmax ∧
      unfoldPartMinimal (dcFineLayout f e) p 8 = some vmin ∧ newPartFromPath g p [0, 1] (some false) = some vmin := by
  obtain ⟨h1, _⟩ := dacapo_al_fine f e h0 hfe (il.getD true)
  obtain ⟨_, h2⟩ := dacapo_al_fine f e h0 hfe true
  obtain ⟨g, vmax, hg, hm1, hm2⟩ := unfold_part_maximal_of_path _ p upd il 8 _ [] h1
  obtain ⟨g', vmin, hg', hn1, hn2⟩ := unfold_part_minimal_of_path _ p 8 _ [] h2
  rw [hg] at hg'
  simp only [Option.some.injEq] at hg'
  subst hg'
  exact ⟨g, vmax, vmin, hg, hm1, hm2, hn1, hn2⟩

/-- D.C. al Coda (To Coda at `a`, Da Capo and Coda at `b`, any `0 < a < b < e`): the maximal unfolding is made along
A-B-A-C, the minimal one along A-B-C, and `iter_unfolded_parts` yields exactly these two parts, in this order. -/
theorem unfold_part_dacapo_al_coda (a b e : Int) (h0 : 0 < a) (hab : a < b) (hbe : b < e) (p : APart) (upd il : Option Bool) :
    ∃ g vmax vmin us, mkSegments (dcCodaLayout a b e) = some g ∧
      unfoldPartMaximal (dcCodaLayout a b e) p upd il 8 = some vmax ∧
      newPartFromPath g p [0, 1, 0, 2] (some (upd.getD Gen.C09.MAX_DEF.1)) = some vmax ∧
      unfoldPartMinimal (dcCodaLayout a b e) p 8 = some vmin ∧ newPartFromPath g p [0, 1, 2] (some false) = some vmin ∧
      iterUnfoldedParts (dcCodaLayout a b e) p upd 8 = some us ∧ us.length = 2 := by
  obtain ⟨h1, _, _⟩ := dacapo_al_coda a b e h0 hab hbe (il.getD true)
  obtain ⟨_, h2, h3⟩ := dacapo_al_coda a b e h0 hab hbe true
  obtain ⟨g, vmax, hg, hm1, hm2⟩ := unfold_part_maximal_of_path _ p upd il 8 _ [] h1
  obtain ⟨g', vmin, hg', hn1, hn2⟩ := unfold_part_minimal_of_path _ p 8 _ [] h2
  obtain ⟨g'', us, hg'', hi1, hi2, _⟩ := iter_unfolded_parts_of_paths _ p upd 8 _ h3
  rw [hg] at hg' hg''
  simp only [Option.some.injEq] at hg' hg''
  subst hg' hg''
  exact ⟨g, vmax, vmin, us, hg, hm1, hm2, hn1, hn2, hi1, hi2⟩

/-- D.S. al Coda (Segno at `s`, To Coda at `a`, Dal Segno and Coda at `b`, any `0 < s < a < b < e`): maximal along
A-B-C-B-D ("up to the Dal Segno, from the sign to To Coda, coda"), minimal straight through. -/
theorem unfold_part_dalsegno_al_coda (s a b e : Int) (h0 : 0 < s) (hsa : s < a) (hab : a < b) (hbe : b < e) (p : APart)
    (upd il : Option Bool) :
    ∃ g vmax vmin, mkSegments (dsCodaLayout s a b e) = some g ∧
      unfoldPartMaximal (dsCodaLayout s a b e) p upd il 10 = some vmax ∧
      newPartFromPath g p [0, 1, 2, 1, 3] (some (upd.getD Gen.C09.MAX_DEF.1)) = some vmax ∧
      unfoldPartMinimal (dsCodaLayout s a b e) p 10 = some vmin ∧
      newPartFromPath g p [0, 1, 2, 3] (some false) = some vmin := by
  obtain ⟨h1, _⟩ := dalsegno_al_coda s a b e h0 hsa hab hbe (il.getD true)
  obtain ⟨_, h2⟩ := dalsegno_al_coda s a b e h0 hsa hab hbe true
  obtain ⟨g, vmax, hg, hm1, hm2⟩ := unfold_part_maximal_of_path _ p upd il 10 _ [] h1
  obtain ⟨g', vmin, hg', hn1, hn2⟩ := unfold_part_minimal_of_path _ p 10 _ [] h2
  rw [hg] at hg'
  simp only [Option.some.injEq] at hg'
  subst hg'
  exact ⟨g, vmax, vmin, hg, hm1, hm2, hn1, hn2⟩

-- non-vacuity: D.S. al Coda with one note per segment: the segno section is played twice, the coda once
example :
    let p : APart := { points := [0, 4, 12, 16, 24], qd := [(0, 1)], objs :=
      [{ kind := .note, start := 0, stp := some 4, payload := [60, 1, 1], nid := some "a", refs := [] },
       { kind := .note, start := 4, stp := some 12, payload := [62, 1, 1], nid := some "b", refs := [] },
       { kind := .note, start := 12, stp := some 16, payload := [64, 1, 1], nid := some "c", refs := [] },
       { kind := .note, start := 16, stp := some 24, payload := [65, 1, 1], nid := some "d", refs := [] }] }
    ((unfoldPartMaximal (dsCodaLayout 4 12 16 24) p (some true) none 10).map fun v => v.objs.map fun c => (c.start, c.nid)) =
      some [(0, some "a-1"), (4, some "b-1"), (12, some "c-1"), (16, some "b-2"), (24, some "d-1")] := by decide

end C09
