/-
C03 — `<barline>` (repeats, endings, barline fermatas), `<harmony>` and `<print>`: what the importer extracts from the
elements the exporter writes is what the objects denote, every object `do_barlines` is given ends up in exactly one
barline, and the importer's bookkeeping through `ongoing` recovers every repeat and ending with both its times.

  Model/XmlBar.lean   `doBarlines` / `writeBarline`, `readBarline`, `stepBar`, `handleRepeat`, `handleEnding`,
                      `writeHarmony` / `readHarmony`, `writePrint` / `readPrint`
tied to the code by harness/props/c03.py streams wbar / cbar / bars / wharm / rharm / charm / wprint / prints.
-/
import PartituraModel.Proofs.C03Bar
import PartituraModel.Proofs.C03BarOps

namespace C03
open Model Model.XmlNote Model.XmlBar

/-- **barline_roundtrip.**  For every `<barline>` the exporter can write — any location, any children in any number and
    order — the importer's reading is `canonBar`: the location, the direction of the FIRST `<repeat>`, type and number of
    the FIRST `<ending>`, whether there is a fermata; no bar style. -/
theorem barline_roundtrip (loc : Loc) (items : List BarItem) :
    readBarline (writeBarline loc items) = canonBar loc items := C03.Bar.bar_roundtrip loc items

/-- **barline_items_recovered.**  When a barline holds what one MusicXML `<barline>` can hold (at most one fermata, one
    ending, one repeat: `BarSimple`), the reading accounts for every child: the children it stands for are a permutation
    of the children written. -/
theorem barline_items_recovered (loc : Loc) (items : List BarItem) (h : BarSimple items) :
    (itemsOfRead (readBarline (writeBarline loc items))).Perm items := C03.Bar.items_recovered loc items h

example : BarSimple [.fermata, .repeatBwd, .endingStop ['1']] := by decide

/-- the hypothesis is needed: a repeat that ends where the next one starts INSIDE a measure gives one barline with two
    `<repeat>` children, of which the importer reads the first (`e.find("repeat")`) -/
example : itemsOfRead (readBarline (writeBarline .middle [.repeatFwd, .repeatBwd])) = [.repeatFwd] := by decide

/-- **barlines_written.**  `do_barlines` for a segment `[start, stop]`, whatever fermatas, repeats and endings it is given:
    the barlines come in strictly increasing order of onset (one per onset), each carries the location that onset has in
    the segment and at least one child, and the children of all barlines, each with the onset of its barline, are a
    permutation of the appends to `by_onset` (`entries`): nothing is lost, duplicated or moved to another time.  Inside
    one barline the children keep the order of the five loops (`itemsAt` is a filter). -/
theorem barlines_written (start stop : Nat) (s : BarSrc) :
    ((barGroups start stop s).map (·.1)).Pairwise (· < ·) ∧
    (∀ g ∈ barGroups start stop s, g.2.1 = locOf start stop g.1 ∧ g.2.2 ≠ []) ∧
    ((barGroups start stop s).flatMap fun g => g.2.2.map fun i => (g.1, i)).Perm (entries s) :=
  ⟨C03.BarOps.barGroups_onsets start stop s, C03.BarOps.barGroups_nonempty start stop s,
   C03.BarOps.barGroups_cover start stop s⟩

/-- a fermata at the start, a repeat over the whole segment, an ending that stops inside it -/
example : (barGroups 0 8 { fermIn := [(0, .left)], fermAfter := [], repeatStart := [0], endingStart := [],
                           repeatEnd := [8], endingEnd := [(4, ['1'])] }) =
    [(0, .left, [.fermata, .repeatFwd]), (4, .middle, [.endingStop ['1']]), (8, .right, [.repeatBwd])] := by decide

/-- **repeats_paired.**  Whatever calls of `_handle_repeat` and `_handle_ending` the barlines of a part cause (`ops`, in
    document order, at whatever positions): if the repeat calls are, in order, forward / backward for each repeat of the
    list `rs` — what a document gives whose repeats do not overlap — then, starting from a state without an open repeat, the
    importer ends with exactly these repeats, each with its own start and end, appended to those it had, and none open. -/
theorem repeats_paired (ops : List BarOp) (rs : List (Nat × Nat)) (st : BarState) (h0 : st.openRepeat = none)
    (h : ops.filterMap BarOp.rep? = C03.BarOps.repCalls rs) :
    (ops.foldl applyOp st).repeats = st.repeats ++ rs.map (fun r => ⟨some r.1, some r.2⟩) ∧
      (ops.foldl applyOp st).openRepeat = none := by
  have := C03.BarOps.foldl_repState ops st
  rw [h, h0, C03.BarOps.repCalls_fold] at this
  exact ⟨congrArg Prod.fst this, congrArg Prod.snd this⟩

/-- **endings_paired.**  The same for endings (one slot `ongoing[("ending", "0")]`): start / stop (or discontinue) calls
    in turn give back every ending with the number of its start element and both its times; the number on the stop
    element is not looked at. -/
theorem endings_paired (ops : List BarOp) (es : List (Option Str × Nat × Nat)) (ns : List (Option Str))
    (hlen : ns.length = es.length) (st : BarState) (h0 : st.openEnding = none)
    (h : ops.filterMap BarOp.end? = C03.BarOps.endCalls es ns) :
    (ops.foldl applyOp st).endings = st.endings ++ es.map (fun e => ⟨e.1, some e.2.1, some e.2.2⟩) ∧
      (ops.foldl applyOp st).openEnding = none := by
  have := C03.BarOps.foldl_endState ops st
  rw [h, h0, C03.BarOps.endCalls_fold es ns hlen] at this
  exact ⟨congrArg Prod.fst this, congrArg Prod.snd this⟩

/-- two repeats [0, 8] and [8, 16] with a first and second ending, as the barlines of three measures present them -/
example : ([BarOp.rep .forward 0, .ending .start (some ['1']) 4, .rep .backward 8, .ending .stop (some ['1']) 8,
            .rep .forward 8, .ending .start (some ['2']) 8, .ending .stop (some ['2']) 12, .rep .backward 16].filterMap BarOp.rep?) =
    C03.BarOps.repCalls [(0, 8), (8, 16)] := by decide

/-- the pairing needs the order: a repeat inside another one is closed by the first backward repeat, the outer one stays
    open (MusicXML has no nested repeats) -/
example : ([BarOp.rep .forward 0, .rep .forward 4, .rep .backward 8, .rep .backward 12].foldl applyOp BarState.init).repeats =
    [⟨some 0, none⟩, ⟨some 4, some 8⟩, ⟨none, some 12⟩] := by decide

/-- **barline_effect.**  One `<barline>` in a measure: the calls it causes are made at the end of the measure so far for
    location right (or none), at the start of the measure for left, at the current position otherwise; a fermata is put at
    the current position with the location as its reference (or, without location, kept for the end of the measure). -/
theorem barline_effect (mstart : Nat) (m : MState) (b : BarRead) :
    (stepBar mstart m (.barline b)).st.repeats = ((opsOf (barPos mstart m b.location) b).foldl applyOp m.st).repeats ∧
    (stepBar mstart m (.barline b)).st.endings = ((opsOf (barPos mstart m b.location) b).foldl applyOp m.st).endings ∧
    (stepBar mstart m (.barline b)).pos = m.pos ∧ (stepBar mstart m (.barline b)).maxt = m.maxt := by
  obtain ⟨loc, rep, ending, style, ferm⟩ := b
  cases style <;> cases ferm <;> cases loc <;> simp [stepBar]

/-! ### `<harmony>` -/

/-- **harmony_roundtrip.**  For every roman numeral (a text that is not empty and has no `|`), chord symbol (any root that
    is not empty, with or without kind and bass) and cadence annotation the exporter writes, `_handle_harmony` (repaired:
    fixes/C03-18, C03-19) makes exactly the objects it was written for: the roman numeral with its text; the chord symbol
    with its root, its kind (a missing kind is the empty kind) and its bass; the cadence of the type
    `score.Cadence` derives from the text (the importer raises exactly when that constructor finds no letter) — and nothing
    else (no empty roman numeral beside a cadence). -/
theorem harmony_roundtrip (w : HarmW) (h : WellFormedHarm w) : readHarmony (writeHarmony w) = canonHarmony w :=
  C03.BarOps.harmony_roundtrip w h

example : WellFormedHarm (.chord ['C'] (some ['m', 'a', 'j', '7']) (some ['E'])) := by decide
example : readHarmony (writeHarmony (.chord ['C'] (some ['m', 'a', 'j', '7']) (some ['E']))) =
    some [.chord ['C'] (some ['m', 'a', 'j', '7']) (some ['E'])] := by decide
example : readHarmony (writeHarmony (.cadence ['P', 'A', 'C'])) = some [.cadence (some ['P', 'A', 'C'])] := by decide
/-- a roman numeral text with a bar is read as numeral plus cadence: the hypothesis is needed -/
example : readHarmony (writeHarmony (.roman ['V', '|', 'H', 'C'])) = some [.cadence (some ['H', 'C']), .roman ['V']] := by
  decide

/-! ### `<print>` -/

/-- **print_roundtrip.**  `new-page` / `new-system` are read as written. -/
theorem print_roundtrip (p s : Bool) : readPrint (writePrint p s) = (p, s) := C03.BarOps.print_roundtrip p s

end C03
